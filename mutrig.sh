#!/bin/sh
# Mutation rig: an isolated copy of the verification machinery bound to a scratch worktree of /repo
# (/tmp/mut/repo), so that seeded changes can be tried without touching /repo (which running checks
# and builders compile against).  Usage:
#   ./mutrig.sh sync                 refresh /tmp/mut/verif from /verif (committed + working files)
#   ./mutrig.sh apply <patch>        reset the worktree to /repo's HEAD and apply a patch
#   ./mutrig.sh reset                reset the worktree to /repo's HEAD
#   ./mutrig.sh check <Cxx> [args]   run ./check in the rig (builds against /tmp/mut/repo)
set -e
RIG=${RIG:-/tmp/mut}
case "$1" in
  sync)
    mkdir -p $RIG/verif
    rsync -a --delete --exclude 'harness/target*' --exclude work --exclude replay --exclude .git --exclude evidence /verif/ $RIG/verif/
    mkdir -p $RIG/verif/work $RIG/verif/replay $RIG/verif/evidence
    sed -i "s#path = \"/repo/#path = \"$RIG/repo/#" $RIG/verif/harness/Cargo.toml
    sed -i "s#^REPO = \"/repo\"#REPO = \"$RIG/repo\"#" $RIG/verif/lib/core.py
    ;;
  reset)
    git -C $RIG/repo checkout -q --detach $(git -C /repo rev-parse HEAD) && git -C $RIG/repo checkout -q -- . && git -C $RIG/repo clean -fdq -e target
    ;;
  apply)
    $0 reset
    git -C $RIG/repo apply "$2"
    ;;
  check)
    shift
    cd $RIG/verif && VERIF_TARGET_DIR=$RIG/target ./check "$@"
    ;;
  *) echo "usage: $0 sync|reset|apply <patch>|check <Cxx>"; exit 2;;
esac

SPECIFICATION Spec
CONSTANTS
  P = 3
  E = 2
  R = 5
  Ids = {1}
  MaxEpoch = 7
INVARIANTS Covered
CHECK_DEADLOCK FALSE

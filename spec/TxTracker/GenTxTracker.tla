----------------------------- MODULE GenTxTracker -----------------------------
(* Unit-level cases for C07: the ring arithmetic (partition_for_expiry_epoch, advance) for small
   constants, with the expected partition of every probed epoch computed by the specification. *)
EXTENDS Integers, Sequences, FiniteSets, TLC, Json
PartAt(P, E, se, sp, e) == IF e < se \/ e >= se + P * E THEN -1 ELSE (sp + ((e - se) \div E)) % P
Case(P, E, se0, sp0, n) ==
  LET se == se0 + n * E
      sp == (sp0 + n) % P
  IN [P |-> P, E |-> E, se |-> se0, sp |-> sp0, adv |-> n, exp_se |-> se, exp_sp |-> sp,
      probes |-> [i \in 1..(P * E + 5) |-> LET e == se - 3 + i IN <<IF e < 0 THEN 0 ELSE e, PartAt(P, E, se, sp, IF e < 0 THEN 0 ELSE e)>>]]
Cases == {Case(P, E, se0, sp0, n) : P \in {1, 2, 3, 4}, E \in {1, 2, 3}, se0 \in {0, 5}, sp0 \in 0..3, n \in 0..9}
ASSUME \A c \in {x \in Cases : x.sp < x.P} : PrintT(<<"B", ToJson(c)>>)
VARIABLE x
Init == x = 0
Next == UNCHANGED x
Spec == Init /\ [][Next]_x
=============================================================================

---------------------------- MODULE TraceTxTracker ----------------------------
(* C07, impl -> spec at the REAL constants: a recorded ledger history (epoch changes through the
   test helper, committed system transactions, fresh and repeated submissions of V1 transactions
   and V2 transactions with a subintent) is accepted iff every result (commit / the rejection
   class) is the one the specification's Submit action determines, and the tracker's start
   epoch / start partition read from the database after every commit equal the model's.      *)
EXTENDS TxTracker, TraceIO
VARIABLE l
ItsOf(ev) == [k \in DOMAIN ev.its |-> <<ev.its[k][1], ev.its[k][2], ev.its[k][3], ev.its[k][4]>>]
TInit == /\ l = 1 /\ epoch = 0 /\ startEpoch = 0 /\ startPart = 0 /\ part = [p \in 0..(P - 1) |-> {}]
         /\ win = [i \in Ids |-> <<>>] /\ rec = {} /\ last = <<"init", 0, "">>
Step(A) == l <= Len(Rec) /\ A /\ l' = l + 1
TReset == Step(/\ Rec[l].a = "reset"
               /\ epoch' = Rec[l].epoch /\ startEpoch' = Rec[l].se /\ startPart' = Rec[l].sp
               /\ part' = [p \in 0..(P - 1) |-> {}] /\ win' = [i \in Ids |-> <<>>] /\ rec' = {}
               /\ last' = <<"init", 0, "">>)
\* the test helper writes the epoch directly: no transaction is committed, the ring does not move
TSetEpoch == Step(/\ Rec[l].a = "setepoch" /\ Rec[l].to > epoch
                  /\ epoch' = Rec[l].to /\ last' = <<"setepoch", 0, "">>
                  /\ UNCHANGED <<startEpoch, startPart, part, win, rec>>)
TTick == Step(/\ Rec[l].a = "tick" /\ Rec[l].result = "success" /\ Tick
              /\ startEpoch' = Rec[l].se /\ startPart' = Rec[l].sp)
TSubmit == Step(/\ Rec[l].a = "submit"
                /\ LET ev == Rec[l]
                       o == IF ev.result \in {"success", "failure"} THEN ev.result ELSE "success"
                   IN /\ Submit(ItsOf(ev), o)
                      /\ last'[3] = ev.result             \* the recorded result is the specified one
                      /\ startEpoch' = ev.se /\ startPart' = ev.sp)
TNext == TReset \/ TSetEpoch \/ TTick \/ TSubmit
TSpec == TInit /\ [][TNext]_<<vars, l>>
=============================================================================

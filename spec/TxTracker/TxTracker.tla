------------------------------ MODULE TxTracker ------------------------------
(* C07.  Replay protection: the transaction tracker (radix-engine/src/blueprints/transaction_tracker,
   boot checks and update_transaction_tracker in system/system_callback.rs).
   A ring of P partitions, each covering E epochs; an intent with expiry epoch `hi` (end of its
   validity window, exclusive) is recorded in the partition covering `hi`.  Every COMMITTED
   transaction (also the system transactions that change the epoch) advances the ring by at most
   one partition when the current epoch has passed the first partition.
   Intent kinds: "tx" = transaction intent (recorded on success AND failure),
                 "sub" = subintent (recorded on success only).                               *)
EXTENDS Integers, FiniteSets, Sequences, TLC
CONSTANTS P,          \* number of partitions
          E,          \* epochs per partition
          R,          \* maximum epoch range of a validity window (hi - lo <= R)
          Ids,        \* intent identities
          MaxEpoch
VARIABLES epoch, startEpoch, startPart, part,   \* part: [0..P-1 -> SUBSET Ids]
          win,        \* [Ids -> <<lo, hi, kind>> | <<>>]  an intent's hash fixes its window and kind
          rec,        \* history: intents recorded as committed
          last        \* observation of the last step: <<action, id, result>>
vars == <<epoch, startEpoch, startPart, part, win, rec, last>>

\* partition_for_expiry_epoch: -1 = None
PartFor(e) == IF e < startEpoch \/ e >= startEpoch + P * E THEN -1
              ELSE (startPart + ((e - startEpoch) \div E)) % P
\* the ring after a commit observed at epoch `ne`: at most ONE partition is dropped
AdvStartEpoch(ne) == IF ne >= startEpoch + E THEN startEpoch + E ELSE startEpoch
AdvStartPart(ne) == IF ne >= startEpoch + E THEN (startPart + 1) % P ELSE startPart
AdvParts(pt, ne) == IF ne >= startEpoch + E THEN [pt EXCEPT ![startPart] = {}] ELSE pt

Init == /\ epoch = 0 /\ startEpoch = 0 /\ startPart = 0 /\ part = [p \in 0..(P - 1) |-> {}]
        /\ win = [i \in Ids |-> <<>>] /\ rec = {} /\ last = <<"init", 0, "">>

\* a committed system transaction that moves to the next epoch
NextEpoch == /\ epoch < MaxEpoch
             /\ epoch' = epoch + 1
             /\ startEpoch' = AdvStartEpoch(epoch + 1) /\ startPart' = AdvStartPart(epoch + 1)
             /\ part' = AdvParts(part, epoch + 1)
             /\ last' = <<"epoch", 0, "">> /\ UNCHANGED <<win, rec>>

\* A user transaction carries a sequence of intents <<id, lo, hi, kind>> (V1: one "tx" intent; V2: the
\* transaction intent followed by its subintents).  Boot checks: the current epoch must lie in the
\* OVERALL window (intersection of all windows); then, intent by intent, the partition covering the
\* intent's own expiry epoch is looked up.
Max2(a, b) == IF a > b THEN a ELSE b
Min2(a, b) == IF a < b THEN a ELSE b
RECURSIVE OverallLo(_), OverallHi(_), HashVerdict(_)
OverallLo(its) == IF Len(its) = 1 THEN its[1][2] ELSE Max2(its[1][2], OverallLo(Tail(its)))
OverallHi(its) == IF Len(its) = 1 THEN its[1][3] ELSE Min2(its[1][3], OverallHi(Tail(its)))
HashVerdict(its) == IF its = <<>> THEN "Run"
                    ELSE IF PartFor(its[1][3]) = -1 THEN "PanicNotCovered"
                    ELSE IF its[1][1] \in part[PartFor(its[1][3])] THEN "PreviouslyCommitted"
                    ELSE HashVerdict(Tail(its))
Verdict(its) == IF epoch < OverallLo(its) THEN "NotYetValid"
                ELSE IF epoch >= OverallHi(its) THEN "NoLongerValid"
                ELSE HashVerdict(its)
WellFormedIts(its) ==
  /\ Len(its) >= 1 /\ OverallLo(its) < OverallHi(its)            \* static validation: a common window exists
  /\ \A k \in DOMAIN its : its[k][2] < its[k][3] /\ its[k][3] - its[k][2] <= R
  /\ its[1][4] = "tx" /\ \A k \in 2..Len(its) : its[k][4] = "sub"
  /\ \A k, m \in DOMAIN its : k # m => its[k][1] # its[m][1]
  /\ \A k \in DOMAIN its : win[its[k][1]] = <<>> \/ win[its[k][1]] = <<its[k][2], its[k][3], its[k][4]>>
Recorded(its, outcome) == {its[k][1] : k \in {m \in DOMAIN its : its[m][4] = "tx" \/ outcome = "success"}}
RECURSIVE AddAll(_, _, _)
AddAll(pt, its, outcome) ==
  IF its = <<>> THEN pt
  ELSE LET it == its[1]
           nxt == IF it[4] = "tx" \/ outcome = "success" THEN [pt EXCEPT ![PartFor(it[3])] = @ \cup {it[1]}] ELSE pt
       IN AddAll(nxt, Tail(its), outcome)
\* outcome: "success" | "failure" (both are commits)
Submit(its, outcome) ==
  /\ WellFormedIts(its)
  /\ win' = [i \in Ids |-> IF \E k \in DOMAIN its : its[k][1] = i
                            THEN LET k == CHOOSE k \in DOMAIN its : its[k][1] = i IN <<its[k][2], its[k][3], its[k][4]>>
                            ELSE win[i]]
  /\ LET v == Verdict(its) IN
       IF v # "Run"
       THEN /\ last' = <<"submit", its[1][1], v>>                  \* rejected: nothing changes
            /\ UNCHANGED <<epoch, startEpoch, startPart, part, rec>>
       ELSE /\ part' = AdvParts(AddAll(part, its, outcome), epoch)
            /\ startEpoch' = AdvStartEpoch(epoch) /\ startPart' = AdvStartPart(epoch)
            /\ rec' = rec \cup Recorded(its, outcome)
            /\ last' = <<"submit", its[1][1], outcome>>
            /\ UNCHANGED epoch
\* a committed transaction without user intents (system transaction): only the ring moves
Tick == /\ part' = AdvParts(part, epoch) /\ startEpoch' = AdvStartEpoch(epoch) /\ startPart' = AdvStartPart(epoch)
        /\ last' = <<"tick", 0, "">> /\ UNCHANGED <<epoch, win, rec>>
Windows == {<<lo, hi>> \in (0..MaxEpoch) \X (1..(MaxEpoch + R)) : lo < hi /\ hi - lo <= R}
Next == \/ NextEpoch \/ Tick
        \/ \E i \in Ids, w \in Windows, o \in {"success", "failure"} : Submit(<<<<i, w[1], w[2], "tx">>>>, o)
        \/ \E i, j \in Ids, w \in Windows, o \in {"success", "failure"} :
             \* V2: a root intent with one subintent; the subintent's window is derived from the root's
             \E d \in {-1, 0, 1} : Submit(<<<<i, w[1], w[2], "tx">>, <<j, w[1], w[2] + d, "sub">>>>, o)
Spec == Init /\ [][Next]_vars

\* ---- the property
Expiry(i) == win[i][2]
\* an intent recorded as committed stays findable for as long as its window could still admit it
Retained == \A i \in rec : epoch < Expiry(i) => (PartFor(Expiry(i)) # -1 /\ i \in part[PartFor(Expiry(i))])
\* hence: no intent is committed twice (transaction intents), no subintent succeeds twice
NoReplay == [][last'[1] = "submit" /\ last'[3] \in {"success", "failure"}
               => (rec' \ rec) \cap rec = {} /\ last'[2] \notin rec]_vars
\* stronger form used by the model check: a commit never re-records anything
NoDoubleRecord == [][\A i \in Ids : (i \in rec /\ last'[1] = "submit" /\ last'[3] \in {"success", "failure"})
                        => win'[i] = win[i]]_vars
\* commits happen only inside the validity window (checked on the pre-state epoch)
InWindow == [][last'[1] = "submit" /\ last'[3] \in {"success", "failure"}
               => (win'[last'[2]][1] <= epoch /\ epoch < win'[last'[2]][2])]_vars
\* the "should cover all valid epoch ranges" expect never fires
Covered == last[3] # "PanicNotCovered"
\* the ring never lags by more than one partition when every epoch change is a commit
NoLag == epoch < startEpoch + 2 * E
=============================================================================

SPECIFICATION Spec
CONSTANTS
  P = 3
  E = 2
  R = 4
  Ids = {1, 2}
  MaxEpoch = 7
INVARIANTS Retained Covered NoLag
PROPERTIES NoReplay InWindow
CHECK_DEADLOCK FALSE

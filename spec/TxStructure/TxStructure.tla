---------------------------- MODULE TxStructure ----------------------------
(* C35.  Structure of the subintents of a V2 transaction
   (radix-transactions/src/validation/transaction_structure_validator.rs,
   TransactionValidator::validate_intents_and_structure).

   A structure `c` is a record
     n        number of listed non-root subintents (positions 1..n; intent 0 is the root)
     m        number of distinct hash names in use (hash names 1..m; name 0 is a hash that
              belongs to no listed subintent: an "unknown child")
     hashes   <<hash name of the subintent listed at position j>>      (duplicates allowed)
     ch       <<children sequence of intent 0, of position 1, ... of position n>>
              (each a sequence of hash names 0..m; duplicates allowed)
     ytp      <<number of YIELD_TO_PARENT of position j>>
     ytc      <<for intent i: <<number of YIELD_TO_CHILD to hash name 0, 1, .. m>> >>
     maxDepth maximum depth allowed for a non-root subintent (children of the root have depth 1)
   The definition of WellFormed below is a transcription of the property STATEMENT, not of the
   four-step algorithm of the code.                                                           *)
EXTENDS Integers, Sequences, FiniteSets, TLC

Listed(c)  == 1..c.n
Intents(c) == 0..c.n
Ch(c, i)   == c.ch[i + 1]
HashSet(c) == {c.hashes[j] : j \in Listed(c)}
\* a child entry: <<intent, position in its children sequence>>
Entries(c) == UNION {{<<i, k>> : k \in DOMAIN Ch(c, i)} : i \in Intents(c)}
EntryHash(c, e) == Ch(c, e[1])[e[2]]
\* the entries that declare the subintent listed at position j as a child
ParentEntries(c, j) == {e \in Entries(c) : EntryHash(c, e) = c.hashes[j]}

\* Lvl(c, d): positions that can be reached from the root by a walk of exactly d child steps
RECURSIVE Lvl(_, _)
Lvl(c, d) == IF d = 0 THEN {0}
             ELSE LET p == Lvl(c, d - 1)
                  IN {j \in Listed(c) : \E e \in ParentEntries(c, j) : e[1] \in p}
ReachWithin(c, D) == UNION {Lvl(c, d) : d \in 1..D}
\* reachable at all (a simple path has at most n steps)
Reachable(c) == ReachWithin(c, c.n)
\* reachable by some walk longer than maxDepth (a window of n+1 levels sees every such walk,
\* also those that run through a cycle)
DeepReach(c) == UNION {Lvl(c, d) : d \in (c.maxDepth + 1)..(c.maxDepth + c.n + 1)}
\* j is on a cycle: it can be reached from itself
RECURSIVE From(_, _, _)
From(c, S, d) == IF d = 0 THEN S
                 ELSE LET p == From(c, S, d - 1)
                      IN p \cup {j \in Listed(c) : \E e \in ParentEntries(c, j) : e[1] \in p}
OnCycle(c, j) == \E e \in ParentEntries(c, j) : e[1] \in From(c, {j}, c.n)

---------------------------------------------------------------------------
\* The statement, clause by clause
Distinct(c)   == \A i, j \in Listed(c) : i # j => c.hashes[i] # c.hashes[j]
ChildrenPresent(c) == \A e \in Entries(c) : EntryHash(c, e) \in HashSet(c)
OneParent(c)  == \A j \in Listed(c) : Cardinality(ParentEntries(c, j)) = 1
Acyclic(c)    == \A j \in Listed(c) : ~OnCycle(c, j)
ReachableInDepth(c) == \A j \in Listed(c) : j \in ReachWithin(c, c.maxDepth)
YieldsMatch(c) == \A j \in Listed(c) : \A e \in ParentEntries(c, j) :
                     Cardinality(ParentEntries(c, j)) = 1 =>
                        c.ytc[e[1] + 1][c.hashes[j] + 1] = c.ytp[j]

StructOK(c)   == Distinct(c) /\ ChildrenPresent(c) /\ OneParent(c) /\ Acyclic(c) /\ ReachableInDepth(c)
WellFormed(c) == StructOK(c) /\ YieldsMatch(c)

---------------------------------------------------------------------------
\* The defects of a structure, named by the error class that reports them.  A rejected
\* structure may be reported with ANY of its defects (the statement does not order them).
Defects(c) ==
     (IF ~Distinct(c) THEN {"Dup"} ELSE {})
  \cup (IF ~ChildrenPresent(c) THEN {"Unknown"} ELSE {})
  \cup (IF \E j \in Listed(c) : Cardinality(ParentEntries(c, j)) >= 2 THEN {"MultiParent"} ELSE {})
  \cup (IF \E j \in Listed(c) : j \notin Reachable(c) THEN {"Unreach"} ELSE {})
  \cup (IF DeepReach(c) # {} THEN {"Depth"} ELSE {})
  \cup (IF ~YieldsMatch(c) THEN {"Yield"} ELSE {})

Classes == {"Dup", "Unknown", "MultiParent", "Unreach", "Depth", "Yield"}

\* what the validator may answer for c
Expected(c) == [ok |-> WellFormed(c), errs |-> Defects(c)]

---------------------------------------------------------------------------
\* Independent (constructive) characterisation used by the model check: a structure is
\* well-formed iff it is the picture of a labelled rooted tree: there is a parent function
\* such that the child entries are exactly the pairs <<par[j], hash j>>, following `par`
\* reaches the root in at most maxDepth steps, and the yield counts agree along every edge.
RECURSIVE DepthBy(_, _, _)
DepthBy(par, j, fuel) == IF fuel = 0 THEN 99
                         ELSE IF par[j] = 0 THEN 1
                         ELSE LET d == DepthBy(par, par[j], fuel - 1) IN d + 1
GeneratedByTree(c) ==
  /\ Distinct(c)
  /\ \E par \in [Listed(c) -> Intents(c)] :
       /\ \A i \in Intents(c) :
             /\ Len(Ch(c, i)) = Cardinality({j \in Listed(c) : par[j] = i})
             /\ {Ch(c, i)[k] : k \in DOMAIN Ch(c, i)} = {c.hashes[j] : j \in {x \in Listed(c) : par[x] = i}}
       /\ \A j \in Listed(c) : DepthBy(par, j, c.n + 1) <= c.maxDepth
       /\ \A j \in Listed(c) : c.ytc[par[j] + 1][c.hashes[j] + 1] = c.ytp[j]

Laws(c) ==
  /\ WellFormed(c) <=> (Defects(c) = {})
  /\ WellFormed(c) <=> GeneratedByTree(c)
  \* acyclicity follows from the other clauses (it is stated, but redundant)
  /\ (Distinct(c) /\ ChildrenPresent(c) /\ OneParent(c) /\ ReachableInDepth(c)) => Acyclic(c)
  /\ Defects(c) \subseteq Classes
=============================================================================

--------------------------- MODULE GenTxStructure ---------------------------
(* C35: the bounded universe of structures.  Every structure is one state; TLC checks the laws
   of TxStructure.tla on it (S) and prints it together with the verdict the specification
   expects (G).

   Full(n): every structure with n listed subintents whose hash list is any pattern of equal /
   distinct hashes, whose child entries are ANY multiset of at most n + Extra pairs
   <<intent, hash name or "unknown">> (so self loops, 2-cycles, islands, shared children,
   duplicated entries, unknown children and missing parents all occur), maxDepth 0..3, root =
   transaction intent or subintent, and yield counts: all equal to 1 / a mixed pattern / for the
   structurally valid ones every combination of 0..2 on every edge.
   Sample3 / Sample4: seeded samples (linear congruential stream computed in TLA+) of the n = 3
   universe and of perturbed n = 4 trees.                                                     *)
EXTENDS TxStructure, Json, SequencesExt
CONSTANTS NS,        \* set of n enumerated completely
          Extra,     \* child entries allowed beyond n (n <= 2)
          Extra3,    \* the same for n = 3 (quick tier: 0 = at most 3 entries, thorough: 2)
          Yields3,   \* "all": every 0..2 combination on the edges of valid n = 3 trees; "edge": one edge at a time
          Sample3,   \* number of sampled n = 3 structures
          Sample4,   \* number of sampled n = 4 structures
          Seed
VARIABLES stage, key, c

MaxOf(S) == CHOOSE x \in S : \A y \in S : y <= x
Patterns(n) == IF n = 0 THEN {<<>>}
               ELSE {p \in [1..n -> 1..n] : p[1] = 1 /\ \A k \in 2..n : \E i \in 1..(k - 1) : p[k] <= p[i] + 1}
NumSyms(p) == IF p = <<>> THEN 0 ELSE MaxOf({p[k] : k \in DOMAIN p})

\* entry type t in 1..(n+1)*(m+1)  <->  <<intent, hash name>>
TI(t, m) == (t - 1) \div (m + 1)
TS(t, m) == (t - 1) % (m + 1)
RECURSIVE MS(_, _, _)
MS(k, lo, hi) == IF k = 0 THEN {<<>>}
                 ELSE UNION {{<<t>> \o r : r \in MS(k - 1, t, hi)} : t \in lo..hi}
Multisets(n, m, K) == UNION {MS(k, 1, (n + 1) * (m + 1)) : k \in 0..K}
ChSeqs(ms, n, m) == [i1 \in 1..(n + 1) |->
                       LET sel == SelectSeq(ms, LAMBDA t : TI(t, m) = i1 - 1)
                       IN [k \in 1..Len(sel) |-> TS(sel[k], m)]]

YMatch(n, m) == [ytp |-> [j \in 1..n |-> 1], ytc |-> [i \in 1..(n + 1) |-> [s \in 1..(m + 1) |-> 1]]]
YMixed(n, m) == [ytp |-> [j \in 1..n |-> j % 3], ytc |-> [i \in 1..(n + 1) |-> [s \in 1..(m + 1) |-> (i + s) % 3]]]

Mk(n, p, chs, D, rs, y) ==
  [n |-> n, m |-> NumSyms(p), hashes |-> p, ch |-> chs, ytp |-> y.ytp, ytc |-> y.ytc,
   maxDepth |-> D, rootSub |-> rs]

Variant(vi, n, m) == IF vi = 1 THEN <<FALSE, YMatch(n, m)>>
                     ELSE IF vi = 2 THEN <<FALSE, YMixed(n, m)>> ELSE <<TRUE, YMatch(n, m)>>

\* all yield combinations on the edges of a structurally valid case
YtcFrom(x, g) == [i1 \in 1..(x.n + 1) |-> [s1 \in 1..(x.m + 1) |->
                   LET js == {j \in Listed(x) : x.hashes[j] = s1 - 1 /\ \E e \in ParentEntries(x, j) : e[1] = i1 - 1}
                   IN IF js = {} THEN 1 ELSE g[CHOOSE j \in js : TRUE]]]
AllYieldsOf(S) == UNION {{[x EXCEPT !.ytp = f, !.ytc = YtcFrom(x, g)] : f \in [1..x.n -> 0..2], g \in [1..x.n -> 0..2]} : x \in S}

\* The universe is cut into chunks <<n, pattern, maxDepth, variant, first entry type>> so that the
\* TLC workers can build and check the chunks in parallel (a chunk is a state of stage 0, its
\* structures are the successors).
\* (for n = 3 with the large universe the subintent-root variant is enumerated for maxDepth 1 and 3 only and the
\* mixed-yield variant not for maxDepth 0, to keep the thorough run inside its time budget)
VariantsAt(n, D) == IF n < 3 \/ Extra3 < 2 THEN 1..3 ELSE {1} \cup (IF D > 0 THEN {2} ELSE {}) \cup (IF D \in {1, 3} THEN {3} ELSE {})
Chunks(n) == UNION {UNION {{<<n, p, D, vi, t0>> : vi \in VariantsAt(n, D), t0 \in 0..((n + 1) * (NumSyms(p) + 1))} : D \in 0..3} : p \in Patterns(n)}
ExtraFor(n) == IF n = 3 THEN Extra3 ELSE Extra
\* yield counts next to the matching ones on ONE edge of a structurally valid case (the others stay 1 / 1)
EdgeYieldsOf(S) == UNION {{[x EXCEPT !.ytp = [j \in 1..x.n |-> IF j = e THEN yy[1] ELSE 1],
                                     !.ytc = YtcFrom(x, [j \in 1..x.n |-> IF j = e THEN yy[2] ELSE 1])] :
                              e \in 1..x.n, yy \in {<<1, 1>>, <<0, 1>>, <<1, 0>>, <<2, 1>>, <<1, 2>>, <<2, 2>>, <<0, 0>>, <<0, 2>>, <<2, 0>>}} : x \in S}
FullChunk(ck) ==
  LET n == ck[1]  p == ck[2]  D == ck[3]  vi == ck[4]  t0 == ck[5]
      m == NumSyms(p)
      hi == (n + 1) * (m + 1)
      mss == IF t0 = 0 THEN {<<>>} ELSE UNION {{<<t0>> \o r : r \in MS(kk - 1, t0, hi)} : kk \in 1..(n + ExtraFor(n))}
      v == Variant(vi, n, m)
      base == {Mk(n, p, ChSeqs(ms, n, m), D, v[1], v[2]) : ms \in mss}
  IN base \cup (IF vi = 1 THEN (IF n = 3 /\ Yields3 = "edge" THEN EdgeYieldsOf({y \in base : StructOK(y)})
                                ELSE AllYieldsOf({y \in base : StructOK(y)})) ELSE {})

---------------------------------------------------------------------------
\* seeded samples
Rnd(x) == (x * 1103 + 12345) % 65521
RECURSIVE RndSeq(_, _)
RndSeq(x, len) == IF len = 0 THEN <<>> ELSE LET y == Rnd(x) IN <<y \div 7>> \o RndSeq(y, len - 1)
Stream(idx, len) == RndSeq((Seed + idx * 7919) % 65521, len)

PatSeq3 == SetToSeq(Patterns(3))
MSq3 == [mm \in 1..3 |-> SetToSeq(Multisets(3, mm, 3 + Extra))]   \* the sample always draws from the large universe
S3(idx) == LET r == Stream(idx, 8)
               p == PatSeq3[(r[1] % Len(PatSeq3)) + 1]
               m == NumSyms(p)
               ms == MSq3[m][(((r[2] % 1000) * 1000 + (r[3] % 1000)) % Len(MSq3[m])) + 1]
               v == IF r[5] % 3 = 0 THEN <<FALSE, YMatch(3, m)>>
                    ELSE IF r[5] % 3 = 1 THEN <<FALSE, YMixed(3, m)>> ELSE <<TRUE, YMatch(3, m)>>
           IN Mk(3, p, ChSeqs(ms, 3, m), r[4] % 4, v[1], v[2])

\* tree-ish sample for n listed subintents: a parent choice per subintent (towards earlier
\* intents half of the time), up to two extra entries, possibly one entry dropped, possibly a
\* repeated hash
ST(n, idx) ==
           LET r == Stream(idx, 24)
               p == IF r[1] % 8 = 0 THEN [j \in 1..n |-> IF j = n THEN 1 + (r[2] % (n - 1)) ELSE j] ELSE [j \in 1..n |-> j]
               m == NumSyms(p)
               par == [j \in 1..n |-> IF r[2 + j] % 4 # 0 THEN (r[6 + j] % j) ELSE (r[6 + j] % (n + 1))]
               drop == IF r[11] % 6 = 0 THEN 1 + (r[12] % n) ELSE 0
               extra == [k \in 1..(IF r[13] % 2 = 0 THEN 0 ELSE 1 + ((r[13] \div 2) % 2)) |-> <<r[13 + k] % (n + 1), r[15 + k] % (m + 1)>>]
               edges == [j \in 1..n |-> <<par[j], p[j]>>] \o extra
               chs == [i1 \in 1..(n + 1) |->
                         LET sel == SelectSeq([k \in 1..Len(edges) |-> IF k = drop THEN <<-1, 0>> ELSE edges[k]],
                                              LAMBDA e : e[1] = i1 - 1)
                         IN [k \in 1..Len(sel) |-> sel[k][2]]]
               y == IF r[18] % 3 = 0 THEN YMixed(n, m) ELSE YMatch(n, m)
               yy == IF r[18] % 3 = 2 THEN [y EXCEPT !.ytp = [j \in 1..n |-> r[18 + j] % 3]] ELSE y
           IN Mk(n, p, chs, 1 + (r[23] % 4), r[24] % 5 = 0, yy)
S4(idx) == ST(4, idx)
\* n = 3 sample: odd indices uniform over the multiset universe, even indices tree-ish
S3x(idx) == IF idx % 2 = 1 THEN S3(idx) ELSE ST(3, idx)

Blk == 100
SampleChunks == {<<-3, <<>>, 0, 0, b>> : b \in 0..((Sample3 + Blk - 1) \div Blk - 1)}
                  \cup {<<-4, <<>>, 0, 0, b>> : b \in 0..((Sample4 + Blk - 1) \div Blk - 1)}
AllChunks == UNION {Chunks(n) : n \in NS} \cup SampleChunks
CasesOf(ck) == IF ck[1] = -3 THEN {S3x(idx) : idx \in (ck[5] * Blk + 1)..(IF (ck[5] + 1) * Blk < Sample3 THEN (ck[5] + 1) * Blk ELSE Sample3)}
                ELSE IF ck[1] = -4 THEN {S4(idx) : idx \in (ck[5] * Blk + 1)..(IF (ck[5] + 1) * Blk < Sample4 THEN (ck[5] + 1) * Blk ELSE Sample4)}
                ELSE FullChunk(ck)

CfgDepth(x) == x.maxDepth + (IF x.rootSub THEN 1 ELSE 0)
Dummy == Mk(0, <<>>, <<<<>>>>, 0, FALSE, YMatch(0, 0))

Init == stage = 0 /\ key \in AllChunks /\ c = Dummy
Expand == stage = 0 /\ stage' = 1 /\ key' = key /\ c' \in CasesOf(key)
Next == Expand
Spec == Init /\ [][Next]_<<stage, key, c>>
\* the structure alone identifies a case
View == <<stage, IF stage = 0 THEN key ELSE <<>>, c>>

LawsHold == stage = 1 => Laws(c)
Emit == stage = 1 => PrintT(<<"B", ToJson([c |-> c, cfgDepth |-> CfgDepth(c), exp |-> Expected(c)])>>)
=============================================================================

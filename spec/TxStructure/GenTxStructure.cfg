SPECIFICATION Spec
CONSTANTS
  NS = {0, 1, 2}
  Extra = 2
  Sample3 = 0
  Sample4 = 0
  Seed = 1
INVARIANTS LawsHold Emit
VIEW View
CHECK_DEADLOCK FALSE

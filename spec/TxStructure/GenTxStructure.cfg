SPECIFICATION Spec
CONSTANTS
  NS = {0, 1, 2}
  Extra = 2
  Extra3 = 0
  Yields3 = "edge"
  Sample3 = 0
  Sample4 = 0
  Seed = 1
INVARIANTS LawsHold Emit
VIEW View
CHECK_DEADLOCK FALSE

---------------------------- MODULE TraceDeterminism ----------------------------
(* T: the recorded Exec events {run, thread, i, digest} of all runs of the plan.  The first
   observation of transaction i fixes canon[i]; every later observation must agree
   (Determinism!Agrees).  Deviating observations are reported (BAD) and consumed.          *)
EXTENDS Integers, FiniteSets, Sequences, TLC, TraceIO
VARIABLES l, canon
Ev == Rec[l]
None == <<>>
Get(i) == IF i \in DOMAIN canon THEN canon[i] ELSE None
Agrees(i, d) == Get(i) = None \/ Get(i) = d
TInit == l = 1 /\ canon = <<>>
TExec == /\ l <= Len(Rec) /\ Ev.a = "Exec"
         /\ (IF Agrees(Ev.i, Ev.digest) THEN TRUE ELSE PrintT(<<"BAD", l>>))
         /\ canon' = IF Get(Ev.i) = None THEN (Ev.i :> Ev.digest) @@ canon ELSE canon
         /\ l' = l + 1
TSpec == TInit /\ [][TExec]_<<l, canon>>
=============================================================================

---------------------------- MODULE MCDeterminism ----------------------------
(* S: the acceptance rule on a small instance: whatever the order of observations, the accepted
   observations of a transaction all carry one digest (Deterministic), and a deviating
   observation is never accepted.  G: the run plan, printed as JSON.                       *)
EXTENDS Determinism, Json
CONSTANTS PlanMode      \* "quick" | "small" | "full"
VARIABLE obs            \* accepted observations <<run index, i, d>>
MCRuns == {[diag |-> {}, cache |-> "warm", threads |-> 1, proc |-> "same"],
           [diag |-> Flags, cache |-> "cold", threads |-> 4, proc |-> "fresh"],
           [diag |-> {"cost_breakdown"}, cache |-> "warm", threads |-> 4, proc |-> "same"]}
MCInit == Init /\ obs = {}
MCNext == \E r \in MCRuns, i \in 1..NTx, d \in Digests :
            /\ <<r, i>> \notin seen
            /\ Exec(r, i, d)
            /\ obs' = obs \cup {<<r, i, d>>}
MCSpec == MCInit /\ [][MCNext]_<<vars, obs>>
Deterministic == \A o1, o2 \in obs : o1[2] = o2[2] => o1[3] = o2[3]
CanonIsObserved == \A i \in 1..NTx : canon[i] # None => \E o \in obs : o[2] = i /\ o[3] = canon[i]
\* a deviating digest is refused
Refuses == \A r \in MCRuns, i \in 1..NTx, d \in Digests : (canon[i] # None /\ canon[i] # d) => ~ENABLED Exec(r, i, d)

Plan == IF PlanMode = "quick" THEN QuickPlan ELSE IF PlanMode = "small" THEN SmallPlan ELSE Runs
RECURSIVE SeqOfSet(_)
SeqOfSet(S) == IF S = {} THEN <<>> ELSE LET e == CHOOSE e \in S : TRUE IN <<e>> \o SeqOfSet(S \ {e})
PlanSeq == SeqOfSet(Plan)
ASSUME Cardinality(Runs) = 128 /\ QuickPlan \subseteq Runs /\ Cardinality(QuickPlan) = 16 /\ SmallPlan \subseteq Runs /\ Cardinality(SmallPlan) = 6
ASSUME \A k \in DOMAIN PlanSeq :
         PrintT(<<"B", ToJson([run |-> k, diag |-> SeqOfSet(PlanSeq[k].diag), cache |-> PlanSeq[k].cache,
                               threads |-> PlanSeq[k].threads, proc |-> PlanSeq[k].proc, len |-> RunLen(PlanSeq[k])])>>)
=============================================================================

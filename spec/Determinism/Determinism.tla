------------------------------ MODULE Determinism ------------------------------
(* C01.  Executing the same transaction sequence from the same ledger state gives, for every
   transaction, the same digest - (outcome, state updates, application events, fee summary, fee
   source, fee destination, performed nullifications), byte for byte - whatever the RUN is:

     run = [diag  : subset of the diagnostic-only settings of ExecutionConfig
                    {kernel_trace, cost_breakdown, execution_trace, debug_information},
            cache : "warm" (one VmModules / WASM code cache for the whole run) | "cold" (new per transaction),
            threads : 1 | 4 (OS threads executing their own copy concurrently, sharing the code cache),
            proc  : "same" | "fresh" (a new operating-system process)]

   The model keeps the canonical digest of every transaction (first observation) and accepts an
   observation only if it equals the canonical one.                                          *)
EXTENDS Integers, FiniteSets, Sequences, TLC
CONSTANTS FullLen, DebugLen,  \* length of the sequence a run executes (runs with debug information, which is
                              \* several times slower, execute a prefix)
          NTx,          \* transactions 1..NTx
          Digests       \* abstract digests (model checking only)
Flags == {"kernel_trace", "cost_breakdown", "execution_trace", "debug_information"}
Runs == [diag : SUBSET Flags, cache : {"warm", "cold"}, threads : {1, 4}, proc : {"same", "fresh"}]

VARIABLES canon,        \* [1..NTx -> digest or "none"]
          seen          \* set of <<run, i>> observed
vars == <<canon, seen>>
None == "none"
Init == canon = [i \in 1..NTx |-> None] /\ seen = {}
\* an observation of transaction i in run r with digest d is accepted iff it agrees with the canon
Exec(r, i, d) ==
  /\ canon[i] = None \/ canon[i] = d
  /\ canon' = [canon EXCEPT ![i] = d]
  /\ seen' = seen \cup {<<r, i>>}
Agrees(i, d) == canon[i] = None \/ canon[i] = d

RunLen(r) == IF "debug_information" \in r.diag THEN DebugLen ELSE FullLen

\* the run plan of the quick tier: all flags off / each flag alone / all on (warm, 1 thread, same process),
\* cold cache without and with all flags, 4 threads (warm, cold, all flags), a fresh process (plain, all flags,
\* cold) and the combination of everything
Plain == [diag |-> {}, cache |-> "warm", threads |-> 1, proc |-> "same"]
QuickPlan ==
  {Plain}
  \cup {[Plain EXCEPT !.diag = {f}] : f \in Flags}
  \cup {[Plain EXCEPT !.diag = Flags]}
  \cup {[Plain EXCEPT !.cache = "cold"], [Plain EXCEPT !.cache = "cold", !.diag = Flags]}
  \cup {[Plain EXCEPT !.threads = 4], [Plain EXCEPT !.threads = 4, !.cache = "cold"], [Plain EXCEPT !.threads = 4, !.diag = Flags]}
  \cup {[Plain EXCEPT !.proc = "fresh"], [Plain EXCEPT !.proc = "fresh", !.diag = Flags], [Plain EXCEPT !.proc = "fresh", !.cache = "cold"]}
  \cup {[Plain EXCEPT !.proc = "fresh", !.threads = 4], [diag |-> Flags, cache |-> "cold", threads |-> 4, proc |-> "fresh"]}
\* a six-run plan for the expensive workload (all repository scenarios)
SmallPlan == {Plain, [Plain EXCEPT !.cache = "cold"], [Plain EXCEPT !.threads = 4], [Plain EXCEPT !.proc = "fresh"],
              [Plain EXCEPT !.diag = Flags \ {"debug_information"}],
              [diag |-> Flags, cache |-> "cold", threads |-> 4, proc |-> "fresh"]}
=============================================================================

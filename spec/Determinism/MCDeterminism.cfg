SPECIFICATION MCSpec
CONSTANTS
  NTx = 2
  FullLen = 100000
  DebugLen = 50
  Digests = {"d1", "d2"}
  PlanMode = "quick"
INVARIANTS Deterministic CanonIsObserved Refuses
CHECK_DEADLOCK FALSE

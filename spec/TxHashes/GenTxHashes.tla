----------------------------- MODULE GenTxHashes -----------------------------
(* C32: transaction shapes x fields, and payload deviations.  Every case is a state; TLC checks on
   the field cases that the identifiers which change (term inequality under free hash constructors)
   are exactly the identifier of the hashed part that contains the field and everything built on it,
   and prints the case with the expected set.  The harness builds the shape as a real transaction,
   changes exactly that field of the transaction value, recomputes all identifiers with prepare and
   reports a different set; it also re-encodes the decoded payload (round trip).
   Payload cases describe one deviation from the canonical form of a raw payload; the expected
   verdict of prepare is CanonicalOk.                                                           *)
EXTENDS TxHashes, Json
VARIABLE c

Z(n) == [k \in 1..n |-> 0]
\* intents differ from each other (discriminator leaf, signatures): identical subintents would have identical hashes
IntentRec(i, children) == [hdr |-> [k \in 1..6 |-> IF k = 6 THEN 10 * i ELSE 0], blobs |-> Z(2), msg |-> 0, children |-> children,
                           cterm |-> [k \in DOMAIN children |-> <<"H", "placeholder", <<>>>>], instr |-> Z(2)]
V1 == [kind |-> "v1", hdr |-> Z(7), instr |-> Z(2), blobs |-> Z(2), msg |-> 0, isigs |-> Z(2), nsig |-> 0]
\* parents: parent of the non-root intents 2..n (children and list order are by increasing index)
ChildrenOf(parents, i) == LET S == {j \in 2..(Len(parents) + 1) : parents[j - 1] = i}
                              RECURSIVE Asc(_)
                              Asc(T) == IF T = {} THEN <<>>
                                        ELSE LET m == CHOOSE x \in T : \A y \in T : x <= y IN <<m>> \o Asc(T \ {m})
                          IN Asc(S)
Tree(kind, parents) == Normalize(
  [kind |-> kind, thdr |-> Z(3),
   intents |-> [i \in 1..(Len(parents) + 1) |-> IntentRec(i, ChildrenOf(parents, i))],
   order |-> [k \in 1..Len(parents) |-> k + 1],
   isigs |-> [i \in 1..(Len(parents) + 1) |-> IF i = 1 THEN <<100, 101>> ELSE <<100 * i>>], nsig |-> 0])

Shapes ==
  {[name |-> "v1", parents |-> <<>>, tx |-> V1],
   [name |-> "ledger_v1", parents |-> <<>>, tx |-> [kind |-> "ledger", inner |-> V1]]}
  \cup {[name |-> "v2", parents |-> p, tx |-> Tree("v2", p)] : p \in {<<>>, <<1>>, <<1, 1>>, <<1, 2>>, <<1, 1, 2>>, <<1, 2, 3>>}}
  \cup {[name |-> "partial", parents |-> p, tx |-> Tree("partial", p)] : p \in {<<>>, <<1>>, <<1, 2>>, <<1, 1>>}}
  \cup {[name |-> "ledger_v2", parents |-> <<1>>, tx |-> [kind |-> "ledger", inner |-> Tree("v2", <<1>>)]]}

\* payload deviations ------------------------------------------------------------
Settings(b, ch, su, v2) == [maxBlobs |-> b, maxChildren |-> ch, maxSubintents |-> su, v2Permitted |-> v2]
BaseP(payload) ==
  [payload |-> payload, prefix |-> "ok", discriminator |-> "ok", trailing |-> 0, size_encoding |-> "minimal",
   field_count |-> "ok", blobs |-> 2, children |-> IF payload \in {"notarized_v1", "ledger_v1"} THEN 0 ELSE 2,
   subintents |-> IF payload \in {"notarized_v1", "ledger_v1"} THEN 0 ELSE 2,
   sig_batches |-> IF payload \in {"notarized_v1", "ledger_v1"} THEN 0 ELSE 2,
   v2 |-> payload \notin {"notarized_v1", "ledger_v1"},
   limited_length |-> payload \in {"notarized_v1", "notarized_v2", "ledger_v1"}, length_over |-> 0,
   settings |-> Settings(2, 2, 2, TRUE)]
Payloads == {"notarized_v1", "notarized_v2", "signed_partial", "ledger_v1"}
IsV2(p) == p \in {"notarized_v2", "signed_partial"}
Deviations(p) ==
  LET b == BaseP(p) IN
  {<<"none", b>>,
   <<"prefix", [b EXCEPT !.prefix = "bad"]>>,
   <<"discriminator_other", [b EXCEPT !.discriminator = "other"]>>,
   <<"discriminator_unknown", [b EXCEPT !.discriminator = "unknown"]>>,
   <<"trailing", [b EXCEPT !.trailing = 1]>>,
   <<"padded_size", [b EXCEPT !.size_encoding = "padded"]>>,
   <<"field_count_more", [b EXCEPT !.field_count = "more"]>>,
   <<"field_count_less", [b EXCEPT !.field_count = "less"]>>,
   <<"blobs_at_limit", [b EXCEPT !.settings.maxBlobs = 2]>>,
   <<"blobs_over_limit", [b EXCEPT !.settings.maxBlobs = 1]>>,
   <<"length_at_limit", [b EXCEPT !.length_over = 0]>>,
   <<"length_over_limit", [b EXCEPT !.length_over = 1]>>}
  \cup (IF IsV2(p)
        THEN {<<"children_over_limit", [b EXCEPT !.settings.maxChildren = 1]>>,
              <<"subintents_over_limit", [b EXCEPT !.settings.maxSubintents = 1]>>,
              <<"sig_batches_over_limit", [b EXCEPT !.sig_batches = 3]>>,
              <<"v2_not_permitted", [b EXCEPT !.settings.v2Permitted = FALSE]>>}
        ELSE {<<"v2_not_permitted_irrelevant", [b EXCEPT !.settings.v2Permitted = FALSE]>>})
PayloadCases == UNION {{[kind |-> "payload", shape |-> "", parents |-> <<>>, f |-> Fld("", 0, 0), mode |-> "", ids |-> {}, affected |-> {},
                         law |-> TRUE, payload |-> p, dev |-> d[1], accept |-> CanonicalOk(d[2]), p |-> d[2]] : d \in Deviations(p)}
                       : p \in Payloads}

ConsistentU(u) == u.kind = "v1" \/ Consistent(u)
Modes(s, f) == {"value"} \cup (IF s.name \in {"v2", "ledger_v2", "partial"} /\ f.i >= 2 /\ f.part \notin {"isig"} THEN {"edit"} ELSE {})
FieldCases == UNION {UNION {{[kind |-> "field", shape |-> s.name, parents |-> s.parents, f |-> f, mode |-> mode,
                       ids |-> Ids(s.tx), affected |-> Affected(s.tx, f, mode),
                       law |-> Affected(s.tx, f, mode) = Covers(s.tx, f, mode)
                                 /\ ConsistentU(User(s.tx)) /\ (mode = "edit" => ConsistentU(User(Edit(s.tx, f)))),
                       payload |-> "", dev |-> "", accept |-> TRUE, p |-> BaseP("notarized_v1")] : mode \in Modes(s, f)}
                            : f \in Fields(s.tx)} : s \in Shapes}

Init == c \in [k : {"field"}, x : FieldCases] \cup [k : {"payload"}, x : PayloadCases]
Next == UNCHANGED c
Spec == Init /\ [][Next]_c

\* S: the statement holds on the hash structure
LawsHold == c.x.law
\* every user-level change reaches the notarized hash, every change reaches the ledger hash
Commitment == c.k = "field" /\ c.x.shape \in {"v1", "v2", "ledger_v1", "ledger_v2"} =>
                 "N" \in c.x.affected /\ (c.x.shape \in {"ledger_v1", "ledger_v2"} => "L" \in c.x.affected)
Emit == PrintT(<<"B", ToJson(c.x)>>)
=============================================================================

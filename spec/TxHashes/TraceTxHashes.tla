---------------------------- MODULE TraceTxHashes ----------------------------
(* C32, impl -> spec: recorded single-byte changes of real raw payloads (all kinds); the
   specification's ByteChangeOk decides every event; and the byte-level non-canonical payload family (duplicated
   elements of set-like fields) with all pairs inside a group, decided by NonCanonOk / PairOk.                                  *)
EXTENDS TxHashes, TraceIO
VARIABLE l
Ok(ev) == CASE ev.a = "byte" -> ByteChangeOk(ev)
            [] ev.a = "noncanon" -> NonCanonOk(ev)
            [] ev.a = "pair" -> PairOk(ev)
            [] OTHER -> FALSE
TInit == l = 1
TNext == l <= Len(Rec) /\ (IF Ok(Rec[l]) THEN TRUE ELSE PrintT(<<"BAD", l>>)) /\ l' = l + 1
TSpec == TInit /\ [][TNext]_l
Post == PrintT(<<"DONE", TLCGet("stats").diameter - 1>>)
=============================================================================

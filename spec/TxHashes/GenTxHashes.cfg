SPECIFICATION Spec
INVARIANTS LawsHold Commitment Emit
CHECK_DEADLOCK FALSE

------------------------------ MODULE TxHashes ------------------------------
(* C32.  Which identifier depends on which part of a transaction.  The hash STRUCTURE is taken
   from the prepare code (radix-transactions/src/model: preparation/summarized_composite.rs,
   summarized_raw.rs, v1/*, v2/*, ledger_transaction.rs); the hash FUNCTION is a free constructor
   (terms are equal iff they were built from equal parts), so "the identifier changes" is term
   inequality.

   A transaction is a record of leaves; every leaf is an integer that stands for the bytes of
   that field (0 = the original value, another number = a changed value).
     kind "v1":      hdr (7 leaves: net, start, end, nonce, notary key, signatory flag, tip),
                     instr <<leaf>>, blobs <<leaf>>, msg, isigs <<leaf>>, nsig
     kind "v2" / "partial":
                     thdr (3 leaves: notary key, signatory flag, tip)        [v2 only]
                     intents <<[hdr (6 leaves: net, start, end, tmin, tmax, discriminator),
                                blobs, msg, children <<index of child intent>>,
                                cterm <<the STORED subintent hash of each child (a term)>>, instr]>>
                     (an intent names its children by their subintent hashes, which are stored fields of
                     the intent - prepare does not recompute them; Consistent says they are the children's
                     actual hashes, which structure validation (C35) demands)
                     order <<indices of the non-root intents in the flattened list>>
                     isigs <<for intent i: <<leaf>> >>, nsig                [nsig: v2 only]
                     (intent 1 is the transaction intent, or the root subintent of a partial transaction)
     "ledger" wrappers carry the user transaction in `inner`.
   Terms:  <<"R", tag, <<leaves>>>> hash of raw bytes;  <<"H", tag, <<terms>>>> hash of concatenated
   child hashes behind a (prefix, discriminator) tag.                                          *)
EXTENDS Integers, Sequences, FiniteSets, TLC

Raw(tag, leaves) == <<"R", tag, leaves>>
H(tag, parts)    == <<"H", tag, parts>>
BlobsT(bs) == H("blobs", [i \in DOMAIN bs |-> Raw("blob", <<bs[i]>>)])

\* V1 ---------------------------------------------------------------------------
IntentV1(tx)   == H("V1Intent", <<Raw("header", tx.hdr), Raw("instructions", tx.instr), BlobsT(tx.blobs), Raw("message", <<tx.msg>>)>>)
SignedV1(tx)   == H("V1SignedIntent", <<IntentV1(tx), Raw("intent_signatures", tx.isigs)>>)
NotarizedV1(tx) == H("V1Notarized", <<SignedV1(tx), Raw("notary_signature", <<tx.nsig>>)>>)

\* V2 ---------------------------------------------------------------------------
\* a subintent hash covers its core; the core contains the STORED hashes of its children
CoreT(tx, i) == LET it == tx.intents[i] IN
  H("core", <<Raw("intent_header", it.hdr), BlobsT(it.blobs), Raw("message", <<it.msg>>),
              H("children", it.cterm), Raw("instructions", it.instr)>>)
SubintentT(tx, i) == H("V2Subintent", <<CoreT(tx, i)>>)
\* the stored child hashes are the actual ones
Consistent(tx) == \A i \in DOMAIN tx.intents : \A k \in DOMAIN tx.intents[i].children :
                     tx.intents[i].cterm[k] = SubintentT(tx, tx.intents[i].children[k])
\* recompute the stored child hashes bottom-up (children have larger indices than their parents):
\* what the builders do when a subintent is edited
RECURSIVE NormalizeFrom(_, _)
NormalizeFrom(tx, i) ==
  IF i = 0 THEN tx
  ELSE LET t2 == [tx EXCEPT !.intents[i].cterm = [k \in DOMAIN tx.intents[i].children |-> SubintentT(tx, tx.intents[i].children[k])]]
       IN NormalizeFrom(t2, i - 1)
Normalize(tx) == NormalizeFrom(tx, Len(tx.intents))
IntentV2(tx)   == H("V2TransactionIntent", <<Raw("transaction_header", tx.thdr), CoreT(tx, 1),
                                              H("subintents", [k \in DOMAIN tx.order |-> SubintentT(tx, tx.order[k])])>>)
SignedV2(tx)   == H("V2SignedTransactionIntent",
                    <<IntentV2(tx), Raw("intent_signatures", tx.isigs[1]),
                      H("signature_batches", [k \in DOMAIN tx.order |-> Raw("intent_signatures", tx.isigs[tx.order[k]])])>>)
NotarizedV2(tx) == H("V2Notarized", <<SignedV2(tx), Raw("notary_signature", <<tx.nsig>>)>>)

\* ledger wrapper: the ledger hash of a user transaction covers its notarized hash (same kind tag for V1 and V2)
NotarizedOf(u) == IF u.kind = "v1" THEN NotarizedV1(u) ELSE NotarizedV2(u)
LedgerT(tx) == H("LedgerUser", <<NotarizedOf(tx.inner)>>)

\* identifiers ---------------------------------------------------------------------
\* names: "I" intent, "G" signed intent, "N" notarized, "L" ledger, <<"S", i>> as "S<i>" subintent i
SubName(i) == IF i = 1 THEN "S1" ELSE IF i = 2 THEN "S2" ELSE IF i = 3 THEN "S3" ELSE IF i = 4 THEN "S4" ELSE "S5"
User(tx) == IF tx.kind = "ledger" THEN tx.inner ELSE tx
Ids(tx) ==
  LET u == User(tx) IN
     (IF u.kind = "v1" THEN {"I", "G", "N"}
      ELSE IF u.kind = "v2" THEN {"I", "G", "N"} \cup {SubName(i) : i \in 2..Len(u.intents)}
      ELSE {SubName(i) : i \in 1..Len(u.intents)})
  \cup (IF tx.kind = "ledger" THEN {"L"} ELSE {})
SubIndex(name) == CHOOSE i \in 1..5 : SubName(i) = name
Term(tx, id) ==
  LET u == User(tx) IN
  IF id = "L" THEN LedgerT(tx)
  ELSE IF id = "I" THEN (IF u.kind = "v1" THEN IntentV1(u) ELSE IntentV2(u))
  ELSE IF id = "G" THEN (IF u.kind = "v1" THEN SignedV1(u) ELSE SignedV2(u))
  ELSE IF id = "N" THEN NotarizedOf(u)
  ELSE SubintentT(u, SubIndex(id))

\* fields and their mutation ---------------------------------------------------------
\* a field is [part, i (intent, 0 = not intent level), k (index inside the part, 0 = none)]
Fld(p, i, k) == [part |-> p, i |-> i, k |-> k]
Swap2(s) == [j \in DOMAIN s |-> IF j = 1 THEN s[2] ELSE IF j = 2 THEN s[1] ELSE s[j]]
FieldsOfUser(u) ==
  IF u.kind = "v1"
  THEN {Fld("hdr", 0, k) : k \in DOMAIN u.hdr} \cup {Fld("instr", 0, k) : k \in DOMAIN u.instr}
       \cup {Fld("blob", 0, k) : k \in DOMAIN u.blobs} \cup {Fld("msg", 0, 0), Fld("nsig", 0, 0)}
       \cup {Fld("isig", 0, k) : k \in DOMAIN u.isigs}
  ELSE (IF u.kind = "v2" THEN {Fld("thdr", 0, k) : k \in DOMAIN u.thdr} \cup {Fld("nsig", 0, 0)} ELSE {})
       \cup UNION {{Fld("hdr", i, k) : k \in DOMAIN u.intents[i].hdr}
                   \cup {Fld("instr", i, k) : k \in DOMAIN u.intents[i].instr}
                   \cup {Fld("blob", i, k) : k \in DOMAIN u.intents[i].blobs}
                   \cup {Fld("msg", i, 0)}
                   \cup (IF Len(u.intents[i].children) >= 2 THEN {Fld("children_order", i, 0)} ELSE {})
                   \cup {Fld("isig", i, k) : k \in DOMAIN u.isigs[i]} : i \in DOMAIN u.intents}
       \cup (IF Len(u.order) >= 2 THEN {Fld("list_order", 0, 0)} ELSE {})
Fields(tx) == FieldsOfUser(User(tx))

MutUser(u, f) ==
  IF u.kind = "v1"
  THEN CASE f.part = "hdr"   -> [u EXCEPT !.hdr[f.k] = @ + 1]
         [] f.part = "instr" -> [u EXCEPT !.instr[f.k] = @ + 1]
         [] f.part = "blob"  -> [u EXCEPT !.blobs[f.k] = @ + 1]
         [] f.part = "msg"   -> [u EXCEPT !.msg = @ + 1]
         [] f.part = "isig"  -> [u EXCEPT !.isigs[f.k] = @ + 1]
         [] OTHER            -> [u EXCEPT !.nsig = @ + 1]
  ELSE CASE f.part = "thdr"  -> [u EXCEPT !.thdr[f.k] = @ + 1]
         [] f.part = "hdr"   -> [u EXCEPT !.intents[f.i].hdr[f.k] = @ + 1]
         [] f.part = "instr" -> [u EXCEPT !.intents[f.i].instr[f.k] = @ + 1]
         [] f.part = "blob"  -> [u EXCEPT !.intents[f.i].blobs[f.k] = @ + 1]
         [] f.part = "msg"   -> [u EXCEPT !.intents[f.i].msg = @ + 1]
         [] f.part = "children_order" -> [u EXCEPT !.intents[f.i].children = Swap2(@), !.intents[f.i].cterm = Swap2(@)]
         [] f.part = "isig"  -> [u EXCEPT !.isigs[f.i][f.k] = @ + 1]
         [] f.part = "list_order" -> [u EXCEPT !.order = Swap2(@)]
         [] OTHER            -> [u EXCEPT !.nsig = @ + 1]
Mut(tx, f) == IF tx.kind = "ledger" THEN [tx EXCEPT !.inner = MutUser(tx.inner, f)] ELSE MutUser(tx, f)

\* "value": exactly one field of the transaction value changes.  "edit": the field changes and the
\* stored child hashes above it are brought up to date (no re-signing in either case).
EditUser(u, f) == IF u.kind = "v1" THEN MutUser(u, f) ELSE Normalize(MutUser(u, f))
Edit(tx, f) == IF tx.kind = "ledger" THEN [tx EXCEPT !.inner = EditUser(tx.inner, f)] ELSE EditUser(tx, f)
Change(tx, f, mode) == IF mode = "edit" THEN Edit(tx, f) ELSE Mut(tx, f)

\* the identifiers that change (free constructors: term inequality)
Affected(tx, f, mode) == {id \in Ids(tx) : Term(tx, id) # Term(Change(tx, f, mode), id)}

\* The statement, field by field: a field of a hashed part changes the identifier of that part and of
\* everything built on it, and nothing else.
RECURSIVE Ancestors(_, _)
ParentOf(u, i) == IF \E p \in DOMAIN u.intents : \E k \in DOMAIN u.intents[p].children : u.intents[p].children[k] = i
                  THEN CHOOSE p \in DOMAIN u.intents : \E k \in DOMAIN u.intents[p].children : u.intents[p].children[k] = i
                  ELSE 0
Ancestors(u, i) == IF ParentOf(u, i) = 0 THEN {} ELSE LET p == ParentOf(u, i) IN {p} \cup Ancestors(u, p)
Above(tx, S) == S \cup (IF tx.kind = "ledger" THEN {"L"} ELSE {})
\* the intents whose hashed bytes change: the intent of the field, and with "edit" its ancestors
Touched(u, f, mode) == {f.i} \cup (IF mode = "edit" THEN Ancestors(u, f.i) ELSE {})
Covers(tx, f, mode) ==
  LET u == User(tx) IN
  IF u.kind = "v1"
  THEN Above(tx, IF f.part = "nsig" THEN {"N"} ELSE IF f.part = "isig" THEN {"G", "N"} ELSE {"I", "G", "N"})
  ELSE IF u.kind = "v2"
  THEN Above(tx, CASE f.part = "nsig" -> {"N"}
                   [] f.part = "isig" -> {"G", "N"}
                   [] f.part \in {"thdr", "list_order"} -> {"I", "G", "N"}
                   \* the transaction intent hash covers the root core and the list of actual subintent hashes
                   [] OTHER -> {"I", "G", "N"} \cup {SubName(j) : j \in Touched(u, f, mode) \ {1}})
  ELSE \* partial transaction: only subintent hashes exist; signatures and list order are in none of them
       CASE f.part \in {"isig", "list_order"} -> {}
         [] OTHER -> {SubName(j) : j \in Touched(u, f, mode)}

\* canonical payloads ------------------------------------------------------------------
\* a raw payload is accepted by prepare iff it has the payload prefix, the enum kind, the expected
\* discriminator and field count, minimal size encodings, no trailing bytes, and its counts and length
\* are within the preparation settings
CanonicalOk(p) == /\ p.prefix = "ok" /\ p.discriminator = "ok" /\ p.trailing = 0 /\ p.size_encoding = "minimal"
                  /\ p.field_count = "ok"
                  /\ p.blobs <= p.settings.maxBlobs /\ p.children <= p.settings.maxChildren
                  /\ p.subintents <= p.settings.maxSubintents /\ p.sig_batches <= p.settings.maxSubintents
                  /\ (p.v2 => p.settings.v2Permitted)
                  /\ (p.limited_length => p.length_over = 0)

\* byte-level form used on recorded single-byte changes of real payloads: a changed payload that can
\* still be prepared (i) is itself canonical: decode + encode reproduce its bytes and identifiers, and
\* (ii) is a different transaction: its top identifier differs (a partial transaction has no identifier
\* over its signatures, so (ii) does not apply there); prepare never panics
TopId(shape) == IF shape \in {"ledger_v1", "ledger_v2"} THEN "L" ELSE "N"
ByteChangeOk(ev) == /\ ~ev.panic
                    /\ ev.prepared => /\ ev.roundtrip
                                      /\ (ev.shape # "partial" => \E k \in DOMAIN ev.changed : ev.changed[k] = TopId(ev.shape))

\* Non-canonical payloads at byte level (set-like fields with a duplicated element: child specifiers of a subintent /
\* of the transaction intent core).  One identifier per content: a payload that can be prepared is canonical - it also
\* decodes as the model and re-encoding the decoded model reproduces its bytes - ...
NonCanonOk(ev) == /\ ~ev.panic
                  /\ ev.prepared => (ev.decoded /\ ev.roundtrip)
\* ... equivalently, preparation is injective on accepted payloads: two DIFFERENT payloads that both prepare never
\* prepare to equal content (else one content would have two identifiers)
PairOk(ev) == (ev.both_prepared /\ ~ev.same_bytes) => ~ev.same_content
=============================================================================

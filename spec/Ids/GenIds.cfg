SPECIFICATION Spec
CONSTANTS
  MaxLen = 3
INVARIANTS TextOk CanonicalIntegers Emit
CHECK_DEADLOCK FALSE

--------------------------------- MODULE Ids ---------------------------------
(* C28.  Text forms of non-fungible local ids (NonFungibleLocalId FromStr / Display in
   radix-common/src/data/scrypto/model/non_fungible_local_id.rs) and of global ids
   ("resource address : local id", radix-common/src/types/non_fungible_global_id.rs).

   Text = sequence of Unicode code points.  A local id is [f |-> form, b |-> bytes] with
     "str"   b = 1..64 characters of [_0-9a-zA-Z]            text  <b>
     "int"   b = the u64 as 8 bytes big-endian                text  #decimal#   (canonical: no sign,
                                                                    no leading zero, "0" for zero)
     "bytes" b = 1..64 bytes                                  text  [hex]       (parsing accepts both
                                                                    hex cases, printing is lower case)
     "ruid"  b = 32 bytes                                     text  {16hex-16hex-16hex-16hex}
   (the same abstract ids as the custom value content of Sbor.tla).                          *)
EXTENDS Integers, Sequences, FiniteSets

IdChar(x) == x \in 48..57 \/ x \in 65..90 \/ x \in 97..122 \/ x = 95
IsDigit(x) == x \in 48..57
HexVal(c) == IF c \in 48..57 THEN c - 48 ELSE IF c \in 97..102 THEN c - 87 ELSE IF c \in 65..70 THEN c - 55 ELSE -1
HexDigit(v) == IF v < 10 THEN 48 + v ELSE 87 + v
LowerC(c) == IF c \in 65..90 THEN c + 32 ELSE c
LowerS(s) == [i \in 1..Len(s) |-> LowerC(s[i])]

IdValid(id) ==
  CASE id.f = "str"   -> Len(id.b) \in 1..64 /\ \A i \in 1..Len(id.b) : IdChar(id.b[i])
    [] id.f = "int"   -> Len(id.b) = 8 /\ \A i \in 1..8 : id.b[i] \in 0..255
    [] id.f = "bytes" -> Len(id.b) \in 1..64 /\ \A i \in 1..Len(id.b) : id.b[i] \in 0..255
    [] id.f = "ruid"  -> Len(id.b) = 32 /\ \A i \in 1..32 : id.b[i] \in 0..255
    [] OTHER -> FALSE

-----------------------------------------------------------------------------
\* u64 <-> decimal digits with small integers only (TLC integers are 32 bit): long division
\* one pass of dividing the base-`base` digit sequence ds (most significant first) by `by`
RECURSIVE DivPass(_, _, _, _, _, _)
DivPass(ds, base, by, i, rem, acc) ==
  IF i > Len(ds) THEN [q |-> acc, r |-> rem]
  ELSE LET cur == rem * base + ds[i] IN DivPass(ds, base, by, i + 1, cur % by, Append(acc, cur \div by))
AllZero(ds) == \A i \in 1..Len(ds) : ds[i] = 0
\* decimal digit values -> 8 bytes big-endian; ok = FALSE when the number does not fit in 64 bits
RECURSIVE DecToBytesR(_, _, _)
DecToBytesR(ds, n, acc) ==      \* acc collects the bytes, least significant first
  IF n = 0 THEN [ok |-> AllZero(ds), b |-> acc]
  ELSE LET p == DivPass(ds, 10, 256, 1, 0, <<>>) IN DecToBytesR(p.q, n - 1, <<p.r>> \o acc)
DecToBytes(ds) == DecToBytesR(ds, 8, <<>>)
\* 8 bytes big-endian -> decimal digit values without leading zeros
RECURSIVE BytesToDecR(_, _)
BytesToDecR(bs, acc) ==
  IF AllZero(bs) THEN (IF acc = <<>> THEN <<0>> ELSE acc)
  ELSE LET p == DivPass(bs, 256, 10, 1, 0, <<>>) IN BytesToDecR(p.q, <<p.r>> \o acc)
BytesToDec(bs) == BytesToDecR(bs, <<>>)

HexOf(bs) == [i \in 1..(2 * Len(bs)) |-> HexDigit(IF i % 2 = 1 THEN bs[(i + 1) \div 2] \div 16 ELSE bs[i \div 2] % 16)]
\* hex::decode: even length, hex digits of either case
HexOk(s) == Len(s) % 2 = 0 /\ \A i \in 1..Len(s) : HexVal(s[i]) >= 0
UnHex(s) == [i \in 1..(Len(s) \div 2) |-> 16 * HexVal(s[2 * i - 1]) + HexVal(s[2 * i])]

-----------------------------------------------------------------------------
\* Display
FormatLocalId(id) ==
  CASE id.f = "str"   -> <<60>> \o id.b \o <<62>>
    [] id.f = "int"   -> LET d == BytesToDec(id.b) IN <<35>> \o [i \in 1..Len(d) |-> 48 + d[i]] \o <<35>>
    [] id.f = "bytes" -> <<91>> \o HexOf(id.b) \o <<93>>
    [] id.f = "ruid"  -> LET h == HexOf(id.b) IN
                         <<123>> \o SubSeq(h, 1, 16) \o <<45>> \o SubSeq(h, 17, 32) \o <<45>> \o SubSeq(h, 33, 48) \o <<45>> \o SubSeq(h, 49, 64) \o <<125>>

\* FromStr
No == [ok |-> FALSE]
Yes(f, b) == [ok |-> TRUE, id |-> [f |-> f, b |-> b]]
Mid(s) == SubSeq(s, 2, Len(s) - 1)
CanonicalDecimal(d) ==      \* is_canonically_formatted_integer
  \/ d = <<48>>
  \/ Len(d) >= 1 /\ d[1] \in 49..57 /\ \A i \in 2..Len(d) : IsDigit(d[i])
ParseLocalId(s) ==
  LET n == Len(s) IN
  IF n >= 1 /\ s[1] = 60 /\ s[n] = 62 THEN                      \* <...>
    (LET c == Mid(s) IN IF Len(c) \in 1..64 /\ \A i \in 1..Len(c) : IdChar(c[i]) THEN Yes("str", c) ELSE No)
  ELSE IF n > 1 /\ s[1] = 35 /\ s[n] = 35 THEN                  \* #...#
    (LET d == Mid(s) IN
     IF ~CanonicalDecimal(d) THEN No
     ELSE LET r == DecToBytes([i \in 1..Len(d) |-> d[i] - 48]) IN IF r.ok THEN Yes("int", r.b) ELSE No)
  ELSE IF n >= 1 /\ s[1] = 91 /\ s[n] = 93 THEN                 \* [...]
    (LET h == Mid(s) IN IF HexOk(h) /\ (Len(h) \div 2) \in 1..64 THEN Yes("bytes", UnHex(h)) ELSE No)
  ELSE IF n >= 1 /\ s[1] = 123 /\ s[n] = 125 THEN               \* {...}
    (LET c == Mid(s) IN
     IF Len(c) = 67 /\ c[17] = 45 /\ c[34] = 45 /\ c[51] = 45
     THEN LET h == SubSeq(c, 1, 16) \o SubSeq(c, 18, 33) \o SubSeq(c, 35, 50) \o SubSeq(c, 52, 67) IN
          IF HexOk(h) THEN Yes("ruid", UnHex(h)) ELSE No
     ELSE No)
  ELSE No

\* the laws
\* every valid id survives text
IdLaw(id) == IdValid(id) => ParseLocalId(FormatLocalId(id)) = Yes(id.f, id.b)
\* parsing accepts only text denoting a valid id; the accepted text is the canonical one
\* (exactly for strings and integers, up to hex letter case for bytes and ruids)
TextLaw(s) ==
  LET r == ParseLocalId(s) IN
  r.ok => /\ IdValid(r.id)
          /\ ParseLocalId(FormatLocalId(r.id)) = r
          /\ IF r.id.f \in {"str", "int"} THEN FormatLocalId(r.id) = s ELSE FormatLocalId(r.id) = LowerS(s)

\* global ids: exactly one ':' ; a resource address of the network in front, a local id behind
CountOf(s, c) == Cardinality({i \in 1..Len(s) : s[i] = c})
IndexOf(s, c) == CHOOSE i \in 1..Len(s) : s[i] = c /\ \A j \in 1..(i - 1) : s[j] # c
SplitGlobal(s) == IF CountOf(s, 58) # 1 THEN [ok |-> FALSE]
                  ELSE LET i == IndexOf(s, 58) IN [ok |-> TRUE, addr |-> SubSeq(s, 1, i - 1), lid |-> SubSeq(s, i + 1, Len(s))]
=============================================================================

-------------------------------- MODULE MCIds --------------------------------
(* S for C28 (ids): every text obtained by appending up to MaxLen characters of a small alphabet to
   a seed (empty text, opened brackets of each id form, a decimal just below 2^64, hex of 63.5 bytes,
   an almost complete RUID, ...); the laws of Ids.tla are invariants.  Sample ids of every form
   and boundary are checked for the id -> text -> id direction.                             *)
EXTENDS Ids, TLC
CONSTANT MaxLen
VARIABLES s, k
vars == <<s, k>>
Seeds == {<<123, 49, 49, 49, 49, 49, 49, 49, 49, 49, 49, 49, 49, 49, 49, 49, 49, 45, 50, 50, 50, 50, 50, 50, 50, 50, 50, 50, 50, 50, 50, 50, 50, 50, 45, 51, 51, 51, 51, 51, 51, 51, 51, 51, 51, 51, 51, 51, 51, 51, 51, 45, 52, 52, 52, 52, 52, 52, 52, 52, 52, 52, 52, 52, 52, 52, 52, 52>>,
          <<123, 49, 49, 49, 49, 49, 49, 49, 49, 49, 49, 49, 49, 49, 49, 49, 49, 45, 50, 50, 50, 50, 50, 50, 50, 50, 50, 50, 50, 50, 50, 50, 50, 50, 45, 51, 51, 51, 51, 51, 51, 51, 51, 51, 51, 51, 51, 51, 51, 51, 51, 45, 52, 52, 52, 52, 52, 52, 52, 52, 52, 52, 52, 52, 52, 52, 52>>,
          <<>>,
          <<60>>,
          <<60, 97>>,
          <<60, 97, 97, 97, 97, 97, 97, 97, 97, 97, 97, 97, 97, 97, 97, 97, 97, 97, 97, 97, 97, 97, 97, 97, 97, 97, 97, 97, 97, 97, 97, 97, 97, 97, 97, 97, 97, 97, 97, 97, 97, 97, 97, 97, 97, 97, 97, 97, 97, 97, 97, 97, 97, 97, 97, 97, 97, 97, 97, 97, 97, 97, 97, 97>>,
          <<35>>,
          <<35, 48>>,
          <<35, 49, 56, 52, 52, 54, 55, 52, 52, 48, 55, 51, 55, 48, 57, 53, 53, 49, 54, 49>>,
          <<35, 49, 56, 52, 52, 54, 55, 52, 52, 48, 55, 51, 55, 48, 57, 53, 53, 49>>,
          <<91>>,
          <<91, 48>>,
          <<91, 97, 98, 97, 98, 97, 98, 97, 98, 97, 98, 97, 98, 97, 98, 97, 98, 97, 98, 97, 98, 97, 98, 97, 98, 97, 98, 97, 98, 97, 98, 97, 98, 97, 98, 97, 98, 97, 98, 97, 98, 97, 98, 97, 98, 97, 98, 97, 98, 97, 98, 97, 98, 97, 98, 97, 98, 97, 98, 97, 98, 97, 98, 97, 98, 97, 98, 97, 98, 97, 98, 97, 98, 97, 98, 97, 98, 97, 98, 97, 98, 97, 98, 97, 98, 97, 98, 97, 98, 97, 98, 97, 98, 97, 98, 97, 98, 97, 98, 97, 98, 97, 98, 97, 98, 97, 98, 97, 98, 97, 98, 97, 98, 97, 98, 97, 98, 97, 98, 97, 98, 97, 98, 97, 98, 97, 98, 97>>,
          <<123>>,
          <<123, 49, 49, 49, 49, 49, 49, 49, 49, 49, 49, 49, 49, 49, 49, 49, 49, 45, 50, 50, 50, 50, 50, 50, 50, 50, 50, 50, 50, 50, 50, 50, 50, 50, 45, 51, 51, 51, 51, 51, 51, 51, 51, 51, 51, 51, 51, 51, 51, 51, 51, 45, 52, 52, 52, 52, 52, 52, 52, 52, 52, 52, 52, 52, 52, 52>>,
          <<123, 49, 49, 49, 49, 49, 49, 49, 49, 49, 49, 49, 49, 49, 49, 49, 49, 45, 50, 50, 50, 50, 50, 50, 50, 50, 50, 50, 50, 50, 50, 50, 50, 50, 45, 51, 51, 51, 51, 51, 51, 51, 51, 51, 51, 51, 51, 51, 51, 51, 51, 52, 52, 52, 52, 52, 52, 52, 52, 52, 52, 52, 52, 52, 52, 52>>,
          <<35, 48, 48>>,
          <<60, 233>>}
Alphabet == {60, 62, 35, 91, 93, 123, 125, 48, 49, 53, 54, 57, 97, 65, 103, 95, 45, 43, 58, 233}   \* < > # [ ] { } 0 1 5 6 9 a A g _ - + : e-acute
Init == s \in Seeds /\ k = 0
AppendChar(c) == k < MaxLen /\ s' = Append(s, c) /\ k' = k + 1
Next == \E c \in Alphabet : AppendChar(c)
Spec == Init /\ [][Next]_vars

TextOk == TextLaw(s)
\* integers are accepted only in canonical decimal form: a sign, a leading zero or a value >= 2^64 is refused
CanonicalIntegers ==
  (Len(s) >= 2 /\ s[1] = 35 /\ s[Len(s)] = 35 /\ ParseLocalId(s).ok) =>
     LET d == Mid(s) IN (d = <<48>> \/ d[1] \in 49..57) /\ \A i \in 1..Len(d) : IsDigit(d[i])

Rep(n, x) == [i \in 1..n |-> x]
SampleIds ==
  { [f |-> "str", b |-> <<97>>], [f |-> "str", b |-> <<95>>], [f |-> "str", b |-> Rep(64, 90)],
    [f |-> "int", b |-> Rep(8, 0)], [f |-> "int", b |-> Rep(7, 0) \o <<1>>], [f |-> "int", b |-> Rep(7, 0) \o <<255>>],
    [f |-> "int", b |-> Rep(6, 0) \o <<1, 0>>], [f |-> "int", b |-> Rep(8, 255)], [f |-> "int", b |-> <<128>> \o Rep(7, 0)],
    [f |-> "int", b |-> <<138, 199, 35, 4, 137, 232, 0, 0>>],                               \* 10^19
    [f |-> "bytes", b |-> <<0>>], [f |-> "bytes", b |-> <<255, 1, 171>>], [f |-> "bytes", b |-> Rep(64, 10)],
    [f |-> "ruid", b |-> Rep(32, 0)], [f |-> "ruid", b |-> Rep(16, 171) \o Rep(16, 18)] }
ASSUME \A id \in SampleIds : IdLaw(id)
\* invalid ids have no text that parses back to them
ASSUME ~ParseLocalId(FormatLocalId([f |-> "str", b |-> <<>>])).ok /\ ~ParseLocalId(FormatLocalId([f |-> "str", b |-> Rep(65, 97)])).ok
       /\ ~ParseLocalId(FormatLocalId([f |-> "bytes", b |-> <<>>])).ok /\ ~ParseLocalId(FormatLocalId([f |-> "bytes", b |-> Rep(65, 1)])).ok
\* decimal boundaries
Dec(str) == ParseLocalId(str)
ASSUME Dec(<<35, 49, 56, 52, 52, 54, 55, 52, 52, 48, 55, 51, 55, 48, 57, 53, 53, 49, 54, 49, 53, 35>>) = Yes("int", Rep(8, 255))
ASSUME ~Dec(<<35, 49, 56, 52, 52, 54, 55, 52, 52, 48, 55, 51, 55, 48, 57, 53, 53, 49, 54, 49, 54, 35>>).ok /\ ~Dec(<<35, 57, 57, 57, 57, 57, 57, 57, 57, 57, 57, 57, 57, 57, 57, 57, 57, 57, 57, 57, 57, 35>>).ok /\ ~Dec(<<35, 49, 48, 48, 48, 48, 48, 48, 48, 48, 48, 48, 48, 48, 48, 48, 48, 48, 48, 48, 48, 48, 48, 48, 48, 48, 48, 48, 48, 48, 48, 48, 48, 48, 48, 48, 48, 48, 48, 48, 35>>).ok
ASSUME ~Dec(<<35, 48, 49, 35>>).ok /\ ~Dec(<<35, 43, 49, 35>>).ok /\ ~Dec(<<35, 45, 49, 35>>).ok /\ ~Dec(<<35, 35>>).ok /\ ~Dec(<<35>>).ok /\ ~Dec(<<35, 32, 49, 35>>).ok
ASSUME Dec(<<91, 48, 65, 93>>) = Yes("bytes", <<10>>) /\ Dec(<<91, 48, 97, 93>>) = Yes("bytes", <<10>>) /\ ~Dec(<<91, 48, 93>>).ok /\ ~Dec(<<91, 93>>).ok /\ ~Dec(<<91, 48, 103, 93>>).ok
ASSUME ~Dec(<<60, 62>>).ok /\ ~Dec(<<60, 97, 45, 98, 62>>).ok /\ ~Dec(<<60>>).ok /\ ~Dec(<<97>>).ok /\ ~Dec(<<>>).ok
ASSUME ~Dec(<<123, 45, 45, 45, 45, 45, 45, 45, 45, 45, 45, 45, 45, 45, 45, 52, 45, 45, 45, 45, 56, 45, 45, 45, 45, 45, 45, 45, 45, 45, 45, 45, 45, 45, 45, 45, 49, 125>>).ok
\* RUID group lengths: with the same 64 hex digits, every displacement of a hyphen by one position (and a missing hyphen) is refused,
\* and an accepted RUID text is unique up to hex letter case
RuidDigits == [i \in 1..64 |-> IF i % 3 = 0 THEN 97 ELSE 49]        \* "11a11a..."
RuidSplit(l1, l2, l3) == <<123>> \o SubSeq(RuidDigits, 1, l1) \o <<45>> \o SubSeq(RuidDigits, l1 + 1, l1 + l2) \o <<45>>
                         \o SubSeq(RuidDigits, l1 + l2 + 1, l1 + l2 + l3) \o <<45>> \o SubSeq(RuidDigits, l1 + l2 + l3 + 1, 64) \o <<125>>
ASSUME \A l1, l2, l3 \in 14..18 : ParseLocalId(RuidSplit(l1, l2, l3)).ok <=> (l1 = 16 /\ l2 = 16 /\ l3 = 16)
ASSUME ParseLocalId(RuidSplit(16, 16, 16)) = Yes("ruid", UnHex(RuidDigits)) /\ FormatLocalId([f |-> "ruid", b |-> UnHex(RuidDigits)]) = RuidSplit(16, 16, 16)
ASSUME ~ParseLocalId(<<123>> \o SubSeq(RuidDigits, 1, 32) \o <<45>> \o SubSeq(RuidDigits, 33, 48) \o <<45>> \o SubSeq(RuidDigits, 49, 64) \o <<125>>).ok
=============================================================================

------------------------------- MODULE TraceIds -------------------------------
(* impl -> spec for C28: recorded calls of the real Bech32m address / transaction-hash codecs and of
   the NonFungibleLocalId / NonFungibleGlobalId text forms (stateless).  TLC recomputes every text
   and every verdict from Bech32m.tla / Ids.tla; the binary form of local ids is tied to Sbor.tla. *)
EXTENDS Bech32m, TraceIO
VARIABLE l
I == INSTANCE Ids
S == INSTANCE Sbor

SameDecode(sfx, any, r) ==          \* r = what the real decoder said on network sfx about the text with any = DecodeAny(text)
  LET d == AddrOf(sfx, any) IN
  /\ r.ok = d.ok /\ (d.ok => r.bytes = d.bytes)
  /\ \A ty \in {"global", "internal", "package", "resource", "component"} : r.typed[ty] = TypedOf(ty, d).ok

AddrChecks(ev) ==
  LET any == IF ev.encok THEN DecodeAny(ev.text) ELSE [ok |-> FALSE] IN
  << <<"encode-verdict", ev.encok = EncodeOk(ev.data)>>,
     <<"encoded-text", ev.encok => ev.text = EncodeAddr(ev.sfx, ev.data)>>,
     <<"decode-same-network", ev.encok => (SameDecode(ev.sfx, any, ev.dec) /\ ev.dec.ok /\ ev.dec.bytes = ev.data)>>,
     <<"rejected-on-other-networks", ev.encok => \A i \in 1..Len(ev.others) :
            ev.others[i].ok = AddrOf(ev.others[i].sfx, any).ok /\ ~ev.others[i].ok>> >>
TextChecks(ev) == << <<"decode-text", SameDecode(ev.sfx, DecodeAny(ev.text), ev.r)>> >>
Kinds == <<"txid", "signedintent", "subtxid", "notarizedtransaction">>
TxChecks(ev) ==
  << <<"tx", \A i \in 1..Len(ev.forms) : LET f == ev.forms[i] IN
        /\ f.text = EncodeTx(f.kind, ev.sfx, ev.hash)
        /\ f.same = ev.hash /\ DecodeTx(f.kind, ev.sfx, f.text).bytes = ev.hash
        /\ \A j \in 1..4 : f.askind[j] = DecodeTx(Kinds[j], ev.sfx, f.text).ok
        /\ \A j \in 1..4 : f.askind[j] = (Kinds[j] = f.kind)                   \* a hash text is bound to its hash type
        /\ f.othernet = DecodeTx(f.kind, ev.othersfx, f.text).ok /\ (ev.othersfx # ev.sfx => ~f.othernet)
        /\ f.mutok = DecodeTx(f.kind, ev.sfx, f.muttext).ok>> >>
LidChecks(ev) ==
  LET p == I!ParseLocalId(ev.s) IN
  << <<"parse-verdict", ev.r.ok = p.ok>>,
     <<"parsed-id", p.ok => ev.r.id = <<p.id>>>>,
     <<"printed-id", p.ok => ev.r.disp = I!FormatLocalId(p.id)>>,
     <<"text-law", I!TextLaw(ev.s)>>,
     <<"binary-form", p.ok => (ev.r.bin = <<92, 192>> \o S!NfBody(p.id) /\ ev.r.binback
                               /\ S!Dec("scrypto", ev.r.bin) = [t |-> "cust", k |-> 192, c |-> p.id])>> >>
GidChecks(ev) ==
  LET sp == I!SplitGlobal(ev.s)
      a  == IF sp.ok THEN DecodeTyped("resource", ev.sfx, sp.addr) ELSE Fail
      p  == IF sp.ok THEN I!ParseLocalId(sp.lid) ELSE I!No
      ok == sp.ok /\ a.ok /\ p.ok
  IN << <<"global-parse-verdict", ev.ok = ok>>,
        <<"global-parsed", ok => (ev.res = a.bytes /\ ev.id = <<p.id>>)>>,
        <<"global-printed", ok => ev.disp = EncodeAddr(ev.sfx, a.bytes) \o <<58>> \o I!FormatLocalId(p.id)>> >>

Checks(ev) ==
  IF ev.panic THEN << <<"panic", FALSE>> >>
  ELSE CASE ev.k = "addr" -> AddrChecks(ev) [] ev.k = "text" -> TextChecks(ev) [] ev.k = "tx" -> TxChecks(ev)
         [] ev.k = "lid" -> LidChecks(ev) [] ev.k = "gid" -> GidChecks(ev) [] OTHER -> << <<"unknown-event", FALSE>> >>
Failed(ev) == LET c == Checks(ev) IN [i \in {j \in 1..Len(c) : ~c[j][2]} |-> c[i][1]]
TInit == l = 1
TNext == /\ l <= Len(Rec)
         /\ LET bad == Failed(Rec[l]) IN
            IF DOMAIN bad = {} THEN TRUE ELSE PrintT(<<"BAD", l>>) /\ PrintT(<<"WHY", l, {bad[i] : i \in DOMAIN bad}>>)
         /\ l' = l + 1
TSpec == TInit /\ [][TNext]_l
Post == PrintT(<<"DONE", TLCGet("stats").diameter - 1>>)
=============================================================================

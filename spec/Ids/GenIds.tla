-------------------------------- MODULE GenIds --------------------------------
(* G for C28 (ids): every text of the MCIds universe with the specification's verdict and the id it
   denotes; the harness gives the text to NonFungibleLocalId::from_str under catch_unwind and
   compares verdict, id and the printed form.  The MCIds invariants are checked in the same run. *)
EXTENDS MCIds, Json
Emit == LET r == ParseLocalId(s) IN
        PrintT(<<"B", ToJson([s |-> s, ok |-> r.ok, id |-> IF r.ok THEN <<r.id>> ELSE <<>>,
                              text |-> IF r.ok THEN FormatLocalId(r.id) ELSE <<>>])>>)
=============================================================================

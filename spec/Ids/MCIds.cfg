SPECIFICATION Spec
CONSTANTS
  MaxLen = 3
INVARIANTS TextOk CanonicalIntegers
CHECK_DEADLOCK FALSE

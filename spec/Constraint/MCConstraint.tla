---------------------------- MODULE MCConstraint ----------------------------
(* S for C37: every constraint over the amounts CAmts and the ids Ids, against every fungible
   amount of FAmts and every id set; single-resource pairs (mode "pair") and assertions over three
   resources at once (mode "multi": validate_only / validate_includes).  Laws as invariants.   *)
EXTENDS Constraint, TLC
CONSTANTS CAmts0,     \* non-negative amounts usable inside constraints (the negative amount -2 is always added)
          FAmts,      \* fungible balance amounts
          Ids         \* non-fungible ids
VARIABLES mode, c, b, cs, bal, only, bseq
vars == <<mode, c, b, cs, bal, only, bseq>>

CAmts == CAmts0 \cup {-2}
IdSets == SUBSET Ids
Los == {[k |-> "nonzero"]} \cup {[k |-> "incl", a |-> a] : a \in CAmts}
His == {[k |-> "unb"]} \cup {[k |-> "incl", a |-> a] : a \in CAmts}
Allows == {[k |-> "any"]} \cup {[k |-> "list", ids |-> s] : s \in IdSets}
Constraints ==
  {[t |-> "nonzero"]} \cup {[t |-> "exact", a |-> a] : a \in CAmts} \cup {[t |-> "atleast", a |-> a] : a \in CAmts}
  \cup {[t |-> "exactnf", ids |-> s] : s \in IdSets} \cup {[t |-> "atleastnf", ids |-> s] : s \in IdSets}
  \cup {[t |-> "general", req |-> r, lo |-> l, hi |-> h, allow |-> al] : r \in IdSets, l \in Los, h \in His, al \in Allows}
FBals  == {[kind |-> "f", a |-> a] : a \in FAmts}
NfBals == {[kind |-> "nf", ids |-> s] : s \in IdSets}
Bals(kind) == IF kind = "f" THEN FBals ELSE NfBals
NoB == [kind |-> "none"]

\* three resources: two fungible (1, 2) and one non-fungible (3); a few representative constraints each
Res == {1, 2, 3}
KindOf(r) == IF r = 3 THEN "nf" ELSE "f"
Some(r) == IF r = 3
           THEN {[t |-> "nonzero"], [t |-> "exactnf", ids |-> {}], [t |-> "atleastnf", ids |-> {1}],
                 [t |-> "general", req |-> {}, lo |-> [k |-> "incl", a |-> 0], hi |-> [k |-> "incl", a |-> Whole], allow |-> [k |-> "any"]]}
           ELSE {[t |-> "nonzero"], [t |-> "exact", a |-> 0], [t |-> "atleast", a |-> 2],
                 [t |-> "general", req |-> {}, lo |-> [k |-> "nonzero"], hi |-> [k |-> "incl", a |-> Whole], allow |-> [k |-> "any"]]}
SomeBal(r) == IF r = 3 THEN {[kind |-> "nf", ids |-> {}], [kind |-> "nf", ids |-> {1}], [kind |-> "nf", ids |-> {1, 2}]}
              ELSE {[kind |-> "f", a |-> 0], [kind |-> "f", a |-> 2], [kind |-> "f", a |-> Whole]}
ConstraintMaps == UNION {[S -> UNION {Some(r) : r \in Res}] : S \in SUBSET Res}
WellTyped(m) == \A r \in DOMAIN m : m[r] \in Some(r)

Init == /\ c \in Constraints /\ b = NoB /\ mode = "pair"
        /\ cs = <<>> /\ bal = <<>> /\ only = FALSE /\ bseq = <<>>
\* one (constraint, balance) pair
CheckPair == /\ mode = "pair" /\ b = NoB
             /\ \E x \in FBals \cup NfBals : b' = x
             /\ UNCHANGED <<mode, c, cs, bal, only, bseq>>
\* one assertion over several resources (started from one fixed initial state)
CheckMulti == /\ mode = "pair" /\ b = NoB /\ c = [t |-> "nonzero"]
              /\ mode' = "multi"
              /\ \E m \in ConstraintMaps : WellTyped(m) /\ cs' = m
              /\ bal' \in [Res -> UNION {SomeBal(r) : r \in Res}] /\ \A r \in Res : bal'[r] \in SomeBal(r)
              /\ only' \in BOOLEAN
              /\ UNCHANGED <<c, b, bseq>>
\* one assertion on what a call returned as a sequence of 1..3 buckets (same / different resources, empty buckets included)
Zero == [r \in Res |-> IF r = 3 THEN [kind |-> "nf", ids |-> {}] ELSE [kind |-> "f", a |-> 0]]
BucketChoices == {[r |-> 1, bal |-> [kind |-> "f", a |-> 0]], [r |-> 1, bal |-> [kind |-> "f", a |-> 2]], [r |-> 2, bal |-> [kind |-> "f", a |-> Whole]],
                  [r |-> 3, bal |-> [kind |-> "nf", ids |-> {}]], [r |-> 3, bal |-> [kind |-> "nf", ids |-> {1}]],
                  [r |-> 3, bal |-> [kind |-> "nf", ids |-> {2}]], [r |-> 3, bal |-> [kind |-> "nf", ids |-> {2, 3}]]}
BucketSeqs == UNION {[1..n -> BucketChoices] : n \in 1..3}
ReturnConstraints(r) ==
  CASE r = 3 -> {[t |-> "exactnf", ids |-> {1}], [t |-> "exactnf", ids |-> {1, 2, 3}], [t |-> "atleast", a |-> 2 * Whole], [t |-> "atleastnf", ids |-> {2}],
                 [t |-> "general", req |-> {}, lo |-> [k |-> "incl", a |-> 0], hi |-> [k |-> "incl", a |-> Whole], allow |-> [k |-> "any"]]}
    [] r = 1 -> {[t |-> "exact", a |-> 2], [t |-> "atleast", a |-> Whole]}
    [] r = 2 -> {[t |-> "nonzero"]}
ReturnMaps == UNION {[S -> UNION {ReturnConstraints(r) : r \in Res}] : S \in SUBSET Res}
CheckBuckets == /\ mode = "pair" /\ b = NoB /\ c = [t |-> "nonzero"]
                /\ mode' = "buckets"
                /\ \E m \in ReturnMaps : (\A r \in DOMAIN m : m[r] \in ReturnConstraints(r)) /\ cs' = m
                /\ bseq' \in BucketSeqs
                /\ only' \in BOOLEAN
                /\ UNCHANGED <<c, b, bal>>
Next == CheckPair \/ CheckMulti \/ CheckBuckets
Spec == Init /\ [][Next]_vars

\* per constraint (initial states): satisfiable when valid, normalisation preserves the accepted set
PerConstraint == (mode = "pair" /\ b = NoB) =>
                   \A kind \in {"f", "nf"} : Satisfiable(c, kind, Bals(kind)) /\ NormalizePreserves(c, kind, Bals(kind))
\* per pair: the run-time algorithm decides the mathematical meaning
PerPair == (mode = "pair" /\ b # NoB) => DecidesMeaning(c, b)
\* several resources: the algorithm of ManifestResourceConstraints::validate (unspecified resources first,
\* then every specified resource with a zero / empty balance when it is absent) decides SatAll
ValidateAll(m, bl, o) ==
  /\ o => \A r \in Res \ DOMAIN m : ~(Amt(bl[r]) > 0)
  /\ \A r \in DOMAIN m : Validate(m[r], bl[r])
PerMulti == mode = "multi" => (ValidateAll(cs, bal, only) <=> SatAll(cs, bal, only))
\* returned buckets: the decision on the aggregate equals the meaning on the aggregate; the aggregate does not depend on bucket order
Reverse(sq) == [i \in 1..Len(sq) |-> sq[Len(sq) + 1 - i]]
PerBuckets == mode = "buckets" => /\ ValidateAll(cs, Aggregate(bseq, Zero), only) <=> SatAll(cs, Aggregate(bseq, Zero), only)
                                  /\ Aggregate(bseq, Zero) = Aggregate(Reverse(bseq), Zero)
\* non-vacuity helpers: ASSUMEs over the universe
ASSUME \E x \in Constraints : x.t = "general" /\ ValidFor(x, "nf") /\ Normalize(x) # x
ASSUME \E x \in Constraints : ValidFor(x, "f") /\ ~ValidFor(x, "nf")
ASSUME \E x \in Constraints : ~ValidFor(x, "f") /\ ~ValidFor(x, "nf")
=============================================================================

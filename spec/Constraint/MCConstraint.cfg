SPECIFICATION Spec
CONSTANTS
  CAmts0 = {0, 2, 4, 8}
  FAmts = {0, 1, 2, 4, 8}
  Ids = {1, 2, 3}
INVARIANTS PerConstraint PerPair PerMulti PerBuckets
CHECK_DEADLOCK FALSE

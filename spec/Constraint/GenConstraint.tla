---------------------------- MODULE GenConstraint ----------------------------
(* G for C37: every state of MCConstraint with what the specification says; the harness builds the
   real ManifestResourceConstraint(s) and balances and runs validate_fungible / validate_non_fungible,
   is_valid_for, normalize and ManifestResourceConstraints::validate.  S and G share one run.   *)
EXTENDS MCConstraint, Json
SetSeq(s) == s          \* sets print as JSON arrays
Emit ==
  IF mode = "multi"
  THEN PrintT(<<"B", ToJson([m |-> "multi", cs |-> [r \in Res |-> IF r \in DOMAIN cs THEN <<cs[r]>> ELSE <<>>],
                             bal |-> bal, only |-> only, sat |-> SatAll(cs, bal, only)])>>)
  ELSE IF mode = "buckets"
  THEN PrintT(<<"B", ToJson([m |-> "buckets", cs |-> [r \in Res |-> IF r \in DOMAIN cs THEN <<cs[r]>> ELSE <<>>],
                             bseq |-> bseq, only |-> only, sat |-> SatAll(cs, Aggregate(bseq, Zero), only)])>>)
  ELSE IF b = NoB
  THEN PrintT(<<"B", ToJson([m |-> "constraint", c |-> c, validf |-> ValidFor(c, "f"), validnf |-> ValidFor(c, "nf")])>>)
  ELSE PrintT(<<"B", ToJson([m |-> "pair", c |-> c, b |-> b, valid |-> ValidFor(c, b.kind), sat |-> Sat(c, b)])>>)
=============================================================================

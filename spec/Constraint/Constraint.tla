----------------------------- MODULE Constraint -----------------------------
(* C37 (and the containment test of C38).  Resource constraints of manifest assertions
   (radix-common/src/data/manifest/model/manifest_resource_assertion.rs).

   Amounts are integers on an order-preserving scale: Whole = 4 (one whole unit), 2 = one half,
   1 = the smallest positive Decimal (1 atto).  Only comparisons, "is a whole number" and
   "Decimal::from(n)" (= Whole * n) are ever used, so any order-preserving map of model amounts to
   real Decimals that keeps whole numbers whole commutes with everything below (the harness maps
   1 to 1 atto and every other m to m/4).

   Constraints (also the JSON shape):
     [t |-> "nonzero"]   [t |-> "exact", a |-> m]   [t |-> "atleast", a |-> m]
     [t |-> "exactnf", ids |-> S]   [t |-> "atleastnf", ids |-> S]
     [t |-> "general", req |-> S, lo |-> L, hi |-> H, allow |-> A]
         L = [k |-> "nonzero"] | [k |-> "incl", a |-> m]      H = [k |-> "unb"] | [k |-> "incl", a |-> m]
         A = [k |-> "any"] | [k |-> "list", ids |-> S]
   Balances:  [kind |-> "f", a |-> m] (a fungible amount)    [kind |-> "nf", ids |-> S] (a set of ids)   *)
EXTENDS Integers, FiniteSets, Sequences

Whole == 4
Atto  == 1
Huge  == 1000000000          \* stands for Decimal::MAX (UpperBound::Unbounded.equivalent_decimal())
IsWhole(m) == m % Whole = 0

Amt(b) == IF b.kind = "f" THEN b.a ELSE Whole * Cardinality(b.ids)

-----------------------------------------------------------------------------
\* MATHEMATICAL MEANING
LoSat(lo, a) == IF lo.k = "nonzero" THEN a > 0 ELSE a >= lo.a
HiSat(hi, a) == hi.k = "unb" \/ a <= hi.a
\* a fungible balance has an amount and no ids: id conditions are disregarded for it
Sat(c, b) ==
  CASE c.t = "nonzero"   -> Amt(b) > 0
    [] c.t = "exact"     -> Amt(b) = c.a
    [] c.t = "atleast"   -> Amt(b) >= c.a
    [] c.t = "exactnf"   -> b.kind = "nf" /\ b.ids = c.ids
    [] c.t = "atleastnf" -> b.kind = "nf" /\ c.ids \subseteq b.ids
    [] c.t = "general"   -> /\ LoSat(c.lo, Amt(b)) /\ HiSat(c.hi, Amt(b))
                            /\ b.kind = "nf" => /\ c.req \subseteq b.ids
                                                /\ c.allow.k = "list" => b.ids \subseteq c.allow.ids

\* several resources at once (ManifestResourceConstraints::validate): cs is a function from the
\* specified resources to constraints, bal a function from every resource to its balance.
\* "only" = ASSERT_*_ONLY (validate_only): unspecified resources must have a zero balance.
SatAll(cs, bal, only) ==
  /\ only => \A r \in (DOMAIN bal) \ (DOMAIN cs) : Amt(bal[r]) = 0
  /\ \A r \in DOMAIN cs : Sat(cs[r], bal[r])

\* What an invocation returns is a SEQUENCE of buckets [r |-> resource, bal |-> balance]; assertions on returned resources
\* (ASSERT_NEXT_CALL_RETURNS_*) speak about the aggregate per resource: amounts add up, id sets unite
\* (AggregateResourceBalances::add_fungible / add_non_fungible).  zero gives every resource its empty balance (and so its kind).
RECURSIVE SumOf(_, _, _)
SumOf(bs, r, i) == IF i > Len(bs) THEN 0 ELSE (IF bs[i].r = r THEN bs[i].bal.a ELSE 0) + SumOf(bs, r, i + 1)
RECURSIVE UnionOf(_, _, _)
UnionOf(bs, r, i) == IF i > Len(bs) THEN {} ELSE (IF bs[i].r = r THEN bs[i].bal.ids ELSE {}) \cup UnionOf(bs, r, i + 1)
Aggregate(bs, zero) == [r \in DOMAIN zero |-> IF zero[r].kind = "f" THEN [kind |-> "f", a |-> SumOf(bs, r, 1)]
                                              ELSE [kind |-> "nf", ids |-> UnionOf(bs, r, 1)]]

-----------------------------------------------------------------------------
\* VALIDITY (the documented rules of GeneralResourceConstraint and of the simple constraints)
EqLo(lo) == IF lo.k = "nonzero" THEN Atto ELSE lo.a          \* equivalent_decimal
EqHi(hi) == IF hi.k = "unb" THEN Huge ELSE hi.a
AmountOk(a, kind) == a >= 0 /\ (kind = "nf" => IsWhole(a))
ValidFor(c, kind) ==
  CASE c.t = "nonzero" -> TRUE
    [] c.t \in {"exact", "atleast"} -> AmountOk(c.a, kind)
    [] c.t \in {"exactnf", "atleastnf"} -> kind = "nf"
    [] c.t = "general" ->
         /\ c.lo.k = "incl" => AmountOk(c.lo.a, kind)
         /\ c.hi.k = "incl" => AmountOk(c.hi.a, kind)
         /\ EqLo(c.lo) <= EqHi(c.hi)                                       \* numeric bounds satisfiable
         /\ Whole * Cardinality(c.req) <= EqHi(c.hi)                        \* overlap with the required ids
         /\ c.allow.k = "list" => /\ EqLo(c.lo) <= Whole * Cardinality(c.allow.ids)
                                  /\ c.req \subseteq c.allow.ids
         \* fungible use: no required ids; AllowedIds::Any, or - if the upper bound is zero - an empty allowlist
         /\ kind = "f" => /\ c.req = {}
                          /\ c.allow.k = "list" => (c.allow.ids = {} /\ c.hi.k = "incl" /\ c.hi.a = 0)

-----------------------------------------------------------------------------
\* NORMALIZATION (GeneralResourceConstraint::normalize; identity on the other constraints)
Normalize(c) ==
  IF c.t # "general" THEN c ELSE
  LET reqN == Whole * Cardinality(c.req)
      lo1  == IF EqLo(c.lo) < reqN THEN [k |-> "incl", a |-> reqN] ELSE c.lo
      hi1  == IF c.allow.k = "list" /\ Whole * Cardinality(c.allow.ids) < EqHi(c.hi)
              THEN [k |-> "incl", a |-> Whole * Cardinality(c.allow.ids)] ELSE c.hi
      moreAllowed == c.allow.k = "any" \/ Cardinality(c.allow.ids) > Cardinality(c.req)
  IN IF moreAllowed /\ reqN = EqHi(hi1)
     THEN [c EXCEPT !.lo = lo1, !.hi = hi1, !.allow = [k |-> "list", ids |-> c.req]]
     ELSE IF moreAllowed /\ c.allow.k = "list" /\ Whole * Cardinality(c.allow.ids) = EqLo(lo1)
     THEN [c EXCEPT !.lo = lo1, !.hi = hi1, !.req = c.allow.ids]
     ELSE [c EXCEPT !.lo = lo1, !.hi = hi1]
\* the canonical form promised for normalized valid constraints (non-fungible use)
Normal(c) ==
  c.t = "general" =>
    /\ Whole * Cardinality(c.req) <= EqLo(c.lo) /\ EqLo(c.lo) <= EqHi(c.hi)
    /\ c.allow.k = "list" => EqHi(c.hi) <= Whole * Cardinality(c.allow.ids)
    /\ Whole * Cardinality(c.req) = EqHi(c.hi) => c.allow = [k |-> "list", ids |-> c.req]
    /\ (c.allow.k = "list" /\ EqLo(c.lo) = Whole * Cardinality(c.allow.ids)) => c.req = c.allow.ids

-----------------------------------------------------------------------------
\* THE RUN-TIME ALGORITHM (validate_fungible / validate_non_fungible), transcribed: amount first
\* (lower, then upper bound), then required ids, then the allowlist; a fungible amount is never
\* checked against id conditions, an id-set constraint on a fungible resource always fails.
Validate(c, b) ==
  LET a == Amt(b) IN
  CASE c.t = "nonzero"   -> a # 0
    [] c.t = "exact"     -> a = c.a
    [] c.t = "atleast"   -> ~(a < c.a)
    [] c.t = "exactnf"   -> b.kind = "nf" /\ (c.ids \ b.ids) = {} /\ (b.ids \ c.ids) = {}
    [] c.t = "atleastnf" -> b.kind = "nf" /\ (c.ids \ b.ids) = {}
    [] c.t = "general"   -> /\ IF c.lo.k = "nonzero" THEN a # 0 ELSE ~(a < c.lo.a)
                            /\ IF c.hi.k = "incl" THEN ~(a > c.hi.a) ELSE TRUE
                            /\ b.kind = "nf" => /\ (c.req \ b.ids) = {}
                                                /\ c.allow.k = "list" => \A i \in b.ids : i \in c.allow.ids

-----------------------------------------------------------------------------
\* THE LAWS OF C37 over a universe of balances Bs(kind)
\* the run-time check decides exactly the mathematical meaning (for constraints valid for the kind)
DecidesMeaning(c, b) == ValidFor(c, b.kind) => (Validate(c, b) <=> Sat(c, b))
\* a constraint declared valid is satisfiable
Satisfiable(c, kind, Bs) == ValidFor(c, kind) => \E b \in Bs : Sat(c, b)
\* normalising a valid constraint never changes which balances it accepts (and keeps it valid, canonical)
NormalizePreserves(c, kind, Bs) ==
  ValidFor(c, kind) => /\ \A b \in Bs : Sat(Normalize(c), b) <=> Sat(c, b)
                       /\ ValidFor(Normalize(c), kind)
                       /\ kind = "nf" => Normal(Normalize(c))
=============================================================================

-------------------------------- MODULE Track --------------------------------
(* C12.  The transaction-wide substate cache (radix-engine/src/track/track.rs, trait
   CommitableSubstateStore) specified by its ABSTRACT VIEW: what a read must return is the base
   database overlaid with the transaction's own node creations, writes and removals.
   Partitions: 1 = map partition of an existing node, 2 = sorted partition of the same node,
   3 = map partition of a node created by the transaction (CreateNode).  Keys are integers; in
   partition 2 the database key order is the integer order.
   Scans and drains with a limit are deliberately NONDETERMINISTIC about WHICH present entries
   they return (the property only fixes how many, distinct, present; a drain removes exactly
   those); the sorted scan is deterministic.                                                  *)
EXTENDS Integers, Sequences, FiniteSets, TLC
CONSTANTS Keys, Vals
Parts == {1, 2, 3}
None == 0
Locs == Parts \X Keys
VARIABLES db,        \* base database: [Locs -> Vals \cup {None}], partition 3 empty (fresh node id)
          view,      \* the abstract view
          force,     \* force-write snapshots: function from a subset of Locs to values
          acc,       \* locations the transaction has accessed individually (tracked)
          written,   \* locations the transaction has written (set / remove / drain / create)
          created,   \* the new node exists
          reverted,  \* revert_non_force_write_changes has been called
          blind,     \* locations whose first individual access was a write (never read before)
          dirty,     \* blind-written locations whose write was undone by the revert
          phase,     \* "run" | "done"
          ret        \* observation of the last operation (always a sequence)
vars == <<db, view, force, acc, written, created, reverted, blind, dirty, phase, ret>>

Present(vw, p) == {k \in Keys : vw[<<p, k>>] # None}
RECURSIVE SortedSeq(_)
SortedSeq(S) == IF S = {} THEN <<>>
                ELSE LET m == CHOOSE x \in S : \A y \in S : x <= y
                         rest == SortedSeq(S \ {m})
                     IN <<m>> \o rest
Min(a, b) == IF a < b THEN a ELSE b
Usable(p) == p # 3 \/ created
\* After a revert the engine only touches the force-written substates (fee vaults) and substates the
\* failed transaction had not written (tracker, validator rewards).  Reads of a location whose blind
\* write was undone are outside the statement and outside what the engine does: the implementation
\* keeps a "Garbage" entry there which shadows the database value (DESIGN.md lead L16).
Reachable(p, k) == <<p, k>> \notin dirty

Init == /\ db \in [Locs -> Vals \cup {None}] /\ \A k \in Keys : db[<<3, k>>] = None
        /\ view = db /\ force = <<>> /\ acc = {} /\ written = {} /\ created = FALSE /\ reverted = FALSE /\ blind = {} /\ dirty = {}
        /\ phase = "run" /\ ret = <<>>

CreateNode(subs) ==          \* subs: [Keys -> Vals \cup {None}]
  /\ phase = "run" /\ ~created /\ ~reverted
  /\ view' = [l \in Locs |-> IF l[1] = 3 THEN subs[l[2]] ELSE view[l]]
  /\ created' = TRUE /\ written' = written \cup {<<3, k>> : k \in {x \in Keys : subs[x] # None}}
  /\ ret' = <<>> /\ UNCHANGED <<db, force, acc, reverted, blind, dirty, phase>>
Get(p, k) ==
  /\ phase = "run" /\ Usable(p) /\ Reachable(p, k)
  /\ ret' = <<view[<<p, k>>]>> /\ acc' = acc \cup {<<p, k>>}
  /\ UNCHANGED <<db, view, force, written, created, reverted, blind, dirty, phase>>
Set(p, k, v) ==
  /\ phase = "run" /\ Usable(p) /\ Reachable(p, k)
  /\ view' = [view EXCEPT ![<<p, k>>] = v]
  /\ acc' = acc \cup {<<p, k>>} /\ written' = written \cup {<<p, k>>}
  /\ blind' = IF <<p, k>> \in acc THEN blind ELSE blind \cup {<<p, k>>}
  /\ ret' = <<>> /\ UNCHANGED <<db, force, created, reverted, dirty, phase>>
Remove(p, k) ==
  /\ phase = "run" /\ Usable(p) /\ Reachable(p, k)
  /\ ret' = <<view[<<p, k>>]>>
  /\ view' = [view EXCEPT ![<<p, k>>] = None]
  /\ acc' = acc \cup {<<p, k>>} /\ written' = written \cup {<<p, k>>}
  /\ UNCHANGED <<db, force, created, reverted, blind, dirty, phase>>
\* the allowed results of a limited scan: duplicate-free sequences of present keys, as many as the limit allows
ScanResults(p, limit) ==
  LET n == Min(limit, Cardinality(Present(view, p)))
  IN {s \in [1..n -> Present(view, p)] : \A i, j \in 1..n : i # j => s[i] # s[j]}
\* Scans and drains are specified for the running transaction only: after a revert the engine performs
\* just the fee/tracker reads and writes, and the implementation's reverted write-only entries
\* ("Garbage") would shadow database entries in a scan (recorded in DESIGN.md, lead L16; not reachable).
ScanKeys(p, limit, res) ==
  /\ phase = "run" /\ Usable(p) /\ ~reverted
  /\ res \in ScanResults(p, limit)
  /\ ret' = res /\ UNCHANGED <<db, view, force, acc, written, created, reverted, blind, dirty, phase>>
Drain(p, limit, res) ==
  /\ phase = "run" /\ Usable(p) /\ ~reverted
  /\ res \in ScanResults(p, limit)
  /\ ret' = [i \in DOMAIN res |-> <<res[i], view[<<p, res[i]>>]>>]
  /\ view' = [l \in Locs |-> IF l[1] = p /\ \E i \in DOMAIN res : res[i] = l[2] THEN None ELSE view[l]]
  /\ written' = written \cup {<<p, res[i]>> : i \in DOMAIN res}
  /\ UNCHANGED <<db, force, acc, created, reverted, blind, dirty, phase>>
ScanSorted(limit) ==
  /\ phase = "run" /\ ~reverted
  /\ LET ks == SortedSeq(Present(view, 2))
         n == Min(limit, Len(ks))
     IN ret' = [i \in 1..n |-> <<ks[i], view[<<2, ks[i]>>]>>]
  /\ UNCHANGED <<db, view, force, acc, written, created, reverted, blind, dirty, phase>>
\* force_write: snapshot of a tracked substate of an EXISTING node (the engine opens it with
\* UNMODIFIED_BASE|FORCE_WRITE, which excludes nodes created by the transaction)
ForceWrite(p, k) ==
  /\ phase = "run" /\ ~reverted /\ p # 3 /\ <<p, k>> \in acc
  /\ force' = [l \in (DOMAIN force) \cup {<<p, k>>} |-> IF l = <<p, k>> THEN view[l] ELSE force[l]]
  /\ ret' = <<>> /\ UNCHANGED <<db, view, acc, written, created, reverted, blind, dirty, phase>>
\* revert_non_force_write_changes: only the force-written substates survive
Revert ==
  /\ phase = "run" /\ ~reverted
  /\ view' = [l \in Locs |-> IF l \in DOMAIN force THEN force[l] ELSE db[l]]
  /\ written' = {l \in DOMAIN force : l \in written}
  /\ force' = <<>> /\ created' = FALSE /\ reverted' = TRUE /\ ret' = <<>>
  /\ dirty' = {l \in blind : l \notin DOMAIN force}
  /\ UNCHANGED <<db, acc, blind, phase>>
\* finalize().to_state_updates(): a map loc -> new value (None = delete)
FinalizeOk(upd) ==            \* upd: function from a subset of Locs to Vals \cup {None}
  /\ \A l \in Locs : (IF l \in DOMAIN upd THEN upd[l] ELSE db[l]) = view[l]   \* exactly the overlaid differences
  /\ DOMAIN upd \subseteq written                                               \* reads are pruned
Finalize(upd) ==
  /\ phase = "run" /\ FinalizeOk(upd)
  /\ phase' = "done" /\ ret' = <<>> /\ UNCHANGED <<db, view, force, acc, written, created, reverted, blind, dirty>>

\* the canonical diff (used by the bounded model check: some upd always exists)
Diff == [l \in {x \in written : TRUE} |-> view[l]]
Next == \/ \E subs \in [Keys -> Vals \cup {None}] : CreateNode(subs)
        \/ \E p \in Parts, k \in Keys : Get(p, k) \/ Remove(p, k) \/ ForceWrite(p, k) \/ \E v \in Vals : Set(p, k, v)
        \/ \E p \in Parts, limit \in 0..(Cardinality(Keys) + 1) :
              \E res \in ScanResults(p, limit) : ScanKeys(p, limit, res) \/ Drain(p, limit, res)
        \/ \E limit \in 0..(Cardinality(Keys) + 1) : ScanSorted(limit)
        \/ Revert
        \/ Finalize(Diff)
Spec == Init /\ [][Next]_vars

\* ---- properties of the specification itself (checked exhaustively by MCTrack)
\* the tracked diff always reproduces the view: Finalize is always possible
DiffComplete == phase = "run" => FinalizeOk(Diff)
\* untouched locations keep the database value
Frame == \A l \in Locs : l \notin written => (view[l] = db[l] \/ (l[1] = 3 /\ ~created))
\* after a revert only force-written locations differ from the database
ForceOnly == \A l \in Locs : (view[l] # db[l]) => l \in written
NewNodeGone == ~created => \A k \in Keys : view[<<3, k>>] = None
=============================================================================

------------------------------ MODULE TraceTrack ------------------------------
(* C12, impl -> spec.  A recorded run of the real Track (operations with arguments and what they
   returned) is accepted iff every event is an instance of the corresponding action of Track.tla
   with the recorded result.                                                                 *)
EXTENDS Track, TraceIO
VARIABLE l
SeqToSet(s) == {s[i] : i \in DOMAIN s}
FromTriples(e) == [loc \in Locs |-> IF \E t \in SeqToSet(e) : t[1] = loc[1] /\ t[2] = loc[2]
                                     THEN (CHOOSE t \in SeqToSet(e) : t[1] = loc[1] /\ t[2] = loc[2])[3] ELSE None]
SubsOf(e) == [k \in Keys |-> IF \E t \in SeqToSet(e) : t[1] = k THEN (CHOOSE t \in SeqToSet(e) : t[1] = k)[2] ELSE None]
Pairs(s) == [i \in DOMAIN s |-> <<s[i][1], s[i][2]>>]
Ints(s) == [i \in DOMAIN s |-> s[i]]
UpdOf(u) == LET S == SeqToSet(u) IN [loc \in {<<t[1], t[2]>> : t \in S} |-> (CHOOSE t \in S : t[1] = loc[1] /\ t[2] = loc[2])[3]]
Ev == Rec[l]
TInit == /\ l = 1 /\ db = [loc \in Locs |-> None] /\ view = db /\ force = <<>> /\ acc = {} /\ written = {}
         /\ created = FALSE /\ reverted = FALSE /\ blind = {} /\ dirty = {} /\ phase = "done" /\ ret = <<>>
Step(A) == l <= Len(Rec) /\ A /\ l' = l + 1
TReset == Step(/\ Ev.a = "init"
               /\ db' = FromTriples(Ev.e) /\ view' = FromTriples(Ev.e) /\ force' = <<>> /\ acc' = {} /\ written' = {}
               /\ created' = FALSE /\ reverted' = FALSE /\ blind' = {} /\ dirty' = {} /\ phase' = "run" /\ ret' = <<>>)
TCreate == Step(Ev.a = "create" /\ CreateNode(SubsOf(Ev.e)))
TGet == Step(Ev.a = "get" /\ Get(Ev.p, Ev.k) /\ ret' = <<Ev.ret>>)
TSet == Step(Ev.a = "set" /\ Set(Ev.p, Ev.k, Ev.v))
TRemove == Step(Ev.a = "remove" /\ Remove(Ev.p, Ev.k) /\ ret' = <<Ev.ret>>)
TScan == Step(Ev.a = "scan" /\ ScanKeys(Ev.p, Ev.v, Ints(Ev.ret)))
TDrain == Step(Ev.a = "drain" /\ Drain(Ev.p, Ev.v, [i \in DOMAIN Ev.ret |-> Ev.ret[i][1]]) /\ ret' = Pairs(Ev.ret))
TSorted == Step(Ev.a = "sorted" /\ ScanSorted(Ev.v) /\ ret' = Pairs(Ev.ret))
TForce == Step(Ev.a = "force" /\ ForceWrite(Ev.p, Ev.k))
TRevert == Step(Ev.a = "revert" /\ Revert)
TFinalize == Step(/\ Ev.a = "finalize" /\ Finalize(UpdOf(Ev.upd))
                  /\ Len(Ev.upd) = Cardinality(DOMAIN UpdOf(Ev.upd))       \* no duplicate entries
                  /\ (Ev.new_node => created) /\ Ev.other = 0)
TNext == TReset \/ TCreate \/ TGet \/ TSet \/ TRemove \/ TScan \/ TDrain \/ TSorted \/ TForce \/ TRevert \/ TFinalize
TSpec == TInit /\ [][TNext]_<<vars, l>>
=============================================================================

-------------------------- MODULE TraceTrackEngine --------------------------
(* X02 (extension of C12, DESIGN 7 hook H2): the call stream of the REAL engine's Track during the
   execution of real transactions (the repository's transaction scenarios under every protocol
   version, seeded LedgerSimulator histories), recorded by the cfg-guarded sink in
   radix-engine/src/track/track.rs, is accepted iff it is a behaviour of Track.tla's abstract view.

   Differences to the unit-level TraceTrack, all forced by the setting:
   * The universe is not fixed.  A location is <<p, k>>: k the rank of the substate among all
     substates the transaction mentions (ranked by node, partition, database sort key, so inside a
     partition integer order = database order), p >= 4 the id of its partition (Track.tla keeps
     1..3 for its own three-partition model; with p >= 4 its per-location actions Get / Set /
     Remove / ForceWrite apply verbatim and are used as they are).  CreateNode, the scans,
     Revert and Finalize quantify over Track.tla's fixed Locs, so they are restated here over the
     transaction's locations with the same formulas (any number of created nodes / partitions).
   * The base database is only PARTLY KNOWN.  Track.tla's Init lets db be arbitrary; here the
     choice is resolved lazily: U = not yet known, PU = known to exist, value not yet known (a key
     returned by scan_keys).  The first read of an untouched location DEFINES db there; every later
     read must agree with the abstract view.  A scan that returns fewer entries than its limit has
     shown the whole partition: every still unknown location of the partition is then absent.
   * delete_partition (transaction tracker) and transient substates (never committed) exist.
   Everything else - what a read returns, which entries a scan may return and how many, what a
     revert keeps, that the final state updates are exactly the overlaid differences with reads
     pruned - is Track.tla's.                                                                   *)
EXTENDS Track, TraceIO
VARIABLES l, meta, delparts, trans,
          cnodes     \* nodes created by the transaction (Track.tla's `created` flag is for its single new node; stays FALSE here)
U == -1
PU == -2
Ev == Rec[l]
tvars == <<vars, l, meta, delparts, trans, cnodes>>

Part(k) == meta.part[k]
L(k) == <<Part(k), k>>
AllLocs == DOMAIN view
PLocs(p) == {x \in AllLocs : x[1] = p}
NLocs(nid) == {x \in AllLocs : meta.node[x[2]] = nid}
Known(x) == x # U /\ x # PU
SeqSet(s) == {s[i] : i \in DOMAIN s}
Firsts(s) == {s[i][1] : i \in DOMAIN s}
PairVal(s, k) == (CHOOSE t \in SeqSet(s) : t[1] = k)[2]
Extra == <<meta, delparts, trans, cnodes>>

TInit == /\ l = 1 /\ db = <<>> /\ view = <<>> /\ force = <<>> /\ acc = {} /\ written = {} /\ created = FALSE /\ cnodes = {}
         /\ reverted = FALSE /\ blind = {} /\ dirty = {} /\ phase = "done" /\ ret = <<>>
         /\ meta = [n |-> 0, part |-> <<>>, node |-> <<>>] /\ delparts = {} /\ trans = {}
Step(A) == l <= Len(Rec) /\ A /\ l' = l + 1

\* a new Track instance: nothing is known about the database
TNew == Step(/\ Ev.a = "init"
             /\ Len(Ev.part) = Ev.n /\ Len(Ev.node) = Ev.n /\ \A k \in 1..Ev.n : Ev.part[k] >= 4
             /\ meta' = [n |-> Ev.n, part |-> Ev.part, node |-> Ev.node]
             /\ db' = [x \in {<<Ev.part[k], k>> : k \in 1..Ev.n} |-> U]
             /\ view' = [x \in {<<Ev.part[k], k>> : k \in 1..Ev.n} |-> U]
             /\ force' = <<>> /\ acc' = {} /\ written' = {} /\ created' = FALSE /\ cnodes' = {} /\ reverted' = FALSE
             /\ blind' = {} /\ dirty' = {} /\ phase' = "run" /\ ret' = <<>> /\ delparts' = {} /\ trans' = {})

\* ---- per-location operations: Track.tla's actions; the first read of an unknown location defines db there
Learn(loc, v) == /\ db[loc] = view[loc]                              \* unknown in the view = unknown in the database
                 /\ (view[loc] = PU => v # None)                      \* a scan has shown it exists
                 /\ db' = [db EXCEPT ![loc] = v]
TGet == Step(/\ Ev.a = "get"
             /\ LET k == Ev.loc  p == Part(k) IN
                IF Known(view[L(k)])
                THEN Get(p, k) /\ ret' = <<Ev.ret>>
                ELSE /\ phase = "run" /\ Reachable(p, k)
                     /\ Learn(L(k), Ev.ret) /\ view' = [view EXCEPT ![L(k)] = Ev.ret]
                     /\ ret' = <<Ev.ret>> /\ acc' = acc \cup {L(k)}
                     /\ UNCHANGED <<force, written, created, reverted, blind, dirty, phase>>
             /\ UNCHANGED Extra)
TSet == Step(Ev.a = "set" /\ Ev.v # None /\ Set(Part(Ev.loc), Ev.loc, Ev.v) /\ UNCHANGED Extra)
TRemove == Step(/\ Ev.a = "remove"
                /\ LET k == Ev.loc  p == Part(k) IN
                   IF Known(view[L(k)])
                   THEN Remove(p, k) /\ ret' = <<Ev.ret>>
                   ELSE /\ phase = "run" /\ Reachable(p, k)
                        /\ Learn(L(k), Ev.ret) /\ view' = [view EXCEPT ![L(k)] = None]
                        /\ ret' = <<Ev.ret>> /\ acc' = acc \cup {L(k)} /\ written' = written \cup {L(k)}
                        /\ UNCHANGED <<force, created, reverted, blind, dirty, phase>>
                /\ UNCHANGED Extra)
TForce == Step(Ev.a = "force" /\ ForceWrite(Part(Ev.loc), Ev.loc) /\ Known(view[L(Ev.loc)]) /\ UNCHANGED Extra)

\* ---- CreateNode (Track.tla's, for any number of nodes): the node id is fresh - nothing is known to exist under it
TCreate == Step(/\ Ev.a = "create"
                /\ LET nid == Ev.node  NL == NLocs(nid)  S == Ev.subs IN
                   /\ phase = "run" /\ ~reverted
                   /\ \A i \in DOMAIN S : L(S[i][1]) \in NL /\ S[i][2] # None
                   /\ Cardinality(Firsts(S)) = Len(S)
                   \* the id is fresh: nothing is known to exist under it in the database.  The kernel creates a
                   \* global node twice (address reservation with a phantom type info, then the globalized object):
                   \* create_node on a node the transaction created itself starts it afresh.
                   /\ \A x \in NL : db[x] \in {U, None} /\ (nid \notin cnodes => view[x] \in {U, None})
                   /\ db' = [x \in AllLocs |-> IF x \in NL THEN None ELSE db[x]]
                   /\ view' = [x \in AllLocs |-> IF x \in NL THEN (IF x[2] \in Firsts(S) THEN PairVal(S, x[2]) ELSE None) ELSE view[x]]
                   /\ cnodes' = cnodes \cup {nid}
                   /\ written' = written \cup {L(S[i][1]) : i \in DOMAIN S}
                /\ ret' = <<>> /\ UNCHANGED <<force, acc, created, reverted, blind, dirty, phase, meta, delparts, trans>>)

\* ---- scans.  Track.tla: a duplicate-free sequence of present keys, min(limit, |present|) of them.
\* With a partly known database: only entries that may be present, all different, at most `limit`;
\* if fewer than `limit`, every entry known to be present is among them (and the rest is now known absent).
Shown(p, rs, short) ==       \* what a scan of partition p that returned the keys rs teaches about unknown locations
  [x \in AllLocs |-> IF x[1] = p /\ view[x] = U THEN (IF x[2] \in rs THEN PU ELSE IF short THEN None ELSE U) ELSE view[x]]
ShownDb(p, rs, short) ==
  [x \in AllLocs |-> IF x[1] = p /\ view[x] = U THEN (IF x[2] \in rs THEN PU ELSE IF short THEN None ELSE U) ELSE db[x]]
ScanShape(p, ks, limit) ==
  /\ phase = "run" /\ ~reverted /\ p \notin delparts
  /\ Len(ks) <= limit /\ Cardinality(SeqSet(ks)) = Len(ks)
  /\ \A i \in DOMAIN ks : Part(ks[i]) = p /\ view[L(ks[i])] # None
  /\ Len(ks) < limit => \A x \in PLocs(p) : view[x] \notin {None, U} => x[2] \in SeqSet(ks)
TScan == Step(/\ Ev.a = "scan"
              /\ ScanShape(Ev.pid, Ev.ret, Ev.limit)
              /\ view' = Shown(Ev.pid, SeqSet(Ev.ret), Len(Ev.ret) < Ev.limit)
              /\ db' = ShownDb(Ev.pid, SeqSet(Ev.ret), Len(Ev.ret) < Ev.limit)
              /\ ret' = Ev.ret
              /\ UNCHANGED <<force, acc, written, created, reverted, blind, dirty, phase>> /\ UNCHANGED Extra)
\* values returned with the keys: the view's where it is known, otherwise they define the database
ValuesOk(S) == \A i \in DOMAIN S : /\ S[i][2] # None
                                   /\ Known(view[L(S[i][1])]) => S[i][2] = view[L(S[i][1])]
Keys1(S) == [i \in DOMAIN S |-> S[i][1]]
TDrain == Step(/\ Ev.a = "drain"
               /\ LET S == Ev.ret  ks == Keys1(Ev.ret)  short == Len(Ev.ret) < Ev.limit IN
                  /\ ScanShape(Ev.pid, ks, Ev.limit) /\ ValuesOk(S)
                  /\ view' = [x \in AllLocs |-> IF x[1] = Ev.pid /\ x[2] \in SeqSet(ks) THEN None
                                               ELSE Shown(Ev.pid, SeqSet(ks), short)[x]]
                  /\ db' = [x \in AllLocs |-> IF x[1] = Ev.pid /\ x[2] \in SeqSet(ks) /\ ~Known(view[x]) THEN PairVal(S, x[2])
                                             ELSE ShownDb(Ev.pid, SeqSet(ks), short)[x]]
                  /\ written' = written \cup {L(ks[i]) : i \in DOMAIN ks}
                  /\ ret' = S
               /\ UNCHANGED <<force, acc, created, reverted, blind, dirty, phase>> /\ UNCHANGED Extra)
\* sorted scan: exactly the first entries in key order
TSorted == Step(/\ Ev.a = "sorted"
                /\ LET S == Ev.ret  ks == Keys1(Ev.ret)  short == Len(Ev.ret) < Ev.limit
                       Before(k) == short \/ k < ks[Len(ks)]            \* keys the scan has passed
                   IN
                   /\ phase = "run" /\ ~reverted /\ Ev.pid \notin delparts
                   /\ Len(ks) <= Ev.limit /\ \A i \in DOMAIN ks : Part(ks[i]) = Ev.pid
                   /\ \A i \in DOMAIN ks : \A j \in DOMAIN ks : i < j => ks[i] < ks[j]
                   /\ \A i \in DOMAIN ks : view[L(ks[i])] # None
                   /\ ValuesOk(S)
                   /\ \A x \in PLocs(Ev.pid) : (view[x] \notin {None, U} /\ Before(x[2])) => x[2] \in SeqSet(ks)
                   /\ view' = [x \in AllLocs |-> IF x[1] = Ev.pid /\ ~Known(view[x])
                                                THEN (IF x[2] \in SeqSet(ks) THEN PairVal(S, x[2]) ELSE IF view[x] = U /\ Before(x[2]) THEN None ELSE view[x])
                                                ELSE view[x]]
                   /\ db' = [x \in AllLocs |-> IF x[1] = Ev.pid /\ ~Known(view[x])
                                              THEN (IF x[2] \in SeqSet(ks) THEN PairVal(S, x[2]) ELSE IF view[x] = U /\ Before(x[2]) THEN None ELSE db[x])
                                              ELSE db[x]]
                   /\ ret' = S
                /\ UNCHANGED <<force, acc, written, created, reverted, blind, dirty, phase>> /\ UNCHANGED Extra)

\* ---- delete_partition (transaction tracker): the whole partition is gone, whatever the database holds
TDelPart == Step(/\ Ev.a = "delpart" /\ phase = "run"
                 /\ delparts' = delparts \cup {Ev.pid}
                 /\ view' = [x \in AllLocs |-> IF x[1] = Ev.pid THEN None ELSE view[x]]
                 /\ ret' = <<>>
                 /\ UNCHANGED <<db, force, acc, written, created, reverted, blind, dirty, phase, meta, trans, cnodes>>)
TTransient == Step(/\ Ev.a = "transient" /\ trans' = trans \cup {L(Ev.loc)}
                   /\ UNCHANGED <<vars, meta, delparts, cnodes>>)

\* ---- Revert (Track.tla's, over the transaction's locations): only force-written substates survive
TRevert == Step(/\ Ev.a = "revert" /\ phase = "run" /\ ~reverted
                /\ view' = [x \in AllLocs |-> IF x \in DOMAIN force THEN force[x]
                                             ELSE IF x[1] \in delparts THEN None ELSE db[x]]
                /\ written' = {x \in DOMAIN force : x \in written}
                /\ force' = <<>> /\ cnodes' = {} /\ reverted' = TRUE /\ ret' = <<>>
                /\ dirty' = {x \in blind : x \notin DOMAIN force}
                /\ UNCHANGED <<db, acc, created, blind, phase, meta, delparts, trans>>)
TFinalizeCall == Step(Ev.a = "finalize" /\ phase = "run" /\ UNCHANGED vars /\ UNCHANGED Extra)

\* ---- the state updates handed to the database (Track.tla's FinalizeOk): exactly the overlaid differences, reads pruned
UpdOf(u) == [x \in {L(u[i][1]) : i \in DOMAIN u} |-> PairVal(u, x[2])]
FinalizeOkE(upd, resets) ==
  /\ resets = delparts
  /\ \A x \in AllLocs \ trans :
        (IF x \in DOMAIN upd THEN upd[x] ELSE IF x[1] \in delparts THEN None ELSE db[x]) = view[x]
  /\ DOMAIN upd \subseteq written
  /\ DOMAIN upd \cap trans = {}
TUpdates == Step(/\ Ev.a = "updates" /\ phase = "run"
                 /\ Cardinality(Firsts(Ev.upd)) = Len(Ev.upd) /\ Cardinality(SeqSet(Ev.reset)) = Len(Ev.reset)
                 /\ FinalizeOkE(UpdOf(Ev.upd), SeqSet(Ev.reset))
                 /\ phase' = "done" /\ ret' = <<>>
                 /\ UNCHANGED <<db, view, force, acc, written, created, reverted, blind, dirty>> /\ UNCHANGED Extra)
\* end of the transaction: a committed transaction (success or failure) has produced its state updates
TEnd == Step(/\ Ev.a = "end" /\ Ev.outcome \in {"success", "failure", "reject"}
             /\ (Ev.outcome \in {"success", "failure"} => phase = "done")
             /\ phase' = "done" /\ UNCHANGED <<db, view, force, acc, written, created, reverted, blind, dirty, ret>> /\ UNCHANGED Extra)

TNext == TNew \/ TGet \/ TSet \/ TRemove \/ TForce \/ TCreate \/ TScan \/ TDrain \/ TSorted \/ TDelPart \/ TTransient
         \/ TRevert \/ TFinalizeCall \/ TUpdates \/ TEnd
TSpec == TInit /\ [][TNext]_tvars
\* what is unknown in the view is unknown in the database, and the other way round nothing unknown is ever "written"
UnknownAgree == \A x \in AllLocs : ~Known(view[x]) => db[x] = view[x]
=============================================================================

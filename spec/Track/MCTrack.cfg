SPECIFICATION MCSpec
CONSTANTS
  Keys = {1, 2}
  Vals = {1, 2}
  MaxOps = 4
VIEW View
INVARIANTS DiffComplete Frame ForceOnly NewNodeGone
CHECK_DEADLOCK FALSE

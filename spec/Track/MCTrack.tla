------------------------------- MODULE MCTrack -------------------------------
EXTENDS Track
CONSTANT MaxOps
VARIABLE nops
MCInit == Init /\ nops = 0
MCNext == nops < MaxOps /\ Next /\ nops' = nops + 1
MCSpec == MCInit /\ [][MCNext]_<<vars, nops>>
View == <<db, view, force, acc, written, created, reverted, dirty, phase>>
=============================================================================

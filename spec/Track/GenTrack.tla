------------------------------- MODULE GenTrack -------------------------------
(* Input generator for C12 (mode G': TLC chooses the operation sequences, the harness executes them
   on the real Track and records what it returned, TraceTrack.tla validates the recording against
   the nondeterministic actions of Track.tla).  Only the input-determined part of the state is
   kept (accessed locations, new node created), which is all the enabling conditions need.    *)
EXTENDS Integers, Sequences, FiniteSets, TLC, Json
CONSTANTS Keys, Vals, K
Parts == {1, 2, 3}
VARIABLES acc, created, reverted, blind, forced, hist
R(S) == RandomElement(S)
\* Random draws: a zero-arity definition containing RandomElement is evaluated once and cached by TLC (hence
\* the dummy `tag` parameters), and lazily built values may be re-evaluated at every use (hence sequences
\* built eagerly with Append and bound through singleton sets).
RECURSIVE SortedSeq(_)
SortedSeq(S) == IF S = {} THEN <<>>
                ELSE LET m == CHOOSE x \in S : \A y \in S : x <= y
                         rest == SortedSeq(S \ {m})
                     IN <<m>> \o rest
KeySeq == SortedSeq(Keys)
RECURSIVE RandSubsSeq(_, _)
RandSubsSeq(ks, tag) == IF ks = <<>> THEN <<>>
                        ELSE LET rest == RandSubsSeq(Tail(ks), tag)
                             IN IF R(1..2) = 1 THEN <<<<Head(ks), R(Vals)>>>> \o rest ELSE rest
RECURSIVE RandBaseSeq(_, _, _)
RandBaseSeq(p, ks, tag) == IF ks = <<>> THEN <<>>
                           ELSE LET rest == RandBaseSeq(p, Tail(ks), tag)
                                IN IF R(1..3) # 1 THEN <<<<p, Head(ks), R(Vals)>>>> \o rest ELSE rest
SInit == /\ acc = {} /\ created = FALSE /\ reverted = FALSE /\ blind = {} /\ forced = {}
         /\ \E tag \in 1..64 : \E e1 \in {RandBaseSeq(1, KeySeq, tag)}, e2 \in {RandBaseSeq(2, KeySeq, tag)} :
              hist = <<[a |-> "init", p |-> 0, k |-> 0, v |-> 0, e |-> e1 \o e2]>>
\* after a revert, blind-written locations that were not force-written are not touched (see Track.tla)
OkLoc(p, k) == ~reverted \/ <<p, k>> \notin (blind \ forced)
Op(a, p, k, v, e) == [a |-> a, p |-> p, k |-> k, v |-> v, e |-> e]
SNext ==
  /\ Len(hist) <= K
  \* bound variables (not LET definitions, which TLC would re-evaluate at every use) fix the random draws
  /\ \E c \in {R(1..20)}, p \in {IF created THEN R(Parts) ELSE R({1, 2})}, k \in {R(Keys)},
        lim \in {R(0..(Cardinality(Keys) + 1))}, fv \in {R(Vals)}, fl \in {R({x \in acc \cup {<<1, 1>>} : x[1] # 3})},
        subs \in {RandSubsSeq(KeySeq, Len(hist))} :
        \/ /\ c \in 1..3 /\ OkLoc(p, k) /\ hist' = Append(hist, Op("get", p, k, 0, <<>>)) /\ acc' = acc \cup {<<p, k>>} /\ UNCHANGED <<created, reverted, blind, forced>>
        \/ /\ c \in 4..7 /\ OkLoc(p, k) /\ hist' = Append(hist, Op("set", p, k, fv, <<>>)) /\ acc' = acc \cup {<<p, k>>}
           /\ blind' = (IF <<p, k>> \in acc THEN blind ELSE blind \cup {<<p, k>>}) /\ UNCHANGED <<created, reverted, forced>>
        \/ /\ c \in 8..9 /\ OkLoc(p, k) /\ hist' = Append(hist, Op("remove", p, k, 0, <<>>)) /\ acc' = acc \cup {<<p, k>>} /\ UNCHANGED <<created, reverted, blind, forced>>
        \/ /\ c \in 10..11 /\ ~reverted /\ hist' = Append(hist, Op("scan", p, 0, lim, <<>>)) /\ UNCHANGED <<acc, created, reverted, blind, forced>>
        \/ /\ c \in 12..13 /\ ~reverted /\ hist' = Append(hist, Op("drain", p, 0, lim, <<>>)) /\ UNCHANGED <<acc, created, reverted, blind, forced>>
        \/ /\ c \in 14..15 /\ ~reverted /\ hist' = Append(hist, Op("sorted", 2, 0, lim, <<>>)) /\ UNCHANGED <<acc, created, reverted, blind, forced>>
        \/ /\ c = 16 /\ ~created /\ ~reverted
           /\ hist' = Append(hist, Op("create", 3, 0, 0, subs)) /\ created' = TRUE /\ UNCHANGED <<acc, reverted, blind, forced>>
        \/ /\ c \in 17..18 /\ ~reverted /\ \E l \in acc : l[1] # 3
           /\ fl \in acc /\ hist' = Append(hist, Op("force", fl[1], fl[2], 0, <<>>)) /\ forced' = forced \cup {fl}
           /\ UNCHANGED <<acc, created, reverted, blind>>
        \/ /\ c = 19 /\ ~reverted
           /\ hist' = Append(hist, Op("revert", 0, 0, 0, <<>>)) /\ reverted' = TRUE /\ created' = FALSE
           /\ acc' = {l \in acc : l[1] # 3} /\ UNCHANGED <<blind, forced>>
        \/ /\ c = 20 /\ OkLoc(p, k) /\ hist' = Append(hist, Op("get", p, k, 0, <<>>)) /\ acc' = acc \cup {<<p, k>>} /\ UNCHANGED <<created, reverted, blind, forced>>
SSpec == SInit /\ [][SNext]_<<acc, created, reverted, blind, forced, hist>>
Emit == Len(hist) = K + 1 => PrintT(<<"B", ToJson(hist)>>)
=============================================================================

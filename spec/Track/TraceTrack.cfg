SPECIFICATION TSpec
CONSTANTS
  Keys = {1, 2, 3, 4}
  Vals = {1, 2, 3}
POSTCONDITION TraceAccepted
CHECK_DEADLOCK FALSE

SPECIFICATION SSpec
CONSTANTS
  Keys = {1, 2, 3, 4}
  Vals = {1, 2, 3}
  K = 12
INVARIANT Emit
CHECK_DEADLOCK FALSE

SPECIFICATION TSpec
CONSTANTS
  Keys = {}
  Vals = {}
INVARIANT UnknownAgree
POSTCONDITION TraceAccepted
CHECK_DEADLOCK FALSE

SPECIFICATION Spec
CONSTANTS
  Tier = "quick"
INVARIANTS LawsHold NominalAccepted Emit
CHECK_DEADLOCK FALSE

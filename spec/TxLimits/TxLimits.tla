------------------------------ MODULE TxLimits ------------------------------
(* C34.  Which notarized transactions the TransactionValidator accepts, as far as the configured
   limits are concerned (radix-transactions/src/validation/transaction_validator_v1.rs, _v2.rs,
   transaction_structure_validator.rs (AcrossIntentAggregation), signature_validator.rs (counts),
   transaction_validation_configuration.rs and model/preparation/decoder.rs (PreparationSettings)).

   Abstract transaction (only what the limits look at):
     ver 1:  [ver, net, start, end, tip, msg, nrefs, ninstr, nblobs, nsigs, payload]
     ver 2:  [ver, tipbp, payload, intents |-> << [net, start, end, tmin, tmax, msg, nrefs, ninstr,
                                                    nblobs, nsigs, parent] >>]
             intent 1 is the transaction intent (parent 0); the others are the non-root subintents
             in list order, parent = index of the parent intent (always a tree here, C35 covers the rest).
     msg  =  [kind |-> "none" | "plain" | "enc", mime, len, dec |-> << [key, val, n] >>]
             (dec: one entry per key of decryptors_by_curve; key = the map key, val = the curve of
             the value, n = number of decryptors)
     tmin / tmax = -1 when absent;   payload = -1: whatever the content needs (small), else the
     exact length of the raw payload in bytes.
   Numbers: TLC integers.  INF = 2^31-1 stands for usize::MAX in a limit ("no limit").  Epochs and
   the V2 tip use an order embedding of the real range into 0..INF: a model value v < 2^30 is the
   real value v, a model value v >= 2^30 is REALMAX - (INF - v) (the top of the model line is glued
   to the top of u64 / u32).  Comparisons and "start + range overflows" are preserved because ranges
   are small.                                                                                   *)
EXTENDS Integers, Sequences, FiniteSets, TLC

INF == 2147483647

SeqSum(s) == LET RECURSIVE Go(_)
                 Go(k) == IF k = 0 THEN 0 ELSE LET r == Go(k - 1) IN r + s[k]
             IN Go(Len(s))
MaxOf(S) == CHOOSE x \in S : \A y \in S : y <= x
MinOf(S) == CHOOSE x \in S : \A y \in S : x <= y

---------------------------------------------------------------------------
\* message rules (identical for V1 and V2 messages)
MsgErrs(msg, mc) ==
  IF msg.kind = "none" THEN {}
  ELSE IF msg.kind = "plain" THEN
       (IF msg.mime > mc.maxMime THEN {"MimeTooLong"} ELSE {})
    \cup (IF msg.len > mc.maxPlain THEN {"PlainTooLong"} ELSE {})
  ELSE (IF msg.len > mc.maxEnc THEN {"EncTooLong"} ELSE {})
    \cup (IF Len(msg.dec) = 0 THEN {"NoDecryptors"} ELSE {})
    \cup (IF \E k \in DOMAIN msg.dec : msg.dec[k].key # msg.dec[k].val THEN {"CurveMismatch"} ELSE {})
    \cup (IF \E k \in DOMAIN msg.dec : msg.dec[k].n = 0 THEN {"NoDecryptorsForCurve"} ELSE {})
    \cup (IF SeqSum([k \in DOMAIN msg.dec |-> msg.dec[k].n]) > mc.maxDecr THEN {"TooManyDecryptors"} ELSE {})

\* one intent's own epoch window: non-empty, start + max range representable, not longer than the maximum
EpochErrs(start, end, cfg) ==
  IF end <= start THEN {"EpochRange"}
  ELSE IF cfg.maxEpochRange > INF - start THEN {"EpochRange"}      \* start + range overflows u64
  ELSE IF end > start + cfg.maxEpochRange THEN {"EpochRange"} ELSE {}
NetErrs(net, cfg) == IF cfg.net # -1 /\ net # cfg.net THEN {"Network"} ELSE {}

---------------------------------------------------------------------------
\* V1
ErrsV1(tx, cfg) ==
     (IF tx.payload > cfg.prep.maxPayload THEN {"TooLarge"} ELSE {})
  \cup (IF tx.nblobs > cfg.prep.maxBlobs THEN {"TooManyBlobs"} ELSE {})
  \cup NetErrs(tx.net, cfg)
  \cup EpochErrs(tx.start, tx.end, cfg)
  \cup (IF tx.tip < cfg.minTipPct \/ tx.tip > cfg.maxTipPct THEN {"Tip"} ELSE {})
  \cup MsgErrs(tx.msg, cfg.msg)
  \cup (IF tx.nrefs > cfg.maxRefs \/ tx.nrefs > cfg.maxTotalRefs THEN {"TooManyRefs"} ELSE {})
  \cup (IF tx.ninstr > cfg.maxInstr THEN {"TooManyInstr"} ELSE {})
  \cup (IF tx.nsigs > cfg.maxSigs \/ tx.nsigs + 1 > cfg.maxTotalSigs THEN {"TooManySigs"} ELSE {})

---------------------------------------------------------------------------
\* V2
Ints(tx) == DOMAIN tx.intents
Children(tx, i) == {j \in Ints(tx) : tx.intents[j].parent = i}
RECURSIVE DepthOf(_, _)
DepthOf(tx, i) == IF tx.intents[i].parent = 0 THEN 0
                  ELSE LET d == DepthOf(tx, tx.intents[i].parent) IN d + 1
\* the overall validity window: the intersection of all the intents' windows
Present(S) == {x \in S : x # -1}
Overall(tx) ==
  [start |-> MaxOf({tx.intents[i].start : i \in Ints(tx)}),
   end   |-> MinOf({tx.intents[i].end : i \in Ints(tx)}),
   tmin  |-> LET P == Present({tx.intents[i].tmin : i \in Ints(tx)}) IN IF P = {} THEN -1 ELSE MaxOf(P),
   tmax  |-> LET P == Present({tx.intents[i].tmax : i \in Ints(tx)}) IN IF P = {} THEN -1 ELSE MinOf(P)]

IntentErrsV2(it, cfg) ==
     NetErrs(it.net, cfg)
  \cup EpochErrs(it.start, it.end, cfg)
  \cup (IF it.tmin # -1 /\ it.tmax # -1 /\ it.tmin >= it.tmax THEN {"TimestampRange"} ELSE {})
  \cup MsgErrs(it.msg, cfg.msg)
  \cup (IF it.nrefs > cfg.maxRefs THEN {"TooManyRefs"} ELSE {})
  \cup (IF it.ninstr > cfg.maxInstr THEN {"TooManyInstr"} ELSE {})
  \cup (IF it.nsigs > cfg.maxSigs THEN {"TooManySigs"} ELSE {})
  \cup (IF it.nblobs > cfg.prep.maxBlobs THEN {"TooManyBlobs"} ELSE {})

ErrsV2(tx, cfg) ==
  LET o == Overall(tx) IN
     (IF ~cfg.prep.v2Permitted THEN {"V2NotPermitted"} ELSE {})
  \cup (IF ~cfg.v2Allowed THEN {"V2NotAllowed"} ELSE {})
  \cup (IF tx.payload > cfg.prep.maxPayload THEN {"TooLarge"} ELSE {})
  \cup (IF Len(tx.intents) - 1 > cfg.prep.maxSubintents THEN {"TooManySubintents"} ELSE {})
  \cup (IF \E i \in Ints(tx) : Cardinality(Children(tx, i)) > cfg.prep.maxChildren THEN {"TooManyChildren"} ELSE {})
  \cup (IF \E i \in Ints(tx) : DepthOf(tx, i) > cfg.maxDepth THEN {"Depth"} ELSE {})
  \cup (IF tx.tipbp < cfg.minTipBp \/ tx.tipbp > cfg.maxTipBp THEN {"Tip"} ELSE {})
  \cup UNION {IntentErrsV2(tx.intents[i], cfg) : i \in Ints(tx)}
  \cup (IF o.start >= o.end THEN {"NoEpochOverlap"} ELSE {})
  \cup (IF o.tmin # -1 /\ o.tmax # -1 /\ o.tmin >= o.tmax THEN {"NoTimestampOverlap"} ELSE {})
  \cup (IF SeqSum([i \in Ints(tx) |-> tx.intents[i].nrefs]) > cfg.maxTotalRefs THEN {"TooManyRefs"} ELSE {})
  \cup (IF SeqSum([i \in Ints(tx) |-> tx.intents[i].nsigs]) + 1 > cfg.maxTotalSigs THEN {"TooManySigs"} ELSE {})

Errs(tx, cfg) == IF tx.ver = 1 THEN ErrsV1(tx, cfg) ELSE ErrsV2(tx, cfg)
Accept(tx, cfg) == Errs(tx, cfg) = {}

\* what the validator may answer: accept iff no limit is violated; a rejection names one of the
\* violated limits; an accepted V2 transaction carries the overall window
Expected(tx, cfg) ==
  [ok |-> Accept(tx, cfg), errs |-> Errs(tx, cfg),
   overall |-> IF tx.ver = 2 /\ Accept(tx, cfg) THEN Overall(tx) ELSE [start |-> -1, end |-> -1, tmin |-> -1, tmax |-> -1]]

Classes == {"TooLarge", "TooManyBlobs", "Network", "EpochRange", "Tip", "MimeTooLong", "PlainTooLong",
            "EncTooLong", "NoDecryptors", "CurveMismatch", "NoDecryptorsForCurve", "TooManyDecryptors",
            "TooManyRefs", "TooManyInstr", "TooManySigs", "V2NotPermitted", "V2NotAllowed",
            "TooManySubintents", "TooManyChildren", "Depth", "TimestampRange", "NoEpochOverlap",
            "NoTimestampOverlap"}

---------------------------------------------------------------------------
\* Laws checked by TLC on every enumerated case
\* the overall window really is the set intersection (pointwise over a probe range)
InWin(e, s, x) == s <= e /\ e < x
OverallIsIntersection(tx) ==
  LET o == Overall(tx) IN
  /\ \A e \in 0..60 : InWin(e, o.start, o.end) <=> \A i \in Ints(tx) : InWin(e, tx.intents[i].start, tx.intents[i].end)
  /\ \A t \in 0..400 : ((o.tmin = -1 \/ o.tmin <= t) /\ (o.tmax = -1 \/ t < o.tmax))
                         <=> \A i \in Ints(tx) : (tx.intents[i].tmin = -1 \/ tx.intents[i].tmin <= t)
                                                 /\ (tx.intents[i].tmax = -1 \/ t < tx.intents[i].tmax)
Laws(tx, cfg) ==
  /\ Errs(tx, cfg) \subseteq Classes
  /\ tx.ver = 2 => OverallIsIntersection(tx)
  /\ (tx.ver = 2 /\ Accept(tx, cfg)) => Overall(tx).start < Overall(tx).end
=============================================================================

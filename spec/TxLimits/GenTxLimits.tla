----------------------------- MODULE GenTxLimits -----------------------------
(* C34: the configurations in use (transcribed from transaction_validation_configuration.rs and
   decoder.rs - the harness checks the transcription against the real constants), two synthetic
   configurations with small limits, and for every limit of every configuration the transactions
   that sit at limit-1 / limit / limit+1 (and 0 / MAX where the type allows) with everything else
   nominal; for V2 additionally pairs / triples of intent windows and the cross-intent totals.
   Every case is a state; TLC checks the laws of TxLimits on it and prints it with the verdict the
   specification expects.                                                                      *)
EXTENDS TxLimits, Json
CONSTANT Tier          \* "quick" | "thorough" (thorough adds the combinations of two deviations)
VARIABLE c

MsgCfgBabylon == [maxPlain |-> 2048, maxEnc |-> 2048 + 12 + 16, maxMime |-> 128, maxDecr |-> 20]
PrepBabylon == [v2Permitted |-> FALSE, maxPayload |-> 1024 * 1024, maxChildren |-> 0, maxSubintents |-> 0, maxBlobs |-> 64]
PrepCuttlefish == [PrepBabylon EXCEPT !.v2Permitted = TRUE, !.maxChildren = 32, !.maxSubintents = 32]
Babylon ==
  [name |-> "babylon", net |-> 242, maxSigs |-> 16, maxRefs |-> INF, minTipPct |-> 0, maxTipPct |-> 65535,
   maxEpochRange |-> 12 * 24 * 30, maxInstr |-> INF, msg |-> MsgCfgBabylon, notaryDup |-> TRUE,
   prep |-> PrepBabylon, rules |-> "basic", v2Allowed |-> TRUE, minTipBp |-> 0, maxTipBp |-> 0,
   maxDepth |-> 0, maxTotalSigs |-> INF, maxTotalRefs |-> INF]
Cuttlefish ==
  [Babylon EXCEPT !.name = "cuttlefish", !.maxRefs = 512, !.maxDepth = 3, !.maxInstr = 1000,
                  !.rules = "cuttlefish", !.maxTipBp = 100 * 10000, !.prep = PrepCuttlefish,
                  !.maxTotalSigs = 64, !.maxTotalRefs = 512]
\* synthetic: every limit small and different from its neighbours, network agnostic
Small ==
  [name |-> "small", net |-> -1, maxSigs |-> 2, maxRefs |-> 3, minTipPct |-> 5, maxTipPct |-> 10,
   maxEpochRange |-> 10, maxInstr |-> 5, msg |-> [maxPlain |-> 8, maxEnc |-> 12, maxMime |-> 4, maxDecr |-> 2],
   notaryDup |-> TRUE,
   prep |-> [v2Permitted |-> TRUE, maxPayload |-> 6000, maxChildren |-> 2, maxSubintents |-> 3, maxBlobs |-> 2],
   rules |-> "cuttlefish", v2Allowed |-> TRUE, minTipBp |-> 5, maxTipBp |-> 10,
   maxDepth |-> 2, maxTotalSigs |-> 6, maxTotalRefs |-> 5]
\* cuttlefish with V2 switched off in the validation configuration only
CuttlefishNoV2 == [Cuttlefish EXCEPT !.name = "cuttlefish-v2off", !.v2Allowed = FALSE]
Configs == {Babylon, Cuttlefish, Small, CuttlefishNoV2}

---------------------------------------------------------------------------
NoMsg == [kind |-> "none", mime |-> 0, len |-> 0, dec |-> <<>>]
Plain(mime, len) == [kind |-> "plain", mime |-> mime, len |-> len, dec |-> <<>>]
Enc(len, dec) == [kind |-> "enc", mime |-> 0, len |-> len, dec |-> dec]
D(k, v, n) == [key |-> k, val |-> v, n |-> n]
Ed == "Ed25519"
Sk == "Secp256k1"

Net(cfg) == IF cfg.net = -1 THEN 7 ELSE cfg.net
NomV1(cfg) == [ver |-> 1, net |-> Net(cfg), start |-> 10, end |-> 15, tip |-> cfg.minTipPct, msg |-> NoMsg,
               nrefs |-> 1, ninstr |-> 2, nblobs |-> 1, nsigs |-> 1, payload |-> -1]
NomIntent(cfg, parent) == [net |-> Net(cfg), start |-> 10, end |-> 15, tmin |-> -1, tmax |-> -1, msg |-> NoMsg,
                           nrefs |-> 1, ninstr |-> 3, nblobs |-> 1, nsigs |-> 1, parent |-> parent]
\* shape: the parent vector of the non-root subintents
NomV2(cfg, parents) ==
  [ver |-> 2, tipbp |-> cfg.minTipBp, payload |-> -1,
   intents |-> <<NomIntent(cfg, 0)>> \o [k \in 1..Len(parents) |-> NomIntent(cfg, parents[k])]]
\* a subintent needs its children's yields + the final YIELD_TO_PARENT (+ 1 instruction holding the references)
MinInstr(tx, i) == Cardinality(Children(tx, i)) + (IF i = 1 THEN 0 ELSE 1) + (IF tx.intents[i].nrefs > 0 THEN 1 ELSE 0)
FixInstr(tx) == [tx EXCEPT !.intents = [i \in DOMAIN tx.intents |->
                    [tx.intents[i] EXCEPT !.ninstr = IF @ < MinInstr(tx, i) THEN MinInstr(tx, i) ELSE @]]]

Around(L) == IF L = INF THEN {} ELSE {x \in {L - 1, L, L + 1} : x >= 0}
Fin(S) == {x \in S : x < INF}

\* deviations of one intent-level field; each is a function [field name |-> set of values]
EpochPairs(cfg) ==
  LET R == cfg.maxEpochRange IN
  {<<10, 10>>, <<10, 11>>, <<10, 9>>, <<10, 10 + R - 1>>, <<10, 10 + R>>, <<10, 10 + R + 1>>, <<0, 1>>, <<0, R>>,
   <<0, INF>>, <<INF - R, INF>>, <<INF - R + 1, INF>>, <<INF - 2, INF - 1>>, <<INF - 1, INF>>, <<INF, INF>>, <<INF, 0>>}
Msgs(cfg) ==
  LET mc == cfg.msg IN
  {Plain(0, 0), Plain(1, 1)}
    \cup {Plain(m, 1) : m \in Around(mc.maxMime)}
    \cup {Plain(1, l) : l \in Around(mc.maxPlain)}
    \cup {Plain(mc.maxMime + 1, mc.maxPlain + 1)}
    \cup {Enc(l, <<D(Ed, Ed, 1)>>) : l \in Around(mc.maxEnc) \cup {0}}
    \cup {Enc(1, <<>>), Enc(1, <<D(Ed, Sk, 1)>>), Enc(1, <<D(Sk, Ed, 1)>>), Enc(1, <<D(Sk, Sk, 1), D(Ed, Sk, 1)>>),
          Enc(1, <<D(Ed, Ed, 0)>>), Enc(1, <<D(Ed, Ed, 1), D(Sk, Sk, 0)>>), Enc(1, <<D(Sk, Sk, 0), D(Ed, Ed, 1)>>)}
    \cup {Enc(1, <<D(Ed, Ed, n)>>) : n \in Around(mc.maxDecr)}
    \cup {Enc(1, <<D(Sk, Sk, n)>>) : n \in Around(mc.maxDecr)}
    \cup {Enc(1, <<D(Ed, Ed, n), D(Sk, Sk, 1)>>) : n \in {x \in Around(mc.maxDecr - 1) : x > 0}}
    \cup {Enc(1, <<D(Ed, Ed, mc.maxDecr \div 2), D(Sk, Sk, mc.maxDecr - (mc.maxDecr \div 2))>>)}
RefCounts(cfg) == {0} \cup Around(cfg.maxRefs) \cup Around(cfg.maxTotalRefs) \cup (IF cfg.maxRefs = INF THEN {600} ELSE {})
InstrCounts(cfg) == Around(cfg.maxInstr) \cup (IF cfg.maxInstr = INF THEN {1200} ELSE {})
BlobCounts(cfg) == {0} \cup Around(cfg.prep.maxBlobs)
SigCounts(cfg) == {0} \cup Around(cfg.maxSigs) \cup {x \in Around(cfg.maxTotalSigs - 1) : x <= cfg.maxSigs + 1}
Payloads(cfg) == Around(cfg.prep.maxPayload)

V1Single(cfg) ==
  LET n == NomV1(cfg) IN
  {n}
  \cup {[n EXCEPT !.net = x] : x \in {0, 1, Net(cfg), (Net(cfg) + 1) % 256}}
  \cup {[n EXCEPT !.start = p[1], !.end = p[2]] : p \in EpochPairs(cfg)}
  \cup {[n EXCEPT !.tip = t] : t \in {x \in {0, 65535} \cup Around(cfg.minTipPct) \cup Around(cfg.maxTipPct) : x <= 65535}}
  \cup {[n EXCEPT !.msg = m] : m \in Msgs(cfg)}
  \cup {[n EXCEPT !.nrefs = r, !.ninstr = IF r = 0 THEN 1 ELSE 2] : r \in RefCounts(cfg)}
  \cup {[n EXCEPT !.ninstr = k] : k \in {x \in InstrCounts(cfg) : x >= 1}}
  \cup {[n EXCEPT !.nblobs = b] : b \in BlobCounts(cfg)}
  \cup {[n EXCEPT !.nsigs = s] : s \in SigCounts(cfg)}
  \cup {[n EXCEPT !.payload = p] : p \in Payloads(cfg)}
\* two deviations at once (thorough): the verdict must still be the conjunction
V1Double(cfg) ==
  LET n == NomV1(cfg) IN
  {[n EXCEPT !.start = p[1], !.end = p[2], !.tip = t] : p \in {<<10, 10>>, <<10, 11>>, <<10, 10 + cfg.maxEpochRange + 1>>},
                                                          t \in {x \in Around(cfg.maxTipPct) : x <= 65535}}
  \cup {[n EXCEPT !.msg = m, !.nsigs = s] : m \in {Plain(cfg.msg.maxMime + 1, 1), Plain(1, cfg.msg.maxPlain)}, s \in Around(cfg.maxSigs)}
  \cup {[n EXCEPT !.nblobs = b, !.ninstr = k] : b \in Around(cfg.prep.maxBlobs), k \in {x \in InstrCounts(cfg) : x >= 2}}
  \cup {[n EXCEPT !.nrefs = r, !.net = x] : r \in {y \in RefCounts(cfg) : y > 0}, x \in {Net(cfg), (Net(cfg) + 1) % 256}}

\* V2 ----------------------------------------------------------------------
Flat(k) == [j \in 1..k |-> 1]
Chain(k) == [j \in 1..k |-> j]
\* k children of the root, and one grandchild under the last child (list order = depth-first order)
FlatPlusOne(k) == Flat(k) \o <<k + 1>>
Shapes(cfg) ==
  LET C == cfg.prep.maxChildren  S == cfg.prep.maxSubintents  Dp == cfg.maxDepth IN
  {Flat(k) : k \in {0, 1, 2} \cup Around(C) \cup Around(S)}
  \cup {Chain(k) : k \in {x \in Around(Dp) : x >= 1}}
  \cup {FlatPlusOne(k) : k \in {x \in Around(S - 1) \cup Around(C) : x >= 1}}
  \cup {<<1, 2, 2, 1>>, <<1, 2, 1, 4>>}

SetIntent(tx, i, it) == [tx EXCEPT !.intents[i] = it]
V2Single(cfg) ==
  LET n == FixInstr(NomV2(cfg, <<1>>)) IN
  {FixInstr(NomV2(cfg, sh)) : sh \in Shapes(cfg)}
  \cup {[n EXCEPT !.tipbp = t] : t \in {0, INF} \cup Around(cfg.minTipBp) \cup Around(cfg.maxTipBp)}
  \cup {[n EXCEPT !.payload = p] : p \in Payloads(cfg)}
  \cup UNION {
        {SetIntent(n, i, [n.intents[i] EXCEPT !.net = x]) : x \in {0, Net(cfg), (Net(cfg) + 1) % 256}}
        \cup {SetIntent(n, i, [n.intents[i] EXCEPT !.start = p[1], !.end = p[2]]) : p \in EpochPairs(cfg)}
        \cup {SetIntent(n, i, [n.intents[i] EXCEPT !.tmin = p[1], !.tmax = p[2]]) :
                 p \in {<<100, 200>>, <<100, 101>>, <<100, 100>>, <<101, 100>>, <<0, 1>>, <<0, 0>>, <<100, -1>>, <<-1, 100>>}}
        \cup {SetIntent(n, i, [n.intents[i] EXCEPT !.msg = m]) : m \in Msgs(cfg)}
        \cup {FixInstr(SetIntent(n, i, [n.intents[i] EXCEPT !.nrefs = r, !.ninstr = 0])) : r \in RefCounts(cfg)}
        \cup {SetIntent(n, i, [n.intents[i] EXCEPT !.ninstr = k]) : k \in {x \in InstrCounts(cfg) : x >= 3}}
        \cup {SetIntent(n, i, [n.intents[i] EXCEPT !.nblobs = b]) : b \in BlobCounts(cfg)}
        \cup {SetIntent(n, i, [n.intents[i] EXCEPT !.nsigs = s]) : s \in SigCounts(cfg)}
      : i \in {1, 2}}

\* windows of two and three intents: every pair / triple from a small family around [10, 15)
Wins == {<<10, 15>>, <<14, 20>>, <<15, 20>>, <<5, 10>>, <<5, 11>>, <<12, 13>>, <<0, INF>>}
TWins == {<<-1, -1>>, <<100, 200>>, <<200, 300>>, <<199, 300>>, <<100, -1>>, <<-1, 100>>, <<-1, 101>>, <<150, -1>>}
WithWins(cfg, sh, ws, ts) ==
  LET n == FixInstr(NomV2(cfg, sh)) IN
  [n EXCEPT !.intents = [i \in DOMAIN n.intents |->
       [n.intents[i] EXCEPT !.start = ws[i][1], !.end = ws[i][2], !.tmin = ts[i][1], !.tmax = ts[i][2]]]]
NoT == <<-1, -1>>
V2Windows(cfg) ==
  {WithWins(cfg, <<1>>, <<a, b>>, <<NoT, NoT>>) : a \in Wins, b \in Wins}
  \cup {WithWins(cfg, <<1>>, <<<<10, 15>>, <<10, 15>>>>, <<a, b>>) : a \in TWins, b \in TWins}
  \cup (IF cfg.prep.maxSubintents >= 2 /\ cfg.maxDepth >= 2
        THEN {WithWins(cfg, <<1, 2>>, <<a, b, d>>, <<NoT, NoT, NoT>>) :
                 a \in {<<10, 15>>, <<10, 13>>}, b \in {<<12, 20>>, <<14, 20>>}, d \in {<<13, 30>>, <<5, 13>>, <<14, 15>>}}
             \cup {WithWins(cfg, <<1, 1>>, <<<<10, 15>>, <<10, 15>>, <<10, 15>>>>, <<a, b, d>>) :
                 a \in {<<100, -1>>, <<-1, 300>>}, b \in {<<150, -1>>, <<-1, 150>>, <<-1, 100>>}, d \in {<<-1, 150>>, <<160, -1>>, NoT}}
        ELSE {})

\* totals across intents: references and signature validations (root + k subintents)
WithCounts(cfg, sh, refs, sigs) ==
  LET n == NomV2(cfg, sh) IN
  FixInstr([n EXCEPT !.intents = [i \in DOMAIN n.intents |-> [n.intents[i] EXCEPT !.nrefs = refs[i], !.nsigs = sigs[i], !.ninstr = 0]]])
V2Totals(cfg) ==
  IF cfg.maxTotalRefs = INF \/ ~cfg.prep.v2Permitted THEN {}
  ELSE LET T == cfg.maxTotalRefs  R == cfg.maxRefs  S == cfg.maxSigs  TS == cfg.maxTotalSigs
           h == IF R < T THEN R ELSE T \div 2                  \* per-intent share that is itself allowed
           k == (TS - 1 + S - 1) \div S                        \* intents needed to reach the signature total
       IN {WithCounts(cfg, <<1>>, <<h, x>>, <<1, 1>>) : x \in {y \in Around(T - h) : y >= 0}}
          \cup (IF k - 1 <= cfg.prep.maxSubintents /\ k - 1 <= cfg.prep.maxChildren /\ k >= 2
                THEN {WithCounts(cfg, Flat(k - 1), [i \in 1..k |-> 0],
                                 [i \in 1..k |-> IF i = 1 THEN x ELSE S]) : x \in {y \in Around(TS - 1 - (k - 1) * S) : y >= 0 /\ y <= S}}
                ELSE {})

\* two deviations in two different intents (thorough): at-the-limit values must combine to accept,
\* one-over values must reject with one of the two classes
DevSet(cfg, n, i) ==
  {SetIntent(n, i, [n.intents[i] EXCEPT !.end = n.intents[i].start + cfg.maxEpochRange]),
   SetIntent(n, i, [n.intents[i] EXCEPT !.end = n.intents[i].start + cfg.maxEpochRange + 1]),
   SetIntent(n, i, [n.intents[i] EXCEPT !.net = (Net(cfg) + 1) % 256]),
   SetIntent(n, i, [n.intents[i] EXCEPT !.msg = Plain(cfg.msg.maxMime, cfg.msg.maxPlain)]),
   SetIntent(n, i, [n.intents[i] EXCEPT !.msg = Plain(cfg.msg.maxMime, cfg.msg.maxPlain + 1)]),
   SetIntent(n, i, [n.intents[i] EXCEPT !.nsigs = cfg.maxSigs]),
   SetIntent(n, i, [n.intents[i] EXCEPT !.nsigs = cfg.maxSigs + 1]),
   SetIntent(n, i, [n.intents[i] EXCEPT !.nblobs = cfg.prep.maxBlobs]),
   SetIntent(n, i, [n.intents[i] EXCEPT !.nblobs = cfg.prep.maxBlobs + 1]),
   SetIntent(n, i, [n.intents[i] EXCEPT !.ninstr = cfg.maxInstr]),
   SetIntent(n, i, [n.intents[i] EXCEPT !.ninstr = cfg.maxInstr + 1]),
   SetIntent(n, i, [n.intents[i] EXCEPT !.tmin = 100, !.tmax = 101])}
V2Double(cfg) ==
  LET n == FixInstr(NomV2(cfg, <<1>>)) IN
  UNION {DevSet(cfg, x, 2) : x \in DevSet(cfg, n, 1)}

CasesFor(cfg) ==
  V1Single(cfg) \cup (IF Tier = "thorough" THEN V1Double(cfg) ELSE {})
  \cup (IF cfg.prep.v2Permitted /\ cfg.v2Allowed
        THEN V2Single(cfg) \cup V2Windows(cfg) \cup V2Totals(cfg) \cup (IF Tier = "thorough" THEN V2Double(cfg) ELSE {})
        ELSE {FixInstr(NomV2(cfg, <<1>>)), FixInstr(NomV2(cfg, <<>>))})
Cases == UNION {{[tx |-> t, cfg |-> cfg] : t \in CasesFor(cfg)} : cfg \in Configs}

Init == c \in Cases
Next == UNCHANGED c
Spec == Init /\ [][Next]_c

LawsHold == Laws(c.tx, c.cfg)
\* sanity: the nominal transactions are accepted by every configuration that permits their version
NominalAccepted == \A cfg \in Configs : Accept(NomV1(cfg), cfg)
                     /\ (cfg.prep.v2Permitted /\ cfg.v2Allowed => Accept(FixInstr(NomV2(cfg, <<1>>)), cfg))
Emit == PrintT(<<"B", ToJson([tx |-> c.tx, cfg |-> c.cfg, exp |-> Expected(c.tx, c.cfg)])>>)
=============================================================================

SPECIFICATION Spec
CONSTANTS
  K = 4
INVARIANTS InvWithin OutcomeAgrees
PROPERTIES FailIffExceeds ClassOk NoOtherFailure
CHECK_DEADLOCK FALSE

SPECIFICATION Spec
CONSTANTS
  Tier = 1
INVARIANT Emit
CHECK_DEADLOCK FALSE

------------------------------ MODULE MCLimits ------------------------------
(* S: the limits machine on a small instance, every program over a small alphabet up to K ops,
   every configuration of a small lattice.  Checked: no running state is beyond a limit (Within),
   an op fails with a limits error IFF performing it would exceed a limit (FailIffExceeds - both
   halves of the statement), the error names the exceeded limit (ClassOk), and the recursive
   Outcome function used for case generation agrees with the machine (OutcomeAgrees).          *)
EXTENDS Limits
CONSTANT K
VARIABLES c, s, cur, hist
vars == <<c, s, cur, hist>>

Env == [depth |-> 1, events |-> 1, key |-> 1, value |-> 1, payload |-> 1, event |-> 1,
        heapEnv |-> 3, heapRun |-> 2, heapFrame |-> 1, heapObj |-> 1,
        trackRun |-> 2, trackBase |-> 3, trackKey |-> 1, kvDefault |-> 1,
        fieldCal |-> 1,
        trackFirst |-> [ret |-> 1, emit |-> 1, write |-> 0, alloc |-> 1, iwrite |-> 0, swrite |-> 1, fwrite |-> 1],
        trackFirstCommit |-> [ret |-> 0, emit |-> 1, write |-> 0, alloc |-> 1, iwrite |-> 0, swrite |-> 1, fwrite |-> 1]]

Cfgs == {[depth |-> d, heap |-> h, track |-> t, key |-> 2, value |-> 2, payload |-> 2, event |-> 2,
          log |-> 2, panic |-> 2, logs |-> l, events |-> e] :
            d \in {2, 3}, h \in {4, 7}, t \in {5, 9}, l \in {1, 2}, e \in {2, 3}}

Sizes == {1, 3}
Init == /\ c \in Cfgs /\ Admits(c, Env) /\ s = Start(Env) /\ cur = Ret /\ hist = <<>>
Do(o) == /\ Len(hist) < K /\ s.fail = "" /\ ~s.done
         /\ cur' = o /\ s' = Exec(s, o, Len(hist), c, Env) /\ hist' = Append(hist, o) /\ UNCHANGED c
DoCall == \E n \in Sizes : TRUE /\ Do(Call(n))
DoRet == TRUE /\ Do(Ret)
DoEmit == \E n \in Sizes : TRUE /\ Do(EmitOp(n))
DoLog == \E n \in Sizes : TRUE /\ Do(LogOp(n))
DoPanic == \E n \in Sizes : TRUE /\ Do(PanicOp(n))
DoWrite == \E k \in Sizes, n \in Sizes : TRUE /\ Do(WriteOp(k, n))
DoAlloc == \E n \in Sizes : TRUE /\ Do(AllocOp(n))
DoIWrite == \E k \in Sizes, n \in Sizes : TRUE /\ Do(IWriteOp(k, n))
DoSWrite == \E k \in {0, 1}, n \in Sizes : TRUE /\ Do(SWriteOp(k, n))
DoFWrite == \E n \in Sizes : TRUE /\ Do(FWriteOp(n))
Next == DoCall \/ DoRet \/ DoEmit \/ DoLog \/ DoPanic \/ DoWrite \/ DoAlloc \/ DoIWrite \/ DoSWrite \/ DoFWrite
Spec == Init /\ [][Next]_vars

InvWithin == s.fail = "" => Within(s, c, Env)
FailIffExceeds == [][(s'.fail \in LimitClasses) <=> Exceeds(s, cur', c, Env)]_vars
ClassOk == [][s'.fail \in LimitClasses => ClassMatches(s'.fail, s, cur', c, Env)]_vars
NoOtherFailure == [][s'.fail # "" /\ s'.fail \notin LimitClasses => cur'.op = "panic" /\ s'.fail = "AppPanic"]_vars
OutcomeAgrees ==
  LET out == Outcome(hist, c, Env) IN
  /\ s.fail # "" => out.status = "failure" /\ out.err = s.fail /\ out.at = s.failAt
  \* a program that has not failed yet can still fail when its open frames return or at finalisation
  /\ s.fail = "" => (out.status = "success" \/ out.err = "TrackBytes")
  /\ s.fail = "" /\ Len(s.frames) = 1 /\ out.status = "success" => FinalTrack(s, Env) <= c.track
=============================================================================

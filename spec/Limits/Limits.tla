------------------------------- MODULE Limits -------------------------------
(* C49 - execution limits.  One transaction runs a PROGRAM (a sequence of operations of one
   blueprint frame tree) under a CONFIGURATION (the engine's LimitParameters).  Every operation
   is refused iff performing it would exceed a limit, with the comparison the engine uses:

     call     refused when the current depth already EQUALS max_call_depth (LimitsModule::
              before_invoke; the transaction processor runs at depth 0, the first blueprint frame at
              depth 1), then when the invocation size (actor + arguments) is > max_invoke_input_size
     emit     refused when the number of events already recorded is >= max_number_of_events
              (assert_can_add_event), then when the payload is > max_event_size
     log      refused when the number of logs recorded is >= max_number_of_logs, then when the
              message is > max_log_size
     panic    message > max_panic_message_size is a limits error, otherwise an application panic
     write    (open + set of one key-value entry of a stored object) substate key > max_substate_key_size
              on open; substate value > max_substate_value_size on set; the track byte counter follows
              the IOAccess deltas: canonical key (node id 30 + partition 1 + key) added when the entry
              is first seen, value size replaced on update; refused when the counter is > max
     iwrite / swrite  (index / sorted-index insert of a stored object: kernel_set_substate) key, then value, then track
     fwrite   (write of a field of the stored object: write_substate) value size, track counter
     alloc    (a new heap object with one field) field substate > max_substate_value_size, then heap
              byte counter > max_heap_substate_total_bytes; the object is dropped when its frame returns

   The part of the counters that the system itself contributes (transaction processor, fee locking,
   auth zones, blueprint look-ups, finalisation) is the ENVIRONMENT footprint `env`; it is a parameter
   measured on the engine (vh_sys limits calibrate), and Outcome is only claimed for configurations
   that admit the environment (Admits).                                                          *)
EXTENDS Integers, Sequences, FiniteSets, TLC

LimitClasses == {"CallDepth", "PayloadSize", "TooManyEvents", "EventSize", "TooManyLogs", "LogSize",
                 "PanicSize", "KeySize", "ValueSize", "TrackBytes", "HeapBytes"}

Op(o, n, k) == [op |-> o, n |-> n, k |-> k]
Call(n) == Op("call", n, 0)
Ret == Op("ret", 0, 0)
EmitOp(n) == Op("emit", n, 0)
LogOp(n) == Op("log", n, 0)
PanicOp(n) == Op("panic", n, 0)
WriteOp(k, n) == Op("write", n, k)
AllocOp(n) == Op("alloc", n, 0)
IWriteOp(k, n) == Op("iwrite", n, k)     \* index insert (kernel_set_substate)
SWriteOp(k, n) == Op("swrite", n, k)     \* sorted-index insert (kernel_set_substate; the key counts 2 + k)
FWriteOp(n) == Op("fwrite", n, 0)        \* write of a field of the stored object (write_substate)
SetKeyLen(o) == IF o.op = "swrite" THEN o.k + 2 ELSE o.k

(* the configuration admits the environment: the system's own calls, keys, values, events fit *)
Admits(c, env) ==
  /\ c.depth >= env.depth /\ c.key >= env.key /\ c.value >= env.value /\ c.payload >= env.payload
  /\ c.event >= env.event /\ c.events >= env.events /\ c.heap >= env.heapEnv /\ c.track >= env.trackRun

(* machine state while the program runs.  frames: per open frame the heap bytes of its live
   objects; calls: 0-based program index of the call op that opened each nested frame *)
Start(env) == [depth |-> 1, events |-> env.events, logs |-> 0, track |-> env.trackRun,
               frames |-> <<0>>, calls |-> <<>>, live |-> 0, used |-> {}, fail |-> "", failAt |-> -1,
               fsize |-> env.fieldCal, done |-> FALSE]

Fail(s, cls, at) == [s EXCEPT !.fail = cls, !.failAt = at]
HeapOf(depth, live, env) == env.heapRun + (depth - 1) * env.heapFrame + live
KeyCost(k, env) == env.trackKey + k        \* canonical substate key: node id + partition + key bytes
ObjCost(n, env) == env.heapObj + n         \* type info + keys + the field substate of n bytes
\* the first op of a kind makes the system read substates it has not read before (e.g. the first
\* return from a nested call tears down an auth zone): measured per kind, charged once.  Some of them
\* would be read by the finalisation anyway, so the kind's effect on the counter at the end of the
\* transaction (trackFirstCommit) can be smaller than its effect while the program runs (trackFirst).
FirstUse(s, kind, env) == IF kind \in s.used THEN 0 ELSE env.trackFirst[kind]
RECURSIVE SumOver(_, _)
SumOver(S, f) == IF S = {} THEN 0 ELSE LET x == CHOOSE x \in S : TRUE IN f[x] + SumOver(S \ {x}, f)
\* the counter when the transaction commits, given the running state after the last op
FinalTrack(s, env) == env.trackBase + (s.track - env.trackRun - SumOver(s.used, env.trackFirst))
                      + SumOver(s.used, env.trackFirstCommit)

(* o = the op, i = its 0-based index in the program *)
Exec(s, o, i, c, env) ==
  CASE o.op = "call" ->
         \* call_method: the auth zone of the new frame is created (heap) before kernel_invoke,
         \* whose before_invoke checks the depth and then the invocation size
         IF HeapOf(s.depth + 1, s.live, env) > c.heap THEN Fail(s, "HeapBytes", i)
         ELSE IF s.depth = c.depth THEN Fail(s, "CallDepth", i)
         ELSE IF o.n > c.payload THEN Fail(s, "PayloadSize", i)
         ELSE [s EXCEPT !.depth = @ + 1, !.frames = Append(@, 0), !.calls = Append(@, i)]
    [] o.op = "ret" ->
         IF Len(s.frames) = 1 THEN [s EXCEPT !.done = TRUE]
         \* an error while the callee's frame is torn down surfaces as the result of the call op
         ELSE IF s.track + FirstUse(s, "ret", env) > c.track THEN Fail(s, "TrackBytes", s.calls[Len(s.calls)])
         ELSE [s EXCEPT !.depth = @ - 1, !.live = @ - s.frames[Len(s.frames)],
                        !.frames = SubSeq(@, 1, Len(@) - 1), !.calls = SubSeq(@, 1, Len(@) - 1),
                        !.track = @ + FirstUse(s, "ret", env), !.used = @ \cup {"ret"}]
    [] o.op = "emit" ->
         \* emit_event_internal: payload validation (reads the blueprint's schema once) precedes
         \* checked_add_event (count, then size)
         IF s.track + FirstUse(s, "emit", env) > c.track THEN Fail(s, "TrackBytes", i)
         ELSE IF s.events >= c.events THEN Fail(s, "TooManyEvents", i)
         ELSE IF o.n > c.event THEN Fail(s, "EventSize", i)
         ELSE [s EXCEPT !.events = @ + 1, !.track = @ + FirstUse(s, "emit", env), !.used = @ \cup {"emit"}]
    [] o.op = "log" ->
         IF s.logs >= c.logs THEN Fail(s, "TooManyLogs", i)
         ELSE IF o.n > c.log THEN Fail(s, "LogSize", i)
         ELSE [s EXCEPT !.logs = @ + 1]
    [] o.op = "panic" ->
         IF o.n > c.panic THEN Fail(s, "PanicSize", i) ELSE Fail(s, "AppPanic", i)
    [] o.op = "write" ->
         LET t == s.track + FirstUse(s, "write", env) IN
         IF o.k > c.key THEN Fail(s, "KeySize", i)
         ELSE IF t + KeyCost(o.k, env) + env.kvDefault > c.track THEN Fail(s, "TrackBytes", i)
         ELSE IF o.n > c.value THEN Fail(s, "ValueSize", i)
         ELSE IF t + KeyCost(o.k, env) + o.n > c.track THEN Fail(s, "TrackBytes", i)
         ELSE [s EXCEPT !.track = t + KeyCost(o.k, env) + o.n, !.used = @ \cup {"write"}]
    [] o.op \in {"iwrite", "swrite"} ->
         \* actor_(sorted_)index_insert -> kernel_set_substate: on_set_substate checks the key, then the value,
         \* then the track counter takes the canonical key and the value of the new entry
         LET t == s.track + FirstUse(s, o.op, env) IN
         IF t > c.track THEN Fail(s, "TrackBytes", i)
         ELSE IF SetKeyLen(o) > c.key THEN Fail(s, "KeySize", i)
         ELSE IF o.n > c.value THEN Fail(s, "ValueSize", i)
         ELSE IF t + KeyCost(SetKeyLen(o), env) + o.n > c.track THEN Fail(s, "TrackBytes", i)
         ELSE [s EXCEPT !.track = t + KeyCost(SetKeyLen(o), env) + o.n, !.used = @ \cup {o.op}]
    [] o.op = "fwrite" ->
         \* the first-use cost is measured with a field value of env.fieldCal bytes; afterwards the size is replaced
         LET t == s.track + FirstUse(s, "fwrite", env) + (o.n - s.fsize) IN
         IF o.n > c.value THEN Fail(s, "ValueSize", i)
         ELSE IF t > c.track THEN Fail(s, "TrackBytes", i)
         ELSE [s EXCEPT !.track = t, !.fsize = o.n, !.used = @ \cup {"fwrite"}]
    [] o.op = "alloc" ->
         IF s.track + FirstUse(s, "alloc", env) > c.track THEN Fail(s, "TrackBytes", i)
         ELSE IF o.n > c.value THEN Fail(s, "ValueSize", i)
         ELSE IF HeapOf(s.depth, s.live + ObjCost(o.n, env), env) > c.heap THEN Fail(s, "HeapBytes", i)
         ELSE [s EXCEPT !.live = @ + ObjCost(o.n, env), !.track = @ + FirstUse(s, "alloc", env),
                        !.used = @ \cup {"alloc"},
                        !.frames = [@ EXCEPT ![Len(@)] = @ + ObjCost(o.n, env)]]

(* declarative reading of the statement: performing o in state s would exceed some limit *)
Exceeds(s, o, c, env) ==
  CASE o.op = "call"  -> s.depth + 1 > c.depth \/ o.n > c.payload \/ HeapOf(s.depth + 1, s.live, env) > c.heap
    [] o.op = "ret"   -> Len(s.frames) > 1 /\ s.track + FirstUse(s, "ret", env) > c.track
    [] o.op = "emit"  -> s.events + 1 > c.events \/ o.n > c.event \/ s.track + FirstUse(s, "emit", env) > c.track
    [] o.op = "log"   -> s.logs + 1 > c.logs \/ o.n > c.log
    [] o.op = "panic" -> o.n > c.panic
    [] o.op = "write" -> o.k > c.key \/ o.n > c.value
                         \/ s.track + FirstUse(s, "write", env) + KeyCost(o.k, env)
                              + (IF o.n > env.kvDefault THEN o.n ELSE env.kvDefault) > c.track
    [] o.op = "alloc" -> o.n > c.value \/ HeapOf(s.depth, s.live + ObjCost(o.n, env), env) > c.heap
                         \/ s.track + FirstUse(s, "alloc", env) > c.track
    [] o.op \in {"iwrite", "swrite"} -> SetKeyLen(o) > c.key \/ o.n > c.value
                         \/ s.track + FirstUse(s, o.op, env) + KeyCost(SetKeyLen(o), env) + o.n > c.track
    [] o.op = "fwrite" -> o.n > c.value \/ s.track + FirstUse(s, "fwrite", env) + (o.n - s.fsize) > c.track

(* the limit named by an error class really is the one exceeded *)
ClassMatches(cls, s, o, c, env) ==
  CASE cls = "CallDepth"     -> o.op = "call" /\ s.depth + 1 > c.depth
    [] cls = "PayloadSize"   -> o.op = "call" /\ o.n > c.payload
    [] cls = "TooManyEvents" -> o.op = "emit" /\ s.events + 1 > c.events
    [] cls = "EventSize"     -> o.op = "emit" /\ o.n > c.event
    [] cls = "TooManyLogs"   -> o.op = "log" /\ s.logs + 1 > c.logs
    [] cls = "LogSize"       -> o.op = "log" /\ o.n > c.log
    [] cls = "PanicSize"     -> o.op = "panic" /\ o.n > c.panic
    [] cls = "KeySize"       -> (o.op = "write" /\ o.k > c.key) \/ (o.op \in {"iwrite", "swrite"} /\ SetKeyLen(o) > c.key)
    [] cls = "ValueSize"     -> o.op \in {"write", "alloc", "iwrite", "swrite", "fwrite"} /\ o.n > c.value
    [] cls = "TrackBytes"    -> o.op \in {"write", "emit", "ret", "alloc", "iwrite", "swrite", "fwrite"}
    [] cls = "HeapBytes"     -> o.op \in {"alloc", "call"}
    [] OTHER -> FALSE

Within(s, c, env) ==
  /\ s.depth <= c.depth /\ s.events <= c.events /\ s.logs <= c.logs
  /\ s.track <= c.track /\ HeapOf(s.depth, s.live, env) <= c.heap

(* outcome of a whole transaction: first failing op (0-based index) or success.  Frames still open
   at the end of the program return one by one (implicit ret); the bytes the finalisation adds to
   the track counter are charged after the last op (FinalTrack).                                  *)
RECURSIVE RunFrom(_, _, _, _, _)
RunFrom(s, i, prog, c, env) ==
  IF s.done THEN s
  ELSE IF i > Len(prog)
       THEN IF Len(s.frames) = 1 THEN s
            ELSE LET s2 == Exec(s, [op |-> "ret", n |-> 0, k |-> 0], i - 1, c, env) IN
                 IF s2.fail # "" THEN s2 ELSE RunFrom(s2, i, prog, c, env)
  ELSE LET s2 == Exec(s, prog[i], i - 1, c, env) IN
       IF s2.fail # "" THEN s2 ELSE RunFrom(s2, i + 1, prog, c, env)

Outcome(prog, c, env) ==
  LET r == RunFrom(Start(env), 1, prog, c, env) IN
  IF r.fail # "" THEN [status |-> "failure", err |-> r.fail, at |-> r.failAt]
  ELSE IF FinalTrack(r, env) > c.track
       THEN [status |-> "failure", err |-> "TrackBytes", at |-> Len(prog)]
       ELSE [status |-> "success", err |-> "", at |-> Len(prog)]
=============================================================================

------------------------------ MODULE TraceLimits ------------------------------
(* T: impl -> spec.  The harness runs seeded random programs under seeded random configurations
   (limits placed near the sizes/counts the program uses) and records what the engine did; every
   recorded observation must equal the specification's Outcome.  Unit-level events (kind "io"/"key"/
   "value") are LimitsModule calls checked against the counter rules of LimitsUnit.              *)
EXTENDS Limits, LimitsUnit, TraceIO
VARIABLE l
EnvAll == JsonDeserialize(IOEnv.LIMENV)
EnvOf(m) == IF m = "fee" THEN EnvAll.fee ELSE EnvAll.nofee
Ok(ev) == CASE ev.a = "run" -> /\ Admits(ev.cfg, EnvOf(ev.mode))
                               /\ Outcome(ev.prog, ev.cfg, EnvOf(ev.mode)) = ev.obs
            [] ev.a = "unit" -> UnitRun(ev.cfg, ev.calls) = ev.obs
            [] OTHER -> FALSE
TInit == l = 1
TNext == l <= Len(Rec) /\ (IF Ok(Rec[l]) THEN TRUE ELSE PrintT(<<"BAD", l>>)) /\ l' = l + 1
TSpec == TInit /\ [][TNext]_l
Post == PrintT(<<"DONE", TLCGet("stats").diameter - 1>>)
=============================================================================

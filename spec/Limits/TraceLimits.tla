------------------------------ MODULE TraceLimits ------------------------------
(* T: impl -> spec.  The harness runs seeded random programs under seeded random configurations
   (limits placed near the sizes/counts the program uses) and records what the engine did; every
   recorded observation must equal the specification's Outcome.  Unit-level events (kind "io"/"key"/
   "value") are LimitsModule calls checked against the counter rules of LimitsUnit.              *)
EXTENDS Limits, LimitsUnit, TraceIO
VARIABLE l
EnvAll == JsonDeserialize(IOEnv.LIMENV)
EnvOf(m) == IF m = "fee" THEN EnvAll.fee ELSE EnvAll.nofee
Count(prog, kind) == Cardinality({i \in DOMAIN prog : prog[i].op = kind})
(* a committed (successful) transaction shows exactly the program's events and logs, and they are within the limits *)
CommittedWithin(ev) ==
  ev.obs.status = "success" =>
    /\ ev.seen.events = Count(ev.prog, "emit") /\ ev.seen.logs = Count(ev.prog, "log")
    /\ ev.seen.events + EnvOf(ev.mode).events <= ev.cfg.events /\ ev.seen.logs <= ev.cfg.logs
    /\ \A i \in DOMAIN ev.prog :
         LET o == ev.prog[i] IN
         /\ o.op = "write" => o.k <= ev.cfg.key /\ o.n <= ev.cfg.value
         /\ o.op = "alloc" => o.n <= ev.cfg.value
         /\ o.op = "call" => o.n <= ev.cfg.payload
         /\ o.op = "emit" => o.n <= ev.cfg.event
         /\ o.op = "log" => o.n <= ev.cfg.log
Ok(ev) == CASE ev.a = "run" -> /\ Admits(ev.cfg, EnvOf(ev.mode))
                               /\ Outcome(ev.prog, ev.cfg, EnvOf(ev.mode)) = ev.obs
                               /\ CommittedWithin(ev)
            [] ev.a = "unit" -> UnitRun(ev.cfg, ev.calls) = ev.obs
            [] OTHER -> FALSE
TInit == l = 1
TNext == l <= Len(Rec) /\ (IF Ok(Rec[l]) THEN TRUE ELSE PrintT(<<"BAD", l>>)) /\ l' = l + 1
TSpec == TInit /\ [][TNext]_l
Post == PrintT(<<"DONE", TLCGet("stats").diameter - 1>>)
=============================================================================

------------------------------ MODULE LimitsUnit ------------------------------
(* The counter rules of LimitsModule itself (unit level, public API):
     process_substate_key:   Map key of n bytes counts n, Sorted key 2 + n, Field key 1; error iff > max
     process_substate_value: error iff len > max
     process_io_access:      Heap/TrackSubstateUpdated{key, old, new}: the canonical key length
                             (30 + 1 + key) is added when old = None and removed when new = None,
                             the value size replaces the old one; after EVERY access first the heap
                             counter then the track counter is compared (error iff > max);
                             database reads change nothing.
   A call sequence is [k |-> "key"|"value"|"heap"|"track"|"read", ...]; -1 encodes None.          *)
EXTENDS Integers, Sequences
KeyLen(kind, n) == IF kind = "map" THEN n ELSE IF kind = "sorted" THEN n + 2 ELSE 1
Canon(kind, n) == 31 + KeyLen(kind, n)
Delta(call) == (IF call.old = -1 THEN Canon(call.kind, call.n) ELSE 0)
               - (IF call.new = -1 THEN Canon(call.kind, call.n) ELSE 0)
               + (IF call.new = -1 THEN 0 ELSE call.new) - (IF call.old = -1 THEN 0 ELSE call.old)
UnitStep(st, call, cfg) ==
  LET h == IF call.k = "heap" THEN st.heap + Delta(call) ELSE st.heap
      t == IF call.k = "track" THEN st.track + Delta(call) ELSE st.track
      r == CASE call.k = "key" -> IF KeyLen(call.kind, call.n) > cfg.key THEN "KeySize" ELSE "ok"
             [] call.k = "value" -> IF call.n > cfg.value THEN "ValueSize" ELSE "ok"
             [] OTHER -> IF h > cfg.heap THEN "HeapBytes" ELSE IF t > cfg.track THEN "TrackBytes" ELSE "ok"
      \* the value the error carries (the only way the counters are observable from outside)
      v == CASE r = "KeySize" -> KeyLen(call.kind, call.n) [] r = "ValueSize" -> call.n
             [] r = "HeapBytes" -> h [] r = "TrackBytes" -> t [] OTHER -> 0
  IN [heap |-> h, track |-> t, res |-> Append(st.res, [r |-> r, v |-> v])]
RECURSIVE UnitFrom(_, _, _, _)
UnitFrom(st, calls, i, cfg) == IF i > Len(calls) THEN st ELSE UnitFrom(UnitStep(st, calls[i], cfg), calls, i + 1, cfg)
(* results of all calls (the module keeps counting after an error, as the code does) *)
UnitRun(cfg, calls) == UnitFrom([heap |-> 0, track |-> 0, res |-> <<>>], calls, 1, cfg).res
=============================================================================

------------------------------ MODULE GenLimits ------------------------------
(* G: the cases replayed into the engine.  Each case is [mode, cfg, prog] and is printed together
   with the outcome the specification computes (Outcome).  Families:
     - per limit: a configuration with that limit small and programs that end at limit-1, limit,
       limit+1; thorough tier: ordered triples of limit probes (count limits: that many ops; size limits: one op of that size; byte counters:
       the limit placed one below / at / one above every threshold of the program)
     - pairs of limits: probe of limit A (at / one beyond) followed by probe of limit B, in both
       orders, under a configuration where both are small
     - the protocol's default configuration at its real values (depth, key size, event and log
       counts, sizes)
   The environment footprints Env.nofee / Env.fee and the default configuration come from the
   harness (vh_sys limits calibrate) through the JSON file named by the environment variable LIMENV. *)
EXTENDS Limits, Json, IOUtils, SequencesExt
CONSTANT Tier        \* 1 = quick, 2 = thorough
VARIABLE c

EnvAll == JsonDeserialize(IOEnv.LIMENV)
Modes == {"nofee", "fee"}
EnvOf(m) == IF m = "fee" THEN EnvAll.fee ELSE EnvAll.nofee
Default == EnvAll.defaults

(* sizes the harness can realise as an SBOR byte array of that total length (bp.rs bytes_payload) *)
Real(t) == t >= 4 /\ t # 132 /\ t < 16389
MinCall == 37      \* receiver 30 + "run" 3 + smallest argument 4
OkOp(o) == CASE o.op = "call" -> Real(o.n - 33)
             [] o.op = "emit" -> Real(o.n - 2)
             [] o.op = "write" -> o.k >= 8 /\ Real(o.k) /\ Real(o.n - 11)
             [] o.op = "alloc" -> Real(o.n - 8)
             [] o.op \in {"iwrite", "swrite"} -> o.k >= 8 /\ Real(o.k) /\ Real(o.n - 3)
             [] o.op = "fwrite" -> Real(o.n - 8)
             [] OTHER -> TRUE
OkProg(p) == \A i \in DOMAIN p : OkOp(p[i])

Big(e) == [depth |-> e.depth + 8, heap |-> e.heapEnv + 400000, track |-> e.trackBase + 400000,
           key |-> e.key + 300, value |-> e.value + 3000, payload |-> e.payload + 3000,
           event |-> e.event + 600, log |-> 600, panic |-> 600, logs |-> 12, events |-> e.events + 12]

Rep(n, o) == [i \in 1..n |-> o]
RECURSIVE Flat(_)
Flat(ss) == IF ss = <<>> THEN <<>> ELSE Head(ss) \o Flat(Tail(ss))

Case(m, cfg, prog) == [mode |-> m, cfg |-> cfg, prog |-> prog]

(* ---- single limits ---- *)
FDepth(m) == LET e == EnvOf(m) IN
  {Case(m, [Big(e) EXCEPT !.depth = d], pre \o Rep(k, Call(MinCall + 3))) :
     d \in {e.depth + i : i \in 0..(IF Tier = 1 THEN 2 ELSE 4)}, k \in 0..(e.depth + 5),
     pre \in {<<>>, <<Call(MinCall), Ret>>, <<Call(MinCall), Call(MinCall), Ret, Ret, LogOp(3)>>}}
FEvents(m) == LET e == EnvOf(m) IN
  {Case(m, [Big(e) EXCEPT !.events = e.events + n], pre \o Rep(j, EmitOp(10)) \o post) :
     n \in 0..(IF Tier = 1 THEN 3 ELSE 5), j \in 0..6,
     pre \in {<<>>, <<Call(MinCall)>>, <<Call(MinCall), EmitOp(12), Ret>>}, post \in {<<>>, <<LogOp(1)>>}}
FLogs(m) == LET e == EnvOf(m) IN
  {Case(m, [Big(e) EXCEPT !.logs = n], pre \o Rep(j, LogOp(7)) \o post) :
     n \in 0..(IF Tier = 1 THEN 3 ELSE 5), j \in 0..6,
     pre \in {<<>>, <<Call(MinCall)>>, <<Call(MinCall), LogOp(2), Ret>>}, post \in {<<>>, <<EmitOp(9)>>}}
Around(l) == {l - 1, l, l + 1}
Lims == IF Tier = 1 THEN {40, 41, 200} ELSE {40, 41, 42, 200, 1000, 5000}   \* offsets above the environment minimum
FSizes(m) == LET e == EnvOf(m) b == Big(e) IN
  UNION {
    {Case(m, [b EXCEPT !.event = e.event + l], pre \o <<EmitOp(e.event + l + x)>> \o post) :
       x \in {-1, 0, 1}, pre \in {<<>>, <<EmitOp(8)>>}, post \in {<<>>, <<LogOp(1)>>}}
    \cup {Case(m, [b EXCEPT !.log = l - 40], pre \o <<LogOp(l - 40 + x)>> \o post) :
       x \in {y \in {-1, 0, 1} : l - 40 + y >= 0}, pre \in {<<>>, <<LogOp(0)>>}, post \in {<<>>, <<LogOp(1)>>}}
    \cup {Case(m, [b EXCEPT !.panic = l - 40], pre \o <<PanicOp(l - 40 + x)>> \o post) :
       x \in {y \in {-1, 0, 1} : l - 40 + y >= 0}, pre \in {<<>>, <<Call(MinCall)>>}, post \in {<<>>, <<LogOp(1)>>}}
    \cup {Case(m, [b EXCEPT !.payload = e.payload + l], pre \o <<Call(e.payload + l + x)>> \o post) :
       x \in {-1, 0, 1}, pre \in {<<>>, <<Call(MinCall)>>}, post \in {<<>>, <<Ret, LogOp(1)>>}}
    \cup {Case(m, [b EXCEPT !.key = e.key + l], pre \o <<WriteOp(e.key + l + x, 30)>> \o post) :
       x \in {-1, 0, 1}, pre \in {<<>>, <<WriteOp(12, 40)>>}, post \in {<<>>, <<LogOp(1)>>}}
    \cup {Case(m, [b EXCEPT !.value = e.value + l], pre \o <<WriteOp(20, e.value + l + x)>> \o post) :
       x \in {-1, 0, 1}, pre \in {<<>>, <<WriteOp(12, 40)>>}, post \in {<<>>, <<LogOp(1)>>}}
    \cup {Case(m, [b EXCEPT !.value = e.value + l], pre \o <<AllocOp(e.value + l + x)>> \o post) :
       x \in {-1, 0, 1}, pre \in {<<>>, <<AllocOp(40)>>}, post \in {<<>>, <<LogOp(1)>>}}
    \* every other substate-write entry point: index insert, sorted-index insert (kernel_set_substate), field write
    \cup {Case(m, [b EXCEPT !.value = e.value + l], pre \o <<IWriteOp(20, e.value + l + x)>> \o post) :
       x \in {-1, 0, 1}, pre \in {<<>>, <<IWriteOp(12, 40)>>}, post \in {<<>>, <<LogOp(1)>>}}
    \cup {Case(m, [b EXCEPT !.value = e.value + l], pre \o <<SWriteOp(20, e.value + l + x)>> \o post) :
       x \in {-1, 0, 1}, pre \in {<<>>, <<SWriteOp(12, 40)>>}, post \in {<<>>, <<LogOp(1)>>}}
    \cup {Case(m, [b EXCEPT !.value = e.value + l], pre \o <<FWriteOp(e.value + l + x)>> \o post) :
       x \in {-1, 0, 1}, pre \in {<<>>, <<FWriteOp(40)>>}, post \in {<<>>, <<FWriteOp(30), LogOp(1)>>}}
    \cup {Case(m, [b EXCEPT !.key = e.key + l], pre \o <<IWriteOp(e.key + l + x, 30)>> \o post) :
       x \in {-1, 0, 1}, pre \in {<<>>, <<IWriteOp(12, 40)>>}, post \in {<<>>, <<LogOp(1)>>}}
    \cup {Case(m, [b EXCEPT !.key = e.key + l], pre \o <<SWriteOp(e.key + l + x - 2, 30)>> \o post) :
       x \in {-1, 0, 1}, pre \in {<<>>, <<SWriteOp(12, 40)>>}, post \in {<<>>, <<LogOp(1)>>}}
    : l \in Lims}

(* ---- byte counters: the limit just below / at / just above every threshold of the program ---- *)
RECURSIVE TrackPeaks(_, _, _, _)
TrackPeaks(p, i, s, e) ==  \* counter values reached op by op (failure-free run with the big configuration)
  IF i > Len(p) THEN LET f == RunFrom(s, i, p, Big(e), e) IN {f.track, FinalTrack(f, e)}
  ELSE LET s2 == Exec(s, p[i], i - 1, Big(e), e) IN {s2.track} \cup TrackPeaks(p, i + 1, s2, e)
TrackProgs == {<<WriteOp(20, 50)>>, <<WriteOp(20, 50), WriteOp(31, 64)>>,
               <<WriteOp(9, 16), LogOp(1), WriteOp(40, 700), WriteOp(20, 50)>>,
               <<Call(MinCall), WriteOp(20, 50), Ret, WriteOp(10, 90)>>,
               <<Call(MinCall), WriteOp(20, 50)>>, <<WriteOp(20, 50), Call(MinCall), Call(MinCall), Ret, WriteOp(10, 90)>>,
               <<EmitOp(10), WriteOp(20, 50), EmitOp(10)>>, <<WriteOp(20, 50), EmitOp(10)>>,
               <<AllocOp(50), WriteOp(20, 50), Call(MinCall), AllocOp(30), WriteOp(20, 50)>>,
               <<IWriteOp(20, 50), SWriteOp(20, 60)>>, <<FWriteOp(90), IWriteOp(30, 45), FWriteOp(40)>>,
               <<SWriteOp(9, 16), WriteOp(20, 50), IWriteOp(20, 50)>>}
FTrack(m) == LET e == EnvOf(m) b == Big(e) IN
  UNION {{Case(m, [b EXCEPT !.track = t + d], p) :
            d \in {-1, 0, 1},
            t \in TrackPeaks(p, 1, Start(e), e)}
         : p \in TrackProgs}
HeapProgs == {<<AllocOp(50)>>, <<AllocOp(50), AllocOp(300)>>, <<AllocOp(2000), LogOp(1), AllocOp(50), AllocOp(50)>>,
              <<AllocOp(500), Call(MinCall), AllocOp(700), Ret, AllocOp(900)>>,
              <<Call(MinCall), AllocOp(1000), Call(MinCall), AllocOp(400), Ret, Ret, AllocOp(1200)>>,
              <<AllocOp(600), Call(MinCall), Call(MinCall), Call(MinCall)>>}
RECURSIVE HeapPeaks(_, _, _, _)
HeapPeaks(p, i, s, e) ==  \* heap values reached op by op (failure-free run with the big configuration)
  IF i > Len(p) THEN {}
  ELSE LET s2 == Exec(s, p[i], i - 1, Big(e), e) IN {HeapOf(s2.depth, s2.live, e)} \cup HeapPeaks(p, i + 1, s2, e)
FHeap(m) == LET e == EnvOf(m) b == Big(e) IN
  UNION {{Case(m, [b EXCEPT !.heap = h + d], p) :
            d \in {-1, 0, 1}, h \in {x \in HeapPeaks(p, 1, Start(e), e) : x - 1 >= e.heapEnv}}
         : p \in HeapProgs}

(* ---- pairs of limits ---- *)
Kinds == {"depth", "payload", "events", "event", "logs", "log", "panic", "key", "value", "valueH", "track", "heap"}
(* probe of one limit: the configuration change and the ops that end AT the limit (d = 0) or one beyond (d = 1) *)
PCfg(k, b, e) ==
  CASE k = "depth" -> [b EXCEPT !.depth = e.depth + 1]
    [] k = "payload" -> [b EXCEPT !.payload = e.payload + 50]
    [] k = "events" -> [b EXCEPT !.events = e.events + 2]
    [] k = "event" -> [b EXCEPT !.event = e.event + 50]
    [] k = "logs" -> [b EXCEPT !.logs = 2]
    [] k = "log" -> [b EXCEPT !.log = 50]
    [] k = "panic" -> [b EXCEPT !.panic = 50]
    [] k = "key" -> [b EXCEPT !.key = e.key + 50]
    [] k \in {"value", "valueH"} -> [b EXCEPT !.value = e.value + 50]
    [] k = "track" -> [b EXCEPT !.track = e.trackBase + 2000]
    [] k = "heap" -> [b EXCEPT !.heap = e.heapEnv + 2000]
POps(k, d, e) ==
  CASE k = "depth" -> Rep(e.depth + d, Call(MinCall))           \* run is at depth 1: e.depth more calls reach depth e.depth+1
    [] k = "payload" -> <<Call(e.payload + 50 + d), Ret>>
    [] k = "events" -> Rep(2 + d, EmitOp(10))
    [] k = "event" -> <<EmitOp(e.event + 50 + d)>>
    [] k = "logs" -> Rep(2 + d, LogOp(5))
    [] k = "log" -> <<LogOp(50 + d)>>
    [] k = "panic" -> <<PanicOp(50 + d)>>
    [] k = "key" -> <<WriteOp(e.key + 50 + d, 30)>>
    [] k = "value" -> <<WriteOp(20, e.value + 50 + d)>>
    [] k = "valueH" -> <<AllocOp(e.value + 50 + d)>>
    [] k = "track" -> <<WriteOp(20, 2000 - KeyCost(20, e) + d)>>
    [] k = "heap" -> <<AllocOp(e.heapEnv + 2000 - e.heapRun - e.heapObj + d)>>
RECURSIVE ApplyAll(_, _, _)
ApplyAll(ks, b, e) == IF ks = <<>> THEN b ELSE ApplyAll(Tail(ks), PCfg(Head(ks), b, e), e)
FPairs(m) == LET e == EnvOf(m) IN
  {Case(m, ApplyAll(<<ab[1], ab[2]>>, Big(e), e), POps(ab[1], da, e) \o POps(ab[2], db, e)) :
     ab \in {x \in Kinds \X Kinds : x[1] # x[2]}, da \in {0, 1}, db \in {0, 1}}
  \cup {Case(m, PCfg(a, Big(e), e), POps(a, da, e) \o POps(a, db, e)) : a \in Kinds, da \in {0, 1}, db \in {0, 1}}

(* thorough: three limits tight at once; the first two probes end AT their limit, the third at / beyond *)
FTriples(m) == LET e == EnvOf(m) IN
  IF Tier = 1 THEN {}
  ELSE {Case(m, ApplyAll(<<x[1], x[2], x[3]>>, Big(e), e), POps(x[1], 0, e) \o POps(x[2], 0, e) \o POps(x[3], d, e)) :
          x \in {y \in Kinds \X Kinds \X Kinds : y[1] # y[2] /\ y[2] # y[3] /\ y[1] # y[3]}, d \in {0, 1}}

(* ---- the protocol's default configuration at its real values ---- *)
FDefault(m) == LET e == EnvOf(m) d == Default IN
  {Case(m, d, Rep(k, Call(MinCall))) : k \in {d.depth - 2, d.depth - 1, d.depth}}
  \cup {Case(m, d, <<WriteOp(x, 30)>>) : x \in Around(d.key)}
  \cup {Case(m, d, Rep(j, EmitOp(10))) : j \in {d.events - e.events + i : i \in {-1, 0, 1}}}
  \cup {Case(m, d, Rep(j, LogOp(4))) : j \in Around(d.logs)}
  \cup {Case(m, d, <<LogOp(x)>>) : x \in Around(d.log)}
  \cup {Case(m, d, <<PanicOp(x)>>) : x \in Around(d.panic)}

Cases == UNION {FDepth(m) \cup FEvents(m) \cup FLogs(m) \cup FSizes(m) \cup FTrack(m) \cup FHeap(m)
                \cup FPairs(m) \cup FTriples(m) \cup FDefault(m) : m \in Modes}
Usable == {x \in Cases : OkProg(x.prog) /\ Admits(x.cfg, EnvOf(x.mode))}

Init == c \in Usable
Next == UNCHANGED c
Spec == Init /\ [][Next]_c
Emit == PrintT(<<"B", ToJson([mode |-> c.mode, cfg |-> c.cfg, prog |-> c.prog,
                              exp |-> Outcome(c.prog, c.cfg, EnvOf(c.mode))])>>)
=============================================================================

SPECIFICATION TSpec
CONSTANTS
  Parts = {1, 2, 3, 4, 5}
  Keys = {1, 2, 3, 4, 5, 6}
  Vals = {1, 2, 3}
POSTCONDITION TraceAccepted
CHECK_DEADLOCK FALSE

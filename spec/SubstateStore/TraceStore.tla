------------------------------ MODULE TraceStore ------------------------------
(* C15, impl -> spec: recorded commit histories over arbitrary byte-string keys (projected to ranks)
   applied to the in-memory store, the RocksDB store and the RocksDB store with Merkle tree.
   After every commit each store's full ordered content, its set of partitions and a few probed
   gets / listings from a cursor must equal those of the abstract database.                    *)
EXTENDS SubstateStore, TraceIO
VARIABLE l
SeqToSet(s) == {s[i] : i \in DOMAIN s}
UpdOf(u) ==
  [p \in Parts |->
     IF \E i \in DOMAIN u : u[i][1] = p
     THEN LET e == u[CHOOSE i \in DOMAIN u : u[i][1] = p]
              ents == SeqToSet(e[3])
              has(k) == \E x \in ents : x[1] = k
              vof(k) == (CHOOSE x \in ents : x[1] = k)[2]
          IN IF e[2] = "d" THEN <<"d", [k \in Keys |-> IF has(k) THEN vof(k) ELSE Untouched]>>
                           ELSE <<"r", [k \in Keys |-> IF has(k) THEN vof(k) ELSE None]>>
     ELSE NoUpd]
AsPairs(s) == [i \in DOMAIN s |-> <<s[i][1], s[i][2]>>]
StoreOk(d, o) ==
  /\ \A p \in Parts : AsPairs(o.content[p]) = ListFrom(d, p, -1)
  /\ SeqToSet(o.parts) = Partitions(d) /\ Len(o.parts) = Cardinality(Partitions(d))
  /\ o.unknown_parts = 0 /\ o.dup_parts = 0
  /\ \A i \in DOMAIN o.probes :
       LET pr == o.probes[i] IN /\ pr.get = Get(d, pr.p, pr.k)
                                /\ AsPairs(pr.list) = ListFrom(d, pr.p, pr.k)
TInit == db = EmptyDb /\ l = 1
TReset == /\ l <= Len(Rec) /\ Rec[l].a = "reset" /\ db' = EmptyDb /\ l' = l + 1
TCommit == /\ l <= Len(Rec) /\ Rec[l].a = "commit"
           /\ LET ev == Rec[l]
                  d2 == Apply(db, UpdOf(ev.upd))
              IN /\ db' = d2
                 /\ StoreOk(d2, ev.mem) /\ StoreOk(d2, ev.rocks) /\ StoreOk(d2, ev.merkle)
           /\ l' = l + 1
TNext == TReset \/ TCommit
TSpec == TInit /\ [][TNext]_<<db, l>>
=============================================================================

SPECIFICATION GSpec
CONSTANTS
  Parts = {1, 2, 3}
  Keys = {2, 4, 6}
  Vals = {1, 2}
  K = 4
  Cursors = {0, 1, 2, 3, 4, 5, 6, 7}
INVARIANT Emit
CHECK_DEADLOCK FALSE

--------------------------- MODULE SubstateStore ---------------------------
(* C14, C15.  The abstract substate database (radix-substate-store-interface: SubstateDatabase,
   CommittableSubstateDatabase, ListableSubstateDatabase).  A database maps a partition to a
   finite ordered map sortKey -> value; a commit carries, per partition, nothing, a Delta
   (per key: untouched / delete / set v) or a Reset (the partition is replaced by new values).  *)
EXTENDS Integers, Sequences, FiniteSets, TLC
CONSTANTS Parts,   \* partitions (node key x partition number), integers
          Keys,    \* sort keys, integers ordered by <
          Vals     \* values, positive integers
None == 0
Untouched == -1
Databases == [Parts -> [Keys -> Vals \cup {None}]]
EmptyDb == [p \in Parts |-> [k \in Keys |-> None]]
\* a partition update is <<kind, m>>: "n" nothing, "d" delta, "r" reset
DeltaMaps == [Keys -> Vals \cup {None, Untouched}]
ResetMaps == [Keys -> Vals \cup {None}]
NoUpd == <<"n", [k \in Keys |-> Untouched]>>
PartUpdates == {NoUpd} \cup ({"d"} \X DeltaMaps) \cup ({"r"} \X ResetMaps)
Updates == [Parts -> PartUpdates]

ApplyPart(cur, u) ==
  CASE u[1] = "n" -> cur
    [] u[1] = "d" -> [k \in Keys |-> IF u[2][k] = Untouched THEN cur[k] ELSE u[2][k]]
    [] u[1] = "r" -> [k \in Keys |-> IF u[2][k] > 0 THEN u[2][k] ELSE None]
Apply(d, upd) == [p \in Parts |-> ApplyPart(d[p], upd[p])]

\* ---- the observational interface
Get(d, p, k) == d[p][k]
Present(d, p) == {k \in Keys : d[p][k] # None}
RECURSIVE SortedSeq(_)
SortedSeq(S) == IF S = {} THEN <<>>
                ELSE LET m == CHOOSE x \in S : \A y \in S : x <= y
                         rest == SortedSeq(S \ {m})
                     IN <<m>> \o rest
\* ordered listing of the entries with key >= c (c any integer; "from the start" = a cursor below every key)
ListFrom(d, p, c) == LET ks == SortedSeq({k \in Present(d, p) : k >= c})
                     IN [i \in 1..Len(ks) |-> <<ks[i], d[p][ks[i]]>>]
Partitions(d) == {p \in Parts : Present(d, p) # {}}

\* ---- the plain store as a state machine
VARIABLE db
StoreInit == db \in Databases
Commit(upd) == db' = Apply(db, upd)
StoreNext == \E upd \in Updates : Commit(upd)
=============================================================================

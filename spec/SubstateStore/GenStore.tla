------------------------------ MODULE GenStore ------------------------------
(* Behaviour generator for C14/C15: a base database, a sequence of commits and, after every
   commit, everything observable (all gets, all listings from every cursor, non-empty partitions).
   Used with -simulate (seeded) or exhaustively on tiny constants.                            *)
EXTENDS SubstateStore, Json
CONSTANTS K,        \* number of commits per behaviour
          Cursors   \* integers: cursor values, between and on keys (a value below all keys = from the start)
VARIABLE hist
Obs(d) == [get   |-> {<<p, k, d[p][k]>> : p \in Parts, k \in Keys},
           lists |-> {<<p, c, ListFrom(d, p, c)>> : p \in Parts, c \in Cursors},
           parts |-> Partitions(d)]
UpdJson(upd) == {<<p, upd[p][1], {<<k, upd[p][2][k]>> : k \in {x \in Keys : upd[p][1] = "r" \/ upd[p][2][x] # Untouched}}>> : p \in {q \in Parts : upd[q][1] # "n"}}
GInit == StoreInit /\ hist = <<[a |-> "init", upd |-> {}, obs |-> Obs(db)]>>
GNext == /\ Len(hist) <= K
         /\ \E upd \in Updates :
              /\ Commit(upd)
              /\ hist' = Append(hist, [a |-> "commit", upd |-> UpdJson(upd), obs |-> Obs(Apply(db, upd))])
GSpec == GInit /\ [][GNext]_<<db, hist>>
\* simulation variant: the nondeterministic choices are drawn with TLC's seeded RandomElement, so that
\* a step does not enumerate the (huge) set of all updates
\* Random draws must be (a) re-drawn at every step: a zero-arity definition containing RandomElement is
\* evaluated once and cached by TLC, hence the dummy parameter; and (b) evaluated exactly once per use:
\* sequences are built eagerly with Append and bound through singleton sets (\E x \in {e}).
NParts == Cardinality(Parts)
PartSeq == SortedSeq(Parts)
RECURSIVE RandUpdSeq(_, _)
RandUpdSeq(n, tag) == IF n = 0 THEN <<>>
                      ELSE LET rest == RandUpdSeq(n - 1, tag)
                           IN Append(rest, IF RandomElement(1..3) = 1 THEN NoUpd ELSE RandomElement(PartUpdates))
RECURSIVE RandDbSeq(_, _)
RandDbSeq(n, tag) == IF n = 0 THEN <<>>
                     ELSE LET rest == RandDbSeq(n - 1, tag)
                          IN Append(rest, IF RandomElement(1..3) = 1 THEN [k \in Keys |-> None]
                                          ELSE RandomElement([Keys -> Vals \cup {None}]))
Idx(p) == CHOOSE i \in 1..NParts : PartSeq[i] = p
SInit == \E tag \in 1..48 : \E s \in {RandDbSeq(NParts, tag)} :
           /\ db = [p \in Parts |-> s[Idx(p)]]
           /\ hist = <<[a |-> "init", upd |-> {}, obs |-> Obs([p \in Parts |-> s[Idx(p)]])]>>
SNext == /\ Len(hist) <= K
         /\ \E s \in {RandUpdSeq(NParts, Len(hist))} : \E upd \in {[p \in Parts |-> s[Idx(p)]]} :
              /\ Commit(upd)
              /\ hist' = Append(hist, [a |-> "commit", upd |-> UpdJson(upd), obs |-> Obs(Apply(db, upd))])
SSpec == SInit /\ [][SNext]_<<db, hist>>
Emit == Len(hist) = K + 1 => PrintT(<<"B", ToJson(hist)>>)
=============================================================================

------------------------------- MODULE Overlay -------------------------------
(* C14.  SubstateDatabaseOverlay (radix-substate-store-impls/src/substate_database_overlay.rs):
   commits are merged into staged updates exactly as merge_database_updates does; reads look at
   the staged updates first and fall through to the root.  `flat` is the specification: the
   root database with the same commits applied directly.                                       *)
EXTENDS SubstateStore
VARIABLES root, staged, flat
ovars == <<root, staged, flat, db>>

\* merge_database_updates, per partition
MergePart(s, u) ==
  CASE u[1] = "n" -> s
    [] u[1] = "r" -> u                                   \* a reset takes precedence over anything staged
    [] u[1] = "d" /\ s[1] = "n" -> u
    [] u[1] = "d" /\ s[1] = "d" -> <<"d", [k \in Keys |-> IF u[2][k] = Untouched THEN s[2][k] ELSE u[2][k]]>>
    [] u[1] = "d" /\ s[1] = "r" -> <<"r", [k \in Keys |-> IF u[2][k] = Untouched THEN s[2][k] ELSE u[2][k]]>>
\* reads through the overlay
OGet(p, k) ==
  CASE staged[p][1] = "n" -> root[p][k]
    [] staged[p][1] = "d" -> IF staged[p][2][k] = Untouched THEN root[p][k] ELSE staged[p][2][k]
    [] staged[p][1] = "r" -> IF staged[p][2][k] > 0 THEN staged[p][2][k] ELSE None
OView == [p \in Parts |-> [k \in Keys |-> OGet(p, k)]]

OInit == /\ root \in Databases /\ staged = [p \in Parts |-> NoUpd] /\ flat = root /\ db = EmptyDb   \* db (the plain store's variable) is unused here
OCommit(upd) == /\ staged' = [p \in Parts |-> MergePart(staged[p], upd[p])]
                /\ flat' = Apply(flat, upd)
                /\ UNCHANGED <<root, db>>
\* commit_overlay_into_root_store: the staged updates are committed to the root
OMerge == /\ root' = Apply(root, staged) /\ staged' = [p \in Parts |-> NoUpd]
          /\ UNCHANGED <<flat, db>>
ONext == (\E upd \in Updates : OCommit(upd)) \/ OMerge
OSpec == OInit /\ [][ONext]_ovars

\* the property: everything observable through the overlay equals the flat database
Refines == OView = flat
ListsAgree == \A p \in Parts : \A c \in Keys \cup {-5} : ListFrom(OView, p, c) = ListFrom(flat, p, c)
MergeExact == [][root' # root => root' = flat]_ovars
=============================================================================

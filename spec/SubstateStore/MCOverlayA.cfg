SPECIFICATION OSpec
CONSTANTS
  Parts = {1, 2}
  Keys = {2, 4}
  Vals = {1}
INVARIANTS Refines ListsAgree
PROPERTIES MergeExact
CHECK_DEADLOCK FALSE

SPECIFICATION OSpec
CONSTANTS
  Parts = {1}
  Keys = {2, 4, 6}
  Vals = {1, 2}
INVARIANTS Refines ListsAgree
PROPERTIES MergeExact
CHECK_DEADLOCK FALSE

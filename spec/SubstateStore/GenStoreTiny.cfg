SPECIFICATION GSpec
CONSTANTS
  Parts = {1}
  Keys = {2, 4}
  Vals = {1}
  K = 2
  Cursors = {0, 1, 2, 3, 4, 5}
INVARIANT Emit
CHECK_DEADLOCK FALSE

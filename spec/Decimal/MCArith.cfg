SPECIFICATION SpecArith
CONSTANTS
  WSD = 2
  WBITS = 11
  NSD = 1
  NBITS = 7
  MaxLen = 5
  MaxExp = 4
INVARIANTS ArithLaws MinIsRepresentable
CHECK_DEADLOCK FALSE

------------------------------ MODULE MCDecimal ------------------------------
(* S for C24-C27: Decimal.tla / DecimalPair.tla instantiated with plain TLC integers at a tiny
   scale and checked EXHAUSTIVELY: for every operation and every operand (pair) the relational
   post-condition admits exactly one outcome, that outcome equals the direct definition
   (computed here with TLC's integer division - this is the only place where anything is
   computed), and failure is admitted exactly when the direct result is not representable.
   N: narrow type (Decimal's role), W: wide type (PreciseDecimal's role).
   One module, one SPECIFICATION per family (cfg files MCArith, MCRound, MCRoot, MCPowi, MCText). *)
EXTENDS Integers, Sequences, FiniteSets, TLC
CONSTANTS WSD, WBITS, NSD, NBITS,
          MaxLen,      \* longest text (family 5)
          MaxExp       \* largest |exponent| (family 4)
IntI(n) == n
IntPlus(a, b) == a + b
IntMinus(a, b) == a - b
IntTimes(a, b) == a * b
IntLE(a, b) == a <= b
IntLow(a, j) == a % (10 ^ j)
IntPow10(k) == 10 ^ k
IntDivS(a, d) == a \div d
IntModS(a, d) == a % d
INSTANCE DecimalPair WITH I <- IntI, Plus <- IntPlus, Minus <- IntMinus, Times <- IntTimes, LE <- IntLE,
                          LowDigits <- IntLow, Pow10 <- IntPow10, DivS <- IntDivS, ModS <- IntModS,
                          WS <- 10 ^ WSD, WMax <- 2 ^ (WBITS - 1) - 1, WMin <- -(2 ^ (WBITS - 1)),
                          NS <- 10 ^ NSD, NMax <- 2 ^ (NBITS - 1) - 1, NMin <- -(2 ^ (NBITS - 1))
ASSUME PairConstsOK

NVals == (-(2 ^ (NBITS - 1))) .. (2 ^ (NBITS - 1) - 1)
WVals == (-(2 ^ (WBITS - 1))) .. (2 ^ (WBITS - 1) - 1)
NSc == 10 ^ NSD
WSc == 10 ^ WSD

VARIABLES op, x, y, k, md, txt
vars == <<op, x, y, k, md, txt>>

AbsI(a) == IF a < 0 THEN -a ELSE a
SgnI(a) == IF a = 0 THEN 0 ELSE IF a < 0 THEN -1 ELSE 1
TruncDiv(n, d) == SgnI(n) * SgnI(d) * (AbsI(n) \div AbsI(d))          \* toward zero
Fit(e, lo, hi) == IF e >= lo /\ e <= hi THEN <<"some", e>> ELSE <<"none", 0>>
FitN(e) == Fit(e, -(2 ^ (NBITS - 1)), 2 ^ (NBITS - 1) - 1)
FitW(e) == Fit(e, -(2 ^ (WBITS - 1)), 2 ^ (WBITS - 1) - 1)

\* all outcomes a post-condition could be asked about, incl. results just outside the range
Outcomes(vals) == {<<"none", 0>>, <<"panic", 0>>} \cup {<<"some", r>> : r \in vals}
Wider(vals, m) == vals \cup {-(Cardinality(vals) \div 2) - i : i \in 1..m} \cup {(Cardinality(vals) \div 2) - 1 + i : i \in 1..m}
\* P admits the direct outcome d and no other
Unique(P(_, _), d, vals) ==
  /\ P(d[1], d[2])
  /\ \A o \in Outcomes(Wider(vals, 3)) : P(o[1], o[2]) => (o[1] = d[1] /\ (o[1] = "some" => o[2] = d[2]))

-----------------------------------------------------------------------------
\* Family 1: arithmetic (C24) on N, all pairs; conversions N <-> W
InitArith == txt = <<>> /\ op = "pick" /\ x \in NVals /\ y = 0 /\ k = 0 /\ md = ""
Pair(name) == op = "pick" /\ op' = name /\ y' \in NVals /\ UNCHANGED <<x, k, md, txt>>
Single(name) == op = "pick" /\ op' = name /\ UNCHANGED <<x, y, k, md, txt>>
DoAdd == Pair("add")
DoSub == Pair("sub")
DoMul == Pair("mul")
DoDiv == Pair("div")
DoNeg == Single("neg")
DoAbs == Single("abs")
DoFromInt == Single("fromint")
DoWiden == Single("widen")
NCard == 2 ^ NBITS
\* every wide value, spread over the initial states
DoNarrow == op = "pick" /\ op' = "narrow" /\ y' \in {v \in WVals : v % NCard = x % NCard} /\ UNCHANGED <<x, k, md, txt>>
NextArith == DoAdd \/ DoSub \/ DoMul \/ DoDiv \/ DoNeg \/ DoAbs \/ DoFromInt \/ DoWiden \/ DoNarrow
SpecArith == InitArith /\ [][NextArith]_vars

ArithLaws ==
  /\ op = "add" => Unique(LAMBDA o, r : N!AddPost(x, y, o, r), FitN(x + y), NVals)
  /\ op = "sub" => Unique(LAMBDA o, r : N!SubPost(x, y, o, r), FitN(x - y), NVals)
  /\ op = "mul" => Unique(LAMBDA o, r : N!MulPost(x, y, o, r), FitN(TruncDiv(x * y, NSc)), NVals)
  /\ op = "div" => Unique(LAMBDA o, r : N!DivPost(x, y, o, r), IF y = 0 THEN <<"none", 0>> ELSE FitN(TruncDiv(x * NSc, y)), NVals)
  /\ op = "neg" => Unique(LAMBDA o, r : N!NegPost(x, o, r), FitN(-x), NVals)
  /\ op = "abs" => Unique(LAMBDA o, r : N!AbsPost(x, o, r), FitN(AbsI(x)), NVals)
  /\ op = "fromint" => Unique(LAMBDA o, r : N!FromIntPost(x, o, r), FitN(x * NSc), NVals)
  /\ op = "widen" => Unique(LAMBDA o, r : WidenPost(x, o, r), <<"some", x * 10 ^ (WSD - NSD)>>, WVals)
  /\ op = "narrow" => Unique(LAMBDA o, r : NarrowPost(y, o, r), FitN(TruncDiv(y, 10 ^ (WSD - NSD))), NVals)
\* the cases the statement singles out exist in the model: exact results equal to MIN / MAX are "some"
MinIsRepresentable ==
  /\ N!MulPost(NSc, -(2 ^ (NBITS - 1)), "some", -(2 ^ (NBITS - 1))) /\ ~N!MulPost(NSc, -(2 ^ (NBITS - 1)), "none", 0)
  /\ N!DivPost(-(2 ^ (NBITS - 1)), NSc, "some", -(2 ^ (NBITS - 1))) /\ ~N!DivPost(-(2 ^ (NBITS - 1)), NSc, "none", 0)
  /\ NarrowPost(-(2 ^ (NBITS - 1)) * 10 ^ (WSD - NSD), "some", -(2 ^ (NBITS - 1)))
  /\ ~NarrowPost(-(2 ^ (NBITS - 1)) * 10 ^ (WSD - NSD), "none", 0)
  /\ N!AbsPost(-(2 ^ (NBITS - 1)), "none", 0) /\ N!NegPost(-(2 ^ (NBITS - 1)), "none", 0)

-----------------------------------------------------------------------------
\* Family 2: rounding (C25) on W: all values x all dp x 7 modes; truncation W -> N with a mode
InitRound == txt = <<>> /\ op = "pick" /\ x \in WVals /\ y = 0 /\ k = 0 /\ md = ""
DoRound == op = "pick" /\ op' = "round" /\ k' \in 0..WSD /\ md' \in W!Modes /\ UNCHANGED <<x, y, txt>>
DoFloorCeil == op = "pick" /\ op' = "floorceil" /\ UNCHANGED <<x, y, k, md, txt>>
DoTruncate == op = "pick" /\ op' = "truncate" /\ md' \in W!Modes /\ UNCHANGED <<x, y, k, txt>>
NextRound == DoRound \/ DoFloorCeil \/ DoTruncate
SpecRound == InitRound /\ [][NextRound]_vars

\* direct definition: the two neighbouring multiples and the mode's choice (unbounded result)
DirectRounding(v, dp, mode, sd) ==
  LET u == 10 ^ (sd - dp)
      lo == (v \div u) * u               \* TLC's \div is floor division
      hi == lo + u
      rem == v - lo
      tz == IF v > 0 THEN lo ELSE hi
      az == IF v > 0 THEN hi ELSE lo
  IN IF rem = 0 THEN v
     ELSE CASE mode = "ToPositiveInfinity" -> hi
            [] mode = "ToNegativeInfinity" -> lo
            [] mode = "ToZero" -> tz
            [] mode = "AwayFromZero" -> az
            [] OTHER -> IF 2 * rem < u THEN lo
                        ELSE IF 2 * rem > u THEN hi
                        ELSE CASE mode = "ToNearestMidpointTowardZero" -> tz
                               [] mode = "ToNearestMidpointAwayFromZero" -> az
                               [] mode = "ToNearestMidpointToEven" -> IF (lo \div u) % 2 = 0 THEN lo ELSE hi
RoundLaws ==
  /\ op = "round" => /\ Unique(LAMBDA o, r : W!RoundPost(x, k, md, o, r), FitW(DirectRounding(x, k, md, WSD)), WVals)
                     \* values already at that precision are unchanged
                     /\ (x % 10 ^ (WSD - k) = 0 => W!RoundPost(x, k, md, "some", x))
                     \* exactly one unbounded rounding exists, and it is one of the two candidates
                     /\ Cardinality({v \in (x - 2 * WSc) .. (x + 2 * WSc) : W!IsRounding(x, k, md, v)}) = 1
                     /\ \A v \in W!RoundCandidates(x, k) : v = x \/ AbsI(v - x) < 10 ^ (WSD - k)
  /\ op = "floorceil" => /\ Unique(LAMBDA o, r : W!FloorPost(x, o, r), FitW((x \div WSc) * WSc), WVals)
                         /\ Unique(LAMBDA o, r : W!CeilingPost(x, o, r), FitW(-(((-x) \div WSc) * WSc)), WVals)
  /\ op = "truncate" => Unique(LAMBDA o, r : TruncatePost(x, md, o, r),
                               FitN(DirectRounding(x, NSD, md, WSD) \div 10 ^ (WSD - NSD)), NVals)

-----------------------------------------------------------------------------
\* Family 3: roots (C26) on N (degrees 0..4) and W (degrees 0..3)
InitRoot == txt = <<>> /\ op = "pick" /\ x \in WVals /\ y = 0 /\ k = 0 /\ md = ""
DoRootN == op = "pick" /\ x \in NVals /\ op' = "rootN" /\ k' \in 0..4 /\ UNCHANGED <<x, y, md, txt>>
DoRootW == op = "pick" /\ op' = "rootW" /\ k' \in 0..3 /\ UNCHANGED <<x, y, md, txt>>
NextRoot == DoRootN \/ DoRootW
SpecRoot == InitRoot /\ [][NextRoot]_vars
\* direct definition: the largest r >= 0 with r^n <= |x| * S^(n-1), with the sign of x
DirectRoot(v, n, sc, vals) ==
  IF n = 0 \/ (v < 0 /\ n % 2 = 0) THEN <<"none", 0>>
  ELSE LET t == AbsI(v) * sc ^ (n - 1)
           m == Cardinality({r \in vals : r ^ n <= t}) - 1          \* r |-> r^n is increasing: the largest such r
       IN <<"some", SgnI(v) * m>>
RootLaws ==
  /\ op = "rootN" => Unique(LAMBDA o, r : N!RootPost(x, k, o, r), DirectRoot(x, k, NSc, 0..(2 ^ (NBITS - 1))), NVals)
  /\ op = "rootW" => Unique(LAMBDA o, r : W!RootPost(x, k, o, r), DirectRoot(x, k, WSc, 0..(2 ^ (WBITS - 1))), WVals)

-----------------------------------------------------------------------------
\* Family 4: integer powers (C26) on N, exponents -MaxExp..MaxExp
InitPowi == txt = <<>> /\ op = "pick" /\ x \in NVals /\ y = 0 /\ k = 0 /\ md = ""
DoPowi == op = "pick" /\ op' = "powi" /\ k' \in (-MaxExp)..MaxExp /\ UNCHANGED <<x, y, md, txt>>
SpecPowi == InitPowi /\ [][DoPowi]_vars
\* the documented algorithm (square and multiply, every product truncated to the type) - the
\* specification must not exclude it; it is NOT the definition
RECURSIVE AlgPow(_, _)
AlgPow(b, e) ==         \* b in sub-units or "none"
  IF e = 0 THEN <<"some", NSc>>
  ELSE IF e = 1 THEN <<"some", b>>
  ELSE LET sq == FitN(TruncDiv(b * b, NSc))
       IN IF sq[1] = "none" THEN sq
          ELSE LET rest == AlgPow(sq[2], e \div 2)
               IN IF e % 2 = 0 \/ rest[1] = "none" THEN rest
                  ELSE FitN(TruncDiv(b * rest[2], NSc))
AlgPowi(b, e) == IF e >= 0 THEN AlgPow(b, e)
                 ELSE IF b = 0 THEN <<"none", 0>>
                 ELSE LET inv == FitN(TruncDiv(NSc * NSc, b)) IN IF inv[1] = "none" THEN inv ELSE AlgPow(inv[2], -e)
\* exact value as a fraction num/den of sub-units (den > 0), e # 0, x # 0
ExNum(b, e) == IF e > 0 THEN b ^ e ELSE (IF b < 0 /\ (-e) % 2 = 1 THEN -1 ELSE 1) * NSc ^ (1 - e)
ExDen(b, e) == IF e > 0 THEN NSc ^ (e - 1) ELSE AbsI(b) ^ (-e)
Representable(b, e) == ExNum(b, e) % ExDen(b, e) = 0 /\ FitN(ExNum(b, e) \div ExDen(b, e))[1] = "some"
PowiLaws == op = "powi" =>
  LET E == AbsI(k)
      P(o, r) == N!PowiPostSmall(x, E, k < 0, o, r)
      alg == AlgPowi(x, k)
  IN /\ P(alg[1], alg[2])                                   \* the algorithm is allowed ...
     /\ ~P("panic", 0)
     /\ IF k = 0 THEN Unique(P, <<"some", NSc>>, NVals)
        ELSE IF x = 0 THEN Unique(P, IF k < 0 THEN <<"none", 0>> ELSE <<"some", 0>>, NVals)
        ELSE IF Representable(x, k)                         \* ... exact when representable ...
             THEN Unique(P, <<"some", ExNum(x, k) \div ExDen(x, k)>>, NVals)
             ELSE /\ P("none", 0)                            \* ... else failure or any value not beyond the exact one
                  /\ \A r \in NVals : P("some", r) <=> (AbsI(r) * ExDen(x, k) <= AbsI(ExNum(x, k)) /\ (r = 0 \/ SgnI(r) = SgnI(ExNum(x, k))))
     /\ (x \in {NSc, -NSc, 0} => \A o \in Outcomes(NVals) :
            N!PowiPostUnit(x, k = 0, k < 0, k % 2 = 0, o[1], o[2]) <=> (P(o[1], o[2]) /\ (o[1] = "some" => o[2] \in NVals)))
     /\ N!PowiPostWeak(x, k < 0, k % 2 = 0, alg[1], alg[2])

-----------------------------------------------------------------------------
\* Family 5: text (C27) on W: all strings up to MaxLen over a small alphabet; all values
Alphabet == {45, 43, 48, 49, 57, 46, 120}       \* - + 0 1 9 . x
Digit(n) == 48 + n
RECURSIVE Digits(_)                              \* decimal digits of n >= 0, no leading zeros ("0" for 0)
Digits(n) == IF n < 10 THEN <<Digit(n)>> ELSE LET p == Digits(n \div 10) IN Append(p, Digit(n % 10))
RECURSIVE PadLeft(_, _)
PadLeft(s, n) == IF Len(s) >= n THEN s ELSE PadLeft(<<48>> \o s, n)
RECURSIVE TrimZeros(_)
TrimZeros(s) == IF s # <<>> /\ s[Len(s)] = 48 THEN TrimZeros(SubSeq(s, 1, Len(s) - 1)) ELSE s
\* direct definition of printing
DirectPrint(v) ==
  LET a == AbsI(v)
      fr == TrimZeros(PadLeft(Digits(a % WSc), WSD))
      body == Digits(a \div WSc) \o (IF a % WSc = 0 THEN <<>> ELSE <<46>> \o fr)
  IN IF v < 0 THEN <<45>> \o body ELSE body
InitText == op = "pick" /\ x = 0 /\ y = 0 /\ k = 0 /\ md = "" /\ txt = <<>>
DoValue == op = "pick" /\ op' = "value" /\ x' \in WVals /\ UNCHANGED <<y, k, md, txt>>
DoGrow == op \in {"pick", "text"} /\ Len(txt) < MaxLen /\ op' = "text" /\ \E c \in Alphabet : txt' = Append(txt, c)
          /\ UNCHANGED <<x, y, k, md>>
SpecText == InitText /\ [][DoValue \/ DoGrow]_vars
\* direct definition of parsing: one left-to-right scan.  st: 0 start, 1 after sign, 2 in integer
\* part, 3 after the point, 4 in fraction, 5 rejected; acc = digits read so far as an integer
RECURSIVE Scan(_, _, _, _, _)
Scan(s, i, st, acc, nf) ==
  IF i > Len(s) THEN (IF st = 2 \/ st = 4 THEN <<TRUE, acc * 10 ^ (WSD - nf)>> ELSE <<FALSE, 0>>)
  ELSE LET c == s[i]
       IN IF c >= 48 /\ c <= 57
          THEN (IF st \in {0, 1, 2} THEN Scan(s, i + 1, 2, acc * 10 + (c - 48), 0)
                ELSE IF nf < WSD THEN Scan(s, i + 1, 4, acc * 10 + (c - 48), nf + 1)
                ELSE <<FALSE, 0>>)
          ELSE IF (c = 43 \/ c = 45) /\ st = 0 THEN Scan(s, i + 1, 1, acc, 0)
          ELSE IF c = 46 /\ st = 2 THEN Scan(s, i + 1, 3, acc, 0)
          ELSE <<FALSE, 0>>
DirectParse(s) ==
  LET r == Scan(s, 1, 0, 0, 0)
      v == IF s # <<>> /\ s[1] = 45 THEN -r[2] ELSE r[2]
  IN IF r[1] /\ v \in WVals THEN <<"ok", v>> ELSE <<"err", 0>>
\* ParsePost(ok, r) is an equation r = NumeralValue(text), so trying the neighbours of the direct
\* value (and the other verdicts) covers every way a second outcome could be admitted
ParseOutcomes(d) == {<<"err", 0>>, <<"panic", 0>>} \cup {<<"ok", r>> : r \in {d[2], d[2] + 1, d[2] - 1, -d[2], 0, 1}}
TextLaws ==
  /\ op = "value" => LET p == DirectPrint(x)
                     IN /\ W!PrintPost(x, "ok", p) /\ W!IsCanonical(x, p)
                        /\ W!ParsePost(p, "ok", x) /\ ~W!ParsePost(p, "err", 0)
                        /\ ~W!PrintPost(x + 1, "ok", p) /\ ~W!PrintPost(x, "panic", p)
  /\ op = "text" => /\ LET d == DirectParse(txt)
                       IN {o \in ParseOutcomes(d) : W!ParsePost(txt, o[1], o[2])} = {d}      \* exactly the direct verdict
                    /\ ~W!ParsePost(txt, "panic", 0)
                    \* an accepted text in canonical form is the print of its value (canonical form is unique)
                    /\ (W!IsNumeral(txt) /\ W!InRange(W!NumeralValue(txt)) /\ W!IsCanonical(W!NumeralValue(txt), txt)
                          => txt = DirectPrint(W!NumeralValue(txt)))
TextExamples ==
  /\ ~W!IsNumeral(<<49, 46, 45, 57>>) /\ ~W!IsNumeral(<<49, 46, 43, 57>>) /\ ~W!IsNumeral(<<45, 49, 46, 45, 57>>)   \* 1.-9 1.+9 -1.-9
  /\ W!ParsePost(<<49, 46, 45, 57>>, "err", 0) /\ ~W!ParsePost(<<49, 46, 45, 57>>, "ok", 10)
  /\ ~W!IsNumeral(<<49, 46>>) /\ ~W!IsNumeral(<<46, 57>>) /\ ~W!IsNumeral(<<>>) /\ ~W!IsNumeral(<<45>>) /\ ~W!IsNumeral(<<43, 45, 49>>)
  /\ W!IsNumeral(<<43, 49>>) /\ W!NumeralValue(<<43, 49>>) = WSc
  /\ W!NumeralValue(<<45, 48, 46, 57>>) = -9 * 10 ^ (WSD - 1)                                       \* -0.9
  /\ W!NumeralValue(<<48, 48, 49, 46, 57, 48>>) = WSc + 9 * 10 ^ (WSD - 1)                          \* 001.90
  /\ (WSD = 2 => ~W!IsNumeral(<<49, 46, 48, 48, 48>>))                                              \* too many places
=============================================================================

----------------------------- MODULE DecimalPair -----------------------------
(* Two fixed-point types over the same number signature - a wide one W (PreciseDecimal) and a
   narrow one N (Decimal), N!SD <= W!SD - and the conversions between them (C24, C25).      *)
EXTENDS Integers, Sequences
CONSTANTS I(_), Plus(_, _), Minus(_, _), Times(_, _), LE(_, _), LowDigits(_, _), Pow10(_), DivS(_, _), ModS(_, _),
          WSD, WBITS, WS, WMax, WMin,
          NSD, NBITS, NS, NMax, NMin
W == INSTANCE Decimal WITH SD <- WSD, BITS <- WBITS, S <- WS, MaxV <- WMax, MinV <- WMin
N == INSTANCE Decimal WITH SD <- NSD, BITS <- NBITS, S <- NS, MaxV <- NMax, MinV <- NMin
PairConstsOK == W!ConstsOK /\ N!ConstsOK /\ NSD <= WSD

K == Pow10(WSD - NSD)             \* wide sub-units per narrow sub-unit
\* widening is exact and total
WidenPost(x, out, r) == out = "some" /\ r = Times(x, K) /\ W!InRange(r)
\* narrowing truncates toward zero, or fails iff the truncated value is not representable
NarrowPost(x, out, r) == N!QuotPost(x, K, out, r)
\* narrowing with a rounding mode (checked_truncate): the wide value rounded to NSD places must be
\* r*K, or failure iff that rounding is not representable in the narrow type
TruncatePost(x, mode, out, r) ==
  W!RoundPostIn(x, NSD, mode, out, Times(r, K), Times(NMin, K), Times(NMax, K)) /\ (out = "some" => N!InRange(r))
=============================================================================

SPECIFICATION SpecText
CONSTANTS
  WSD = 2
  WBITS = 11
  NSD = 1
  NBITS = 7
  MaxLen = 5
  MaxExp = 4
INVARIANTS TextLaws TextExamples
CHECK_DEADLOCK FALSE

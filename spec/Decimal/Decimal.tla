------------------------------- MODULE Decimal -------------------------------
(* C24-C27.  Reference semantics of a signed fixed-point type with SD decimal places stored in
   a BITS-bit two's-complement integer of sub-units (radix-common/src/math/decimal.rs:
   SD = 18, BITS = 192; precise_decimal.rs: SD = 36, BITS = 256).  A value IS its integer number
   of sub-units.

   The module is written against an abstract number signature so that the same definitions
   are (a) checked exhaustively by TLC at a tiny scale with plain TLC integers
   (MCDecimal*.tla: SD = 1..2, BITS = 7..10) and (b) evaluated with BigInt at full scale on
   recorded calls of the real functions (TraceDecimal.tla).

   Division, roots and rounding are never COMPUTED here; they are stated relationally and a
   recorded result is only checked:   q = trunc(n/d)  iff  |q|*|d| <= |n| < (|q|+1)*|d|  and
   sign rule;   r = root_n(x)  iff  r^n <= x*S^(n-1) < (r+1)^n ;  rounding by "multiple of
   the unit, closer than one unit, mode rule".  Only digit-level helpers are assumed of the
   number system (low decimal digits, power of ten, division by a one-digit constant).

   Outcomes: out \in {"some", "none", "panic"} (for text: "ok", "err", "panic") plus the
   result r (meaningful for "some"/"ok" only).  "panic" satisfies no post-condition.        *)
EXTENDS Integers, Sequences
CONSTANTS I(_),                  \* embedding of a TLC integer
          Plus(_, _), Minus(_, _), Times(_, _),
          LE(_, _),              \* <=
          LowDigits(_, _),       \* LowDigits(a, j) = a mod 10^j for a >= 0 (a number)
          Pow10(_),              \* 10^k
          DivS(_, _), ModS(_, _),\* floor(a/d), a mod d (TLC integer) for a >= 0 and a TLC integer 1 <= d <= 10
          SD, BITS,              \* TLC integers
          S, MaxV, MinV          \* 10^SD, 2^(BITS-1)-1, -2^(BITS-1) as numbers (TLC does not cache
                                 \* computed constants; the instantiating module supplies literals
                                 \* and asserts ConstsOK once)

Zero == I(0)
One  == I(1)
Neg(a) == Minus(Zero, a)
LT(a, b) == LE(a, b) /\ a # b
IsNeg(a) == LT(a, Zero)
IsPos(a) == LT(Zero, a)
Abs(a) == IF IsNeg(a) THEN Neg(a) ELSE a
Sgn(a) == IF a = Zero THEN 0 ELSE IF IsNeg(a) THEN -1 ELSE 1

RECURSIVE PowN(_, _)            \* a^n, n a TLC integer >= 0
PowN(a, n) == IF n = 0 THEN One
              ELSE IF n = 1 THEN a
              ELSE LET h == PowN(a, n \div 2)
                       sq == Times(h, h)
                   IN IF n % 2 = 0 THEN sq ELSE Times(sq, a)

ConstsOK == /\ S = Pow10(SD) /\ S = PowN(I(10), SD)
            /\ MaxV = Minus(PowN(I(2), BITS - 1), One)
            /\ MinV = Neg(PowN(I(2), BITS - 1))

InRange(x) == LE(MinV, x) /\ LE(x, MaxV)

-----------------------------------------------------------------------------
(* C24: exact arithmetic or failure *)

\* the exact result e is returned iff it is representable
ExactOrNone(e, out, r) ==
  CASE out = "some" -> r = e /\ InRange(e)
    [] out = "none" -> ~InRange(e)
    [] OTHER -> FALSE

AddPost(a, b, out, r) == ExactOrNone(Plus(a, b), out, r)
SubPost(a, b, out, r) == ExactOrNone(Minus(a, b), out, r)
NegPost(a, out, r)    == ExactOrNone(Neg(a), out, r)
AbsPost(a, out, r)    == ExactOrNone(Abs(a), out, r)
\* from an integer n (any integer type): n * S
FromIntPost(n, out, r) == ExactOrNone(Times(n, S), out, r)

\* q is num/den truncated toward zero (den # 0)
IsTruncQuot(num, den, q) ==
  /\ LE(Times(Abs(q), Abs(den)), Abs(num))
  /\ LT(Abs(num), Times(Plus(Abs(q), One), Abs(den)))
  /\ (q = Zero \/ Sgn(q) = Sgn(num) * Sgn(den))
\* the truncated quotient t of num/den is outside [lo, hi]  (lo < 0 < hi):
\*   t >= hi+1 iff |num| >= (hi+1)*|den| (same signs);  t <= lo-1 iff |num| >= (|lo|+1)*|den|
TruncQuotOutside(num, den, lo, hi) ==
  IF Sgn(num) * Sgn(den) >= 0
  THEN LE(Times(Plus(hi, One), Abs(den)), Abs(num))
  ELSE LE(Times(Plus(Abs(lo), One), Abs(den)), Abs(num))
\* "num/den truncated toward zero, or failure iff den = 0 or that value is not representable"
QuotPost(num, den, out, r) ==
  CASE out = "some" -> den # Zero /\ InRange(r) /\ IsTruncQuot(num, den, r)
    [] out = "none" -> den = Zero \/ TruncQuotOutside(num, den, MinV, MaxV)
    [] OTHER -> FALSE
MulPost(a, b, out, r) == QuotPost(Times(a, b), S, out, r)     \* a*b/S   (values: (a/S)*(b/S)*S)
DivPost(a, b, out, r) == QuotPost(Times(a, S), b, out, r)     \* a*S/b

-----------------------------------------------------------------------------
(* C25: rounding to dp decimal places, 0 <= dp <= SD.  u = 10^(SD-dp) is the unit.            *)
Modes == {"ToPositiveInfinity", "ToNegativeInfinity", "ToZero", "AwayFromZero",
          "ToNearestMidpointTowardZero", "ToNearestMidpointAwayFromZero", "ToNearestMidpointToEven"}

IsMultiple(v, j) == LowDigits(Abs(v), j) = Zero                 \* v = 0 mod 10^j
\* v/10^j is even, for a multiple v:  v*5 = (v/10^j)*5*10^j is a multiple of 10^(j+1) iff v/10^j is even
IsEvenMultiple(v, j) == LowDigits(Abs(Times(v, I(5))), j + 1) = Zero

ModeRule(x, v, j, mode) ==
  LET u == Pow10(j)
      twice == Times(I(2), Abs(Minus(v, x)))          \* 2*|v - x| against u: nearer / tie / farther
  IN CASE mode = "ToPositiveInfinity" -> LE(x, v)
       [] mode = "ToNegativeInfinity" -> LE(v, x)
       [] mode = "ToZero" -> LE(Abs(v), Abs(x)) /\ (v = Zero \/ Sgn(v) = Sgn(x))
       [] mode = "AwayFromZero" -> LE(Abs(x), Abs(v)) /\ Sgn(v) = Sgn(x)
       [] mode = "ToNearestMidpointTowardZero" -> LT(twice, u) \/ (twice = u /\ LT(Abs(v), Abs(x)))
       [] mode = "ToNearestMidpointAwayFromZero" -> LT(twice, u) \/ (twice = u /\ LT(Abs(x), Abs(v)))
       [] mode = "ToNearestMidpointToEven" -> LT(twice, u) \/ (twice = u /\ IsEvenMultiple(v, j))
\* v is THE rounding of x (over the unbounded integers; MCDecimalRound: exactly one v for every x)
IsRounding(x, dp, mode, v) ==
  LET j == SD - dp
  IN /\ IsMultiple(v, j)
     /\ LT(Abs(Minus(v, x)), Pow10(j))
     /\ ModeRule(x, v, j, mode)
\* the two multiples of the unit around x (x itself if it is one): the only possible roundings
RoundCandidates(x, dp) ==
  LET j == SD - dp
      m == LowDigits(Abs(x), j)
      inner == IF IsNeg(x) THEN Plus(x, m) ELSE Minus(x, m)              \* toward zero
      outer == IF IsNeg(x) THEN Minus(inner, Pow10(j)) ELSE Plus(inner, Pow10(j))
  IN IF m = Zero THEN {x} ELSE {inner, outer}
\* "the multiple prescribed by the mode, or failure iff that value is not representable"
\* [lo, hi] is the target range (the type's own range, or the narrower type's for truncation)
RoundPostIn(x, dp, mode, out, r, lo, hi) ==
  /\ dp \in 0..SD /\ mode \in Modes
  /\ CASE out = "some" -> LE(lo, r) /\ LE(r, hi) /\ IsRounding(x, dp, mode, r)
       [] out = "none" -> \E w \in RoundCandidates(x, dp) : IsRounding(x, dp, mode, w) /\ ~(LE(lo, w) /\ LE(w, hi))
       [] OTHER -> FALSE
RoundPost(x, dp, mode, out, r) == RoundPostIn(x, dp, mode, out, r, MinV, MaxV)
FloorPost(x, out, r)   == RoundPost(x, 0, "ToNegativeInfinity", out, r)
CeilingPost(x, out, r) == RoundPost(x, 0, "ToPositiveInfinity", out, r)

-----------------------------------------------------------------------------
(* C26: roots and powers *)

\* n-th root truncated toward zero: fails only for n = 0 or an even root of a negative value
RootPost(x, n, out, r) ==
  LET undefined == n = 0 \/ (IsNeg(x) /\ n % 2 = 0)
  IN CASE out = "none" -> undefined
       [] out = "some" ->
            /\ ~undefined /\ InRange(r)
            /\ (r = Zero \/ Sgn(r) = Sgn(x))
            /\ LET t == Times(Abs(x), Pow10(SD * (n - 1)))     \* |x| * S^(n-1)  (value^(1/n) in sub-units)
               IN LE(PowN(Abs(r), n), t) /\ LT(t, PowN(Plus(Abs(r), One), n))
       [] OTHER -> FALSE

\* number of times the small prime p divides a > 0, and the cofactor: <<count, rest>>
RECURSIVE Strip(_, _)
Strip(a, p) == IF ModS(a, p) # 0 THEN <<0, a>>
               ELSE LET q == Strip(DivS(a, p), p) IN <<q[1] + 1, q[2]>>

IsEvenNum(e) == ModS(Abs(e), 2) = 0

(* Integer power x^e (x in sub-units, e an integer).  The exact value in sub-units is
     e >= 1:  x^e / S^(e-1)            e <= -1:  S^(|e|+1) / x^|e|            e = 0:  S.
   Rule of the statement: the exact result whenever it is representable (an integer number of
   sub-units within range); otherwise either failure or a value that does not exceed the exact
   result in magnitude (and is not of the opposite sign); never a panic.
   PowiExact(x, E, neg) classifies: [rep |-> exact value representable, val |-> it (if rep),
   num, den |-> exact = num/den with den > 0].                                              *)
PowiExact(x, E, neg) ==
  IF ~neg
  THEN LET num == PowN(x, E)
           den == Pow10(SD * (E - 1))
           divisible == LowDigits(Abs(num), SD * (E - 1)) = Zero
           inrange == IF IsNeg(num) THEN LE(Times(MinV, den), num) ELSE LE(num, Times(MaxV, den))
       IN [rep |-> divisible /\ inrange, num |-> num, den |-> den, known |-> FALSE, val |-> Zero]
  ELSE \* S^(E+1) / x^E = 10^M / (sign * 2^(a*E) * 5^(b*E) * c^E),  M = SD*(E+1)
       LET ax == Abs(x)
           m == SD * (E + 1)
           s2 == Strip(ax, 2)
           s5 == Strip(s2[2], 5)
           divisible == s5[2] = One /\ s2[1] * E <= m /\ s5[1] * E <= m
           q == IF divisible THEN Times(PowN(I(2), m - s2[1] * E), PowN(I(5), m - s5[1] * E)) ELSE Zero
           sq == IF IsNeg(x) /\ E % 2 = 1 THEN Neg(q) ELSE q
           den == PowN(ax, E)
           num == IF IsNeg(x) /\ E % 2 = 1 THEN Neg(Pow10(m)) ELSE Pow10(m)
       IN [rep |-> divisible /\ InRange(sq), num |-> num, den |-> den, known |-> TRUE, val |-> sq]

\* r does not exceed num/den in magnitude and is not of the opposite sign
NotBeyond(r, num, den) == LE(Times(Abs(r), den), Abs(num)) /\ (r = Zero \/ Sgn(r) = Sgn(num))

\* E = |e| as a TLC integer; neg = (e < 0).  Full rule; the caller bounds E (cost).
PowiPostSmall(x, E, neg, out, r) ==
  IF E = 0 THEN out = "some" /\ r = S                                  \* x^0 = 1
  ELSE IF x = Zero THEN (IF neg THEN out = "none" ELSE out = "some" /\ r = Zero)     \* 1/0 undefined; 0^e = 0
  ELSE LET ex == PowiExact(x, E, neg)
       IN CASE out = "some" -> /\ InRange(r)
                               /\ IF ex.rep THEN (IF ex.known THEN r = ex.val ELSE Times(r, ex.den) = ex.num)
                                  ELSE NotBeyond(r, ex.num, ex.den)
            [] out = "none" -> ~ex.rep
            [] OTHER -> FALSE
\* exponents of any size for the bases whose powers are trivially known: 0, +-1
PowiPostUnit(x, eIsZero, eNeg, eEven, out, r) ==
  IF eIsZero THEN out = "some" /\ r = S
  ELSE IF x = Zero THEN (IF eNeg THEN out = "none" ELSE out = "some" /\ r = Zero)
  ELSE (x = S \/ x = Neg(S)) /\ out = "some" /\ r = (IF x = S \/ eEven THEN S ELSE Neg(S))
\* anything else (huge exponent with |x| not in {0, 1}): not decidable by enumeration here; only
\* "no panic, result in range and not of the opposite sign" is required (stated in the evidence)
PowiPostWeak(x, eNeg, eEven, out, r) ==
  CASE out = "some" -> InRange(r) /\ (r = Zero \/ Sgn(r) = (IF IsNeg(x) /\ ~eEven THEN -1 ELSE 1))
    [] out = "none" -> TRUE
    [] OTHER -> FALSE

-----------------------------------------------------------------------------
(* C27: text.   Numeral ::= [+-]? digit+ ( '.' digit{1..SD} )?   over code points.          *)
IsDigit(c) == c >= 48 /\ c <= 57
AllDigits(s) == \A i \in 1..Len(s) : IsDigit(s[i])
HasSign(cp) == Len(cp) >= 1 /\ (cp[1] = 43 \/ cp[1] = 45)
Body(cp) == IF HasSign(cp) THEN SubSeq(cp, 2, Len(cp)) ELSE cp
RECURSIVE FirstDot(_, _)        \* index of the first '.' at or after i, 0 if none
FirstDot(s, i) == IF i > Len(s) THEN 0 ELSE IF s[i] = 46 THEN i ELSE FirstDot(s, i + 1)
IntPart(cp)  == LET b == Body(cp) d == FirstDot(b, 1) IN IF d = 0 THEN b ELSE SubSeq(b, 1, d - 1)
HasDot(cp)   == FirstDot(Body(cp), 1) # 0
FracPart(cp) == LET b == Body(cp) d == FirstDot(b, 1) IN IF d = 0 THEN <<>> ELSE SubSeq(b, d + 1, Len(b))
IsNumeral(cp) ==
  LET ip == IntPart(cp)
      fp == FracPart(cp)
  IN /\ ip # <<>> /\ AllDigits(ip)
     /\ (HasDot(cp) => /\ fp # <<>> /\ Len(fp) <= SD /\ AllDigits(fp))
\* value of the digit string s[1..n], folded four digits at a time (10^4 per step)
Dv(s, i) == s[i] - 48
RECURSIVE Fold(_, _)
Fold(s, n) == IF n = 0 THEN Zero
              ELSE IF n = 1 THEN I(Dv(s, 1))
              ELSE IF n = 2 THEN I(Dv(s, 1) * 10 + Dv(s, 2))
              ELSE IF n = 3 THEN I(Dv(s, 1) * 100 + Dv(s, 2) * 10 + Dv(s, 3))
              ELSE LET p == Fold(s, n - 4)
                   IN Plus(Times(p, I(10000)), I(Dv(s, n - 3) * 1000 + Dv(s, n - 2) * 100 + Dv(s, n - 1) * 10 + Dv(s, n)))
\* exact value of a numeral in sub-units
NumeralValue(cp) ==
  LET ip == IntPart(cp)
      fp == FracPart(cp)
      mag == Plus(Times(Fold(ip, Len(ip)), S), Times(Fold(fp, Len(fp)), Pow10(SD - Len(fp))))
  IN IF HasSign(cp) /\ cp[1] = 45 THEN Neg(mag) ELSE mag
\* parsing accepts exactly the numerals whose value is in range, and yields that value
ParsePost(cp, out, r) ==
  CASE out = "ok"  -> IsNumeral(cp) /\ LET v == NumeralValue(cp) IN InRange(v) /\ r = v
    [] out = "err" -> ~(IsNumeral(cp) /\ InRange(NumeralValue(cp)))
    [] OTHER -> FALSE
\* printing yields a numeral of that exact value (so parsing it gives the value back) ...
PrintPost(x, out, cp) == out = "ok" /\ IsNumeral(cp) /\ NumeralValue(cp) = x
\* ... in canonical form: '-' exactly for negative values, no '+', no leading zeros, no trailing
\* zeros in the fraction (and so no fraction for integers)
IsCanonical(x, cp) ==
  /\ (HasSign(cp) <=> IsNeg(x)) /\ (HasSign(cp) => cp[1] = 45)
  /\ LET ip == IntPart(cp) IN Len(ip) = 1 \/ ip[1] # 48
  /\ LET fp == FracPart(cp) IN HasDot(cp) => (fp # <<>> /\ fp[Len(fp)] # 48)
=============================================================================

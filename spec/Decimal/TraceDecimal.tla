---------------------------- MODULE TraceDecimal ----------------------------
(* T for C24-C27: recorded calls of the real Decimal / PreciseDecimal functions (harness vh_num
   arith | round | rootpow | text, mode record) are accepted iff they satisfy the post-conditions
   of Decimal.tla / DecimalPair.tla instantiated with BigInt at full scale:
     N = Decimal (18 places, 192 bits),  W = PreciseDecimal (36 places, 256 bits).
   The range / scale constants are literals (TLC re-evaluates computed constants at every use);
   ASSUME PairConstsOK re-derives them once with BigInt arithmetic.                           *)
EXTENDS BigInt, TraceIO
DS   == [s |-> 1, l |-> <<0, 0, 0, 0, 100>>]      \* 10^18
DMax == [s |-> 1, l |-> <<6447, 1725, 2320, 7722, 5117, 2080, 3833, 1160, 8947, 1917, 4038, 6933, 867, 3855, 31>>]      \* 2^191 - 1
DMin == [s |-> -1, l |-> <<6448, 1725, 2320, 7722, 5117, 2080, 3833, 1160, 8947, 1917, 4038, 6933, 867, 3855, 31>>]      \* -2^191
PS   == [s |-> 1, l |-> <<0, 0, 0, 0, 0, 0, 0, 0, 0, 1>>]      \* 10^36
PMax == [s |-> 1, l |-> <<9967, 6481, 9565, 2003, 2879, 197, 282, 3282, 9923, 6634, 5392, 3439, 2504, 8549, 7117, 8097, 1865, 446, 7896, 5>>]      \* 2^255 - 1
PMin == [s |-> -1, l |-> <<9968, 6481, 9565, 2003, 2879, 197, 282, 3282, 9923, 6634, 5392, 3439, 2504, 8549, 7117, 8097, 1865, 446, 7896, 5>>]      \* -2^255
INSTANCE DecimalPair WITH I <- FromInt, Plus <- Add, Minus <- Sub, Times <- Mul, LE <- Leq,
                          LowDigits <- LowDigits, Pow10 <- Pow10, DivS <- DivSmall, ModS <- ModSmall,
                          WSD <- 36, WBITS <- 256, WS <- PS, WMax <- PMax, WMin <- PMin,
                          NSD <- 18, NBITS <- 192, NS <- DS, NMax <- DMax, NMin <- DMin
ASSUME PairConstsOK
VARIABLE l

Wf(b) == IsBig(b)
WfCp(cp) == \A i \in 1..Len(cp) : cp[i] \in 0..1114111
IsD(ev) == ev.ty = "d"

\* ---- C24
BinPost(ev) ==
  /\ Wf(ev.x) /\ Wf(ev.y) /\ Wf(ev.r) /\ ev.ty \in {"d", "p"}
  /\ CASE ev.a = "add" -> IF IsD(ev) THEN N!AddPost(ev.x, ev.y, ev.out, ev.r) ELSE W!AddPost(ev.x, ev.y, ev.out, ev.r)
       [] ev.a = "sub" -> IF IsD(ev) THEN N!SubPost(ev.x, ev.y, ev.out, ev.r) ELSE W!SubPost(ev.x, ev.y, ev.out, ev.r)
       [] ev.a = "mul" -> IF IsD(ev) THEN N!MulPost(ev.x, ev.y, ev.out, ev.r) ELSE W!MulPost(ev.x, ev.y, ev.out, ev.r)
       [] ev.a = "div" -> IF IsD(ev) THEN N!DivPost(ev.x, ev.y, ev.out, ev.r) ELSE W!DivPost(ev.x, ev.y, ev.out, ev.r)
\* operands must themselves be values of the type
OperandsIn(ev) == IF IsD(ev) THEN N!InRange(ev.x) /\ N!InRange(ev.y) ELSE W!InRange(ev.x) /\ W!InRange(ev.y)
UnPost(ev) ==
  /\ Wf(ev.x) /\ Wf(ev.r) /\ ev.ty \in {"d", "p"}
  /\ CASE ev.a = "neg" -> IF IsD(ev) THEN N!NegPost(ev.x, ev.out, ev.r) ELSE W!NegPost(ev.x, ev.out, ev.r)
       [] ev.a = "abs" -> IF IsD(ev) THEN N!AbsPost(ev.x, ev.out, ev.r) ELSE W!AbsPost(ev.x, ev.out, ev.r)
FromIntOk(ev) == /\ Wf(ev.x) /\ Wf(ev.r) /\ ev.ty \in {"d", "p"}
                 /\ IF IsD(ev) THEN N!FromIntPost(ev.x, ev.out, ev.r) ELSE W!FromIntPost(ev.x, ev.out, ev.r)

\* ---- C25
RoundOk(ev) ==
  /\ Wf(ev.x) /\ Wf(ev.r) /\ ev.ty \in {"d", "p"}
  /\ CASE ev.a = "round" -> IF IsD(ev) THEN N!RoundPost(ev.x, ev.dp, ev.mode, ev.out, ev.r) ELSE W!RoundPost(ev.x, ev.dp, ev.mode, ev.out, ev.r)
       [] ev.a = "floor" -> IF IsD(ev) THEN N!FloorPost(ev.x, ev.out, ev.r) ELSE W!FloorPost(ev.x, ev.out, ev.r)
       [] ev.a = "ceiling" -> IF IsD(ev) THEN N!CeilingPost(ev.x, ev.out, ev.r) ELSE W!CeilingPost(ev.x, ev.out, ev.r)
       \* for_withdrawal(divisibility, Rounded(mode)) is rounding to `divisibility` places; Exact is the identity
       [] ev.a = "withdraw" -> IF ev.mode = "Exact" THEN ev.out = "some" /\ ev.r = ev.x
                               ELSE N!RoundPost(ev.x, ev.dp, ev.mode, ev.out, ev.r)

\* ---- C26
RootOk(ev) == /\ Wf(ev.x) /\ Wf(ev.r) /\ ev.ty \in {"d", "p"} /\ ev.n >= 0
              /\ (ev.via = "sqrt" => ev.n = 2) /\ (ev.via = "cbrt" => ev.n = 3)
              /\ IF IsD(ev) THEN N!RootPost(ev.x, ev.n, ev.out, ev.r) ELSE W!RootPost(ev.x, ev.n, ev.out, ev.r)
\* exponent: ev.e (any i64) and, when |e| <= 100000, the same number as a TLC integer ev.es
ExpConsistent(ev) == Wf(ev.e) /\ IF ev.big THEN Lt(FromInt(100000), Abs(ev.e)) ELSE FromInt(ev.es) = ev.e
EAbs(ev) == IF ev.es < 0 THEN -ev.es ELSE ev.es
\* the full rule is evaluated when x^|e| stays below ~400 decimal digits (cost bound)
Decidable(ev, sd) == ~ev.big /\ EAbs(ev) * Len(ev.x.l) <= 100 /\ sd * (EAbs(ev) + 1) <= 1500
PowiOk(ev) ==
  /\ Wf(ev.x) /\ Wf(ev.r) /\ ev.ty \in {"d", "p"} /\ ExpConsistent(ev)
  /\ LET eNeg == ev.e.s = -1
         eZero == ev.e.s = 0
         eEven == ModSmall(Abs(ev.e), 2) = 0
     IN IF IsD(ev)
        THEN (IF eZero \/ ev.x = Zero \/ ev.x = DS \/ ev.x = Neg(DS) THEN N!PowiPostUnit(ev.x, eZero, eNeg, eEven, ev.out, ev.r)
              ELSE IF Decidable(ev, 18) THEN N!PowiPostSmall(ev.x, EAbs(ev), eNeg, ev.out, ev.r)
              ELSE N!PowiPostWeak(ev.x, eNeg, eEven, ev.out, ev.r))
        ELSE (IF eZero \/ ev.x = Zero \/ ev.x = PS \/ ev.x = Neg(PS) THEN W!PowiPostUnit(ev.x, eZero, eNeg, eEven, ev.out, ev.r)
              ELSE IF Decidable(ev, 36) THEN W!PowiPostSmall(ev.x, EAbs(ev), eNeg, ev.out, ev.r)
              ELSE W!PowiPostWeak(ev.x, eNeg, eEven, ev.out, ev.r))
PowiDecided(ev) == ev.e.s = 0 \/ ev.x = Zero \/ Abs(ev.x) = (IF IsD(ev) THEN DS ELSE PS) \/ Decidable(ev, IF IsD(ev) THEN 18 ELSE 36)

\* ---- C27
ParseOk(ev) == /\ WfCp(ev.cp) /\ Wf(ev.r) /\ ev.ty \in {"d", "p"}
               /\ IF IsD(ev) THEN N!ParsePost(ev.cp, ev.out, ev.r) ELSE W!ParsePost(ev.cp, ev.out, ev.r)
PrintOk(ev) == /\ WfCp(ev.cp) /\ Wf(ev.x) /\ ev.ty \in {"d", "p"}
               /\ IF IsD(ev) THEN N!PrintPost(ev.x, ev.out, ev.cp) ELSE W!PrintPost(ev.x, ev.out, ev.cp)
PrintCanonical(ev) == IF IsD(ev) THEN N!IsCanonical(ev.x, ev.cp) ELSE W!IsCanonical(ev.x, ev.cp)

Ok(ev) ==
  CASE ev.a \in {"add", "sub", "mul", "div"} -> BinPost(ev) /\ OperandsIn(ev)
    [] ev.a \in {"neg", "abs"} -> UnPost(ev)
    [] ev.a = "from_int" -> FromIntOk(ev)
    [] ev.a = "widen" -> Wf(ev.x) /\ Wf(ev.r) /\ N!InRange(ev.x) /\ WidenPost(ev.x, ev.out, ev.r)
    [] ev.a = "narrow" -> Wf(ev.x) /\ Wf(ev.r) /\ W!InRange(ev.x) /\ NarrowPost(ev.x, ev.out, ev.r)
    [] ev.a \in {"round", "floor", "ceiling", "withdraw"} -> RoundOk(ev)
    [] ev.a = "truncate" -> Wf(ev.x) /\ Wf(ev.r) /\ TruncatePost(ev.x, ev.mode, ev.out, ev.r)
    [] ev.a = "root" -> RootOk(ev)
    [] ev.a = "powi" -> PowiOk(ev)
    [] ev.a = "parse" -> ParseOk(ev)
    [] ev.a = "print" -> PrintOk(ev) /\ PrintCanonical(ev)
    [] OTHER -> FALSE

\* ---- input class of a rejected call: the stable part of the violation key
TyName(ev) == IF ev.ty = "d" THEN "Decimal" ELSE "PreciseDecimal"
MinOf(ev) == IF IsD(ev) THEN DMin ELSE PMin
\* the exact (truncated) result of the call is exactly MIN
ResultIsMin(ev) ==
  CASE ev.a = "add" -> Add(ev.x, ev.y) = MinOf(ev)
    [] ev.a = "sub" -> Sub(ev.x, ev.y) = MinOf(ev)
    [] ev.a = "mul" -> IF IsD(ev) THEN N!IsTruncQuot(Mul(ev.x, ev.y), DS, DMin) ELSE W!IsTruncQuot(Mul(ev.x, ev.y), PS, PMin)
    [] ev.a = "div" -> ev.y # Zero /\ (IF IsD(ev) THEN N!IsTruncQuot(Mul(ev.x, DS), ev.y, DMin) ELSE W!IsTruncQuot(Mul(ev.x, PS), ev.y, PMin))
    [] OTHER -> FALSE
SignInFraction(cp) == \E i \in 1..(Len(cp) - 1) : cp[i] = 46 /\ (cp[i + 1] = 43 \/ cp[i + 1] = 45)
Class(ev) ==
  CASE ev.a \in {"add", "sub", "mul", "div"} ->
         IF ev.out = "none" /\ Wf(ev.x) /\ Wf(ev.y) /\ ResultIsMin(ev) THEN "result equals MIN"
         ELSE TyName(ev) \o " checked_" \o ev.a \o " " \o ev.out
    [] ev.a \in {"neg", "abs"} -> TyName(ev) \o " checked_" \o ev.a \o " " \o ev.out
    [] ev.a = "from_int" -> TyName(ev) \o " from " \o ev.ity \o " " \o ev.out
    [] ev.a = "widen" -> "PreciseDecimal from Decimal " \o ev.out
    [] ev.a = "narrow" -> IF ev.out = "none" /\ Wf(ev.x) /\ N!IsTruncQuot(ev.x, K, DMin) THEN "result equals MIN"
                          ELSE "Decimal try_from PreciseDecimal " \o ev.out
    [] ev.a \in {"round", "floor", "ceiling"} -> TyName(ev) \o " checked_" \o ev.a \o " " \o (IF ev.a = "round" THEN ev.mode \o " " ELSE "") \o ev.out
    [] ev.a = "withdraw" -> "Decimal for_withdrawal " \o ev.mode \o " " \o ev.out
    [] ev.a = "truncate" -> "PreciseDecimal checked_truncate " \o ev.mode \o " " \o ev.out
    [] ev.a = "root" -> TyName(ev) \o " checked_" \o ev.via \o " " \o ev.out
    [] ev.a = "powi" -> IF ev.out = "none" /\ Wf(ev.x) /\ Wf(ev.e) /\ Abs(ev.x) = (IF IsD(ev) THEN DS ELSE PS) /\ ev.e = Neg(Pow2(63))
                        THEN "checked_powi(i64::MIN) of +-ONE is None"
                        ELSE TyName(ev) \o " checked_powi " \o ev.out \o
                        (IF ev.big THEN " huge exponent" ELSE "") \o
                        (IF Wf(ev.x) /\ Abs(ev.x) = (IF IsD(ev) THEN DS ELSE PS) THEN " base +-1" ELSE "")
    [] ev.a = "parse" -> IF ev.out = "ok" /\ SignInFraction(ev.cp) THEN "from_str sign in fractional part"
                         ELSE TyName(ev) \o " from_str " \o ev.out
    [] ev.a = "print" -> IF PrintOk(ev) THEN TyName(ev) \o " to_string not canonical" ELSE TyName(ev) \o " to_string " \o ev.out
    [] OTHER -> "unknown event"

TInit == l = 1
TNext == /\ l <= Len(Rec)
         /\ (IF Ok(Rec[l]) THEN TRUE ELSE PrintT(<<"BAD", l>>) /\ PrintT(<<"CLASS", l, Class(Rec[l])>>))
         /\ (IF Rec[l].a = "powi" /\ ~PowiDecided(Rec[l]) THEN PrintT(<<"WEAK", l>>) ELSE TRUE)
         /\ l' = l + 1
TSpec == TInit /\ [][TNext]_l
Post == PrintT(<<"DONE", TLCGet("stats").diameter - 1>>)
=============================================================================

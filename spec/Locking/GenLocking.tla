----------------------------- MODULE GenLocking -----------------------------
(* C51, G: behaviours of Locking (seeded simulation from every kind of initial state: items created locked or
   unlocked, present or absent), one JSON line each: the initial state, then per step the operation, the caller's
   badges, the outcome class and the state of every item afterwards.                                  *)
EXTENDS Locking, Json, Sequences
CONSTANT K
VARIABLE hist
Entry(op, i, v, c, vd, lk, vl) == [op |-> op, item |-> i, v |-> v, c |-> c, vd |-> vd, locked |-> lk, val |-> vl]
GInit == Init /\ hist = <<Entry("init", "-", 0, {}, "ok", locked, val)>>
GNext == /\ Len(hist) <= K
         /\ Next
         /\ hist' = Append(hist, Entry(ret'[1], ret'[2], ret'[3], ret'[4], ret'[5], locked', val'))
GSpec == GInit /\ [][GNext]_<<vars, hist>>
\* TLC's simulator evaluates the invariant on EVERY successor of the state it is in; exactly one successor per walk
\* (a fixed last step: nobody tries to set the role) is printed, so that one line = one random walk of K - 1 steps
Last == hist[K + 1]
Emit == Len(hist) = K + 1 /\ Last.op = "update" /\ Last.item = "role" /\ Last.v = 1 /\ Last.c = {}
          => PrintT(<<"B", ToJson(hist)>>)
=============================================================================

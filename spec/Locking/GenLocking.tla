----------------------------- MODULE GenLocking -----------------------------
(* C51, G: behaviours of Locking (seeded simulation from every kind of initial state: items created locked or
   unlocked, present or absent), one JSON line each: the initial state, then per step the operation, the caller's
   badges, the outcome class and the state of every item afterwards.                                  *)
EXTENDS Locking, Json, Sequences
CONSTANT K
VARIABLE hist
Entry(op, i, v, c, vd, lk, vl) == [op |-> op, item |-> i, v |-> v, c |-> c, vd |-> vd, locked |-> lk, val |-> vl]
GInit == Init /\ hist = <<Entry("init", "-", 0, {}, "ok", locked, val)>>
GStep(N) == /\ Len(hist) <= K
            /\ N
            /\ hist' = Append(hist, Entry(ret'[1], ret'[2], ret'[3], ret'[4], ret'[5], locked', val'))
GNext == GStep(Next)
GSpec == GInit /\ [][GNext]_<<vars, hist>>
\* TLC's simulator evaluates the invariant on EVERY successor of the state it is in; exactly one successor per walk
\* (a fixed last step: nobody tries to set the role) is printed, so that one line = one random walk of K - 1 steps
Last == hist[K + 1]
Emit == Len(hist) = K + 1 /\ Last.op = "update" /\ Last.item = "role" /\ Last.v = 1 /\ Last.c = {}
          => PrintT(<<"B", ToJson(hist)>>)
\* Systematic family (quick and thorough): EVERY operation x item x value x caller as a one-step behaviour from the
\* all-unlocked and from the all-locked state (the product lock state x operation x caller class is never sampled)
Present == [i \in Items |-> 1]
AbsentEntries == [i \in Items |-> IF i \in {"kv", "kvs", "md", "roy"} THEN 0 ELSE 1]
BInit == /\ GInit
         /\ locked \in {[i \in Items |-> FALSE], [i \in Items |-> i # "role"]}
         /\ val \in {Present, AbsentEntries}
BSpec == BInit /\ [][GNext]_<<vars, hist>>
\* ... and every operation x caller right after a transaction locked the item it targets or any other item
\* (present or absent entry), restricted in the second step to the operations on that item
LockFirst == IF Len(hist) = 1 THEN GStep(\E i \in Lockable : Lock(i, {1})) ELSE GStep(Next /\ ret'[2] = hist[2].item)
B2Spec == /\ GInit /\ locked = [i \in Items |-> FALSE] /\ val \in {Present, AbsentEntries}
          /\ [][LockFirst]_<<vars, hist>>
EmitAll == Len(hist) = K + 1 => PrintT(<<"B", ToJson(hist)>>)
=============================================================================

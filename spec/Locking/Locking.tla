------------------------------ MODULE Locking ------------------------------
(* C51.  Lockable state of one global component and the operations on it, as coded in
     radix-engine/src/system/system.rs            (field_lock / FieldLocked, key_value_entry_lock / KeyValueEntryLocked)
     radix-engine/src/object_modules/metadata     (set / remove / lock)
     radix-engine/src/object_modules/royalty      (set_royalty / lock_royalty)
     radix-engine/src/object_modules/role_assignment (set_owner_role / lock_owner_role / set)

   Items:  "field"  an object field (test blueprint, public write / lock methods)
           "kv"     an entry of a key-value COLLECTION of the object (actor_open_key_value_entry; methods protected by the
                    owner role)
           "kvs"    an entry of a standalone KeyValueStore node owned by the object (key_value_store_open_entry - a
                    different code path with its own lock check; methods protected by the owner role)
           "md"     a metadata entry               (metadata_setter / metadata_locker roles, unassigned -> owner)
           "roy"    the royalty amount of a method (royalty_setter / royalty_locker roles, unassigned -> owner)
           "owner"  the owner role                 (updater = the owner itself; lock_owner_role sets updater None
                                                    and locks the field)
           "role"   an ordinary role - NOT lockable; here to show that role updates stay under the owner's control
   A value is a small number (0 = absent for kv / md / roy).  The owner rule with value v is require(badge v);
   a caller is the set of badges it presents, so changing the owner changes who may call.           *)
EXTENDS Integers, FiniteSets, TLC
CONSTANT Items          \* {"field", "kv", "kvs", "md", "roy", "owner", "role"} or a subset containing "owner" and "role"
Lockable == Items \ {"role"}
Badges == {1, 2}
Callers == SUBSET Badges                 \* {} = nobody's badge, {1,2} = every badge
Vals == {1, 2}
VARIABLES locked,     \* [Items -> BOOLEAN]
          val,        \* [Items -> 0..2]
          ret         \* outcome of the last operation: <<op, item, value, caller, "ok" | "auth" | "locked">>
vars == <<locked, val, ret>>

OwnerOk(c) == val["owner"] \in c
\* who may perform the operations on an item
MayUpdate(i, c) ==
  CASE i = "field" -> TRUE                                  \* public methods of the test blueprint
    [] i = "owner" -> ~locked["owner"] /\ OwnerOk(c)           \* updater Owner; after the lock: updater None = DenyAll
    [] OTHER -> OwnerOk(c)                                     \* kv: owner-role methods; md / roy / role: fallback to owner
\* outcome class of an attempt to change item i: authorization is checked first, then the lock
Verdict(i, c) == IF ~MayUpdate(i, c) THEN "auth" ELSE IF locked[i] THEN "locked" ELSE "ok"

Do(op, i, v, c, newVal, newLocked) ==
  LET vd == Verdict(i, c)
  IN /\ ret' = <<op, i, v, c, vd>>
     /\ IF vd = "ok" THEN val' = [val EXCEPT ![i] = newVal] /\ locked' = [locked EXCEPT ![i] = newLocked]
        ELSE UNCHANGED <<val, locked>>
\* write a value
Update(i, v, c) == Do("update", i, v, c, v, locked[i])
\* remove: kv / md entries only
Remove(i, c) == i \in {"kv", "kvs", "md"} /\ Do("remove", i, 0, c, 0, locked[i])
\* lock (an absent kv / md entry can be locked too and then stays absent)
Lock(i, c) == i \in Lockable /\ Do("lock", i, 0, c, val[i], TRUE)
\* lock and write through the SAME substate handle (test blueprint field / kv): the write stores an unlocked
\* substate again, so the item ends up changed and NOT locked - it was never locked in any committed state
LockWrite(i, v, c) == i \in {"field", "kv", "kvs"} /\ Do("lockwrite", i, v, c, v, FALSE)
\* lock and then update as two calls of ONE transaction: the update meets the fresh lock (the owner role: DenyAll) and
\* fails, which fails the transaction and takes the lock back with it - nothing changes
LockTx(i, v, c) ==
  /\ i \in Lockable
  /\ ret' = <<"locktx", i, v, c, IF Verdict(i, c) # "ok" THEN Verdict(i, c) ELSE IF i = "owner" THEN "auth" ELSE "locked">>
  /\ UNCHANGED <<val, locked>>

Init == /\ locked \in [Items -> BOOLEAN] /\ ~locked["role"]
        /\ val \in [Items -> 0..2] /\ val["owner"] \in Vals /\ val["role"] \in Vals
        /\ ("field" \in Items => val["field"] \in Vals)
        /\ ret = <<"init", "-", 0, {}, "ok">>
Next == \E c \in Callers :
          \/ \E i \in Items, v \in Vals : Update(i, v, c)
          \/ \E i \in Items : Remove(i, c) \/ Lock(i, c)
          \/ \E i \in Items, v \in Vals : LockWrite(i, v, c) \/ LockTx(i, v, c)
Spec == Init /\ [][Next]_vars

---------------------------------------------------------------------------
\* C51: once locked, an item keeps its lock and its value, whoever calls with whatever badges
Sticky == [][\A i \in Lockable : locked[i] => locked'[i] /\ val'[i] = val[i]]_vars
\* every attempt on a locked item fails, for every caller
LockedRefusesAll == [][\A i \in Lockable : locked[ret'[2]] /\ ret'[2] = i /\ ret'[1] # "init" => ret'[5] # "ok"]_vars
\* nothing changes unless the operation succeeded
FailureChangesNothing == [][ret'[5] # "ok" => val' = val /\ locked' = locked]_vars
\* a successful operation touches only its item
OnlyTheItem == [][\A i \in Items : i # ret'[2] => val'[i] = val[i] /\ locked'[i] = locked[i]]_vars
\* a locked owner can never be used to regain control: nobody is authorized for owner updates any more
TypeOK == locked \in [Items -> BOOLEAN] /\ val \in [Items -> 0..2] /\ ~locked["role"]
=============================================================================

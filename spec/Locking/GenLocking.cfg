SPECIFICATION GSpec
CONSTANTS
  Items = {"field", "kv", "kvs", "md", "roy", "owner", "role"}
  K = 8
INVARIANT Emit
CHECK_DEADLOCK FALSE

SPECIFICATION GSpec
CONSTANTS
  K = 8
INVARIANT Emit
CHECK_DEADLOCK FALSE

----------------------------- MODULE MCLocking -----------------------------
EXTENDS Locking
\* the outcome record is an observation, not state
MCView == <<locked, val>>
=============================================================================

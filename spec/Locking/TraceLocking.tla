---------------------------- MODULE TraceLocking ----------------------------
(* C51, T: global monitor.  The harness records, for every committed transaction of a history (the repository's
   transaction scenarios under every protocol version, seeded histories on the test ledger), the field and
   key-value-entry substates the transaction wrote or deleted:  w = <<id, lk, v, t>>
     id  number of the substate (node, partition, key)      lk  1 iff its lock_status is Locked
     v   number of the substate's value bytes, -1 = deleted  t   1 iff the substate belongs to the transaction tracker
   The monitor keeps every substate it has ever seen locked together with its value and accepts a transaction
   only if every substate it writes that is known as locked is written locked and with the same value (Sticky
   of Locking.tla, for every item of the ledger at once).
   Exceptions, as coded: the transaction tracker's partitions are rings that are reset wholesale (they are not
   field / key-value locks of any object) - not monitored; protocol updates (genesis, flashes and protocol system
   transactions) are not transactions of any caller - event "flash" is accepted and refreshes the knowledge.   *)
EXTENDS TraceIO, Integers
VARIABLES l, lockedIds, lockedVals
Ev == Rec[l]
Monitored(w) == w[4] = 0
Keeps(w) == w[1] \in lockedIds => (w[2] = 1 /\ <<w[1], w[3]>> \in lockedVals)
Writes(ev) == {ev.w[k] : k \in {j \in DOMAIN ev.w : Monitored(ev.w[j])}}
NowLocked(ev) == {w \in Writes(ev) : w[2] = 1 /\ w[3] >= 0}
TInit == l = 1 /\ lockedIds = {} /\ lockedVals = {}
TTx == /\ l <= Len(Rec) /\ Ev.a = "tx"
       /\ \A w \in Writes(Ev) : Keeps(w)
       /\ lockedIds' = lockedIds \cup {w[1] : w \in NowLocked(Ev)}
       /\ lockedVals' = lockedVals \cup {<<w[1], w[3]>> : w \in NowLocked(Ev)}
       /\ l' = l + 1
TFlash == /\ l <= Len(Rec) /\ Ev.a = "flash"
          /\ LET touched == {w[1] : w \in Writes(Ev)}
             IN /\ lockedIds' = (lockedIds \ touched) \cup {w[1] : w \in NowLocked(Ev)}
                /\ lockedVals' = {p \in lockedVals : p[1] \notin touched} \cup {<<w[1], w[3]>> : w \in NowLocked(Ev)}
          /\ l' = l + 1
TNext == TTx \/ TFlash
TSpec == TInit /\ [][TNext]_<<l, lockedIds, lockedVals>>
=============================================================================

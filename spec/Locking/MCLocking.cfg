SPECIFICATION Spec
INVARIANT TypeOK
PROPERTIES Sticky LockedRefusesAll FailureChangesNothing OnlyTheItem
CHECK_DEADLOCK FALSE
VIEW MCView

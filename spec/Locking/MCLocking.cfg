SPECIFICATION Spec
CONSTANTS
  Items = {"field", "kv", "kvs", "md", "roy", "owner", "role"}
INVARIANT TypeOK
PROPERTIES Sticky LockedRefusesAll FailureChangesNothing OnlyTheItem
CHECK_DEADLOCK FALSE
VIEW MCView

SPECIFICATION BSpec
CONSTANTS
  Items = {"field", "kv", "kvs", "md", "roy", "owner", "role"}
  K = 1
INVARIANT EmitAll
CHECK_DEADLOCK FALSE

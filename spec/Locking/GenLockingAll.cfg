SPECIFICATION BSpec
CONSTANTS
  K = 1
INVARIANT EmitAll
CHECK_DEADLOCK FALSE

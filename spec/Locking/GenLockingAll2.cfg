SPECIFICATION B2Spec
CONSTANTS
  K = 2
INVARIANT EmitAll
CHECK_DEADLOCK FALSE

SPECIFICATION B2Spec
CONSTANTS
  Items = {"field", "kv", "kvs", "md", "roy", "owner", "role"}
  K = 2
INVARIANT EmitAll
CHECK_DEADLOCK FALSE

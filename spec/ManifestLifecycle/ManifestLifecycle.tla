-------------------------- MODULE ManifestLifecycle --------------------------
(* C36.  Lifecycle of the ids a manifest declares and uses (buckets, proofs, address reservations,
   named addresses, blobs, child intents) and the kind-specific shape rules, as enforced by
   StaticManifestInterpreter (radix-transactions/src/manifest/static_manifest_interpreter.rs).

   A manifest is [kind, pre, nc, ins]:
     kind  "v1" | "v2" | "sub" | "system"   (TransactionManifestV1 / V2, SubintentManifestV2,
                                              SystemTransactionManifestV1)
     pre   number of pre-allocated addresses (system manifests): reservations 0..pre-1 exist from the start
     nc    number of declared child subintents (v2 / sub)
     ins   sequence of instructions, each a record with field op:
       take | return b | burn b | proof_b b | proof_az | pop | push p | clone p | drop p | drop_all
       | drop_named | drop_az | drop_az_regular | drop_az_sig (DROP_AUTH_ZONE_*PROOFS: no named proof is touched)
       | alloc | assert_next | assert_bucket b | verify_parent
       | call  [tgt, bs, ps, rs, as, blob]      tgt = -1 (static address) or a named-address index,
       | yield_parent [bs, ps] | yield_child [child, bs, ps]
                                                bs/ps/rs/as = sequences of bucket / proof / reservation /
                                                named-address indices in argument order,
                                                blob = 0 none, 1 a declared blob, 2 an undeclared blob
   Ids are the creation indices (the n-th TAKE creates bucket n-1, ...), as in compiled manifests.

   Two formulations are given and proved equal by TLC on a bounded universe:
     StaticOK  - declarative, over the whole sequence (what the property states)
     Run       - the incremental automaton (how the interpreter works).
   R is the rule set: [dangling, blobs, dynaddr, assertions] (ValidationRuleset; the bucket/proof
   lock rule is part of every rule set).                                                   *)
EXTENDS Integers, Sequences, FiniteSets

RulesAll     == [dangling |-> TRUE,  blobs |-> TRUE,  dynaddr |-> TRUE,  assertions |-> TRUE]     \* all() = cuttlefish()
RulesBabylon == [dangling |-> FALSE, blobs |-> FALSE, dynaddr |-> FALSE, assertions |-> FALSE]    \* babylon_equivalent()

IsSub(kind) == kind = "sub"
IsInvocation(i) == i.op \in {"call", "yield_parent", "yield_child"}
Arg(i, f) == IF f \in DOMAIN i THEN i[f] ELSE <<>>

(* Atomic events of one instruction, in the order the interpreter meets them:
   <<"ub", b>> use bucket   <<"xb", b>> consume bucket   <<"cb">> create bucket
   <<"up", p>> use proof    <<"xp", p>> consume proof    <<"cp", src>> create proof (src = bucket index, -1 = auth zone,
                                                          -2 - p = same source as proof p)
   <<"xpall">> consume every live proof                  <<"cr">> <<"xr", r>> reservation   <<"ca">> <<"ua", a, strict>> named address
   <<"blob", declared>>   <<"bad", why>> a shape violation detected at this point                              *)
MapSeq(s, Op(_)) == [j \in 1..Len(s) |-> Op(s[j])]
Events(i, kind, nc) ==
  LET xb(b) == <<"xb", b>>   xp(p) == <<"xp", p>>   xr(r) == <<"xr", r>>   ua(a) == <<"ua", a, TRUE>>
      yieldProofs(ps) == IF Len(ps) > 0 THEN << <<"bad", "proof passed to another intent">> >> ELSE <<>>
  IN CASE i.op = "take"      -> << <<"cb">> >>
       [] i.op \in {"return", "burn"} -> << xb(i.b) >>
       [] i.op = "proof_b"   -> << <<"ub", i.b>>, <<"cp", i.b>> >>
       [] i.op \in {"proof_az", "pop"} -> << <<"cp", -1>> >>
       [] i.op \in {"push", "drop"} -> << xp(i.p) >>
       [] i.op = "clone"     -> << <<"up", i.p>>, <<"cp", -2 - i.p>> >>
       [] i.op \in {"drop_all", "drop_named"} -> << <<"xpall">> >>
       [] i.op \in {"drop_az", "drop_az_regular", "drop_az_sig"} -> <<>>
       [] i.op = "alloc"     -> << <<"cr">>, <<"ca">> >>
       [] i.op = "assert_next" -> <<>>
       [] i.op = "assert_bucket" -> << <<"ub", i.b>> >>
       [] i.op = "verify_parent" -> IF IsSub(kind) THEN <<>> ELSE << <<"bad", "not supported in a transaction intent">> >>
       [] i.op = "call" -> (IF i.tgt >= 0 THEN << <<"ua", i.tgt, FALSE>> >> ELSE <<>>)
                           \o MapSeq(i.bs, xb) \o MapSeq(i.ps, xp) \o MapSeq(i.rs, xr) \o MapSeq(i.as, ua)
                           \o (IF i.blob = 0 THEN <<>> ELSE << <<"blob", i.blob = 1>> >>)
       [] i.op = "yield_parent" -> (IF IsSub(kind) THEN <<>> ELSE << <<"bad", "not supported in a transaction intent">> >>)
                                   \o MapSeq(i.bs, xb) \o yieldProofs(i.ps)
       [] i.op = "yield_child" -> (IF i.child < nc THEN <<>> ELSE << <<"bad", "child intent not registered">> >>)
                                  \o MapSeq(i.bs, xb) \o yieldProofs(i.ps)

RECURSIVE AllEvents(_, _, _, _)
AllEvents(ins, j, kind, nc) == IF j > Len(ins) THEN <<>> ELSE Events(ins[j], kind, nc) \o AllEvents(ins, j + 1, kind, nc)

-----------------------------------------------------------------------------
\* DECLARATIVE: conditions over the whole event sequence E of manifest m under rules R
CountBefore(E, t, tag) == Cardinality({u \in 1..(t - 1) : E[u][1] = tag})
\* the event that created proof p (0-based creation index), 0 if there is none
ProofCreator(E, p) == IF \E u \in 1..Len(E) : E[u][1] = "cp" /\ CountBefore(E, u, "cp") = p
                      THEN CHOOSE u \in 1..Len(E) : E[u][1] = "cp" /\ CountBefore(E, u, "cp") = p ELSE 0
RECURSIVE SourceOf(_, _)
SourceOf(E, p) == LET u == ProofCreator(E, p) IN     \* bucket index the proof locks, -1 for auth-zone proofs
                  IF u = 0 THEN -1 ELSE IF E[u][2] >= -1 THEN E[u][2] ELSE SourceOf(E, -2 - E[u][2])
\* proof p is consumed by event u: explicitly, or by a drop-all while it exists
ConsumesProof(E, u, p) == \/ (E[u][1] = "xp" /\ E[u][2] = p)
                          \/ (E[u][1] = "xpall" /\ CountBefore(E, u, "cp") > p)
ProofLiveAt(E, t, p) == CountBefore(E, t, "cp") > p /\ ~\E u \in 1..(t - 1) : ConsumesProof(E, u, p)
Created(E, t, tag, n, pre) == n >= 0 /\ n < pre + CountBefore(E, t, tag)
EventOK(E, t, pre, R) ==
  LET e == E[t] IN
  CASE e[1] \in {"ub", "xb"} -> /\ Created(E, t, "cb", e[2], 0)
                                /\ ~\E u \in 1..(t - 1) : E[u][1] = "xb" /\ E[u][2] = e[2]          \* not yet consumed
                                /\ e[1] = "xb" => ~\E p \in 0..(CountBefore(E, t, "cp") - 1) :       \* not locked by a live proof
                                                      ProofLiveAt(E, t, p) /\ SourceOf(E, p) = e[2]
    [] e[1] \in {"up", "xp"} -> Created(E, t, "cp", e[2], 0) /\ ProofLiveAt(E, t, e[2])
    [] e[1] = "xr" -> Created(E, t, "cr", e[2], pre) /\ ~\E u \in 1..(t - 1) : E[u][1] = "xr" /\ E[u][2] = e[2]
    [] e[1] = "ua" -> (e[3] \/ R.dynaddr) => Created(E, t, "ca", e[2], 0)
    [] e[1] = "blob" -> R.blobs => e[2]
    [] e[1] = "bad" -> FALSE
    [] OTHER -> TRUE
\* shape: an ASSERT_NEXT_CALL_RETURNS_* must be followed by an invocation; a subintent ends with YIELD_TO_PARENT
ShapeOK(m, R) ==
  /\ R.assertions => \A j \in 1..Len(m.ins) : m.ins[j].op = "assert_next" => (j < Len(m.ins) /\ IsInvocation(m.ins[j + 1]))
  /\ IsSub(m.kind) => (Len(m.ins) > 0 /\ m.ins[Len(m.ins)].op = "yield_parent")
EndOK(E, pre, R) ==
  R.dangling => /\ \A b \in 0..(CountBefore(E, Len(E) + 1, "cb") - 1) : \E u \in 1..Len(E) : E[u][1] = "xb" /\ E[u][2] = b
                /\ \A r \in 0..(pre + CountBefore(E, Len(E) + 1, "cr") - 1) : \E u \in 1..Len(E) : E[u][1] = "xr" /\ E[u][2] = r
StaticOK(m, R) ==
  LET E == AllEvents(m.ins, 1, m.kind, m.nc) IN
  /\ \A t \in 1..Len(E) : EventOK(E, t, m.pre, R)
  /\ ShapeOK(m, R) /\ EndOK(E, m.pre, R)

-----------------------------------------------------------------------------
\* INCREMENTAL: the interpreter's state
\* [ok, buckets: seq of [used, locks], proofs: seq of [used, src], res: seq of used flags, named: count, expectInv]
Start(m) == [ok |-> TRUE, buckets |-> <<>>, proofs |-> <<>>, res |-> [j \in 1..m.pre |-> FALSE], named |-> 0, expectInv |-> FALSE]
Bad(s) == [s EXCEPT !.ok = FALSE]
LiveB(s, b) == b >= 0 /\ b < Len(s.buckets) /\ ~s.buckets[b + 1].used
LiveP(s, p) == p >= 0 /\ p < Len(s.proofs) /\ ~s.proofs[p + 1].used
Unlock(s, src) == IF src >= 0 THEN [s EXCEPT !.buckets[src + 1].locks = @ - 1] ELSE s
NewProof(s, src) == LET s1 == IF src >= 0 THEN [s EXCEPT !.buckets[src + 1].locks = @ + 1] ELSE s
                    IN [s1 EXCEPT !.proofs = Append(@, [used |-> FALSE, src |-> src])]
RECURSIVE DropAll(_, _)
DropAll(s, p) == IF p >= Len(s.proofs) THEN s
                 ELSE IF LiveP(s, p) THEN DropAll(Unlock([s EXCEPT !.proofs[p + 1].used = TRUE], s.proofs[p + 1].src), p + 1)
                 ELSE DropAll(s, p + 1)
ApplyEvent(s, e, R) ==
  IF ~s.ok THEN s ELSE
  CASE e[1] = "cb" -> [s EXCEPT !.buckets = Append(@, [used |-> FALSE, locks |-> 0])]
    [] e[1] = "ub" -> IF LiveB(s, e[2]) THEN s ELSE Bad(s)
    [] e[1] = "xb" -> IF LiveB(s, e[2]) /\ s.buckets[e[2] + 1].locks = 0 THEN [s EXCEPT !.buckets[e[2] + 1].used = TRUE] ELSE Bad(s)
    [] e[1] = "cp" -> IF e[2] >= -1 THEN NewProof(s, e[2]) ELSE NewProof(s, s.proofs[(-2 - e[2]) + 1].src)
    [] e[1] = "up" -> IF LiveP(s, e[2]) THEN s ELSE Bad(s)
    [] e[1] = "xp" -> IF LiveP(s, e[2]) THEN Unlock([s EXCEPT !.proofs[e[2] + 1].used = TRUE], s.proofs[e[2] + 1].src) ELSE Bad(s)
    [] e[1] = "xpall" -> DropAll(s, 0)
    [] e[1] = "cr" -> [s EXCEPT !.res = Append(@, FALSE)]
    [] e[1] = "xr" -> IF e[2] >= 0 /\ e[2] < Len(s.res) /\ ~s.res[e[2] + 1] THEN [s EXCEPT !.res[e[2] + 1] = TRUE] ELSE Bad(s)
    [] e[1] = "ca" -> [s EXCEPT !.named = @ + 1]
    [] e[1] = "ua" -> IF (e[3] \/ R.dynaddr) /\ ~(e[2] >= 0 /\ e[2] < s.named) THEN Bad(s) ELSE s
    [] e[1] = "blob" -> IF R.blobs /\ ~e[2] THEN Bad(s) ELSE s
    [] e[1] = "bad" -> Bad(s)
RECURSIVE ApplyEvents(_, _, _, _)
ApplyEvents(s, es, j, R) == IF j > Len(es) THEN s ELSE ApplyEvents(ApplyEvent(s, es[j], R), es, j + 1, R)
Step(s, i, m, R) ==
  IF ~s.ok THEN s ELSE
  IF s.expectInv /\ ~IsInvocation(i) THEN Bad(s) ELSE
  LET s1 == ApplyEvents([s EXCEPT !.expectInv = FALSE], Events(i, m.kind, m.nc), 1, R)
  IN IF i.op = "assert_next" /\ R.assertions THEN [s1 EXCEPT !.expectInv = TRUE] ELSE s1
RECURSIVE RunFrom(_, _, _, _)
RunFrom(s, m, j, R) == IF j > Len(m.ins) THEN s ELSE RunFrom(Step(s, m.ins[j], m, R), m, j + 1, R)
Finish(s, m, R) ==
  /\ s.ok
  /\ IsSub(m.kind) => (Len(m.ins) > 0 /\ m.ins[Len(m.ins)].op = "yield_parent")
  /\ ~s.expectInv
  /\ R.dangling => (\A b \in 1..Len(s.buckets) : s.buckets[b].used) /\ (\A r \in 1..Len(s.res) : s.res[r])
Run(m, R) == Finish(RunFrom(Start(m), m, 1, R), m, R)

\* which instructions a manifest kind can express at all (the V1 instruction set has no V2 instructions)
V2Only(i) == i.op \in {"yield_parent", "yield_child", "verify_parent", "assert_next", "assert_bucket"}
Expressible(m) == /\ m.kind \in {"v1", "system"} => (m.nc = 0 /\ \A j \in 1..Len(m.ins) : ~V2Only(m.ins[j]))
                  /\ m.kind # "system" => m.pre = 0

\* run-time error classes that denote an id-lifecycle failure (must not happen to an accepted manifest)
LifecycleErrors(R) == {"BucketNotFound", "ProofNotFound", "AddressReservationNotFound"}
                      \cup (IF R.dynaddr THEN {"AddressNotFound"} ELSE {})
                      \cup (IF R.blobs THEN {"BlobNotFound"} ELSE {})
                      \cup {"InvalidIntentIndex"}
=============================================================================

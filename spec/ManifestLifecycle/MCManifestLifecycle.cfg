SPECIFICATION Spec
CONSTANTS
  MaxLen = 3
INVARIANTS Agree Monotone AllExpressible LockCount
PROPERTIES RejectionSticks
CHECK_DEADLOCK FALSE

SPECIFICATION Spec
CONSTANTS
  MaxLen = 2
INVARIANTS Agree Monotone AllExpressible LockCount Emit
PROPERTIES RejectionSticks
CHECK_DEADLOCK FALSE

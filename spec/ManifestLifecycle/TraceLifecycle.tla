--------------------------- MODULE TraceLifecycle ---------------------------
(* impl -> spec for C36: recorded (manifest, static verdicts, run-time outcome) triples of harness-made
   random manifests (up to ~16 instructions, mostly well-formed with injected faults).  In the
   direction the property states: accepted => StaticOK, and accepted => no id-lifecycle failure
   at run time.  A rejected well-formed manifest is not a violation (counted as information). *)
EXTENDS ManifestLifecycle, TraceIO
VARIABLE l
BabylonApplies(m) == m.kind \in {"v1", "system"}
RunCls(ev) == ev.run.cls
Checks(ev) ==
  LET m == ev.m
      okA == StaticOK(m, RulesAll)
      okB == StaticOK(m, RulesBabylon)
      accA == ev.static.all = "ok"
      accC == ev.static.cuttlefish = "ok"
      accB == ev.static.babylon = "ok" /\ BabylonApplies(m)
      cls == RunCls(ev)
  IN << <<"expressible", Expressible(m)>>,
        <<"no-panic", ev.static.all # "panic" /\ ev.static.babylon # "panic" /\ cls # "panic">>,
        <<"accept-implies-ok-all", accA => okA>>,
        <<"accept-implies-ok-cuttlefish", accC => okA>>,
        <<"accept-implies-ok-babylon", accB => okB>>,
        <<"spec-formulations-agree", Run(m, RulesAll) = okA /\ Run(m, RulesBabylon) = okB>>,
        <<"no-lifecycle-error-at-run-time", /\ (accA \/ accC) => cls \notin LifecycleErrors(RulesAll)
                                            /\ (accB /\ ~accA) => cls \notin LifecycleErrors(RulesBabylon)>> >>
Info(ev) == (ev.static.all # "ok" /\ StaticOK(ev.m, RulesAll))
Failed(ev) == LET c == Checks(ev) IN [i \in {j \in 1..Len(c) : ~c[j][2]} |-> c[i][1]]
TInit == l = 1
TNext == /\ l <= Len(Rec)
         /\ LET bad == Failed(Rec[l]) IN
            IF DOMAIN bad = {} THEN TRUE ELSE PrintT(<<"BAD", l>>) /\ PrintT(<<"WHY", l, {bad[i] : i \in DOMAIN bad}>>)
         /\ IF Info(Rec[l]) THEN PrintT(<<"INFO", l>>) ELSE TRUE
         /\ l' = l + 1
TSpec == TInit /\ [][TNext]_l
Post == PrintT(<<"DONE", TLCGet("stats").diameter - 1>>)
=============================================================================

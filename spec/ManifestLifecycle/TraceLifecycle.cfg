SPECIFICATION TSpec
POSTCONDITION Post
CHECK_DEADLOCK FALSE

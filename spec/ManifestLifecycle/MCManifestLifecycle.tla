------------------------ MODULE MCManifestLifecycle ------------------------
(* S for C36: every instruction sequence up to MaxLen over an alphabet with 2 bucket ids, 2 proof
   ids, 1 reservation, 1 named address, 1 child, for every manifest kind; the declarative StaticOK
   and the incremental automaton Run must agree under both rule sets.                        *)
EXTENDS ManifestLifecycle, TLC
CONSTANT MaxLen
VARIABLE m
I(op) == [op |-> op]
IB(op, b) == [op |-> op, b |-> b]
IP(op, p) == [op |-> op, p |-> p]
Call(tgt, bs, ps, rs, as, blob) == [op |-> "call", tgt |-> tgt, bs |-> bs, ps |-> ps, rs |-> rs, as |-> as, blob |-> blob]
Common ==
  {I("take"), I("proof_az"), I("pop"), I("drop_all"), I("drop_named"), I("drop_az"), I("alloc")}
  \cup {IB(op, b) : op \in {"return", "proof_b"}, b \in {0, 1}}
  \cup {IP(op, p) : op \in {"push", "clone", "drop"}, p \in {0, 1}}
  \cup {Call(-1, <<>>, <<>>, <<>>, <<>>, 0), Call(-1, <<0>>, <<>>, <<>>, <<>>, 0), Call(-1, <<1>>, <<>>, <<>>, <<>>, 0),
        Call(-1, <<0, 0>>, <<>>, <<>>, <<>>, 0), Call(-1, <<>>, <<0>>, <<>>, <<>>, 0), Call(-1, <<>>, <<1>>, <<>>, <<>>, 0),
        Call(-1, <<0>>, <<0>>, <<>>, <<>>, 0), Call(-1, <<>>, <<>>, <<0>>, <<>>, 0), Call(-1, <<>>, <<>>, <<>>, <<0>>, 0),
        Call(0, <<>>, <<>>, <<>>, <<>>, 0), Call(-1, <<>>, <<>>, <<>>, <<>>, 1), Call(-1, <<>>, <<>>, <<>>, <<>>, 2)}
V2Extra ==
  {I("assert_next"), I("verify_parent"), IB("assert_bucket", 0), IB("assert_bucket", 1),
   [op |-> "yield_parent", bs |-> <<>>, ps |-> <<>>], [op |-> "yield_parent", bs |-> <<0>>, ps |-> <<>>],
   [op |-> "yield_parent", bs |-> <<>>, ps |-> <<0>>],
   [op |-> "yield_child", child |-> 0, bs |-> <<>>, ps |-> <<>>], [op |-> "yield_child", child |-> 0, bs |-> <<0>>, ps |-> <<>>]}
Alphabet(kind) == IF kind \in {"v2", "sub"} THEN Common \cup V2Extra ELSE Common
Configs == {[kind |-> "v1", pre |-> 0, nc |-> 0], [kind |-> "system", pre |-> 0, nc |-> 0], [kind |-> "system", pre |-> 1, nc |-> 0],
            [kind |-> "v2", pre |-> 0, nc |-> 0], [kind |-> "v2", pre |-> 0, nc |-> 1],
            [kind |-> "sub", pre |-> 0, nc |-> 0], [kind |-> "sub", pre |-> 0, nc |-> 1]}
Init == \E c \in Configs : m = [kind |-> c.kind, pre |-> c.pre, nc |-> c.nc, ins |-> <<>>]
AppendIns == /\ Len(m.ins) < MaxLen
             /\ \E i \in Alphabet(m.kind) : m' = [m EXCEPT !.ins = Append(@, i)]
Next == AppendIns
Spec == Init /\ [][Next]_m

Rules == {RulesAll, RulesBabylon}
\* the two formulations agree
Agree == \A R \in Rules : Run(m, R) = StaticOK(m, R)
\* the weaker rule set accepts everything the full one accepts
Monotone == StaticOK(m, RulesAll) => StaticOK(m, RulesBabylon)
AllExpressible == Expressible(m)
\* automaton sanity: the lock counter of a live bucket is the number of live proofs whose source it is
LockCount == LET s == RunFrom(Start(m), m, 1, RulesAll) IN
             s.ok => \A b \in 1..Len(s.buckets) :
                        s.buckets[b].locks = Cardinality({p \in 1..Len(s.proofs) : ~s.proofs[p].used /\ s.proofs[p].src = b - 1})
\* accepting is not prefix-closed, but rejection for a lifecycle reason is permanent
RejectionSticks == [][(~RunFrom(Start(m), m, 1, RulesAll).ok) => (~RunFrom(Start(m'), m', 1, RulesAll).ok)]_m
=============================================================================

------------------------ MODULE GenManifestLifecycle ------------------------
(* G for C36: every manifest of the MCManifestLifecycle universe with StaticOK under both rule sets
   and the run-time error classes that would be id-lifecycle failures; the harness builds the real
   manifest, runs StaticManifestInterpreter::validate under every rule set and executes accepted
   manifests on a ledger.  The MC invariants are checked in the same run.                    *)
EXTENDS MCManifestLifecycle, Json
Emit == PrintT(<<"B", ToJson([m |-> m, ok_all |-> StaticOK(m, RulesAll), ok_bab |-> StaticOK(m, RulesBabylon),
                              lerr_all |-> LifecycleErrors(RulesAll), lerr_bab |-> LifecycleErrors(RulesBabylon)])>>)
=============================================================================

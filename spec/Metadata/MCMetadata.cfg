SPECIFICATION Spec
CONSTANTS
  Keys = {"k1", "k100", "k101"}
  KeyLen <- MCKeyLen
  Values <- MCValues
  Badges = {1, 2, 3}
INVARIANT StoredWithinLimits
PROPERTIES LockedSticky GuardedChange GetReturnsStored OnlyTheKey
VIEW MCView
CHECK_DEADLOCK FALSE

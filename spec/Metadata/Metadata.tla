------------------------------ MODULE Metadata ------------------------------
(* X05.  The metadata module of a global object (radix-engine/src/object_modules/metadata/package.rs) as state:
   a map key -> entry [present, value, locked] and the two roles that guard it.

   Pinned by reading the code:
     * set(key, value): authorization (role metadata_setter), then the key (at most MAX_METADATA_KEY_STRING_LEN = 100
       bytes), then the value: SBOR length of the stored payload at most MAX_METADATA_VALUE_SBOR_LEN = 4096 FIRST, then
       well-formedness of Url / Origin values (regular expression and at most 1024 bytes), and only then the entry's
       lock (KeyValueEntryLocked);
     * remove(key): role metadata_setter; NO key validation; a locked entry cannot be removed; removing an absent
       entry succeeds;
     * lock(key): role metadata_locker; NO key validation - an entry under a key that could never be set can be
       locked; locking an absent entry locks it empty for ever; locking twice fails (locked);
     * get(key): public, returns the value or nothing;
     * metadata_setter / metadata_locker fall back to the owner role while unassigned; the owner (through the
       unassigned *_updater roles) can assign them to another rule, after which the owner's badge alone no longer
       satisfies them.                                                                              *)
EXTENDS Integers, FiniteSets, Sequences, TLC
CONSTANTS Keys,          \* key names
          KeyLen,        \* [Keys -> length in bytes]
          Values,        \* values tried with set
          Badges         \* 1 = the owner's badge; 2, 3 = badges roles can be assigned to
MaxKeyLen == 100
MaxValueSbor == 4096
MaxUrlLen == 1024
(* a value: [kind, size, wf, tag]
     kind "u32": size = the number;  "string": size = SBOR length of the stored payload;
     "url" / "origin": size = length of the text in bytes (its payload is a few bytes longer), wf = matches the pattern *)
Val(kind, size, wf, tag) == [kind |-> kind, size |-> size, wf |-> wf, tag |-> tag]
NoVal == Val("none", 0, TRUE, 0)
SborLen(v) == IF v.kind = "string" THEN v.size ELSE IF v.kind \in {"url", "origin"} THEN v.size + 8 ELSE 8
ValueClass(v) ==
  IF SborLen(v) > MaxValueSbor THEN "length"
  ELSE IF v.kind = "url" /\ (~v.wf \/ v.size > MaxUrlLen) THEN "url"
  ELSE IF v.kind = "origin" /\ (~v.wf \/ v.size > MaxUrlLen) THEN "origin"
  ELSE "ok"

VARIABLES entry,      \* [Keys -> [present, val, locked]]
          setter,     \* 0 = metadata_setter unassigned (owner), else the badge it is assigned to
          locker,     \* same for metadata_locker
          last
vars == <<entry, setter, locker, last>>

Absent == [present |-> FALSE, val |-> NoVal, locked |-> FALSE]
MaySet(c) == (IF setter = 0 THEN 1 ELSE setter) \in c
MayLock(c) == (IF locker = 0 THEN 1 ELSE locker) \in c
IsOwner(c) == 1 \in c

Done(op, k, v, c, class, out) == last' = [op |-> op, k |-> k, v |-> v, c |-> c, class |-> class, out |-> out]
Fail(op, k, v, c, class) == UNCHANGED <<entry, setter, locker>> /\ Done(op, k, v, c, class, NoVal)

Set(k, v, c) ==
  IF ~MaySet(c) THEN Fail("set", k, v, c, "auth")
  ELSE IF KeyLen[k] > MaxKeyLen THEN Fail("set", k, v, c, "key")
  ELSE IF ValueClass(v) # "ok" THEN Fail("set", k, v, c, ValueClass(v))
  ELSE IF entry[k].locked THEN Fail("set", k, v, c, "locked")
  ELSE /\ entry' = [entry EXCEPT ![k] = [present |-> TRUE, val |-> [v EXCEPT !.wf = TRUE], locked |-> FALSE]]
       /\ UNCHANGED <<setter, locker>> /\ Done("set", k, v, c, "ok", NoVal)
Remove(k, c) ==
  IF ~MaySet(c) THEN Fail("remove", k, NoVal, c, "auth")
  ELSE IF entry[k].locked THEN Fail("remove", k, NoVal, c, "locked")
  ELSE /\ entry' = [entry EXCEPT ![k] = Absent]
       /\ UNCHANGED <<setter, locker>> /\ Done("remove", k, NoVal, c, "ok", NoVal)
Lock(k, c) ==
  IF ~MayLock(c) THEN Fail("lock", k, NoVal, c, "auth")
  ELSE IF entry[k].locked THEN Fail("lock", k, NoVal, c, "locked")
  ELSE /\ entry' = [entry EXCEPT ![k].locked = TRUE]
       /\ UNCHANGED <<setter, locker>> /\ Done("lock", k, NoVal, c, "ok", NoVal)
Get(k, c) == UNCHANGED <<entry, setter, locker>> /\ Done("get", k, NoVal, c, "ok", IF entry[k].present THEN entry[k].val ELSE NoVal)
\* the owner assigns metadata_setter / metadata_locker to a badge (role assignment `set` for module Metadata)
Assign(role, b, c) ==
  IF ~IsOwner(c) THEN Fail(role, "-", Val("u32", b, TRUE, 0), c, "auth")
  ELSE /\ (IF role = "assign_setter" THEN setter' = b /\ locker' = locker ELSE locker' = b /\ setter' = setter)
       /\ UNCHANGED entry /\ Done(role, "-", Val("u32", b, TRUE, 0), c, "ok", NoVal)

Init == /\ entry \in [Keys -> {e \in [present : BOOLEAN, val : Values \cup {NoVal}, locked : BOOLEAN] :
                                 (e.present <=> e.val # NoVal) /\ (e.present => ValueClass(e.val) = "ok" /\ e.val.wf)}]
        /\ \A k \in Keys : KeyLen[k] > MaxKeyLen => entry[k] = Absent            \* such keys cannot be created with
        /\ setter \in {0, 2} /\ locker \in {0, 3}
        /\ last = [op |-> "init", k |-> "-", v |-> NoVal, c |-> {}, class |-> "ok", out |-> NoVal]
Next == \E c \in SUBSET Badges :
          \/ \E k \in Keys : Remove(k, c) \/ Lock(k, c) \/ Get(k, c) \/ \E v \in Values : Set(k, v, c)
          \/ \E b \in Badges \ {1} : Assign("assign_setter", b, c) \/ Assign("assign_locker", b, c)
Spec == Init /\ [][Next]_vars

---------------------------------------------------------------------------
\* a locked entry never changes again (cf. C51)
LockedSticky == [][\A k \in Keys : entry[k].locked => entry'[k] = entry[k]]_vars
\* nothing that violates a limit is ever stored
StoredWithinLimits == \A k \in Keys : entry[k].present => KeyLen[k] <= MaxKeyLen /\ ValueClass(entry[k].val) = "ok"
\* only a holder of the guarding role changes an entry, and a failure changes nothing
GuardedChange == [][/\ (entry' # entry => last'.class = "ok" /\ (IF last'.op = "lock" THEN MayLock(last'.c) ELSE MaySet(last'.c)))
                    /\ (last'.class # "ok" => UNCHANGED <<entry, setter, locker>>)
                    /\ (<<setter', locker'>> # <<setter, locker>> => IsOwner(last'.c))]_vars
\* get returns what set stored
GetReturnsStored == [][last'.op = "get" => last'.out = (IF entry[last'.k].present THEN entry[last'.k].val ELSE NoVal)]_vars
\* an operation touches only its key
OnlyTheKey == [][\A k \in Keys : k # last'.k => entry'[k] = entry[k]]_vars
=============================================================================

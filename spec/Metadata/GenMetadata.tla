----------------------------- MODULE GenMetadata -----------------------------
(* X05, G: seeded histories of Metadata: a random initial map (entries present / absent, locked or not, roles assigned
   or falling back to the owner) and K operations (set with values around every limit, remove, lock, get, role
   assignment) by random callers, printed with the outcome class, the value returned by get and the complete state. *)
EXTENDS Metadata, Json
CONSTANTS K, Walks, Seed
VARIABLES sd, step, hist, rs
gvars == <<vars, sd, step, hist, rs>>
GKeyLen == [k1 |-> 2, k2 |-> 2, k100 |-> 100, k101 |-> 101]
GValues == {NoVal}      \* unused: the generator draws values itself
Rnd(x) == (x * 1103 + 12345) % 65521
RECURSIVE RndSeq(_, _)
RndSeq(x, len) == IF len = 0 THEN <<>> ELSE LET y == Rnd(x) IN <<y \div 7>> \o RndSeq(y, len - 1)
Stream(s) == RndSeq((Seed + s * 7919) % 65521, 16 + 8 * K)
KeySeq == <<"k1", "k2", "k100", "k101", "k1", "k2">>
ValidSeq == <<Val("u32", 1, TRUE, 0), Val("u32", 2, TRUE, 0), Val("string", 40, TRUE, 1), Val("string", 4096, TRUE, 2),
              Val("url", 30, TRUE, 1), Val("url", 1024, TRUE, 2), Val("origin", 22, TRUE, 1)>>
DrawSeq == ValidSeq \o <<Val("string", 4095, TRUE, 1), Val("string", 4097, TRUE, 1), Val("string", 6000, TRUE, 2),
                         Val("url", 30, FALSE, 1), Val("url", 1025, TRUE, 1), Val("url", 5000, TRUE, 1), Val("url", 5000, FALSE, 2),
                         Val("origin", 30, FALSE, 1), Val("origin", 1025, TRUE, 2), Val("u32", 1, TRUE, 0), Val("string", 40, TRUE, 2)>>
State == [entry |-> entry, setter |-> setter, locker |-> locker]
StateP == [entry |-> entry', setter |-> setter', locker |-> locker']
(* Walk 1 is not random: a fixed script from the empty map that visits every limit from both sides with every
   operation it applies to (payload 4095 / 4096 / 4097 / 6000 bytes, URL 1024 / 1025 / 5000 bytes well- and ill-formed,
   origins, keys of 100 / 101 bytes with set / get / remove / lock, operations on locked present / absent entries,
   role reassignment locking the owner out) - independent of the seed.                               *)
All == {1, 2, 3}
S(op, k, v, c) == [op |-> op, k |-> k, v |-> v, c |-> c]
U32 == Val("u32", 1, TRUE, 0)
Script == <<
  S("set", "k1", Val("string", 4095, TRUE, 1), All), S("set", "k1", Val("string", 4096, TRUE, 2), All),
  S("set", "k1", Val("string", 4097, TRUE, 1), All), S("set", "k1", Val("string", 6000, TRUE, 2), All),
  S("set", "k2", Val("url", 1024, TRUE, 2), All), S("set", "k2", Val("url", 1025, TRUE, 1), All),
  S("set", "k2", Val("url", 5000, TRUE, 1), All), S("set", "k2", Val("url", 5000, FALSE, 2), All),
  S("set", "k2", Val("url", 30, FALSE, 1), All), S("set", "k2", Val("origin", 22, TRUE, 1), All),
  S("set", "k2", Val("origin", 30, FALSE, 1), All), S("set", "k2", Val("origin", 1025, TRUE, 2), All),
  S("set", "k100", U32, All), S("set", "k101", U32, All), S("set", "k101", Val("string", 4097, TRUE, 1), All),
  S("get", "k100", NoVal, {}), S("get", "k101", NoVal, {}), S("remove", "k101", NoVal, All), S("lock", "k101", NoVal, All),
  S("set", "k101", U32, All), S("lock", "k101", NoVal, All), S("remove", "k101", NoVal, All),
  S("lock", "k100", NoVal, All), S("set", "k100", Val("string", 4096, TRUE, 1), All), S("remove", "k100", NoVal, All),
  S("get", "k100", NoVal, {}), S("remove", "k1", NoVal, All), S("get", "k1", NoVal, {}), S("lock", "k1", NoVal, All),
  S("set", "k1", U32, All), S("set", "k2", U32, {}), S("lock", "k2", NoVal, {2}),
  S("assign_setter", "-", Val("u32", 2, TRUE, 0), {1}), S("set", "k2", U32, {1}), S("set", "k2", U32, {2}),
  S("remove", "k2", NoVal, {2}), S("set", "k2", Val("url", 30, TRUE, 1), {2, 3}),
  S("assign_locker", "-", Val("u32", 3, TRUE, 0), {2}), S("assign_locker", "-", Val("u32", 3, TRUE, 0), {1}),
  S("lock", "k2", NoVal, {1}), S("lock", "k2", NoVal, {3}), S("remove", "k2", NoVal, {2}), S("get", "k2", NoVal, {}) >>
Scripted == sd = 1
Bound == IF Scripted THEN Len(Script) ELSE K
GInit ==
  /\ sd \in 1..Walks /\ step = 0 /\ rs = Stream(sd)
  /\ entry = IF Scripted THEN [k \in Keys |-> Absent] ELSE [k \in Keys |->
                LET i == IF k = "k1" THEN 1 ELSE IF k = "k2" THEN 2 ELSE IF k = "k100" THEN 3 ELSE 4
                    present == i # 4 /\ rs[i] % 3 # 0
                IN [present |-> present, val |-> IF present THEN ValidSeq[(rs[4 + i] % 7) + 1] ELSE NoVal,
                    locked |-> i # 4 /\ rs[8 + i] % 4 = 0]]
  /\ setter = (IF Scripted \/ rs[13] % 2 = 0 THEN 0 ELSE 2) /\ locker = (IF Scripted \/ rs[14] % 2 = 0 THEN 0 ELSE 3)
  /\ last = [op |-> "init", k |-> "-", v |-> NoVal, c |-> {}, class |-> "ok", out |-> NoVal]
  /\ hist = <<[e |-> last, st |-> State]>>
ScriptAction(j) ==
  LET x == Script[j]
  IN CASE x.op = "set" -> Set(x.k, x.v, x.c) [] x.op = "remove" -> Remove(x.k, x.c) [] x.op = "lock" -> Lock(x.k, x.c)
       [] x.op = "get" -> Get(x.k, x.c) [] OTHER -> Assign(x.op, x.v.size, x.c)
StepAction(j) ==
  LET p == 16 + (j - 1) * 8
      k == KeySeq[(rs[p + 1] % 6) + 1]
      v == DrawSeq[(rs[p + 2] % Len(DrawSeq)) + 1]
      c == {b \in Badges : rs[p + 2 + b] % 2 = 0}
      o == rs[p] % 12
  IN IF o <= 4 THEN Set(k, v, c)
     ELSE IF o <= 6 THEN Remove(k, c)
     ELSE IF o <= 8 THEN Lock(k, c)
     ELSE IF o <= 10 THEN Get(k, c)
     ELSE Assign(IF rs[p + 6] % 2 = 0 THEN "assign_setter" ELSE "assign_locker", IF rs[p + 7] % 2 = 0 THEN 2 ELSE 3, c)
GNext == /\ step < Bound /\ (IF Scripted THEN ScriptAction(step + 1) ELSE StepAction(step + 1))
         /\ step' = step + 1 /\ sd' = sd /\ rs' = rs
         /\ hist' = Append(hist, [e |-> last', st |-> StateP])
GSpec == GInit /\ [][GNext]_gvars
Emit == step = Bound => PrintT(<<"B", ToJson(hist)>>)
=============================================================================

----------------------------- MODULE GenMetadata -----------------------------
(* X05, G: seeded histories of Metadata: a random initial map (entries present / absent, locked or not, roles assigned
   or falling back to the owner) and K operations (set with values around every limit, remove, lock, get, role
   assignment) by random callers, printed with the outcome class, the value returned by get and the complete state. *)
EXTENDS Metadata, Json
CONSTANTS K, Walks, Seed
VARIABLES sd, step, hist, rs
gvars == <<vars, sd, step, hist, rs>>
GKeyLen == [k1 |-> 2, k2 |-> 2, k100 |-> 100, k101 |-> 101]
GValues == {NoVal}      \* unused: the generator draws values itself
Rnd(x) == (x * 1103 + 12345) % 65521
RECURSIVE RndSeq(_, _)
RndSeq(x, len) == IF len = 0 THEN <<>> ELSE LET y == Rnd(x) IN <<y \div 7>> \o RndSeq(y, len - 1)
Stream(s) == RndSeq((Seed + s * 7919) % 65521, 16 + 8 * K)
KeySeq == <<"k1", "k2", "k100", "k101", "k1", "k2">>
ValidSeq == <<Val("u32", 1, TRUE, 0), Val("u32", 2, TRUE, 0), Val("string", 40, TRUE, 1), Val("string", 4096, TRUE, 2),
              Val("url", 30, TRUE, 1), Val("url", 1024, TRUE, 2), Val("origin", 22, TRUE, 1)>>
DrawSeq == ValidSeq \o <<Val("string", 4095, TRUE, 1), Val("string", 4097, TRUE, 1), Val("string", 6000, TRUE, 2),
                         Val("url", 30, FALSE, 1), Val("url", 1025, TRUE, 1), Val("url", 5000, TRUE, 1), Val("url", 5000, FALSE, 2),
                         Val("origin", 30, FALSE, 1), Val("origin", 1025, TRUE, 2), Val("u32", 1, TRUE, 0), Val("string", 40, TRUE, 2)>>
State == [entry |-> entry, setter |-> setter, locker |-> locker]
StateP == [entry |-> entry', setter |-> setter', locker |-> locker']
GInit ==
  /\ sd \in 1..Walks /\ step = 0 /\ rs = Stream(sd)
  /\ entry = [k \in Keys |->
                LET i == IF k = "k1" THEN 1 ELSE IF k = "k2" THEN 2 ELSE IF k = "k100" THEN 3 ELSE 4
                    present == i # 4 /\ rs[i] % 3 # 0
                IN [present |-> present, val |-> IF present THEN ValidSeq[(rs[4 + i] % 7) + 1] ELSE NoVal,
                    locked |-> i # 4 /\ rs[8 + i] % 4 = 0]]
  /\ setter = (IF rs[13] % 2 = 0 THEN 0 ELSE 2) /\ locker = (IF rs[14] % 2 = 0 THEN 0 ELSE 3)
  /\ last = [op |-> "init", k |-> "-", v |-> NoVal, c |-> {}, class |-> "ok", out |-> NoVal]
  /\ hist = <<[e |-> last, st |-> State]>>
StepAction(j) ==
  LET p == 16 + (j - 1) * 8
      k == KeySeq[(rs[p + 1] % 6) + 1]
      v == DrawSeq[(rs[p + 2] % Len(DrawSeq)) + 1]
      c == {b \in Badges : rs[p + 2 + b] % 2 = 0}
      o == rs[p] % 12
  IN IF o <= 4 THEN Set(k, v, c)
     ELSE IF o <= 6 THEN Remove(k, c)
     ELSE IF o <= 8 THEN Lock(k, c)
     ELSE IF o <= 10 THEN Get(k, c)
     ELSE Assign(IF rs[p + 6] % 2 = 0 THEN "assign_setter" ELSE "assign_locker", IF rs[p + 7] % 2 = 0 THEN 2 ELSE 3, c)
GNext == /\ step < K /\ StepAction(step + 1)
         /\ step' = step + 1 /\ sd' = sd /\ rs' = rs
         /\ hist' = Append(hist, [e |-> last', st |-> StateP])
GSpec == GInit /\ [][GNext]_gvars
Emit == step = K => PrintT(<<"B", ToJson(hist)>>)
=============================================================================

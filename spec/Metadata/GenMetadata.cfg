SPECIFICATION GSpec
CONSTANTS
  Keys = {"k1", "k2", "k100", "k101"}
  KeyLen <- GKeyLen
  Values <- GValues
  Badges = {1, 2, 3}
  K = 10
  Walks = 50
  Seed = 1
INVARIANTS StoredWithinLimits Emit
PROPERTIES LockedSticky GuardedChange GetReturnsStored OnlyTheKey
CHECK_DEADLOCK FALSE

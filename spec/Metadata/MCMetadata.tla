----------------------------- MODULE MCMetadata -----------------------------
EXTENDS Metadata
MCKeyLen == [k1 |-> 2, k100 |-> 100, k101 |-> 101]
MCValues == {Val("u32", 1, TRUE, 1), Val("string", 4096, TRUE, 1), Val("string", 4097, TRUE, 1),
             Val("url", 30, TRUE, 1), Val("url", 30, FALSE, 1), Val("url", 1025, TRUE, 1), Val("url", 5000, TRUE, 1),
             Val("origin", 20, FALSE, 1)}
MCView == <<entry, setter, locker>>
=============================================================================

------------------------------ MODULE PruneModel ------------------------------
(* C18, design level.  A reference mechanism for a versioned, path-copying, collapsed binary trie
   (one tier): a commit creates new nodes (tagged with the new version) for every position whose
   content changed, keeps the others, and reports the replaced nodes as stale; pruning deletes
   exactly the reported nodes.  TLC checks over all histories that the current tree stays fully
   stored (Live) and that reported nodes are never reachable again (StaleDead).  The real 16-ary
   Jellyfish store is not predicted by this model; it is LOGGED and checked by TraceStateTree. *)
EXTENDS Integers, Sequences, FiniteSets, TLC
CONSTANTS KeyBits,      \* keys are bit sequences of this length
          Vals, MaxVer
Keys == [1..KeyBits -> {0, 1}]
None == 0
Paths == UNION {[1..n -> {0, 1}] : n \in 0..KeyBits}
IsPrefix(p, k) == Len(p) <= Len(k) /\ \A i \in 1..Len(p) : p[i] = k[i]
Under(kv, p) == {k \in Keys : kv[k] # None /\ IsPrefix(p, k)}
\* shape of the collapsed trie: a position exists iff it is the root of a non-empty tree, or its
\* parent position holds at least two keys; it is a leaf iff it holds exactly one key
Parent(p) == SubSeq(p, 1, Len(p) - 1)
Exists(kv, p) == Under(kv, p) # {} /\ (p = <<>> \/ Cardinality(Under(kv, Parent(p))) >= 2)
Sig(kv, p) == {<<k, kv[k]>> : k \in Under(kv, p)}     \* an internal node caches its children's hashes
Shape(kv) == [p \in {q \in Paths : Exists(kv, q)} |-> Sig(kv, p)]

VARIABLES kv, ver, tree, stored, dead
pvars == <<kv, ver, tree, stored, dead>>
Live == {<<tree[p].v, p>> : p \in DOMAIN tree}
PInit == /\ kv = [k \in Keys |-> None] /\ ver = 0 /\ tree = <<>> /\ stored = {} /\ dead = {}
PCommit(upd) ==                      \* upd: [Keys -> Vals \cup {None, -1}]  (-1 = untouched)
  /\ ver < MaxVer
  /\ LET kv2 == [k \in Keys |-> IF upd[k] = -1 THEN kv[k] ELSE upd[k]]
         sh == Shape(kv2)
         kept == {p \in DOMAIN sh : p \in DOMAIN tree /\ tree[p].sig = sh[p]}
         t2 == [p \in DOMAIN sh |-> IF p \in kept THEN tree[p] ELSE [sig |-> sh[p], v |-> ver + 1]]
         stale == {<<tree[p].v, p>> : p \in (DOMAIN tree) \ kept}
     IN /\ kv' = kv2 /\ ver' = ver + 1 /\ tree' = t2
        /\ stored' = (stored \cup {<<ver + 1, p>> : p \in (DOMAIN sh) \ kept}) \ stale
        /\ dead' = dead \cup stale
PNext == \E upd \in [Keys -> Vals \cup {None, -1}] : PCommit(upd)
PSpec == PInit /\ [][PNext]_pvars
LiveStored == Live \subseteq stored
StaleDead == Live \cap dead = {}
NoGarbage == stored = Live            \* with exact stale reports nothing unreachable is left behind
=============================================================================

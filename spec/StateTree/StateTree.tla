------------------------------ MODULE StateTree ------------------------------
(* C17 (and the commitment used by C19).  What the state root must be: the binary sparse Merkle
   commitment, with single-leaf subtrees collapsed to the leaf, over three tiers
     entity key  ->  partition number  ->  sort key  ->  hash(value).
   This is what a Jellyfish tree whose 16-ary internal nodes are hashed as 4-level binary trees
   computes (InternalNode::merkle_hash), independent of the history that produced the state.
   Hashes are free constructors (terms); the harness evaluates a term with the real blake2b:
     <<"P">>        -> 32 zero bytes          <<"I", l, r>>  -> hash(l ++ r)
     <<"L", k, v>>  -> hash(keyBytes ++ v)    <<"V", x>>     -> hash(valueBytes(x))
   Keys of all three tiers are single bytes in the model (8 bits, most significant first).     *)
EXTENDS SubstateStore
CONSTANT PartDef      \* [Parts -> <<entity key byte, partition number byte>>]

Bit(b, i) == (b \div (2 ^ (8 - i))) % 2
RECURSIVE SMT(_, _)
\* S: set of <<key byte, value term>> with distinct keys; d: next bit to split on (1..8)
SMT(S, d) == IF S = {} THEN <<"P">>
             ELSE IF Cardinality(S) = 1 THEN LET x == CHOOSE x \in S : TRUE IN <<"L", x[1], x[2]>>
             ELSE LET lft == SMT({x \in S : Bit(x[1], d) = 0}, d + 1)
                      rgt == SMT({x \in S : Bit(x[1], d) = 1}, d + 1)
                  IN <<"I", lft, rgt>>
SubRoot(d, p) == SMT({<<k, <<"V", d[p][k]>>>> : k \in Present(d, p)}, 1)
EntityOf(p) == PartDef[p][1]
PNumOf(p) == PartDef[p][2]
LiveEntities(d) == {EntityOf(p) : p \in Partitions(d)}
PartRoot(d, e) == SMT({<<PNumOf(p), SubRoot(d, p)>> : p \in {q \in Partitions(d) : EntityOf(q) = e}}, 1)
Root(d) == SMT({<<e, PartRoot(d, e)>> : e \in LiveEntities(d)}, 1)
\* the leaves a listing of the tree must yield
Leaves(d) == {<<EntityOf(p), PNumOf(p), k, d[p][k]>> : p \in Parts, k \in Keys} \ {x \in {<<EntityOf(p), PNumOf(p), k, d[p][k]>> : p \in Parts, k \in Keys} : x[4] = None}

\* ---- laws checked by TLC on the bounded universe (MCStateTree)
EmptyRoot == Root(EmptyDb) = <<"P">>
Binding == \A d1, d2 \in Databases : Root(d1) = Root(d2) => d1 = d2
=============================================================================

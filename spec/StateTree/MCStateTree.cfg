SPECIFICATION MCSpec
CONSTANTS
  Parts = {1, 2, 3}
  Keys = {18, 19, 128}
  Vals = {1}
  PartDef <- PD
INVARIANT RootMentionsEntities
CHECK_DEADLOCK FALSE

----------------------------- MODULE MCStateTree -----------------------------
EXTENDS StateTree
PD == (1 :> <<65, 0>>) @@ (2 :> <<65, 1>>) @@ (3 :> <<193, 0>>)
ASSUME EmptyRoot
ASSUME Binding
\* a trivial behaviour spec so that TLC evaluates the assumptions and walks all databases once
MCInit == db \in Databases
MCNext == UNCHANGED db
MCSpec == MCInit /\ [][MCNext]_db
\* every reachable database has a root term that mentions exactly its leaves
RECURSIVE TermLeaves(_)
TermLeaves(t) == IF t[1] = "P" THEN {} ELSE IF t[1] = "L" THEN {<<t[2], t[3]>>}
                 ELSE LET a == TermLeaves(t[2]) b == TermLeaves(t[3]) IN a \cup b
RootMentionsEntities == {x[1] : x \in TermLeaves(Root(db))} = LiveEntities(db)
=============================================================================

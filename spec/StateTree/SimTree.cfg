SPECIFICATION SSpec
CONSTANTS
  Parts = {1, 2, 3, 4}
  Keys = {18, 19, 27, 128}
  Vals = {1, 2}
  K = 4
  PartDef <- PD
INVARIANT Emit
CHECK_DEADLOCK FALSE

SPECIFICATION GSpec
CONSTANTS
  Parts = {1}
  Keys = {18, 19, 27}
  Vals = {1}
  K = 1
  PartDef <- PD
INVARIANT Emit
CHECK_DEADLOCK FALSE

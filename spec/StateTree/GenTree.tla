------------------------------- MODULE GenTree -------------------------------
(* Behaviour generator for C17 / C19: a base database, commits, and after every commit the root
   TERM and the leaves the tree must list.  Seeded simulation (RandomElement) or exhaustive. *)
EXTENDS StateTree, Json
CONSTANT K
VARIABLE hist
PD == (1 :> <<65, 0>>) @@ (2 :> <<65, 1>>) @@ (3 :> <<193, 0>>) @@ (4 :> <<67, 255>>)
Obs(d) == [root |-> Root(d), leaves |-> Leaves(d)]
UpdJson(upd) == {<<p, upd[p][1], {<<k, upd[p][2][k]>> : k \in {x \in Keys : upd[p][1] = "r" \/ upd[p][2][x] # Untouched}}>> : p \in {q \in Parts : upd[q][1] # "n"}}
RandUpd == [p \in Parts |-> IF RandomElement(1..3) = 1 THEN NoUpd ELSE RandomElement(PartUpdates)]
SInit == /\ db = [p \in Parts |-> IF RandomElement(1..2) = 1 THEN [k \in Keys |-> None]
                                  ELSE [k \in Keys |-> RandomElement(Vals \cup {None})]]
         /\ hist = <<[a |-> "init", upd |-> {}, obs |-> Obs(db)]>>
SNext == /\ Len(hist) <= K
         /\ \E upd \in {RandUpd} :   \* bound once (a LET definition may be re-evaluated per use)
              /\ Commit(upd)
              /\ hist' = Append(hist, [a |-> "commit", upd |-> UpdJson(upd), obs |-> Obs(Apply(db, upd))])
SSpec == SInit /\ [][SNext]_<<db, hist>>
\* exhaustive variant (tiny constants)
GInit == StoreInit /\ hist = <<[a |-> "init", upd |-> {}, obs |-> Obs(db)]>>
GNext == /\ Len(hist) <= K
         /\ \E upd \in Updates :
              /\ Commit(upd)
              /\ hist' = Append(hist, [a |-> "commit", upd |-> UpdJson(upd), obs |-> Obs(Apply(db, upd))])
GSpec == GInit /\ [][GNext]_<<db, hist>>
Emit == Len(hist) = K + 1 => PrintT(<<"B", ToJson(hist)>>)
=============================================================================

SPECIFICATION PSpec
CONSTANTS
  KeyBits = 2
  Vals = {1, 2}
  MaxVer = 3
INVARIANTS LiveStored StaleDead NoGarbage
CHECK_DEADLOCK FALSE

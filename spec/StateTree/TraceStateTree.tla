---------------------------- MODULE TraceStateTree ----------------------------
(* C18, impl -> spec.  The node store of the state tree as a graph: every node the implementation
   inserted (id, children ids, cross-tier link of an upper-tier leaf to the root of the lower
   tier) and every tree part it reported stale, per commit, logged by a TreeStore wrapper.
   A store is VALID for a version iff everything reachable from that version's root is stored
   (Live), and a part reported stale is unreachable from the root produced by that commit and
   from every later root (StaleDead).  Pruning is applied exactly as reported.               *)
EXTENDS TraceIO
VARIABLES l, nodes, dead, root, pruning
tvars == <<l, nodes, dead, root, pruning>>
SeqToSet(s) == {s[i] : i \in DOMAIN s}
Succ(n, N) == IF n \in DOMAIN N THEN N[n].ch \cup (IF N[n].link = "" THEN {} ELSE {N[n].link}) ELSE {}
RECURSIVE Closure(_, _, _)
Closure(front, seen, N) ==
  IF front = {} THEN seen
  ELSE LET nxt == (UNION {Succ(n, N) : n \in front}) \ seen
       IN Closure(nxt, seen \cup nxt, N)
Reach(r, N) == IF r = "" THEN {} ELSE Closure({r}, {r}, N)
\* a reported Subtree is the tier-local subtree (children edges only), as it is stored when reported
ChildSucc(n, N) == IF n \in DOMAIN N THEN N[n].ch ELSE {}
RECURSIVE ChildClosure(_, _, _)
ChildClosure(front, seen, N) ==
  IF front = {} THEN seen
  ELSE LET nxt == (UNION {ChildSucc(n, N) : n \in front}) \ seen
       IN ChildClosure(nxt, seen \cup nxt, N)
Expand(part, N) == IF part.t = "node" THEN {part.id} ELSE ChildClosure({part.id}, {part.id}, N)

TInit == l = 1 /\ nodes = <<>> /\ dead = {} /\ root = "" /\ pruning = FALSE
TReset == /\ l <= Len(Rec) /\ Rec[l].a = "reset"
          /\ nodes' = <<>> /\ dead' = {} /\ root' = "" /\ pruning' = Rec[l].pruning /\ l' = l + 1
TCommit ==
  /\ l <= Len(Rec) /\ Rec[l].a = "commit"
  /\ LET ev == Rec[l]
         ins == SeqToSet(ev.inserted)
         insIds == {x.id : x \in ins}
         N1 == [id \in (DOMAIN nodes) \cup insIds |->
                  IF id \in insIds THEN LET x == CHOOSE x \in ins : x.id = id
                                        IN [ch |-> SeqToSet(x.children), link |-> x.link]
                  ELSE nodes[id]]
         gone == UNION {Expand(p, N1) : p \in SeqToSet(ev.stale)}
         N2 == IF pruning THEN [id \in (DOMAIN N1) \ gone |-> N1[id]] ELSE N1
         R == Reach(ev.root, N2)
     IN /\ ~ev.panic
        /\ R \subseteq DOMAIN N2                       \* Live: the current state can be fully read
        /\ R \cap (dead \cup gone) = {}                \* StaleDead: now and for every earlier report
        /\ insIds \cap dead = {}                        \* a node reported stale never comes back
        /\ ev.read_ok                                   \* and the implementation's own full read agrees
        /\ (ev.substates > 0 => ev.root # "")
        /\ nodes' = N2 /\ dead' = dead \cup gone /\ root' = ev.root
  /\ UNCHANGED pruning /\ l' = l + 1
TNext == TReset \/ TCommit
TSpec == TInit /\ [][TNext]_tvars
=============================================================================

---- MODULE MCNodeGraph ----
EXTENDS NodeGraph
====

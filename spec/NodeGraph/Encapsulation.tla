--------------------------- MODULE Encapsulation ---------------------------
(* C50 - objects are encapsulated by their blueprint: the rules of the SYSTEM layer, as the code
   has them (system.rs: new_object, drop_object, globalize_with_address_internal, actor state
   handles; kernel: message passing and node ownership), over a universe of

     ACTORS   a function or a method of a test blueprint
              pkg, bp      the code that runs
              recv         the receiver node ("" for a function)
              ctx          the actor's INSTANCE CONTEXT (actor.rs instance_context): for a method of a
                           global object the object itself, for a method of an inner object its
                           outer object, for a function none ("")
              selfOuter    the outer object of the receiver ("" if it has none)
     TARGETS  nodes: kind (object / kv / reservation), blueprint, outer object, global?, stored?,
              proof?; for a reservation the blueprint it was made for

   and answers what each system call returns: "ok..." or the class of the error, in the order in
   which the code checks.  The property itself (Encapsulated, bottom) is stated separately from
   these rules and TLC checks that the rules imply it on the whole universe.                     *)
EXTENDS Integers, Sequences, FiniteSets, TLC
CONSTANT Mut     \* "" = the rules as coded; otherwise the name of a deliberately weakened rule (negative runs)

None == ""
Actors == [
  AXf |-> [pkg |-> "A", bp |-> "X", recv |-> None, ctx |-> None, selfOuter |-> None],
  AXm |-> [pkg |-> "A", bp |-> "X", recv |-> "x1", ctx |-> "x1", selfOuter |-> None],
  BOf |-> [pkg |-> "B", bp |-> "Outer", recv |-> None, ctx |-> None, selfOuter |-> None],
  BOm |-> [pkg |-> "B", bp |-> "Outer", recv |-> "o1", ctx |-> "o1", selfOuter |-> None],
  BIm |-> [pkg |-> "B", bp |-> "Inner", recv |-> "i1", ctx |-> "o1", selfOuter |-> "o1"],
  AYm |-> [pkg |-> "A", bp |-> "Y", recv |-> "y1", ctx |-> "y1", selfOuter |-> None],
  BOm2 |-> [pkg |-> "B", bp |-> "Outer", recv |-> "o2", ctx |-> "o2", selfOuter |-> None],
  BIm2 |-> [pkg |-> "B", bp |-> "Inner", recv |-> "i2", ctx |-> "o2", selfOuter |-> "o2"]]
ActorNames == DOMAIN Actors

(* blueprints of the test packages: inner blueprints name their outer blueprint; which have a KV collection *)
Blueprints == {
  [pkg |-> "A", bp |-> "X", outerBp |-> None, kv |-> TRUE], [pkg |-> "A", bp |-> "Y", outerBp |-> None, kv |-> FALSE],
  [pkg |-> "B", bp |-> "Outer", outerBp |-> None, kv |-> TRUE], [pkg |-> "B", bp |-> "Inner", outerBp |-> "Outer", kv |-> TRUE]}
BpOf(pkg, bp) == CHOOSE b \in Blueprints : b.pkg = pkg /\ b.bp = bp
BpExists(pkg, bp) == \E b \in Blueprints : b.pkg = pkg /\ b.bp = bp
(* blueprint of the global fixtures, by marker *)
NodeBp == [x1 |-> "X", y1 |-> "Y", o1 |-> "Outer", o2 |-> "Outer", i1 |-> "Inner", i2 |-> "Inner"]

Obj(pkg, bp, outer, global, stored, proof) ==
  [kind |-> "object", pkg |-> pkg, bp |-> bp, outer |-> outer, global |-> global, stored |-> stored, proof |-> proof]
Targets == [
  AX |-> Obj("A", "X", None, FALSE, FALSE, FALSE),  AY |-> Obj("A", "Y", None, FALSE, FALSE, FALSE),
  BO |-> Obj("B", "Outer", None, FALSE, FALSE, FALSE),
  BI1 |-> Obj("B", "Inner", "o1", FALSE, FALSE, FALSE), BI2 |-> Obj("B", "Inner", "o2", FALSE, FALSE, FALSE),
  bucket |-> Obj("resource", "FungibleBucket", "xrd", FALSE, FALSE, FALSE),
  vault |-> Obj("resource", "FungibleVault", "xrd", FALSE, FALSE, FALSE),
  proof |-> Obj("resource", "FungibleProof", "xrd", FALSE, FALSE, TRUE),
  kv |-> [kind |-> "kv", pkg |-> None, bp |-> None, outer |-> None, global |-> FALSE, stored |-> FALSE, proof |-> FALSE],
  resAX |-> [kind |-> "reservation", pkg |-> "A", bp |-> "X", outer |-> None, global |-> FALSE, stored |-> FALSE, proof |-> FALSE],
  resAY |-> [kind |-> "reservation", pkg |-> "A", bp |-> "Y", outer |-> None, global |-> FALSE, stored |-> FALSE, proof |-> FALSE],
  resBO |-> [kind |-> "reservation", pkg |-> "B", bp |-> "Outer", outer |-> None, global |-> FALSE, stored |-> FALSE, proof |-> FALSE],
  gAX |-> Obj("A", "X", None, TRUE, TRUE, FALSE), gAY |-> Obj("A", "Y", None, TRUE, TRUE, FALSE),
  gBO1 |-> Obj("B", "Outer", None, TRUE, TRUE, FALSE), gBO2 |-> Obj("B", "Outer", None, TRUE, TRUE, FALSE)]
(* the actor's own receiver as a target *)
SelfTarget(a) ==
  IF a.selfOuter # None THEN Obj(a.pkg, a.bp, a.selfOuter, FALSE, TRUE, FALSE) ELSE Obj(a.pkg, a.bp, None, TRUE, TRUE, FALSE)
TargetOf(a, t) == IF t = "self" THEN SelfTarget(a) ELSE Targets[t]

E(cls) == cls
NotAnObject == "System:NotAnObject"
DropDenied == "System:InvalidDropAccess"
GlobalizeDenied == "System:InvalidGlobalizeAccess"
CannotGlobalize == "System:CannotGlobalize"
OwnNotFound == "CallFrame:DropNodeError.TakeNodeError.OwnNotFound"
HandoverRefused == "setup:CallFrame:CreateFrameError.PassMessageError.DirectRefNotFound"

(* kernel message passing: an argument may carry owned nodes (moved) and references to GLOBAL nodes;
   a reference to an internal node is only accepted as a direct-access reference the caller already holds *)
Handover(t, how) == IF how = "ref" /\ ~t.global THEN HandoverRefused ELSE "ok"
Owns(how) == how \in {"own", "own2"}      \* own2: moved through one more frame on the way

(* drop_object *)
DropAllowed(a, t) ==
  IF Mut = "dropByPackage" THEN t.pkg = a.pkg
  ELSE IF Mut = "dropIgnoresOuter" /\ t.outer # None THEN TRUE
  ELSE IF t.proof THEN t.pkg = a.pkg /\ t.bp = a.bp            \* proofs: no outer-object rule, only their own blueprint
  ELSE IF t.outer # None THEN a.ctx = t.outer              \* inner objects: the instance context must be their outer object
  ELSE t.pkg = a.pkg /\ t.bp = a.bp                        \* otherwise the blueprint itself
Drop(a, t, how) ==
  IF t.kind # "object" THEN NotAnObject
  ELSE IF ~DropAllowed(a, t) THEN DropDenied
  ELSE IF ~Owns(how) THEN OwnNotFound                      \* the kernel only drops what the frame owns
  ELSE "ok"

(* globalize with a reservation made for blueprint (rp, rb); obj = the node to globalize *)
GlobalizeWith(a, rp, rb, obj, how) ==
  IF rp # a.pkg /\ Mut # "globalizeAnyPackage" THEN GlobalizeDenied   \* the reservation must be for the actor's package
  ELSE IF obj.kind # "object" THEN NotAnObject
  ELSE IF obj.global THEN CannotGlobalize                  \* AlreadyGlobalized
  ELSE IF obj.pkg # rp \/ obj.bp # rb THEN CannotGlobalize \* InvalidBlueprintId
  ELSE IF obj.stored THEN "CallFrame:MovePartitionError.MoveFromStoreNotPermitted"
  ELSE IF ~Owns(how) THEN OwnNotFound
  ELSE "ok"
(* variant "none": the system allocates an address for the object's own blueprint first *)
Globalize(a, t, how, variant) ==
  CASE variant = "none" -> IF t.kind # "object" THEN NotAnObject ELSE GlobalizeWith(a, t.pkg, t.bp, t, how)
    [] variant = "own" -> GlobalizeWith(a, a.pkg, a.bp, t, how)
    [] variant = "target" -> IF t.kind # "object" THEN NotAnObject ELSE GlobalizeWith(a, t.pkg, t.bp, t, how)
(* a fresh object of the actor's own blueprint globalized with the reservation handed in *)
UseReservation(a, t, how) ==
  IF t.kind # "reservation" THEN "System:InvalidGlobalAddressReservation"
  ELSE GlobalizeWith(a, t.pkg, t.bp, Obj(a.pkg, a.bp, None, FALSE, FALSE, FALSE), "own")

(* new_object(name): the blueprint id is (actor's package, name) *)
NewObject(a, name) ==
  IF ~BpExists(a.pkg, name) THEN "System:BlueprintDoesNotExist"
  ELSE LET b == BpOf(a.pkg, name) IN
       IF b.outerBp = None THEN "ok:" \o name \o ":none"
       ELSE IF a.ctx = None \/ NodeBp[a.ctx] # b.outerBp THEN "System:InvalidChildObjectCreation"
       ELSE "ok:" \o name \o ":" \o a.ctx

(* actor state handles: SELF = the receiver, OUTER = the receiver's outer object; the answer names the node reached *)
Resolve(a, handle) ==
  IF a.recv = None THEN NotAnObject
  ELSE IF handle = "SELF" THEN "ok:" \o a.recv
  ELSE IF a.selfOuter = None THEN "System:OuterObjectDoesNotExist"
  ELSE "ok:" \o a.selfOuter
StateAccess(a, kind, handle) ==
  LET r == Resolve(a, handle) IN
  IF kind = "kv" /\ r = "ok:" \o a.recv /\ ~BpOf(a.pkg, a.bp).kv THEN "System:CollectionIndexDoesNotExist" ELSE r

KvOpen(a, t, how) == IF t.kind # "kv" THEN "System:NotAKeyValueStore" ELSE "ok"
Call(a, t, how) == IF t.kind # "object" THEN NotAnObject ELSE "ok"

Split(op) == op   \* ops are records [name, arg]
Expected(an, tn, how, op) ==
  LET a == Actors[an] IN
  IF op.name \in {"new_object", "field_read", "field_write", "kv"} THEN
     CASE op.name = "new_object" -> NewObject(a, op.arg)
       [] op.name \in {"field_read", "field_write"} -> StateAccess(a, "field", op.arg)
       [] op.name = "kv" -> StateAccess(a, "kv", op.arg)
  ELSE
     LET t == TargetOf(a, tn) IN
     IF Handover(t, how) # "ok" THEN Handover(t, how)
     ELSE CASE op.name = "drop" -> Drop(a, t, how)
            [] op.name = "proof_drop" -> IF t.proof /\ Owns(how) THEN "ok" ELSE "other"
            [] op.name = "globalize" -> Globalize(a, t, how, op.arg)
            [] op.name = "use_reservation" -> UseReservation(a, t, how)
            [] op.name = "kv_open" -> KvOpen(a, t, how)
            [] op.name = "call" -> Call(a, t, how)

(* ------------------------------------------------------------------------------------------- *)
(* The property, stated on its own.  OWNER CODE of a node: code of the node's own blueprint, or - for an
   inner object - a method of its outer object.  A successful create / drop / globalize must come from
   owner code, or (recorded as information, lead L15: creation and globalization are package-scoped)
   from another blueprint of the SAME package; it never comes from another package.  State handles only
   reach the actor's own receiver or its outer object.  Proofs can be dropped (through their own
   blueprint's drop function) by whoever owns them.                                                 *)
Mutating(op) == op.name \in {"drop", "globalize", "use_reservation"}
OwnerCode(a, t) == (t.pkg = a.pkg /\ t.bp = a.bp) \/ (t.outer # None /\ a.recv = t.outer)
Succeeds(r) == SubSeq(r, 1, 2) = "ok"
Encapsulated(an, tn, how, op) ==
  LET a == Actors[an] r == Expected(an, tn, how, op) IN
  /\ Mutating(op) /\ Succeeds(r) =>
       LET t == IF op.name = "use_reservation" THEN Obj(a.pkg, a.bp, None, FALSE, FALSE, FALSE) ELSE TargetOf(a, tn)
       IN t.pkg = a.pkg                                    \* never across packages
  /\ op.name = "drop" /\ Succeeds(r) => OwnerCode(a, TargetOf(a, tn))     \* drop is blueprint-scoped
  /\ op.name = "new_object" /\ Succeeds(r) => BpExists(a.pkg, op.arg)     \* only blueprints of the actor's package
  /\ op.name \in {"field_read", "field_write", "kv"} /\ Succeeds(r) => r \in {"ok:" \o a.recv, "ok:" \o a.selfOuter}
(* same-package sibling access that the code permits (information, not a violation) *)
SiblingInfo(an, tn, how, op) ==
  LET a == Actors[an] r == Expected(an, tn, how, op) IN
  \/ Mutating(op) /\ op.name # "use_reservation" /\ Succeeds(r) /\ ~OwnerCode(a, TargetOf(a, tn))
  \/ op.name = "new_object" /\ Succeeds(r) /\ op.arg # a.bp
=============================================================================

------------------------- MODULE GenEncapsulation -------------------------
(* S + G for C50: every case (actor x target x how x op) is one state; TLC checks Encapsulated on it
   and prints it with the answer the rules expect; the harness makes the real system call.          *)
EXTENDS Encapsulation, Json
VARIABLE c
Op(n, a) == [name |-> n, arg |-> a]
Internal == {"AX", "AY", "BO", "BI1", "BI2", "bucket", "vault", "proof", "kv", "resAX", "resAY", "resBO"}
Global == {"gAX", "gAY", "gBO1", "gBO2"}
NodeOps(t) ==
  {Op("drop", ""), Op("call", "")}
  \cup (IF t \in {"resAX", "resAY", "resBO"} THEN {Op("use_reservation", ""), Op("globalize", "none"), Op("globalize", "own")}
        ELSE {Op("globalize", "none"), Op("globalize", "own"), Op("globalize", "target"), Op("kv_open", "")})
  \cup (IF t = "proof" THEN {Op("proof_drop", "")} ELSE {})
Case(a, t, h, o) == [actor |-> a, target |-> t, how |-> h, op |-> o]
Cases ==
  {Case(a, t, h, o) : a \in ActorNames, t \in Internal, h \in {"own", "own2", "ref"}, o \in UNION {NodeOps(x) : x \in Internal}}
  \cup {Case(a, t, "ref", o) : a \in ActorNames, t \in Global, o \in {Op("drop", ""), Op("globalize", "none"), Op("globalize", "own"), Op("call", ""), Op("kv_open", "")}}
  \cup {Case(a, "self", "recv", o) : a \in {x \in ActorNames : Actors[x].recv # None},
                                     o \in {Op("drop", ""), Op("globalize", "none"), Op("globalize", "own"), Op("call", ""), Op("kv_open", "")}}
  \cup {Case(a, "none", "own", o) : a \in ActorNames,
          o \in {Op("new_object", n) : n \in {"X", "Y", "Outer", "Inner", "Nope"}}
                \cup {Op(k, h) : k \in {"field_read", "field_write", "kv"}, h \in {"SELF", "OUTER"}}}
\* (a proof that has crossed one function boundary is `restricted` and may not be moved across a second
\* one - a rule of the resource package about proofs, not modelled here: no proof x own2 cases)
Usable == {x \in Cases : /\ x.target \in {"self", "none"} \/ x.op \in NodeOps(x.target) \/ x.target \in Global
                         /\ ~(x.target = "proof" /\ x.how = "own2")}
Init == c \in Usable
Next == UNCHANGED c
Spec == Init /\ [][Next]_c
InvEncapsulated == Encapsulated(c.actor, c.target, c.how, c.op)
OpStr(o) == IF o.arg = "" \/ o.arg = "none" THEN o.name ELSE o.name \o ":" \o o.arg
Emit == PrintT(<<"B", ToJson([actor |-> c.actor, target |-> c.target, how |-> c.how, op |-> OpStr(c.op),
                              exp |-> Expected(c.actor, c.target, c.how, c.op),
                              sibling |-> SiblingInfo(c.actor, c.target, c.how, c.op)])>>)
=============================================================================

SPECIFICATION Spec
CONSTANTS
  GIds = {1, 2}
  IIds = {3, 4}
  MaxSteps = 5
  Relax = {}
INVARIANTS StoreUniqueOwner StoreRefsGlobal StoreNoCycles StoreHasState HeapForest
CHECK_DEADLOCK FALSE

----------------------------- MODULE NodeGraph -----------------------------
(* C05, S: a kernel-level model of how nodes get into the store.  One call frame that owns heap
   nodes, a heap, the store (track + database), and the kernel calls that move ownership:

     CreateNode(n, v)   kernel_create_node: a fresh id; the owns of v are taken from the frame;
                        an internal id goes to the heap (owned by the frame), a global id goes to
                        the store and drags the owned subtrees with it
     Write(n, v)        open + write + close of the (single) substate of a frame-owned heap node or of
                        a stored node, with the rules of CallFrame::process_substate_diff:
                          added own    must be owned by the frame (and not the node being written);
                                       moves recursively to the store when n is stored
                                       (SubstateIO::move_node_from_heap_to_store: refused for a node that
                                       is referenced by a heap value - NodeBorrowed - or whose subtree
                                       holds a non-global reference - ContainsNonGlobalRef)
                          removed own  returns to the frame for a heap node; refused for a stored
                                       node (CantDropNodeInStore)
                          added ref    must be visible (a stored global node or a frame-owned heap
                                       node); must be global when n is stored (NonGlobalRefNotAllowed)
     DropNode(n)        a frame-owned heap node that no heap value references; its owns return to the frame

   A refused call changes nothing (the transaction fails and nothing of it is committed), so the
   model simply has no transition for it.  Values never own a node twice (SubstateDiff refuses
   duplicate owns), so owns is a set here.  Invariant: the store is a well-formed graph (Graph.tla)
   after every accepted call - which is stronger than "after every committed transaction".

   Relax names rules that are switched OFF (for the negative runs that show that the invariants
   can fail and which rule protects which of them).                                              *)
EXTENDS Graph, SequencesExt
CONSTANTS GIds, IIds, MaxSteps, Relax
VARIABLES heap, store, owned, used, steps
vars == <<heap, store, owned, used, steps>>
Ids == GIds \cup IIds
Values == [owns : SUBSET IIds, refs : SUBSET Ids]

Et == [n \in Ids |-> IF n \in GIds THEN "GlobalGenericComponent" ELSE "InternalGenericComponent"]
StoreGraph == [n \in DOMAIN store |->
                 [kind |-> "object", pkg |-> "p", bp |-> "B", tiGlobal |-> n \in GIds, outer |-> 0,
                  nsub |-> 2, npart |-> 2, undec |-> 0, owns |-> SetToSeq(store[n].owns), refs |-> store[n].refs]]

Init == heap = <<>> /\ store = <<>> /\ owned = {} /\ used = {} /\ steps = 0

Visible == {n \in DOMAIN store : n \in GIds} \cup owned
RECURSIVE Subtree(_)
Subtree(S) == IF S = {} THEN {} ELSE S \cup Subtree(UNION {heap[n].owns : n \in S})
HeapRefd == UNION {heap[n].refs : n \in DOMAIN heap} \ GIds          \* heap nodes referenced by heap values
(* move_node_from_heap_to_store accepts the subtrees rooted at S *)
Persistable(S) ==
  LET T == Subtree(S) IN
  /\ "borrowed" \in Relax \/ T \cap HeapRefd = {}
  /\ "subtreeRefs" \in Relax \/ \A n \in T : heap[n].refs \subseteq GIds
Without(f, S) == [n \in DOMAIN f \ S |-> f[n]]
With(f, n, v) == [m \in DOMAIN f \cup {n} |-> IF m = n THEN v ELSE f[m]]
MoveToStore(S, st) == LET T == Subtree(S) IN [m \in DOMAIN st \cup T |-> IF m \in T THEN heap[m] ELSE st[m]]

CreateNode(n, v) ==
  /\ n \notin used /\ v.owns \subseteq owned /\ v.refs \subseteq Visible
  /\ used' = used \cup {n} /\ steps' = steps + 1
  /\ IF n \in IIds
     THEN /\ heap' = With(heap, n, v) /\ owned' = (owned \ v.owns) \cup {n} /\ UNCHANGED store
     ELSE /\ Persistable(v.owns)
          /\ "storeRefs" \in Relax \/ v.refs \subseteq GIds
          /\ store' = With(MoveToStore(v.owns, store), n, v)
          /\ heap' = Without(heap, Subtree(v.owns)) /\ owned' = owned \ v.owns

WriteHeap(n, v) ==
  /\ n \in owned
  /\ LET old == heap[n] added == v.owns \ old.owns removed == old.owns \ v.owns IN
     /\ added \subseteq owned \ {n} /\ (v.refs \ old.refs) \subseteq Visible
     /\ heap' = With(heap, n, v) /\ owned' = (owned \ added) \cup removed
  /\ UNCHANGED <<store, used>> /\ steps' = steps + 1

WriteStore(n, v) ==
  /\ n \in DOMAIN store
  /\ LET old == store[n] added == v.owns \ old.owns removed == old.owns \ v.owns IN
     /\ added \subseteq owned /\ (v.refs \ old.refs) \subseteq Visible
     /\ "dropInStore" \in Relax \/ removed = {}
     /\ "storeRefs" \in Relax \/ (v.refs \ old.refs) \subseteq GIds
     /\ Persistable(added)
     /\ store' = With(MoveToStore(added, store), n, v)
     /\ heap' = Without(heap, Subtree(added)) /\ owned' = owned \ added
  /\ UNCHANGED used /\ steps' = steps + 1

DropNode(n) ==
  /\ n \in owned /\ n \notin HeapRefd
  /\ heap' = Without(heap, {n}) /\ owned' = (owned \ {n}) \cup heap[n].owns
  /\ UNCHANGED <<store, used>> /\ steps' = steps + 1

\* (the quantifier ranges are narrowed to the candidates that can pass the guards; nothing else changes)
DoCreate == /\ steps < MaxSteps
            /\ \E n \in Ids \ used, v \in [owns : SUBSET owned, refs : SUBSET Visible] : CreateNode(n, v)
DoWriteHeap == /\ steps < MaxSteps
               /\ \E n \in owned : \E v \in [owns : SUBSET (owned \cup heap[n].owns), refs : SUBSET Ids] : WriteHeap(n, v)
DoWriteStore == /\ steps < MaxSteps
                /\ \E n \in DOMAIN store : \E v \in [owns : SUBSET (owned \cup store[n].owns), refs : SUBSET Ids] : WriteStore(n, v)
DoDrop == /\ steps < MaxSteps /\ \E n \in owned : DropNode(n)
Next == DoCreate \/ DoWriteHeap \/ DoWriteStore \/ DoDrop
Spec == Init /\ [][Next]_vars

StoreUniqueOwner == UniqueOwner(StoreGraph, Et)
StoreRefsGlobal == RefsGlobal(StoreGraph, Et)
StoreNoCycles == NoCycles(StoreGraph, Et)
StoreHasState == HasState(StoreGraph) /\ EntityTypeMatches(StoreGraph, Et)
(* the heap side of the same discipline: a heap node is owned by the frame or by exactly one heap value *)
HeapForest == /\ DOMAIN heap \cap DOMAIN store = {}
              /\ \A n \in DOMAIN heap :
                   Cardinality({m \in DOMAIN heap : n \in heap[m].owns}) + (IF n \in owned THEN 1 ELSE 0) = 1
              /\ \A n \in DOMAIN heap : heap[n].owns \subseteq DOMAIN heap
=============================================================================

--------------------------- MODULE TraceNodeGraph ---------------------------
(* C05, impl -> spec: the graph projected from the whole database after every committed
   transaction.  `reset` carries the complete graph, `commit` the nodes whose projection changed
   (and the ones that disappeared); the five invariants of Graph.tla are evaluated in every state.
   The verdicts of the repository's own database checkers are observations that must be as
   CheckerOk says (or "skipped" when the driver did not run them for that transaction).        *)
EXTENDS Graph, TraceIO
VARIABLES l, g, et
\* the parsed trace is kept in a TLC register: `Rec` (a file read) would be re-evaluated on every use
Tr == TLCGet(42)
Ev == Tr[l]
RecOf(u) == [kind |-> u.kind, pkg |-> u.pkg, bp |-> u.bp, tiGlobal |-> u.tiGlobal, outer |-> u.outer,
             nsub |-> u.nsub, npart |-> u.npart, undec |-> u.undec, owns |-> u.owns, refs |-> ToSet(u.refs)]
UpdIds(ev) == {ev.upd[i].id : i \in DOMAIN ev.upd}
UpdOf(ev, n) == RecOf(ev.upd[CHOOSE i \in DOMAIN ev.upd : ev.upd[i].id = n])
NewIds(ev) == {ev.ids[i][1] : i \in DOMAIN ev.ids}
TypeOfNew(ev, n) == ev.ids[CHOOSE i \in DOMAIN ev.ids : ev.ids[i][1] = n][2]
(* The repository's own checkers, as observations.  KernelDatabaseChecker additionally demands that
   every referenced global node has a partition; the engine lets a value reference a preallocated
   account/identity address that has no state yet, so exactly in that situation the kernel checker
   answers ZeroPartitionCount (recorded by the driver as information); otherwise both must say ok. *)
Dangling(G) == {r \in UNION {G[n].refs : n \in DOMAIN G} : r \notin DOMAIN G}
KernelExpected(G) == IF Dangling(G) # {} THEN "ZeroPartitionCount" ELSE "ok"
\* (when the graph itself is not well-formed the invariants below report that; the checkers' verdict is then not constrained)
CheckerOk(ev, G, T) == \/ ev.checker = "skipped"
                       \/ (ev.checker = "ran" /\ ev.kernel = KernelExpected(G) /\ ev.system = "ok")
                       \/ ~(UniqueOwner(G, T) /\ RefsGlobal(G, T))

TInit == TLCSet(42, Rec) /\ l = 1 /\ g = <<>> /\ et = <<>>
TReset == /\ l <= Len(Tr) /\ Ev.a = "reset"
          /\ LET ev == Ev
                 ui == UpdIds(ev)
                 ni == NewIds(ev)
             IN /\ g' = [n \in ui |-> UpdOf(ev, n)]
                /\ et' = [n \in ni |-> TypeOfNew(ev, n)]
                /\ CheckerOk(ev, g', et')
          /\ l' = l + 1
\* catalogue transactions state whether the kernel/system rules (NodeGraph.tla) accept or refuse them:
\* a refused program that commits successfully (or the reverse) is a disagreement between rules and engine
TCommit == /\ l <= Len(Tr) /\ Ev.a = "commit" /\ Ev.expect \in {"any", Ev.outcome}
           /\ NewIds(Ev) \cap DOMAIN et = {}
           /\ ToSet(Ev.del) \subseteq DOMAIN g
           /\ LET ev == Ev
                  ui == UpdIds(ev)
                  un == [n \in ui |-> UpdOf(ev, n)]
                  ni == NewIds(ev)
                  nt == [n \in ni |-> TypeOfNew(ev, n)]
              IN /\ g' = [n \in (DOMAIN g \ ToSet(ev.del)) \cup ui |-> IF n \in ui THEN un[n] ELSE g[n]]
                 /\ et' = [n \in DOMAIN et \cup ni |-> IF n \in ni THEN nt[n] ELSE et[n]]
                 /\ CheckerOk(ev, g', et')
           /\ l' = l + 1
TCheck == /\ l <= Len(Tr) /\ Ev.a = "check" /\ CheckerOk(Ev, g, et) /\ UNCHANGED <<g, et>> /\ l' = l + 1
TSummary == /\ l <= Len(Tr) /\ Ev.a = "summary" /\ UNCHANGED <<g, et>> /\ l' = l + 1
TNext == TReset \/ TCommit \/ TCheck \/ TSummary
TSpec == TInit /\ [][TNext]_<<l, g, et>>

(* every node mentioned anywhere has a known entity type (the projection is complete) *)
Closed == \A n \in DOMAIN g : n \in DOMAIN et /\ SeqSet(g[n].owns) \subseteq DOMAIN et /\ g[n].refs \subseteq DOMAIN et
InvUniqueOwner == Closed => UniqueOwner(g, et)
InvRefsGlobal == Closed => RefsGlobal(g, et)
InvHasState == HasState(g)
InvEntityType == Closed => EntityTypeMatches(g, et)
InvNoCycles == Closed => NoCycles(g, et)
=============================================================================

SPECIFICATION Spec
INVARIANTS InvEncapsulated Emit
CHECK_DEADLOCK FALSE

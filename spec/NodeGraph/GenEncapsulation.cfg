SPECIFICATION Spec
CONSTANTS
  Mut = ""
INVARIANTS InvEncapsulated Emit
CHECK_DEADLOCK FALSE

SPECIFICATION TSpec
INVARIANTS Closed InvUniqueOwner InvRefsGlobal InvHasState InvEntityType InvNoCycles
POSTCONDITION TraceAccepted
CHECK_DEADLOCK FALSE

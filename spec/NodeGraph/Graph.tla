------------------------------- MODULE Graph -------------------------------
(* C05 - the stored ledger as a graph, and what "well-formed" means.

   G  : function  node -> [kind, pkg, bp, tiGlobal, outer, nsub, npart, undec, owns, refs]
        kind      what the node's TypeInfo substate says: "object" | "kv" | "reservation" | "phantom"
                  | "none" (no TypeInfo substate) | "undecodable"
        pkg, bp   blueprint of an object (pkg is a symbolic package name)
        tiGlobal  TypeInfo says ObjectType::Global
        outer     outer object of an inner-blueprint object (0 = none)
        nsub      number of substates, undec = number of substate values that do not decode
        owns      SEQUENCE of nodes: one entry per Own occurring in any substate value of the node
        refs      set of nodes referenced by any substate value of the node
   et : function  node -> entity type name (the first byte of the node id), for every node mentioned

   The invariants are stated independently of the engine's own database checkers.               *)
EXTENDS Integers, Sequences, FiniteSets, FiniteSetsExt, TLC

GlobalTypes == {"GlobalPackage", "GlobalConsensusManager", "GlobalValidator", "GlobalTransactionTracker",
                "GlobalGenericComponent", "GlobalAccount", "GlobalIdentity", "GlobalAccessController",
                "GlobalOneResourcePool", "GlobalTwoResourcePool", "GlobalMultiResourcePool", "GlobalAccountLocker",
                "GlobalPreallocatedSecp256k1Account", "GlobalPreallocatedSecp256k1Identity",
                "GlobalPreallocatedEd25519Account", "GlobalPreallocatedEd25519Identity",
                "GlobalFungibleResourceManager", "GlobalNonFungibleResourceManager"}
InternalTypes == {"InternalFungibleVault", "InternalNonFungibleVault", "InternalGenericComponent", "InternalKeyValueStore"}
(* addresses derived from a public key: they denote an account/identity before any state exists *)
PreallocatedTypes == {"GlobalPreallocatedSecp256k1Account", "GlobalPreallocatedSecp256k1Identity",
                      "GlobalPreallocatedEd25519Account", "GlobalPreallocatedEd25519Identity"}
IsGlobalType(t) == t \in GlobalTypes

(* entity types an object of blueprint (pkg, bp) may live under - the table of
   system/id_allocation.rs plus the fixed addresses created at genesis *)
AllowedTypes(pkg, bp, global) ==
  IF global THEN
    CASE pkg = "package" /\ bp = "Package" -> {"GlobalPackage"}
      [] pkg = "resource" /\ bp = "FungibleResourceManager" -> {"GlobalFungibleResourceManager"}
      [] pkg = "resource" /\ bp = "NonFungibleResourceManager" -> {"GlobalNonFungibleResourceManager"}
      [] pkg = "consensus_manager" /\ bp = "ConsensusManager" -> {"GlobalConsensusManager"}
      [] pkg = "consensus_manager" /\ bp = "Validator" -> {"GlobalValidator"}
      [] pkg = "access_controller" /\ bp = "AccessController" -> {"GlobalAccessController"}
      [] pkg = "account" /\ bp = "Account" ->
           {"GlobalAccount", "GlobalPreallocatedSecp256k1Account", "GlobalPreallocatedEd25519Account"}
      [] pkg = "identity" /\ bp = "Identity" ->
           {"GlobalIdentity", "GlobalPreallocatedSecp256k1Identity", "GlobalPreallocatedEd25519Identity"}
      [] pkg = "pool" /\ bp = "OneResourcePool" -> {"GlobalOneResourcePool"}
      [] pkg = "pool" /\ bp = "TwoResourcePool" -> {"GlobalTwoResourcePool"}
      [] pkg = "pool" /\ bp = "MultiResourcePool" -> {"GlobalMultiResourcePool"}
      [] pkg = "locker" /\ bp = "AccountLocker" -> {"GlobalAccountLocker"}
      [] pkg = "transaction_tracker" /\ bp = "TransactionTracker" -> {"GlobalTransactionTracker"}
      [] OTHER -> {"GlobalGenericComponent"}
  ELSE
    CASE pkg = "resource" /\ bp = "FungibleVault" -> {"InternalFungibleVault"}
      [] pkg = "resource" /\ bp = "NonFungibleVault" -> {"InternalNonFungibleVault"}
      [] OTHER -> {"InternalGenericComponent"}

Nodes(G) == DOMAIN G
SeqSet(s) == {s[i] : i \in DOMAIN s}
IsGlobal(n, et) == IsGlobalType(et[n])
Owned(G) == UNION {SeqSet(G[n].owns) : n \in Nodes(G)}
OwnCount(G) == FoldSet(LAMBDA n, acc : acc + Len(G[n].owns), 0, Nodes(G))

(* every stored internal node is owned by exactly one stored value; global nodes by none *)
UniqueOwner(G, et) ==
  LET owned == Owned(G) IN
  /\ Cardinality(owned) = OwnCount(G)                           \* no node is owned twice
  /\ \A n \in Nodes(G) : ~IsGlobal(n, et) => n \in owned         \* every internal node has an owner
  /\ \A n \in owned : n \in Nodes(G) /\ ~IsGlobal(n, et)         \* what is owned is stored and internal

(* stored values reference only global entities; the referenced entity exists, or its address is a
   preallocated one (derived from a public key, usable before the account/identity has any state) *)
RefsGlobal(G, et) ==
  \A n \in Nodes(G) : \A r \in G[n].refs :
     /\ IsGlobal(r, et)
     /\ r \in Nodes(G) \/ et[r] \in PreallocatedTypes

(* every stored entity has state: its type information, at least one more substate, all decodable *)
HasState(G) ==
  \A n \in Nodes(G) : G[n].kind \in {"object", "kv"} /\ G[n].nsub >= 1 /\ G[n].npart >= 1 /\ G[n].undec = 0

(* the entity type in every address matches what is stored there *)
EntityTypeMatches(G, et) ==
  \A n \in Nodes(G) :
    /\ et[n] \in GlobalTypes \cup InternalTypes
    /\ G[n].kind = "kv" => et[n] = "InternalKeyValueStore"
    /\ G[n].kind = "object" => /\ G[n].tiGlobal = IsGlobal(n, et)
                               /\ et[n] \in AllowedTypes(G[n].pkg, G[n].bp, G[n].tiGlobal)
    \* an inner object names a stored global outer object
    /\ G[n].kind = "object" /\ G[n].outer # 0 => G[n].outer \in Nodes(G) /\ IsGlobal(G[n].outer, et)

(* ownership is a forest rooted at global nodes: every stored node is reached from a global one *)
RECURSIVE Reach(_, _, _)
Reach(G, seen, frontier) ==
  IF frontier = {} THEN seen
  ELSE LET nxt == (UNION {SeqSet(G[n].owns) : n \in frontier} \cap Nodes(G)) \ seen
       IN Reach(G, seen \cup nxt, nxt)
NoCycles(G, et) ==
  LET roots == {n \in Nodes(G) : IsGlobal(n, et)} IN Reach(G, roots, roots) = Nodes(G)

WellFormed(G, et) ==
  /\ UniqueOwner(G, et) /\ RefsGlobal(G, et) /\ HasState(G) /\ EntityTypeMatches(G, et) /\ NoCycles(G, et)
=============================================================================

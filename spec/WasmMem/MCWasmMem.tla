---------------------------- MODULE MCWasmMem ----------------------------
(* S: exhaustive instance.  16-cell pointer space (PageSize = 4, MaxHi = 3), memories of
   0..MaxPages pages, every (ptr, len) pair, reads, writes and grows.  Memory cells carry
   position tags, so "bytes from elsewhere" are distinguishable.                            *)
EXTENDS WasmMem
CONSTANTS MaxPages, MaxOps
VARIABLES pages, mem, nops, last
vars == <<pages, mem, nops, last>>

Cells(pg) == 0..(pg * PageSize - 1)
MemAt(a) == mem[a]
Init == /\ pages \in 0..MaxPages
        /\ mem = [a \in Cells(pages) |-> <<"init", a>>]
        /\ nops = 0 /\ last = [op |-> "init"]

Probes(len) == [i \in 1..Val(len) |-> i - 1]          \* tiny instance: observe every byte
HostRead(ptr, len) ==
  /\ nops < MaxOps /\ nops' = nops + 1
  /\ last' = [op |-> "read", ptr |-> ptr, len |-> len, pages |-> pages,
              r |-> IF InBounds(ptr, len, pages) THEN Read(MemAt, ptr, len, pages, Probes(len))
                    ELSE Read(MemAt, ptr, len, pages, <<>>)]
  /\ UNCHANGED <<pages, mem>>
HostWrite(ptr, blen) ==
  /\ nops < MaxOps /\ nops' = nops + 1
  /\ LET ok == InBounds(ptr, FromInt(blen), pages)
         B(i) == <<"buf", nops, i>>
     IN /\ mem' = IF ok THEN [a \in Cells(pages) |-> Written(MemAt, B, ptr, blen, a)] ELSE mem
        /\ last' = [op |-> "write", ptr |-> ptr, len |-> FromInt(blen), pages |-> pages, r |-> [ok |-> ok]]
  /\ UNCHANGED pages
Grow(n) ==
  /\ nops < MaxOps /\ nops' = nops + 1 /\ pages + n <= MaxPages
  /\ pages' = pages + n
  /\ mem' = [a \in Cells(pages + n) |-> IF a \in Cells(pages) THEN mem[a] ELSE <<"zero", a>>]
  /\ last' = [op |-> "grow"]
Next == \/ \E ptr \in Ptrs, len \in Ptrs : HostRead(ptr, len)
        \/ \E ptr \in Ptrs, blen \in 0..(MaxPages * PageSize + 1) : HostWrite(ptr, blen)
        \/ \E n \in 1..MaxPages : Grow(n)
Spec == Init /\ [][Next]_vars

\* the pair arithmetic decides exactly "ptr + len <= size" of the naturals
NatOf(p) == p[1] * PageSize + p[2]
BoundsExact == \A ptr \in Ptrs, len \in Ptrs : InBounds(ptr, len, pages) <=> (NatOf(ptr) + NatOf(len) <= pages * PageSize)
MemShape == DOMAIN mem = Cells(pages)
\* a read yields exactly the addressed cells, or an error exactly when the range is not inside
ReadExact ==
  last.op = "read" =>
    LET p == NatOf(last.ptr)
        l == NatOf(last.len)
    IN IF p + l <= last.pages * PageSize
       THEN last.r.ok /\ last.r.n = l /\ \A i \in 1..l : last.r.at[i] = mem[p + i - 1]
       ELSE ~last.r.ok
\* a write changes exactly the addressed cells, or nothing (error) when the range is not inside
WriteFrame ==
  [][last'.op = "write" =>
       LET p == NatOf(last'.ptr)
           l == NatOf(last'.len)
       IN IF p + l <= pages * PageSize
          THEN /\ last'.r.ok
               /\ \A a \in Cells(pages) : IF p <= a /\ a < p + l THEN mem'[a] = <<"buf", nops, a - p>> ELSE mem'[a] = mem[a]
          ELSE ~last'.r.ok /\ mem' = mem]_vars
\* the universe contains the wrap-around witnesses that a 32-bit addition would get wrong
ASSUME \E ptr \in Ptrs, len \in Ptrs, pg \in 1..MaxPages : WrapInBounds(ptr, len, pg) /\ ~InBounds(ptr, len, pg)
=============================================================================

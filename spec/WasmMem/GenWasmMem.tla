---------------------------- MODULE GenWasmMem ----------------------------
(* G: cases at real scale (PageSize = 65536, 32-bit pointers).  For every host function and
   every buffer argument of it, the (ptr, len) classes {0, 1, 16, size-1, size, size+1, 2^31,
   2^32-size, 2^32-1}^2 for memories of the given sizes (reached by memory.grow); the other
   buffers of the call are small and valid.  Plus the returned slice of the export and
   buffer_consume (host write).  Each case carries the expected outcome and the expected
   bytes at probe offsets, computed from Read / Written over the pattern memory.             *)
EXTENDS WasmMem, Json
CONSTANTS PageSet,      \* memory sizes in pages
          FnSet         \* indices into HostFns ({} = all)
VARIABLE c

Classes(pg) == {<<0, 0>>, <<0, 1>>, <<0, 16>>, <<pg, 0>>, <<pg, 1>>, <<32768, 0>>, <<65535, 65535>>}
               \cup (IF pg > 0 THEN {<<pg - 1, 65535>>, <<65536 - pg, 0>>} ELSE {})
Fns == IF FnSet = {} THEN DOMAIN HostFns ELSE FnSet
Ids ==
  UNION {
    UNION {{[op |-> "host", f |-> f, k |-> k, pg |-> pg, ptr |-> p, len |-> l, blen |-> 0] :
             k \in 1..NBufs(HostFns[f].lay), p \in Classes(pg), l \in Classes(pg)} : f \in Fns}
    \cup {[op |-> "ret", f |-> 0, k |-> 0, pg |-> pg, ptr |-> p, len |-> l, blen |-> 0] : p \in Classes(pg), l \in Classes(pg)}
    \cup {[op |-> "consume", f |-> 0, k |-> 0, pg |-> pg, ptr |-> p, len |-> <<0, 0>>, blen |-> b] :
             p \in Classes(pg), b \in {0, 1, 4, pg * PageSize, pg * PageSize + 1} \cup (IF pg > 0 THEN {pg * PageSize - 1} ELSE {})}
    : pg \in PageSet}

Init == c \in Ids
Next == FALSE /\ UNCHANGED c
Spec == Init /\ [][Next]_c

\* offsets at which a buffer of n bytes is observed (order and repetitions are immaterial)
InRange(q, n) == SelectSeq(q, LAMBDA o : 0 <= o /\ o < n)
ProbeOffs(n) == InRange(<<0, 1, 2, 3, 4, 5, 255, 256, 257, 65535, 65536, 65537, n \div 2, n - 3, n - 2, n - 1>>, n)

Small == << <<0, 16>>, <<0, 4>> >>           \* the other buffers of a call
ArgsOf(id) ==
  LET lay == HostFns[id.f].lay
      bpos == KthPtr(lay, id.k, 1)
  IN [i \in DOMAIN lay |-> IF i = bpos THEN id.ptr ELSE IF i = bpos + 1 THEN id.len
                           ELSE IF lay[i] = "P" THEN Small[1] ELSE IF lay[i] = "L" THEN Small[2] ELSE <<0, 0>>]
ReadExp(ptr, len, pg) == IF InBounds(ptr, len, pg) THEN Read(Pat, ptr, len, pg, ProbeOffs(Val(len)))
                         ELSE Read(Pat, ptr, len, pg, <<>>)
Case ==
  LET pg == c.pg
      base == [op |-> c.op, pages |-> pg, init |-> IF pg = 0 THEN 0 ELSE 1, grow |-> IF pg = 0 THEN 0 ELSE pg - 1]
  IN CASE c.op = "host" ->
            LET fn == HostFns[c.f]
                args == ArgsOf(c)
                bufs == BufArgs(fn.lay, args)
                ok == AllIn(bufs, pg)
            IN base @@ [fn |-> fn.n, res |-> fn.res, k |-> c.k, args |-> args, ret |-> << <<0, 0>>, <<0, 0>> >>,
                        exp |-> [ok |-> ok,
                                 bufs |-> IF ok THEN [j \in DOMAIN bufs |-> ReadExp(bufs[j][1], bufs[j][2], pg)] ELSE <<>>,
                                 ret |-> ReadExp(<<0, 0>>, <<0, 0>>, pg)]]
       [] c.op = "ret" ->
            base @@ [ret |-> <<c.ptr, c.len>>,
                     exp |-> [ok |-> InBounds(c.ptr, c.len, pg), bufs |-> <<>>, ret |-> ReadExp(c.ptr, c.len, pg)]]
       [] c.op = "consume" ->
            LET ok == InBounds(c.ptr, FromInt(c.blen), pg)
                size == pg * PageSize
                d == Val(c.ptr)
                M(a) == Written(Pat, BufPat, c.ptr, c.blen, a)
                pr == InRange(<<0, 1, size - 1, d - 1, d, d + 1, d + c.blen - 1, d + c.blen, d + c.blen \div 2>>, size)
            IN base @@ [fn |-> "buffer_consume", res |-> "", blen |-> c.blen, args |-> << <<0, 1>>, c.ptr >>,
                        ret |-> << <<0, 0>>, Size(pg) >>,
                        exp |-> [ok |-> ok, bufs |-> <<>>,
                                 ret |-> IF ok THEN Read(M, <<0, 0>>, Size(pg), pg, pr) ELSE Read(M, <<0, 0>>, Size(pg), pg, <<>>)]]
Emit == PrintT(<<"B", ToJson(Case)>>)
\* the host-function table, for the seeded recorder of the harness
ASSUME PrintT(<<"FNS", ToJson([fns |-> HostFns])>>)
=============================================================================

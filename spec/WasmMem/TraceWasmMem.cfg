SPECIFICATION TSpec
CONSTANTS
  PageSize = 65536
  MaxHi = 65535
POSTCONDITION Post
CHECK_DEADLOCK FALSE

---------------------------- MODULE TraceWasmMem ----------------------------
(* T: recorded host accesses with seeded random raw arguments.  The outcome must be "ok" or
   MemoryAccessError - exactly according to InBounds in the naturals - and every observed byte
   must be the byte of the addressed position (pattern memory, or the host buffer where
   buffer_consume wrote it).  Never a panic, never another error.                            *)
EXTENDS WasmMem, TraceIO
VARIABLE l
Obs(o, M(_), ptr, len) ==              \* observation o of a read of (ptr, len) from content M
  /\ o.ok /\ o.n = Val(len) /\ Len(o.at) = Len(o.pr)
  /\ \A i \in DOMAIN o.pr : o.pr[i] < o.n /\ o.at[i] = M(Val(ptr) + o.pr[i])
Ok(ev) ==
  LET pg == ev.pages
      g == ev.got
  IN /\ ev.a = "mem"
     /\ ev.init + ev.grow = pg
     /\ g.outcome \in {"ok", "MemoryAccessError"}
     /\ CASE ev.op = "host" ->
               LET fn == HostFns[FnIndex(ev.fn)]
                   bufs == BufArgs(fn.lay, ev.args)
               IN /\ Len(ev.args) = Len(fn.lay)
                  /\ (g.outcome = "ok") <=> AllIn(bufs, pg)
                  /\ g.outcome = "ok" =>
                        /\ g.calls = 1 /\ Len(g.bufs) = Len(bufs)
                        /\ \A j \in DOMAIN bufs : Obs(g.bufs[j], Pat, bufs[j][1], bufs[j][2])
                  /\ g.outcome # "ok" => g.calls = 0
          [] ev.op = "ret" ->
               /\ (g.outcome = "ok") <=> InBounds(ev.ret[1], ev.ret[2], pg)
               /\ g.outcome = "ok" => Obs(g.ret, Pat, ev.ret[1], ev.ret[2])
          [] ev.op = "consume" ->
               LET dest == ev.args[2]
                   M(a) == Written(Pat, BufPat, dest, ev.blen, a)
               IN /\ (g.outcome = "ok") <=> InBounds(dest, FromInt(ev.blen), pg)
                  /\ g.outcome = "ok" => /\ ev.ret = << <<0, 0>>, Size(pg) >>
                                         /\ Obs(g.ret, M, <<0, 0>>, Size(pg))
TInit == l = 1
TNext == l <= Len(Rec) /\ (IF Ok(Rec[l]) THEN TRUE ELSE PrintT(<<"BAD", l>>)) /\ l' = l + 1
TSpec == TInit /\ [][TNext]_l
Post == PrintT(<<"DONE", TLCGet("stats").diameter - 1>>)
=============================================================================

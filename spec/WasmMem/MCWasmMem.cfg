SPECIFICATION Spec
CONSTANTS
  PageSize = 4
  MaxHi = 3
  MaxPages = 2
  MaxOps = 2
INVARIANTS BoundsExact MemShape ReadExact
PROPERTIES WriteFrame
CHECK_DEADLOCK FALSE

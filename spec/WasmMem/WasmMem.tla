------------------------------ MODULE WasmMem ------------------------------
(* C47.  Host access to the linear memory of a WASM instance
   (radix-engine/src/vm/wasm/wasmi.rs: read_memory / write_memory / read_slice, used by every
   host function that takes (ptr, len) buffers, by buffer_consume and by the returned slice of
   an exported call).

   A pointer or length is a 32-bit quantity.  TLC integers are 32-bit signed, so a quantity is
   the pair <<hi, lo>> = hi * PageSize + lo  (0 <= lo < PageSize, 0 <= hi <= MaxHi); sums are
   taken in the naturals (Add never wraps).  PageSize = 65536, MaxHi = 65535 for the real
   code; the exhaustive instance uses a 16-cell pointer space with the same operators.      *)
EXTENDS Integers, Sequences, FiniteSets, TLC
CONSTANTS PageSize, MaxHi

Ptrs == (0..MaxHi) \X (0..PageSize - 1)
Add(p, q) == LET lo == p[2] + q[2] IN <<p[1] + q[1] + lo \div PageSize, lo % PageSize>>
Leq(p, q) == p[1] < q[1] \/ (p[1] = q[1] /\ p[2] <= q[2])
Size(pages) == <<pages, 0>>
Val(p) == p[1] * PageSize + p[2]            \* only used for quantities known to be small
FromInt(n) == <<n \div PageSize, n % PageSize>>

\* THE RULE: the range [ptr, ptr+len) lies inside the memory, the sum taken in the naturals
InBounds(ptr, len, pages) == Leq(Add(ptr, len), Size(pages))

\* what an implementation adding in 32 bits would decide (the defect class the property excludes)
WrapAdd(p, q) == LET s == Add(p, q) IN <<s[1] % (MaxHi + 1), s[2]>>
WrapInBounds(ptr, len, pages) == Leq(WrapAdd(ptr, len), Size(pages))

\* host read of (ptr, len) from a memory whose content is M(address), observed at offsets `pr`
Read(M(_), ptr, len, pages, pr) ==
  IF InBounds(ptr, len, pages)
  THEN [ok |-> TRUE, n |-> Val(len), pr |-> pr, at |-> [i \in 1..Len(pr) |-> M(Val(ptr) + pr[i])]]
  ELSE [ok |-> FALSE, n |-> 0, pr |-> <<>>, at |-> <<>>]
\* content after a host write of a buffer B(index) of `blen` bytes at ptr
Written(M(_), B(_), ptr, blen, a) ==
  IF Val(ptr) <= a /\ a < Val(ptr) + blen THEN B(a - Val(ptr)) ELSE M(a)

-----------------------------------------------------------------------------
(* The host functions that take buffers (the linker table of WasmiModule::host_funcs_set):
   parameter layout  P = pointer, L = length of the preceding pointer, S = scalar; result type. *)
F(n, lay, res) == [n |-> n, lay |-> lay, res |-> res]
PL == <<"P", "L">>
HostFns == <<
  F("object_call", PL \o PL \o PL, "i64"),
  F("object_call_module", PL \o <<"S">> \o PL \o PL, "i64"),
  F("object_call_direct", PL \o PL \o PL, "i64"),
  F("blueprint_call", PL \o PL \o PL \o PL, "i64"),
  F("object_new", PL \o PL, "i64"),
  F("kv_store_new", PL, "i64"),
  F("address_allocate", PL \o PL, "i64"),
  F("address_get_reservation_address", PL, "i64"),
  F("object_globalize", PL \o PL \o PL, "i64"),
  F("object_instance_of", PL \o PL \o PL, "i32"),
  F("object_get_blueprint_id", PL, "i64"),
  F("object_get_outer_object", PL, "i64"),
  F("kv_store_open_entry", PL \o PL \o <<"S">>, "i32"),
  F("kv_entry_write", <<"S">> \o PL, ""),
  F("kv_store_remove_entry", PL \o PL, "i64"),
  F("field_entry_write", <<"S">> \o PL, ""),
  F("actor_emit_event", PL \o PL \o <<"S">>, ""),
  F("sys_log", PL \o PL, ""),
  F("sys_bech32_encode_address", PL, "i64"),
  F("sys_panic", PL, ""),
  F("crypto_utils_bls12381_v1_verify", PL \o PL \o PL, "i32"),
  F("crypto_utils_bls12381_v1_aggregate_verify", PL \o PL, "i32"),
  F("crypto_utils_bls12381_v1_fast_aggregate_verify", PL \o PL \o PL, "i32"),
  F("crypto_utils_bls12381_g2_signature_aggregate", PL, "i64"),
  F("crypto_utils_keccak256_hash", PL, "i64"),
  F("crypto_utils_blake2b_256_hash", PL, "i64"),
  F("crypto_utils_ed25519_verify", PL \o PL \o PL, "i32"),
  F("crypto_utils_secp256k1_ecdsa_verify", PL \o PL \o PL, "i32"),
  F("crypto_utils_secp256k1_ecdsa_verify_and_key_recover", PL \o PL, "i64"),
  F("crypto_utils_secp256k1_ecdsa_verify_and_key_recover_uncompressed", PL \o PL, "i64") >>
FnIndex(name) == CHOOSE i \in DOMAIN HostFns : HostFns[i].n = name
PtrPositions(lay) == {i \in DOMAIN lay : lay[i] = "P"}
NBufs(lay) == Cardinality(PtrPositions(lay))
\* position in the layout of the k-th pointer
RECURSIVE KthPtr(_, _, _)
KthPtr(lay, k, from) == IF lay[from] = "P" THEN (IF k = 1 THEN from ELSE KthPtr(lay, k - 1, from + 1))
                        ELSE KthPtr(lay, k, from + 1)
\* the (ptr, len) pairs among the raw arguments, in the order the host reads them
BufArgs(lay, args) == [k \in 1..NBufs(lay) |-> LET p == KthPtr(lay, k, 1) IN <<args[p], args[p + 1]>>]
AllIn(bufs, pages) == \A k \in DOMAIN bufs : InBounds(bufs[k][1], bufs[k][2], pages)

(* The patterns of the binding: the test module stores the word  a*259 + 0x01020304  at every
   word address a; host buffers handed to buffer_consume hold byte i = (3i+1) % 256.          *)
Pow256(k) == CASE k = 0 -> 1 [] k = 1 -> 256 [] k = 2 -> 65536 [] k = 3 -> 16777216
Pat(a) == LET w == (a - (a % 4)) * 259 + 16909060 IN (w \div Pow256(a % 4)) % 256
BufPat(i) == (i * 3 + 1) % 256
=============================================================================

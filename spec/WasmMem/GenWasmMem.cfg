SPECIFICATION Spec
CONSTANTS
  PageSize = 65536
  MaxHi = 65535
  PageSet = {1}
  FnSet = {}
INVARIANT Emit
CHECK_DEADLOCK FALSE

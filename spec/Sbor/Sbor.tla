-------------------------------- MODULE Sbor --------------------------------
(* C20 / C21.  Byte-level transcription of the SBOR wire format (sbor/src: encoder.rs, decoder.rs,
   value.rs, codec/*, traversal/untyped/traverser.rs) with the custom value kinds of the Scrypto
   and Manifest flavours (radix-common/src/data/{scrypto,manifest}).

   Abstract values (also the JSON shape exchanged with the harness):
     [t |-> "bool", v |-> BOOLEAN]
     [t |-> "int",  k |-> kind byte 2..11, b |-> little-endian two's-complement bytes]
     [t |-> "str",  b |-> the UTF-8 bytes]
     [t |-> "arr",  ek |-> element kind byte, e |-> <<values>>]
     [t |-> "tup",  e |-> <<values>>]
     [t |-> "enum", d |-> discriminator byte, e |-> <<values>>]
     [t |-> "map",  kk |-> key kind, vk |-> value kind, e |-> <<k1, v1, k2, v2, ...>>]
     [t |-> "cust", k |-> custom kind byte, c |-> [f |-> form, b |-> bytes]]
        forms: "raw" (fixed-size body), "static"/"named" (manifest address),
               "str"/"int"/"bytes"/"ruid" (non-fungible local id; int = 8 bytes big-endian)

   Enc is the encoder; Parse is a recursive-descent decoder written independently of Enc
   (prefix byte, exactly one value, end of input), with the depth accounting of the Value codec:
   the root value is at depth 1, every child of an array / tuple / enum / map - also every byte
   of an Array(U8) - is one level deeper, a value at depth > limit is rejected.             *)
EXTENDS Integers, Sequences, FiniteSets, TLC

Flavours == {"basic", "scrypto", "manifest"}
Prefix(F) == CASE F = "basic" -> 91 [] F = "scrypto" -> 92 [] F = "manifest" -> 77

KBool == 1   KU8 == 7   KStr == 12   KArr == 32   KTup == 33   KEnum == 34   KMap == 35
IntKinds == 2..11
IntWidth(k) == CASE k \in {2, 7} -> 1 [] k \in {3, 8} -> 2 [] k \in {4, 9} -> 4 [] k \in {5, 10} -> 8 [] k \in {6, 11} -> 16
CustomKinds(F) == CASE F = "basic" -> {}
                    [] F = "scrypto" -> {128, 144, 160, 176, 192}   \* Reference Own Decimal PreciseDecimal NonFungibleLocalId
                    [] F = "manifest" -> 128..136  \* Address Bucket Proof Expression Blob Decimal PreciseDecimal NFLocalId AddressReservation
KnownKind(F, k) == k \in 1..12 \/ k \in 32..35 \/ k \in CustomKinds(F)

\* entity-type bytes (radix-common/src/types/entity_type.rs)
EntityBytes == {13, 134, 131, 130, 192, 193, 194, 195, 196, 197, 198, 104, 209, 210, 81, 82, 93, 88, 154, 152, 248, 176}
\* [_0-9a-zA-Z]
IdChar(x) == x \in 48..57 \/ x \in 65..90 \/ x \in 97..122 \/ x = 95

\* fixed body size of the "raw" custom kinds
RawSize(F, k) ==
  IF F = "scrypto" THEN (CASE k \in {128, 144} -> 30 [] k = 160 -> 24 [] k = 176 -> 32 [] OTHER -> -1)
  ELSE IF F = "manifest" THEN (CASE k \in {129, 130, 136} -> 4 [] k = 131 -> 1 [] k = 132 -> 32 [] k = 133 -> 24 [] k = 134 -> 32 [] OTHER -> -1)
  ELSE -1
IsNfKind(F, k)   == (F = "scrypto" /\ k = 192) \/ (F = "manifest" /\ k = 135)
IsAddrKind(F, k) == F = "manifest" /\ k = 128

KindOf(v) == CASE v.t = "bool" -> KBool [] v.t = "int" -> v.k [] v.t = "str" -> KStr [] v.t = "arr" -> KArr
               [] v.t = "tup" -> KTup [] v.t = "enum" -> KEnum [] v.t = "map" -> KMap [] v.t = "cust" -> v.k
IsContainer(v) == v.t \in {"arr", "tup", "enum", "map"}

MaxOf(S) == CHOOSE x \in S : \A y \in S : y <= x
RECURSIVE Depth(_)
Depth(v) == IF IsContainer(v) /\ Len(v.e) > 0 THEN 1 + MaxOf({Depth(v.e[i]) : i \in 1..Len(v.e)}) ELSE 1
RECURSIVE Nodes(_)
RECURSIVE SumNodes(_, _)
SumNodes(e, i) == IF i > Len(e) THEN 0 ELSE Nodes(e[i]) + SumNodes(e, i + 1)
Nodes(v) == IF IsContainer(v) THEN 1 + SumNodes(v.e, 1) ELSE 1

-----------------------------------------------------------------------------
\* UTF-8 (Unicode Table 3-7: no overlongs, no surrogates, <= U+10FFFF) on b[i..e]
Cont(x) == x \in 128..191
RECURSIVE Utf8From(_, _, _)
Utf8From(b, i, e) ==
  IF i > e THEN TRUE ELSE
  LET x == b[i] IN
  IF x < 128 THEN Utf8From(b, i + 1, e)
  ELSE IF x \in 194..223 THEN i + 1 <= e /\ Cont(b[i+1]) /\ Utf8From(b, i + 2, e)
  ELSE IF x = 224 THEN i + 2 <= e /\ b[i+1] \in 160..191 /\ Cont(b[i+2]) /\ Utf8From(b, i + 3, e)
  ELSE IF x \in 225..236 \/ x \in 238..239 THEN i + 2 <= e /\ Cont(b[i+1]) /\ Cont(b[i+2]) /\ Utf8From(b, i + 3, e)
  ELSE IF x = 237 THEN i + 2 <= e /\ b[i+1] \in 128..159 /\ Cont(b[i+2]) /\ Utf8From(b, i + 3, e)
  ELSE IF x = 240 THEN i + 3 <= e /\ b[i+1] \in 144..191 /\ Cont(b[i+2]) /\ Cont(b[i+3]) /\ Utf8From(b, i + 4, e)
  ELSE IF x \in 241..243 THEN i + 3 <= e /\ Cont(b[i+1]) /\ Cont(b[i+2]) /\ Cont(b[i+3]) /\ Utf8From(b, i + 4, e)
  ELSE IF x = 244 THEN i + 3 <= e /\ b[i+1] \in 128..143 /\ Cont(b[i+2]) /\ Cont(b[i+3]) /\ Utf8From(b, i + 4, e)
  ELSE FALSE
Utf8Ok(b) == Utf8From(b, 1, Len(b))
IsBytes(b) == \A i \in 1..Len(b) : b[i] \in 0..255

-----------------------------------------------------------------------------
(* Which abstract values exist as Rust values (Shaped), which of them pass the content checks
   that only the decoders perform (ContentValid), and kind consistency of arrays/maps
   (WellKinded - checked by the encoder).                                                 *)
NfShaped(c) == CASE c.f = "str" -> Utf8Ok(c.b) [] c.f = "int" -> Len(c.b) = 8 [] c.f = "bytes" -> TRUE
                 [] c.f = "ruid" -> Len(c.b) = 32 [] OTHER -> FALSE
NfValid(c)  == CASE c.f = "str" -> Len(c.b) \in 1..64 /\ \A i \in 1..Len(c.b) : IdChar(c.b[i])
                 [] c.f = "bytes" -> Len(c.b) \in 1..64
                 [] OTHER -> TRUE
CustShaped(F, v) ==
  /\ v.k \in CustomKinds(F) /\ IsBytes(v.c.b)
  /\ IF IsNfKind(F, v.k) THEN NfShaped(v.c)
     ELSE IF IsAddrKind(F, v.k) THEN (v.c.f = "static" /\ Len(v.c.b) = 30) \/ (v.c.f = "named" /\ Len(v.c.b) = 4)
     ELSE /\ v.c.f = "raw" /\ Len(v.c.b) = RawSize(F, v.k)
          /\ (F = "manifest" /\ v.k = 131) => v.c.b[1] \in {0, 1}      \* ManifestExpression is a two-variant enum
CustValid(F, v) ==
  IF IsNfKind(F, v.k) THEN NfValid(v.c)
  ELSE IF IsAddrKind(F, v.k) THEN v.c.f = "static" => v.c.b[1] \in EntityBytes
  ELSE TRUE

RECURSIVE Shaped(_, _)
Shaped(F, v) ==
  CASE v.t = "bool" -> TRUE
    [] v.t = "int"  -> v.k \in IntKinds /\ Len(v.b) = IntWidth(v.k) /\ IsBytes(v.b)
    [] v.t = "str"  -> IsBytes(v.b) /\ Utf8Ok(v.b)
    [] v.t = "arr"  -> KnownKind(F, v.ek) /\ \A i \in 1..Len(v.e) : Shaped(F, v.e[i])
    [] v.t = "tup"  -> \A i \in 1..Len(v.e) : Shaped(F, v.e[i])
    [] v.t = "enum" -> v.d \in 0..255 /\ \A i \in 1..Len(v.e) : Shaped(F, v.e[i])
    [] v.t = "map"  -> KnownKind(F, v.kk) /\ KnownKind(F, v.vk) /\ Len(v.e) % 2 = 0 /\ \A i \in 1..Len(v.e) : Shaped(F, v.e[i])
    [] v.t = "cust" -> CustShaped(F, v)
    [] OTHER -> FALSE
RECURSIVE ContentValid(_, _)
ContentValid(F, v) ==
  IF v.t = "cust" THEN CustValid(F, v)
  ELSE IF IsContainer(v) THEN \A i \in 1..Len(v.e) : ContentValid(F, v.e[i])
  ELSE TRUE
RECURSIVE WellKinded(_)
WellKinded(v) ==
  CASE v.t = "arr" -> \A i \in 1..Len(v.e) : KindOf(v.e[i]) = v.ek /\ WellKinded(v.e[i])
    [] v.t = "map" -> \A i \in 1..Len(v.e) : KindOf(v.e[i]) = (IF i % 2 = 1 THEN v.kk ELSE v.vk) /\ WellKinded(v.e[i])
    [] v.t \in {"tup", "enum"} -> \A i \in 1..Len(v.e) : WellKinded(v.e[i])
    [] OTHER -> TRUE

-----------------------------------------------------------------------------
\* ENCODER
\* LEB128 size, n < 2^28 (Encoder::write_size)
Size(n) == IF n < 128 THEN <<n>>
           ELSE IF n < 16384 THEN <<128 + (n % 128), n \div 128>>
           ELSE IF n < 2097152 THEN <<128 + (n % 128), 128 + ((n \div 128) % 128), n \div 16384>>
           ELSE <<128 + (n % 128), 128 + ((n \div 128) % 128), 128 + ((n \div 16384) % 128), n \div 2097152>>

NfBody(c) == CASE c.f = "str"   -> <<0>> \o Size(Len(c.b)) \o c.b
               [] c.f = "int"   -> <<1>> \o c.b
               [] c.f = "bytes" -> <<2>> \o Size(Len(c.b)) \o c.b
               [] c.f = "ruid"  -> <<3>> \o c.b
CustBody(F, v) == IF IsNfKind(F, v.k) THEN NfBody(v.c)
                  ELSE IF IsAddrKind(F, v.k) THEN (IF v.c.f = "static" THEN <<0>> ELSE <<1>>) \o v.c.b
                  ELSE v.c.b

RECURSIVE EncBody(_, _)
RECURSIVE CatBodies(_, _, _)      \* children without their kind byte (arrays, maps)
RECURSIVE CatValues(_, _, _)      \* children with their kind byte (tuples, enums)
CatBodies(F, e, i) == IF i > Len(e) THEN <<>> ELSE EncBody(F, e[i]) \o CatBodies(F, e, i + 1)
CatValues(F, e, i) == IF i > Len(e) THEN <<>> ELSE <<KindOf(e[i])>> \o EncBody(F, e[i]) \o CatValues(F, e, i + 1)
EncBody(F, v) ==
  CASE v.t = "bool" -> <<IF v.v THEN 1 ELSE 0>>
    [] v.t = "int"  -> v.b
    [] v.t = "str"  -> Size(Len(v.b)) \o v.b
    [] v.t = "arr"  -> <<v.ek>> \o Size(Len(v.e)) \o CatBodies(F, v.e, 1)
    [] v.t = "tup"  -> Size(Len(v.e)) \o CatValues(F, v.e, 1)
    [] v.t = "enum" -> <<v.d>> \o Size(Len(v.e)) \o CatValues(F, v.e, 1)
    [] v.t = "map"  -> <<v.kk, v.vk>> \o Size(Len(v.e) \div 2) \o CatBodies(F, v.e, 1)
    [] v.t = "cust" -> CustBody(F, v)
Enc(F, v) == <<Prefix(F), KindOf(v)>> \o EncBody(F, v)
\* the encoder refuses values that are too deep or whose array/map children have another kind
EncodeOk(v, d) == WellKinded(v) /\ Depth(v) <= d

-----------------------------------------------------------------------------
\* DECODER (recursive descent).  c = [F, b, n = Len(b), d = depth limit]; positions are 1-based.
Fail(why) == [ok |-> FALSE, why |-> why]

\* Decoder::read_size: LEB128, at most 4 bytes, the last byte of a multi-byte size is not 0
ReadSize(c, pos) ==
  IF pos > c.n THEN Fail("eof") ELSE
  LET b0 == c.b[pos] IN
  IF b0 < 128 THEN [ok |-> TRUE, n |-> b0, pos |-> pos + 1] ELSE
  IF pos + 1 > c.n THEN Fail("eof") ELSE
  LET b1 == c.b[pos + 1] IN
  IF b1 < 128 THEN (IF b1 = 0 THEN Fail("size") ELSE [ok |-> TRUE, n |-> (b0 - 128) + 128 * b1, pos |-> pos + 2]) ELSE
  IF pos + 2 > c.n THEN Fail("eof") ELSE
  LET b2 == c.b[pos + 2] IN
  IF b2 < 128 THEN (IF b2 = 0 THEN Fail("size") ELSE [ok |-> TRUE, n |-> (b0 - 128) + 128 * (b1 - 128) + 16384 * b2, pos |-> pos + 3]) ELSE
  IF pos + 3 > c.n THEN Fail("eof") ELSE
  LET b3 == c.b[pos + 3] IN
  IF b3 >= 128 \/ b3 = 0 THEN Fail("size")
  ELSE [ok |-> TRUE, n |-> (b0 - 128) + 128 * (b1 - 128) + 16384 * (b2 - 128) + 2097152 * b3, pos |-> pos + 4]

Slice(c, pos, n) == SubSeq(c.b, pos, pos + n - 1)
Has(c, pos, n) == pos + n - 1 <= c.n

\* non-fungible local id body
ParseNf(c, k, pos) ==
  IF ~Has(c, pos, 1) THEN Fail("eof") ELSE
  LET disc == c.b[pos] IN
  IF disc \in {0, 2} THEN
    LET s == ReadSize(c, pos + 1) IN
    IF ~s.ok THEN s ELSE
    IF ~Has(c, s.pos, s.n) THEN Fail("eof") ELSE
    LET body == Slice(c, s.pos, s.n) IN
    IF disc = 0
    THEN (IF s.n \in 1..64 /\ \A i \in 1..s.n : IdChar(body[i])
          THEN [ok |-> TRUE, v |-> [t |-> "cust", k |-> k, c |-> [f |-> "str", b |-> body]], pos |-> s.pos + s.n]
          ELSE Fail("custom"))
    ELSE (IF s.n \in 1..64
          THEN [ok |-> TRUE, v |-> [t |-> "cust", k |-> k, c |-> [f |-> "bytes", b |-> body]], pos |-> s.pos + s.n]
          ELSE Fail("custom"))
  ELSE IF disc = 1 THEN
    (IF Has(c, pos + 1, 8) THEN [ok |-> TRUE, v |-> [t |-> "cust", k |-> k, c |-> [f |-> "int", b |-> Slice(c, pos + 1, 8)]], pos |-> pos + 9]
     ELSE Fail("eof"))
  ELSE IF disc = 3 THEN
    (IF Has(c, pos + 1, 32) THEN [ok |-> TRUE, v |-> [t |-> "cust", k |-> k, c |-> [f |-> "ruid", b |-> Slice(c, pos + 1, 32)]], pos |-> pos + 33]
     ELSE Fail("eof"))
  ELSE Fail("custom")

ParseAddr(c, k, pos) ==
  IF ~Has(c, pos, 1) THEN Fail("eof") ELSE
  LET disc == c.b[pos] IN
  IF disc = 0 THEN
    (IF ~Has(c, pos + 1, 30) THEN Fail("eof")
     ELSE IF c.b[pos + 1] \notin EntityBytes THEN Fail("custom")
     ELSE [ok |-> TRUE, v |-> [t |-> "cust", k |-> k, c |-> [f |-> "static", b |-> Slice(c, pos + 1, 30)]], pos |-> pos + 31])
  ELSE IF disc = 1 THEN
    (IF ~Has(c, pos + 1, 4) THEN Fail("eof")
     ELSE [ok |-> TRUE, v |-> [t |-> "cust", k |-> k, c |-> [f |-> "named", b |-> Slice(c, pos + 1, 4)]], pos |-> pos + 5])
  ELSE Fail("custom")

ParseCustom(c, k, pos) ==
  IF IsNfKind(c.F, k) THEN ParseNf(c, k, pos)
  ELSE IF IsAddrKind(c.F, k) THEN ParseAddr(c, k, pos)
  ELSE LET n == RawSize(c.F, k) IN
       IF ~Has(c, pos, n) THEN Fail("eof")
       ELSE IF c.F = "manifest" /\ k = 131 /\ c.b[pos] \notin {0, 1} THEN Fail("custom")
       ELSE [ok |-> TRUE, v |-> [t |-> "cust", k |-> k, c |-> [f |-> "raw", b |-> Slice(c, pos, n)]], pos |-> pos + n]

RECURSIVE PBody(_, _, _, _)        \* (c, kind, pos, depth of this value) -> [ok, v, pos]
RECURSIVE PTagged(_, _, _, _)      \* n children, each with its own kind byte -> [ok, vs, pos]
RECURSIVE PKinded(_, _, _, _, _, _)   \* m children of alternating kinds k1, k2 (k1 = k2 for arrays)

PTagged(c, n, pos, depth) ==
  IF n = 0 THEN [ok |-> TRUE, vs |-> <<>>, pos |-> pos]
  ELSE IF pos > c.n THEN Fail("eof")
  ELSE IF ~KnownKind(c.F, c.b[pos]) THEN Fail("kind")
  ELSE LET r == PBody(c, c.b[pos], pos + 1, depth) IN
       IF ~r.ok THEN r ELSE
       LET rest == PTagged(c, n - 1, r.pos, depth) IN
       IF ~rest.ok THEN rest ELSE [ok |-> TRUE, vs |-> <<r.v>> \o rest.vs, pos |-> rest.pos]

PKinded(c, k1, k2, m, pos, depth) ==
  IF m = 0 THEN [ok |-> TRUE, vs |-> <<>>, pos |-> pos]
  ELSE LET r == PBody(c, k1, pos, depth) IN
       IF ~r.ok THEN r ELSE
       LET rest == PKinded(c, k2, k1, m - 1, r.pos, depth) IN
       IF ~rest.ok THEN rest ELSE [ok |-> TRUE, vs |-> <<r.v>> \o rest.vs, pos |-> rest.pos]

PBody(c, k, pos, depth) ==
  IF depth > c.d THEN Fail("depth")
  ELSE IF k = KBool THEN
    (IF ~Has(c, pos, 1) THEN Fail("eof")
     ELSE IF c.b[pos] \notin {0, 1} THEN Fail("bool")
     ELSE [ok |-> TRUE, v |-> [t |-> "bool", v |-> c.b[pos] = 1], pos |-> pos + 1])
  ELSE IF k \in IntKinds THEN
    (IF ~Has(c, pos, IntWidth(k)) THEN Fail("eof")
     ELSE [ok |-> TRUE, v |-> [t |-> "int", k |-> k, b |-> Slice(c, pos, IntWidth(k))], pos |-> pos + IntWidth(k)])
  ELSE IF k = KStr THEN
    (LET s == ReadSize(c, pos) IN
     IF ~s.ok THEN s
     ELSE IF ~Has(c, s.pos, s.n) THEN Fail("eof")
     ELSE IF ~Utf8From(c.b, s.pos, s.pos + s.n - 1) THEN Fail("utf8")
     ELSE [ok |-> TRUE, v |-> [t |-> "str", b |-> Slice(c, s.pos, s.n)], pos |-> s.pos + s.n])
  ELSE IF k = KArr THEN
    (IF ~Has(c, pos, 1) THEN Fail("eof")
     ELSE IF ~KnownKind(c.F, c.b[pos]) THEN Fail("kind")
     ELSE LET ek == c.b[pos]
              s == ReadSize(c, pos + 1) IN
          IF ~s.ok THEN s
          ELSE IF ek = KU8 THEN       \* raw bytes; each byte is a value one level deeper
            (IF s.n > 0 /\ depth + 1 > c.d THEN Fail("depth")
             ELSE IF ~Has(c, s.pos, s.n) THEN Fail("eof")
             ELSE [ok |-> TRUE, pos |-> s.pos + s.n,
                   v |-> [t |-> "arr", ek |-> ek, e |-> [i \in 1..s.n |-> [t |-> "int", k |-> KU8, b |-> <<c.b[s.pos + i - 1]>>]]]])
          ELSE LET r == PKinded(c, ek, ek, s.n, s.pos, depth + 1) IN
               IF ~r.ok THEN r ELSE [ok |-> TRUE, v |-> [t |-> "arr", ek |-> ek, e |-> r.vs], pos |-> r.pos])
  ELSE IF k = KTup THEN
    (LET s == ReadSize(c, pos) IN
     IF ~s.ok THEN s ELSE
     LET r == PTagged(c, s.n, s.pos, depth + 1) IN
     IF ~r.ok THEN r ELSE [ok |-> TRUE, v |-> [t |-> "tup", e |-> r.vs], pos |-> r.pos])
  ELSE IF k = KEnum THEN
    (IF ~Has(c, pos, 1) THEN Fail("eof") ELSE
     LET s == ReadSize(c, pos + 1) IN
     IF ~s.ok THEN s ELSE
     LET r == PTagged(c, s.n, s.pos, depth + 1) IN
     IF ~r.ok THEN r ELSE [ok |-> TRUE, v |-> [t |-> "enum", d |-> c.b[pos], e |-> r.vs], pos |-> r.pos])
  ELSE IF k = KMap THEN
    (IF ~Has(c, pos, 2) THEN Fail("eof")
     ELSE IF ~KnownKind(c.F, c.b[pos]) \/ ~KnownKind(c.F, c.b[pos + 1]) THEN Fail("kind")
     ELSE LET s == ReadSize(c, pos + 2) IN
          IF ~s.ok THEN s ELSE
          LET r == PKinded(c, c.b[pos], c.b[pos + 1], 2 * s.n, s.pos, depth + 1) IN
          IF ~r.ok THEN r ELSE [ok |-> TRUE, v |-> [t |-> "map", kk |-> c.b[pos], vk |-> c.b[pos + 1], e |-> r.vs], pos |-> r.pos])
  ELSE IF k \in CustomKinds(c.F) THEN ParseCustom(c, k, pos)
  ELSE Fail("kind")

\* payload = prefix byte, exactly one value, end of input
Parse(F, b, d) ==
  LET c == [F |-> F, b |-> b, n |-> Len(b), d |-> d] IN
  IF c.n < 1 THEN Fail("eof")
  ELSE IF b[1] # Prefix(F) THEN Fail("prefix")
  ELSE IF c.n < 2 THEN Fail("eof")
  ELSE IF ~KnownKind(F, b[2]) THEN Fail("kind")
  ELSE LET r == PBody(c, b[2], 3, 1) IN
       IF ~r.ok THEN r
       ELSE IF r.pos # c.n + 1 THEN Fail("trailing")
       ELSE r
NoLimit == 1000000
Accept(F, b, d) == Parse(F, b, d).ok
Dec(F, b) == Parse(F, b, NoLimit).v

-----------------------------------------------------------------------------
\* The laws (evaluated by MCSbor on a bounded universe, by TraceSbor on recorded traffic)
\* C20, value side: an encodable value with valid content decodes back to itself
ValueLaw(F, v) ==
  (Shaped(F, v) /\ WellKinded(v) /\ ContentValid(F, v)) =>
     LET b == Enc(F, v) IN
     /\ Accept(F, b, NoLimit) /\ Dec(F, b) = v
     /\ Accept(F, b, Depth(v)) /\ ~Accept(F, b, Depth(v) - 1)       \* C21: depth accounting agrees
\* C20, byte side: every accepted payload is the canonical encoding of the value it denotes
BytesLaw(F, b) ==
  Accept(F, b, NoLimit) =>
     LET v == Dec(F, b) IN
     /\ Shaped(F, v) /\ WellKinded(v) /\ ContentValid(F, v)
     /\ Enc(F, v) = b
\* C21: the depth limit only cuts by depth
DepthLaw(F, b, d) ==
  Accept(F, b, d) <=> (Accept(F, b, NoLimit) /\ Depth(Dec(F, b)) <= d)
=============================================================================

------------------------------ MODULE MCSborV ------------------------------
(* S for C20/C21, value side: every value tree up to MaxNodes nodes / MaxDepth levels over a set
   of boundary leaves (per flavour), built bottom-up by wrapping; the laws are invariants.
   The universe deliberately contains ill-kinded arrays/maps (the encoder must refuse them) and
   custom values with invalid content (the decoders must refuse their encodings).           *)
EXTENDS Sbor
CONSTANTS MaxNodes, MaxDepth
VARIABLES f, v
vars == <<f, v>>

Rep(n, x) == [i \in 1..n |-> x]
I(k, bs)  == [t |-> "int", k |-> k, b |-> bs]
S(bs)     == [t |-> "str", b |-> bs]
C(k, form, bs) == [t |-> "cust", k |-> k, c |-> [f |-> form, b |-> bs]]
Tup(e)    == [t |-> "tup", e |-> e]
Arr(k, e) == [t |-> "arr", ek |-> k, e |-> e]
Enm(d, e) == [t |-> "enum", d |-> d, e |-> e]
Map(k1, k2, e) == [t |-> "map", kk |-> k1, vk |-> k2, e |-> e]

CommonLeaves ==
  { [t |-> "bool", v |-> TRUE], [t |-> "bool", v |-> FALSE],
    I(2, <<128>>), I(3, <<0, 128>>), I(4, <<255, 255, 255, 127>>), I(5, Rep(8, 255)), I(6, Rep(15, 0) \o <<128>>),
    I(7, <<0>>), I(7, <<255>>), I(8, <<1, 0>>), I(9, <<1, 0, 0, 0>>), I(10, Rep(8, 0)), I(11, Rep(16, 255)),
    S(<<>>), S(<<97>>), S(<<195, 169>>),
    Tup(<<>>), Enm(0, <<>>), Enm(255, <<>>), Arr(7, <<>>), Arr(1, <<>>), Arr(33, <<>>), Map(12, 7, <<>>) }
ScryptoLeaves ==
  { C(128, "raw", <<193>> \o Rep(29, 7)), C(144, "raw", <<88>> \o Rep(29, 0)), C(160, "raw", Rep(24, 255)), C(176, "raw", <<1>> \o Rep(31, 0)),
    C(192, "str", <<97>>), C(192, "int", Rep(7, 0) \o <<1>>), C(192, "bytes", <<0>>), C(192, "ruid", Rep(32, 17)),
    Arr(192, <<>>), Map(192, 128, <<>>) }
ManifestLeaves ==
  { C(128, "static", <<13>> \o Rep(29, 0)), C(128, "named", <<7, 0, 0, 0>>),
    C(128, "static", <<0>> \o Rep(29, 0)),                                   \* invalid entity byte
    C(129, "raw", <<1, 0, 0, 0>>), C(130, "raw", <<255, 255, 255, 255>>), C(136, "raw", <<0, 0, 0, 0>>),
    C(131, "raw", <<0>>), C(131, "raw", <<1>>), C(132, "raw", Rep(32, 5)), C(133, "raw", Rep(24, 0)), C(134, "raw", Rep(32, 255)),
    C(135, "str", <<95>>), C(135, "int", Rep(8, 255)), C(135, "bytes", Rep(64, 9)), C(135, "ruid", Rep(32, 0)),
    C(135, "str", <<>>), C(135, "str", <<45>>), C(135, "bytes", <<>>), C(135, "bytes", Rep(65, 0)),   \* invalid content
    Arr(131, <<>>), Map(135, 128, <<>>) }
Leaves(F) == CommonLeaves \cup (CASE F = "basic" -> {} [] F = "scrypto" -> ScryptoLeaves [] F = "manifest" -> ManifestLeaves)
\* second operands of two-child containers
Small(F) == { [t |-> "bool", v |-> TRUE], I(7, <<1>>), S(<<97>>), Tup(<<>>) }
            \cup (CASE F = "basic" -> {} [] F = "scrypto" -> {C(192, "int", Rep(8, 0))} [] F = "manifest" -> {C(131, "raw", <<1>>)})
OtherKind(k) == IF k = 1 THEN 7 ELSE 1

Init == f \in Flavours /\ v \in Leaves(f)
Room(k) == Nodes(v) + k <= MaxNodes /\ Depth(v) + 1 <= MaxDepth      \* the new tree stays inside the bound
Grow(w) == v' = w /\ UNCHANGED f
WrapTuple   == Room(1) /\ Grow(Tup(<<v>>))
WrapTuple2  == Room(2) /\ \E l \in Small(f) : Grow(Tup(<<v, l>>)) \/ Grow(Tup(<<l, v>>))
WrapEnum    == Room(1) /\ \E d \in {0, 255} : Grow(Enm(d, <<v>>))
WrapArray   == Room(1) /\ Grow(Arr(KindOf(v), <<v>>))
WrapArray2  == Nodes(v) * 2 + 1 <= MaxNodes /\ Depth(v) + 1 <= MaxDepth /\ Grow(Arr(KindOf(v), <<v, v>>))
WrapMap     == Room(2) /\ \E l \in Small(f) : Grow(Map(KindOf(l), KindOf(v), <<l, v>>)) \/ Grow(Map(KindOf(v), KindOf(l), <<v, l>>))
WrapBadArr  == Room(1) /\ Grow(Arr(OtherKind(KindOf(v)), <<v>>))
WrapBadMap  == Room(2) /\ \E l \in Small(f) : Grow(Map(OtherKind(KindOf(l)), KindOf(v), <<l, v>>)) \/ Grow(Map(KindOf(l), OtherKind(KindOf(v)), <<l, v>>))
Next == WrapTuple \/ WrapTuple2 \/ WrapEnum \/ WrapArray \/ WrapArray2 \/ WrapMap \/ WrapBadArr \/ WrapBadMap
Spec == Init /\ [][Next]_vars

AllShaped == Shaped(f, v)
RoundTrip == ValueLaw(f, v)
\* the encoder accepts exactly the well-kinded values within the depth limit
EncoderDepth == \A d \in 0..(MaxDepth + 1) : EncodeOk(v, d) <=> (WellKinded(v) /\ Depth(v) <= d)
\* "valid custom values": the encoding of a value with invalid custom content is not an accepted payload
InvalidRejected == (WellKinded(v) /\ ~ContentValid(f, v)) => ~Accept(f, Enc(f, v), NoLimit)
\* an ill-kinded value never shares its encoding with the value the decoder would read from it
IllKindedNotDecodedBack == ~WellKinded(v) => (Accept(f, Enc(f, v), NoLimit) => Dec(f, Enc(f, v)) # v)
=============================================================================

------------------------------ MODULE MCSborB ------------------------------
(* S for C20/C21, byte side: every byte string obtained by appending up to MaxLen bytes of an
   alphabet of interesting bytes (per flavour) to a seed; the seeds are the empty payload and
   open nestings of every container kind (so that short extensions reach depth 2..5); the laws
   are invariants.                                                                          *)
EXTENDS Sbor
CONSTANT MaxLen
VARIABLES f, b, k            \* k = number of bytes appended to the seed
vars == <<f, b, k>>

Alphabet(F) == {Prefix(F), 0, 1, 2, 7, 12, 32, 33, 34, 35, 128, 255}
               \cup (CASE F = "basic" -> {92} [] F = "scrypto" -> {192} [] F = "manifest" -> {131, 135})
Seeds(F) == LET P == Prefix(F) IN
  { <<P>>, <<0>>,
    <<P, 33, 1>>, <<P, 33, 1, 33, 1>>, <<P, 33, 1, 33, 1, 33, 1>>,      \* tuples of one field, 1..3 levels open
    <<P, 34, 9, 1>>,                                                    \* enum variant with one field
    <<P, 32, 33, 1>>, <<P, 32, 32, 1, 33, 1>>,                          \* array of one tuple / of one array of one tuple (bodies follow)
    <<P, 35, 7, 33, 1, 5>>, <<P, 35, 33, 7, 1>>,                        \* map u8 -> tuple (value open), map tuple -> u8 (key open)
    <<P, 33, 1, 32, 7>>, <<P, 33, 2, 1, 1>> }                            \* tuple(bytes: size open), tuple of two with the second open
Init == f \in Flavours /\ b \in Seeds(f) /\ k = 0
AppendByte(x) == k < MaxLen /\ b' = Append(b, x) /\ k' = k + 1 /\ UNCHANGED f
Next == \E x \in Alphabet(f) : AppendByte(x)
Spec == Init /\ [][Next]_vars

Limits == <<0, 1, 2, 3, 4, 5, 64>>
UniqueEncoding == BytesLaw(f, b)
DepthConsistent == \A i \in 1..Len(Limits) : DepthLaw(f, b, Limits[i])
\* exactly one value, then end of input: no accepted payload is a proper prefix of another one
NoTrailing == [][Accept(f, b, NoLimit) => ~Accept(f, b', NoLimit)]_vars
\* the three flavours differ only in the prefix byte and the custom kinds
PrefixOnly == (Len(b) >= 1 /\ b[1] # Prefix(f)) => ~Accept(f, b, NoLimit)

-----------------------------------------------------------------------------
\* Explicit members of every non-canonical / invalid class (and their accepted neighbours)
Rej(F, x) == ~Accept(F, x, 64)
Acc(F, x) == Accept(F, x, 64) /\ Enc(F, Dec(F, x)) = x
ASSUME /\ Acc("basic", <<91, 12, 1, 97>>)                         \* "a"
       /\ Rej("basic", <<91, 12, 129, 0, 97>>)                    \* size 1 written in two bytes
       /\ Rej("basic", <<91, 12, 128, 0>>)                        \* size 0 written in two bytes
       /\ Rej("basic", <<91, 12, 1, 97, 0>>)                      \* trailing byte
       /\ Rej("basic", <<91, 12, 2, 97>>)                         \* truncated
       /\ Rej("basic", <<92, 12, 1, 97>>)                         \* other flavour's prefix
       /\ Rej("basic", <<91>>) /\ Rej("basic", <<>>)
       /\ Acc("basic", <<91, 1, 0>>) /\ Acc("basic", <<91, 1, 1>>) /\ Rej("basic", <<91, 1, 2>>) /\ Rej("basic", <<91, 1, 255>>)
       /\ Rej("basic", <<91, 0, 0>>) /\ Rej("basic", <<91, 13, 0>>) /\ Rej("basic", <<91, 36, 0>>) /\ Rej("basic", <<91, 128, 0>>)
       /\ Acc("basic", <<91, 12, 2, 195, 169>>)                   \* e-acute
       /\ Rej("basic", <<91, 12, 1, 128>>)                        \* lone continuation byte
       /\ Rej("basic", <<91, 12, 2, 192, 128>>)                   \* overlong NUL
       /\ Rej("basic", <<91, 12, 3, 237, 160, 128>>)              \* surrogate U+D800
       /\ Acc("basic", <<91, 12, 3, 237, 159, 191>>)              \* U+D7FF
       /\ Rej("basic", <<91, 12, 4, 244, 144, 128, 128>>)         \* > U+10FFFF
       /\ Acc("basic", <<91, 12, 4, 244, 143, 191, 191>>)         \* U+10FFFF
       /\ Rej("basic", <<91, 12, 2, 195>>)                        \* truncated character
       /\ Rej("basic", <<91, 12, 255, 255, 255, 255, 0>>)         \* five-byte size
       /\ Rej("basic", <<91, 12, 255, 255, 255, 127>>)            \* 2^28-1 bytes announced, none present
       /\ Rej("basic", <<91, 32, 7, 255, 255, 255, 127>>) /\ Rej("basic", <<91, 33, 255, 255, 255, 127>>)
       /\ Rej("basic", <<91, 34, 0, 255, 255, 255, 127>>) /\ Rej("basic", <<91, 35, 7, 7, 255, 255, 255, 127>>)
       /\ Acc("basic", <<91, 32, 7, 2, 0, 255>>) /\ Acc("basic", <<91, 32, 1, 2, 0, 1>>) /\ Rej("basic", <<91, 32, 1, 2, 0, 2>>)
       /\ Acc("basic", <<91, 35, 7, 1, 2, 5, 0, 5, 1>>)           \* map with a duplicate key: the Value codec keeps entry order
       /\ Acc("basic", <<91, 35, 7, 1, 2, 9, 0, 5, 1>>)           \* ... and does not sort keys
       /\ Rej("basic", <<91, 32, 128, 0>>)                        \* custom element kind in the basic flavour
ASSUME /\ Acc("scrypto", <<92, 192, 0, 1, 97>>) /\ Rej("scrypto", <<92, 192, 0, 0>>) /\ Rej("scrypto", <<92, 192, 0, 1, 45>>)
       /\ Rej("scrypto", <<92, 192, 4>>) /\ Rej("scrypto", <<92, 192, 2, 0>>) /\ Acc("scrypto", <<92, 192, 2, 1, 0>>)
       /\ Acc("scrypto", <<92, 192, 1, 0, 0, 0, 0, 0, 0, 0, 1>>) /\ Rej("scrypto", <<92, 192, 1, 0, 0, 0, 0, 0, 0, 1>>)
       /\ Rej("scrypto", <<92, 192, 0, 129, 0, 97>>)              \* non-canonical size inside a custom value
       /\ Rej("scrypto", <<92, 129, 0, 0, 0, 0>>) /\ Rej("basic", <<91, 192, 0, 1, 97>>)
ASSUME /\ Acc("manifest", <<77, 131, 0>>) /\ Acc("manifest", <<77, 131, 1>>) /\ Rej("manifest", <<77, 131, 2>>)
       /\ Acc("manifest", <<77, 128, 1, 7, 0, 0, 0>>) /\ Rej("manifest", <<77, 128, 2, 7, 0, 0, 0>>)
       /\ Acc("manifest", <<77, 128, 0, 13>> \o [i \in 1..29 |-> 0]) /\ Rej("manifest", <<77, 128, 0, 0>> \o [i \in 1..29 |-> 0])
       /\ Acc("manifest", <<77, 129, 1, 0, 0, 0>>) /\ Rej("manifest", <<77, 137, 1, 0, 0, 0>>) /\ Rej("manifest", <<77, 192, 0, 1, 97>>)

\* LEB128 sizes: Size and ReadSize are mutually inverse, ReadSize accepts only what Size produces
Ctx(x) == [F |-> "basic", b |-> x, n |-> Len(x), d |-> 64]
SizeSamples == 0..300 \cup {16383, 16384, 16385, 2097151, 2097152, 2097153, 268435454, 268435455}
ASSUME \A n \in SizeSamples : LET s == Size(n) r == ReadSize(Ctx(s), 1) IN r.ok /\ r.n = n /\ r.pos = Len(s) + 1
Edge == {0, 1, 127, 128, 129, 255}
ASSUME \A x \in 0..255, y \in Edge \cup {2, 64} : LET r == ReadSize(Ctx(<<x, y>>), 1) IN r.ok => Size(r.n) = SubSeq(<<x, y>>, 1, r.pos - 1)
ASSUME \A x, y, z, w \in Edge : LET s == <<x, y, z, w>> r == ReadSize(Ctx(s), 1) IN r.ok => Size(r.n) = SubSeq(s, 1, r.pos - 1)
ASSUME ~ReadSize(Ctx(<<128, 128, 128, 128, 1>>), 1).ok /\ ~ReadSize(Ctx(<<128, 128, 128, 0>>), 1).ok /\ ~ReadSize(Ctx(<<128, 128>>), 1).ok
=============================================================================

SPECIFICATION Spec
CONSTANTS
  MaxLen = 3
INVARIANTS UniqueEncoding DepthConsistent PrefixOnly
PROPERTIES NoTrailing
CHECK_DEADLOCK FALSE

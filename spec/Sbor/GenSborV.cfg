SPECIFICATION Spec
CONSTANTS
  MaxNodes = 4
  MaxDepth = 3
INVARIANTS AllShaped RoundTrip EncoderDepth InvalidRejected IllKindedNotDecodedBack Emit
CHECK_DEADLOCK FALSE

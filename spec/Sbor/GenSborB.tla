------------------------------ MODULE GenSborB ------------------------------
(* G for C20/C21, byte side: every byte string of the MCSborB universe with the specification's
   verdict under the depth limits 0..5 and 64 and the decoded value; the harness runs the real
   decoder and traverser under each limit, compares verdicts and the decoded value, and
   re-encodes.  The MCSborB invariants are checked in the same run.                        *)
EXTENDS MCSborB, Json
Emit == LET a == Accept(f, b, 64) IN
        PrintT(<<"B", ToJson([f |-> f, b |-> b,
                              acc |-> [i \in 1..Len(Limits) |-> Accept(f, b, Limits[i])],
                              v |-> IF a THEN <<Dec(f, b)>> ELSE <<>>])>>)
=============================================================================

SPECIFICATION Spec
CONSTANTS
  MaxLen = 3
INVARIANTS UniqueEncoding DepthConsistent PrefixOnly Emit
PROPERTIES NoTrailing
CHECK_DEADLOCK FALSE

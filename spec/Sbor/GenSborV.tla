------------------------------ MODULE GenSborV ------------------------------
(* G for C20/C21, value side: every value tree of the MCSborV universe is printed with what the
   specification says about it; the harness builds the real sbor::Value, runs the real encoder /
   decoder / traverser and reports every difference.  The MCSborV invariants are checked in the
   same run (S and G share one exploration).                                               *)
EXTENDS MCSborV, Json
Emit == PrintT(<<"B", ToJson([f |-> f, v |-> v, enc |-> Enc(f, v), depth |-> Depth(v),
                              wk |-> WellKinded(v), cv |-> ContentValid(f, v)])>>)
=============================================================================

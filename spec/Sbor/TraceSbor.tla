------------------------------ MODULE TraceSbor ------------------------------
(* impl -> spec for C20 / C21: recorded traffic of the real SBOR Value codec (stateless calls).
   Event kinds
     "bytes": a payload b given to the decoder and the traverser under the depth limits d and 64;
              when it decoded: the re-encoded bytes, the encoder's verdict under limit d, the deepest
              level the traverser reported; peak heap taken; typed decoders for "never panics".
     "val"  : a value tree v built by the harness given to the encoder under limit d, and what the
              decoder made of the encoder's output.
   Prop selects the property whose conjuncts are checked ("C20": format, round trip, unique
   encoding; "C21": totality, agreement of the three consumers, depth, allocation).        *)
EXTENDS Sbor, TraceIO
CONSTANT Prop
VARIABLE l

Min(a, b) == IF a < b THEN a ELSE b
\* decoding may pre-allocate up to 1024 elements per nesting level and keeps one Value per element
AllocBound(ev) == 4 * ev.vsz * Len(ev.b) + 1024 * ev.vsz * Min(64, Len(ev.b)) + 65536

BytesChecks(ev) ==
  LET r64 == Parse(ev.f, ev.b, 64)
      a64 == r64.ok
      ad  == Accept(ev.f, ev.b, ev.d)
  IN IF Prop = "C20" THEN
       << <<"decode-accepts-exactly-the-format", ev.dec64 = a64>>,
          <<"reencode-identical", a64 => (ev.re = ev.b /\ Enc(ev.f, r64.v) = ev.b)>> >>
     ELSE
       << <<"panic", ~ev.panic>>,
          <<"dec64", ev.dec64 = a64>>, <<"trav64", ev.trav64 = a64>>,
          <<"dec", ev.dec = ad>>, <<"trav", ev.trav = ad>>,
          <<"depth-law", DepthLaw(ev.f, ev.b, ev.d)>>,
          <<"enc", a64 => (ev.enc = EncodeOk(r64.v, ev.d))>>,
          <<"tdepth", a64 => ev.tdepth = Depth(r64.v)>>,
          <<"alloc", ev.peak <= AllocBound(ev)>> >>

ValChecks(ev) ==
  IF Prop = "C20" THEN
    << <<"shaped", Shaped(ev.f, ev.v)>>,
       <<"encoded-bytes", ev.enc => ev.b = Enc(ev.f, ev.v)>>,
       <<"roundtrip", ev.enc => (ev.dec /\ ev.back = <<ev.v>>)>> >>
  ELSE
    << <<"panic", ~ev.panic>>,
       <<"enc", ev.enc = EncodeOk(ev.v, ev.d)>> >>

Checks(ev) == CASE ev.k = "bytes" -> BytesChecks(ev) [] ev.k = "val" -> ValChecks(ev) [] OTHER -> << <<"unknown-event", FALSE>> >>
Failed(ev) == LET c == Checks(ev) IN [i \in {j \in 1..Len(c) : ~c[j][2]} |-> c[i][1]]
TInit == l = 1
TNext == /\ l <= Len(Rec)
         /\ LET bad == Failed(Rec[l]) IN
            IF DOMAIN bad = {} THEN TRUE ELSE PrintT(<<"BAD", l>>) /\ PrintT(<<"WHY", l, {bad[i] : i \in DOMAIN bad}>>)
         /\ l' = l + 1
TSpec == TInit /\ [][TNext]_l
Post == PrintT(<<"DONE", TLCGet("stats").diameter - 1>>)
=============================================================================

SPECIFICATION Spec
CONSTANTS
  MaxNodes = 4
  MaxDepth = 3
INVARIANTS AllShaped RoundTrip EncoderDepth InvalidRejected IllKindedNotDecodedBack
CHECK_DEADLOCK FALSE

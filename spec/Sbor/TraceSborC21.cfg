SPECIFICATION TSpec
CONSTANTS
  Prop = "C21"
POSTCONDITION Post
CHECK_DEADLOCK FALSE

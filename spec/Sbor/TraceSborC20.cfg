SPECIFICATION TSpec
CONSTANTS
  Prop = "C20"
POSTCONDITION Post
CHECK_DEADLOCK FALSE

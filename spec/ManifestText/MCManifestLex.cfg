SPECIFICATION Spec
INVARIANTS AcceptsExactly NeverPanic Deterministic ErrHasDiagnostics
CHECK_DEADLOCK FALSE

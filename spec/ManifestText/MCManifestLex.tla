--------------------------- MODULE MCManifestLex ---------------------------
(* C31, S step: the definitions of ManifestLex checked on a bounded universe.
   (1) the outcome predicate accepts exactly the two intended records out of the complete
       universe of per-kind outcome records the harness can log (all reachable `done` states of
       the observation session below) and rejects every record that mentions "panic" or a
       disagreement;
   (2) layout laws: every layout renders at least n lines, the payload starts on line `at`,
       only the last line may lack a terminator, every terminator style occurs, and the
       regression family (CRLF terminators, payload after line 1) is part of every case set;
   (3) alphabet laws: names unique, every class inhabited, template edits within 6 tokens. *)
EXTENDS ManifestLex
VARIABLES o, pc
(* One observation session of the harness for one (text, kind), as a state machine: the
   compiler is an unknown total-or-panicking function, so every step may produce any class.
   The reachable `done` states are the complete universe of records the harness can log.   *)
CC == {"ok", "err", "panic"}
U == "unset"
Init == pc = "compile1" /\ o = [c |-> <<U, U>>, same |-> FALSE, d |-> <<<<U, U>>, <<U, U>>>>, dsame |-> <<TRUE, TRUE>>, p |-> U, psame |-> FALSE]
Compile1 == pc = "compile1" /\ \E x \in CC : o' = [o EXCEPT !.c[1] = x] /\ pc' = "compile2"
Compile2 == pc = "compile2" /\ \E x \in CC, b \in BOOLEAN : o' = [o EXCEPT !.c[2] = x, !.same = b] /\ pc' = "diag1"
Diag(s, next) ==
  /\ pc = IF s = 1 THEN "diag1" ELSE "diag2"
  /\ IF o.c[1] = "err"
     THEN \E x, y \in {"string", "panic"}, b \in BOOLEAN : o' = [o EXCEPT !.d[s] = <<x, y>>, !.dsame[s] = b]
     ELSE o' = [o EXCEPT !.d[s] = <<"none", "none">>]
  /\ pc' = next
Pretty == pc = "pretty" /\ \E x \in {"ok", "string", "panic"}, b \in BOOLEAN : o' = [o EXCEPT !.p = x, !.psame = b] /\ pc' = "done"
Next == Compile1 \/ Compile2 \/ Diag(1, "diag2") \/ Diag(2, "pretty") \/ Pretty
Spec == Init /\ [][Next]_<<o, pc>>

NN == <<"none", "none">>
SS == <<"string", "string">>
OkFamily == {[c |-> <<"ok", "ok">>, same |-> TRUE, d |-> <<NN, NN>>, dsame |-> <<TRUE, TRUE>>, p |-> "ok", psame |-> TRUE]}
ErrFamily == {[c |-> <<"err", "err">>, same |-> TRUE, d |-> <<SS, SS>>, dsame |-> <<TRUE, TRUE>>, p |-> "string", psame |-> TRUE]}
Mentions(x, w) == \/ x.c[1] = w \/ x.c[2] = w \/ x.p = w
                  \/ \E s \in 1..2, r \in 1..2 : x.d[s][r] = w
Done == pc = "done"
AcceptsExactly == Done => (KindOk(o) <=> o \in OkFamily \cup ErrFamily)
NeverPanic == Done /\ KindOk(o) => ~Mentions(o, "panic")
Deterministic == Done /\ KindOk(o) => o.c[1] = o.c[2] /\ o.same /\ o.psame /\ (o.c[1] = "err" => o.dsame = <<TRUE, TRUE>>)
ErrHasDiagnostics == Done /\ KindOk(o) /\ o.c[1] = "err" => \A s \in 1..2, r \in 1..2 : o.d[s][r] = "string"
\* non-vacuity: both accepted families and rejected records are reachable
ReachOk == ~(Done /\ o \in OkFamily)
ReachErr == ~(Done /\ o \in ErrFamily)

\* ---- layout laws (constant level)
SampleTexts == {<<"A">>, <<"A", "B">>, <<"A", "B", "C", "D", "E", "F">>}
LineOfPayload(rc) == CHOOSE i \in 1..Len(rc.lines) : Len(rc.lines[i]) > 0 /\ rc.lines[i][1] = "A"
ASSUME LayoutLaws ==
  \A l \in AllLayouts, tx \in SampleTexts :
    LET rc == Render(tx, l) IN
      /\ Len(rc.lines) >= l.n /\ Len(rc.terms) = Len(rc.lines)
      /\ LineOfPayload(rc) = l.at
      /\ \A i \in 1..Len(rc.terms) : (rc.terms[i] = "" => i = Len(rc.terms) /\ ~l.last)
      /\ \A i \in 1..Len(rc.terms) - 1 : rc.terms[i] \in {"LF", "CRLF", "CR", "LFCR"}
      /\ (l.spread => \A j \in 1..Len(tx) : rc.lines[l.at + j - 1] = <<tx[j]>>)
ASSUME EveryTerminator ==
  \A t \in {"LF", "CRLF", "CR", "LFCR"} : \E l \in AllLayouts : \E i \in 1..3 : TermOf(l.term, i) = t
ASSUME Cardinality(AllLayouts) = 7 * 6 * 2 * 2 * 4 /\ NL = Cardinality(AllLayouts)
ASSUME BoundaryFamily ==
  /\ Cardinality(BoundaryLayouts) = 4 * 6 * 2
  /\ \A at \in {1, 6, 7, 12}, t \in TermStyles, b \in BOOLEAN : \E l \in BoundaryLayouts : l.at = at /\ l.term = t /\ l.last = b
  /\ ExtraFixed \subseteq AllLayouts /\ \E l \in ExtraFixed : l.at = 6 /\ l.term = "CRLF"
ASSUME RegressionFamily ==
  /\ \E l \in FixedLayouts : l.term = "CRLF" /\ l.at > 1 /\ ~l.spread
  /\ \E l \in FixedLayouts : l.term = "CRLF" /\ l.at > 1 /\ l.spread
  /\ \A s \in {<<1>>, <<2, 3>>, <<NA, 1, NA>>} : FixedLayouts \subseteq LayoutsFor(s, 2) /\ LayoutsFor(s, 2) \subseteq AllLayouts
\* ---- alphabet laws
ASSUME AlphabetLaws ==
  /\ \A i, j \in 1..NA : Alphabet[i].n = Alphabet[j].n => i = j
  /\ \A i, j \in 1..NA : Alphabet[i].t = Alphabet[j].t => i = j
  /\ \A c \in Classes : OfClass(c) # {}
  /\ \A i \in 1..NA : Alphabet[i].c \in Classes
  /\ Cardinality(Core) = Cardinality(CoreNames)
  /\ \A k \in 1..Len(Templates) : \A j \in 1..Len(Templates[k]) : Templates[k][j] \in Names
  /\ \A k \in 1..Len(Templates) : Len(Templates[k]) <= MaxTokens /\ IsTemplateSeq(TIdx[k], {})
=============================================================================

------------------------------ MODULE ManifestLex ------------------------------
(* C31 -- lexical layer of the manifest text specification.

   The manifest compiler (radix-transactions/src/manifest: lexer.rs, parser.rs, generator.rs,
   compiler.rs, diagnostic_snippets.rs) is a total function of the text:

       Compile(text, kind)            \in {Ok, Err}            never Panic
       Err => Diagnostics(text, err, style) \in String         for both styles, never Panic
       two calls with the same arguments agree

   This module defines (1) the token alphabet the cases are built from, (2) line-layout
   schemes and the rendering of a case into lines with explicit terminators, (3) the
   property as a predicate `OutcomeOk` over a recorded outcome.

   Text notation: token texts are ASCII TLA+ strings; `~XXXXXX` (tilde + exactly six upper-case
   hex digits) stands for the Unicode scalar value U+XXXXXX (the harness expands it - TLC does
   not print non-ASCII strings faithfully).  Line terminators never occur inside token texts
   except through this notation; lines are separated by named terminators (LF, CRLF, CR ...). *)
EXTENDS Integers, Sequences, FiniteSets, TLC, SequencesExt

T(n, c, t) == [n |-> n, c |-> c, t |-> t]

GoodAccount == "account_sim1cyvgx33089ukm2pl97pv4max0x40ruvfy4lt60yvya744cve475w0q"
GoodResource == "resource_sim1tknxxxxxxxxxradxrdxxxxxxxxx009923554798xxxxxxxxxakj8n3"
GoodHash == "a948904f2f0f479b8f8197694b30184b0d2ed1c1cd2a1ec0fb85d299a192a447"

\* ----------------------------------------------------------------------------------------
\* classes: "instr" instruction names, "type" value/type names, "punct", "lit" well-formed
\* literals, "badlit" malformed literals, "uni" non-ASCII / odd characters outside strings,
\* "comment", "phrase" multi-token chunks (well-formed or failing in the generator).
Instr == <<
  T("call_method", "instr", "CALL_METHOD"), T("call_function", "instr", "CALL_FUNCTION"),
  T("take_from_worktop", "instr", "TAKE_FROM_WORKTOP"), T("take_all", "instr", "TAKE_ALL_FROM_WORKTOP"),
  T("return_to_worktop", "instr", "RETURN_TO_WORKTOP"), T("drop_all_proofs", "instr", "DROP_ALL_PROOFS"),
  T("create_validator", "instr", "CREATE_VALIDATOR"), T("use_child", "instr", "USE_CHILD"),
  T("use_prealloc", "instr", "USE_PREALLOCATED_ADDRESS"), T("yield_to_parent", "instr", "YIELD_TO_PARENT"),
  T("yield_to_child", "instr", "YIELD_TO_CHILD"), T("verify_parent", "instr", "VERIFY_PARENT"),
  T("allocate", "instr", "ALLOCATE_GLOBAL_ADDRESS"), T("assert_empty", "instr", "ASSERT_WORKTOP_IS_EMPTY"),
  T("pop_auth", "instr", "POP_FROM_AUTH_ZONE"), T("clone_proof", "instr", "CLONE_PROOF"),
  T("set_metadata", "instr", "SET_METADATA"), T("assert_only", "instr", "ASSERT_WORKTOP_RESOURCES_ONLY"),
  T("recall_from_vault", "instr", "RECALL_FROM_VAULT"), T("lower_instr", "instr", "call_method") >>

Types == <<
  T("Enum", "type", "Enum"), T("Array", "type", "Array"), T("Tuple", "type", "Tuple"), T("Map", "type", "Map"),
  T("Some", "type", "Some"), T("None", "type", "None"), T("Ok", "type", "Ok"), T("Err", "type", "Err"),
  T("Bytes", "type", "Bytes"), T("Address", "type", "Address"), T("Bucket", "type", "Bucket"),
  T("Proof", "type", "Proof"), T("Expression", "type", "Expression"), T("Blob", "type", "Blob"),
  T("Decimal", "type", "Decimal"), T("PreciseDecimal", "type", "PreciseDecimal"),
  T("NonFungibleLocalId", "type", "NonFungibleLocalId"), T("NonFungibleGlobalId", "type", "NonFungibleGlobalId"),
  T("AddressReservation", "type", "AddressReservation"), T("NamedAddress", "type", "NamedAddress"),
  T("Intent", "type", "Intent"), T("NamedIntent", "type", "NamedIntent"),
  T("U8", "type", "U8"), T("String", "type", "String"), T("Bool", "type", "Bool"), T("I128", "type", "I128"),
  T("unknown_ident", "type", "Foo_bar::baz") >>

Punct == <<
  T("lpar", "punct", "("), T("rpar", "punct", ")"), T("lt", "punct", "<"), T("gt", "punct", ">"),
  T("comma", "punct", ","), T("semi", "punct", ";"), T("fatarrow", "punct", "=>"),
  T("lone_eq", "punct", "="), T("eq_space_gt", "punct", "= >"), T("lbrace", "punct", "{"), T("rbrace", "punct", "}"),
  T("amp", "punct", "&"), T("lbracket", "punct", "["), T("dot", "punct", "."), T("dollar", "punct", "${x}"),
  T("colon", "punct", ":"), T("underscore", "punct", "_x") >>

Lit == <<
  T("true", "lit", "true"), T("false", "lit", "false"), T("u8_0", "lit", "0u8"), T("u8_max", "lit", "255u8"),
  T("i8_min", "lit", "-128i8"), T("i8_neg0", "lit", "-0i8"), T("u32", "lit", "7u32"),
  T("i128_min", "lit", "-170141183460469231731687303715884105728i128"),
  T("u128_max", "lit", "340282366920938463463374607431768211455u128"),
  T("str_empty", "lit", "\"\""), T("str_abc", "lit", "\"abc\""), T("str_esc", "lit", "\"a\\\"b\\\\c\\/\\b\\f\\n\\r\\t\""),
  T("str_u", "lit", "\"\\u0041\\u00e9\\u20ac\""), T("str_pair", "lit", "\"\\uD83D\\uDE00\""),
  T("str_hash", "lit", "\"# not a comment\""),
  T("str_uni", "lit", "\"~0000E9~0020AC~01F600\""), T("str_comb", "lit", "\"e~000301~00200D\""),
  T("str_rtl", "lit", "\"~0005D0~0005D1~00202E\""), T("str_wide", "lit", "\"~004E2D~00FF08\""),
  T("str_ctl", "lit", "\"~000000~000007~00001B\""), T("str_tab", "lit", "\"a~000009b\""),
  T("str_nl", "lit", "\"line~00000Abreak\""), T("str_crlf", "lit", "\"line~00000D~00000Abreak\""),
  T("str_ls", "lit", "\"~002028~000085~00000C\"") >>

BadLit == <<
  T("u8_over", "badlit", "256u8"), T("i8_under", "badlit", "-129i8"), T("u9", "badlit", "1u9"),
  T("i12", "badlit", "1i12"), T("i1", "badlit", "1i1"), T("u_", "badlit", "1u"), T("i_", "badlit", "1i"),
  T("untyped", "badlit", "1"), T("lead0", "badlit", "00u8"), T("lone_minus", "badlit", "-"),
  T("minus_minus", "badlit", "--1u8"), T("minus_a", "badlit", "-a"), T("neg_u8", "badlit", "-1u8"),
  T("u128_over", "badlit", "340282366920938463463374607431768211456u128"),
  T("huge", "badlit", "999999999999999999999999999999999999999999999999999999999999i128"),
  T("huge_untyped", "badlit", "123456789012345678901234567890123456789012345678901234567890"),
  T("float", "badlit", "1.5"), T("u8_suffix", "badlit", "5u8u8"), T("u128x", "badlit", "1u128x"),
  T("uni_suffix", "badlit", "1u~0000E9"),
  T("str_unterminated", "badlit", "\"abc"), T("str_unterminated_bs", "badlit", "\"abc\\"),
  T("str_bad_escape", "badlit", "\"a\\qb\""), T("str_bad_escape_uni", "badlit", "\"a\\~0020AC\""),
  T("str_u_brace", "badlit", "\"\\u{1F600}\""), T("str_u_short", "badlit", "\"\\u12\""),
  T("str_u_eof", "badlit", "\"\\u"), T("str_u_nonhex", "badlit", "\"\\u00~0000E9~0000E9\""),
  T("str_lone_hi", "badlit", "\"\\uD800\""), T("str_lone_lo", "badlit", "\"\\uDC00x\""),
  T("str_hi_then_bmp", "badlit", "\"\\uD800\\u0041\""), T("str_lo_lo", "badlit", "\"\\uDC00\\uDC00\""),
  T("str_pair_over", "badlit", "\"\\uDBFF\\uFFFF\""), T("str_hi_eof", "badlit", "\"\\uD800\\u"),
  T("str_hi_bs_x", "badlit", "\"\\uD800\\x\""),
  T("single_quote", "badlit", "'abc'") >>

Uni == <<
  T("u2", "uni", "~0000E9"), T("u3", "uni", "~0020AC"), T("u4", "uni", "~01F600"),
  T("combining", "uni", "e~000301"), T("rtl", "uni", "~0005D0~0005D1"), T("rlo", "uni", "~00202E"),
  T("wide", "uni", "~004E2D"), T("fw_paren", "uni", "~00FF08"), T("bom", "uni", "~00FEFF"),
  T("nul", "uni", "~000000"), T("nbsp", "uni", "~0000A0"), T("ls", "uni", "~002028"), T("nel", "uni", "~000085"),
  T("ff", "uni", "~00000C"), T("tab_x", "uni", "~000009~000009@"), T("max_cp", "uni", "~10FFFF"),
  T("ident_uni", "uni", "CALL_METH~0000D6D") >>

Comment == <<
  T("comment", "comment", "# comment ; \" ( "), T("comment_uni", "comment", "#~0020AC~01F600 e~000301"),
  T("comment_empty", "comment", "#") >>

Ph(n, t) == T(n, "phrase", t)
Phrase == <<
  Ph("addr_ok", "Address(\"" \o GoodAccount \o "\")"), Ph("addr_res", "Address(\"" \o GoodResource \o "\")"),
  Ph("addr_bad", "Address(\"garbage\")"), Ph("addr_uni", "Address(\"account_sim1~0020AC\")"),
  Ph("addr_empty", "Address(\"\")"), Ph("addr_int", "Address(1u8)"), Ph("addr_two", "Address(\"a\", \"b\")"),
  Ph("dec_ok", "Decimal(\"1.5\")"), Ph("dec_sign", "Decimal(\"1.-5\")"), Ph("dec_bad", "Decimal(\"abc\")"),
  Ph("dec_huge", "Decimal(\"99999999999999999999999999999999999999999999999999999999999999\")"),
  Ph("dec_uni", "Decimal(\"~000661.5\")"), Ph("dec_empty", "Decimal()"),
  Ph("pdec_bad", "PreciseDecimal(\"1e5\")"),
  Ph("bucket_name", "Bucket(\"b1\")"), Ph("bucket_id", "Bucket(0u32)"), Ph("bucket_uni", "Bucket(\"~01F600\")"),
  Ph("proof_name", "Proof(\"p1\")"), Ph("resv", "AddressReservation(\"r1\")"), Ph("named_addr", "NamedAddress(\"a1\")"),
  Ph("intent", "Intent(\"subtxid_sim1x\")"), Ph("named_intent", "NamedIntent(\"c1\")"),
  Ph("blob_short", "Blob(\"deadbeef\")"), Ph("blob_missing", "Blob(\"" \o GoodHash \o "\")"),
  Ph("blob_odd", "Blob(\"abc\")"), Ph("blob_uni", "Blob(\"~0000E9~0000E9\")"),
  Ph("bytes_ok", "Bytes(\"00ff\")"), Ph("bytes_odd", "Bytes(\"abc\")"), Ph("bytes_bad", "Bytes(\"zz\")"),
  Ph("bytes_uni", "Bytes(\"~0020AC\")"),
  Ph("nfl_ok", "NonFungibleLocalId(\"#1#\")"), Ph("nfl_bad", "NonFungibleLocalId(\"bad\")"),
  Ph("nfl_uni", "NonFungibleLocalId(\"<~0000E9>\")"),
  Ph("nfg_bad", "NonFungibleGlobalId(\"x:#1#\")"), Ph("nfg_uni", "NonFungibleGlobalId(\"~0020AC\")"),
  Ph("expr_ok", "Expression(\"ENTIRE_WORKTOP\")"), Ph("expr_bad", "Expression(\"NOPE\")"),
  Ph("enum_ok", "Enum<0u8>()"), Ph("enum_alias", "Enum<AccessRule::AllowAll>()"), Ph("enum_unknown", "Enum<Foo>()"),
  Ph("enum_u16", "Enum<300u16>()"), Ph("enum_noparen", "Enum<1u8>"),
  Ph("array_ok", "Array<U8>(1u8, 2u8)"), Ph("array_mismatch", "Array<U8>(\"x\")"), Ph("array_notype", "Array<>()"),
  Ph("array_badtype", "Array<Foo>()"), Ph("array_two", "Array<U8, U8>()"),
  Ph("map_ok", "Map<U8, String>(1u8 => \"x\")"), Ph("map_one", "Map<U8>()"), Ph("map_noarrow", "Map<U8, U8>(1u8, 2u8)"),
  Ph("tuple_ok", "Tuple(1u8, \"x\")"), Ph("tuple_open", "Tuple(1u8,"), Ph("tuple_trailing", "Tuple(1u8,)"),
  Ph("some_ok", "Some(1u8)"), Ph("some_empty", "Some()"), Ph("nested", "Tuple(Some(Enum<1u8>(Array<Tuple>(Tuple()))))"),
  Ph("array_intent_kind", "Array<Intent>()"), Ph("array_named_intent_kind", "Array<NamedIntent>()"),
  Ph("f_name", "\"f\""), Ph("deep", "Some(Some(Some(Some(Some(Some(Some(Some(Some(Some(Some(Some(Some(Some(Some(Some(Some(Some(Some(Some(Some(Some(Some(Some(1u8))))))))))))))))))))))))")
  >>

Alphabet == Instr \o Types \o Punct \o Lit \o BadLit \o Uni \o Comment \o Phrase
NA == Len(Alphabet)
Texts == {Alphabet[i].t : i \in 1..NA}
Classes == {"instr", "type", "punct", "lit", "badlit", "uni", "comment", "phrase"}
OfClass(c) == {i \in 1..NA : Alphabet[i].c = c}

\* a reduced alphabet for exhaustive triples: one or two representatives per class
CoreNames == {"call_method", "create_validator", "drop_all_proofs", "Tuple", "Decimal", "lpar", "rpar", "lt",
              "semi", "comma", "lone_eq", "u8_0", "str_abc", "str_nl", "u9", "lone_minus", "str_unterminated",
              "str_bad_escape", "str_lone_hi", "u3", "u4", "combining", "comment", "addr_bad", "dec_bad",
              "bucket_name", "blob_missing", "bytes_odd"}
Core == {i \in 1..NA : Alphabet[i].n \in CoreNames}
\* a third of the alphabet (which third: `shift`) plus the core: the quick tier's alphabet
Mid(shift) == Core \cup {i \in 1..NA : (i + shift) % 3 = 0}

\* ----------------------------------------------------------------------------------------
\* Valid (or deep-reaching) instruction templates; cases are single-position edits of them.
Templates == <<
  <<"drop_all_proofs", "semi">>,
  <<"call_method", "addr_ok", "f_name", "semi">>,
  <<"call_method", "addr_ok", "f_name", "dec_ok", "tuple_ok", "semi">>,
  <<"call_function", "addr_ok", "f_name", "f_name", "u8_0", "semi">>,
  <<"take_from_worktop", "addr_res", "dec_ok", "bucket_name", "semi">>,
  <<"take_all", "addr_res", "bucket_name", "semi">>,
  <<"return_to_worktop", "bucket_name", "semi">>,
  <<"create_validator", "bytes_ok", "dec_ok", "bucket_name", "semi">>,
  <<"create_validator", "map_ok", "array_ok", "enum_ok", "semi">>,
  <<"create_validator", "str_uni", "str_esc", "str_nl", "semi">>,
  <<"use_child", "named_intent", "intent", "semi">>,
  <<"use_prealloc", "addr_ok", "f_name", "resv", "addr_ok", "semi">>,
  <<"allocate", "addr_ok", "f_name", "resv", "named_addr", "semi">>,
  <<"yield_to_parent", "expr_ok", "semi">>,
  <<"yield_to_child", "named_intent", "semi">>,
  <<"verify_parent", "enum_alias", "semi">>,
  <<"pop_auth", "proof_name", "semi">>,
  <<"set_metadata", "addr_ok", "str_abc", "enum_ok", "semi">>,
  <<"create_validator", "Tuple", "lpar", "u8_0", "rpar", "semi">>,
  <<"create_validator", "Enum", "lt", "u8_0", "gt", "lpar">>,
  <<"recall_from_vault", "addr_ok", "dec_ok", "semi">> >>
Names == {Alphabet[i].n : i \in 1..NA}
IdxOf == [n \in Names |-> CHOOSE i \in 1..NA : Alphabet[i].n = n]
\* (constant definitions without parameters are evaluated once by TLC; operators with
\*  parameters are re-evaluated at every use - keep the template table parameterless)
TIdx == [k \in 1..Len(Templates) |-> [j \in 1..Len(Templates[k]) |-> IdxOf[Templates[k][j]]]]
Subst(s, j, a) == [s EXCEPT ![j] = a]
Delete(s, j) == SubSeq(s, 1, j - 1) \o SubSeq(s, j + 1, Len(s))
Insert(s, j, a) == SubSeq(s, 1, j - 1) \o <<a>> \o SubSeq(s, j, Len(s))
MaxTokens == 6
\* x is the template s itself, a prefix of it, or s with one position replaced by / one
\* position deleted / one element of A inserted (length permitting).  Written as a predicate so
\* that TLC enumerates the edits as initial states instead of building (and sorting) the set.
IsEditOf(x, s, A) ==
  \/ \E j \in 1..Len(s) : x = SubSeq(s, 1, j)
  \/ \E j \in 1..Len(s), a \in A : x = Subst(s, j, a)
  \/ \E j \in 1..Len(s) : x = Delete(s, j)
  \/ Len(s) < MaxTokens /\ \E j \in 1..Len(s) + 1, a \in A : x = Insert(s, j, a)
IsTemplateSeq(x, A) == \E k \in 1..Len(Templates) : IsEditOf(x, TIdx[k], A)

\* ----------------------------------------------------------------------------------------
\* Line layouts.  A layout places the payload (a token sequence) at line `at` of a file of `n`
\* lines; the other lines are fillers; `term` names the terminator style; `last` says whether the
\* last line is terminated; `spread` puts every payload token on its own line (multi-line spans).
TermStyles == {"LF", "CRLF", "CR", "MIX3", "MIX2", "LFCR"}
Fills == {"instr", "comment", "blank", "uni"}
Shapes == {<<1, 1>>, <<6, 1>>, <<6, 6>>, <<12, 1>>, <<12, 6>>, <<12, 7>>, <<12, 12>>}   \* <<n, at>>
Layouts == [n : {1, 6, 12}, at : {1, 6, 7, 12}, term : TermStyles, last : BOOLEAN, spread : BOOLEAN, fill : Fills]
WellFormedLayout(l) == <<l.n, l.at>> \in Shapes
AllLayouts == {l \in Layouts : WellFormedLayout(l)}

\* terminator of the i-th line (1-based) under a style
TermOf(style, i) ==
  CASE style = "LF" -> "LF" [] style = "CRLF" -> "CRLF" [] style = "CR" -> "CR" [] style = "LFCR" -> "LFCR"
    [] style = "MIX3" -> <<"LF", "CRLF", "CR">>[(i % 3) + 1]
    [] style = "MIX2" -> <<"CRLF", "LF">>[(i % 2) + 1]
FillLine(f, i) ==
  CASE f = "instr" -> <<"DROP_ALL_PROOFS;">>
    [] f = "comment" -> <<"# filler line", "x">>
    [] f = "blank" -> <<>>
    [] f = "uni" -> <<"#", "h~0000E9llo", "~0020AC~01F600", "e~000301">>

\* Render: the sequence of lines (each a sequence of token texts, joined by one space by the
\* harness) and the sequence of terminator names ("" = none, only possible on the last line).
PayloadLines(texts, spread) ==
  IF spread THEN [j \in 1..Len(texts) |-> <<texts[j]>>] ELSE <<texts>>
Render(texts, l) ==
  LET pl == PayloadLines(texts, l.spread)
      before == [i \in 1..(l.at - 1) |-> FillLine(l.fill, i)]
      nafter == IF l.n - l.at - Len(pl) + 1 > 0 THEN l.n - l.at - Len(pl) + 1 ELSE 0
      after == [i \in 1..nafter |-> FillLine(l.fill, i)]
      lines == before \o pl \o after
      terms == [i \in 1..Len(lines) |-> IF i = Len(lines) /\ ~l.last THEN "" ELSE TermOf(l.term, i)]
  IN [lines |-> lines, terms |-> terms, at |-> l.at, term |-> l.term]

SeqTexts(s) == [j \in 1..Len(s) |-> Alphabet[s[j]].t]

\* The layouts every sequence is rendered with: plain single line, the regression family
\* (CRLF, payload on line 7 of 12 and on the last line, packed and spread), plus R rotating ones.
LayoutSeq == SetToSeq(AllLayouts)
NL == Len(LayoutSeq)
RECURSIVE SumSeq(_, _)
SumSeq(s, i) == IF i > Len(s) THEN 0 ELSE LET r == SumSeq(s, i + 1) IN (s[i] * i + r) % 100003
Rotating(s, r) == {LayoutSeq[((SumSeq(s, 1) * 31 + Len(s) * 7 + j * 97) % NL) + 1] : j \in 1..r}
FixedLayouts == {
  [n |-> 1, at |-> 1, term |-> "LF", last |-> FALSE, spread |-> FALSE, fill |-> "instr"],
  [n |-> 12, at |-> 7, term |-> "CRLF", last |-> TRUE, spread |-> FALSE, fill |-> "instr"],
  [n |-> 12, at |-> 12, term |-> "CRLF", last |-> FALSE, spread |-> TRUE, fill |-> "uni"] }

\* Every single token (every error class of the alphabet on its own) and every template edit also
\* gets the layouts next to the snippet window limit (payload on line 6 = last line shown in
\* full, 7 = first line with skipped prefix) and, for single tokens, the full product
\* payload line {1, 6, 7, 12} x terminator style x terminated / unterminated last line.
ExtraFixed == {
  [n |-> 12, at |-> 6, term |-> "CRLF", last |-> TRUE, spread |-> FALSE, fill |-> "instr"],
  [n |-> 6, at |-> 6, term |-> "MIX3", last |-> FALSE, spread |-> FALSE, fill |-> "comment"] }
BoundaryLayouts == {l \in AllLayouts : l.n = 12 /\ ~l.spread /\ l.fill = "instr"}
LayoutsFor(s, r) == FixedLayouts \cup Rotating(s, r)
Case(s, l) == Render(SeqTexts(s), l) @@ [names |-> [j \in 1..Len(s) |-> Alphabet[s[j]].n]]

\* ----------------------------------------------------------------------------------------
\* The property over a recorded outcome.  For one text the harness records, per manifest kind,
\*   c  = <<class of 1st compile, class of 2nd compile>>   class \in {"ok","err","panic"}
\*   same = the two results are equal (==) ;
\*   d  = for each style <<class of 1st rendering, 2nd rendering>>, class \in {"string","panic","none"}
\*        ("none": not applicable because the compile did not return an error) ;
\*   dsame = per style: the two renderings are equal ;
\*   p  = class of compile_any_manifest_with_pretty_error \in {"ok","string","panic"}, psame: equals
\*        the two-step result.
Kinds == {"V1", "SystemV1", "V2", "SubintentV2"}
Styles == {"PlainText", "TextTerminalColors"}
KindOk(o) ==
  /\ o.c[1] \in {"ok", "err"} /\ o.c[2] = o.c[1] /\ o.same
  /\ IF o.c[1] = "err"
     THEN /\ \A s \in 1..2 : o.d[s][1] = "string" /\ o.d[s][2] = "string" /\ o.dsame[s]
          /\ o.p = "string" /\ o.psame
     ELSE /\ \A s \in 1..2 : o.d[s][1] = "none" /\ o.d[s][2] = "none"
          /\ o.p = "ok" /\ o.psame
OutcomeOk(ev) == Len(ev.k) = 4 /\ \A i \in 1..4 : KindOk(ev.k[i])
=============================================================================

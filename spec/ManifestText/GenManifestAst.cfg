SPECIFICATION GSpec
CONSTANTS
  Mode = "struct"
  K = 2
  ShapeSet = {1}
  Prefixed = FALSE
  FamSet = {"v1", "sys", "v2"}
INVARIANT Emit
CHECK_DEADLOCK FALSE

SPECIFICATION GSpec
CONSTANTS
  Mode = "struct"
  K = 2
  ShapeLo = 1
  ShapeHi = 1
  Prefixed = FALSE
INVARIANT Emit
CHECK_DEADLOCK FALSE

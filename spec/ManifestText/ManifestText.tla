------------------------------ MODULE ManifestText ------------------------------
(* The manifest text specification (C30, C31).  Two layers, each in its own module:

     ManifestLex  -- lexical layer: token alphabet (instruction and type names, punctuation,
                     well-formed and malformed literals, non-ASCII characters, comments,
                     multi-token phrases), line layouts with every terminator style, rendering,
                     and C31's property as a predicate over a recorded outcome (OutcomeOk);
     ManifestAst  -- abstract syntax: value trees, instructions per manifest kind, headers,
                     the object lifecycle state machine that makes generated manifests
                     compilable, object naming, and C30's round-trip law (RoundTripOk).

   MC*/Gen*/Trace* modules extend the layer they need; this module only ties the two
   together and states that they can be used side by side (no clashing definitions).     *)
EXTENDS ManifestLex, ManifestAst
=============================================================================

--------------------------- MODULE GenManifestLex ---------------------------
(* C31 case generator.  Mode "seq": all token sequences over `Alpha` up to length K (BFS) or
   random ones (-simulate with Rand = TRUE); Mode "tmpl": all single edits of the instruction
   templates.  Every sequence is printed once per layout of LayoutsFor(seq, R) as a rendered
   case (the harness joins the tokens of a line with one space and appends the terminator). *)
EXTENDS ManifestLex, Json
CONSTANTS Mode, AlphaName, K, R, Shift, Rand
VARIABLES seq, tk        \* tk: 0 = no template chosen yet, k = template k chosen, -1 = edited
Alpha == IF AlphaName = "core" THEN Core ELSE IF AlphaName = "mid" THEN Mid(Shift) ELSE 1..NA
GInit == seq = <<>> /\ tk = 0
\* Rand (used with -simulate): one random successor per step, because TLC evaluates the
\* invariant (which prints) on every generated successor, not only on the chosen one
Extend == /\ Mode = "seq" /\ Len(seq) < K /\ UNCHANGED tk
          /\ \E a \in (IF Rand THEN {RandomElement(Alpha)} ELSE Alpha) : seq' = Append(seq, a)
\* two steps so that the edits of different templates are produced by different TLC workers
ChooseTemplate == Mode = "tmpl" /\ tk = 0 /\ tk' \in 1..Len(Templates) /\ seq' = TIdx[tk']
EditTemplate == Mode = "tmpl" /\ tk > 0 /\ tk' = -1 /\ IsEditOf(seq', TIdx[tk], Alpha)
GNext == Extend \/ ChooseTemplate \/ EditTemplate
GSpec == GInit /\ [][GNext]_<<seq, tk>>
Emit == Len(seq) >= 1 => \A l \in LayoutsFor(seq, R) : PrintT(<<"B", ToJson(Case(seq, l))>>)
\* the alphabet itself (for the token-level mutation driver)
ASSUME PrintT(<<"A", ToJson([i \in 1..NA |-> Alphabet[i].t])>>)
=============================================================================

--------------------------- MODULE GenManifestLex ---------------------------
(* C31 case generator.  Mode "seq": all token sequences over `Alpha` up to length K (BFS) or (Mode "cross") all single
   tokens and all pairs touching the core alphabet, or
   random ones (-simulate with Rand = TRUE); Mode "tmpl": all single edits of the instruction
   templates.  Every sequence is printed once per layout of LayoutsFor(seq, R) as a rendered
   case (the harness joins the tokens of a line with one space and appends the terminator). *)
EXTENDS ManifestLex, Json
CONSTANTS Mode, AlphaName, K, R, Shift, Rand, TemplateSet
VARIABLES seq, tk        \* tk: 0 = no template chosen yet, k = template k chosen, -1 = edited
Alpha == IF AlphaName = "core" THEN Core ELSE IF AlphaName = "mid" THEN Mid(Shift) ELSE 1..NA
GInit == seq = <<>> /\ tk = 0
\* Rand (used with -simulate): one random successor per step, because TLC evaluates the
\* invariant (which prints) on every generated successor, not only on the chosen one
Extend == /\ Mode = "seq" /\ Len(seq) < K /\ UNCHANGED tk
          /\ \E a \in (IF Rand THEN {RandomElement(Alpha)} ELSE Alpha) : seq' = Append(seq, a)
\* Mode "cross": every single alphabet element, and every pair with at least one element of the
\* structural core (keywords, punctuation, one literal of each class) - independent of any seed
Cross == /\ Mode = "cross" /\ Len(seq) < 2 /\ UNCHANGED tk
         /\ \E a \in (IF seq = <<>> \/ seq[1] \in Core THEN 1..NA ELSE Core) : seq' = Append(seq, a)
\* two steps so that the edits of different templates are produced by different TLC workers
ChooseTemplate == Mode = "tmpl" /\ tk = 0 /\ tk' \in (TemplateSet \cap (1..Len(Templates))) /\ seq' = TIdx[tk']
EditTemplate == Mode = "tmpl" /\ tk > 0 /\ tk' = -1 /\ IsEditOf(seq', TIdx[tk], Alpha)
GNext == Extend \/ Cross \/ ChooseTemplate \/ EditTemplate
GSpec == GInit /\ [][GNext]_<<seq, tk>>
LayoutsOf == LayoutsFor(seq, R)
             \cup (IF Len(seq) = 1 THEN ExtraFixed \cup BoundaryLayouts ELSE {})
             \cup (IF Mode = "tmpl" THEN ExtraFixed ELSE {})
Emit == Len(seq) >= 1 => \A l \in LayoutsOf : PrintT(<<"B", ToJson(Case(seq, l))>>)
\* the alphabet itself (for the token-level mutation driver)
ASSUME PrintT(<<"A", ToJson([i \in 1..NA |-> Alphabet[i].t])>>)
=============================================================================

SPECIFICATION GSpec
CONSTANTS
  Mode = "struct"
  K = 3
  ShapeSet = {1}
  Prefixed = FALSE
  FamSet = {"v1", "sys", "v2"}
INVARIANTS Replays DeclaredBeforeUse ConsumedOnce NamesComplete LengthBound
CHECK_DEADLOCK FALSE

SPECIFICATION GSpec
CONSTANTS
  Mode = "struct"
  K = 3
  ShapeLo = 1
  ShapeHi = 1
  Prefixed = FALSE
INVARIANTS Replays DeclaredBeforeUse ConsumedOnce NamesComplete LengthBound
CHECK_DEADLOCK FALSE

--------------------------- MODULE MCManifestAst ---------------------------
(* C30, S step: the manifest state machine (GenManifestAst, Mode "struct", bounded length)
   checked against independent statements of what a compilable manifest is:
     - Replays: the incremental lifecycle state equals the functional replay of the instruction
       list from the header (and is never the invalid state);
     - DeclaredBeforeUse: every object id an instruction mentions was created by an earlier
       instruction (or by the header), counted directly on the instruction list;
     - ConsumedOnce: no bucket / proof / reservation id is mentioned after the instruction
       that consumed it;
     - NamesComplete: the expected object names list one name per created object, pairwise
       distinct within a class;
   and the round-trip law predicate is checked on a bounded universe of outcome records:
   it accepts the ideal outcome and rejects every single-field corruption of it.              *)
EXTENDS GenManifestAst
Replays == st = Replay(St0(pre, children), ins, 1) /\ ~IsBad(st) /\ WellFormed(fam, pre, children, ins)

Creates(i, class) ==
  CASE class = "Bucket" -> i.op \in {"TakeFromWorktop", "TakeNonFungiblesFromWorktop", "TakeAllFromWorktop"}
    [] class = "Proof" -> i.op \in {"CreateProofFromBucketOfAmount", "CreateProofFromBucketOfNonFungibles", "CreateProofFromBucketOfAll",
                                    "CreateProofFromAuthZoneOfAmount", "CreateProofFromAuthZoneOfNonFungibles",
                                    "CreateProofFromAuthZoneOfAll", "PopFromAuthZone", "CloneProof"}
    [] class = "AddressReservation" -> i.op = "AllocateGlobalAddress"
    [] class = "NamedAddress" -> i.op = "AllocateGlobalAddress"
CreatedBefore(j, class) == Cardinality({x \in 1..(j - 1) : Creates(ins[x], class)}) + (IF class = "AddressReservation" THEN pre ELSE 0)
Mentions(i, class) ==
  ArgObjs(i, class)
  \cup (IF class = "Bucket" /\ i.bucket >= 0 THEN {i.bucket} ELSE {})
  \cup (IF class = "Proof" /\ i.proof >= 0 THEN {i.proof} ELSE {})
  \cup (IF class = "NamedAddress" /\ i.addr.named >= 0 THEN {i.addr.named} ELSE {})
ObjClasses == {"Bucket", "Proof", "AddressReservation", "NamedAddress"}
DeclaredBeforeUse ==
  \A j \in 1..Len(ins) : /\ \A c \in ObjClasses : \A id \in Mentions(ins[j], c) : id >= 0 /\ id < CreatedBefore(j, c)
                         /\ (ins[j].op = "YieldToChild" => ins[j].child \in 0..(children - 1))
Consumes(i, class) ==
  (IF i.op \in CallOps THEN ArgObjs(i, class) ELSE {})
  \cup (IF class = "Bucket" /\ i.op \in {"ReturnToWorktop", "BurnResource"} THEN {i.bucket} ELSE {})
  \cup (IF class = "Proof" /\ i.op \in {"DropProof", "PushToAuthZone"} THEN {i.proof} ELSE {})
ConsumedOnce ==
  \A c \in {"Bucket", "Proof", "AddressReservation"} :
    \A j \in 1..Len(ins) : \A id \in Consumes(ins[j], c) : \A x \in (j + 1)..Len(ins) : id \notin Mentions(ins[x], c)
NamesComplete ==
  \A s \in {"default", "uni", "quote", "ch12"} :
    LET e == ExpectedNames(st, s) c == Counts(st) IN
      \A cl \in DOMAIN Prefix : Len(e[cl]) = c[cl] /\ \A a, b \in 1..Len(e[cl]) : e[cl][a] = e[cl][b] => a = b
LengthBound == Len(ins) <= K

\* ---- the law predicate on a bounded universe of outcomes
Ideal(exp) == [dec |-> "ok", comp |-> "ok", eq |-> TRUE, eq_ins |-> TRUE, eq_blobs |-> TRUE, eq_children |-> TRUE, eq_pre |-> TRUE,
               eq_names |-> TRUE, eq_bytes |-> TRUE, fix |-> TRUE, encodable |-> TRUE, names |-> exp]
E1 == [buckets |-> <<"bucket1">>, proofs |-> <<>>, resv |-> <<>>, addrs |-> <<>>, intents |-> <<>>]
E2 == [buckets |-> <<"bucket2">>, proofs |-> <<>>, resv |-> <<>>, addrs |-> <<>>, intents |-> <<>>]
BoolFields == {"eq", "eq_ins", "eq_blobs", "eq_children", "eq_pre", "eq_names", "eq_bytes", "fix"}
Flip(p, f) == [x \in DOMAIN p |-> IF x = f THEN ~p[x] ELSE p[x]]
ASSUME LawAcceptsIdeal == \A s \in NameStyles : PartOk(Ideal(E1), E1, s, "ok", 3)
ASSUME LawRejectsCorruptions ==
  /\ \A f \in BoolFields : ~PartOk(Flip(Ideal(E1), f), E1, "default", "ok", 3)
  /\ \A f \in BoolFields \ {"eq", "eq_names", "eq_bytes"} : ~PartOk(Flip(Ideal(E1), f), E1, "unknown", "ok", 3)
  /\ \A f \in {"eq", "eq_names", "eq_bytes"} : PartOk(Flip(Ideal(E1), f), E1, "unknown", "ok", 3)
  /\ ~PartOk(Ideal(E2), E1, "default", "ok", 3) /\ ~PartOk(Ideal(E2), E1, "unknown", "ok", 3)
  /\ ~PartOk([Ideal(E1) EXCEPT !.dec = "err"], E1, "default", "ok", 3)
  /\ ~PartOk([Ideal(E1) EXCEPT !.dec = "panic"], E1, "default", "ok", 3)
  /\ ~PartOk([Ideal(E1) EXCEPT !.comp = "err"], E1, "default", "ok", 3)
  /\ ~PartOk([Ideal(E1) EXCEPT !.comp = "panic"], E1, "default", "ok", 3)
  /\ PartOk([dec |-> "err"], E1, "default", "err", 3) /\ ~PartOk(Ideal(E1), E1, "default", "err", 3)
  \* the depth boundary: at 19 the full law applies, beyond it only "no panic"
  /\ PartOk(Ideal(E1), E1, "default", "ok", MaxArgDepth) /\ ~PartOk(Ideal(E1), E1, "default", "ok", MaxArgDepth + 1)
  /\ ~PartOk([Ideal(E1) EXCEPT !.encodable = FALSE], E1, "default", "ok", MaxArgDepth)
  /\ PartOk([dec |-> "ok", comp |-> "err", encodable |-> FALSE], E1, "default", "ok", MaxArgDepth + 1)
  /\ ~PartOk([dec |-> "ok", comp |-> "panic", encodable |-> FALSE], E1, "default", "ok", MaxArgDepth + 1)
  /\ ~PartOk([dec |-> "panic", encodable |-> FALSE], E1, "default", "ok", MaxArgDepth + 1)
ASSUME DepthLaws ==
  /\ Depth(U8(1)) = 1 /\ Depth(V("Tuple", "", 0, <<U8(1), V("Enum", "", 1, <<U8(2)>>)>>)) = 3
  /\ Depth(V("Nest", "", 18, <<U8(1)>>)) = 19 /\ Depth(Wrap(1, V("Nest", "", 18, <<U8(1)>>))) = 20
  /\ \E j \in 1..NLeaves : Depth(Leaves[j]) = MaxArgDepth
  /\ \E j \in 1..NLeaves : Depth(Leaves[j]) = MaxArgDepth + 1
\* ---- the shape table
ASSUME ShapeLaws ==
  /\ \A j \in {1, NShapes1 + 1, NShapes1 + 10, NShapes1 + NShapes2 + 1, NShapes} : Nodes(Shape(j)) >= 1
  /\ \A j \in 1..NLeaves : Shape(j) = Leaves[j]
  /\ \A w \in LinearWraps : CountIn(Wrap(w, Leaf("Bucket", "", 3)), "Bucket", 3) = 1
  /\ \E j \in (NShapes1 + NShapes2 + 1)..(NShapes1 + NShapes2 + 200) : Nodes(Shape(j)) >= 5
  /\ NLeaves = 117 + Len(SpecialChars) /\ Len(SpecialChars) = 74 /\ NShapes = NLeaves * 111
  /\ \A n \in (0..31) \cup {127} \cup (128..159) : \E i \in 1..Len(SpecialChars) : SpecialChars[i] = CP8(n)
  /\ \A v \in RequiredVariants : \E j \in 1..NLeaves : Variant(Leaves[j]) = v \/ v \in {"Address:Named", "Bucket", "Proof", "AddressReservation"}
=============================================================================

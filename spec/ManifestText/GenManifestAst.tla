--------------------------- MODULE GenManifestAst ---------------------------
(* C30 case generator: behaviours of the manifest state machine (one action per instruction
   class, guarded by the object lifecycle), printed as JSON cases.
     Mode "struct": all instruction sequences up to length K with plain parameters and the
                    object-carrying argument lists (BFS);
     Mode "args":   one call-like instruction (after a fixed object-creating prefix when
                    Prefixed) with every argument shape in ShapeSet, every call target,
                    every parameter-table entry;
     Mode "rand":   -simulate, random instruction, random parameters, random shape per step;
     Mode "esc":    as "struct" but the objects carry names that need escaping in a string
                    literal (quote / backslash / newline) - a separate family.                *)
EXTENDS ManifestAst, Json
CONSTANTS Mode, K, ShapeSet, Prefixed, FamSet
VARIABLES fam, pre, children, ins, st, blk
vars == <<fam, pre, children, ins, st, blk>>
Blocks == 48     \* Mode "args": the shapes are dealt to this many intermediate states (one per TLC worker at a time)
Rand == Mode = "rand"
Rich == Mode \in {"args", "rand"}
Pick(S) == IF Rand /\ S # {} THEN {RandomElement(S)} ELSE S
P(n) == IF Rich THEN Pick(1..n) ELSE {1}
ShapeChoices == IF Rand THEN {RandomElement(1..NShapes)} ELSE IF Mode = "args" THEN ShapeSet ELSE {1}

Headers == IF Rand THEN {<<"v1", 0, 0>>, <<"sys", 2, 0>>, <<"sys", 1, 0>>, <<"v2", 0, 0>>, <<"v2", 2, 0>>, <<"v2", 3, 0>>}
           ELSE {<<"v1", 0, 0>>, <<"sys", 2, 0>>, <<"v2", 2, 0>>}
\* (the third component is unused; children = second component for v2, preallocated for sys)
GInit == \E h \in Pick({x \in Headers : x[1] \in FamSet}) :
           /\ fam = h[1] /\ pre = (IF h[1] = "sys" THEN h[2] ELSE 0) /\ children = (IF h[1] = "v2" THEN h[2] ELSE 0)
           /\ ins = <<>> /\ st = St0(IF h[1] = "sys" THEN h[2] ELSE 0, IF h[1] = "v2" THEN h[2] ELSE 0) /\ blk = -1

Do(i) == /\ i.op \in OpsOf(fam) /\ ~IsBad(Step(st, i))
         /\ ins' = Append(ins, i) /\ st' = Step(st, i) /\ UNCHANGED <<fam, pre, children, blk>>

Op(name) == [I0 EXCEPT !.op = name]
CandTake == {[Op("TakeFromWorktop") EXCEPT !.res = ResAmt[x][1], !.amt = ResAmt[x][2]] : x \in P(Len(ResAmt))}
       \cup {[Op("TakeNonFungiblesFromWorktop") EXCEPT !.res = ResIds[x][1], !.ids = ResIds[x][2]] : x \in P(Len(ResIds))}
       \cup {[Op("TakeAllFromWorktop") EXCEPT !.res = ResOnly[x]] : x \in P(Len(ResOnly))}
CandBucketOp == UNION {
        {[Op("ReturnToWorktop") EXCEPT !.bucket = b], [Op("BurnResource") EXCEPT !.bucket = b],
         [Op("CreateProofFromBucketOfAll") EXCEPT !.bucket = b]}
        \cup {[Op("AssertBucketContents") EXCEPT !.bucket = b, !.cons = ConTags[x]] : x \in P(Len(ConTags))}
        \cup {[Op("CreateProofFromBucketOfAmount") EXCEPT !.bucket = b, !.amt = ResAmt[x][2]] : x \in P(Len(ResAmt))}
        \cup {[Op("CreateProofFromBucketOfNonFungibles") EXCEPT !.bucket = b, !.ids = ResIds[x][2]] : x \in P(Len(ResIds))}
      : b \in Pick(st.lb)}
CandProofNew == {Op("PopFromAuthZone")}
       \cup {[Op("CreateProofFromAuthZoneOfAmount") EXCEPT !.res = ResAmt[x][1], !.amt = ResAmt[x][2]] : x \in P(Len(ResAmt))}
       \cup {[Op("CreateProofFromAuthZoneOfNonFungibles") EXCEPT !.res = ResIds[x][1], !.ids = ResIds[x][2]] : x \in P(Len(ResIds))}
       \cup {[Op("CreateProofFromAuthZoneOfAll") EXCEPT !.res = ResOnly[x]] : x \in P(Len(ResOnly))}
CandProofOp == UNION {{[Op("CloneProof") EXCEPT !.proof = p], [Op("DropProof") EXCEPT !.proof = p], [Op("PushToAuthZone") EXCEPT !.proof = p]}
                      : p \in Pick(DOMAIN st.lp)}
CandNoArg == {Op(n) : n \in {"DropAuthZoneProofs", "DropAuthZoneRegularProofs", "DropAuthZoneSignatureProofs", "DropNamedProofs", "DropAllProofs"}}
CandAssert == {[Op("AssertWorktopContainsAny") EXCEPT !.res = ResOnly[x]] : x \in P(Len(ResOnly))}
       \cup {[Op("AssertWorktopContains") EXCEPT !.res = ResAmt[x][1], !.amt = ResAmt[x][2]] : x \in P(Len(ResAmt))}
       \cup {[Op("AssertWorktopContainsNonFungibles") EXCEPT !.res = ResIds[x][1], !.ids = ResIds[x][2]] : x \in P(Len(ResIds))}
       \cup {[Op(n) EXCEPT !.cons = ConsTags[x]] : x \in P(Len(ConsTags)),
             n \in {"AssertWorktopResourcesOnly", "AssertWorktopResourcesInclude", "AssertNextCallReturnsOnly", "AssertNextCallReturnsInclude"}}
CandAllocate == {[Op("AllocateGlobalAddress") EXCEPT !.addr = Static(x[1]), !.bp = x[2]]
                 : x \in (IF Rich THEN {<<"package2", "Blueprint">>, <<"package", "B~0000E9 \"q\"">>, <<"accountpkg", "">>} ELSE {<<"package2", "Blueprint">>})}
CandVerify == {[Op("VerifyParent") EXCEPT !.rule = RuleTags[x]] : x \in P(Len(RuleTags))}

\* argument lists.  Objects travel bare or inside a linear wrapper.
Obj(t, n) == Leaf(t, "", n)
WrapObj(x) == {x} \cup (IF Rich THEN {Wrap(w, x) : w \in Pick(LinearWraps)} ELSE {Wrap(5, x)})
FreeProofs == {p \in DOMAIN st.lp : TRUE}
ObjArgLists(withAll) ==
  {<<y>> : y \in UNION {WrapObj(Obj("Bucket", b)) : b \in Pick(Unlocked(st))}}
  \cup (IF withAll THEN
          {<<y>> : y \in UNION {WrapObj(Obj("Proof", p)) : p \in Pick(FreeProofs)}}
          \cup {<<y>> : y \in UNION {WrapObj(Obj("AddressReservation", r)) : r \in Pick(st.lr)}}
          \cup {<<Obj("NamedAddress", a), Wrap(7, Obj("NamedAddress", a))>> : a \in Pick(0..(st.na - 1))}
          \cup UNION {{<<Obj("Bucket", b), Obj("AddressReservation", r), Obj("Proof", p), Obj("NamedAddress", a), Shape(j)>>
                         : r \in Pick(st.lr), a \in Pick(0..(st.na - 1)), j \in ShapeChoices,
                           p \in Pick({q \in FreeProofs : st.lp[q] # b})}
                       : b \in Pick(Unlocked(st))}
        ELSE {})
ArgLists(withAll) == {<<>>} \cup {<<Shape(j)>> : j \in ShapeChoices} \cup ObjArgLists(withAll)
        \cup (IF Rich THEN {<<Shape(j), Shape(1), Shape(((j * 7) % NShapes) + 1)>> : j \in ShapeChoices} ELSE {})
PlainTargets == {1, 10, 14, 18, 22}
Targets == IF Rich THEN Pick(1..Len(MethodCalls)) ELSE PlainTargets
AddrChoices(tag, op) == {Static(tag)} \cup (IF op # "CallDirectVaultMethod" /\ st.na > 0 THEN {Named(st.na - 1)} ELSE {})
CandCall == UNION {{[Op(MethodCalls[t][1]) EXCEPT !.addr = ad, !.m = MethodCalls[t][3], !.args = al]
                    : ad \in AddrChoices(MethodCalls[t][2], MethodCalls[t][1]), al \in ArgLists(TRUE)}
                   : t \in Targets}
FTargets == IF Rich THEN Pick(1..Len(FunctionCalls)) ELSE {1}
CandCallFunction == UNION {{[Op("CallFunction") EXCEPT !.addr = ad, !.bp = FunctionCalls[t][2], !.fn = FunctionCalls[t][3], !.args = al]
                            : ad \in AddrChoices(FunctionCalls[t][1], "CallFunction"), al \in ArgLists(TRUE)}
                           : t \in FTargets}
\* Mode "args": shape j goes to call target (j mod #targets) - every shape once per instruction
\* class, every target many times - alone, in a triple, and (Prefixed) next to / around objects
ArgsFor(j) ==
  {<<Shape(j)>>, <<Shape(j), Shape(1), Shape(((j * 7) % NShapes) + 1)>>}
  \cup (IF Prefixed
        THEN {<<Obj("Bucket", 0), Shape(j), Obj("Proof", 0), Obj("AddressReservation", 0), Obj("NamedAddress", 0)>>,
              <<Wrap(((j % 3) * 2) + 1, Obj("Bucket", 0)), Wrap(LET w == (j % 6) + 1 IN IF w \in LinearWraps THEN w ELSE 7, Obj("Proof", 0)), Shape(j)>>,
              <<Wrap(8, Obj("AddressReservation", 0)), Wrap((j % 10) + 1, Obj("NamedAddress", 0)), Shape(j)>>}
        ELSE {})
CandArgsCall == UNION {
     LET t == (j % Len(MethodCalls)) + 1 f == (j % Len(FunctionCalls)) + 1 IN
     {[Op(MethodCalls[t][1]) EXCEPT !.addr = Static(MethodCalls[t][2]), !.m = MethodCalls[t][3], !.args = al] : al \in ArgsFor(j)}
     \cup {[Op("CallFunction") EXCEPT !.addr = IF Prefixed /\ j % 2 = 0 THEN Named(0) ELSE Static(FunctionCalls[f][1]),
                                     !.bp = FunctionCalls[f][2], !.fn = FunctionCalls[f][3], !.args = al] : al \in ArgsFor(j)}
     \cup (IF Prefixed THEN {} ELSE
           {[Op("YieldToParent") EXCEPT !.args = <<Shape(j)>>], [Op("YieldToChild") EXCEPT !.child = j % 2, !.args = <<Shape(j)>>]})
   : j \in {x \in ShapeChoices : x % Blocks = blk}}
\* yields: only buckets travel (the compiler does not track objects passed to a yield)
CandYield == {[Op("YieldToParent") EXCEPT !.args = al] : al \in ArgLists(FALSE)}
       \cup {[Op("YieldToChild") EXCEPT !.child = c, !.args = al] : c \in Pick(0..(st.ni - 1)), al \in ArgLists(FALSE)}
\* arguments that are not a tuple: the decompiler must refuse (no text, no claim)
CandRaw == IF Mode = "args" /\ ~Prefixed
           THEN {[Op("CallMethod") EXCEPT !.addr = Static("account"), !.m = "raw", !.args = <<Shape(j)>>, !.raw = TRUE]
                 : j \in {x \in ShapeChoices : x % Blocks = blk /\ Shape(x).t \notin {"Tuple", "Nest"}}}
           ELSE {}

\* the fixed object-creating prefix of Mode "args" with Prefixed
PrefixIns == << [Op("TakeFromWorktop") EXCEPT !.res = "xrd", !.amt = "one"],
               [Op("CreateProofFromAuthZoneOfAll") EXCEPT !.res = "nfres"],
               [Op("AllocateGlobalAddress") EXCEPT !.addr = Static("package2"), !.bp = "Blueprint"] >>
InPrefix == Mode = "args" /\ Prefixed /\ Len(ins) < Len(PrefixIns)
Bound == IF Mode = "args" THEN (IF Prefixed THEN Len(PrefixIns) + 1 ELSE 1) ELSE K
Free == ~Rand /\ Len(ins) < Bound /\ ~InPrefix /\ (\A j \in 1..Len(ins) : ~ins[j].raw)
NPrefix == InPrefix /\ Do(PrefixIns[Len(ins) + 1])
NTake == Free /\ Mode # "args" /\ \E i \in Pick(CandTake) : Do(i)
NBucketOp == Free /\ Mode # "args" /\ st.lb # {} /\ \E i \in Pick(CandBucketOp) : Do(i)
NProofNew == Free /\ Mode # "args" /\ \E i \in Pick(CandProofNew) : Do(i)
NProofOp == Free /\ Mode # "args" /\ DOMAIN st.lp # {} /\ \E i \in Pick(CandProofOp) : Do(i)
NNoArg == Free /\ Mode # "args" /\ \E i \in Pick(CandNoArg) : Do(i)
NAssert == Free /\ Mode # "args" /\ \E i \in Pick(CandAssert) : Do(i)
NAllocate == Free /\ Mode # "args" /\ \E i \in Pick(CandAllocate) : Do(i)
NVerify == Free /\ Mode # "args" /\ \E i \in Pick(CandVerify) : Do(i)
NCall == Free /\ Mode # "args" /\ \E i \in Pick(CandCall) : Do(i)
NBlock == Free /\ Mode = "args" /\ blk = -1 /\ blk' \in 0..(Blocks - 1) /\ UNCHANGED <<fam, pre, children, ins, st>>
NArgs == Free /\ Mode = "args" /\ blk >= 0 /\ \E i \in CandArgsCall : Do(i)
NCallFunction == Free /\ Mode # "args" /\ \E i \in Pick(CandCallFunction) : Do(i)
NYield == Free /\ Mode # "args" /\ fam = "v2" /\ \E i \in Pick(CandYield) : Do(i)
NRaw == Free /\ blk >= 0 /\ \E i \in CandRaw : Do(i)
\* in "args" mode also walk the parameter tables of the non-call instructions once
NParams == Mode = "args" /\ ~Prefixed /\ ins = <<>> /\ 1 \in ShapeSet /\ blk = -1
           /\ \E i \in CandTake \cup CandProofNew \cup CandAssert \cup CandAllocate \cup CandVerify : Do(i)
NParamsB == Mode = "args" /\ Prefixed /\ Len(ins) = Len(PrefixIns) /\ 1 \in ShapeSet /\ blk = -1
           /\ \E i \in CandBucketOp : Do(i)
\* -simulate: one random instruction class per step (otherwise every class would print)
Classes == <<"take", "bucket", "proofnew", "proofop", "noarg", "assert", "alloc", "verify", "call", "call", "callf", "yield">>
\* (random choices are made through singleton sets: a bound variable is evaluated once, an
\*  operator argument or LET definition containing RandomElement may be evaluated repeatedly)
NRand == /\ Rand /\ Len(ins) < K
         /\ \E ci \in {RandomElement(1..Len(Classes))} :
            LET c == Classes[ci] IN
            LET cand == CASE c = "take" -> CandTake [] c = "bucket" -> CandBucketOp [] c = "proofnew" -> CandProofNew
                          [] c = "proofop" -> CandProofOp [] c = "noarg" -> CandNoArg [] c = "assert" -> CandAssert
                          [] c = "alloc" -> CandAllocate [] c = "verify" -> CandVerify [] c = "call" -> CandCall
                          [] c = "callf" -> CandCallFunction [] c = "yield" -> CandYield IN
            \E okset \in {{i \in cand : i.op \in OpsOf(fam) /\ ~IsBad(Step(st, i))}} :
               IF okset = {} THEN Do(Op("DropAuthZoneProofs")) ELSE \E i \in {RandomElement(okset)} : Do(i)
GNext == NRand \/ NPrefix \/ NTake \/ NBucketOp \/ NProofNew \/ NProofOp \/ NNoArg \/ NAssert \/ NAllocate \/ NVerify
         \/ NCall \/ NBlock \/ NArgs \/ NCallFunction \/ NYield \/ NRaw \/ NParams \/ NParamsB
GSpec == GInit /\ [][GNext]_vars

\* ---- emission
RotStyles == <<"plain", "uni", "unknown">>
\* one-instruction manifests carry every naming style incl. the ones needing escapes (object
\* class x style is a full product);
\* longer ones the default names and one rotating style; the argument-shape family one style
Rot == (Len(ins) + st.nb + 2 * st.np + 3 * st.nr + st.na)
StylesFor == IF Mode = "esc" THEN EscapeStyles
             ELSE IF Mode = "args" THEN {<<"default", "plain", "uni", "unknown">>[(Rot % 4) + 1]}
             ELSE IF Len(ins) = 1 THEN NameStyles \cup EscapeStyles
                    \cup (IF ins[1].op \in {"TakeFromWorktop", "PopFromAuthZone", "AllocateGlobalAddress"} THEN CharStyles ELSE {})
             ELSE {"default", RotStyles[(Rot % 3) + 1]}
CaseOf(style) ==
  [fam |-> fam, pre |-> pre, children |-> children, blobs |-> 2 + (Len(ins) % 2), names |-> style,
   given |-> NameLists(st, IF style = "unknown" THEN "default" ELSE style), ins |-> ins,
   exp |-> ExpectedNames(st, style), depth |-> ArgDepth(ins),
   dec_exp |-> IF \E j \in 1..Len(ins) : ins[j].raw THEN "err" ELSE "ok"]
\* the variant table of the custom leaves (for the driver's non-vacuity check)
ASSUME PrintT(<<"V", ToJson([required |-> RequiredVariants,
                            table |-> [j \in 1..NLeaves |-> [t |-> Leaves[j].t, s |-> Leaves[j].s, v |-> Variant(Leaves[j])]]])>>)
Emit == (Len(ins) >= 1 /\ ~InPrefix) => \A s \in StylesFor : PrintT(<<"B", ToJson(CaseOf(s))>>)
=============================================================================

--------------------------- MODULE TraceManifestAst ---------------------------
(* C30, impl -> spec: every recorded decompile -> compile round trip of the real code must
   satisfy the law of ManifestAst (RoundTripOk for generated cases, CorpusOk for corpus and
   scenario manifests). *)
EXTENDS ManifestAst, TraceIO
VARIABLE l
Ok(ev) == IF "exp" \in DOMAIN ev THEN RoundTripOk(ev) ELSE CorpusOk(ev)
TInit == l = 1
TNext == l <= Len(Rec) /\ (IF Ok(Rec[l]) THEN TRUE ELSE PrintT(<<"BAD", l>>)) /\ l' = l + 1
TSpec == TInit /\ [][TNext]_l
Post == PrintT(<<"DONE", TLCGet("stats").diameter - 1>>)
=============================================================================

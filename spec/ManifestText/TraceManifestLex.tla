--------------------------- MODULE TraceManifestLex ---------------------------
(* C31, impl -> spec: every recorded outcome of the real compiler (one event per text: four
   manifest kinds, two calls each, diagnostics in both styles twice) must satisfy OutcomeOk. *)
EXTENDS ManifestLex, TraceIO
VARIABLE l
Ok(ev) == OutcomeOk(ev)
TInit == l = 1
TNext == l <= Len(Rec) /\ (IF Ok(Rec[l]) THEN TRUE ELSE PrintT(<<"BAD", l>>)) /\ l' = l + 1
TSpec == TInit /\ [][TNext]_l
Post == PrintT(<<"DONE", TLCGet("stats").diameter - 1>>)
=============================================================================

------------------------------ MODULE ManifestAst ------------------------------
(* C30 -- abstract syntax layer of the manifest text specification (the generator side of
   "decompiled manifests compile back to the same manifest").

   A manifest is a header (preallocated addresses for system manifests, child subintents for
   V2 / subintent manifests, blobs, object names) and a sequence of instructions.  Instructions
   refer to objects (buckets, proofs, address reservations, named addresses, named intents) by
   the ids the manifest id allocator gives them in order of creation.  The state machine below
   has one action per instruction kind; its guards are the object lifecycle rules the compiler
   enforces (BasicManifestValidator: declared before use, a consumed object is gone, a bucket
   with live proofs is locked), so that every behaviour is a manifest the decompiler's output
   can be compiled again.  Free arguments are manifest SBOR values: trees of uniform nodes
       [t |-> kind, s |-> string / symbolic atom, n |-> number, k |-> children].
   Symbolic atoms ("max", "account", "str64" ...) are mapped to concrete values by the harness
   (fixed table in harness/src/bin/vh_mtext/rt.rs); `~XXXXXX` in strings is U+XXXXXX.

   Law (checked by TraceManifestAst on the real code):
       Compile(Decompile(m), network, blobs(m)) = m
   for every generated m: same instructions, blobs, children, preallocated addresses; the object
   names of the result are the given names (or the decompiler's default names when the names of
   m are unknown - then equality holds for everything but the names).                          *)
EXTENDS Integers, Sequences, FiniteSets, TLC

V(t, s, n, k) == [t |-> t, s |-> s, n |-> n, k |-> k]
Leaf(t, s, n) == V(t, s, n, <<>>)
KindOf(x) == IF x.t = "NamedAddress" THEN "Address" ELSE x.t

\* ----------------------------------------------------------------------------------------
\* leaves: every value kind, numeric extremes, odd strings, custom kinds, empty composites
IntTypes == <<"I8", "I16", "I32", "I64", "I128", "U8", "U16", "U32", "U64", "U128">>
IntLeaves == [i \in 1..30 |-> Leaf(IntTypes[((i - 1) % 10) + 1], <<"min", "max", "">>[((i - 1) \div 10) + 1], 7)]
Strings == <<"", "abc", "a\"b", "back\\slash", "\\\"", "tab~000009nl~00000Acr~00000Dbs~000008ff~00000C",
             "~0000E9~0020AC~01F600", "e~000301~00200D", "~0005D0~0005D1~00202E", "~000000~00001B~00007F", "~00FEFF~002028~00FFFD",
             "# not a comment ;", "Bucket(\"x\")", "~10FFFF~00E000", "\\u0041 \\n literal", " lead and trail " >>
\* every character the decompiler must escape (or must not), one string per character - never sampled:
\* C0 controls 0x00-0x1F and DEL, C1 controls 0x80-0x9F, the characters with dedicated escapes (\\ \" and
\* among the controls \n \r \t \b \f), line / paragraph separators, a lone astral character, the last scalar
HexD == <<"0", "1", "2", "3", "4", "5", "6", "7", "8", "9", "A", "B", "C", "D", "E", "F">>
CP8(n) == "~0000" \o HexD[(n \div 16) + 1] \o HexD[(n % 16) + 1]               \* notation of U+00nn
SpecialChars == [n \in 1..32 |-> CP8(n - 1)] \o <<CP8(127)>> \o [n \in 1..32 |-> CP8(127 + n)]
                \o <<"\\", "\"", "~002028", "~002029", "~01F600", "~10FFFF", "~00FFFF", "~00D7FF", "/">>
CharStrings == [i \in 1..Len(SpecialChars) |-> "a" \o SpecialChars[i] \o "z"]
StringLeaves == [i \in 1..Len(Strings) |-> Leaf("String", Strings[i], 0)]
                \o [i \in 1..Len(CharStrings) |-> Leaf("String", CharStrings[i], 0)]
DecTags == <<"zero", "one", "neg_one", "max", "min", "smallest", "neg_smallest", "frac", "big_frac">>
PDecTags == <<"zero", "one", "neg_one", "max", "min", "smallest", "neg_smallest", "frac">>
AddrTags == <<"account", "xrd", "nfres", "package", "component", "validator", "vault", "kvstore", "vaccount", "identity", "consensus", "pool", "locker", "accesscontroller">>
NflTags == <<"int0", "intmax", "str", "str1", "str64", "bytes", "bytes64", "ruid", "ruid0">>
CustomLeaves ==
  [i \in 1..Len(DecTags) |-> Leaf("Decimal", DecTags[i], 0)] \o
  [i \in 1..Len(PDecTags) |-> Leaf("PreciseDecimal", PDecTags[i], 0)] \o
  [i \in 1..Len(AddrTags) |-> Leaf("Address", AddrTags[i], 0)] \o
  [i \in 1..Len(NflTags) |-> Leaf("NonFungibleLocalId", NflTags[i], 0)] \o
  << Leaf("Expression", "ENTIRE_WORKTOP", 0), Leaf("Expression", "ENTIRE_AUTH_ZONE", 0), Leaf("Blob", "", 0), Leaf("Blob", "", 1),
     Leaf("Bool", "", 0), Leaf("Bool", "", 1) >>
\* The variants of the manifest custom value kinds: every one of them must occur as an argument in every
\* tier (checked by the driver on the emitted cases, using Variant below through the printed table).
NflKind(tag) == CASE tag \in {"int0", "int1", "intmax"} -> "Integer" [] tag \in {"str", "str1", "str64"} -> "String"
                  [] tag \in {"bytes", "bytes64"} -> "Bytes" [] OTHER -> "RUID"
Variant(x) == CASE x.t = "Expression" -> "Expression:" \o x.s
                [] x.t = "NonFungibleLocalId" -> "NonFungibleLocalId:" \o NflKind(x.s)
                [] x.t = "Address" -> "Address:Static"
                [] x.t = "NamedAddress" -> "Address:Named"
                [] OTHER -> x.t
RequiredVariants == {"Expression:ENTIRE_WORKTOP", "Expression:ENTIRE_AUTH_ZONE", "Address:Static", "Address:Named", "Bucket", "Proof",
                     "AddressReservation", "Blob", "Decimal", "PreciseDecimal", "NonFungibleLocalId:Integer",
                     "NonFungibleLocalId:String", "NonFungibleLocalId:Bytes", "NonFungibleLocalId:RUID"}
U8(n) == Leaf("U8", "", n)
Composites == <<
  V("Tuple", "", 0, <<>>), V("Enum", "", 0, <<>>), V("Enum", "", 255, <<>>), V("Array", "U8", 0, <<>>),
  V("Array", "U8", 0, <<U8(0), U8(255), U8(16)>>), V("Array", "String", 0, <<>>), V("Array", "Tuple", 0, <<>>),
  V("Array", "Decimal", 0, <<>>), V("Array", "Bucket", 0, <<>>), V("Array", "Map", 0, <<>>),
  V("Map", "String,U8", 0, <<>>), V("Map", "Address,Array", 0, <<>>), V("Map", "Enum,Tuple", 0, <<>>),
  \* the decompiler prints (resource address, local id) pairs as NonFungibleGlobalId("...")
  V("Tuple", "", 0, <<Leaf("Address", "nfres", 0), Leaf("NonFungibleLocalId", "str", 0)>>),
  V("Tuple", "", 0, <<Leaf("Address", "xrd", 0), Leaf("NonFungibleLocalId", "ruid", 0)>>),
  V("Tuple", "", 0, <<Leaf("Address", "account", 0), Leaf("NonFungibleLocalId", "int0", 0)>>),
  V("Tuple", "", 0, <<Leaf("Address", "nfres", 0), Leaf("NonFungibleLocalId", "bytes", 0), U8(1)>>),
  V("Map", "U8,U8", 0, <<U8(1), U8(2), U8(1), U8(3)>>),                 \* duplicate key
  V("Enum", "", 1, <<Leaf("String", "x", 0), U8(1), Leaf("Bool", "", 1)>>),
  \* depth boundary shapes: a leaf under n single-child wrappers (Tuple / Enum / Array cycling)
  V("Nest", "", 10, <<U8(1)>>), V("Nest", "", 16, <<Leaf("String", "deep", 0)>>), V("Nest", "", 17, <<Leaf("Decimal", "one", 0)>>),
  V("Nest", "", 18, <<Leaf("Decimal", "max", 0)>>), V("Nest", "", 18, <<Leaf("Address", "account", 0)>>), V("Nest", "", 19, <<U8(1)>>) >>
Leaves == IntLeaves \o StringLeaves \o CustomLeaves \o Composites
NLeaves == Len(Leaves)

\* wrappers: x |-> a composite containing x
NWraps == 10
Wrap(w, x) ==
  CASE w = 1 -> V("Tuple", "", 0, <<x>>)
    [] w = 2 -> V("Tuple", "", 0, <<U8(1), x, Leaf("String", "z", 0)>>)
    [] w = 3 -> V("Enum", "", 1, <<x>>)
    [] w = 4 -> V("Enum", "", 7, <<x, x>>)
    [] w = 5 -> V("Array", KindOf(x), 0, <<x>>)
    [] w = 6 -> V("Array", KindOf(x), 0, <<x, x, x>>)
    [] w = 7 -> V("Map", "String," \o KindOf(x), 0, <<Leaf("String", "k", 0), x>>)
    [] w = 8 -> V("Map", KindOf(x) \o ",U8", 0, <<x, U8(1)>>)
    [] w = 9 -> V("Array", "Tuple", 0, <<V("Tuple", "", 0, <<x>>), V("Tuple", "", 0, <<x>>)>>)
    [] w = 10 -> V("Map", KindOf(x) \o "," \o KindOf(x), 0, <<x, x, x, x>>)
\* wrappers that contain x exactly once (usable around objects, which must not be duplicated)
LinearWraps == {1, 2, 3, 5, 7, 8}
\* "Nest" is expanded by the harness, it has no kind of its own: only wrap it where no kind is needed
Wrappable(w, x) == x.t = "Nest" => w \in {1, 2, 3, 4, 9}

\* Shape number j (1-based): leaves first, then wrapped leaves, then doubly wrapped leaves
NShapes1 == NLeaves
NShapes2 == NLeaves * NWraps
NShapes3 == NLeaves * NWraps * NWraps
Shape(j) ==
  IF j <= NShapes1 THEN Leaves[j]
  ELSE IF j <= NShapes1 + NShapes2
       THEN LET q == j - NShapes1 - 1 IN
            LET x == Leaves[(q \div NWraps) + 1] w == (q % NWraps) + 1 IN
            IF Wrappable(w, x) THEN Wrap(w, x) ELSE x
       ELSE LET q == j - NShapes1 - NShapes2 - 1 IN
            LET x == Leaves[(q \div (NWraps * NWraps)) + 1]
                w1 == ((q \div NWraps) % NWraps) + 1
                w2 == (q % NWraps) + 1 IN
            IF Wrappable(w1, x) THEN Wrap(w2, Wrap(w1, x)) ELSE x
NShapes == NShapes1 + NShapes2 + NShapes3

RECURSIVE Nodes(_)
Nodes(x) == IF x.k = <<>> THEN 1 ELSE 1 + LET c == [i \in 1..Len(x.k) |-> Nodes(x.k[i])] IN
                                          LET RECURSIVE S(_) S(i) == IF i > Len(c) THEN 0 ELSE c[i] + S(i + 1) IN S(1)

\* depth of a value (a leaf has depth 1; Nest(n, x) is x under n single-child wrappers)
RECURSIVE Depth(_)
Depth(x) == IF x.t = "Nest" THEN x.n + Depth(x.k[1])
            ELSE IF x.k = <<>> THEN 1
            ELSE 1 + LET RECURSIVE M(_) M(i) == IF i > Len(x.k) THEN 0 ELSE LET r == M(i + 1) d == Depth(x.k[i]) IN IF d > r THEN d ELSE r IN M(1)
\* An argument value of depth d sits at SBOR depth 5 + d inside an encoded AnyManifest (enum, manifest
\* struct, instruction list, instruction, argument tuple) and deeper inside any transaction; the
\* manifest SBOR depth limit is 24.  Deeper manifests cannot be carried by any transaction: the
\* law makes no claim about them beyond "no panic".
MaxArgDepth == 19
ArgDepth(ins) == LET RECURSIVE M(_) M(j) == IF j > Len(ins) THEN 0 ELSE
                       LET r == M(j + 1)
                           d == LET RECURSIVE A(_) A(a) == IF a > Len(ins[j].args) THEN 0 ELSE
                                      LET r2 == A(a + 1) d2 == Depth(ins[j].args[a]) IN IF d2 > r2 THEN d2 ELSE r2 IN A(1)
                       IN IF d > r THEN d ELSE r IN M(1)

\* ----------------------------------------------------------------------------------------
\* instructions (uniform records; unused fields keep their defaults)
NoAddr == [static |-> "", named |-> -1]
I0 == [op |-> "", res |-> "", amt |-> "", ids |-> <<>>, bucket |-> -1, proof |-> -1, addr |-> NoAddr,
       bp |-> "", fn |-> "", m |-> "", args |-> <<>>, raw |-> FALSE, child |-> -1, rule |-> "", cons |-> ""]
Static(tag) == [static |-> tag, named |-> -1]
Named(id) == [static |-> "", named |-> id]

Fams == {"v1", "sys", "v2"}
V1Ops == {"TakeFromWorktop", "TakeNonFungiblesFromWorktop", "TakeAllFromWorktop", "ReturnToWorktop", "BurnResource",
          "AssertWorktopContainsAny", "AssertWorktopContains", "AssertWorktopContainsNonFungibles",
          "CreateProofFromBucketOfAmount", "CreateProofFromBucketOfNonFungibles", "CreateProofFromBucketOfAll",
          "CreateProofFromAuthZoneOfAmount", "CreateProofFromAuthZoneOfNonFungibles", "CreateProofFromAuthZoneOfAll",
          "CloneProof", "DropProof", "PushToAuthZone", "PopFromAuthZone", "DropAuthZoneProofs", "DropAuthZoneRegularProofs",
          "DropAuthZoneSignatureProofs", "DropNamedProofs", "DropAllProofs", "CallFunction", "CallMethod",
          "CallRoyaltyMethod", "CallMetadataMethod", "CallRoleAssignmentMethod", "CallDirectVaultMethod", "AllocateGlobalAddress"}
V2OnlyOps == {"AssertWorktopResourcesOnly", "AssertWorktopResourcesInclude", "AssertNextCallReturnsOnly",
              "AssertNextCallReturnsInclude", "AssertBucketContents", "YieldToParent", "YieldToChild", "VerifyParent"}
OpsOf(fam) == IF fam = "v2" THEN V1Ops \cup V2OnlyOps ELSE V1Ops

\* parameter tables; index 1 is the plain choice, the others are the odd ones
ResAmt == << <<"xrd", "one">>, <<"res2", "max">>, <<"xrd", "smallest">>, <<"res2", "zero">>, <<"xrd", "frac">>, <<"nfres", "min">> >>
ResIds == << <<"nfres", <<"int1">>>>, <<"nfres", <<>>>>, <<"nfres", <<"str", "bytes", "ruid", "intmax">>>>, <<"xrd", <<"str64", "bytes64">>>> >>
ResOnly == <<"xrd", "nfres", "res2">>
ConsTags == <<"one", "empty", "two", "three">>
ConTags == <<"exact", "nonzero", "atleast", "exact_nf", "atleast_nf", "general">>
RuleTags == <<"allow_all", "deny_all", "require", "require_nf", "complex">>
\* call targets: <<op, static address tag, method / (blueprint, function)>>; several are forms the
\* decompiler prints as alias instructions (CREATE_ACCOUNT, MINT_FUNGIBLE, SET_METADATA, RECALL_FROM_VAULT ...)
MethodCalls == <<
  <<"CallMethod", "account", "deposit">>, <<"CallMethod", "faucet", "free">>, <<"CallMethod", "xrd", "mint">>,
  <<"CallMethod", "nfres", "mint">>, <<"CallMethod", "nfres", "mint_ruid">>, <<"CallMethod", "package2", "PackageRoyalty_claim_royalties">>,
  <<"CallMethod", "consensus", "create_validator">>, <<"CallMethod", "component", "m~0000E9thod \"q\"">>,
  <<"CallMethod", "account", "">>,
  <<"CallRoyaltyMethod", "component", "set_royalty">>, <<"CallRoyaltyMethod", "component", "lock_royalty">>,
  <<"CallRoyaltyMethod", "component", "claim_royalties">>, <<"CallRoyaltyMethod", "account", "other">>,
  <<"CallMetadataMethod", "account", "set">>, <<"CallMetadataMethod", "xrd", "remove">>, <<"CallMetadataMethod", "package2", "lock">>,
  <<"CallMetadataMethod", "component", "get">>,
  <<"CallRoleAssignmentMethod", "account", "set">>, <<"CallRoleAssignmentMethod", "xrd", "set_owner">>,
  <<"CallRoleAssignmentMethod", "component", "lock_owner">>, <<"CallRoleAssignmentMethod", "component", "get">>,
  <<"CallDirectVaultMethod", "vault", "recall">>, <<"CallDirectVaultMethod", "vault", "freeze">>, <<"CallDirectVaultMethod", "vault", "unfreeze">>,
  <<"CallDirectVaultMethod", "nfvault", "recall_non_fungibles">>, <<"CallDirectVaultMethod", "nfvault", "other">> >>
FunctionCalls == <<
  <<"package2", "Blueprint", "new">>, <<"package", "Package", "publish_wasm">>, <<"package", "Package", "publish_wasm_advanced">>,
  <<"accountpkg", "Account", "create">>, <<"accountpkg", "Account", "create_advanced">>, <<"identitypkg", "Identity", "create">>,
  <<"identitypkg", "Identity", "create_advanced">>, <<"acpkg", "AccessController", "create">>,
  <<"resourcepkg", "FungibleResourceManager", "create">>, <<"resourcepkg", "FungibleResourceManager", "create_with_initial_supply">>,
  <<"resourcepkg", "NonFungibleResourceManager", "create">>, <<"resourcepkg", "NonFungibleResourceManager", "create_with_initial_supply">>,
  <<"resourcepkg", "NonFungibleResourceManager", "create_ruid_with_initial_supply">>,
  <<"package2", "B~0000E9 \"x\"", "f\\n">> >>

\* ----------------------------------------------------------------------------------------
\* object lifecycle (what BasicManifestValidator tracks while compiling)
\* st = [nb, np, nr, na : counters; lb : live buckets; lp : live proof -> source bucket (-1 auth zone);
\*       lr : live reservations; ni : named intents (fixed by the header)]
LockCount(st, b) == Cardinality({p \in DOMAIN st.lp : st.lp[p] = b})
Unlocked(st) == {b \in st.lb : LockCount(st, b) = 0}
St0(pre, children) == [nb |-> 0, np |-> 0, nr |-> pre, na |-> 0, lb |-> {}, lp |-> <<>>, lr |-> 0..(pre - 1), ni |-> children]
\* the invalid lifecycle state (same record type as every other state)
Bad == [St0(0, 0) EXCEPT !.nb = -1]
IsBad(st) == st.nb = -1
NewBucket(st) == [st EXCEPT !.nb = @ + 1, !.lb = @ \cup {st.nb}]
DropBucket(st, b) == [st EXCEPT !.lb = @ \ {b}]
NewProof(st, src) == [st EXCEPT !.np = @ + 1, !.lp = [p \in DOMAIN st.lp \cup {st.np} |-> IF p = st.np THEN src ELSE st.lp[p]]]
DropProofSt(st, p) == [st EXCEPT !.lp = [q \in DOMAIN st.lp \ {p} |-> st.lp[q]]]
DropAllProofsSt(st) == [st EXCEPT !.lp = <<>>]
NewAlloc(st) == [st EXCEPT !.nr = @ + 1, !.lr = @ \cup {st.nr}, !.na = @ + 1]
DropResv(st, r) == [st EXCEPT !.lr = @ \ {r}]

\* Effect of one instruction on the lifecycle state, or Bad (invalid).  This is the functional
\* (replay) definition; the generator's actions are checked against it in MCManifestAst.
RECURSIVE ObjsIn(_, _)
ObjsIn(x, t) == (IF x.t = t THEN {x.n} ELSE {}) \cup UNION {ObjsIn(x.k[i], t) : i \in 1..Len(x.k)}
ArgObjs(i, t) == UNION {ObjsIn(i.args[j], t) : j \in 1..Len(i.args)}
RECURSIVE CountIn(_, _, _)
CountIn(x, t, n) == (IF x.t = t /\ x.n = n THEN 1 ELSE 0) +
   LET RECURSIVE S(_) S(i) == IF i > Len(x.k) THEN 0 ELSE CountIn(x.k[i], t, n) + S(i + 1) IN S(1)
ArgCount(i, t, n) == LET RECURSIVE S(_) S(j) == IF j > Len(i.args) THEN 0 ELSE CountIn(i.args[j], t, n) + S(j + 1) IN S(1)
CallOps == {"CallFunction", "CallMethod", "CallRoyaltyMethod", "CallMetadataMethod", "CallRoleAssignmentMethod",
            "CallDirectVaultMethod", "YieldToParent", "YieldToChild"}
Step(st, i) ==
  LET op == i.op IN
  IF op \in {"TakeFromWorktop", "TakeNonFungiblesFromWorktop", "TakeAllFromWorktop"} THEN NewBucket(st)
  ELSE IF op \in {"ReturnToWorktop", "BurnResource"} THEN (IF i.bucket \in Unlocked(st) THEN DropBucket(st, i.bucket) ELSE Bad)
  ELSE IF op = "AssertBucketContents" THEN (IF i.bucket \in st.lb THEN st ELSE Bad)
  ELSE IF op \in {"CreateProofFromBucketOfAmount", "CreateProofFromBucketOfNonFungibles", "CreateProofFromBucketOfAll"}
       THEN (IF i.bucket \in st.lb THEN NewProof(st, i.bucket) ELSE Bad)
  ELSE IF op \in {"CreateProofFromAuthZoneOfAmount", "CreateProofFromAuthZoneOfNonFungibles", "CreateProofFromAuthZoneOfAll", "PopFromAuthZone"}
       THEN NewProof(st, -1)
  ELSE IF op = "CloneProof" THEN (IF i.proof \in DOMAIN st.lp THEN NewProof(st, st.lp[i.proof]) ELSE Bad)
  ELSE IF op \in {"DropProof", "PushToAuthZone"} THEN (IF i.proof \in DOMAIN st.lp THEN DropProofSt(st, i.proof) ELSE Bad)
  ELSE IF op \in {"DropNamedProofs", "DropAllProofs"} THEN DropAllProofsSt(st)
  ELSE IF op = "AllocateGlobalAddress" THEN NewAlloc(st)
  ELSE IF op \in CallOps THEN
       LET bs == ArgObjs(i, "Bucket") ps == ArgObjs(i, "Proof") rs == ArgObjs(i, "AddressReservation")
           as == ArgObjs(i, "NamedAddress") \cup (IF i.addr.named >= 0 THEN {i.addr.named} ELSE {}) IN
       \* proofs are dropped before buckets would matter: a bucket and a proof of it may not travel together
       IF /\ ps \subseteq DOMAIN st.lp /\ rs \subseteq st.lr /\ as \subseteq 0..(st.na - 1)
          /\ \A b \in bs : b \in st.lb /\ ArgCount(i, "Bucket", b) = 1 /\ LockCount(st, b) = 0
          /\ \A p \in ps : ArgCount(i, "Proof", p) = 1
          /\ \A r \in rs : ArgCount(i, "AddressReservation", r) = 1
          /\ (op = "YieldToChild" => i.child \in 0..(st.ni - 1))
       THEN [st EXCEPT !.lb = @ \ bs, !.lr = @ \ rs, !.lp = [q \in DOMAIN st.lp \ ps |-> st.lp[q]]]
       ELSE Bad
  ELSE st     \* assertions, auth zone drops, VerifyParent: no objects involved
RECURSIVE Replay(_, _, _)
Replay(st, ins, j) == IF IsBad(st) \/ j > Len(ins) THEN st ELSE Replay(Step(st, ins[j]), ins, j + 1)
WellFormed(fam, pre, children, ins) ==
  /\ \A j \in 1..Len(ins) : ins[j].op \in OpsOf(fam)
  /\ ~IsBad(Replay(St0(pre, children), ins, 1))

\* ----------------------------------------------------------------------------------------
\* object names
NameStyles == {"default", "plain", "uni", "unknown"}
Prefix == [buckets |-> "bucket", proofs |-> "proof", resv |-> "reservation", addrs |-> "address", intents |-> "intent"]
DefaultName(class, i) == Prefix[class] \o ToString(i + 1)            \* what the decompiler prints for unnamed objects
NameOf(style, class, i) ==
  CASE style = "plain" -> "my_" \o Prefix[class] \o "_" \o ToString(i)
    [] style = "uni" -> Prefix[class] \o " ~0000E9~01F600 #" \o ToString(i) \o ";"
    [] OTHER -> DefaultName(class, i)
\* names that need escaping inside a string literal (separate family, see GenManifestAst)
EscapeStyles == {"quote", "backslash", "newline"}
EscName(style, class, i) ==
  CASE style = "quote" -> "my \"" \o Prefix[class] \o "\" " \o ToString(i)
    [] style = "backslash" -> Prefix[class] \o "\\n" \o ToString(i)
    [] style = "newline" -> Prefix[class] \o "~00000A" \o ToString(i)
\* ... and every special character inside object names: style "ch<i>" puts SpecialChars[i] into every name
CharStyles == {"ch" \o ToString(i) : i \in 1..Len(SpecialChars)}
CharOfStyle(style) == SpecialChars[CHOOSE i \in 1..Len(SpecialChars) : style = "ch" \o ToString(i)]
Counts(st) == [buckets |-> st.nb, proofs |-> st.np, resv |-> st.nr, addrs |-> st.na, intents |-> st.ni]
NameLists(st, style) ==
  LET c == Counts(st) IN
  [cl \in DOMAIN Prefix |-> [i \in 1..c[cl] |-> IF style \in EscapeStyles THEN EscName(style, cl, i - 1)
                                               ELSE IF style \in CharStyles THEN Prefix[cl] \o CharOfStyle(style) \o ToString(i - 1)
                                               ELSE NameOf(style, cl, i - 1)]]
\* names the compiled manifest must carry
ExpectedNames(st, style) == NameLists(st, IF style = "unknown" THEN "default" ELSE style)

\* ----------------------------------------------------------------------------------------
\* The law over one recorded round trip `p` of a case with expectation `exp` and name style.
\*   p.dec, p.comp \in {"ok","err","panic"}; p.eq = (m == m2); p.eq_ins / eq_blobs / eq_children /
\*   eq_pre / eq_names component equalities; p.eq_bytes = manifest_encode equal; p.fix = decompile(m2)
\*   gives the same text; p.names = object names of m2 by id.
PartOk(p, exp, style, decexp, depth) ==
  IF decexp = "err" THEN p.dec = "err"          \* arguments that are not a tuple cannot be decompiled
  ELSE IF depth > MaxArgDepth
  THEN ~p.encodable /\ p.dec \in {"ok", "err"} /\ (p.dec = "ok" => p.comp \in {"ok", "err"})   \* too deep for SBOR: no claim
  ELSE /\ p.encodable
       /\ p.dec = "ok" /\ p.comp = "ok"
       /\ p.eq_ins /\ p.eq_blobs /\ p.eq_children /\ p.eq_pre /\ p.fix
       /\ p.names = exp
       /\ (style # "unknown" => p.eq /\ p.eq_names /\ p.eq_bytes)
RoundTripOk(ev) == Len(ev.per) >= 1 /\ \A j \in 1..Len(ev.per) : PartOk(ev.per[j], ev.exp, ev.names, ev.dec_exp, ev.depth)
\* T: corpus / scenario manifests (names as compiled or as built): full equality whenever the
\* source compiled at all
CorpusPartOk(p) == p.src = "ok" => /\ p.dec = "ok" /\ p.comp = "ok" /\ p.eq_ins /\ p.eq_blobs /\ p.eq_children /\ p.eq_pre /\ p.fix
                                    /\ (p.names_known => p.eq /\ p.eq_names /\ p.eq_bytes)
CorpusOk(ev) == \A j \in 1..Len(ev.per) : ev.per[j].src \in {"ok", "err"} /\ CorpusPartOk(ev.per[j])
=============================================================================

SPECIFICATION GSpec
CONSTANTS
  Mode = "seq"
  AlphaName = "full"
  K = 2
  R = 2
  Shift = 0
  Rand = FALSE
  TemplateSet = {1, 2, 3, 4, 5, 6, 7, 8, 9, 10, 11, 12, 13, 14, 15, 16, 17, 18, 19, 20, 21}
INVARIANT Emit
CHECK_DEADLOCK FALSE

SPECIFICATION GSpec
CONSTANTS
  Mode = "seq"
  AlphaName = "full"
  K = 2
  R = 2
  Shift = 0
  Rand = FALSE
INVARIANT Emit
CHECK_DEADLOCK FALSE

---------------------------- MODULE TraceTxFailure ----------------------------
(* C02, implementation -> specification: the fault sweep.  For one workload transaction the harness
   records `begin`, then one `receipt` per injection point n in increasing order (n = 0: no injection):
     [class, touched <<classes>>, events <<<<name, emitter>>>>, royalties, n]
   For the force-write workload an `attempt` precedes the receipt.  Every receipt must satisfy the specification's ReceiptOk; and because execution is deterministic up to
   the injection point and the loan stays repaid once it is, a rejection can never follow a committed
   failure when the injection point moves later.                                                    *)
EXTENDS TxFailureRel, TraceIO
VARIABLES l, seenCommit
Ev == Rec[l]
AsSet(s) == {s[i] : i \in DOMAIN s}
Proj(e) == [class |-> e.class, touched |-> AsSet(e.touched), events |-> {<<x[1], x[2]>> : x \in AsSet(e.events)}, royalties |-> e.royalties]
TInit == l = 1 /\ seenCommit = FALSE
TBegin == Ev.a = "begin" /\ seenCommit' = FALSE
TReceipt == /\ Ev.a = "receipt"
            /\ ReceiptOk(Proj(Ev))
            /\ (Ev.n > 0 /\ Ev.class = "Reject") => ~seenCommit
            /\ seenCommit' = (seenCommit \/ (Ev.n > 0 /\ Ev.class = "CommitFailure"))
\* an attempt of the native test blueprint to obtain the privilege (recorded before the receipt of its transaction)
TAttempt == Ev.a = "attempt" /\ PrivilegedOpenOk(Ev) /\ UNCHANGED seenCommit
TNext == l <= Len(Rec) /\ (TBegin \/ TAttempt \/ TReceipt) /\ l' = l + 1
TSpec == TInit /\ [][TNext]_<<l, seenCommit>>
=============================================================================

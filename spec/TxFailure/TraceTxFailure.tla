---------------------------- MODULE TraceTxFailure ----------------------------
(* C02, implementation -> specification: the fault sweep.  For one workload transaction the harness
   records `begin`, then one `receipt` per injection point n in increasing order (n = 0: no injection):
     [class, touched <<classes>>, events <<<<name, emitter>>>>, royalties, n]
   Every receipt must satisfy the specification's ReceiptOk; and because execution is deterministic up to
   the injection point and the loan stays repaid once it is, a rejection can never follow a committed
   failure when the injection point moves later.                                                    *)
EXTENDS TxFailureRel, TraceIO
VARIABLES l, seenCommit
Ev == Rec[l]
AsSet(s) == {s[i] : i \in DOMAIN s}
Proj(e) == [class |-> e.class, touched |-> AsSet(e.touched), events |-> {<<x[1], x[2]>> : x \in AsSet(e.events)}, royalties |-> e.royalties]
TInit == l = 1 /\ seenCommit = FALSE
TBegin == Ev.a = "begin" /\ seenCommit' = FALSE
TReceipt == /\ Ev.a = "receipt"
            /\ ReceiptOk(Proj(Ev))
            /\ (Ev.n > 0 /\ Ev.class = "Reject") => ~seenCommit
            /\ seenCommit' = (seenCommit \/ (Ev.n > 0 /\ Ev.class = "CommitFailure"))
TNext == l <= Len(Rec) /\ (TBegin \/ TReceipt) /\ l' = l + 1
TSpec == TInit /\ [][TNext]_<<l, seenCommit>>
=============================================================================

SPECIFICATION Spec
CONSTANTS
  Keys = {1, 2, 3}
  Vaults = {11, 12}
  MaxSteps = 6
INVARIANT NothingButFees
PROPERTY FailureClass
CHECK_DEADLOCK FALSE

------------------------------ MODULE TxFailure ------------------------------
(* C02.  What a transaction that does not succeed leaves behind (radix-engine/src/system/
   system_callback.rs: determine_result_type, create_commit_receipt, finalize_fees_for_commit,
   update_transaction_tracker; track.rs: revert_non_force_write_changes; transaction_runtime/module.rs:
   events without the force-write flag are dropped on failure; system.rs: only the fungible vault
   blueprint may force-write).

   The model: an execution writes application substates (Step), locks fees in vaults (LockFee: the ONLY
   force-write, with its force-written LockFeeEvent), charges royalties, emits events, repays the system
   loan at some point (RepayLoan) - and may FAIL or be ABORTED between any two steps.  `Receipt` derives
   what the executor hands back.  Substate and event CLASSES are the ones the harness projects real
   receipts to:
     touched  "fee_vault_balance" (balance field of a vault that locked a fee), "validator_rewards",
              "rewards_vault_balance", "tracker", or "other:.."
     events   <<name, emitter class>> with emitter "fee_vault" | "rewards_vault" | "xrd" | "other"      *)
EXTENDS TxFailureRel
CONSTANTS Keys, Vaults, MaxSteps
VARIABLES phase,       \* "run" | "done"
          written,     \* application substates written (normal writes)
          locked,      \* vaults that locked a fee (force-written)
          royalty,     \* TRUE: a royalty was charged
          events,      \* set of <<name, emitter class, forceWrite>>
          loanRepaid, steps, receipt
vars == <<phase, written, locked, royalty, events, loanRepaid, steps, receipt>>

NoReceipt == [class |-> "none", touched |-> {}, events |-> {}, royalties |-> 0]
Init == /\ phase = "run" /\ written = {} /\ locked = {} /\ royalty = FALSE /\ events = {} /\ loanRepaid = FALSE
        /\ steps = 0 /\ receipt = NoReceipt

Running == phase = "run" /\ steps < MaxSteps
Step(k) == /\ Running /\ written' = written \cup {k} /\ events' = events \cup {<<"AppEvent", "other", FALSE>>}
           /\ steps' = steps + 1 /\ UNCHANGED <<phase, locked, royalty, loanRepaid, receipt>>
LockFee(v) == /\ Running /\ locked' = locked \cup {v} /\ events' = events \cup {<<"LockFeeEvent", "fee_vault", TRUE>>}
              /\ steps' = steps + 1 /\ UNCHANGED <<phase, written, royalty, loanRepaid, receipt>>
ChargeRoyalty == /\ Running /\ royalty' = TRUE /\ steps' = steps + 1
                 /\ UNCHANGED <<phase, written, locked, events, loanRepaid, receipt>>
\* the loan can only be repaid from locked fees
RepayLoan == /\ Running /\ ~loanRepaid /\ locked # {} /\ loanRepaid' = TRUE /\ steps' = steps + 1
             /\ UNCHANGED <<phase, written, locked, royalty, events, receipt>>

\* what finalize_fees_for_commit and update_transaction_tracker add to a commit
FeeTouched(lk) == (IF lk # {} THEN {"fee_vault_balance"} ELSE {}) \cup {"validator_rewards", "rewards_vault_balance", "tracker"}
FeeEvs(lk) == (IF lk # {} THEN {<<"PayFeeEvent", "fee_vault">>} ELSE {}) \cup {<<"DepositEvent", "rewards_vault">>, <<"BurnFungibleResourceEvent", "xrd">>}
Forced(evs) == {<<e[1], e[2]>> : e \in {x \in evs : x[3]}}
AllEvs(evs) == {<<e[1], e[2]>> : e \in evs}

\* determine_result_type + create_*_receipt
Fail == /\ phase = "run" /\ phase' = "done"
        /\ receipt' = IF ~loanRepaid
                      THEN [class |-> "Reject", touched |-> {}, events |-> {}, royalties |-> 0]
                      ELSE [class |-> "CommitFailure", touched |-> FeeTouched(locked),    \* revert: only force-writes survive
                            events |-> Forced(events) \cup FeeEvs(locked), royalties |-> 0]  \* revert_royalty
        /\ UNCHANGED <<written, locked, royalty, events, loanRepaid, steps>>
Abort == /\ phase = "run" /\ phase' = "done"
         /\ receipt' = [class |-> "Abort", touched |-> {}, events |-> {}, royalties |-> 0]
         /\ UNCHANGED <<written, locked, royalty, events, loanRepaid, steps>>
Finish == /\ phase = "run" /\ phase' = "done"
          /\ receipt' = IF locked = {}       \* nothing to repay the loan with
                        THEN [class |-> "Reject", touched |-> {}, events |-> {}, royalties |-> 0]
                        ELSE [class |-> "CommitSuccess",
                              touched |-> {"other"} \cup FeeTouched(locked),
                              events |-> AllEvs(events) \cup FeeEvs(locked), royalties |-> IF royalty THEN 1 ELSE 0]
          /\ UNCHANGED <<written, locked, royalty, events, loanRepaid, steps>>
Next == \/ \E k \in Keys : Step(k)
        \/ \E v \in Vaults : LockFee(v)
        \/ ChargeRoyalty \/ RepayLoan \/ Fail \/ Abort \/ Finish
Spec == Init /\ [][Next]_vars

---------------------------------------------------------------------------
\* (the relation ReceiptOk is in TxFailureRel)
\* C02 on the model
NothingButFees == receipt.class # "none" => ReceiptOk(receipt)
\* a failure before the loan is repaid is a rejection, after it a committed failure
FailureClass == [][(receipt'.class \in {"Reject", "CommitFailure"} /\ receipt.class = "none" /\ locked # {} /\ written' = written)
                     => (receipt'.class = "CommitFailure" <=> loanRepaid) \/ receipt'.class = "Reject"]_vars
=============================================================================

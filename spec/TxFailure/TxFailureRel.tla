---------------------------- MODULE TxFailureRel ----------------------------
(* C02: the relation every receipt of a transaction that does not succeed must satisfy - shared by the
   model (TxFailure) and by the validation of recorded receipts of the real engine (TraceTxFailure).
   Substate and event CLASSES are the ones the harness projects real receipts to:
     touched  "fee_vault_balance" (balance field of a vault that locked a fee), "validator_rewards",
              "rewards_vault_balance", "tracker", or "other:.."
     events   <<name, emitter class>> with emitter "fee_vault" | "rewards_vault" | "xrd" | "other"      *)
EXTENDS Integers, Sequences, FiniteSets, TLC
FeeTouch == {"fee_vault_balance", "validator_rewards", "rewards_vault_balance", "tracker"}
FeeEvents == {<<"LockFeeEvent", "fee_vault">>, <<"PayFeeEvent", "fee_vault">>, <<"DepositEvent", "rewards_vault">>,
              <<"BurnFungibleResourceEvent", "xrd">>}
ReceiptOk(r) ==
  /\ r.class \in {"Reject", "Abort"} => (r.touched = {} /\ r.events = {})
  /\ r.class = "CommitFailure" => /\ r.touched \subseteq FeeTouch
                                  /\ r.events \subseteq FeeEvents
                                  /\ r.royalties = 0

\* What makes a write (an event) survive a failure is the privilege to open a substate with FORCE_WRITE / UNMODIFIED_BASE
\* (to emit an event with FORCE_WRITE).  Only the fungible vault has it (fee locking); for every other blueprint the
\* system refuses the attempt - so nothing but the fee payment can be in a committed failure.
\*   attempt = [kind "field" | "collection_entry" | "store_entry" | "event" | "owned_vault_lock_fee", flags <<..>>,
\*              package "resource" | other, blueprint, result "ok" | error class]
\* The privileged blueprint is identified by package AND name: a blueprint called "FungibleVault" in another package
\* has no privilege, nor has another blueprint of the resource package.
HasPrivilege(a) == a.package = "resource" /\ a.blueprint = "FungibleVault"
Privileged(a) == \E i \in DOMAIN a.flags : a.flags[i] \in {"FORCE_WRITE", "UNMODIFIED_BASE"}
PrivilegedOpenOk(a) ==
  IF Privileged(a) /\ ~HasPrivilege(a)
  THEN a.result = (IF a.kind = "event" THEN "ForceWriteEventFlagsNotAllowed" ELSE "InvalidLockFlags")
  ELSE a.result = "ok"
=============================================================================

SPECIFICATION Spec
CONSTANTS
  Tier = "quick"
INVARIANTS LawsHold Emit
CHECK_DEADLOCK FALSE

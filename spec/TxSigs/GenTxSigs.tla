------------------------------ MODULE GenTxSigs ------------------------------
(* C33: the signer configurations.  Every configuration is a state: TLC checks the laws of TxSigs
   on it (sound and complete signer sets, the mutation law at the level of the model) and prints it
   with the set of outcomes the specification allows.  The harness builds the configuration as a
   real V1 / V2 notarized transaction with real keys (odd key names secp256k1, even Ed25519) and
   reports an outcome that is not allowed.

   Families:
     A  signer sets: every list of at most 2 (thorough: 3) honest signatures of keys 1..4 on the
        transaction intent x notary in {1, 2, 4} x notary_is_signatory x V1 (notary may duplicate a
        signer: on / off) and V2 (with one subintent whose signatures are none / one / two / duplicate)
     B  signatures over the wrong hash: one signature of a secp256k1 or Ed25519 key over another
        intent's hash / the signed-intent hash / the stale own hash / an unrelated hash, on the root
        or on the subintent, next to an honest signer
     C  notary signature: over the signed-intent hash / the intent hash / a stale signed hash / garbage,
        by the notary key / another key of the same curve / a key of the other curve
     D  count limits (synthetic configuration maxSigs = 2, maxTotalSigs = 4)
     E  degenerate Ed25519 keys (both tiers, complete): each of the 8 small-order points as public key with the
        key-less "signature" (R = the same point / the neutral element, s = 0) as intent signer (alone, before / after an
        honest signer), as subintent signer, and as notary (with its key in the header), V1 and V2           *)
EXTENDS TxSigs, Json
CONSTANT Tier
VARIABLE c

Cfg(dup) == [notaryDup |-> dup, maxSigs |-> 16, maxTotalSigs |-> 64]
SmallCfg == [notaryDup |-> TRUE, maxSigs |-> 2, maxTotalSigs |-> 4]

S(k, over, j, n) == [k |-> k, over |-> over, j |-> j, at |-> [i \in 1..n |-> 0], junk |-> 0]
Own(k, n) == S(k, "own", 0, n)
\* the notary signature is made last: it sees all intent signatures
WithNotary(tx, k, over) ==
  [tx EXCEPT !.nsig = [k |-> k, over |-> over, at |-> tx.cv, sv |-> SigIds(tx), junk |-> 0]]
Mk(ver, sigs, notary, signatory, nk, nover) ==
  WithNotary([ver |-> ver, cv |-> [i \in 1..Len(sigs) |-> 0], sigs |-> sigs, notary |-> notary,
              signatory |-> signatory, nsig |-> [k |-> 0, over |-> "signed", at |-> <<>>, sv |-> <<>>, junk |-> 0]],
             nk, nover)

SeqsUpTo(Sx, n) == UNION {[1..m -> Sx] : m \in 0..n}
RootLists(n) == {[p \in DOMAIN ks |-> Own(ks[p], n)] : ks \in SeqsUpTo(1..4, IF Tier = "thorough" THEN 3 ELSE 2)}
SubLists == {<<>>, <<Own(1, 2)>>, <<Own(2, 2)>>, <<Own(1, 2), Own(2, 2)>>, <<Own(3, 2), Own(3, 2)>>, <<Own(2, 2), Own(2, 2)>>}

FamilyA ==
  {[tx |-> Mk(1, <<r>>, nt, sg, nt, "signed"), cfg |-> Cfg(dup)] :
       r \in RootLists(1), nt \in {1, 2, 4}, sg \in BOOLEAN, dup \in BOOLEAN}
  \cup {[tx |-> Mk(2, <<r, s>>, nt, sg, nt, "signed"), cfg |-> Cfg(TRUE)] :
       r \in RootLists(2), s \in SubLists, nt \in {1, 2, 4}, sg \in BOOLEAN}

Wrong(n) == {S(k, ov[1], ov[2], n) : k \in {1, 2}, ov \in {<<"signed", 0>>, <<"stale", 0>>, <<"garbage", 0>>}}
FamilyB ==
  {[tx |-> Mk(1, <<r>>, 4, FALSE, 4, "signed"), cfg |-> Cfg(TRUE)] :
       r \in UNION {{<<w>>, <<Own(3, 1), w>>, <<w, Own(3, 1)>>, <<w, w>>} : w \in Wrong(1)}}
  \cup {[tx |-> Mk(2, <<r, s>>, 4, FALSE, 4, "signed"), cfg |-> Cfg(TRUE)] :
       r \in UNION {{<<w>>, <<Own(3, 2), w>>} : w \in Wrong(2) \cup {S(1, "intent", 2, 2), S(2, "intent", 2, 2)}},
       s \in {<<>>, <<Own(3, 2)>>}}
  \cup {[tx |-> Mk(2, <<r, s>>, 4, FALSE, 4, "signed"), cfg |-> Cfg(TRUE)] :
       r \in {<<>>, <<Own(3, 2)>>},
       s \in UNION {{<<w>>, <<Own(3, 2), w>>} : w \in Wrong(2) \cup {S(1, "intent", 1, 2), S(2, "intent", 1, 2)}}}

FamilyCv(ver) ==
  {[tx |-> Mk(ver, IF ver = 1 THEN <<r>> ELSE <<r, <<Own(2, 2)>>>>, nt, sg, nk, nover), cfg |-> Cfg(TRUE)] :
       r \in {<<>>, <<Own(3, IF ver = 1 THEN 1 ELSE 2)>>}, nt \in {1, 2}, sg \in BOOLEAN,
       nk \in 1..4, nover \in {"signed", "intent", "stale", "garbage"}}
FamilyC == FamilyCv(1) \cup FamilyCv(2)

FamilyD ==
  {[tx |-> Mk(1, <<[p \in 1..n |-> Own(p, 1)]>>, 4, FALSE, 4, "signed"), cfg |-> SmallCfg] : n \in 0..4}
  \cup {[tx |-> Mk(2, <<[p \in 1..n |-> Own(p, 2)], [p \in 1..m |-> Own(p, 2)]>>, 4, FALSE, 4, "signed"), cfg |-> SmallCfg] :
        n \in 0..3, m \in 0..3}

DegKeys == {10 + 2 * t : t \in 0..7}
Forged(n) == {S(k, ov, 0, n) : k \in DegKeys, ov \in {"forgedSame", "forgedId"}}
FamilyE ==
  {[tx |-> Mk(1, <<r>>, 4, FALSE, 4, "signed"), cfg |-> Cfg(TRUE)] :
       r \in UNION {{<<d>>, <<Own(3, 1), d>>, <<d, Own(2, 1)>>} : d \in Forged(1)}}
  \cup {[tx |-> Mk(2, <<r, s>>, 4, FALSE, 4, "signed"), cfg |-> Cfg(TRUE)] :
       r \in {<<>>, <<Own(3, 2)>>}, s \in UNION {{<<d>>, <<Own(1, 2), d>>} : d \in Forged(2)}}
  \cup {[tx |-> Mk(2, <<<<d>>, <<Own(2, 2)>>>>, 4, FALSE, 4, "signed"), cfg |-> Cfg(TRUE)] : d \in Forged(2)}
  \cup UNION {{[tx |-> Mk(ver, IF ver = 1 THEN <<r>> ELSE <<r, <<Own(2, 2)>>>>, k, sg, k, ov), cfg |-> Cfg(TRUE)] :
                 r \in {<<>>, <<Own(3, IF ver = 1 THEN 1 ELSE 2)>>}, k \in DegKeys, sg \in BOOLEAN, ov \in {"forgedSame", "forgedId"}}
              : ver \in 1..2}

Cases == FamilyA \cup FamilyB \cup FamilyC \cup FamilyD \cup FamilyE

Init == c \in Cases
Next == UNCHANGED c
Spec == Init /\ [][Next]_c

LawsHold == SoundSigners(c.tx, c.cfg) /\ CompleteSigners(c.tx, c.cfg) /\ MutationLaw(c.tx, c.cfg)

\* projection for the harness: signature descriptors and the allowed outcomes (unowned keys -> 99)
Proj(k) == IF k >= 100 THEN 99 ELSE k
Desc(s) == [k |-> s.k, over |-> s.over, j |-> s.j]
Emit == PrintT(<<"B", ToJson(
  [ver |-> c.tx.ver, cfg |-> c.cfg, notary |-> c.tx.notary, signatory |-> c.tx.signatory,
   sigs |-> [i \in DOMAIN c.tx.sigs |-> [p \in DOMAIN c.tx.sigs[i] |-> Desc(c.tx.sigs[i][p])]],
   nsig |-> [k |-> c.tx.nsig.k, over |-> c.tx.nsig.over],
   allowed |-> {[ok |-> o.ok, errs |-> o.errs,
                 signers |-> [i \in DOMAIN o.signers |-> {Proj(k) : k \in o.signers[i]}]] : o \in Allowed(c.tx, c.cfg)}])>>)
=============================================================================

------------------------------- MODULE TxSigs -------------------------------
(* C33.  Which signed and notarized transactions pass signature validation and which signer set
   they hand to execution (radix-transactions/src/validation/signature_validator.rs on top of
   radix-common/src/crypto), over the ideal signature model CryptoIdeal.

   Keys are names 1..4; odd keys are secp256k1 keys (intent signatures carry no public key: the
   key is RECOVERED from signature and hash), even keys are Ed25519 keys (the signature carries
   the public key).  Hashes are terms (records, see IMsg / SMsg): the transaction intent hash
   covers the content of all intents, a subintent hash its own content, the signed-intent hash
   the intent hash and all intent signatures.

   tx == [ver, cv, sigs, notary, signatory, nsig]
     cv        <<content version of intent 1 (transaction intent), 2, ...>>  (stands for the bytes)
     sigs      <<for intent i: <<signature records>> >>
     signature record  [k, over, j, at, junk]
                k = signing key; over = which hash was signed: "own" | "intent" (hash of intent j) |
                "signed" (a signed-intent hash) | "stale" (own hash before the last edit) | "garbage";
                at = content versions when the signature was made; junk = 1: the signature bytes
                were changed afterwards
     nsig      notary signature record [k, over, at, sv, junk]: over = "signed" (signed-intent hash
               with the intent signatures sv) | "intent" | "stale" | "garbage"
   cfg == [notaryDup, maxSigs, maxTotalSigs]                                                   *)
EXTENDS CryptoIdeal

Curve(k) == IF k % 2 = 1 THEN "secp" ELSE "ed"
\* Keys 10, 12, .., 24 are DEGENERATE Ed25519 keys: the public key is a small-order point of the curve, nobody holds a
\* secret key for it, and what stands in the place of its signature (over = "forgedSame" / "forgedId": R = the same
\* point / the neutral element, s = 0) was written down without one.  In the ideal model the key is JunkPk and the
\* signature JunkSig: it verifies over no hash, authorizes nothing and never enters a signer set.
Degenerate(k) == k \in 10..24
KeyTerm(k) == IF Degenerate(k) THEN JunkPk ELSE PK(k)
NInt(tx) == Len(tx.cv)

\* hash terms -----------------------------------------------------------------
IMsg(i, cv)   == [t |-> "I", i |-> i, cv |-> IF i = 1 THEN cv ELSE <<cv[i]>>, sv |-> <<>>]
SMsg(cv, sv)  == [t |-> "S", i |-> 0, cv |-> cv, sv |-> sv]
GMsg          == [t |-> "G", i |-> 0, cv |-> <<>>, sv |-> <<>>]
\* the identity of the signature bytes inside the signed-intent hash
SigId(s)      == [k |-> s.k, over |-> s.over, j |-> s.j, at |-> s.at, junk |-> s.junk]
SigIds(tx)    == [i \in DOMAIN tx.sigs |-> [p \in DOMAIN tx.sigs[i] |-> SigId(tx.sigs[i][p])]]
IntentHash(tx, i) == IMsg(i, tx.cv)
SignedHash(tx)    == SMsg(tx.cv, SigIds(tx))

Bump(cv, i) == [cv EXCEPT ![i] = @ + 1]
\* the message an intent signature (attached to intent i) was made over
SigMsg(s, i) == CASE s.over = "own"     -> IMsg(i, s.at)
                  [] s.over = "intent"  -> IMsg(s.j, s.at)
                  [] s.over = "stale"   -> IMsg(i, Bump(s.at, i))
                  [] s.over = "signed"  -> SMsg(s.at, <<>>)
                  [] OTHER              -> GMsg
SigTerm(s, i) == IF s.junk = 1 \/ Degenerate(s.k) THEN JunkSig ELSE Sign(s.k, SigMsg(s, i))
NotaryMsg(n) == CASE n.over = "signed" -> SMsg(n.at, n.sv)
                  [] n.over = "intent" -> IMsg(1, n.at)
                  [] n.over = "stale"  -> SMsg(Bump(n.at, 1), n.sv)
                  [] OTHER             -> GMsg
NotaryTerm(n) == IF n.junk = 1 \/ Degenerate(n.k) THEN JunkSig ELSE Sign(n.k, NotaryMsg(n))

\* intent signatures ------------------------------------------------------------
\* positions whose check is not decided by the ideal model: a secp256k1 signature that is not an
\* honest signature over the right hash still RECOVERS to some key nobody owns - or to nothing
Honest(tx, i, p) == Recover(IntentHash(tx, i), SigTerm(tx.sigs[i][p], i)) # 0
Positions(tx) == UNION {{<<i, p>> : p \in DOMAIN tx.sigs[i]} : i \in DOMAIN tx.sigs}
Open(tx) == {ip \in Positions(tx) : ~Honest(tx, ip[1], ip[2]) /\ Curve(tx.sigs[ip[1]][ip[2]].k) = "secp"}
\* the unowned key such a signature recovers to is a function of the signature bytes and the hash:
\* byte-identical signatures on the same intent recover the same key (ids >= 100)
OverCode(o) == CASE o = "own" -> 1 [] o = "intent" -> 2 [] o = "signed" -> 3 [] o = "stale" -> 4 [] OTHER -> 5
UnownedId(tx, i, p) ==
  LET s == tx.sigs[i][p] IN
  IF s.junk = 1 THEN 100000 + 100 * i + p ELSE 1000 * i + 100 * s.k + 10 * OverCode(s.over) + s.j
OpenIds(tx) == {UnownedId(tx, ip[1], ip[2]) : ip \in Open(tx)}
Choices(tx) == [OpenIds(tx) -> {0, 1}]
\* the key a signature verifies for (0 = it does not verify)
KeyAt(tx, ch, i, p) ==
  LET s == tx.sigs[i][p] IN
  IF Honest(tx, i, p) THEN s.k
  ELSE IF Curve(s.k) = "ed" THEN 0
  ELSE IF ch[UnownedId(tx, i, p)] = 1 THEN UnownedId(tx, i, p) ELSE 0
Keys(tx, ch, i) == [p \in DOMAIN tx.sigs[i] |-> KeyAt(tx, ch, i, p)]

AllowDup(tx, cfg) == tx.ver = 1 /\ cfg.notaryDup
TotalSigs(tx) == LET RECURSIVE Go(_)
                     Go(i) == IF i = 0 THEN 0 ELSE LET r == Go(i - 1) IN r + Len(tx.sigs[i])
                 IN Go(Len(tx.sigs))

\* the violated rules, given the choice ch for the undecided recoveries
AllKeys(tx, ch) == [i \in DOMAIN tx.sigs |-> Keys(tx, ch, i)]
ErrsK(tx, cfg, ks) ==
     (IF \E i \in DOMAIN tx.sigs : Len(tx.sigs[i]) > cfg.maxSigs THEN {"TooManySigs"} ELSE {})
  \cup (IF TotalSigs(tx) + 1 > cfg.maxTotalSigs THEN {"TooManySigs"} ELSE {})
  \cup (IF \E i \in DOMAIN ks : \E p \in DOMAIN ks[i] : ks[i][p] = 0 THEN {"InvalidIntentSignature"} ELSE {})
  \cup (IF \E i \in DOMAIN ks : \E p, q \in DOMAIN ks[i] : p # q /\ ks[i][p] # 0 /\ ks[i][p] = ks[i][q]
        THEN {"DuplicateSigner"} ELSE {})
  \cup (IF ~Verify(KeyTerm(tx.notary), SignedHash(tx), NotaryTerm(tx.nsig)) THEN {"InvalidNotarySignature"} ELSE {})
  \cup (IF tx.signatory /\ ~AllowDup(tx, cfg) /\ \E p \in DOMAIN ks[1] : ks[1][p] = tx.notary
        THEN {"NotaryDuplicatesSigner"} ELSE {})
Errs(tx, cfg, ch) == ErrsK(tx, cfg, AllKeys(tx, ch))
\* the signer sets handed to execution
SignersK(tx, ks) == [i \in DOMAIN ks |-> {ks[i][p] : p \in DOMAIN ks[i]} \cup (IF i = 1 /\ tx.signatory THEN {tx.notary} ELSE {})]
Signers(tx, ch) == SignersK(tx, AllKeys(tx, ch))
Outcome(tx, cfg, ch) == LET ks == AllKeys(tx, ch)
                            e == ErrsK(tx, cfg, ks)
                        IN [ok |-> e = {}, errs |-> e, signers |-> IF e = {} THEN SignersK(tx, ks) ELSE <<>>]
Allowed(tx, cfg) == {Outcome(tx, cfg, ch) : ch \in Choices(tx)}

---------------------------------------------------------------------------
\* The statement as laws over a configuration
Owned(k) == k \in 1..4
\* (1) a valid transaction has a verifying notary signature over the signed-intent hash; every owned
\*     key in a signer set signed the hash of that very intent (or is the signatory notary); no key
\*     verified twice in an intent
SoundSigners(tx, cfg) ==
  \A ch \in Choices(tx) : Errs(tx, cfg, ch) = {} =>
     /\ Verify(KeyTerm(tx.notary), SignedHash(tx), NotaryTerm(tx.nsig))
     /\ \A i \in DOMAIN tx.sigs : \A k \in Signers(tx, ch)[i] : ~Degenerate(k)     \* a key nobody holds authorizes nothing
     /\ \A i \in DOMAIN tx.sigs : \A k \in Signers(tx, ch)[i] : Owned(k) =>
           \/ \E p \in DOMAIN tx.sigs[i] : Verify(PK(k), IntentHash(tx, i), SigTerm(tx.sigs[i][p], i))
           \/ (i = 1 /\ tx.signatory /\ k = tx.notary)
     /\ \A i \in DOMAIN tx.sigs : \A p, q \in DOMAIN tx.sigs[i] : p # q => Keys(tx, ch, i)[p] # Keys(tx, ch, i)[q]
\* (2) and conversely every key with a verifying signature is in the signer set
CompleteSigners(tx, cfg) ==
  \A ch \in Choices(tx) : Errs(tx, cfg, ch) = {} =>
     \A i \in DOMAIN tx.sigs : \A p \in DOMAIN tx.sigs[i] :
        Recover(IntentHash(tx, i), SigTerm(tx.sigs[i][p], i)) # 0 => tx.sigs[i][p].k \in Signers(tx, ch)[i]

\* (3) Mutation: changing the bytes of one part of a valid transaction.  Content = the intents'
\*     bytes (cv) together with the notary key and the signatory flag (they live in the header).
Content(tx) == [cv |-> tx.cv, notary |-> tx.notary, signatory |-> tx.signatory]
Mutations(tx) ==
     {[tx EXCEPT !.cv = Bump(tx.cv, i)] : i \in DOMAIN tx.cv}
  \cup {[tx EXCEPT !.sigs[ip[1]][ip[2]].junk = 1] : ip \in Positions(tx)}
  \cup {[tx EXCEPT !.nsig.junk = 1]}
  \cup {[tx EXCEPT !.signatory = ~tx.signatory, !.cv = Bump(tx.cv, 1)]}
  \cup {[tx EXCEPT !.notary = k, !.cv = Bump(tx.cv, 1)] : k \in (1..4) \ {tx.notary}}
MutationLaw(tx, cfg) ==
  \A o \in Allowed(tx, cfg) : o.ok =>
     \A t2 \in Mutations(tx) : \A o2 \in Allowed(t2, cfg) :
        ~o2.ok \/ (Content(t2) = Content(tx) /\ o2.signers = o.signers)

\* The byte-level form used on recorded mutations of real transactions: `before` / `after` are
\* [ok, content, signers] observed from prepare + validate
MutationOk(before, after) ==
  before.ok => (~after.ok \/ (after.content = before.content /\ after.signers = before.signers))
=============================================================================

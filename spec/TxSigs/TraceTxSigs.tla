----------------------------- MODULE TraceTxSigs -----------------------------
(* C33, impl -> spec: recorded single-byte mutations of valid real transactions.  Every event
   [a |-> "mut", region, pos, mask, before, after] carries the observation (verdict, content
   identity, signer keys) of prepare + validate on the original and on the changed payload; the
   specification's MutationOk decides.                                                       *)
EXTENDS TxSigs, TraceIO
VARIABLE l
Obs(o) == [ok |-> o.ok, content |-> o.content, signers |-> o.signers]
Ok(ev) == CASE ev.a = "mut" -> ev.before.ok /\ MutationOk(Obs(ev.before), Obs(ev.after))
            [] OTHER -> FALSE
TInit == l = 1
TNext == l <= Len(Rec) /\ (IF Ok(Rec[l]) THEN TRUE ELSE PrintT(<<"BAD", l>>)) /\ l' = l + 1
TSpec == TInit /\ [][TNext]_l
Post == PrintT(<<"DONE", TLCGet("stats").diameter - 1>>)
=============================================================================

SPECIFICATION TSpec
CONSTANTS
  Nodes = {}
  Keys = {}
INVARIANTS WriterExclusive HandlesFresh
POSTCONDITION TraceAccepted
CHECK_DEADLOCK FALSE

--------------------------- MODULE MCSubstateLocks ---------------------------
EXTENDS SubstateLocks
CONSTANT MaxOpen, MaxNext
Bound == Cardinality(Open) <= MaxOpen /\ next <= MaxNext
View == <<handles, next>>
=============================================================================

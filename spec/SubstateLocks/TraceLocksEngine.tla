-------------------------- MODULE TraceLocksEngine --------------------------
(* X03 (extension of C13, DESIGN 7 hook H3): every lock / unlock the REAL kernel issues on its
   substate lock table while real transactions execute (recorded by the cfg-guarded sink in
   radix-engine/src/kernel/substate_locks.rs) is an instance of SubstateLocks.tla's actions with
   exactly the recorded result: a lock is granted (with the next handle number) or refused as the
   specification determines, WriterExclusive / HandlesFresh hold in every state, and a
   successfully executed transaction leaves no handle open.
   Substates are <<n, k>>: n the rank of the node, k the rank of the substate among all substates
   the transaction locks.  A new kernel ("new") starts with an empty table.                    *)
EXTENDS SubstateLocks, TraceIO
VARIABLE l
Ev == Rec[l]
Step(A) == l <= Len(Rec) /\ A /\ l' = l + 1
TInit == Init /\ l = 1
TNew == Step(Ev.a = "new" /\ handles' = <<>> /\ next' = 0 /\ ret' = -2)
TLock == Step(Ev.a = "lock" /\ Lock(Ev.n, Ev.k, Ev.ro) /\ ret' = Ev.ret)
TUnlock == Step(Ev.a = "unlock" /\ Unlock(Ev.h))
TEnd == Step(/\ Ev.a = "end" /\ Ev.outcome \in {"success", "failure", "reject"}
             /\ (Ev.outcome = "success" => Open = {})
             /\ UNCHANGED vars)
TNext == TNew \/ TLock \/ TUnlock \/ TEnd
TSpec == TInit /\ [][TNext]_<<vars, l>>
=============================================================================

--------------------------- MODULE TraceSubstateLocks ---------------------------
(* impl -> spec: a recorded lock/unlock stream of the real SubstateLocks is accepted iff
   every event is an instance of the specification's action with the recorded result and
   the recorded observations (is_locked for every substate, node_is_locked for every node). *)
EXTENDS SubstateLocks, TraceIO
VARIABLE l
Ev == Rec[l]
LockedSet == {s \in Substates : IsLocked(s[1], s[2])}
NLocked == {n \in Nodes : NodeIsLocked(n)}
ObsMatches(ev) == /\ LockedSet = {<<p[1], p[2]>> : p \in ToSet(ev.locked)}
                  /\ NLocked = ToSet(ev.nlocked)
TInit == Init /\ l = 1
TLock == /\ l <= Len(Rec) /\ Ev.a = "lock"
         /\ Lock(Ev.n, Ev.k, Ev.ro) /\ ret' = Ev.ret
         /\ ObsMatches(Ev)' /\ l' = l + 1
TUnlock == /\ l <= Len(Rec) /\ Ev.a = "unlock"
           /\ Unlock(Ev.ret)
           /\ ObsMatches(Ev)' /\ l' = l + 1
TReset == /\ l <= Len(Rec) /\ Ev.a = "reset"
          /\ handles' = <<>> /\ next' = 0 /\ ret' = -2 /\ l' = l + 1
TNext == TLock \/ TUnlock \/ TReset
TSpec == TInit /\ [][TNext]_<<vars, l>>
=============================================================================

--------------------------- MODULE TraceSubstateLocks ---------------------------
(* impl -> spec: a recorded lock/unlock stream of the real SubstateLocks is accepted iff
   every event is an instance of the specification's action with the recorded result and
   the recorded observations (is_locked for every substate, node_is_locked for every node). *)
EXTENDS SubstateLocks, TraceIO
VARIABLE l
Ev == Rec[l]
\* observations recorded after the step, compared with the successor state
ObsMatchesP(ev) ==
  /\ {s \in Substates : \E h \in DOMAIN handles' : handles'[h].n = s[1] /\ handles'[h].k = s[2]}
       = {<<p[1], p[2]>> : p \in ToSet(ev.locked)}
  /\ {n \in Nodes : \E h \in DOMAIN handles' : handles'[h].n = n} = ToSet(ev.nlocked)
TInit == Init /\ l = 1
TLock == /\ l <= Len(Rec) /\ Ev.a = "lock"
         /\ Lock(Ev.n, Ev.k, Ev.ro) /\ ret' = Ev.ret
         /\ ObsMatchesP(Ev) /\ l' = l + 1
TUnlock == /\ l <= Len(Rec) /\ Ev.a = "unlock"
           /\ Unlock(Ev.ret)
           /\ ObsMatchesP(Ev) /\ l' = l + 1
TReset == /\ l <= Len(Rec) /\ Ev.a = "reset"
          /\ handles' = <<>> /\ next' = 0 /\ ret' = -2 /\ l' = l + 1
TNext == TLock \/ TUnlock \/ TReset
TSpec == TInit /\ [][TNext]_<<vars, l>>
=============================================================================

SPECIFICATION GSpec
CONSTANTS
  Nodes = {1, 2}
  Keys = {1, 2}
  K = 4
INVARIANT Emit
CHECK_DEADLOCK FALSE

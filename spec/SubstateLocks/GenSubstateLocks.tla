--------------------------- MODULE GenSubstateLocks ---------------------------
(* Behaviour generator: every behaviour of SubstateLocks up to K operations, printed as JSON
   (one line each) with the abstract observations the harness compares after every step.   *)
EXTENDS SubstateLocks, Json
CONSTANT K
VARIABLE hist
Obs == [locked |-> {<<s[1], s[2]>> : s \in {t \in Substates : IsLocked(t[1], t[2])}},
        nlocked |-> {n \in Nodes : NodeIsLocked(n)},
        open |-> Open]
GInit == Init /\ hist = <<>>
GLock(n, k, ro) == Lock(n, k, ro) /\
   hist' = Append(hist, [a |-> "lock", n |-> n, k |-> k, ro |-> ro, ret |-> ret',
                         locked |-> {<<t[1], t[2]>> : t \in {t \in Substates : \E h \in DOMAIN handles' : handles'[h].n = t[1] /\ handles'[h].k = t[2]}},
                         nlocked |-> {m \in Nodes : \E h \in DOMAIN handles' : handles'[h].n = m},
                         open |-> DOMAIN handles'])
GUnlock(h) == Unlock(h) /\
   hist' = Append(hist, [a |-> "unlock", n |-> 0, k |-> 0, ro |-> FALSE, ret |-> h,
                         locked |-> {<<t[1], t[2]>> : t \in {t \in Substates : \E x \in DOMAIN handles' : handles'[x].n = t[1] /\ handles'[x].k = t[2]}},
                         nlocked |-> {m \in Nodes : \E x \in DOMAIN handles' : handles'[x].n = m},
                         open |-> DOMAIN handles'])
GNext == /\ Len(hist) < K
         /\ \/ \E n \in Nodes, k \in Keys, ro \in BOOLEAN : GLock(n, k, ro)
            \/ \E h \in Open : GUnlock(h)
GSpec == GInit /\ [][GNext]_<<vars, hist>>
Emit == Len(hist) = K => PrintT(<<"B", ToJson(hist)>>)
=============================================================================

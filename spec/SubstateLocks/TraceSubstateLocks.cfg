SPECIFICATION TSpec
CONSTANTS
  Nodes = {1,2,3,4,5,6}
  Keys = {1,2,3,4,5,6,7,8}
INVARIANTS WriterExclusive HandlesFresh
POSTCONDITION TraceAccepted
CHECK_DEADLOCK FALSE

--------------------------- MODULE SubstateLocks ---------------------------
(* C13. The kernel's substate lock table (radix-engine/src/kernel/substate_locks.rs).
   One action per public operation.  A substate is <<node, key>>; `handles` maps every
   open handle to the substate it was opened on and its mode.                          *)
EXTENDS Integers, FiniteSets, Sequences, TLC
CONSTANTS Nodes, Keys            \* finite sets of integers
VARIABLES handles,               \* [open handle id -> [n, k, ro]]
          next,                  \* next handle id (handles are never reused)
          ret                    \* observation: result of the last operation
vars == <<handles, next, ret>>

Substates == Nodes \X Keys
Open == DOMAIN handles
On(n, k) == {h \in Open : handles[h].n = n /\ handles[h].k = k}
Writers(n, k) == {h \in On(n, k) : ~handles[h].ro}
IsLocked(n, k) == On(n, k) # {}
NodeIsLocked(n) == \E h \in Open : handles[h].n = n

Init == handles = <<>> /\ next = 0 /\ ret = -2

\* lock(): a read lock needs "no writer", a write lock needs "no handle at all".
CanLock(n, k, ro) == IF ro THEN Writers(n, k) = {} ELSE On(n, k) = {}
Lock(n, k, ro) ==
  IF CanLock(n, k, ro)
  THEN /\ handles' = handles @@ (next :> [n |-> n, k |-> k, ro |-> ro])
       /\ next' = next + 1
       /\ ret' = next
  ELSE /\ UNCHANGED <<handles, next>>
       /\ ret' = -1
Unlock(h) ==
  /\ h \in Open
  /\ handles' = [x \in Open \ {h} |-> handles[x]]
  /\ UNCHANGED next
  /\ ret' = -2

Next == \/ \E n \in Nodes, k \in Keys, ro \in BOOLEAN : Lock(n, k, ro)
        \/ \E h \in Open : Unlock(h)
Spec == Init /\ [][Next]_vars

---------------------------------------------------------------------------
\* Properties
WriterExclusive == \A h \in Open : ~handles[h].ro => On(handles[h].n, handles[h].k) = {h}
HandlesFresh    == \A h \in Open : h < next
\* a successful lock returns a handle that was not open before and is open afterwards
LockGrantsFresh == [][ret' >= 0 => (ret' \notin Open /\ ret' \in DOMAIN handles')]_vars
\* handles stay open until they are closed by Unlock of exactly that handle
OpenUntilClosed == [][\A h \in Open : h \in DOMAIN handles' \/ (ret' = -2 /\ Cardinality(DOMAIN handles') = Cardinality(Open) - 1)]_vars
=============================================================================

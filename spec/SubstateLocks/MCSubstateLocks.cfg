SPECIFICATION Spec
CONSTANTS
  Nodes = {1, 2}
  Keys = {1, 2}
  MaxOpen = 4
  MaxNext = 7
CONSTRAINT Bound
VIEW View
INVARIANTS WriterExclusive HandlesFresh
PROPERTIES LockGrantsFresh OpenUntilClosed
CHECK_DEADLOCK FALSE

----------------------------- MODULE GenFeeReserve -----------------------------
(* C06, spec -> implementation: seeded random sequences of K public calls (RandomElement: one call per
   step) on the small-scale model, for every parameter family.  TLC chooses the INPUTS (parameters,
   calls); the harness gives them to the real SystemLoanFeeReserve with the same decimal values
   (model number n = n * 10^-4 = n * 10^14 attos) and records results, fee_balance(), fully_repaid()
   and the finalization summary; TraceFeeReserve re-computes them with the specification at real
   scale and accepts or rejects the recording.  Calls continue after an error on purpose: the state
   an error leaves behind is part of what is compared.                                            *)
EXTENDS MCFeeReserve, Json
CONSTANT K
VARIABLE hist

AllParams == {Mk(pe, pf, loan, tip, credit, ab) : pe \in {3, 10000, 12345}, pf \in {2, 10000}, loan \in {0, 4, 8},
                                                   tip \in Tips, credit \in {0, 50, 200000}, ab \in BOOLEAN}
Units == 0..9
Amounts == {0, 1, 3, 300, 500, 40000, 500000, 1000000}
\* (parameterised by the step number only so that TLC evaluates it anew at every step instead of caching it)
RandomCall(k) ==
  LET op == RandomElement(IF k < 0 THEN {} ELSE {"consumeDeferredExecution", "consumeDeferredFinalization", "consumeDeferredStorage",
                           "consumeExecution", "consumeExecution", "consumeExecution", "consumeFinalization",
                           "consumeStorage", "consumeRoyalty", "consumeRoyalty", "lockFee", "lockFee", "repayAll", "revertRoyalty"})
  IN C(op, RandomElement(Units), RandomElement({"State", "Archive"}), RandomElement({"Xrd", "Usd"}),
       RandomElement(Amounts), RandomElement(1..2), RandomElement(1..3), RandomElement(BOOLEAN))
GInit == /\ p \in AllParams /\ fr = 0 /\ n = 0 /\ pre = TRUE /\ failed = "" /\ out = NoOut /\ hist = <<>>
GNext == /\ n < K
         /\ \E c \in {RandomCall(n)} :
              \* only the inputs are generated here; the small-scale model is not even evaluated
              /\ hist' = Append(hist, c) /\ n' = n + 1
              /\ UNCHANGED <<p, fr, pre, failed, out>>
GSpec == GInit /\ [][GNext]_<<p, fr, n, pre, failed, out, hist>>
Emit == n = K => PrintT(<<"B", ToJson([p |-> p, calls |-> hist])>>)
=============================================================================

SPECIFICATION Spec
CONSTANTS
  MaxCalls = 4
  Family = "inexact"
INVARIANTS NoAssertionTripAlways
CHECK_DEADLOCK FALSE

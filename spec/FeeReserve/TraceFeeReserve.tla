---------------------------- MODULE TraceFeeReserve ----------------------------
(* C06, implementation -> specification at REAL scale (numbers = spec/common/BigInt, 1.0 = 10^18).
   Recorded runs of the real SystemLoanFeeReserve (call sequences chosen by TLC or drawn from the seed)
   and recorded fee outcomes of committed ledger transactions:
     new       [p, balance, repaid]                           a reserve is created
     call      [c, res, balance, repaid]                      one public call: result class, fee_balance(), fully_repaid()
     finalize  [summary, toProposer, toValidatorSet, toBurn]  finalize() and the summary's share methods
     outcome   a committed receipt (see FeeOutcomeOk)
   Every event must be what the specification computes from the state it has tracked so far.        *)
EXTENDS BigInt, TraceIO
VARIABLES l, p, fr

BScale == Pow10(18)
BBpUnit == Pow10(14)
\* x div 10^18 for x >= 0: drop four limbs (10^16), then divide by 100
BDivScale(x) == IF Len(x.l) <= 4 THEN Zero ELSE DivSmall(Mk(1, SubSeq(x.l, 5, Len(x.l))), 100)
F == INSTANCE FeeReserve WITH N0 <- Zero, NAdd <- Add, NSub <- Sub, NMul <- Mul, NDivScale <- BDivScale, NLeq <- Leq,
                              NOfInt <- FromInt, Scale <- BScale, BpUnit <- BBpUnit

Ev == Rec[l]
NoP == [none |-> TRUE]
TInit == l = 1 /\ p = NoP /\ fr = NoP

TNew == /\ Ev.a = "new"
        /\ p' = Ev.p /\ fr' = F!New(Ev.p)
        /\ fr'.balance = Ev.balance /\ F!FullyRepaid(fr') = Ev.repaid
TCall == /\ Ev.a = "call"
         /\ LET r == F!Apply(p, fr, Ev.c) IN
              /\ r.res = Ev.res /\ r.fr.balance = Ev.balance /\ F!FullyRepaid(r.fr) = Ev.repaid
              /\ fr' = r.fr
         /\ p' = p
SameSeq(a, b) == Len(a) = Len(b) /\ \A k \in DOMAIN a : a[k] = b[k]
TFinalize ==
  /\ Ev.a = "finalize"
  /\ LET s == F!Summary(p, fr)  e == Ev.summary IN
       /\ s.execUnits = e.execUnits /\ s.finUnits = e.finUnits /\ s.exec = e.exec /\ s.fin = e.fin /\ s.tip = e.tip
       /\ s.royalty = e.royalty /\ s.storage = e.storage /\ s.badDebt = e.badDebt
       /\ SameSeq(s.royaltyBy, e.royaltyBy) /\ SameSeq(fr.locked, e.locked)
       /\ F!ToProposer(s) = Ev.toProposer /\ F!ToValidatorSet(s) = Ev.toValidatorSet /\ F!ToBurn(s) = Ev.toBurn
  /\ UNCHANGED <<p, fr>>

\* a committed ledger transaction: [ok (success?), p (costing parameters, tip, credit), s (fee summary), paid
\* <<[v, amt]>> (fee_source.paying_vaults), dest [toProposer, toValidatorSet, toBurn, royalties <<[r, amt]>>],
\* vaults <<[v, before, after, deposits, withdrawals, paid]>>, contingentVaults (the same for the vaults with a contingent lock only), royaltyVaults <<[v, before, after, deposits, withdrawals, credited]>>]
SumOf(seq, f(_)) == LET RECURSIVE Go(_)
                        Go(k) == IF k = 0 THEN Zero ELSE LET r == Go(k - 1) IN Add(r, f(seq[k]))
                    IN Go(Len(seq))
Amt(x) == x.amt
FeeOutcomeOk(e) ==
  LET s == e.s
      total == F!TotalCost(s)
      paidSum == SumOf(e.paid, Amt)
      creditUsed == Sub(total, paidSum)
      roySum == SumOf(e.dest.royalties, Amt)
  IN \* the summary is what the formulas give for the reported cost units
     /\ s.exec = F!Times(e.p.priceE, s.execUnits) /\ s.fin = F!Times(e.p.priceF, s.finUnits)
     /\ s.tip = Add(F!DMul(s.exec, F!TipProportion(e.p)), F!DMul(s.fin, F!TipProportion(e.p)))
     \* Paid: vault payments + free credit used = total cost (credit only if there is one)
     /\ Leq(Zero, creditUsed) /\ Leq(creditUsed, e.p.credit)
     \* Split
     /\ e.dest.toProposer = F!ToProposer(s) /\ e.dest.toValidatorSet = F!ToValidatorSet(s) /\ e.dest.toBurn = F!ToBurn(s)
     /\ Add(Add(Add(e.dest.toProposer, e.dest.toValidatorSet), e.dest.toBurn), roySum) = total
     /\ roySum = s.royalty /\ Leq(Zero, e.dest.toBurn)
     /\ (~e.ok => s.royalty = Zero)
     \* Refund: every paying vault ends with before + deposits - withdrawals - paid
     /\ \A k \in DOMAIN e.vaults : LET x == e.vaults[k] IN x.after = Sub(Sub(Add(x.before, x.deposits), x.withdrawals), x.paid)
     /\ \A k \in DOMAIN e.paid : \E j \in DOMAIN e.vaults : e.vaults[j].v = e.paid[k].v /\ e.vaults[j].paid = e.paid[k].amt
     \* royalties reach the right vaults
     \* (the royalty payment itself is one of the vault's Deposit events)
     /\ \A k \in DOMAIN e.royaltyVaults : LET x == e.royaltyVaults[k] IN
           x.after = Sub(Add(x.before, x.deposits), x.withdrawals) /\ Leq(x.credited, x.deposits)
     /\ \A k \in DOMAIN e.dest.royalties : \E j \in DOMAIN e.royaltyVaults :
           e.royaltyVaults[j].v = e.dest.royalties[k].v /\ e.royaltyVaults[j].credited = e.dest.royalties[k].amt
     \* contingent locks pay only on success: a vault from which the fee was locked only contingently pays nothing to a
     \* transaction that fails - it pays zero and ends with before + deposits - withdrawals
     /\ \A k \in DOMAIN e.contingentVaults : LET x == e.contingentVaults[k] IN
           /\ x.after = Sub(Sub(Add(x.before, x.deposits), x.withdrawals), x.paid)
           /\ (~e.ok => (x.paid = Zero /\ \A j \in DOMAIN e.paid : e.paid[j].v = x.v => e.paid[j].amt = Zero))
     \* limits, loan repaid
     /\ s.execUnits <= e.p.limitE /\ s.finUnits <= e.p.limitF /\ s.badDebt = Zero
TOutcome == Ev.a = "outcome" /\ FeeOutcomeOk(Ev) /\ UNCHANGED <<p, fr>>

TNext == l <= Len(Rec) /\ (TNew \/ TCall \/ TFinalize \/ TOutcome) /\ l' = l + 1
TSpec == TInit /\ [][TNext]_<<l, p, fr>>
=============================================================================

SPECIFICATION TSpec
POSTCONDITION TraceAccepted
CHECK_DEADLOCK FALSE

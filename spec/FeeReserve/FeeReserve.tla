------------------------------ MODULE FeeReserve ------------------------------
(* C06.  The fee reserve of a transaction (radix-engine/src/system/system_modules/costing/
   fee_reserve.rs: SystemLoanFeeReserve, fee_summary.rs: FeeReserveFinalizationSummary) and the fee
   distribution of the executor (system_callback.rs: determine_result_type, finalize_fees_for_commit),
   with THE CODE'S formulas.

   Amounts are fixed-point numbers with 18 decimals in the code (Decimal, stored as an integer number
   of attos).  Here an amount is an abstract NUMBER = that integer; the number system is a parameter
   (TLC integers with a small scale for the exhaustive check, spec/common/BigInt for recorded values):
     N0, NAdd, NSub, NMul (plain product of two numbers), NDivScale (x div SCALE, truncating; x >= 0),
     NLeq, NOfInt (TLC integer -> number), Scale (the number 1.0), BpUnit (the number 0.0001)
   Decimal * Decimal in the code is DMul (product truncated to the scale); Decimal * integer is exact.

   `fr` is the reserve: balance, owed, execC / execD (committed / deferred execution cost units), finC /
   finD, royalty (total), royaltyBy (<<[r, amt]>> in first-use order), storageC, storageD (<<[t, size]>>
   deferred storage in first-use order), locked (<<[v, amt, cont]>>), eE / eF (effective unit prices).
   `p` are the costing parameters: priceE, priceF, usd, priceState, priceArchive (numbers), loan, limitE,
   limitF (cost units), tipBp (basis points), credit (number), abortWhenRepaid.                      *)
EXTENDS Integers, Sequences, FiniteSets, TLC
CONSTANTS N0, NAdd(_, _), NSub(_, _), NMul(_, _), NDivScale(_), NLeq(_, _), NOfInt(_), Scale, BpUnit

NLt(a, b) == ~NLeq(b, a)
NMin(a, b) == IF NLeq(a, b) THEN a ELSE b
DMul(a, b) == NDivScale(NMul(a, b))                 \* Decimal::checked_mul
Times(a, n) == NMul(a, NOfInt(n))                   \* Decimal * integer (exact)
NSum(s) == LET RECURSIVE Go(_)
               Go(k) == IF k = 0 THEN N0 ELSE LET r == Go(k - 1) IN NAdd(r, s[k])
           IN Go(Len(s))

\* TipSpecifier::proportion / fee_multiplier
TipProportion(p) == Times(BpUnit, p.tipBp)
TipMultiplier(p) == NAdd(Scale, TipProportion(p))

New(p) ==
  LET eE == DMul(p.priceE, TipMultiplier(p))
      eF == DMul(p.priceF, TipMultiplier(p))
      loanXrd == Times(eE, p.loan)
  IN [balance |-> NAdd(loanXrd, p.credit), owed |-> loanXrd, execC |-> 0, execD |-> 0, finC |-> 0, finD |-> 0,
      royalty |-> N0, royaltyBy |-> <<>>, storageC |-> N0, storageD |-> <<>>, locked |-> <<>>, eE |-> eE, eF |-> eF]

Ok(fr) == [res |-> "ok", fr |-> fr]
Err(e, fr) == [res |-> e, fr |-> fr]
FullyRepaid(fr) == fr.owed = N0

ConsumeExecInternal(p, fr, u) ==
  IF fr.execC + u > p.limitE THEN Err("LimitExceeded", fr)
  ELSE LET amt == Times(fr.eE, u) IN
       IF NLt(fr.balance, amt) THEN Err("InsufficientBalance", fr)
       ELSE Ok([fr EXCEPT !.balance = NSub(@, amt), !.execC = @ + u])
ConsumeFinInternal(p, fr, u) ==
  IF fr.finC + u > p.limitF THEN Err("LimitExceeded", fr)
  ELSE LET amt == Times(fr.eF, u) IN
       IF NLt(fr.balance, amt) THEN Err("InsufficientBalance", fr)
       ELSE Ok([fr EXCEPT !.balance = NSub(@, amt), !.finC = @ + u])
StoragePrice(p, t) == IF t = "State" THEN p.priceState ELSE p.priceArchive
ConsumeStorage(p, fr, t, size) ==
  LET amt == Times(StoragePrice(p, t), size) IN
  IF NLt(fr.balance, amt) THEN Err("InsufficientBalance", fr)
  ELSE Ok([fr EXCEPT !.balance = NSub(@, amt), !.storageC = NAdd(@, amt)])

\* repay_all: deferred execution, deferred finalization, deferred storage (in first-use order), then the
\* loan; every early return leaves what was done before it
RECURSIVE ApplyDeferredStorage(_, _)
ApplyDeferredStorage(p, fr) ==
  IF fr.storageD = <<>> THEN Ok(fr)
  ELSE LET r == ConsumeStorage(p, fr, fr.storageD[1].t, fr.storageD[1].size) IN
       IF r.res # "ok" THEN r
       ELSE ApplyDeferredStorage(p, [r.fr EXCEPT !.storageD = Tail(@)])
RepayAll(p, fr) ==
  LET r1 == ConsumeExecInternal(p, fr, fr.execD) IN
  IF r1.res # "ok" THEN r1 ELSE
  LET r2 == ConsumeFinInternal(p, [r1.fr EXCEPT !.execD = 0], r1.fr.finD) IN
  IF r2.res # "ok" THEN r2 ELSE
  LET r3 == ApplyDeferredStorage(p, [r2.fr EXCEPT !.finD = 0]) IN
  IF r3.res # "ok" THEN r3 ELSE
  LET amt == NMin(r3.fr.balance, r3.fr.owed)
      f4 == [r3.fr EXCEPT !.owed = NSub(@, amt), !.balance = NSub(@, amt)]
  IN IF f4.owed # N0 THEN Err("LoanRepaymentFailed", f4)
     ELSE IF p.abortWhenRepaid THEN Err("Abort", f4)
     ELSE Ok(f4)

AddTo(by, r, amt) ==
  IF \E k \in DOMAIN by : by[k].r = r
  THEN [k \in DOMAIN by |-> IF by[k].r = r THEN [r |-> r, amt |-> NAdd(by[k].amt, amt)] ELSE by[k]]
  ELSE Append(by, [r |-> r, amt |-> amt])
AddStorage(sd, t, size) ==
  IF \E k \in DOMAIN sd : sd[k].t = t
  THEN [k \in DOMAIN sd |-> IF sd[k].t = t THEN [t |-> t, size |-> sd[k].size + size] ELSE sd[k]]
  ELSE Append(sd, [t |-> t, size |-> size])

\* one public call; c = [op, u (cost units / size), t (storage type), kind ("Xrd" | "Usd"), amt (number), r
\* (royalty recipient), v (vault), cont]
Apply(p, fr, c) ==
  CASE c.op = "consumeDeferredExecution" -> Ok([fr EXCEPT !.execD = @ + c.u])
    [] c.op = "consumeDeferredFinalization" -> Ok([fr EXCEPT !.finD = @ + c.u])
    [] c.op = "consumeDeferredStorage" -> Ok([fr EXCEPT !.storageD = AddStorage(@, c.t, c.u)])
    [] c.op = "consumeExecution" ->
         IF c.u = 0 THEN Ok(fr)
         ELSE LET r == ConsumeExecInternal(p, fr, c.u) IN
              IF r.res # "ok" THEN r
              ELSE IF ~FullyRepaid(r.fr) /\ r.fr.execC >= p.loan THEN RepayAll(p, r.fr) ELSE r
    [] c.op = "consumeFinalization" -> IF c.u = 0 THEN Ok(fr) ELSE ConsumeFinInternal(p, fr, c.u)
    [] c.op = "consumeStorage" -> ConsumeStorage(p, fr, c.t, c.u)
    [] c.op = "consumeRoyalty" ->
         LET amt == IF c.kind = "Xrd" THEN c.amt ELSE DMul(c.amt, p.usd) IN
         IF c.amt = N0 THEN Ok(fr)
         ELSE IF NLt(fr.balance, amt) THEN Err("InsufficientBalance", fr)
         ELSE Ok([fr EXCEPT !.balance = NSub(@, amt), !.royaltyBy = AddTo(@, c.r, amt), !.royalty = NAdd(@, amt)])
    [] c.op = "lockFee" ->
         Ok([fr EXCEPT !.balance = IF c.cont THEN @ ELSE NAdd(@, c.amt),
                       !.locked = Append(@, [v |-> c.v, amt |-> c.amt, cont |-> c.cont])])
    [] c.op = "repayAll" -> RepayAll(p, fr)
    [] c.op = "revertRoyalty" ->
         Ok([fr EXCEPT !.balance = NAdd(@, fr.royalty), !.royaltyBy = <<>>, !.royalty = N0])
    [] OTHER -> Err("unknown call", fr)

---------------------------------------------------------------------------
\* finalize(): the summary
Summary(p, fr) ==
  LET exec == Times(p.priceE, fr.execC)
      fin == Times(p.priceF, fr.finC)
      tip == NAdd(DMul(exec, TipProportion(p)), DMul(fin, TipProportion(p)))
  IN [execUnits |-> fr.execC, finUnits |-> fr.finC, exec |-> exec, fin |-> fin, tip |-> tip,
      royalty |-> fr.royalty, storage |-> fr.storageC, badDebt |-> fr.owed, royaltyBy |-> fr.royaltyBy]
TotalCost(s) == NAdd(NAdd(NAdd(NAdd(s.exec, s.fin), s.tip), s.storage), s.royalty)
NetworkFees(s) == NAdd(NAdd(s.exec, s.fin), s.storage)
\* proposer: 100 % of the tip + 25 % of the network fees; validator set: 0 % + 25 %; the rest is burnt
ShareOf(x, percent) == DMul(x, DMul(Times(BpUnit, 100), Times(Scale, percent)))   \* x * (0.01 * percent)
ToProposer(s) == NAdd(ShareOf(s.tip, 100), ShareOf(NetworkFees(s), 25))
ToValidatorSet(s) == NAdd(ShareOf(s.tip, 0), ShareOf(NetworkFees(s), 25))
ToBurn(s) == NSub(NSub(NAdd(s.tip, NetworkFees(s)), ToProposer(s)), ToValidatorSet(s))

\* finalize_fees_for_commit: take the total cost from the locked fees, last lock first, contingent locks
\* only on success, the free credit last
RECURSIVE TakeFrom(_, _, _, _)
TakeFrom(locked, k, required, isSuccess) ==          \* entries k, k-1, .. 1 ; returns [paid (by index), left]
  IF k = 0 THEN [paid |-> [i \in DOMAIN locked |-> N0], left |-> required]
  ELSE LET e == locked[k]
           amt == IF e.cont /\ ~isSuccess THEN N0 ELSE NMin(e.amt, required)
           rest == TakeFrom(locked, k - 1, NSub(required, amt), isSuccess)
       IN [paid |-> [rest.paid EXCEPT ![k] = amt], left |-> rest.left]
Distribute(p, fr, isSuccess) ==
  LET s == Summary(p, fr)
      t == TakeFrom(fr.locked, Len(fr.locked), TotalCost(s), isSuccess)
      creditUsed == IF NLt(N0, p.credit) THEN NMin(p.credit, t.left) ELSE N0
      left == NSub(t.left, creditUsed)
      collected == NSub(TotalCost(s), left)
  IN [summary |-> s, paid |-> t.paid, creditUsed |-> creditUsed, requiredLeft |-> left, collected |-> collected,
      toProposer |-> ToProposer(s), toValidatorSet |-> ToValidatorSet(s), toBurn |-> ToBurn(s),
      \* the executor's sanity assertions
      assertNoBadDebt |-> s.badDebt = N0,
      assertRequiredZero |-> left = N0,
      assertDistribution |-> NLeq(s.royalty, collected)
                               /\ NSub(collected, s.royalty) = NAdd(NAdd(ToProposer(s), ToValidatorSet(s)), ToBurn(s))]

\* determine_result_type: one more repay_all, then the classification; a failed execution reverts royalties
Finish(p, fr, isSuccess) ==
  LET r == RepayAll(p, fr) IN
  IF isSuccess
  THEN IF r.res = "ok" THEN [result |-> "CommitSuccess", fr |-> r.fr, d |-> Distribute(p, r.fr, TRUE)]
       ELSE IF r.res = "Abort" THEN [result |-> "Abort", fr |-> r.fr, d |-> Distribute(p, r.fr, TRUE)]
       ELSE [result |-> "Reject", fr |-> r.fr, d |-> Distribute(p, r.fr, TRUE)]
  ELSE IF FullyRepaid(r.fr)
       THEN LET f2 == Apply(p, r.fr, [op |-> "revertRoyalty"]).fr
            IN [result |-> "CommitFailure", fr |-> f2, d |-> Distribute(p, f2, FALSE)]
       ELSE [result |-> "Reject", fr |-> r.fr, d |-> Distribute(p, r.fr, FALSE)]
Committed(o) == o.result \in {"CommitSuccess", "CommitFailure"}

---------------------------------------------------------------------------
\* Properties of a finished transaction o = Finish(p, fr, isSuccess)
\* what was taken from the vaults plus the credit used is the total cost
Paid(p, o) == Committed(o) => NAdd(NSum(o.d.paid), o.d.creditUsed) = TotalCost(o.d.summary)
\* and it is split exactly
RoyaltySum(s) == NSum([k \in DOMAIN s.royaltyBy |-> s.royaltyBy[k].amt])
Split(p, o) == Committed(o) =>
  /\ NAdd(NAdd(NAdd(o.d.toProposer, o.d.toValidatorSet), o.d.toBurn), RoyaltySum(o.d.summary)) = TotalCost(o.d.summary)
  /\ RoyaltySum(o.d.summary) = o.d.summary.royalty
  /\ NLeq(N0, o.d.toBurn)
\* nothing more than what was locked is taken from a lock; contingent locks only on success
Refund(p, o) == Committed(o) =>
  \A k \in DOMAIN o.fr.locked : NLeq(o.d.paid[k], o.fr.locked[k].amt)
                                 /\ (o.fr.locked[k].cont /\ o.result = "CommitFailure" => o.d.paid[k] = N0)
Limits(p, o) == o.d.summary.execUnits <= p.limitE /\ o.d.summary.finUnits <= p.limitF
OwedMeansReject(p, o) == o.d.summary.badDebt # N0 => o.result = "Reject"
FailureHasNoRoyalty(p, o) == o.result = "CommitFailure" => o.d.summary.royalty = N0
NoAssertionTrip(p, o) == Committed(o) => o.d.assertNoBadDebt /\ o.d.assertRequiredZero /\ o.d.assertDistribution
\* the precondition under which the running balance (charged with the tip-inclusive unit price) covers the
\* finalized total (unit price and tip computed separately): price * (1 + tip) needs no truncation
PriceTipExact(p) ==
  /\ NMul(p.priceE, TipMultiplier(p)) = NMul(DMul(p.priceE, TipMultiplier(p)), Scale)
  /\ NMul(p.priceF, TipMultiplier(p)) = NMul(DMul(p.priceF, TipMultiplier(p)), Scale)
=============================================================================

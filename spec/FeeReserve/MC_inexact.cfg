SPECIFICATION Spec
CONSTANTS
  MaxCalls = 6
  Family = "inexact"
INVARIANTS PaidInv SplitInv RefundInv LimitsInv OwedMeansRejectInv FailureHasNoRoyaltyInv NoAssertionTripInv Running
CHECK_DEADLOCK FALSE

SPECIFICATION Spec
CONSTANTS
  MaxCalls = 6
  Family = "exact"
INVARIANTS PaidInv SplitInv RefundInv LimitsInv OwedMeansRejectInv FailureHasNoRoyaltyInv NoAssertionTripInv Running
CHECK_DEADLOCK FALSE

----------------------------- MODULE MCFeeReserve -----------------------------
(* Exhaustive check of FeeReserve with TLC integers at scale 10^4 (1 basis point = 1 unit): every
   sequence of at most MaxCalls public calls followed by the executor's Finish(success | failure),
   for every parameter set of Params.  A call that returns an error ends the execution (the executor
   then finishes with a failure, or aborts).                                                      *)
EXTENDS Integers, Sequences, FiniteSets, TLC
CONSTANT MaxCalls, Family
IAdd(a, b) == a + b
ISub(a, b) == a - b
IMul(a, b) == a * b
IDivScale(x) == x \div 10000
ILeq(a, b) == a <= b
IOfInt(n) == n
VARIABLES p, fr, n, pre, failed, out
INSTANCE FeeReserve WITH N0 <- 0, NAdd <- IAdd, NSub <- ISub, NMul <- IMul, NDivScale <- IDivScale, NLeq <- ILeq,
                         NOfInt <- IOfInt, Scale <- 10000, BpUnit <- 1

Tips == {0, 100, 5000, 1, 12345}
Mk(pe, pf, loan, tip, credit, abort) ==
  [priceE |-> pe, priceF |-> pf, usd |-> 5000, priceState |-> 7, priceArchive |-> 1, loan |-> loan, limitE |-> 8,
   limitF |-> 4, tipBp |-> tip, credit |-> credit, abortWhenRepaid |-> abort]
\* "exact": price * (1 + tip) needs no truncation for any tip of Tips; "inexact": it does for every tip > 0
Params == IF Family = "exact"
          THEN {Mk(10000, 10000, loan, tip, credit, FALSE) : loan \in {0, 4}, tip \in Tips, credit \in {0, 50}}
               \cup {Mk(10000, 10000, 4, 100, 0, TRUE)}
          ELSE {Mk(3, 2, loan, tip, credit, FALSE) : loan \in {0, 4}, tip \in Tips, credit \in {0, 50}}

C(op, u, t, kind, amt, r, v, cont) == [op |-> op, u |-> u, t |-> t, kind |-> kind, amt |-> amt, r |-> r, v |-> v, cont |-> cont]
PreCalls == {C("consumeDeferredExecution", 2, "", "", 0, 0, 0, FALSE), C("consumeDeferredFinalization", 1, "", "", 0, 0, 0, FALSE),
             C("consumeDeferredStorage", 3, "Archive", "", 0, 0, 0, FALSE)}
Calls == {C("consumeExecution", 1, "", "", 0, 0, 0, FALSE), C("consumeExecution", 4, "", "", 0, 0, 0, FALSE),
          C("consumeFinalization", 1, "", "", 0, 0, 0, FALSE), C("consumeFinalization", 3, "", "", 0, 0, 0, FALSE),
          C("consumeStorage", 2, "State", "", 0, 0, 0, FALSE),
          C("consumeRoyalty", 0, "", "Xrd", 500, 1, 0, FALSE), C("consumeRoyalty", 0, "", "Usd", 3, 2, 0, FALSE),
          C("lockFee", 0, "", "", 1000000, 0, 1, FALSE), C("lockFee", 0, "", "", 300, 0, 2, FALSE),
          C("lockFee", 0, "", "", 500000, 0, 2, TRUE),
          C("repayAll", 0, "", "", 0, 0, 0, FALSE)}
NoOut == [result |-> "none"]

Init == /\ p \in Params /\ fr = New(p) /\ n = 0 /\ pre = TRUE /\ failed = "" /\ out = NoOut
DoCall(c) == /\ out = NoOut /\ failed = "" /\ n < MaxCalls
             /\ LET r == Apply(p, fr, c) IN fr' = r.fr /\ failed' = (IF r.res = "ok" THEN "" ELSE r.res)
             /\ n' = n + 1 /\ p' = p /\ out' = out
DoFinish(isSuccess) ==
  /\ out = NoOut /\ (failed # "" => ~isSuccess)
  /\ out' = (IF failed = "Abort" THEN [result |-> "Abort"] ELSE Finish(p, fr, isSuccess))
  /\ UNCHANGED <<p, fr, n, pre, failed>>
Next == \/ \E c \in PreCalls : pre /\ DoCall(c) /\ pre' = TRUE
        \/ \E c \in Calls : DoCall(c) /\ pre' = FALSE
        \/ \E s \in BOOLEAN : DoFinish(s)
Spec == Init /\ [][Next]_<<p, fr, n, pre, failed, out>>

Done == out.result \notin {"none", "Abort"}
\* (a transaction on which a sanity assertion of the executor fires is not committed: it panics)
Sane == Done /\ NoAssertionTrip(p, out)
PaidInv == Sane => Paid(p, out)
SplitInv == Sane => Split(p, out)
RefundInv == Sane => Refund(p, out)
LimitsInv == Done => Limits(p, out)
OwedMeansRejectInv == Done => OwedMeansReject(p, out)
FailureHasNoRoyaltyInv == Done => FailureHasNoRoyalty(p, out)
\* the executor's assertions hold whenever price * (1 + tip) is exact ...
NoAssertionTripInv == (Done /\ PriceTipExact(p)) => NoAssertionTrip(p, out)
\* ... and this one is EXPECTED TO FAIL for the "inexact" family (lead L3)
NoAssertionTripAlways == Done => NoAssertionTrip(p, out)
\* the running balance never goes negative, the limits hold all the time
Running == 0 <= fr.balance /\ 0 <= fr.owed /\ fr.execC <= p.limitE /\ fr.finC <= p.limitF
=============================================================================

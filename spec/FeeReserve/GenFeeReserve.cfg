SPECIFICATION GSpec
CONSTANTS
  MaxCalls = 0
  Family = "exact"
  K = 10
INVARIANT Emit
CHECK_DEADLOCK FALSE

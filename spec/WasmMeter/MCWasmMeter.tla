---------------------------- MODULE MCWasmMeter ----------------------------
(* S + G generator.  Programs are decoded from "genomes" (sequences of small numbers consumed
   by a recursive-descent decoder that picks productions; node budgets keep programs at <= 8
   AST nodes in the entry function).  TLC enumerates all genomes of length GLen (exhaustive
   mode) or takes seeded genomes from a file, evaluates every program on the argument vector
   and (a) checks the laws of the semantics, (b) prints the case with the expected outcomes.  *)
EXTENDS WasmMeter, Json, IOUtils
CONSTANTS EmitCases,   \* print the cases (G) in addition to checking the laws (S)
          Mode,        \* "exh": all genomes in [1..GLen -> 0..GMax]; "file": genomes from IOEnv.GENOMES; "rec": recursion family
          GLen, GMax
VARIABLE g

Consts == <<0, 1, 2, 3, 4, 8, 7, -1, 65532, 65528, 65536, 100, MaxI, MinI, 46340, 64>>
NC == Len(Consts)
Args == <<0, 1, 2, 5, -1, 65532, MaxI, MinI>>

Pop(q) == IF q = <<>> THEN <<0, <<>>>> ELSE <<Head(q), Tail(q)>>
R(a, q, b) == [a |-> a, g |-> q, b |-> b]          \* ast, rest of genome, remaining node budget

RECURSIVE DE(_, _, _), DS(_, _, _), DSeq(_, _, _, _)
\* expression with at most b >= 1 nodes; cc = "call" allowed
DE(q, b, cc) ==
  LET p == Pop(q)
      k == p[1] % 16
      p2 == Pop(p[2])
      term == IF k % 2 = 0 THEN R(<<"c", Consts[(p2[1] % NC) + 1]>>, p2[2], b - 1)
              ELSE R(<<"l", p2[1] % 2>>, p2[2], b - 1)
      un(op) == LET x == DE(p[2], b - 1, cc) IN R(<<op, x.a>>, x.g, x.b)
      bin(op) == LET x == DE(p[2], b - 2, cc)
                     y == DE(x.g, x.b + 1, cc)
                 IN R(<<op, x.a, y.a>>, y.g, y.b)
  IN IF b <= 1 \/ k <= 3 THEN term
     ELSE IF b = 2 \/ k \in 9..13
          THEN CASE k \in {9, 4, 5} -> un("eqz") [] k \in {10, 6, 7, 8} -> un("load") [] k = 11 -> un("grow")
                 [] k \in {12, 13} -> (IF cc THEN un("call") ELSE un("eqz"))
                 [] OTHER -> un("eqz")
     ELSE IF k \in 4..8
          THEN bin(CASE k = 4 -> "add" [] k = 5 -> "sub" [] k = 6 -> "mul" [] k = 7 -> "divu" [] k = 8 -> "lts")
     ELSE IF b >= 4
          THEN LET c == DE(p[2], b - 3, cc)
                   x == DE(c.g, c.b + 1, cc)
                   y == DE(x.g, x.b + 1, cc)
               IN R(<<"ife", c.a, x.a, y.a>>, y.g, y.b)
     ELSE bin("add")

\* statement with at most b >= 2 nodes
DS(q, b, cc) ==
  LET p == Pop(q)
      k == p[1] % 16
      p2 == Pop(p[2])
  IN CASE k \in {0, 1, 2, 14, 15} \/ b < 3 ->
            LET x == DE(p2[2], b - 1, cc) IN R(<<"set", p2[1] % 2, x.a>>, x.g, x.b)
       [] k \in {3, 4} ->
            LET x == DE(p[2], b - 2, cc)
                y == DE(x.g, x.b + 1, cc)
            IN R(<<"store", x.a, y.a>>, y.g, y.b)
       [] k \in {5, 6} ->
            LET c == DE(p[2], Max(1, b - 3), cc)
                s1 == DSeq(c.g, c.b + 2, cc, 2)
                s2 == DSeq(s1.g, s1.b, cc, 1)
            IN R(<<"if", c.a, s1.a, s2.a>>, s2.g, s2.b)
       [] k \in {7, 8} ->          \* counted loop (local 1 counts up to a small constant) or free condition
            IF p2[1] % 4 # 3
            THEN LET s == DSeq(p2[2], b - 1, cc, 1)
                 IN R(<<"loop", <<<<"set", 1, <<"add", <<"l", 1>>, <<"c", 1>>>>>>>> \o s.a,
                        <<"lts", <<"l", 1>>, <<"c", p2[1] % 5>>>>>>, s.g, Max(0, s.b - 3))
            ELSE LET s == DSeq(p2[2], b - 2, cc, 1)
                     c == DE(s.g, s.b + 1, cc)
                 IN R(<<"loop", s.a, c.a>>, c.g, c.b)
       [] k \in {9, 10} ->
            LET s1 == DSeq(p2[2], b - 2, cc, 1)
                c == DE(s1.g, s1.b + 1, cc)
                s2 == DSeq(c.g, c.b, cc, 1)
            IN IF p2[1] % 3 = 0 THEN R(<<"block", s1.a, "br", <<"c", 0>>, s2.a>>, s2.g, s2.b)
               ELSE R(<<"block", s1.a, "brif", c.a, s2.a>>, s2.g, s2.b)
       [] k = 11 -> LET x == DE(p[2], b - 1, cc) IN R(<<"ret", x.a>>, x.g, x.b)
       [] k = 12 -> R(<<"unr">>, p[2], b - 1)
       [] k = 13 -> LET x == DE(p[2], b - 1, cc) IN R(<<"drop", x.a>>, x.g, x.b)
\* up to n statements while the budget lasts (a statement needs >= 2 nodes)
DSeq(q, b, cc, n) ==
  IF n = 0 \/ b < 2 THEN R(<<>>, q, b)
  ELSE LET p == Pop(q) IN
       IF p[1] % 4 = 0 THEN R(<<>>, p[2], b)
       ELSE LET s == DS(p[2], b, cc)
                r == DSeq(s.g, s.b, cc, n - 1)
            IN R(<<s.a>> \o r.a, r.g, r.b)
DFn(q, b, cc) ==
  LET s == DSeq(q, b - 1, cc, 3)
      e == DE(s.g, Max(1, s.b + 1), cc)
  IN R(<<"fn", s.a, e.a>>, e.g, 0)
Decode(q) ==
  LET f1 == DFn(q, 8, TRUE)
      f2 == DFn(f1.g, 5, TRUE)
      f3 == DFn(f2.g, 3, FALSE)
  IN <<f1.a, f2.a, f3.a>>

CONSTANT RecPads        \* paddings of the recursion family
Genomes == IF Mode = "file" THEN LET q == ndJsonDeserialize(IOEnv.GENOMES) IN {q[i] : i \in DOMAIN q}
           ELSE IF Mode = "rec"
           THEN UNION {LET c == FrameCost(RecFn(pad))
                       IN {<<pad, n>> : n \in {0, 1} \cup {m \in 20..260 : WrapperCost + (m + 1) * c \in (StackLimit - 12)..(StackLimit + 12)}}
                       : pad \in RecPads}
           ELSE {}
\* the recursion family contains the exact tie of the limit comparison (accounted height = limit: no trap)
ASSUME Mode = "rec" => \E q \in Genomes : Frames(q[1], q[2]) = StackLimit
\* exhaustive mode: the genomes are the leaves of the tree of prefixes (explored in parallel)
Init == IF Mode = "exh" THEN g = <<>> ELSE g \in Genomes
Next == Mode = "exh" /\ Len(g) < GLen /\ \E x \in 0..GMax : g' = Append(g, x)
Spec == Init /\ [][Next]_g
Full == Mode # "exh" \/ Len(g) = GLen

Prog == IF Mode = "rec" THEN <<RecFn(g[1])>> ELSE Decode(g)
ArgSeq == IF Mode = "rec" THEN <<g[2]>> ELSE Args
Pub(r) == IF r.o = "ok" THEN [o |-> "ok", v |-> r.v, pages |-> r.pages, words |-> r.words]
          ELSE [o |-> "trap", k |-> ObsKind(r.k)]

\* laws of the model (S) on the runs rs = [i |-> [ri |-> instrumented, ro |-> original]]
Laws(rs) ==
  \A i \in DOMAIN ArgSeq :
    LET a == ArgSeq[i]
        ri == rs[i].ri
        ro == rs[i].ro
    IN \* the stack limiter is invisible for programs of call depth <= 3 ...
       /\ Mode # "rec" => ~(ri.o = "trap" /\ ri.k = "StackLimit")
       \* ... in the recursion family the original returns n, the instrumented traps exactly above the limit
       /\ Mode = "rec" => /\ ro.o = "ok" /\ ro.v = a
                          /\ (Frames(g[1], a) > StackLimit) <=> (ri.o = "trap")
                          /\ ri.o = "trap" => ri.k = "StackLimit"
                          /\ ri.o # "trap" => Pub(ri) = Pub(ro)
       \* the path determines the kind of outcome and the number of evaluation steps
       /\ \A j \in DOMAIN ArgSeq :
            (ri.o # "x" /\ rs[j].ri.o # "x" /\ ri.path = rs[j].ri.path) => (ri.o = rs[j].ri.o /\ ri.steps = rs[j].ri.steps)
Case(rs) == [g |-> g, P |-> Prog,
             runs |-> [i \in DOMAIN ArgSeq |->
                         IF rs[i].ri.o = "x" THEN [arg |-> ArgSeq[i], x |-> TRUE]
                         ELSE [arg |-> ArgSeq[i], x |-> FALSE, exp |-> Pub(rs[i].ri), expOrig |-> Pub(rs[i].ro),
                               path |-> rs[i].ri.path, steps |-> rs[i].ri.steps]]]
\* one evaluation of the runs serves the laws (S) and the emitted case (G)
\* (built as an explicit sequence: a TLC function constructor would re-evaluate the runs at every access)
RECURSIVE RunAll(_, _)
RunAll(P, i) ==
  IF i > Len(ArgSeq) THEN <<>>
  ELSE LET ri == Run(P, ArgSeq[i], TRUE)
           ro == IF Mode = "rec" THEN Run(P, ArgSeq[i], FALSE) ELSE ri
       IN <<[ri |-> ri, ro |-> ro]>> \o RunAll(P, i + 1)
Check ==
  Full => LET P == Prog
              rs == RunAll(P, 1)
          IN Laws(rs) /\ (EmitCases => PrintT(<<"B", ToJson(Case(rs))>>))
=============================================================================

SPECIFICATION Spec
CONSTANTS
  EmitCases = TRUE
  Mode = "exh"
  GLen = 2
  GMax = 15
  RecPads = {4, 8}
INVARIANT Check
CHECK_DEADLOCK FALSE

------------------------------ MODULE WasmMeter ------------------------------
(* C46.  A miniature structured language that compiles 1:1 to WebAssembly text, with a
   reference semantics.  The repository's instrumentation (instruction metering by
   radix-wasm-instrument gas_metering::inject + stack limiter inject_stack_limiter, driven by
   ScryptoV1WasmValidator) must preserve the meaning of every program:

     Result(instrumented, enough budget) = Result(original) = Eval(program)   (values, traps, memory)
     cost charged = a function of the executed path only
     budget below the cost  =>  the only new outcome is "out of budget"
     the only other new outcome is the stack-limit trap, exactly when the accounted stack
     height (sum of the frame costs of the active calls) exceeds the limit.

   Values are i32, represented by TLC integers (Java ints = two's complement i32).  Wrapping
   add/sub are exact; mul/div_u are defined where no 64-bit reasoning is needed and yield the
   outcome "x" (not modelled: such runs are dropped) elsewhere; unaligned accesses are "x".

   Abstract syntax (JSON arrays on the wire):
     e ::= <<"c", n>> | <<"l", i>> | <<op, e, e>> (op in add sub mul divu lts) | <<"eqz", e>>
         | <<"load", e>> | <<"grow", e>> | <<"call", e>> | <<"ife", e, e, e>>
     s ::= <<"set", i, e>> | <<"store", e, e>> | <<"if", e, S, S>> | <<"loop", S, e>>
         | <<"block", S, kind, e, S>> (kind in brif br) | <<"ret", e>> | <<"unr">> | <<"drop", e>>
     function ::= <<"fn", S, e>>  with one parameter (local 0) and one declared local (local 1);
     program = sequence of functions; "call" in function k calls function k+1.
   Compilation (harness, mechanical):
     <<"loop", S, e>>          = (loop $l S (br_if $l e))
     <<"block", S1, k, e, S2>> = (block $b S1 (br_if $b e) S2)   or   (block $b S1 (br $b) S2)
     <<"ife", c, a, b>>        = (if (result i32) c (then a) (else b))                        *)
EXTENDS Integers, Sequences, FiniteSets, TLC

MaxI == 2147483647
MinI == -2147483647 - 1
PageSize == 65536
MaxPages == 64          \* the test modules declare (memory 1 64)
StackLimit == 1024      \* WasmValidatorConfigV1::max_stack_size
Fuel == 40              \* loop iterations per run before the run is dropped

\* ---- i32 arithmetic on TLC integers (never overflows the Java int) --------------------
AddW(a, b) ==
  IF b >= 0
  THEN IF a <= MaxI - b THEN a + b ELSE (a - MaxI - 1) + (b - MaxI - 1)      \* a+b-2^32
  ELSE IF a >= MinI - b THEN a + b ELSE (a + MaxI + 1) + (b + MaxI + 1)      \* a+b+2^32
NegOK(b) == b # MinI
SubW(a, b) == IF NegOK(b) THEN AddW(a, 0 - b) ELSE AddW(AddW(a, MaxI), 1)    \* a - (-2^31) = a + 2^31
Small(a) == a >= -46340 /\ a <= 46340
MulOK(a, b) == Small(a) /\ Small(b)
\* unsigned division; "x" where it would need 64-bit reasoning
DivU(a, b) ==
  IF b = 0 THEN [t |-> "trap", k |-> "DivZero"]
  ELSE IF a >= 0 /\ b > 0 THEN [t |-> "v", v |-> a \div b]
  ELSE IF b < 0 THEN [t |-> "v", v |-> IF a < 0 /\ a >= b THEN 1 ELSE 0]
  ELSE IF b = 1 THEN [t |-> "v", v |-> a]
  ELSE [t |-> "x"]

\* ---- machine state -------------------------------------------------------------------
\* st = [loc, mem (function: touched word address -> value), pages, path, steps, fuel, height, limiter, fc (frame costs)]
MemGet(m, a) == IF a \in DOMAIN m THEN m[a] ELSE 0
MemSet(m, a, v) == (a :> v) @@ m          \* explicit function (a TLC function constructor would be lazy)
InMem(st, a) == a >= 0 /\ a <= st.pages * PageSize - 4
Tick(st) == [st EXCEPT !.steps = @ + 1]
Mark(st, d) == [st EXCEPT !.path = Append(@, d)]
V(v, st) == [t |-> "v", v |-> v, st |-> st]
Trap(k, st) == [t |-> "trap", k |-> k, st |-> Mark(st, <<"trap", st.steps>>)]
X == [t |-> "x"]
IsV(r) == r.t = "v"

\* ---- stack accounting of the stack limiter --------------------------------------------
(* Frame cost of a function = declared locals + "maximal stack height" as computed by
   radix-wasm-instrument stack_limiter/max_height.rs: a linear pass over the opcodes with a
   value-stack height (starting at the activation cost 2) and a control stack of frames
   <<start height, polymorphic?>>.  Modelled as the code does it, including its quirks: the
   height is observed before every opcode unless the top frame is polymorphic (after
   br / return / unreachable); `else` does not reset the height to the frame start (the value
   left by the then-branch stays counted); frames opened inside dead code count again.       *)
Max(a, b) == IF a >= b THEN a ELSE b
\* (every operator binds its state argument in a LET: TLC passes arguments by name, and an
\*  argument that is a recursive call would be re-evaluated at every mention)
Top(a) == a.fr[Len(a.fr)]
Obs(a0) == LET a == a0 IN IF a.h > a.m /\ ~Top(a).p THEN [a EXCEPT !.m = a.h] ELSE a
PopV(a0, n) == LET a == a0 IN IF n = 0 \/ a.h = Top(a).s THEN a ELSE [a EXCEPT !.h = @ - n]
Op(a0, pops, pushes) == LET b == PopV(Obs(a0), pops) IN [b EXCEPT !.h = @ + pushes]
Open(a0, isIf) == LET b == IF isIf THEN PopV(Obs(a0), 1) ELSE Obs(a0)
                  IN [b EXCEPT !.fr = Append(@, [s |-> b.h, p |-> FALSE])]
Close(a0, arity) == LET b == Obs(a0) IN [h |-> Top(b).s + arity, m |-> b.m, fr |-> SubSeq(b.fr, 1, Len(b.fr) - 1)]
Dead(a0) == LET a == a0 IN [a EXCEPT !.fr[Len(a.fr)].p = TRUE]
RECURSIVE AE(_, _), AS(_, _), ASeq(_, _)
AE(e, a) == CASE e[1] \in {"c", "l"} -> Op(a, 0, 1)
              [] e[1] \in {"add", "sub", "mul", "divu", "lts"} ->
                   (LET x == AE(e[2], a) IN LET y == AE(e[3], x) IN Op(y, 2, 1))
              [] e[1] \in {"eqz", "load", "grow", "call", "self"} -> (LET x == AE(e[2], a) IN Op(x, 1, 1))
              [] e[1] = "ife" ->
                   (LET c == AE(e[2], a) IN
                    LET o == Open(c, TRUE) IN
                    LET x == AE(e[3], o) IN
                    LET el == Obs(x) IN
                    LET y == AE(e[4], el) IN Close(y, 1))
AS(s, a) == CASE s[1] = "set" -> (LET x == AE(s[3], a) IN Op(x, 1, 0))
              [] s[1] = "drop" -> (LET x == AE(s[2], a) IN Op(x, 1, 0))
              [] s[1] = "store" -> (LET x == AE(s[2], a) IN LET y == AE(s[3], x) IN Op(y, 2, 0))
              [] s[1] = "if" ->
                   (LET c == AE(s[2], a) IN
                    LET o == Open(c, TRUE) IN
                    LET x == ASeq(s[3], o) IN
                    LET el == Obs(x) IN
                    LET y == ASeq(s[4], el) IN Close(y, 0))
              [] s[1] = "loop" ->
                   (LET o == Open(a, FALSE) IN
                    LET x == ASeq(s[2], o) IN
                    LET c == AE(s[3], x) IN
                    LET b == Op(c, 1, 0) IN Close(b, 0))
              [] s[1] = "block" ->
                   (LET o == Open(a, FALSE) IN
                    LET b == ASeq(s[2], o) IN
                    LET c == IF s[3] = "br" THEN Dead(Obs(b)) ELSE (LET cc == AE(s[4], b) IN Op(cc, 1, 0)) IN
                    LET y == ASeq(s[5], c) IN Close(y, 0))
              [] s[1] = "ret" -> (LET x == AE(s[2], a) IN LET y == Op(x, 1, 0) IN Dead(y))
              [] s[1] = "unr" -> (LET x == Obs(a) IN Dead(x))
ASeq(S, a) == IF S = <<>> THEN a ELSE LET x == AS(Head(S), a) IN ASeq(Tail(S), x)
ActivationCost == 2
MaxHeight(fn) == LET a0 == [h |-> ActivationCost, m |-> 0, fr |-> <<[s |-> 0, p |-> FALSE]>>] IN
                 LET b == ASeq(fn[2], a0) IN
                 LET r == AE(fn[3], b) IN Obs(r).m
DeclaredLocals == 1
FrameCost(fn) == DeclaredLocals + MaxHeight(fn)
\* the exported wrapper  (i32.store (i32.const A) (call $f1 (i32.wrap_i64 (local.get 0)))) ... : no locals
WrapperCost == 0 + ActivationCost + 2

\* ---- semantics -----------------------------------------------------------------------
RECURSIVE EvE(_, _, _, _), EvS(_, _, _, _), EvSeq(_, _, _, _), CallFn(_, _, _, _)

\* P program, k index of the current function, e expression, st state
EvE(P, k, e, st0) ==
  LET st == Tick(st0) IN
  CASE e[1] = "c" -> V(e[2], st)
    [] e[1] = "l" -> V(st.loc[e[2] + 1], st)
    [] e[1] \in {"add", "sub", "mul", "divu", "lts"} ->
        (LET a == EvE(P, k, e[2], st) IN
         IF ~IsV(a) THEN a ELSE
         LET b == EvE(P, k, e[3], a.st) IN
         IF ~IsV(b) THEN b ELSE
         (CASE e[1] = "add" -> V(AddW(a.v, b.v), b.st)
           [] e[1] = "sub" -> V(SubW(a.v, b.v), b.st)
           [] e[1] = "mul" -> IF MulOK(a.v, b.v) THEN V(a.v * b.v, b.st) ELSE X
           [] e[1] = "lts" -> V(IF a.v < b.v THEN 1 ELSE 0, b.st)
           [] e[1] = "divu" -> (LET d == DivU(a.v, b.v)
                               IN IF d.t = "v" THEN V(d.v, b.st) ELSE IF d.t = "trap" THEN Trap(d.k, b.st) ELSE X)))
    [] e[1] = "eqz" ->
        (LET a == EvE(P, k, e[2], st) IN IF ~IsV(a) THEN a ELSE V(IF a.v = 0 THEN 1 ELSE 0, a.st))
    [] e[1] = "load" ->
        (LET a == EvE(P, k, e[2], st) IN
         IF ~IsV(a) THEN a
         ELSE IF ~InMem(a.st, a.v) THEN Trap("MemOOB", a.st)
         ELSE IF a.v % 4 # 0 THEN X
         ELSE V(MemGet(a.st.mem, a.v), a.st))
    [] e[1] = "grow" ->
        (LET a == EvE(P, k, e[2], st) IN
         IF ~IsV(a) THEN a
         ELSE IF a.v < 0 \/ a.v > MaxPages - a.st.pages THEN V(-1, a.st)
         ELSE V(a.st.pages, [a.st EXCEPT !.pages = @ + a.v]))
    [] e[1] = "call" ->
        (LET a == EvE(P, k, e[2], st) IN
         IF ~IsV(a) THEN a
         ELSE IF k + 1 > Len(P) THEN X
         ELSE CallFn(P, k + 1, a.v, a.st))
    [] e[1] = "self" ->                  \* recursion (only in the recursion family)
        (LET a == EvE(P, k, e[2], st) IN IF ~IsV(a) THEN a ELSE CallFn(P, k, a.v, a.st))
    [] e[1] = "ife" ->
        (LET c == EvE(P, k, e[2], st) IN
         IF ~IsV(c) THEN c
         ELSE IF c.v # 0 THEN EvE(P, k, e[3], Mark(c.st, <<"T", 0>>)) ELSE EvE(P, k, e[4], Mark(c.st, <<"F", 0>>)))

\* a call: stack-limiter accounting, fresh locals, `ret` unwinds to here
CallFn(P, k, arg, st) ==
  LET h == st.height + st.fc[k] IN
  IF st.limiter /\ h > StackLimit THEN Trap("StackLimit", st)
  ELSE
  LET st1 == [st EXCEPT !.loc = <<arg, 0>>, !.height = h]
      b == EvSeq(P, k, P[k][2], Mark(st1, <<"call", k>>))
      back(s) == [s EXCEPT !.loc = st.loc, !.height = st.height]
  IN CASE b.t = "ret" -> V(b.v, back(b.st))
       [] b.t = "next" -> (LET r == EvE(P, k, P[k][3], b.st) IN IF IsV(r) THEN V(r.v, back(r.st)) ELSE r)
       [] OTHER -> b

\* statements yield "next" (fall through), "ret", "trap", "x"
Nx(st) == [t |-> "next", st |-> st]
EvS(P, k, s, st0) ==
  LET st == Tick(st0) IN
  CASE s[1] = "set" ->
        (LET a == EvE(P, k, s[3], st) IN
         IF ~IsV(a) THEN a ELSE Nx([a.st EXCEPT !.loc[s[2] + 1] = a.v]))
    [] s[1] = "drop" -> (LET a == EvE(P, k, s[2], st) IN IF ~IsV(a) THEN a ELSE Nx(a.st))
    [] s[1] = "store" ->
        (LET a == EvE(P, k, s[2], st) IN
         IF ~IsV(a) THEN a ELSE
         LET b == EvE(P, k, s[3], a.st) IN
         IF ~IsV(b) THEN b
         ELSE IF ~InMem(b.st, a.v) THEN Trap("MemOOB", b.st)
         ELSE IF a.v % 4 # 0 THEN X
         ELSE Nx([b.st EXCEPT !.mem = MemSet(@, a.v, b.v)]))
    [] s[1] = "if" ->
        (LET c == EvE(P, k, s[2], st) IN
         IF ~IsV(c) THEN c
         ELSE IF c.v # 0 THEN EvSeq(P, k, s[3], Mark(c.st, <<"T", 0>>)) ELSE EvSeq(P, k, s[4], Mark(c.st, <<"F", 0>>)))
    [] s[1] = "loop" ->                      \* (loop $l S (br_if $l c))
        (IF st.fuel = 0 THEN X ELSE
         LET b == EvSeq(P, k, s[2], [st EXCEPT !.fuel = @ - 1]) IN
         IF b.t # "next" THEN b ELSE
         LET c == EvE(P, k, s[3], b.st) IN
         IF ~IsV(c) THEN c
         ELSE IF c.v # 0 THEN EvS(P, k, s, Mark(c.st, <<"again", 0>>)) ELSE Nx(Mark(c.st, <<"exit", 0>>)))
    [] s[1] = "block" ->                     \* (block $b S1 (br $b | br_if $b c) S2)
        (LET b == EvSeq(P, k, s[2], st) IN
         IF b.t # "next" THEN b
         ELSE IF s[3] = "br" THEN Nx(Mark(b.st, <<"br", 0>>))
         ELSE LET c == EvE(P, k, s[4], b.st) IN
              IF ~IsV(c) THEN c
              ELSE IF c.v # 0 THEN Nx(Mark(c.st, <<"T", 0>>))
              ELSE EvSeq(P, k, s[5], Mark(c.st, <<"F", 0>>)))
    [] s[1] = "ret" -> (LET a == EvE(P, k, s[2], st) IN IF ~IsV(a) THEN a ELSE [t |-> "ret", v |-> a.v, st |-> a.st])
    [] s[1] = "unr" -> Trap("Unreachable", st)

EvSeq(P, k, S, st) ==
  IF S = <<>> THEN Nx(st)
  ELSE LET r == EvS(P, k, Head(S), st) IN IF r.t = "next" THEN EvSeq(P, k, Tail(S), r.st) ELSE r

\* frame costs as an explicit sequence (evaluated once per run)
RECURSIVE FrameCosts(_, _)
FrameCosts(P, k) == IF k > Len(P) THEN <<>> ELSE <<FrameCost(P[k])>> \o FrameCosts(P, k + 1)

\* ---- a run of the exported wrapper ---------------------------------------------------
ObsRes == 65520         \* the wrapper stores the result here ...
ObsPages == 65524       \* ... and memory.size here, then returns the slice (0, 65536)
Init0(P, lim) == [loc |-> <<0, 0>>, mem |-> << >>, pages |-> 1, path |-> <<>>, steps |-> 0, fuel |-> Fuel,
                 height |-> WrapperCost, limiter |-> lim, fc |-> FrameCosts(P, 1)]
\* outcome: [o |-> "ok", mem |-> word observations] | [o |-> "trap", k |-> kind] | [o |-> "x"]
\* lim = TRUE: the instrumented module (stack limiter); FALSE: the original module
Run(P, arg, lim) ==
  LET r == CallFn(P, 1, arg, Init0(P, lim)) IN
  IF r.t = "v"
  THEN LET m == MemSet(MemSet(r.st.mem, ObsRes, r.v), ObsPages, r.st.pages)
           addrs == {a \in DOMAIN m : a < PageSize}
       IN [o |-> "ok", v |-> r.v, pages |-> r.st.pages, words |-> {<<a, m[a]>> : a \in addrs},
           path |-> r.st.path, steps |-> r.st.steps]
  ELSE IF r.t = "trap" THEN [o |-> "trap", k |-> r.k, path |-> r.st.path, steps |-> r.st.steps]
  ELSE [o |-> "x"]


\* ---- the recursion family --------------------------------------------------------------
\* rec(n) = if n = 0 then 0 else 1 + (... + rec(n-1)), `pad` more pending operands around the call
RECURSIVE PadE(_, _)
PadE(pad, e) == IF pad = 0 THEN e ELSE <<"add", <<"c", 0>>, PadE(pad - 1, e)>>
RecFn(pad) == <<"fn", <<>>,
                <<"ife", <<"eqz", <<"l", 0>>>>, <<"c", 0>>,
                  <<"add", <<"c", 1>>, PadE(pad, <<"self", <<"sub", <<"l", 0>>, <<"c", 1>>>>>>)>>>>>>
\* smallest n at which the stack limiter must trap
Frames(pad, n) == WrapperCost + (n + 1) * FrameCost(RecFn(pad))

\* ---- what is compared ------------------------------------------------------------------
\* the stack-limit trap is an `unreachable` of the instrumented code
ObsKind(k) == IF k = "StackLimit" THEN "Unreachable" ELSE k
\* observed outcome record (harness): [o, v, pages, words] | [o |-> "trap", k]
SameOutcome(obs, exp) ==
  /\ obs.o = exp.o
  /\ exp.o = "ok" => obs.v = exp.v /\ obs.pages = exp.pages /\ obs.words = exp.words
  /\ exp.o = "trap" => obs.k = ObsKind(exp.k)
=============================================================================

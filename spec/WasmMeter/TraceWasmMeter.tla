---------------------------- MODULE TraceWasmMeter ----------------------------
(* T: one event per program: the runs of the original module (plain wasmi) and of the
   instrumented module (ScryptoV1WasmValidator output in WasmiModule, recording runtime) for
   several arguments and budgets.  Decided here, with the reference semantics re-evaluated on
   the recorded program:
     * original = instrumented (enough budget) = Eval          (values, memory words, traps;
       the only instrumented-only trap is the stack limit, exactly when Eval says so)
     * budget = cost changes nothing; budget < cost gives "out of budget" and nothing else
     * two runs of the program with the same path were charged the same cost; cost > 0        *)
EXTENDS WasmMeter, TraceIO
VARIABLE l
ObsOf(r) == IF r.o = "ok" THEN [o |-> "ok", v |-> r.v, pages |-> r.pages, words |-> r.words]
            ELSE IF r.o = "trap" THEN [o |-> "trap", k |-> ObsKind(r.k)] ELSE [o |-> "x"]
\* recorded outcome record (words as a sequence of <<addr, value>>) against a model outcome
Same(obs, m) ==
  /\ obs.o = m.o
  /\ m.o = "ok" => obs.v = m.v /\ obs.pages = m.pages /\ ToSet(obs.words) = m.words
  /\ m.o = "trap" => obs.k = m.k
OOB == [o |-> "OutOfBudget"]
RunOk(P, r, rec) ==
  LET mi == ObsOf(Run(P, r.arg, TRUE))
      mo == IF rec THEN ObsOf(Run(P, r.arg, FALSE)) ELSE mi
  IN /\ mi.o # "x"
     /\ Same(r.orig, mo)                                  \* the original module follows the semantics
     /\ Same(r.instr, mi)                                 \* ... and so does the instrumented one
     /\ r.cost > 0 /\ r.gasCalls >= 1                      \* something was charged
     /\ r.atCost = r.instr /\ r.atCostCost = r.cost        \* budget = cost: no change
     /\ r.below = OOB /\ r.belowCost < r.cost              \* budget = cost-1: out of budget only
     /\ (r.cost > 1 => r.half = OOB /\ r.halfCost <= r.cost \div 2)
Ok(ev) ==
  /\ ev.a = "prog"
  /\ \A i \in DOMAIN ev.runs : RunOk(ev.P, ev.runs[i], ev.rec)
  /\ \A i, j \in DOMAIN ev.runs : ev.runs[i].path = ev.runs[j].path => ev.runs[i].cost = ev.runs[j].cost
TInit == l = 1
TNext == l <= Len(Rec) /\ (IF Ok(Rec[l]) THEN TRUE ELSE PrintT(<<"BAD", l>>)) /\ l' = l + 1
TSpec == TInit /\ [][TNext]_l
Post == PrintT(<<"DONE", TLCGet("stats").diameter - 1>>)
=============================================================================

------------------------------ MODULE GenAuth ------------------------------
(* C08: the bounded universe of authorization cases.  Every case is one state; TLC checks the laws of
   Auth.tla on it (S) and prints it with the verdict the specification expects (G).

   Families (the matcher - which zones / badges a callee sees - and the evaluator - how a rule tree is
   decided from leaf verdicts - are separate code paths, so each is enumerated on its own and family C
   mixes them at random):
     A1  every call-chain shape x target kind x placement of <= 2 (3: thinned) proofs over the frames x every
         single-requirement rule about proofs (require resource / id, amount-of 0..3)
     A2  ... x signer sets x simulate-all (preview) x every signature-badge requirement
     A3  ... x every global-caller / package-of-direct-caller requirement
     A4  ... x placement of <= 1 proof x the ill-typed requirement "non-fungible id of a fungible resource"
     B1  every basic requirement over 3 independent leaves (lists of length <= 3, count-of 0..4) x all 8 truth
         assignments x 3 target kinds
     B2  every composite tree of depth <= 3 with <= 3 requirement leaves (children lists <= 3, empty lists
         included; leaves labelled in order of first appearance) x all 8 truth assignments
     C   seeded random shapes x placements x signers x random rule trees over the whole leaf alphabet
     D   role resolution: owner rule x assignment of r1 / r2 x every method of the test blueprint (role lists,
         _owner_, _self_, public, own-package) x caller shapes (incl. the component calling itself, its owned
         child, an object it created, another component) x truth assignments
     E   rules around the depth / node limits x every site that stores a rule                       *)
EXTENDS Auth, Json, SequencesExt
CONSTANTS ThinA10,    \* keep 1 of ThinA10 cases of family A1 with 1 proof (1 = all)
          ThinA1,     \* same for 2 proofs
          ThinA13,    \* same for 3 proofs (0 = none)
          ThinB1, ThinB2, ThinD,
          NRand,      \* number of random cases
          Seed
VARIABLES stage, key, c

Fr(kind, comp) == [kind |-> kind, comp |-> comp, proofs |-> <<>>]
Tx == Fr("tx", "-")
Shapes == << <<Tx>>,
             <<Tx, Fr("gm", "C1")>>,
             <<Tx, Fr("fn", "-")>>,
             <<Tx, Fr("gm", "C1"), Fr("gm", "C2")>>,
             <<Tx, Fr("gm", "C1"), Fr("om", "C1")>>,
             <<Tx, Fr("gm", "C1"), Fr("fm", "-")>>,
             <<Tx, Fr("gm", "C1"), Fr("fn", "-")>>,
             <<Tx, Fr("fn", "-"), Fr("gm", "C1")>>,
             <<Tx, Fr("fn", "-"), Fr("fm", "-")>>,
             <<Tx, Fr("fn", "-"), Fr("fn", "-")>> >>
TargetKinds(shape) == IF Len(shape) = 1 THEN <<"method", "function">> ELSE <<"method", "function", "assert">>

PT == <<Proof("F", 1, {}), Proof("F", 2, {}), Proof("N", 1, {"1"}), Proof("N", 1, {"2"}), Proof("N", 2, {"1", "2"})>>
ProofUniverse == {PT[i] : i \in DOMAIN PT}
Keys == {"k1", "k2"}
NPT == Len(PT)
\* placement codes: code c puts proof type ((c-1) % NPT)+1 into frame ((c-1) \div NPT)+1
RECURSIVE MS(_, _, _)
MS(k, lo, hi) == IF k = 0 THEN {<<>>} ELSE UNION {{<<t>> \o r : r \in MS(k - 1, t, hi)} : t \in lo..hi}
Place(shape, codes) ==
  [i \in DOMAIN shape |->
     LET sel == SelectSeq(codes, LAMBDA x : ((x - 1) \div NPT) + 1 = i)
     IN [shape[i] EXCEPT !.proofs = [j \in DOMAIN sel |-> PT[((sel[j] - 1) % NPT) + 1]]]]
RECURSIVE SumCodes(_, _)
SumCodes(s, i) == IF i > Len(s) THEN 0 ELSE s[i] * (2 * i + 5) + SumCodes(s, i + 1)
Keep(h, thin) == thin = 1 \/ (thin > 1 /\ (h % thin) = (Seed % thin))

NoRule == [some |-> FALSE, rule |-> DenyAll]
Some(r) == [some |-> TRUE, rule |-> r]
Cfg0 == [owner |-> DenyAll, r1 |-> NoRule, r2 |-> NoRule]
Cfg(owner, r1, r2) == [owner |-> owner, r1 |-> r1, r2 |-> r2]

\* raw case (without the expected values)
Raw(fam, frames, signers, sim, tkind, comp, method, rule, cfg, site) ==
  [fam |-> fam, frames |-> frames, signers |-> signers, sim |-> sim,
   target |-> [kind |-> tkind, comp |-> comp, method |-> method, rule |-> rule],
   cfg |-> cfg, site |-> site,
   exp |-> [create |-> "-", outcome |-> "-", alt |-> "-"]]
\* every rule a case stores on the ledger
StoredRules(x) == IF x.target.kind = "assert" THEN {}
                  ELSE IF x.target.kind = "function" THEN {x.target.rule}
                  ELSE {x.cfg.owner} \cup (IF x.cfg.r1.some THEN {x.cfg.r1.rule} ELSE {}) \cup (IF x.cfg.r2.some THEN {x.cfg.r2.rule} ELSE {})
CreateVerdict(x) ==
  LET bad == {RuleCheck(r) : r \in StoredRules(x)} \ {"ok"}
  IN IF bad = {} THEN "ok" ELSE CHOOSE e \in bad : TRUE
\* A requirement naming a non-fungible id of the FUNGIBLE resource can never be met.  The engine asks a visible
\* fungible proof of that resource for its ids and fails with a type-check error instead of Unauthorized: the
\* call is denied either way, so both classes are allowed for family A4 (and only there).
WithExp(x) ==
  LET cv == CreateVerdict(x)
      out == IF cv = "ok" THEN ExpectedOutcome(x) ELSE "-"
  IN [x EXCEPT !.exp = [create |-> cv, outcome |-> out,
                        alt |-> IF x.fam = "A4" /\ out \notin {"ok", "-"} THEN "type_error" ELSE "-"]]
\* the rule under test protects: method m_r1 of component T through role r1 / a function / an assertion
Mk(fam, frames, signers, sim, tkind, rule) ==
  WithExp(IF tkind = "method"
          THEN Raw(fam, frames, signers, sim, tkind, "T", "m_r1", rule, Cfg(DenyAll, Some(rule), NoRule), "-")
          ELSE Raw(fam, frames, signers, sim, tkind, "-", "-", rule, Cfg0, "-"))
Atom(b) == Protected(B(b))

---------------------------------------------------------------------------
\* A: the matcher
PAtoms == <<Require(Res("F")), Require(Res("N")), Require(NF("N", "1")), Require(NF("N", "2")), Require(NF("N", "3")),
            AmountOf(0, "F"), AmountOf(1, "F"), AmountOf(2, "F"), AmountOf(3, "F"),
            AmountOf(0, "N"), AmountOf(1, "N"), AmountOf(2, "N"), AmountOf(3, "N")>>
SAtoms == <<Require(NF("S", "k1")), Require(NF("S", "k2")), Require(NF("S", "k3")), Require(Res("S")),
            AmountOf(1, "S"), Require(NF("N", "1"))>>
CAtoms == <<Require(NF("GC", "C1")), Require(NF("GC", "C2")), Require(NF("GC", "T0")), Require(NF("GC", "bpRelay")),
            Require(NF("GC", "bpTx")), Require(NF("GC", "marker")), Require(NF("PK", "P")), Require(NF("PK", "TxP"))>>
ThinFor(np) == IF np = 0 THEN 1 ELSE IF np = 1 THEN ThinA10 ELSE IF np = 2 THEN ThinA1 ELSE ThinA13
A1Chunks == UNION {UNION {{<<"A1", si, ti, np, ai>> : np \in 0..3, ai \in DOMAIN PAtoms}
                          : ti \in DOMAIN TargetKinds(Shapes[si])} : si \in DOMAIN Shapes}
\* The part of A1 that is never thinned (in any tier): no proof; one proof x every requirement about ITS resource, in
\* every frame of every shape x target kind; two proofs of one resource in one frame (where "some single proof" and
\* "the sum" differ) x every amount-of requirement about that resource.  Only the bulk is thinned: requirements about
\* the other resource, pairs spread over frames / resources, triples.
PtRes(code) == IF ((code - 1) % NPT) + 1 <= 2 THEN "F" ELSE "N"
AtomRes(ai) == IF ai = 1 \/ (ai >= 6 /\ ai <= 9) THEN "F" ELSE "N"
Boundary(ms, ai) ==
  \/ Len(ms) = 0
  \/ Len(ms) = 1 /\ PtRes(ms[1]) = AtomRes(ai)
  \/ Len(ms) = 2 /\ (ms[1] - 1) \div NPT = (ms[2] - 1) \div NPT /\ PtRes(ms[1]) = PtRes(ms[2])
       /\ AtomRes(ai) = PtRes(ms[1]) /\ ai >= 6
A1Cases(k) ==
  LET shape == Shapes[k[2]]
      tk == TargetKinds(shape)[k[3]]
      thin == ThinFor(k[4])
  IN {Mk("A1", Place(shape, ms), {}, FALSE, tk, Atom(PAtoms[k[5]]))
        : ms \in {m \in MS(k[4], 1, NPT * Len(shape)) :
                    Boundary(m, k[5]) \/ Keep(SumCodes(m, 1) + 3 * k[5] + k[2] + 11 * k[3], thin)}}
A23Chunks == UNION {{<<fam, si, ti, 0, 0>> : fam \in {"A2", "A3", "A4"}, ti \in DOMAIN TargetKinds(Shapes[si])} : si \in DOMAIN Shapes}
A2Cases(k) ==
  LET shape == Shapes[k[2]]
      tk == TargetKinds(shape)[k[3]]
  IN {Mk("A2", shape, s, FALSE, tk, Atom(SAtoms[ai])) : s \in SUBSET Keys, ai \in DOMAIN SAtoms}
       \cup {Mk("A2", shape, s, TRUE, tk, Atom(SAtoms[ai])) : s \in {{}, {"k1"}}, ai \in DOMAIN SAtoms}
A4Cases(k) ==
  LET shape == Shapes[k[2]]
      tk == TargetKinds(shape)[k[3]]
  IN {Mk("A4", Place(shape, ms), {}, FALSE, tk, Atom(Require(NF("F", "1")))) : ms \in MS(0, 1, 1) \cup MS(1, 1, NPT * Len(shape))}
A3Cases(k) ==
  LET shape == Shapes[k[2]]
      tk == TargetKinds(shape)[k[3]]
  IN {Mk("A3", shape, {}, FALSE, tk, Atom(CAtoms[ai])) : ai \in DOMAIN CAtoms}

---------------------------------------------------------------------------
\* B: the evaluator.  Three leaves whose truth is set independently in the transaction processor's zone.
L3 == <<NF("N", "1"), NF("N", "2"), NF("S", "k1")>>
\* truth assignments are numbered 0..7 (bit i-1 = leaf i holds)
AssignOf(n) == {i \in 1..3 : (n \div (2 ^ (i - 1))) % 2 = 1}
AssignNums == 0..7
BVariants == << <<Shapes[1], "method">>, <<Shapes[1], "function">>, <<Shapes[2], "assert">> >>
AssignFrames(shape, a) ==
  [shape EXCEPT ![1].proofs = (IF 1 \in a THEN <<PT[3]>> ELSE <<>>) \o (IF 2 \in a THEN <<PT[4]>> ELSE <<>>)]
AssignSigners(a) == IF 3 \in a THEN {"k1"} ELSE {}
MkB(fam, vi, a, rule) == Mk(fam, AssignFrames(BVariants[vi][1], a), AssignSigners(a), FALSE, BVariants[vi][2], rule)
LeafSeqs == UNION {[1..n -> 1..3] : n \in 0..3}
Basics1 == {Require(L3[i]) : i \in 1..3}
             \cup UNION {{AllOfB([j \in DOMAIN s |-> L3[s[j]]]), AnyOfB([j \in DOMAIN s |-> L3[s[j]]])} : s \in LeafSeqs}
             \cup {CountOf(k, [j \in DOMAIN s |-> L3[s[j]]]) : k \in 0..4, s \in LeafSeqs}
RECURSIVE BHash(_, _)
BHash(ls, i) == IF i > Len(ls) THEN 0 ELSE (IF ls[i].id = "1" THEN 1 ELSE IF ls[i].id = "2" THEN 2 ELSE 3) * (3 * i + 1) + BHash(ls, i + 1)
OpNum(op) == CASE op = "require" -> 1 [] op = "amount" -> 2 [] op = "count" -> 3 [] op = "allof" -> 4 [] op = "anyof" -> 5
B1Chunks == {<<"B1", vi, a, 0, 0>> : vi \in DOMAIN BVariants, a \in AssignNums}
\* never thinned: every basic requirement over lists of length <= 2 (empty, singleton, pair; count-of 0 .. 4) and
\* count-of 0 over every list
B1Cases(k) == {MkB("B1", k[2], AssignOf(k[3]), Atom(b)) : b \in {x \in Basics1 : Len(x.leaves) <= 2 \/ (x.op = "count" /\ x.n = 0) \/ Keep(BHash(x.leaves, 1) + x.n * 5 + OpNum(x.op) + k[3] + k[2], ThinB1)}}

\* composite trees by number of requirement leaves
T1 == {B(Require(L3[i])) : i \in 1..3}
NLeaves(t) == LET RECURSIVE N(_)
                  N(x) == IF x.op = "b" THEN 1 ELSE SumSeq([i \in DOMAIN x.kids |-> N(x.kids[i])], 1)
              IN N(t)
By(S, n) == {t \in S : NLeaves(t) = n}
\* lists of at most 3 members of S with at most 3 leaves in total
ListsOf(S) ==
  LET S0 == By(S, 0)  S1 == By(S, 1)  S2 == By(S, 2)  S3 == By(S, 3)
      P(n) == IF n = 0 THEN S0 ELSE IF n = 1 THEN S1 ELSE IF n = 2 THEN S2 ELSE S3
      Sums == {s \in UNION {[1..n -> 0..3] : n \in 0..3} : SumSeq(s, 1) <= 3}
  IN UNION {IF Len(s) = 0 THEN {<<>>}
            ELSE IF Len(s) = 1 THEN {<<x>> : x \in P(s[1])}
            ELSE IF Len(s) = 2 THEN {<<x, y>> : x \in P(s[1]), y \in P(s[2])}
            ELSE {<<x, y, z>> : x \in P(s[1]), y \in P(s[2]), z \in P(s[3])} : s \in Sums}
T2 == T1 \cup UNION {{AnyC(l), AllC(l)} : l \in ListsOf(T1)}
T3new == UNION {{AnyC(l), AllC(l)} : l \in ListsOf(T2)} \ T2
\* leaf labels in depth-first order must be a restricted-growth string (1, then at most max+1)
RECURSIVE LeafIds(_)
LeafIds(t) == IF t.op = "b" THEN <<IF t.b.leaves[1].id = "1" /\ t.b.leaves[1].r = "N" THEN 1 ELSE IF t.b.leaves[1].r = "N" THEN 2 ELSE 3>>
              ELSE FlattenSeq([i \in DOMAIN t.kids |-> LeafIds(t.kids[i])])
Canon(t) == LET s == LeafIds(t)
            IN \A i \in DOMAIN s : s[i] <= 1 + (IF i = 1 THEN 0 ELSE MaxOfSet({s[j] : j \in 1..(i - 1)}))
RECURSIVE THash(_)
THash(t) == IF t.op = "b" THEN 1 ELSE (IF t.op = "any" THEN 3 ELSE 5) + 7 * SumSeq([i \in DOMAIN t.kids |-> (i + 1) * THash(t.kids[i])], 1)
Trees == {t \in (T2 \ T1) \cup T3new : Canon(t)}
B2Chunks == {<<"B2", a, 0, 0, 0>> : a \in AssignNums}
\* never thinned: the trees of depth 2 (any-of / all-of over 0..3 requirement leaves), with all three target kinds
B2Cases(k) == {MkB("B2", vi, AssignOf(k[2]), Protected(t)) : t \in {x \in Trees : x \in T2}, vi \in DOMAIN BVariants}
                \cup {MkB("B2", (THash(t) % 3) + 1, AssignOf(k[2]), Protected(t)) : t \in {x \in Trees : x \notin T2 /\ Keep(THash(x) + k[2], ThinB2)}}

---------------------------------------------------------------------------
\* D: role resolution
RO == Atom(Require(NF("N", "1")))
RA == Atom(Require(NF("N", "2")))
RB == Atom(AmountOf(2, "F"))
DShapes == << <<Tx>>, <<Tx, Fr("gm", "C1")>>, <<Tx, Fr("gm", "T")>>, <<Tx, Fr("gm", "T"), Fr("om", "T")>>,
              <<Tx, Fr("gm", "T"), Fr("fm", "-")>>, <<Tx, Fr("gm", "T"), Fr("gm", "C1")>>,
              <<Tx, Fr("gm", "C1"), Fr("gm", "T")>> >>
DCfgs == {Cfg(o, r1, r2) : o \in {DenyAll, RO}, r1 \in {NoRule, Some(AllowAll), Some(DenyAll), Some(RA)}, r2 \in {NoRule, Some(RB)}}
DMethods == <<"m_r1", "m_r2", "m_r1r2", "m_r2r1", "m_owner", "m_self", "m_r1self", "m_none", "m_pub", "m_pkg">>
DProofs(a) == (IF 1 \in a THEN <<PT[3]>> ELSE <<>>) \o (IF 2 \in a THEN <<PT[4]>> ELSE <<>>) \o (IF 3 \in a THEN <<PT[2]>> ELSE <<>>)
DChunks == {<<"D", si, mi, pos, 0>> : si \in DOMAIN DShapes, mi \in DOMAIN DMethods, pos \in {1, 2}}
\* never thinned: every role configuration x method x caller shape with no proof and with all proofs in the last frame
DCases(k) ==
  LET shape == DShapes[k[2]]
      at == IF k[4] = 1 THEN Len(shape) ELSE 1
  IN UNION {{WithExp(Raw("D", [shape EXCEPT ![at].proofs = DProofs(AssignOf(a))], {}, FALSE, "method", "T", DMethods[k[3]], DenyAll, cfg, "-"))
               : cfg \in {x \in DCfgs : (a \in {0, 7} /\ k[4] = 1) \/ Keep(a + k[2] + k[4] + 2 * k[3] + (IF x.r1.some THEN 3 ELSE 0)
                                          + (IF x.r2.some THEN 5 ELSE 0) + (IF x.owner.kind = "deny" THEN 7 ELSE 0)
                                          + (IF x.r1.rule.kind = "allow" THEN 1 ELSE IF x.r1.rule.kind = "deny" THEN 2 ELSE 4), ThinD)}}
            : a \in AssignNums}

---------------------------------------------------------------------------
\* E: limits at the sites that store a rule
LeafN1 == B(Require(NF("N", "1")))
RECURSIVE Chain(_, _)
Chain(d, bottom) == IF d = 0 THEN bottom ELSE IF d % 2 = 0 THEN AnyC(<<Chain(d - 1, bottom)>>) ELSE AllC(<<Chain(d - 1, bottom)>>)
Wide(n) == AllC([i \in 1..n |-> LeafN1])
ERules == {Protected(Chain(d, LeafN1)) : d \in 0..10}
            \cup {Protected(Wide(n)) : n \in {1, 62, 63, 64, 65}}
            \cup {Protected(Chain(9, Wide(70))),
                  Protected(AllC([i \in 1..65 |-> LeafN1] \o <<Chain(9, LeafN1)>>)),
                  Protected(AllC(<<Chain(9, LeafN1)>> \o [i \in 1..65 |-> LeafN1])),
                  Protected(Chain(7, Wide(56))), Protected(Chain(7, Wide(57))), Protected(Chain(8, Wide(2)))}
\* a function access rule reaches the ledger inside a package definition in manifest SBOR (depth limit 24): rules
\* deeper than 4 cannot be submitted at all, the depth limit of that site is out of reach for transactions
ERulesFn == {Protected(Chain(d, LeafN1)) : d \in 0..4} \cup {Protected(Wide(n)) : n \in {1, 62, 63, 64, 65}}
                \cup {Protected(Chain(3, Wide(60))), Protected(Chain(3, Wide(61)))}
Sites == <<"create_owner", "create_role", "set_role", "set_owner", "function">>
EChunks == {<<"E", si, 0, 0, 0>> : si \in DOMAIN Sites}
ECases(k) ==
  LET site == Sites[k[2]]
  IN {WithExp(IF site = "function"
              THEN Raw("E", [Shapes[1] EXCEPT ![1].proofs = p], {}, FALSE, "function", "-", "-", r, Cfg0, site)
              ELSE IF site \in {"create_owner", "set_owner"}
              THEN Raw("E", [Shapes[1] EXCEPT ![1].proofs = p], {}, FALSE, "method", "T", "m_owner", r, Cfg(r, NoRule, NoRule), site)
              ELSE Raw("E", [Shapes[1] EXCEPT ![1].proofs = p], {}, FALSE, "method", "T", "m_r1", r, Cfg(DenyAll, Some(r), NoRule), site))
        : r \in IF site = "function" THEN ERulesFn ELSE ERules, p \in {<<>>, <<PT[3]>>}}

---------------------------------------------------------------------------
\* C: seeded random mixture
Rnd(x) == (x * 1103 + 12345) % 65521
RECURSIVE RndSeq(_, _)
RndSeq(x, len) == IF len = 0 THEN <<>> ELSE LET y == Rnd(x) IN <<y \div 7>> \o RndSeq(y, len - 1)
Stream(idx, len) == RndSeq((Seed + idx * 7919) % 65521, len)
AllLeaves == <<Res("F"), Res("N"), Res("S"), NF("N", "1"), NF("N", "2"), NF("N", "3"), NF("S", "k1"), NF("S", "k2"),
               NF("GC", "C1"), NF("GC", "C2"), NF("GC", "bpRelay"), NF("GC", "bpTx"), NF("PK", "P"), NF("PK", "TxP"),
               NF("N", "1"), NF("N", "2"), Res("F"), NF("S", "k1")>>
RLeaf(x) == AllLeaves[(x % Len(AllLeaves)) + 1]
RLeaves(r, p) == [j \in 1..(r[p] % 4) |-> RLeaf(r[p + j])]
RBasic(r, p) ==
  LET op == r[p] % 6
  IN IF op = 0 THEN Require(RLeaf(r[p + 1]))
     ELSE IF op = 1 THEN AmountOf(r[p + 1] % 4, IF r[p + 2] % 2 = 0 THEN "F" ELSE "N")
     ELSE IF op = 2 THEN CountOf(r[p + 1] % 4, RLeaves(r, p + 2))
     ELSE IF op = 3 THEN AllOfB(RLeaves(r, p + 2))
     ELSE IF op = 4 THEN AnyOfB(RLeaves(r, p + 2))
     ELSE Require(RLeaf(r[p + 3]))
W(d) == IF d = 1 THEN 7 ELSE IF d = 2 THEN 23 ELSE 71
RECURSIVE RComp(_, _, _)
RComp(r, p, d) ==
  IF d = 1 \/ r[p] % 3 = 0 THEN B(RBasic(r, p + 1))
  ELSE LET kids == [i \in 1..(r[p + 1] % 4) |-> RComp(r, p + 2 + (i - 1) * W(d - 1), d - 1)]
       IN IF r[p] % 3 = 1 THEN AnyC(kids) ELSE AllC(kids)
RCase(idx) ==
  LET r == Stream(idx, 96)
      shape == Shapes[(r[1] % Len(Shapes)) + 1]
      tks == TargetKinds(shape)
      tk == tks[(r[2] % Len(tks)) + 1]
      codes == [j \in 1..(r[3] % 4) |-> (r[3 + j] % (NPT * Len(shape))) + 1]
      signers == {k \in Keys : (k = "k1" /\ r[8] % 2 = 1) \/ (k = "k2" /\ r[9] % 4 = 1)}
      rule == IF r[10] % 16 = 0 THEN AllowAll ELSE IF r[10] % 16 = 1 THEN DenyAll ELSE Protected(RComp(r, 11, 3))
  IN Mk("C", Place(shape, codes), signers, FALSE, tk, rule)
Blk == 100
CChunks == {<<"C", b, 0, 0, 0>> : b \in 0..((NRand + Blk - 1) \div Blk - 1)}
CCases(k) == {RCase(idx) : idx \in (k[2] * Blk + 1)..(IF (k[2] + 1) * Blk < NRand THEN (k[2] + 1) * Blk ELSE NRand)}

---------------------------------------------------------------------------
AllChunks == A1Chunks \cup A23Chunks \cup B1Chunks \cup B2Chunks \cup DChunks \cup EChunks \cup CChunks
CasesOf(k) == CASE k[1] = "A1" -> A1Cases(k) [] k[1] = "A2" -> A2Cases(k) [] k[1] = "A3" -> A3Cases(k) [] k[1] = "A4" -> A4Cases(k)
                [] k[1] = "B1" -> B1Cases(k) [] k[1] = "B2" -> B2Cases(k) [] k[1] = "D" -> DCases(k)
                [] k[1] = "E" -> ECases(k) [] k[1] = "C" -> CCases(k)
Dummy == Raw("-", <<Tx>>, {}, FALSE, "assert", "-", "-", DenyAll, Cfg0, "-")

Init == stage = 0 /\ key \in AllChunks /\ c = Dummy
Expand == stage = 0 /\ stage' = 1 /\ key' = key /\ c' \in CasesOf(key)
Next == Expand
Spec == Init /\ [][Next]_<<stage, key, c>>
GView == <<stage, IF stage = 0 THEN key ELSE <<>>, c>>

\* S: the laws of Auth.tla on every case (small rules only: family E's rules have up to 80 nodes)
LawsHold ==
  stage = 1 /\ c.exp.create = "ok" /\ c.fam # "E" =>
    /\ Monotone(c, ProofUniverse, Keys)
    /\ OwnZoneIrrelevant(c, ProofUniverse)
    /\ HiddenIrrelevant(c, ProofUniverse)
    /\ ConstLaws(c) /\ CountLaws(c) /\ OrderIrrelevant(c)
LimitLaws == stage = 1 => \A r \in StoredRules(c) : (RuleCheck(r) = "ok") = RuleValid(r)
Emit == stage = 1 => PrintT(<<"B", ToJson(c)>>)
=============================================================================

SPECIFICATION Spec
CONSTANTS
  MaxFrames = 3
  MaxProofs = 2
INVARIANTS TableIsFunctional RefsPointDown NeverSeesItself GlobalSwitchBarrier LocalCallSeesCallerChain BadgeOrigin FrameOwnedNoBadge PackageBadge SignersOnlyThroughTx AmountIsPerProof
PROPERTIES PushMonotone ReturnNeutral
CHECK_DEADLOCK FALSE

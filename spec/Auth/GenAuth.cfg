SPECIFICATION Spec
CONSTANTS
  ThinA10 = 4
  ThinA1 = 60
  ThinA13 = 0
  ThinB1 = 10
  ThinB2 = 20
  ThinD = 16
  NRand = 300
  Seed = 1
INVARIANTS LawsHold LimitLaws Emit
VIEW GView
CHECK_DEADLOCK FALSE

------------------------------ MODULE MCAuth ------------------------------
(* C08, S: the call stack as a state machine.  One action per engine event that touches auth zones:
   Invoke (create_auth_zone for a callee), Push (a proof enters the running frame's zone), Return
   (teardown_auth_zone).  TLC explores every stack of at most MaxFrames frames with at most MaxProofs
   proofs and checks the structural properties of the zone table the case generator relies on.    *)
EXTENDS Auth
CONSTANTS MaxFrames, MaxProofs
VARIABLES stack,      \* Seq(frame), stack[1] = the transaction processor
          zs,         \* zone table, zs[i] = zone of stack[i]
          signers
vars == <<stack, zs, signers>>

Keys == {"k1", "k2"}
ProofUniverse == {Proof("F", 1, {}), Proof("F", 2, {}), Proof("N", 1, {"1"}), Proof("N", 1, {"2"}), Proof("N", 2, {"1", "2"})}
Frame(kind, comp) == [kind |-> kind, comp |-> comp, proofs |-> <<>>]
Top == stack[Len(stack)]
NProofs == LET RECURSIVE Cnt(_)
               Cnt(i) == IF i = 0 THEN 0 ELSE Len(stack[i].proofs) + Cnt(i - 1)
           IN Cnt(Len(stack))

Init == /\ signers \in SUBSET Keys
        /\ stack = <<Frame("tx", "-")>>
        /\ zs = <<NewZone(<<>>, 0, Frame("tx", "-"), TRUE, <<>>, SigBadges(signers), {})>>
Invoke(kind, comp) ==
  /\ Len(stack) < MaxFrames
  /\ kind = "om" => Top.kind = "gm" /\ comp = Top.comp          \* an owned child of the running component
  /\ kind = "fm" => Top.kind # "tx"                              \* the manifest cannot create objects
  /\ stack' = Append(stack, Frame(kind, comp))
  /\ zs' = Append(zs, NewZone(zs, Len(stack), Top, CalleeIsGlobalCtx(kind), <<>>, {}, {}))
  /\ UNCHANGED signers
InvokeFn == Invoke("fn", "-")
InvokeGlobal == \E c \in {"C1", "C2"} : Invoke("gm", c)
InvokeOwned == Invoke("om", Top.comp)
InvokeFrameOwned == Invoke("fm", "-")
Push(p) == /\ NProofs < MaxProofs
           /\ stack' = [stack EXCEPT ![Len(stack)].proofs = Append(@, p)]
           /\ zs' = [zs EXCEPT ![Len(zs)].proofs = Append(@, p)]
           /\ UNCHANGED signers
Return == /\ Len(stack) > 1
          /\ stack' = SubSeq(stack, 1, Len(stack) - 1)
          /\ zs' = SubSeq(zs, 1, Len(zs) - 1)
          /\ UNCHANGED signers
Next == InvokeFn \/ InvokeGlobal \/ InvokeOwned \/ InvokeFrameOwned \/ (\E p \in ProofUniverse : Push(p)) \/ Return
Spec == Init /\ [][Next]_vars

---------------------------------------------------------------------------
\* the incremental table is the table the case generator computes from the frames alone
TableIsFunctional == zs = Zones(stack, SigBadges(signers), {})
RefsPointDown == \A i \in DOMAIN zs : zs[i].parent < i /\ zs[i].gcZone < i
VisSet(e) == {VisibleZones(zs, e)[k] : k \in DOMAIN VisibleZones(zs, e)}
\* barrier: a zone never contributes to its own authorization
NeverSeesItself == \A e \in DOMAIN zs : e \notin VisSet(e)
\* a callee entered by a global context change sees exactly the zone chain of its direct caller
GlobalSwitchBarrier ==
  \A e \in DOMAIN zs : e > 1 /\ CalleeIsGlobalCtx(stack[e].kind) /\ stack[e - 1].kind # "fm"
     => VisSet(e) = {ChainFrom(zs, e - 1)[k] : k \in DOMAIN ChainFrom(zs, e - 1)}
\* a local callee sees its caller's chain and whatever its caller's global caller showed
LocalCallSeesCallerChain ==
  \A e \in DOMAIN zs : e > 1 /\ ~CalleeIsGlobalCtx(stack[e].kind)
     => {ChainFrom(zs, e - 1)[k] : k \in DOMAIN ChainFrom(zs, e - 1)} \subseteq VisSet(e)
\* global-caller badges: only for the global ancestor of the direct caller / the calling blueprint, never for
\* frame-owned callers
BadgeOrigin ==
  \A e \in DOMAIN zs : \A b \in LocalImplicit(zs[e]) : b[1] = "GC" =>
     LET i == zs[e].gcZone
     IN i > 0 /\ (IF IsFnActor(stack[i]) THEN b[2] = FnBadge(stack[i]) ELSE GlobalOrigin(stack[i]) /\ b[2] = stack[i].comp)
FrameOwnedNoBadge ==
  \A e \in DOMAIN zs : e > 1 /\ stack[e - 1].kind = "fm" => \A b \in LocalImplicit(zs[e]) : b[1] # "GC"
PackageBadge == \A e \in DOMAIN zs : e > 1 => <<"PK", ActorPkg(stack[e - 1])>> \in LocalImplicit(zs[e])
\* signer badges are visible exactly where the transaction processor's zone is
SignersOnlyThroughTx ==
  \A e \in DOMAIN zs : \A k \in Keys :
     Has(zs, e, NF("S", k)) <=> (k \in signers /\ 1 \in VisSet(e))

Probes == {Protected(B(Require(NF("N", "1")))), Protected(B(Require(Res("F")))), Protected(B(AmountOf(2, "F"))),
           Protected(B(CountOf(2, <<NF("N", "1"), NF("N", "2"), Res("F")>>))),
           Protected(AllC(<<B(Require(Res("N"))), B(AmountOf(1, "F"))>>))}
\* pushing a proof never revokes; returning never grants anything to the frames that remain
PushMonotone ==
  [][Len(stack') = Len(stack) => \A e \in DOMAIN zs : \A r \in Probes : Sat(zs, e, r) => Sat(zs', e, r)]_vars
ReturnNeutral ==
  [][Len(stack') < Len(stack) => \A e \in DOMAIN zs' : \A r \in Probes : Sat(zs, e, r) = Sat(zs', e, r)]_vars
\* amount-of is about one proof: two proofs of 1 never satisfy amount-of 2
AmountIsPerProof ==
  \A e \in DOMAIN zs : Sat(zs, e, Protected(B(AmountOf(2, "F")))) =>
     \E i \in VisSet(e) : \E j \in DOMAIN zs[i].proofs : zs[i].proofs[j].r = "F" /\ zs[i].proofs[j].amt >= 2
=============================================================================

------------------------------- MODULE Auth -------------------------------
(* C08.  Reference semantics of authorization in the Radix Engine:
     radix-engine/src/system/system_modules/auth/auth_module.rs   (create_auth_zone, check_permission,
                                                                   resolve_method_permission)
     radix-engine/src/system/system_modules/auth/authorization.rs (auth_zone_stack_matches, verify_proof_rule,
                                                                   verify_auth_rule, role key resolution)
     radix-engine/src/blueprints/resource/auth_zone               (AuthZone substate, assert_access_rule)
     radix-engine/src/object_modules/role_assignment/package.rs   (verify_access_rule: depth / node limits)

   Values (every record kind always has all its fields, so that TLC compares like with like):
     Leaf      [kind: "res" | "nf", r: resource, id: id or "-"]          ResourceOrNonFungible
     Basic     [op: "require" | "amount" | "count" | "allof" | "anyof", n, r, leaves: Seq(Leaf)]
     Composite [op: "b" | "any" | "all", b: Basic, kids: Seq(Composite)]
     Rule      [kind: "allow" | "deny" | "protected", c: Composite]
     Proof     [r: resource, amt: Nat, ids: set of ids]                 (fungible: ids = {})
     Zone      [proofs: Seq(Proof), implicit: set of <<r, id>>, sim: set of resources, pkg, gcWho, gcZone, parent]
   Zones live in a table (sequence); gcZone / parent are indices into it, 0 = none.
   Resources: "F" fungible, "N" non-fungible, "S" signature badges, "GC" global-caller badges,
   "PK" package-of-direct-caller badges.                                                          *)
EXTENDS Integers, Sequences, FiniteSets, TLC

None == "none"          \* no package / no global caller
Marker == "marker"      \* FRAME_OWNED_GLOBAL_MARKER: a global caller entry that carries no badge

---------------------------------------------------------------------------
\* constructors
Leaf(kind, r, id) == [kind |-> kind, r |-> r, id |-> id]
Res(r) == Leaf("res", r, "-")
NF(r, id) == Leaf("nf", r, id)
NoLeaves == <<>>
Require(l) == [op |-> "require", n |-> 0, r |-> "-", leaves |-> <<l>>]
AmountOf(n, r) == [op |-> "amount", n |-> n, r |-> r, leaves |-> NoLeaves]
CountOf(k, ls) == [op |-> "count", n |-> k, r |-> "-", leaves |-> ls]
AllOfB(ls) == [op |-> "allof", n |-> 0, r |-> "-", leaves |-> ls]
AnyOfB(ls) == [op |-> "anyof", n |-> 0, r |-> "-", leaves |-> ls]
B(b) == [op |-> "b", b |-> b, kids |-> <<>>]
AnyC(kids) == [op |-> "any", b |-> AnyOfB(NoLeaves), kids |-> kids]
AllC(kids) == [op |-> "all", b |-> AnyOfB(NoLeaves), kids |-> kids]
Protected(c) == [kind |-> "protected", c |-> c]
AllowAll == [kind |-> "allow", c |-> AnyC(<<>>)]
DenyAll == [kind |-> "deny", c |-> AnyC(<<>>)]
Proof(r, amt, ids) == [r |-> r, amt |-> amt, ids |-> ids]

---------------------------------------------------------------------------
(* Frames.  A frame is a running actor: [kind, comp, proofs]
     "tx"  the transaction processor (function actor of the transaction-processor package, called by Root)
     "fn"  a function of the test blueprint
     "gm"  a method of the global component `comp`
     "om"  a method of an object owned by (stored in a field of) the global component `comp`
     "fm"  a method of an object owned by the calling frame (never stored)                        *)
IsFnActor(f) == f.kind \in {"tx", "fn"}
ActorPkg(f) == IF f.kind = "tx" THEN "TxP" ELSE "P"
FnBadge(f) == IF f.kind = "tx" THEN "bpTx" ELSE "bpRelay"      \* GlobalCaller::PackageBlueprint
\* the reference origin of a method actor's node: a global object or an object reached through the
\* substates of a global object -> Global(ancestor); an object that only lives in a call frame -> FrameOwned
GlobalOrigin(f) == f.kind \in {"gm", "om"}
\* a call is a global context change iff the callee is a function or a global object
CalleeIsGlobalCtx(kind) == kind \in {"fn", "gm", "tx"}

\* create_auth_zone for a callee invoked by `caller` (whose own zone is zs[ci]); ci = 0: Root
NewZone(zs, ci, caller, globalCtx, proofs, implicit, sim) ==
  LET gc == IF ci = 0 THEN <<None, 0>>
            ELSE IF IsFnActor(caller)
                 THEN (IF globalCtx THEN <<FnBadge(caller), ci>> ELSE <<zs[ci].gcWho, zs[ci].gcZone>>)
            ELSE IF GlobalOrigin(caller)
                 THEN (IF globalCtx THEN <<caller.comp, ci>> ELSE <<zs[ci].gcWho, zs[ci].gcZone>>)
            \* frame-owned direct caller: the entry is kept (same substate size) but carries no badge
            ELSE (IF zs[ci].gcWho = None THEN <<None, 0>> ELSE <<Marker, ci>>)
  IN [proofs |-> proofs, implicit |-> implicit, sim |-> sim,
      pkg |-> IF ci = 0 THEN None ELSE ActorPkg(caller),
      gcWho |-> gc[1], gcZone |-> gc[2],
      parent |-> IF globalCtx \/ ci = 0 THEN 0 ELSE ci]

\* the zone table of a chain of frames: zone i belongs to frame i; frame 1 is the transaction processor whose
\* zone carries the signer badges and (preview) the resources under which every proof is simulated
RECURSIVE ZonesUpTo(_, _, _, _)
ZonesUpTo(frames, k, implicit, sim) ==
  IF k = 0 THEN <<>>
  ELSE LET zs == ZonesUpTo(frames, k - 1, implicit, sim)
       IN IF k = 1 THEN <<NewZone(zs, 0, frames[1], TRUE, frames[1].proofs, implicit, sim)>>
          ELSE Append(zs, NewZone(zs, k - 1, frames[k - 1], CalleeIsGlobalCtx(frames[k].kind),
                                  frames[k].proofs, {}, {}))
Zones(frames, implicit, sim) == ZonesUpTo(frames, Len(frames), implicit, sim)

---------------------------------------------------------------------------
(* What a callee zone can see (auth_zone_stack_matches): its local implicit badges; the zone of its global
   caller and that zone's parent chain; its parent zone and that zone's parent chain.  Never its own proofs. *)
RECURSIVE ChainFrom(_, _)
ChainFrom(zs, i) == IF i = 0 THEN <<>> ELSE <<i>> \o ChainFrom(zs, zs[i].parent)
LocalImplicit(z) ==
  (IF z.pkg # None THEN {<<"PK", z.pkg>>} ELSE {})
    \cup (IF z.gcWho \notin {None, Marker} THEN {<<"GC", z.gcWho>>} ELSE {})
VisibleZones(zs, e) == ChainFrom(zs, zs[e].gcZone) \o ChainFrom(zs, zs[e].parent)
View(z) == [proofs |-> z.proofs, implicit |-> z.implicit, sim |-> z.sim]
Views(zs, e) ==
  <<[proofs |-> <<>>, implicit |-> LocalImplicit(zs[e]), sim |-> {}]>>
    \o [k \in DOMAIN VisibleZones(zs, e) |-> View(zs[VisibleZones(zs, e)[k]])]

ProofMatches(l, p) == IF l.kind = "nf" THEN p.r = l.r /\ l.id \in p.ids ELSE p.r = l.r
\* simulate-all applies to non-fungible-id requirements only (as coded)
LeafInView(l, v) ==
  \/ l.kind = "nf" /\ (<<l.r, l.id>> \in v.implicit \/ l.r \in v.sim)
  \/ \E i \in DOMAIN v.proofs : ProofMatches(l, v.proofs[i])
Has(zs, e, l) == LET vs == Views(zs, e) IN \E k \in DOMAIN vs : LeafInView(l, vs[k])
\* amount-of: SOME SINGLE proof of the resource has at least the amount (not the sum)
HasAmount(zs, e, r, n) ==
  LET vs == Views(zs, e) IN \E k \in DOMAIN vs : \E i \in DOMAIN vs[k].proofs : vs[k].proofs[i].r = r /\ vs[k].proofs[i].amt >= n

SatBasic(zs, e, b) ==
  CASE b.op = "require" -> Has(zs, e, b.leaves[1])
    [] b.op = "amount" -> HasAmount(zs, e, b.r, b.n)
    [] b.op = "allof" -> \A i \in DOMAIN b.leaves : Has(zs, e, b.leaves[i])
    [] b.op = "anyof" -> \E i \in DOMAIN b.leaves : Has(zs, e, b.leaves[i])
    [] b.op = "count" -> b.n = 0 \/ Cardinality({i \in DOMAIN b.leaves : Has(zs, e, b.leaves[i])}) >= b.n
RECURSIVE SatC(_, _, _)
SatC(zs, e, c) ==
  CASE c.op = "b" -> SatBasic(zs, e, c.b)
    [] c.op = "any" -> \E i \in DOMAIN c.kids : SatC(zs, e, c.kids[i])
    [] c.op = "all" -> \A i \in DOMAIN c.kids : SatC(zs, e, c.kids[i])
Sat(zs, e, rule) == rule.kind = "allow" \/ (rule.kind = "protected" /\ SatC(zs, e, rule.c))

---------------------------------------------------------------------------
(* Roles.  cfg = [owner: Rule, r1: [some, rule], r2: [some, rule]] is the role assignment of an object.
   "_self_" is require(global_caller(object)); every other key that has no assigned rule (including the
   reserved "_owner_") falls back to the owner rule.                                              *)
SelfRole == "_self_"
OwnerRoleKey == "_owner_"
RoleRule(cfg, comp, role) ==
  IF role = SelfRole THEN Protected(B(Require(NF("GC", comp))))
  ELSE IF role = "r1" /\ cfg.r1.some THEN cfg.r1.rule
  ELSE IF role = "r2" /\ cfg.r2.some THEN cfg.r2.rule
  ELSE cfg.owner
\* the static method table of the test blueprint (tb.rs TARGET_METHODS)
MethodRoles ==
  [m_r1 |-> <<"r1">>, m_r2 |-> <<"r2">>, m_r1r2 |-> <<"r1", "r2">>, m_r2r1 |-> <<"r2", "r1">>,
   m_owner |-> <<OwnerRoleKey>>, m_self |-> <<SelfRole>>, m_r1self |-> <<"r1", SelfRole>>, m_none |-> <<>>]
RoleMethods == DOMAIN MethodRoles
MethodAuthorized(zs, e, cfg, comp, m) ==
  IF m = "m_pub" THEN TRUE
  ELSE IF m = "m_pkg" THEN Sat(zs, e, Protected(B(Require(NF("PK", "P")))))      \* OwnPackageOnly
  ELSE \E i \in DOMAIN MethodRoles[m] : Sat(zs, e, RoleRule(cfg, comp, MethodRoles[m][i]))

---------------------------------------------------------------------------
(* A case = a chain of frames, the signers, the simulate flag and the protected action of the last frame:
     target.kind = "method":   call target.method of the global component target.comp (role assignment cfg)
                   "function": call a function whose access rule is target.rule
                   "assert":   assert_access_rule(target.rule) against the last frame's own zone      *)
SigBadges(signers) == {<<"S", k>> : k \in signers}
CaseZones(c) ==
  LET zs == Zones(c.frames, SigBadges(c.signers), IF c.sim THEN {"S"} ELSE {})
      n == Len(c.frames)
  IN IF c.target.kind = "assert" THEN zs
     ELSE Append(zs, NewZone(zs, n, c.frames[n], TRUE, <<>>, {}, {}))
EvalZone(c) == IF c.target.kind = "assert" THEN Len(c.frames) ELSE Len(c.frames) + 1
Authorized(c) ==
  LET zs == CaseZones(c)
      e == EvalZone(c)
  IN IF c.target.kind = "method" THEN MethodAuthorized(zs, e, c.cfg, c.target.comp, c.target.method)
     ELSE Sat(zs, e, c.target.rule)
\* what the receipt must show
ExpectedOutcome(c) ==
  IF Authorized(c) THEN "ok"
  ELSE IF c.target.kind = "assert" THEN "assert_failed" ELSE "unauthorized"

---------------------------------------------------------------------------
(* Limits enforced when a rule is stored (verify_access_rule): depth-first, a node deeper than MaxDepth
   (root = depth 0) is a depth error, the (MaxNodes+1)-th visited node is a node-count error; the first
   error in visiting order is reported.                                                         *)
MaxDepth == 8
MaxNodes == 64
RECURSIVE Visit(_, _, _), VisitKids(_, _, _, _)
Visit(c, d, cnt) ==                 \* -> <<count, error>>
  IF d > MaxDepth THEN <<cnt, "Depth">>
  ELSE IF cnt + 1 > MaxNodes THEN <<cnt + 1, "Nodes">>
  ELSE IF c.op = "b" THEN <<cnt + 1, "ok">>
  ELSE VisitKids(c.kids, 1, d + 1, cnt + 1)
VisitKids(kids, i, d, cnt) ==
  IF i > Len(kids) THEN <<cnt, "ok">>
  ELSE LET r == Visit(kids[i], d, cnt)
       IN IF r[2] # "ok" THEN r ELSE VisitKids(kids, i + 1, d, r[1])
RuleCheck(rule) == IF rule.kind = "protected" THEN Visit(rule.c, 0, 0)[2] ELSE "ok"
RECURSIVE DepthOf(_), NodesOf(_)
MaxOfSet(S) == CHOOSE x \in S : \A y \in S : y <= x
DepthOf(c) == IF c.op = "b" \/ c.kids = <<>> THEN 0 ELSE 1 + MaxOfSet({DepthOf(c.kids[i]) : i \in DOMAIN c.kids})
RECURSIVE SumSeq(_, _)
SumSeq(s, i) == IF i > Len(s) THEN 0 ELSE s[i] + SumSeq(s, i + 1)
NodesOf(c) == IF c.op = "b" THEN 1 ELSE 1 + SumSeq([i \in DOMAIN c.kids |-> NodesOf(c.kids[i])], 1)
\* the declarative reading of the limits agrees with the visiting order on accept / reject
RuleValid(rule) == rule.kind # "protected" \/ (DepthOf(rule.c) <= MaxDepth /\ NodesOf(rule.c) <= MaxNodes)

---------------------------------------------------------------------------
(* Laws (checked by TLC on every case of the bounded universe, GenAuth.LawsHold)                  *)
\* adding a proof to any frame or a signer never revokes an authorization
WithProof(c, i, p) == [c EXCEPT !.frames[i].proofs = Append(@, p)]
Monotone(c, ProofUniverse, KeyUniverse) ==
  Authorized(c) =>
    /\ \A i \in DOMAIN c.frames : \A p \in ProofUniverse : Authorized(WithProof(c, i, p))
    /\ \A k \in KeyUniverse : Authorized([c EXCEPT !.signers = @ \cup {k}])
\* the proofs of the zone under evaluation itself are irrelevant (assert: the asserting frame's own proofs)
OwnZoneIrrelevant(c, ProofUniverse) ==
  c.target.kind = "assert" =>
    \A p \in ProofUniverse : Authorized(WithProof(c, Len(c.frames), p)) = Authorized(c)
\* zones hidden behind a global context change stay hidden: a frame that is neither the caller's zone chain nor
\* the global caller's chain cannot influence the verdict
Hidden(c) == LET zs == CaseZones(c) e == EvalZone(c)
             IN {i \in DOMAIN c.frames : \A k \in DOMAIN VisibleZones(zs, e) : VisibleZones(zs, e)[k] # i}
HiddenIrrelevant(c, ProofUniverse) ==
  \A i \in Hidden(c) : \A p \in ProofUniverse : Authorized(WithProof(c, i, p)) = Authorized(c)
\* empty lists, zero counts
ConstLaws(c) ==
  LET zs == CaseZones(c) e == EvalZone(c)
  IN /\ SatBasic(zs, e, AllOfB(NoLeaves)) /\ ~SatBasic(zs, e, AnyOfB(NoLeaves))
     /\ SatBasic(zs, e, CountOf(0, NoLeaves)) /\ ~SatBasic(zs, e, CountOf(1, NoLeaves))
     /\ SatC(zs, e, AllC(<<>>)) /\ ~SatC(zs, e, AnyC(<<>>))
     /\ Sat(zs, e, AllowAll) /\ ~Sat(zs, e, DenyAll)
\* count-of(0, l) holds, count-of(k, l) is monotone decreasing in k, count-of(len, l) = all-of(l), count-of(1, l) = any-of(l)
CountLaws(c) ==
  LET zs == CaseZones(c) e == EvalZone(c)
      bs == IF c.target.kind = "method" \/ c.target.rule.kind # "protected" \/ c.target.rule.c.op # "b" THEN {}
            ELSE {c.target.rule.c.b}
  IN \A b \in bs : b.op = "count" =>
       /\ SatBasic(zs, e, CountOf(0, b.leaves))
       /\ (b.n > 0 /\ SatBasic(zs, e, b) => SatBasic(zs, e, CountOf(b.n - 1, b.leaves)))
       /\ SatBasic(zs, e, CountOf(Len(b.leaves), b.leaves)) = SatBasic(zs, e, AllOfB(b.leaves))
       /\ (b.leaves # <<>> => SatBasic(zs, e, CountOf(1, b.leaves)) = SatBasic(zs, e, AnyOfB(b.leaves)))
\* the order of the children of any-of / all-of does not matter
RECURSIVE Mirror(_)
Rev(s) == [i \in DOMAIN s |-> s[Len(s) + 1 - i]]
Mirror(c) == IF c.op = "b" THEN [c EXCEPT !.b.leaves = Rev(@)] ELSE [c EXCEPT !.kids = Rev([i \in DOMAIN c.kids |-> Mirror(c.kids[i])])]
OrderIrrelevant(c) ==
  c.target.kind # "method" /\ c.target.rule.kind = "protected" =>
    Authorized([c EXCEPT !.target.rule.c = Mirror(@)]) = Authorized(c)
=============================================================================

------------------------------ MODULE Royalty ------------------------------
(* X04.  Component and package royalties as first-class state, as coded in
     radix-engine/src/system/system_modules/costing/costing_module.rs  (privileged_before_invoke, apply_royalty_cost)
     radix-engine/src/system/system_modules/costing/fee_reserve.rs     (consume_royalty, revert_royalty)
     radix-engine/src/system/system_callback.rs                        (finalize_fees_for_commit: vaults credited)
     radix-engine/src/object_modules/royalty/package.rs                (set_royalty, lock_royalty, claim_royalties,
                                                                        verify_royalty_amounts, charge_component_royalty)
     radix-engine/src/blueprints/package/package.rs                    (charge_package_royalty, claim_royalties)

   Pinned by reading the code:
     * every invocation of a main-module method or of a function is charged before it runs, whoever calls (the owner,
       the component itself, its own package - no exemption): first the PACKAGE royalty of the blueprint's function
       `ident`, then - if the receiver is a global object with a royalty module - the COMPONENT royalty of `ident`;
       methods of attached modules (set_royalty, claim_royalties, metadata ...) are never charged; an owned (non-global)
       object has no component royalty but its package royalty applies;
     * Usd(n) is converted with the protocol's usd_price at charging time; a zero amount charges nothing;
     * a charge needs fee-reserve balance: with too little locked fee the call fails (InsufficientBalance);
     * charges are only remembered during execution; when the transaction SUCCEEDS every recipient's royalty vault is
       credited once with its sum, when it FAILS revert_royalty forgets them all: no vault changes, royalty cost 0;
     * claim_royalties takes the vault's current balance: royalties accrued earlier in the same transaction are not
       in it yet;
     * set_royalty: authorization, then amount checks (negative, above max_per_function_royalty), then the lock
       (KeyValueEntryLocked); lock_royalty: authorization, then the lock;
     * the roles royalty_setter / royalty_locker / royalty_claimer are unassigned here and fall back to the owner; a
       package published natively has owner None: nobody can claim its royalties.

   Money is a pair [x, u] = x XRD + u USD-converted-at-usd_price, so that no decimal arithmetic is needed: the
   binding evaluates x + u * usd_price with the protocol's constant.                                     *)
EXTENDS Integers, Sequences, FiniteSets, TLC
CONSTANTS Comps,          \* global components with a royalty module
          Methods,        \* their methods that can carry a royalty ("m_pub", "run")
          PkgRoy,         \* [package -> [ident -> Amount]]: package royalties, fixed at publication
          OwnerOf,        \* [Comps \cup DOMAIN PkgRoy -> badge, 0 = nobody]
          Badges,
          SetAmounts,     \* amounts tried with set_royalty
          MaxOps
Pkgs == DOMAIN PkgRoy
Recipients == Comps \cup Pkgs
Amt(k, n) == [k |-> k, n |-> n]
Free == Amt("free", 0)
Money(x, u) == [x |-> x, u |-> u]
Nil == Money(0, 0)
Plus(a, b) == Money(a.x + b.x, a.u + b.u)
ValOf(a) == IF a.k = "xrd" THEN Money(a.n, 0) ELSE IF a.k = "usd" THEN Money(0, a.n) ELSE Nil
NonZero(a) == a.k # "free" /\ a.n > 0
\* protocol limits (max_per_function_royalty_in_xrd = 166.66.., usd_price = 16.66..): whole amounts only
TooBig(a) == (a.k = "xrd" /\ a.n > 166) \/ (a.k = "usd" /\ a.n > 10)
Negative(a) == a.k # "free" /\ a.n < 0
\* bounds of the XRD value of an amount of money (16 < usd_price < 17)
Lo(v) == v.x + 16 * v.u
Hi(v) == v.x + 17 * v.u
TinyBudget == 10          \* XRD locked by a "tiny" transaction

VARIABLES cfg,        \* [Comps -> [Methods -> Amount]]
          locked,     \* [Comps -> [Methods -> BOOLEAN]]
          vault,      \* [Recipients -> Money]   royalty vault balances
          claimed,    \* Money: everything ever claimed (it ends in a sink account)
          paid,       \* Money: royalties ever paid by fee payers
          last        \* the last transaction and its outcome
vars == <<cfg, locked, vault, claimed, paid, last>>

(* operations of a transaction: [k, e, e2, m, a]
     "call"   e.m directly from the manifest               "nested"  e.run which calls e2.m_pub
     "child"  e.run -> its owned child's run -> e2.m_pub    "fn"      function f of package e
     "set" / "lock"  royalty of method m of e               "claim"   component e        "claimpkg"  package e
     "fail"   an instruction that fails                                                        *)
Op(k, e, e2, m, a) == [k |-> k, e |-> e, e2 |-> e2, m |-> m, a |-> a]
\* invocations of an operation: <<package, ident, component or "-">>, in execution order
Invocations(o) ==
  CASE o.k = "call" -> << <<"PN", o.m, o.e>> >>
    [] o.k = "nested" -> << <<"PN", "run", o.e>>, <<"PN", "m_pub", o.e2>> >>
    [] o.k = "child" -> << <<"PN", "run", o.e>>, <<"PN", "run", "-">>, <<"PN", "m_pub", o.e2>> >>
    [] o.k = "fn" -> << <<o.e, "f", "-">> >>
    [] OTHER -> <<>>
\* the amounts an invocation is charged, in order, with their recipients
ChargesOf(w, inv) ==
  <<[to |-> inv[1], a |-> PkgRoy[inv[1]][inv[2]]]>>
    \o (IF inv[3] # "-" THEN <<[to |-> inv[3], a |-> w.cfg[inv[3]][inv[2]]]>> ELSE <<>>)
Total(acc) == LET RECURSIVE S(_)
                  S(R) == IF R = {} THEN Nil ELSE LET r == CHOOSE r \in R : TRUE IN Plus(acc[r], S(R \ {r}))
              IN S(Recipients)
Insufficient(acc, a, budget) == budget = "tiny" /\ Lo(Plus(Total(acc), ValOf(a))) > TinyBudget + 1
RECURSIVE ApplyCharges(_, _, _, _)
ApplyCharges(w, cs, i, budget) ==
  IF i > Len(cs) \/ w.status # "ok" THEN w
  ELSE LET c == cs[i]
       IN IF ~NonZero(c.a) THEN ApplyCharges(w, cs, i + 1, budget)
          ELSE IF Insufficient(w.acc, c.a, budget) THEN [w EXCEPT !.status = "insufficient"]
          ELSE ApplyCharges([w EXCEPT !.acc[c.to] = Plus(@, ValOf(c.a))], cs, i + 1, budget)
RECURSIVE ApplyInvs(_, _, _, _)
ApplyInvs(w, invs, i, budget) ==
  IF i > Len(invs) \/ w.status # "ok" THEN w
  ELSE ApplyInvs(ApplyCharges(w, ChargesOf(w, invs[i]), 1, budget), invs, i + 1, budget)

Authorized(e, caller) == OwnerOf[e] \in caller
StepOp(w, o, caller, budget) ==
  CASE o.k \in {"call", "nested", "child", "fn"} -> ApplyInvs(w, Invocations(o), 1, budget)
    [] o.k = "set" ->
         IF ~Authorized(o.e, caller) THEN [w EXCEPT !.status = "auth"]
         ELSE IF Negative(o.a) THEN [w EXCEPT !.status = "negative"]
         ELSE IF TooBig(o.a) THEN [w EXCEPT !.status = "toobig"]
         ELSE IF w.locked[o.e][o.m] THEN [w EXCEPT !.status = "locked"]
         ELSE [w EXCEPT !.cfg[o.e][o.m] = o.a]
    [] o.k = "lock" ->
         IF ~Authorized(o.e, caller) THEN [w EXCEPT !.status = "auth"]
         ELSE IF w.locked[o.e][o.m] THEN [w EXCEPT !.status = "locked"]
         ELSE [w EXCEPT !.locked[o.e][o.m] = TRUE]
    [] o.k \in {"claim", "claimpkg"} ->
         IF ~Authorized(o.e, caller) THEN [w EXCEPT !.status = "auth"]
         ELSE [w EXCEPT !.claimed = Plus(@, w.vault[o.e]), !.vault[o.e] = Nil]
    [] o.k = "fail" -> [w EXCEPT !.status = "fail"]
RECURSIVE Exec(_, _, _, _, _)
Exec(w, ops, i, caller, budget) ==
  IF i > Len(ops) \/ w.status # "ok" THEN w
  ELSE LET w2 == StepOp(w, ops[i], caller, budget)
       IN Exec(IF w2.status # "ok" /\ w.status = "ok" THEN [w2 EXCEPT !.at = i] ELSE w2, ops, i + 1, caller, budget)

ZeroAcc == [r \in Recipients |-> Nil]
Work == [cfg |-> cfg, locked |-> locked, vault |-> vault, claimed |-> claimed, acc |-> ZeroAcc, status |-> "ok", at |-> 0]
\* one transaction: all or nothing
Tx(ops, caller, budget) ==
  LET w == Exec(Work, ops, 1, caller, budget)
  IN IF w.status = "ok"
     THEN /\ cfg' = w.cfg /\ locked' = w.locked
          /\ vault' = [r \in Recipients |-> Plus(w.vault[r], w.acc[r])]        \* credited once, at the end
          /\ claimed' = w.claimed
          /\ paid' = Plus(paid, Total(w.acc))
          /\ last' = [ops |-> ops, caller |-> caller, budget |-> budget, class |-> "ok", at |-> 0, royalty |-> w.acc,
                      total |-> Total(w.acc), got |-> Money(w.claimed.x - claimed.x, w.claimed.u - claimed.u)]
     ELSE /\ UNCHANGED <<cfg, locked, vault, claimed, paid>>
          /\ last' = [ops |-> ops, caller |-> caller, budget |-> budget, class |-> w.status, at |-> w.at, royalty |-> ZeroAcc,
                      total |-> Nil, got |-> Nil]

\* a tiny-budget transaction must be clearly under or clearly over the budget (the model does not know execution costs)
Decidable(ops, budget) ==
  budget = "ample" \/
    LET w == Exec(Work, ops, 1, {}, "ample")            \* what would be charged with enough budget (caller irrelevant)
    IN w.status = "ok" => (Hi(Total(w.acc)) <= TinyBudget - 3 \/ Lo(Total(w.acc)) > TinyBudget + 1)

CallOps == {Op("call", c, "-", m, Free) : c \in Comps, m \in {"m_pub"}}
             \cup {Op(k, c, d, "-", Free) : k \in {"nested", "child"}, c \in Comps, d \in Comps}
             \cup {Op("fn", p, "-", "-", Free) : p \in {q \in Pkgs : "f" \in DOMAIN PkgRoy[q]}}
AdminOps == {Op("set", c, "-", m, a) : c \in Comps, m \in Methods, a \in SetAmounts}
              \cup {Op("lock", c, "-", m, Free) : c \in Comps, m \in Methods}
              \cup {Op("claim", c, "-", "-", Free) : c \in Comps}
              \cup {Op("claimpkg", p, "-", "-", Free) : p \in Pkgs}
              \cup {Op("fail", "-", "-", "-", Free)}
AllOps == CallOps \cup AdminOps
OpLists == UNION {[1..n -> AllOps] : n \in 1..MaxOps}

Init == /\ cfg = [c \in Comps |-> [m \in Methods |-> Free]]
        /\ locked = [c \in Comps |-> [m \in Methods |-> FALSE]]
        /\ vault = [r \in Recipients |-> Nil] /\ claimed = Nil /\ paid = Nil
        /\ last = [ops |-> <<>>, caller |-> {}, budget |-> "ample", class |-> "ok", at |-> 0, royalty |-> [r \in Recipients |-> Nil],
                   total |-> Nil, got |-> Nil]
Next == \E ops \in OpLists, caller \in SUBSET Badges, budget \in {"ample", "tiny"} :
          Decidable(ops, budget) /\ Tx(ops, caller, budget)
Spec == Init /\ [][Next]_vars

---------------------------------------------------------------------------
Sum(f) == LET RECURSIVE S(_)
              S(R) == IF R = {} THEN Nil ELSE LET r == CHOOSE r \in R : TRUE IN Plus(f[r], S(R \ {r}))
          IN S(Recipients)
\* every XRD of royalty ever paid is in a royalty vault or was claimed
Conserved == Plus(Sum(vault), claimed) = paid
\* a locked royalty configuration never changes (cf. C51)
LockedSticky == [][\A c \in Comps, m \in Methods : locked[c][m] => locked'[c][m] /\ cfg'[c][m] = cfg[c][m]]_vars
\* a failed transaction pays no royalties and changes nothing (cf. C02)
FailedPaysNothing == [][last'.class # "ok" => UNCHANGED <<cfg, locked, vault, claimed, paid>> /\ last'.total = Nil]_vars
\* what the fee payer pays on top of execution is exactly what the recipients get (cf. C06)
PaidIsCredited == [][last'.class = "ok" => /\ paid' = Plus(paid, last'.total) /\ last'.total = Sum(last'.royalty)]_vars
\* without configuration changes inside the transaction the accrued royalties are the sums of the configured amounts
Count(ops, to, ident, comp) ==
  LET RECURSIVE C(_)
      C(i) == IF i > Len(ops) THEN 0
              ELSE Cardinality({j \in DOMAIN Invocations(ops[i]) :
                                  LET inv == Invocations(ops[i])[j] IN (IF comp THEN inv[3] ELSE inv[1]) = to /\ inv[2] = ident}) + C(i + 1)
  IN C(1)
Idents == {"m_pub", "run", "f"}
Scale(n, v) == Money(n * v.x, n * v.u)
RECURSIVE SumIdents(_, _, _, _)
SumIdents(ops, r, S, comp) ==
  IF S = {} THEN Nil
  ELSE LET id == CHOOSE id \in S : TRUE
           a == IF comp THEN (IF id \in Methods THEN cfg[r][id] ELSE Free)
                ELSE (IF id \in DOMAIN PkgRoy[r] THEN PkgRoy[r][id] ELSE Free)
       IN Plus(Scale(Count(ops, r, id, comp), IF NonZero(a) THEN ValOf(a) ELSE Nil), SumIdents(ops, r, S \ {id}, comp))
NoSet(ops) == \A i \in DOMAIN ops : ops[i].k # "set"
AccruedExactly ==
  [][last'.class = "ok" /\ NoSet(last'.ops) =>
       \A r \in Recipients : last'.royalty[r] = SumIdents(last'.ops, r, Idents, r \in Comps)]_vars
\* a claim pays exactly the vault's balance and empties it; royalties of the same transaction arrive afterwards
Claims(ops, r) == \E i \in DOMAIN ops : ops[i].k \in {"claim", "claimpkg"} /\ ops[i].e = r
ClaimExact ==
  [][last'.class = "ok" =>
       /\ \A r \in Recipients : vault'[r] = IF Claims(last'.ops, r) THEN last'.royalty[r] ELSE Plus(vault[r], last'.royalty[r])
       /\ last'.got = LET RECURSIVE G(_)
                          G(R) == IF R = {} THEN Nil ELSE LET r == CHOOSE r \in R : TRUE
                                                          IN Plus(IF Claims(last'.ops, r) THEN vault[r] ELSE Nil, G(R \ {r}))
                      IN G(Recipients)]_vars
\* only the owner changes or claims anything
OwnerOnly ==
  [][last'.class = "ok" => \A i \in DOMAIN last'.ops :
        last'.ops[i].k \in {"set", "lock", "claim", "claimpkg"} => OwnerOf[last'.ops[i].e] \in last'.caller]_vars
=============================================================================

----------------------------- MODULE GenRoyalty -----------------------------
(* X04, G: seeded histories of Royalty.  Walk sd starts with two fresh components whose royalty configuration
   (amounts and lock flags of "m_pub" and "run") is drawn from the stream and performs K transactions of 1..4
   operations each (calls: direct, nested through another component, through an owned child, a function of the WASM
   package; set / lock / claim by some caller; a failing instruction), with an ample or a tiny locked fee.  Every
   transaction is an instance of Royalty!Tx; it is printed with the outcome class, the royalties per recipient, the
   amount claimed and the complete state afterwards.                                                  *)
EXTENDS Royalty, Json
CONSTANTS K, Walks, Seed
VARIABLES sd, step, hist, rs
gvars == <<vars, sd, step, hist, rs>>

GPkgRoy == [PN |-> [m_pub |-> Amt("xrd", 1), run |-> Amt("usd", 1)], PW |-> [f |-> Amt("xrd", 2)]]
GOwnerOf == [C1 |-> 1, C2 |-> 2, PN |-> 0, PW |-> 1]
GSetAmounts == {Free}      \* unused: the generator draws amounts itself

Rnd(x) == (x * 1103 + 12345) % 65521
RECURSIVE RndSeq(_, _)
RndSeq(x, len) == IF len = 0 THEN <<>> ELSE LET y == Rnd(x) IN <<y \div 7>> \o RndSeq(y, len - 1)
Stream(s) == RndSeq((Seed + s * 7919) % 65521, 16 + 24 * K)

CompSeq == <<"C1", "C2">>
MethSeq == <<"m_pub", "run">>
InitAmts == <<Free, Free, Amt("xrd", 1), Amt("xrd", 2), Amt("usd", 1), Amt("xrd", 0)>>
DrawAmts == <<Free, Amt("xrd", 1), Amt("xrd", 2), Amt("xrd", 3), Amt("usd", 1), Amt("usd", 2), Amt("xrd", 0), Amt("usd", 0),
              Amt("xrd", 166), Amt("xrd", 167), Amt("usd", 9), Amt("usd", 11), Amt("xrd", -1), Amt("usd", -1), Amt("xrd", 1), Amt("usd", 1)>>
State == [cfg |-> cfg, locked |-> locked, vault |-> vault, claimed |-> claimed, paid |-> paid]
StateP == [cfg |-> cfg', locked |-> locked', vault |-> vault', claimed |-> claimed', paid |-> paid']
NoLast == [ops |-> <<>>, caller |-> {}, budget |-> "ample", class |-> "ok", at |-> 0, royalty |-> [r \in Recipients |-> Nil],
           total |-> Nil, got |-> Nil]

(* Walk 1 is not random: a fixed script from the all-free unlocked configuration that visits every limit and every
   operation kind independently of the seed: maximum / above-maximum / zero / negative amounts in XRD and USD with
   set_royalty and the charge that follows, set-then-call and call-then-claim inside one transaction, claims by owner /
   stranger, lock and every operation on a locked configuration (amount check before the lock), nested / child /
   function calls, package claims (owner, stranger, ownerless package), a failing instruction after charges, tiny
   locked fees under and over the budget.                                                            *)
Both == {1, 2}
T(ops, caller, budget) == [ops |-> ops, caller |-> caller, budget |-> budget]
SetOp(c, m, k, n) == Op("set", c, "-", m, Amt(k, n))
CallOp(c) == Op("call", c, "-", "m_pub", Free)
Script == <<
  T(<<SetOp("C1", "m_pub", "xrd", 166)>>, Both, "ample"), T(<<CallOp("C1")>>, {}, "ample"),
  T(<<SetOp("C1", "m_pub", "xrd", 167)>>, Both, "ample"), T(<<SetOp("C1", "m_pub", "usd", 9)>>, Both, "ample"),
  T(<<Op("nested", "C2", "C1", "-", Free)>>, {}, "ample"), T(<<SetOp("C1", "m_pub", "usd", 11)>>, Both, "ample"),
  T(<<SetOp("C1", "m_pub", "xrd", 0)>>, Both, "ample"), T(<<CallOp("C1")>>, {}, "ample"),
  T(<<SetOp("C1", "run", "usd", 0)>>, Both, "ample"), T(<<SetOp("C1", "m_pub", "xrd", -1)>>, Both, "ample"),
  T(<<SetOp("C1", "m_pub", "usd", -1)>>, Both, "ample"), T(<<SetOp("C1", "m_pub", "xrd", 2), CallOp("C1")>>, Both, "ample"),
  T(<<CallOp("C1"), Op("claim", "C1", "-", "-", Free)>>, Both, "ample"), T(<<Op("claim", "C1", "-", "-", Free)>>, Both, "ample"),
  T(<<Op("claim", "C1", "-", "-", Free)>>, {2}, "ample"), T(<<Op("lock", "C1", "-", "m_pub", Free)>>, {2}, "ample"),
  T(<<Op("lock", "C1", "-", "m_pub", Free)>>, Both, "ample"), T(<<SetOp("C1", "m_pub", "xrd", 1)>>, Both, "ample"),
  T(<<Op("lock", "C1", "-", "m_pub", Free)>>, Both, "ample"), T(<<SetOp("C1", "m_pub", "xrd", 167)>>, Both, "ample"),
  T(<<CallOp("C1")>>, {}, "ample"), T(<<Op("child", "C1", "C2", "-", Free)>>, {}, "ample"),
  T(<<Op("fn", "PW", "-", "-", Free)>>, {}, "ample"), T(<<Op("claimpkg", "PW", "-", "-", Free)>>, {1}, "ample"),
  T(<<Op("claimpkg", "PW", "-", "-", Free)>>, {2}, "ample"), T(<<Op("claimpkg", "PN", "-", "-", Free)>>, Both, "ample"),
  T(<<CallOp("C1"), Op("fail", "-", "-", "-", Free)>>, {}, "ample"), T(<<CallOp("C1")>>, {}, "tiny"),
  T(<<SetOp("C2", "m_pub", "xrd", 166)>>, Both, "ample"), T(<<CallOp("C2")>>, {}, "tiny"),
  T(<<CallOp("C2"), CallOp("C2"), CallOp("C2")>>, {}, "ample"), T(<<SetOp("C2", "m_pub", "xrd", 3), CallOp("C2")>>, Both, "tiny"),
  T(<<Op("lock", "C2", "-", "run", Free), SetOp("C2", "run", "usd", 1)>>, Both, "ample"),
  T(<<Op("claim", "C2", "-", "-", Free), Op("claim", "C2", "-", "-", Free)>>, {2}, "ample") >>
Scripted == sd = 1
Bound == IF Scripted THEN Len(Script) ELSE K
GInit ==
  /\ sd \in 1..Walks /\ step = 0 /\ rs = Stream(sd)
  /\ cfg = [c \in Comps |-> [m \in Methods |-> IF Scripted THEN Free ELSE
              InitAmts[(rs[(IF c = "C1" THEN 0 ELSE 2) + (IF m = "m_pub" THEN 1 ELSE 2)] % 6) + 1]]]
  /\ locked = [c \in Comps |-> [m \in Methods |-> ~Scripted /\ rs[4 + (IF c = "C1" THEN 0 ELSE 2) + (IF m = "m_pub" THEN 1 ELSE 2)] % 4 = 0]]
  /\ vault = [r \in Recipients |-> Nil] /\ claimed = Nil /\ paid = Nil
  /\ last = NoLast
  /\ hist = <<[tx |-> NoLast, st |-> State]>>

DrawOp(r, p) ==
  LET k == r[p] % 16
      c == CompSeq[(r[p + 1] % 2) + 1]
      d == CompSeq[(r[p + 2] % 2) + 1]
      m == MethSeq[(r[p + 3] % 2) + 1]
      a == DrawAmts[(r[p + 4] % 16) + 1]
  IN IF k \in {0, 1, 2} THEN Op("call", c, "-", "m_pub", Free)
     ELSE IF k \in {3, 4} THEN Op("nested", c, d, "-", Free)
     ELSE IF k = 5 THEN Op("child", c, d, "-", Free)
     ELSE IF k \in {6, 7} THEN Op("fn", "PW", "-", "-", Free)
     ELSE IF k \in {8, 9, 10} THEN Op("set", c, "-", m, a)
     ELSE IF k = 11 THEN Op("lock", c, "-", m, Free)
     ELSE IF k \in {12, 13} THEN Op("claim", c, "-", "-", Free)
     ELSE IF k = 14 THEN Op("claimpkg", IF r[p + 1] % 3 = 0 THEN "PN" ELSE "PW", "-", "-", Free)
     ELSE IF r[p + 1] % 3 = 0 THEN Op("fail", "-", "-", "-", Free) ELSE Op("call", d, "-", "m_pub", Free)
TxOf(j) ==
  LET r == rs
      p == 16 + (j - 1) * 24
      n == (r[p] % 4) + 1
      ops == [i \in 1..n |-> DrawOp(r, p + 3 + (i - 1) * 5)]
      caller == {b \in Badges : (b = 1 /\ r[p + 1] % 3 # 0) \/ (b = 2 /\ r[p + 1] % 2 = 0)}
      budget == IF r[p + 2] % 4 = 0 /\ Decidable(ops, "tiny") THEN "tiny" ELSE "ample"
  IN [ops |-> ops, caller |-> caller, budget |-> budget]
GNext == /\ step < Bound
         /\ LET t == IF Scripted THEN Script[step + 1] ELSE TxOf(step + 1)
            IN (Scripted => Decidable(t.ops, t.budget)) /\ Tx(t.ops, t.caller, t.budget)
         /\ step' = step + 1 /\ sd' = sd /\ rs' = rs
         /\ hist' = Append(hist, [tx |-> last', st |-> StateP])
GSpec == GInit /\ [][GNext]_gvars
Emit == step = Bound => PrintT(<<"B", ToJson(hist)>>)
=============================================================================

----------------------------- MODULE MCRoyalty -----------------------------
EXTENDS Royalty
MCPkgRoy == [PN |-> [m_pub |-> Amt("xrd", 1), run |-> Amt("usd", 1)], PW |-> [f |-> Amt("xrd", 2)]]
MCOwnerOf == [C1 |-> 1, PN |-> 0, PW |-> 1]
MCSetAmounts == {Free, Amt("xrd", 2), Amt("usd", 1), Amt("xrd", 166), Amt("xrd", 167), Amt("xrd", -1), Amt("xrd", 0)}
MCSetAmountsSmall == {Free, Amt("usd", 1), Amt("xrd", 167)}
\* balances do not influence behaviour except through the amounts claimed; bound them for the view
MCView == <<cfg, locked, [r \in Recipients |-> vault[r] = Nil]>>
=============================================================================

SPECIFICATION GSpec
CONSTANTS
  Comps = {"C1", "C2"}
  Methods = {"m_pub", "run"}
  PkgRoy <- GPkgRoy
  OwnerOf <- GOwnerOf
  Badges = {1, 2}
  SetAmounts <- GSetAmounts
  MaxOps = 4
  K = 6
  Walks = 50
  Seed = 1
INVARIANTS Conserved Emit
PROPERTIES LockedSticky FailedPaysNothing PaidIsCredited AccruedExactly ClaimExact OwnerOnly
CHECK_DEADLOCK FALSE

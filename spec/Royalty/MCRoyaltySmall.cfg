SPECIFICATION Spec
CONSTANTS
  Comps = {"C1"}
  Methods = {"m_pub", "run"}
  PkgRoy <- MCPkgRoy
  OwnerOf <- MCOwnerOf
  Badges = {1}
  SetAmounts <- MCSetAmountsSmall
  MaxOps = 2
INVARIANT Conserved
PROPERTIES LockedSticky FailedPaysNothing PaidIsCredited AccruedExactly ClaimExact OwnerOnly
VIEW MCView
CHECK_DEADLOCK FALSE

--------------------------- MODULE TraceValidator ---------------------------
(* C42, impl -> spec.  Recorded histories of the REAL Validator / ConsensusManager blueprints
   (harness vh_pools validator run | record; custom genesis with 3-4 validators, max_validators
   1..3, short epochs) are accepted iff every transaction is an instance of the nondeterministic
   action of Validator.tla, instantiated with big integers, and the invariants hold in every state.

   Computed from the recording: minted units = stake-unit supply after - before; claim amount of an
   unstake = stake vault before - after; fee into the rewards vault = rewards after - before;
   burnt = - (sum of all XRD vault balance changes of the receipt); per-validator emission = sum of
   the validator's ValidatorEmissionAppliedEvent (net + fee), reward = its
   ValidatorRewardAppliedEvent amounts.
   Blocking: all of Validator.tla (pro-rata mint, claim amount, exact claim payment after the
   unbonding epochs, emission <= configured and = the XRD that appeared, rewards <= rewards vault,
   only members of the concluded set are paid, owner units worth no more than what was added,
   ActiveSetOK for EpochChangeEvent.validator_set = the CurrentValidatorSet substate); failed
   transactions move nothing; no panic / native trap.
   Reported without blocking: <<"GAIN", l, k>> - a user unstakes (at most) the units minted by his k
   immediately preceding stakes and the claim is worth more XRD than he staked.               *)
EXTENDS BigInt, TraceIO
VARIABLES cfg, val, owner, held, xrd, claims, epoch, rewards, supply, aset, streak, l
\* min(65535, stake div 10^23 attos)  (10^23 = BASE^5 * 1000)
BigBucket(s) == LET hi == IF Len(s.l) <= 5 THEN Zero ELSE [s |-> 1, l |-> SubSeq(s.l, 6, Len(s.l))]
                    q == DivSmall(hi, 1000)
                IN IF ~FitsInt(q) THEN 65535 ELSE IF ToInt(q) > 65535 THEN 65535 ELSE ToInt(q)
INSTANCE Validator WITH Z <- Zero, One <- One, Plus <- Add, Minus <- Sub, Times <- Mul, LE <- Leq, Bucket <- BigBucket
tvars == <<cfg, val, owner, held, xrd, claims, epoch, rewards, supply, aset, streak, l>>

Ev == Rec[l]
ObsVal(ev) == [v \in 1..Len(ev.val) |-> [stake |-> ev.val[v].stake, su |-> ev.val[v].su, pend |-> ev.val[v].pend, reg |-> ev.val[v].reg]]
ObsOwner(ev) == [v \in 1..Len(ev.val) |-> ev.val[v].owner]
ObsSet(s) == [i \in 1..Len(s) |-> [v |-> s[i].v, stake |-> s[i].stake]]
Wf(ev) == /\ \A v \in 1..Len(ev.val) : IsBig(ev.val[v].stake) /\ IsBig(ev.val[v].su) /\ IsBig(ev.val[v].pend) /\ IsBig(ev.val[v].owner)
          /\ \A u \in 1..Len(ev.xrd) : IsBig(ev.xrd[u]) /\ \A v \in 1..Len(ev.held[u]) : IsBig(ev.held[u][v])
          /\ \A i \in 1..Len(ev.claims) : IsBig(ev.claims[i].amt)
          /\ IsBig(ev.rewards)
          /\ \A i \in 1..Len(ev.aset) : IsBig(ev.aset[i].stake)
Matches(ev) == /\ val' = ObsVal(ev) /\ owner' = ObsOwner(ev) /\ held' = ev.held /\ xrd' = ev.xrd
               /\ claims' = ToSet(ev.claims) /\ Len(ev.claims) = Cardinality(ToSet(ev.claims))
               /\ epoch' = ev.epoch /\ rewards' = ev.rewards /\ aset' = ObsSet(ev.aset)
Fee(ev) == Sub(ev.rewards, rewards)
Burn(ev) == Neg(ev.dsupply)
Committed(name) == l <= Len(Rec) /\ Ev.a = name /\ Ev.out = "commit" /\ Wf(Ev) /\ IsBig(Ev.dsupply)

TInit == /\ l = 1
         /\ cfg = [nv |-> 1, nu |-> 1, emission |-> Zero, maxv |-> 1, unstake |-> 1]
         /\ val = <<[stake |-> Zero, su |-> Zero, pend |-> Zero, reg |-> FALSE]>> /\ owner = <<Zero>>
         /\ held = <<<<Zero>>>> /\ xrd = <<Zero>> /\ claims = {} /\ epoch = 0 /\ rewards = Zero /\ supply = Zero
         /\ aset = <<>> /\ streak = [u |-> 0, v |-> 0, k |-> 0, m |-> Zero, x |-> Zero]

TReset ==
  /\ l <= Len(Rec) /\ Ev.a = "reset" /\ Wf(Ev) /\ IsBig(Ev.emission)
  /\ LET ev == Ev IN
     /\ Len(ev.val) = ev.nv /\ Len(ev.xrd) = ev.nu /\ Len(ev.held) = ev.nu
     /\ cfg' = [nv |-> ev.nv, nu |-> ev.nu, emission |-> ev.emission, maxv |-> ev.maxv, unstake |-> ev.unstake]
     /\ Matches(ev)
     /\ supply' = Zero
     /\ streak' = [u |-> 0, v |-> 0, k |-> 0, m |-> Zero, x |-> Zero]
  /\ l' = l + 1

TStake ==
  /\ Committed("stake")
  /\ LET ev == Ev
         m == Sub(ev.val[ev.v].su, val[ev.v].su)
     IN /\ IsBig(ev.x)
        /\ Stake(ev.v, ev.u, ev.x, m, Fee(ev), Burn(ev))
        /\ Matches(ev)
  /\ l' = l + 1

TUnstake ==
  /\ Committed("unstake")
  /\ LET ev == Ev
         c == Sub(val[ev.v].stake, ev.val[ev.v].stake)
     IN /\ IsBig(ev.x) /\ Len(ev.new) = 1
        /\ Unstake(ev.v, ev.u, ev.x, c, ev.new[1], Fee(ev), Burn(ev))
        /\ Matches(ev)
        /\ IF streak.u = ev.u /\ streak.v = ev.v /\ Leq(ev.x, streak.m) /\ ~Leq(c, streak.x)
           THEN PrintT(<<"GAIN", l, streak.k>>) ELSE TRUE
  /\ l' = l + 1

TClaim ==
  /\ Committed("claim")
  /\ Claim(Ev.v, Ev.u, Ev.ids, Fee(Ev), Burn(Ev))
  /\ Matches(Ev)
  /\ l' = l + 1

TRegister ==
  /\ (Committed("register") \/ Committed("unregister"))
  /\ SetRegistered(Ev.v, Ev.a = "register", Fee(Ev), Burn(Ev))
  /\ Matches(Ev)
  /\ l' = l + 1

\* fee updates, rounds inside an epoch, failed / rejected transactions: nothing modelled moves
TQuiet ==
  /\ l <= Len(Rec)
  /\ Ev.a \in {"stake", "unstake", "claim", "register", "unregister", "update_fee", "round", "epoch"}
  /\ \/ Ev.a \in {"update_fee", "round"} /\ Ev.out = "commit"
     \/ Ev.out \in {"err", "reject"} /\ ~Ev.trap
  /\ Wf(Ev) /\ IsBig(Ev.dsupply)
  /\ Quiet(Fee(Ev), Burn(Ev))
  /\ Matches(Ev)
  /\ l' = l + 1

RECURSIVE SumEm(_, _, _)
SumEm(s, v, i) == IF i = 0 THEN Zero
                  ELSE LET rest == SumEm(s, v, i - 1) IN
                       IF s[i].v = v THEN Add(rest, Add(s[i].net, s[i].fee)) ELSE rest
RECURSIVE SumRw(_, _, _)
SumRw(s, v, i) == IF i = 0 THEN Zero
                  ELSE LET rest == SumRw(s, v, i - 1) IN
                       IF s[i].v = v THEN Add(rest, s[i].amt) ELSE rest
TEpoch ==
  /\ Committed("epoch")
  /\ LET ev == Ev
         em == [v \in Vals |-> SumEm(ev.em, v, Len(ev.em))]
         rw == [v \in Vals |-> SumRw(ev.rw, v, Len(ev.rw))]
         su2 == [v \in Vals |-> ev.val[v].su]
     IN /\ \A i \in 1..Len(ev.em) : ev.em[i].v \in Vals /\ IsBig(ev.em[i].net) /\ IsBig(ev.em[i].fee)
        /\ \A i \in 1..Len(ev.rw) : ev.rw[i].v \in Vals /\ IsBig(ev.rw[i].amt)
        /\ \A i \in 1..Len(ev.set) : IsBig(ev.set[i].stake)
        /\ EpochChange(em, rw, su2, ObsSet(ev.set))
        /\ Matches(ev)                                 \* incl. CurrentValidatorSet substate = the event's set
        /\ supply' = Add(supply, ev.dsupply)           \* the XRD that appeared is exactly the emission
  /\ l' = l + 1

TEnd == /\ l <= Len(Rec) /\ Ev.a = "end"
        /\ UNCHANGED <<cfg, val, owner, held, xrd, claims, epoch, rewards, supply, aset, streak>> /\ l' = l + 1

TNext == TReset \/ TStake \/ TUnstake \/ TClaim \/ TRegister \/ TQuiet \/ TEpoch \/ TEnd
TSpec == TInit /\ [][TNext]_tvars
=============================================================================

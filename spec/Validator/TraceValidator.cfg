SPECIFICATION TSpec
INVARIANTS NonNeg UnitsAreHeld ClaimsBacked NoGain
POSTCONDITION TraceAccepted
CHECK_DEADLOCK FALSE

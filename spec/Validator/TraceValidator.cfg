SPECIFICATION TSpec
INVARIANTS SetStakesPositive NonNeg UnitsAreHeld ClaimsBacked NoGain
POSTCONDITION TraceAccepted
CHECK_DEADLOCK FALSE

SPECIFICATION Spec
CONSTANTS
  K = 2
  MaxV = 1
  Scan = 2
  Emission = 1
  XrdEach = 1
  GenesisSel = "c"
INVARIANTS SetStakesPositive NonNeg UnitsAreHeld ClaimsBacked NoGain
PROPERTIES ActiveSetChosenOK NoValueCreated EmissionBound
CHECK_DEADLOCK FALSE

---------------------------- MODULE GenValidator ----------------------------
(* G' for C42: TLC generates only the INPUTS - a genesis configuration (validator stakes around the
   100k-XRD bucket boundaries, registered flags, emission per epoch, minimum reliability,
   max_validators, unbonding epochs) and a sequence of K operations: stake / unstake / claim_xrd /
   register / unregister / update_fee as user transactions, next-round system transactions with
   proposal histories (leader, gap rounds, fallback) and epoch changes.  Amounts are classes the
   harness resolves against the real state (XRD: sub = 1 atto | tiny | one | mid | odd | bucket =
   100 000 | eq = the validator's stake | third | all;  units: sub | tiny | half | third | all |
   over | last = what the user's last stake minted).  What the real blueprints did is recorded and
   decided by TraceValidator.tla.  Run with -simulate (seeded); an operation is chosen in two steps
   (kind, then arguments).                                                                     *)
EXTENDS Integers, Sequences, FiniteSets, TLC, Json
CONSTANTS K
VARIABLES setup, hist, pending, done
gvars == <<setup, hist, pending, done>>
StakeSets == {<<"250000", "130000.5", "120000", "90000">>,
              <<"1000", "999.999999999999999999", "1000">>,
              <<"100000", "199999.999999999999999999", "200000", "100000.000000000000000001">>,
              <<"7", "3", "0.000000000000000003", "1000000">>,
              <<"300000", "300000", "299999.999999999999999999">>}
Setups == {[stakes |-> s, registered |-> [i \in 1..Len(s) |-> i # unreg], emission |-> e, minrel |-> r, maxv |-> mv, unstake |-> ue]
             : s \in StakeSets, unreg \in {0, 2, 3}, e \in {"100", "0.333333333333333333", "1000000", "0.000000000000000001"},
               r \in {"0.8", "1", "0"}, mv \in {1, 2, 3}, ue \in {1, 2}}
NV == Len(setup.stakes)
XrdClasses == {"sub", "tiny", "one", "mid", "odd", "bucket", "eq", "third"}
UnitClasses == {"sub", "tiny", "half", "third", "all", "over", "last"}
OpsOf(kind) ==
  CASE kind \in {"s", "s2"} -> {[op |-> "stake", v |-> v, u |-> u, amt |-> c] : v \in 1..NV, u \in {1, 2}, c \in XrdClasses}
    [] kind \in {"u", "u2"} -> {[op |-> "unstake", v |-> v, u |-> u, amt |-> c] : v \in 1..NV, u \in {1, 2}, c \in UnitClasses}
    [] kind = "c" -> {[op |-> "claim", v |-> v, u |-> u, amt |-> c] : v \in 1..NV, u \in {1, 2}, c \in {"ripe", "any", "first"}}
    [] kind = "o" -> {[op |-> o, v |-> v] : v \in 1..NV, o \in {"register", "unregister"}}
                       \cup {[op |-> "update_fee", v |-> v, fee |-> f] : v \in 1..NV, f \in {"0", "0.05", "1", "1.5"}}
    [] kind = "r" -> {[op |-> "round", leader |-> ld, gap |-> g, skip |-> sk, fallback |-> fb] :
                          ld \in 0..2, g \in 0..1, sk \in 0..2, fb \in BOOLEAN}
    [] kind \in {"e", "e2"} -> {[op |-> "epoch", leader |-> ld, gap |-> g, skip |-> 1, fallback |-> FALSE] : ld \in 0..1, g \in 0..1}
Kinds == {"s", "s2", "u", "u2", "c", "o", "r", "e", "e2"}
GInit == setup \in Setups /\ hist = <<>> /\ pending = "" /\ done = FALSE
Pick == /\ ~done /\ Len(hist) < K /\ pending = "" /\ pending' \in Kinds /\ UNCHANGED <<setup, hist, done>>
Fill == /\ ~done /\ pending # ""
        /\ \E o \in OpsOf(pending) : hist' = Append(hist, o)
        /\ pending' = "" /\ UNCHANGED <<setup, done>>
Finish == /\ ~done /\ Len(hist) = K /\ done' = TRUE /\ UNCHANGED <<setup, hist, pending>>
GNext == Pick \/ Fill \/ Finish
GSpec == GInit /\ [][GNext]_gvars
Emit == done => PrintT(<<"B", ToJson([stakes |-> setup.stakes, registered |-> setup.registered, emission |-> setup.emission,
                                      minrel |-> setup.minrel, maxv |-> setup.maxv, unstake |-> setup.unstake, ops |-> hist])>>)
=============================================================================

---------------------------- MODULE GenValidator ----------------------------
(* G' for C42: TLC generates only the INPUTS - a genesis configuration (validator stakes around the
   100k-XRD bucket boundaries, registered flags, emission per epoch, minimum reliability,
   max_validators, unbonding epochs) and a sequence of K operations: stake / unstake / claim_xrd /
   register / unregister / update_fee as user transactions, next-round system transactions with
   proposal histories (leader, gap rounds, fallback) and epoch changes.  Amounts are classes the
   harness resolves against the real state (XRD: sub = 1 atto | tiny | one | mid | odd | bucket =
   100 000 | eq = the validator's stake | third | all;  units: sub | tiny | half | third | all |
   over | last = what the user's last stake minted).  What the real blueprints did is recorded and
   decided by TraceValidator.tla.  Run with -simulate (seeded); an operation is chosen in two steps
   (kind, then arguments).                                                                     *)
EXTENDS Integers, Sequences, FiniteSets, TLC, Json
CONSTANTS K, Mode       \* Mode "sim": seeded simulation; "edge": the exhaustive boundary product below
VARIABLES setup, hist, pending, done
gvars == <<setup, hist, pending, done>>
StakeSets == {<<"250000", "130000.5", "120000", "90000">>,
              <<"1000", "999.999999999999999999", "1000">>,
              <<"100000", "199999.999999999999999999", "200000", "100000.000000000000000001">>,
              <<"7", "3", "0.000000000000000003", "1000000">>,
              <<"300000", "300000", "299999.999999999999999999">>}
Setups == {[stakes |-> s, registered |-> [i \in 1..Len(s) |-> i # unreg], emission |-> e, minrel |-> r, maxv |-> mv, unstake |-> ue]
             : s \in StakeSets, unreg \in {0, 2, 3}, e \in {"100", "0.333333333333333333", "1000000", "0.000000000000000001"},
               r \in {"0.8", "1", "0"}, mv \in {1, 2, 3}, ue \in {1, 2}}
NV == Len(setup.stakes)
XrdClasses == {"sub", "tiny", "one", "mid", "odd", "bucket", "eq", "third"}
UnitClasses == {"sub", "tiny", "half", "third", "all", "over", "last"}
OpsOf(kind) ==
  CASE kind \in {"s", "s2"} -> {[op |-> "stake", v |-> v, u |-> u, amt |-> c] : v \in 1..NV, u \in {1, 2}, c \in XrdClasses}
    [] kind \in {"u", "u2"} -> {[op |-> "unstake", v |-> v, u |-> u, amt |-> c] : v \in 1..NV, u \in {1, 2}, c \in UnitClasses}
    [] kind = "c" -> {[op |-> "claim", v |-> v, u |-> u, amt |-> c] : v \in 1..NV, u \in {1, 2}, c \in {"ripe", "any", "first"}}
    [] kind = "o" -> {[op |-> o, v |-> v] : v \in 1..NV, o \in {"register", "unregister"}}
                       \cup {[op |-> "update_fee", v |-> v, fee |-> f] : v \in 1..NV, f \in {"0", "0.05", "1", "1.5"}}
    [] kind = "r" -> {[op |-> "round", leader |-> ld, gap |-> g, skip |-> sk, fallback |-> fb] :
                          ld \in 0..2, g \in 0..1, sk \in 0..2, fb \in BOOLEAN}
    [] kind \in {"e", "e2"} -> {[op |-> "epoch", leader |-> ld, gap |-> g, skip |-> 1, fallback |-> FALSE] : ld \in 0..1, g \in 0..1}
Kinds == {"s", "s2", "u", "u2", "c", "o", "r", "e", "e2"}
\* ---- Mode "edge": nothing at a boundary is left to the random draw (the quick tier runs all of these)
Mk(s, reg, e, r, mv, ue) == [stakes |-> s, registered |-> reg, emission |-> e, minrel |-> r, maxv |-> mv, unstake |-> ue]
S1 == <<"250000", "130000.5", "120000", "90000">>
Reg4 == <<TRUE, TRUE, TRUE, FALSE>>
Rd(ld) == [op |-> "round", leader |-> ld, gap |-> 0, skip |-> 0, fallback |-> FALSE]
RdF(ld) == [op |-> "round", leader |-> ld, gap |-> 0, skip |-> 0, fallback |-> TRUE]
Ep(ld) == [op |-> "epoch", leader |-> ld, gap |-> 0, skip |-> 0, fallback |-> FALSE]
St(v, u, c) == [op |-> "stake", v |-> v, u |-> u, amt |-> c]
Un(v, u, c) == [op |-> "unstake", v |-> v, u |-> u, amt |-> c]
Cl(v, u, c) == [op |-> "claim", v |-> v, u |-> u, amt |-> c]
Own(o, v) == [op |-> o, v |-> v]
Fee(v, f) == [op |-> "update_fee", v |-> v, fee |-> f]
Skew(b) == IF b THEN <<Rd(0), Ep(0)>> ELSE <<>>          \* after an emission the unit price is not 1 any more
\* A: every genesis stake set (100k bucket boundaries, ties, dust) x max_validators 1..3: set selection after
\*    a bucket-crossing stake, unregistration, fee change (0 | 1 | invalid 1.5), re-registration
EdgeA == {[setup |-> Mk(s, [i \in 1..Len(s) |-> i # 3], "100", "0.8", mv, 1),
           ops |-> <<Rd(0), Ep(0), St(Len(s), 2, "bucket"), Own("unregister", 1), Fee(2, <<"0", "1", "1.5">>[mv]), Rd(0), Ep(0),
                     Own("register", 1), Own("register", 3), Rd(0), Ep(0)>>] : s \in StakeSets, mv \in 1..3}
\* B: stake -> unstake(exactly the minted units) -> claim, every XRD class x validator in / not in the set x unit price 1 / skewed
EdgeB == {[setup |-> Mk(S1, Reg4, "100", "0", 2, 1),
           ops |-> Skew(sk) \o <<St(v, 2, c), Un(v, 2, "last"), Rd(0), Ep(0), Rd(0), Ep(0), Cl(v, 2, "ripe")>>]
            : v \in {1, 4}, c \in XrdClasses \cup {"all", "=0"}, sk \in BOOLEAN}
\* C: every unit class of unstake, by a fresh staker and by the genesis holder
EdgeC == {[setup |-> Mk(S1, Reg4, "100", "0", 2, 1),
           ops |-> Skew(sk) \o <<St(v, 2, "mid"), Un(v, 2, c), Un(v, 1, c)>>] : v \in {1, 4}, c \in UnitClasses \cup {"=0"}, sk \in BOOLEAN}
\* D: claims one epoch too early, exactly at, and after the claim epoch (unbonding 1 and 2 epochs)
EdgeD == {[setup |-> Mk(S1, Reg4, "100", "0", 2, ue),
           ops |-> <<St(1, 2, "mid"), Un(1, 2, "half"), Un(1, 2, "tiny"), Cl(1, 2, "any"), Rd(0), Ep(0), Cl(1, 2, "any"), Rd(0), Ep(0),
                     Cl(1, 2, "first"), Cl(1, 2, "any")>>] : ue \in {1, 2}}
\* E: reliability exactly at / below / above the minimum x emission per epoch (1 atto, a repeating fraction, 100)
Pattern(p) == CASE p = "none" -> <<Rd(1), Ep(1)>>                                   \* leader 0 never proposed: counts as reliable
                [] p = "allmade" -> <<Rd(0), Rd(0), Ep(0)>>
                [] p = "threshold" -> <<Rd(0), Rd(0), Rd(0), RdF(0), Ep(0)>>          \* 4 made, 1 missed = 0.8
                [] p = "below" -> <<Rd(0), RdF(0), RdF(0), Ep(0)>>                    \* 2 made, 2 missed
EdgeE == {[setup |-> Mk(S1, Reg4, e, r, 2, 1), ops |-> Pattern(p) \o <<St(1, 2, "one"), Rd(0), Ep(0)>>]
            : p \in {"none", "allmade", "threshold", "below"}, r \in {"0", "0.8", "1"},
              e \in {"100", "0.000000000000000001", "0.333333333333333333"}}
\* F: a REGISTERED validator with ZERO stake must never be selected, whatever room the set has: registered at genesis with
\*    nothing staked | registered later with an empty vault | everything unstaked while registered | unregistered and
\*    registered again with an empty vault  x  max_validators 1..3 (3 leaves a free slot)  x  epoch change(s)
SZ == <<"250000", "0", "120000">>
SU == <<"250000", "1000", "120000">>
EdgeF == {[setup |-> Mk(SZ, <<TRUE, TRUE, TRUE>>, "100", "0", mv, 1), ops |-> <<Rd(0), Ep(0), Rd(0), Ep(0)>>] : mv \in 1..3}
    \cup {[setup |-> Mk(SZ, <<TRUE, FALSE, TRUE>>, "100", "0", mv, 1), ops |-> <<Own("register", 2), Rd(0), Ep(0), Rd(0), Ep(0)>>] : mv \in 1..3}
    \cup {[setup |-> Mk(SU, <<TRUE, TRUE, TRUE>>, "100", "0", mv, 1), ops |-> <<Un(2, 1, "all"), Rd(0), Ep(0), Rd(0), Ep(0)>>] : mv \in 1..3}
    \cup {[setup |-> Mk(SZ, <<TRUE, TRUE, TRUE>>, "100", "0", mv, 1),
            ops |-> <<Own("unregister", 2), Own("register", 2), Rd(0), Ep(0), St(2, 2, "one"), Un(2, 2, "all"), Rd(0), Ep(0)>>] : mv \in 1..3}
    \* (a member of the concluded set that unstakes everything is refilled by its emission / reward; with minimum
    \*  reliability 1 and a missed proposal it receives nothing, keeps a zero stake and must drop out although there is room)
    \cup {[setup |-> Mk(SU, <<TRUE, TRUE, TRUE>>, "100", "1", 3, 1), ops |-> <<Un(2, 1, "all"), RdF(2), Rd(0), Ep(0), Rd(0), Ep(0)>>]}
    \cup {[setup |-> Mk(<<"0", "0", "0">>, <<TRUE, TRUE, TRUE>>, "100", "0", mv, 1), ops |-> <<Rd(0), Ep(0), St(3, 2, "sub"), Rd(0), Ep(0)>>] : mv \in {1, 3}}
EdgeCases == EdgeA \cup EdgeB \cup EdgeC \cup EdgeD \cup EdgeE \cup EdgeF
GInit == IF Mode = "edge" THEN \E c \in EdgeCases : setup = c.setup /\ hist = c.ops /\ pending = "" /\ done = FALSE
         ELSE setup \in Setups /\ hist = <<>> /\ pending = "" /\ done = FALSE
Pick == /\ Mode = "sim" /\ ~done /\ Len(hist) < K /\ pending = "" /\ pending' \in Kinds /\ UNCHANGED <<setup, hist, done>>
Fill == /\ ~done /\ pending # ""
        /\ \E o \in OpsOf(pending) : hist' = Append(hist, o)
        /\ pending' = "" /\ UNCHANGED <<setup, done>>
Finish == /\ ~done /\ (Mode = "edge" \/ Len(hist) = K) /\ done' = TRUE /\ UNCHANGED <<setup, hist, pending>>
GNext == Pick \/ Fill \/ Finish
GSpec == GInit /\ [][GNext]_gvars
Emit == done => PrintT(<<"B", ToJson([stakes |-> setup.stakes, registered |-> setup.registered, emission |-> setup.emission,
                                      minrel |-> setup.minrel, maxv |-> setup.maxv, unstake |-> setup.unstake, ops |-> hist])>>)
=============================================================================

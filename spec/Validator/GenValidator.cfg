SPECIFICATION GSpec
CONSTANTS
  K = 25
INVARIANT Emit
CHECK_DEADLOCK FALSE

SPECIFICATION GSpec
CONSTANTS
  K = 25
  Mode = "sim"
INVARIANT Emit
CHECK_DEADLOCK FALSE

---------------------------- MODULE MCValidator ----------------------------
(* S for C42: Validator.tla over TLC integers, 3 validators, 2 users, small amounts, EVERY
   admissible rounding (minted units, claim amounts, emissions, rewards, units minted for the
   owner).  The active set is NOT chosen by the specification's ActiveSetOK here but by a model of
   the code's selection: registered validators with stake sit in an index ordered by 100k bucket
   (here: stake div 2) with arbitrary order inside a bucket; the first Scan entries are read,
   sorted by exact stake, the first maxv taken.  TLC checks that ActiveSetOK follows for every tie
   order - and (negative control, cfg MCValidatorExact) that ordering by EXACT stake does not when
   Scan is smaller than the number of candidates (DESIGN L7).                                 *)
EXTENDS Integers, Sequences, FiniteSets, TLC
CONSTANTS K, MaxV, Scan, Emission, XrdEach, GenesisSel
VARIABLES cfg, val, owner, held, xrd, claims, epoch, rewards, supply, aset, streak, nops, nid
vars == <<cfg, val, owner, held, xrd, claims, epoch, rewards, supply, aset, streak, nops, nid>>
IntPlus(a, b) == a + b
IntMinus(a, b) == a - b
IntTimes(a, b) == a * b
IntLE(a, b) == a <= b
IntBucket(s) == s \div 2
INSTANCE Validator WITH Z <- 0, One <- 1, Plus <- IntPlus, Minus <- IntMinus, Times <- IntTimes, LE <- IntLE,
                        Bucket <- IntBucket

RECURSIVE Perms(_)
Perms(S) == IF S = {} THEN {<<>>}
            ELSE UNION {LET rest == Perms(S \ {x}) IN {<<x>> \o p : p \in rest} : x \in S}
Min(a, b) == IF a < b THEN a ELSE b
\* the code's selection, all tie orders
AlgoSets(vs) ==
  LET cands == {v \in 1..3 : vs[v].reg /\ vs[v].stake > 0}
      index == {o \in Perms(cands) : \A i \in DOMAIN o : \A j \in DOMAIN o : i < j => IntBucket(vs[o[i]].stake) >= IntBucket(vs[o[j]].stake)}
  IN UNION {LET scanned == {o[i] : i \in 1..Min(Scan, Len(o))}
                sorted == {p \in Perms(scanned) : \A i \in DOMAIN p : \A j \in DOMAIN p : i < j => vs[p[i]].stake >= vs[p[j]].stake}
            IN {[i \in 1..Min(MaxV, Len(p)) |-> [v |-> p[i], stake |-> vs[p[i]].stake]] : p \in sorted}
            : o \in index}

Genesis == CASE GenesisSel = "a" -> {<<2, 3, 1>>}            \* genesis stakes of the three validators
             [] GenesisSel = "b" -> {<<2, 3, 3>>, <<4, 1, 0>>}
             [] GenesisSel = "c" -> {<<2, 2, 3>>}
Init == /\ cfg = [nv |-> 3, nu |-> 2, emission |-> Emission, maxv |-> MaxV, unstake |-> 1]
        /\ \E g \in Genesis : \E unreg \in {0, 3} :
             /\ val = [v \in 1..3 |-> [stake |-> g[v], su |-> g[v], pend |-> 0, reg |-> v # unreg]]
             /\ held = [u \in 1..2 |-> [v \in 1..3 |-> IF u = 1 THEN g[v] ELSE 0]]
        /\ owner = [v \in 1..3 |-> 0]
        /\ xrd = [u \in 1..2 |-> XrdEach]
        /\ claims = {} /\ epoch = 1 /\ rewards = 1
        /\ supply = 100
        /\ aset \in AlgoSets(val)
        /\ streak = [u |-> 0, v |-> 0, k |-> 0, m |-> 0, x |-> 0]
        /\ nops = 0 /\ nid = 0

Tick == nops < K /\ nops' = nops + 1
DoStake == Tick /\ nid' = nid /\ \E v \in Vals : \E u \in Usrs : \E x \in 1..xrd[u] : \E m \in 0..(x + 1) :
              Stake(v, u, x, m, 0, 0)
DoUnstake == Tick /\ nid' = nid + 1 /\ \E v \in Vals : \E u \in Usrs : \E units \in 1..held[u][v] : \E c \in 0..val[v].stake :
              Unstake(v, u, units, c, nid, 0, 0)
DoClaim == Tick /\ nid' = nid /\ \E v \in Vals : \E u \in Usrs :
              LET mine == {cl \in claims : cl.v = v /\ cl.u = u /\ cl.ep <= epoch} IN
              /\ mine # {}
              /\ \E ids \in {<<cl.id>> : cl \in mine} \cup {p \in Perms({cl.id : cl \in mine}) : Len(p) > 1} :
                    Claim(v, u, ids, 0, 0)
DoRegister == Tick /\ nid' = nid /\ \E v \in Vals : \E b \in BOOLEAN : val[v].reg # b /\ SetRegistered(v, b, 0, 0)
DoFee == Tick /\ nid' = nid /\ rewards < 2 /\ Quiet(1, 1)
\* candidates built from the state: only members of the concluded set can receive anything
RECURSIVE Prod(_, _)
Prod(S, i) == IF i = 0 THEN {<<>>} ELSE LET rest == Prod(S, i - 1) IN {Append(t, q) : t \in rest, q \in S[i]}
DoEpoch == /\ Tick /\ nid' = nid
           /\ \E em \in Prod([v \in Vals |-> IF InSet(aset, v) THEN 0..Emission ELSE {0}], 3) :
              \E rw \in Prod([v \in Vals |-> IF InSet(aset, v) THEN 0..rewards ELSE {0}], 3) :
              \E su2 \in Prod([v \in Vals |-> IF em[v] + rw[v] > 0 THEN val[v].su..(val[v].su + 2) ELSE {val[v].su}], 3) :
                 EpochEffects(em, rw, su2)
           /\ aset' \in AlgoSets(val')
Next == DoStake \/ DoUnstake \/ DoClaim \/ DoRegister \/ DoFee \/ DoEpoch
Spec == Init /\ [][Next]_vars

-----------------------------------------------------------------------------
Sum3(f) == f[1] + f[2] + f[3]
W2 == xrd[1] + xrd[2] + Sum3([v \in 1..3 |-> val[v].stake + val[v].pend])
\* value appears only as emission (= what the supply grows by); rewards only move out of the rewards vault
NoValueCreated == [][(W2)' - W2 = IF epoch' # epoch THEN (supply' - supply) + (rewards - rewards') ELSE 0]_vars
EmissionBound == [][IF epoch' # epoch THEN supply' >= supply /\ supply' - supply <= Emission /\ rewards' <= rewards
                    ELSE supply' <= supply]_vars
\* lemma behind NoGain: no operation makes existing stake units worth less
PriceMonotone == [][\A v \in Vals : val[v].stake > 0 /\ val[v].su > 0 =>
                        val'[v].su * val[v].stake <= val[v].su * val'[v].stake]_vars
ActiveSetChosenOK == [][epoch' # epoch => ActiveSetOK(aset', val')]_vars
\* stricter than the statement (and than the code): ordered by EXACT stake across the whole candidate set
ExactTopK == [][epoch' # epoch =>
                 \A e \in Vals : (val'[e].reg /\ val'[e].stake > 0 /\ ~InSet(aset', e)) =>
                      \A i \in DOMAIN aset' : val'[e].stake <= aset'[i].stake]_vars
\* NoGain says what it should: quantified over every admissible claim amount of an unstake of the minted units
NoGainMeaning == streak.k >= 1 =>
   \A c \in 0..(val[streak.v].stake) : UnstakeOK(streak.v, streak.u, streak.m, c) => c <= streak.x
ClosedFormAgrees == NoGain <=> NoGainMeaning
=============================================================================

SPECIFICATION Spec
CONSTANTS
  K = 4
  MaxV = 2
  Scan = 3
  Emission = 2
  XrdEach = 2
  GenesisSel = "a"
INVARIANTS SetStakesPositive NonNeg UnitsAreHeld ClaimsBacked NoGain ClosedFormAgrees
PROPERTIES NoValueCreated EmissionBound PriceMonotone ActiveSetChosenOK
CHECK_DEADLOCK FALSE

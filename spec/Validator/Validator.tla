----------------------------- MODULE Validator -----------------------------
(* C42.  Validator staking, unstaking, claims, emissions, rewards and the active validator set
   (radix-engine/src/blueprints/consensus_manager/{validator.rs, consensus_manager.rs}).

   Like Pools.tla the actions are NONDETERMINISTIC within what the property states and all
   inequalities are cross-multiplied; amounts are values of an abstract number system (attos of XRD
   / stake units): MCValidator instantiates it with TLC integers, TraceValidator with BigInt.

   State: per validator  stake (the stake vault), su (stake-unit supply), pend (pending-withdraw
   vault), reg (registered);  owner[v] stake units locked in the owner vault (where fee and reward
   units go);  held[u][v] stake units of user u;  xrd[u];  claims: the claim NFTs
   [id, v, u, amt, ep];  epoch;  rewards (the consensus manager's rewards vault);  supply (XRD
   total supply);  aset: the active set <<[v, stake]>> chosen by the last epoch change;
   streak: consecutive stakes of one user on one validator ("staking and immediately unstaking").  *)
EXTENDS Integers, Sequences, FiniteSets
CONSTANTS Z, One, Plus(_, _), Minus(_, _), Times(_, _), LE(_, _),
          Bucket(_)        \* stake -> bucket of the registered-validator index: min(65535, stake div 100 000 XRD), a TLC integer
VARIABLES cfg,             \* [nv, nu, emission (XRD per epoch), maxv (max validators), unstake (epochs)]
          val, owner, held, xrd, claims, epoch, rewards, supply, aset, streak
vvars == <<cfg, val, owner, held, xrd, claims, epoch, rewards, supply, aset, streak>>

Vals == 1..cfg.nv
Usrs == 1..cfg.nu
LT(a, b) == LE(a, b) /\ a # b
NoStreak == [u |-> 0, v |-> 0, k |-> 0, m |-> Z, x |-> Z]
RECURSIVE SumTo(_, _)
SumTo(f, i) == IF i = 0 THEN Z ELSE LET rest == SumTo(f, i - 1) IN Plus(rest, f[i])

-----------------------------------------------------------------------------
(* Every user transaction pays a fee from outside the modelled accounts; part of it lands in the
   rewards vault (fee >= 0), part is burnt (burn >= 0 leaves the total supply).                *)
Paid(fee, burn) == /\ LE(Z, fee) /\ LE(Z, burn)
                   /\ rewards' = Plus(rewards, fee) /\ supply' = Minus(supply, burn)

(* stake x XRD: m units are minted, not more than pro-rata:  m * stake <= x * su;
   an empty stake vault mints one unit per XRD (as coded).                                     *)
StakeOK(v, u, x, m) ==
  /\ LE(Z, x) /\ LE(x, xrd[u]) /\ LE(Z, m)
  /\ IF val[v].stake = Z THEN m = x
     ELSE LE(Times(m, val[v].stake), Times(x, val[v].su))
Stake(v, u, x, m, fee, burn) ==
  /\ StakeOK(v, u, x, m)
  /\ val' = [val EXCEPT ![v] = [@ EXCEPT !.stake = Plus(@, x), !.su = Plus(@, m)]]
  /\ held' = [held EXCEPT ![u] = [@ EXCEPT ![v] = Plus(@, m)]]
  /\ xrd' = [xrd EXCEPT ![u] = Minus(@, x)]
  /\ streak' = IF streak.u = u /\ streak.v = v
               THEN [streak EXCEPT !.k = @ + 1, !.m = Plus(@, m), !.x = Plus(@, x)]
               ELSE [u |-> u, v |-> v, k |-> 1, m |-> m, x |-> x]
  /\ Paid(fee, burn)
  /\ UNCHANGED <<cfg, owner, claims, epoch, aset>>

(* unstake `units`: they are burnt, c XRD move from the stake vault to the pending vault and a
   claim NFT for exactly c, claimable cfg.unstake epochs later, is issued;  c * su <= units * stake *)
UnstakeOK(v, u, units, c) ==
  /\ LE(Z, units) /\ LE(units, held[u][v]) /\ LE(Z, c)
  /\ IF val[v].su = Z THEN c = Z
     ELSE LE(Times(c, val[v].su), Times(units, val[v].stake))
Unstake(v, u, units, c, id, fee, burn) ==
  /\ UnstakeOK(v, u, units, c)
  /\ \A cl \in claims : cl.id # id
  /\ val' = [val EXCEPT ![v] = [@ EXCEPT !.stake = Minus(@, c), !.su = Minus(@, units), !.pend = Plus(@, c)]]
  /\ held' = [held EXCEPT ![u] = [@ EXCEPT ![v] = Minus(@, units)]]
  /\ claims' = claims \cup {[id |-> id, v |-> v, u |-> u, amt |-> c, ep |-> epoch + cfg.unstake]}
  /\ streak' = NoStreak
  /\ Paid(fee, burn)
  /\ UNCHANGED <<cfg, owner, xrd, epoch, aset>>

(* claim: only after the unbonding epochs, pays EXACTLY the claim amounts out of the pending vault *)
Claim(v, u, ids, fee, burn) ==
  LET mine == {cl \in claims : cl.v = v /\ cl.u = u /\ \E i \in DOMAIN ids : ids[i] = cl.id}
      amts == [i \in DOMAIN ids |-> (CHOOSE cl \in mine : cl.id = ids[i]).amt]
      paid == SumTo(amts, Len(ids))
  IN /\ Cardinality(mine) = Len(ids)                 \* all are his claims on v, no id twice
     /\ \A cl \in mine : cl.ep <= epoch
     /\ val' = [val EXCEPT ![v] = [@ EXCEPT !.pend = Minus(@, paid)]]
     /\ xrd' = [xrd EXCEPT ![u] = Plus(@, paid)]
     /\ claims' = claims \ mine
     /\ streak' = NoStreak
     /\ Paid(fee, burn)
     /\ UNCHANGED <<cfg, owner, held, epoch, aset>>

SetRegistered(v, b, fee, burn) ==
  /\ val' = [val EXCEPT ![v] = [@ EXCEPT !.reg = b]]
  /\ streak' = NoStreak
  /\ Paid(fee, burn)
  /\ UNCHANGED <<cfg, owner, held, xrd, claims, epoch, aset>>
\* update_fee, failed transactions, rounds inside an epoch: nothing modelled moves (fees aside)
Quiet(fee, burn) == Paid(fee, burn) /\ UNCHANGED <<cfg, val, owner, held, xrd, claims, epoch, aset, streak>>

-----------------------------------------------------------------------------
(* Epoch change.  em[v], rw[v]: emission / reward XRD added to validator v's stake vault; su2[v]:
   its stake-unit supply afterwards (units for the validator fee and for rewards go to the owner
   vault).  Only members of the concluded epoch's active set receive anything; emissions in total
   never exceed the configured amount and are exactly what is minted; rewards never exceed the
   rewards vault; units minted for the owner are worth no more than what was added
   (su2 * stake <= su * stake'  - existing stake units do not lose value).                     *)
InSet(set, v) == \E i \in DOMAIN set : set[i].v = v
EpochEffects(em, rw, su2) ==
  /\ \A v \in Vals : /\ LE(Z, em[v]) /\ LE(Z, rw[v])
                     /\ (em[v] # Z \/ rw[v] # Z) => InSet(aset, v)
                     /\ LE(val[v].su, su2[v])
                     /\ (em[v] = Z /\ rw[v] = Z) => su2[v] = val[v].su
                     /\ LE(Times(su2[v], val[v].stake), Times(val[v].su, Plus(val[v].stake, Plus(em[v], rw[v]))))
  /\ LE(SumTo(em, cfg.nv), cfg.emission)
  /\ LE(SumTo(rw, cfg.nv), rewards)
  /\ val' = [v \in Vals |-> [val[v] EXCEPT !.stake = Plus(@, Plus(em[v], rw[v])), !.su = su2[v]]]
  /\ owner' = [v \in Vals |-> Plus(owner[v], Minus(su2[v], val[v].su))]
  /\ rewards' = Minus(rewards, SumTo(rw, cfg.nv))
  /\ supply' = Plus(supply, SumTo(em, cfg.nv))
  /\ epoch' = epoch + 1
  /\ streak' = NoStreak
  /\ UNCHANGED <<cfg, held, xrd, claims>>

(* The active set: registered validators with non-zero stake, at most maxv, each listed with its
   current stake, in non-increasing stake order; nobody left out has a strictly higher 100k-XRD
   index bucket than somebody included (the granularity of the index the selection scans; exact
   stake ties inside one bucket may fall either way), and nobody is left out while there is room. *)
ActiveSetOK(set, vs) ==
  LET members == {set[i].v : i \in DOMAIN set} IN
  /\ Len(set) <= cfg.maxv /\ Cardinality(members) = Len(set)
  /\ \A i \in DOMAIN set : /\ set[i].v \in Vals
                           /\ vs[set[i].v].reg /\ LT(Z, vs[set[i].v].stake)
                           /\ set[i].stake = vs[set[i].v].stake
  /\ \A i \in DOMAIN set : \A j \in DOMAIN set : i < j => LE(set[j].stake, set[i].stake)
  /\ \A e \in Vals \ members :
        (vs[e].reg /\ LT(Z, vs[e].stake)) =>
           /\ Len(set) = cfg.maxv
           /\ \A i \in DOMAIN set : Bucket(vs[e].stake) <= Bucket(set[i].stake)
EpochChange(em, rw, su2, newset) ==
  /\ EpochEffects(em, rw, su2)
  /\ aset' = newset
  /\ ActiveSetOK(newset, val')

-----------------------------------------------------------------------------
(* Properties *)
NonNeg == /\ \A v \in Vals : LE(Z, val[v].stake) /\ LE(Z, val[v].su) /\ LE(Z, val[v].pend) /\ LE(Z, owner[v])
          /\ \A u \in Usrs : LE(Z, xrd[u]) /\ \A v \in Vals : LE(Z, held[u][v])
          /\ LE(Z, rewards)
\* every member of the stored active set was selected with a non-zero stake (the set records the stake at selection)
SetStakesPositive == \A i \in DOMAIN aset : LT(Z, aset[i].stake)
\* every stake unit is somebody's
UnitsAreHeld == \A v \in Vals : val[v].su = Plus(owner[v], SumTo([u \in Usrs |-> held[u][v]], cfg.nu))
\* the pending vault holds exactly the outstanding claims (every claim can be paid, nothing else is in there)
RECURSIVE SumClaims(_)
SumClaims(S) == IF S = {} THEN Z ELSE LET cl == CHOOSE cl \in S : TRUE
                                          rest == SumClaims(S \ {cl}) IN Plus(rest, cl.amt)
ClaimsBacked == \A v \in Vals : val[v].pend = SumClaims({cl \in claims : cl.v = v})
(* staking (k times in a row) and immediately unstaking never gains XRD: whatever an unstake of the
   minted units may be worth is at most the XRD staked.  Closed form: the amount x+1 is not payable,
   (x + 1) * su > m * stake  (amounts are whole attos).                                          *)
NoGain == (streak.k >= 1 /\ val[streak.v].su # Z) =>
            LT(Times(streak.m, val[streak.v].stake), Times(Plus(streak.x, One), val[streak.v].su))
=============================================================================

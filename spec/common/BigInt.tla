------------------------------- MODULE BigInt -------------------------------
(* Arbitrary-precision integers for TLC (whose own integers are 32-bit).
   A value is a record  [s |-> -1 | 0 | 1,  l |-> <<limbs>>]  with limbs base 10^4,
   little-endian, no high zero limb; zero is [s |-> 0, l |-> <<>>].  Every operator
   returns a normalised value, so TLA+ equality `=` is numeric equality on well-formed
   values (IsBig).  The Rust side of the representation is
   vh::util::limbs_from_le_bytes_signed (computed from the byte representation).

   Provided: addition, subtraction, multiplication, comparison, powers, and the
   *digit-level* operations that need no long division: division by a single-limb
   divisor (DivSmall/ModSmall), the low j decimal digits (LowDigits), trailing zeros.
   General division, roots and rounding are deliberately absent: specifications state
   them relationally (q*b <= a < (q+1)*b ...) and only check.

   Every recursive operator binds its recursive call once in a LET (TLC would otherwise
   re-evaluate it and become exponential).  No intermediate exceeds 2^31:
   limb*limb + carry < 10^8 + 10^4.                                                   *)
EXTENDS Integers, Sequences

BASE == 10000
BASEDIGITS == 4

-----------------------------------------------------------------------------
(* Naturals as limb sequences *)
NLimb(a, i) == IF i <= Len(a) THEN a[i] ELSE 0

RECURSIVE NNormAt(_, _)
NNormAt(a, n) == IF n = 0 THEN <<>>
                 ELSE IF a[n] # 0 THEN SubSeq(a, 1, n)
                 ELSE NNormAt(a, n - 1)
NNorm(a) == NNormAt(a, Len(a))

RECURSIVE NAddC(_, _, _, _)
NAddC(a, b, i, c) ==
  IF i > Len(a) /\ i > Len(b) THEN (IF c = 0 THEN <<>> ELSE <<c>>)
  ELSE LET s == NLimb(a, i) + NLimb(b, i) + c
           rest == NAddC(a, b, i + 1, s \div BASE)
       IN <<s % BASE>> \o rest
NAdd(a, b) == NAddC(a, b, 1, 0)

\* a - b for a >= b
RECURSIVE NSubB(_, _, _, _)
NSubB(a, b, i, br) ==
  IF i > Len(a) THEN <<>>
  ELSE LET d == a[i] - NLimb(b, i) - br
           rest == NSubB(a, b, i + 1, IF d < 0 THEN 1 ELSE 0)
       IN <<IF d < 0 THEN d + BASE ELSE d>> \o rest
NSub(a, b) == NNorm(NSubB(a, b, 1, 0))

\* -1, 0, 1 ; both normalised
RECURSIVE NCmpAt(_, _, _)
NCmpAt(a, b, i) == IF i = 0 THEN 0
                   ELSE IF a[i] < b[i] THEN -1
                   ELSE IF a[i] > b[i] THEN 1
                   ELSE NCmpAt(a, b, i - 1)
NCmp(a, b) == IF Len(a) < Len(b) THEN -1
              ELSE IF Len(a) > Len(b) THEN 1
              ELSE NCmpAt(a, b, Len(a))

\* a * d + c for one limb d
RECURSIVE NMulLimb(_, _, _, _)
NMulLimb(a, d, i, c) ==
  IF i > Len(a) THEN (IF c = 0 THEN <<>> ELSE <<c>>)
  ELSE LET s == a[i] * d + c
           rest == NMulLimb(a, d, i + 1, s \div BASE)
       IN <<s % BASE>> \o rest

RECURSIVE NMulR(_, _, _)
NMulR(a, b, j) ==
  IF j > Len(b) THEN <<>>
  ELSE LET rest == NMulR(a, b, j + 1)
           sh == IF rest = <<>> THEN <<>> ELSE <<0>> \o rest
       IN NAdd(NMulLimb(a, b[j], 1, 0), sh)
\* iterate over the shorter operand (fewer rows)
NMul(a, b) == IF a = <<>> \/ b = <<>> THEN <<>>
              ELSE IF Len(a) >= Len(b) THEN NNorm(NMulR(a, b, 1))
              ELSE NNorm(NMulR(b, a, 1))

\* division by a small divisor 1 <= d <= BASE: <<quotient limbs, remainder>>, from the top limb down
RECURSIVE NDivSmallAt(_, _, _)
NDivSmallAt(a, d, i) ==      \* processes limbs Len(a) .. i ; returns <<q limbs i..Len(a) little-endian, rem>>
  IF i > Len(a) THEN <<<<>>, 0>>
  ELSE LET hi == NDivSmallAt(a, d, i + 1)
           cur == hi[2] * BASE + a[i]
       IN <<<<cur \div d>> \o hi[1], cur % d>>
NDivSmall(a, d) == LET r == NDivSmallAt(a, d, 1) IN <<NNorm(r[1]), r[2]>>

NFromNat(n) == IF n = 0 THEN <<>>
               ELSE IF n < BASE THEN <<n>>
               ELSE IF n < BASE * BASE THEN <<n % BASE, n \div BASE>>
               ELSE <<n % BASE, (n \div BASE) % BASE, n \div (BASE * BASE)>>

Pow10Small(k) == CASE k = 0 -> 1 [] k = 1 -> 10 [] k = 2 -> 100 [] k = 3 -> 1000 [] k = 4 -> 10000

NPow10(n) == [i \in 1..(n \div BASEDIGITS) |-> 0] \o <<Pow10Small(n % BASEDIGITS)>>

\* |a| mod 10^j : the low j decimal digits
NLowDigits(a, j) ==
  LET full == j \div BASEDIGITS
      part == j % BASEDIGITS
  IN IF Len(a) <= full THEN a
     ELSE NNorm(SubSeq(a, 1, full) \o (IF part = 0 THEN <<>> ELSE <<a[full + 1] % Pow10Small(part)>>))

RECURSIVE NPow(_, _)
NPow(a, n) == IF n = 0 THEN <<1>>
              ELSE IF n = 1 THEN a
              ELSE LET h == NPow(a, n \div 2)
                       sq == NMul(h, h)
                   IN IF n % 2 = 0 THEN sq ELSE NMul(sq, a)

-----------------------------------------------------------------------------
(* Signed integers *)
Mk(s, l) == IF l = <<>> THEN [s |-> 0, l |-> <<>>] ELSE [s |-> s, l |-> l]
Zero == [s |-> 0, l |-> <<>>]
One  == [s |-> 1, l |-> <<1>>]

\* well-formedness of a value coming from outside (a recorded trace)
IsBig(x) == /\ x.s \in {-1, 0, 1}
            /\ \A i \in 1..Len(x.l) : x.l[i] \in 0..(BASE - 1)
            /\ (x.s = 0) = (x.l = <<>>)
            /\ (x.l # <<>> => x.l[Len(x.l)] # 0)

\* from a TLC integer (|n| < 2^31)
FromInt(n) == IF n = 0 THEN Zero
              ELSE IF n > 0 THEN [s |-> 1, l |-> NFromNat(n)]
              ELSE [s |-> -1, l |-> NFromNat(-n)]

Neg(x) == [s |-> -x.s, l |-> x.l]
Abs(x) == [s |-> IF x.s = 0 THEN 0 ELSE 1, l |-> x.l]
Sign(x) == x.s

Add(x, y) ==
  IF x.s = 0 THEN y
  ELSE IF y.s = 0 THEN x
  ELSE IF x.s = y.s THEN [s |-> x.s, l |-> NAdd(x.l, y.l)]
  ELSE LET c == NCmp(x.l, y.l)
       IN IF c = 0 THEN Zero
          ELSE IF c > 0 THEN [s |-> x.s, l |-> NSub(x.l, y.l)]
          ELSE [s |-> y.s, l |-> NSub(y.l, x.l)]
Sub(x, y) == Add(x, Neg(y))
Mul(x, y) == IF x.s = 0 \/ y.s = 0 THEN Zero ELSE [s |-> x.s * y.s, l |-> NMul(x.l, y.l)]

Cmp(x, y) == IF x.s # y.s THEN (IF x.s < y.s THEN -1 ELSE 1)
             ELSE IF x.s = 0 THEN 0
             ELSE x.s * NCmp(x.l, y.l)
Leq(x, y) == Cmp(x, y) <= 0
Lt(x, y)  == Cmp(x, y) < 0

Pow(x, n) == IF n = 0 THEN One
             ELSE IF x.s = 0 THEN Zero
             ELSE [s |-> IF x.s < 0 /\ n % 2 = 1 THEN -1 ELSE 1, l |-> NPow(x.l, n)]
Pow10(n) == [s |-> 1, l |-> NPow10(n)]
Pow2(n) == Pow(FromInt(2), n)

\* floor division / remainder of a NON-NEGATIVE x by a small divisor 1..10^4
DivSmall(x, d) == Mk(1, NDivSmall(x.l, d)[1])
ModSmall(x, d) == NDivSmall(x.l, d)[2]                \* a TLC integer 0..d-1

\* |x| mod 10^j  (non-negative)
LowDigits(x, j) == Mk(1, NLowDigits(x.l, j))

\* to a TLC integer; only for |x| < 10^8
ToInt(x) == x.s * (NLimb(x.l, 1) + BASE * NLimb(x.l, 2))
FitsInt(x) == Len(x.l) <= 2
=============================================================================

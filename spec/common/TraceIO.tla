------------------------------ MODULE TraceIO ------------------------------
(* Shared helpers for trace validation: the recorded ndjson trace (path in env TRACE),
   acceptance by diameter (one state per consumed event plus the initial state).     *)
EXTENDS Json, IOUtils, TLC, Sequences, Naturals, FiniteSets
Rec == ndJsonDeserialize(IOEnv.TRACE)
ToSet(s) == {s[i] : i \in DOMAIN s}
\* POSTCONDITION for stateful traces
TraceAccepted ==
  LET d == TLCGet("stats").diameter
  IN IF d - 1 = Len(Rec) THEN TRUE
     ELSE Print(<<"TRACE-REJECTED", d>>, FALSE)
=============================================================================

----------------------------- MODULE TestBigInt -----------------------------
(* Self-test of BigInt.tla: cases computed with Python integers (used ONLY to test this
   library, never as an oracle for the repository) are re-evaluated by TLC.           *)
EXTENDS BigInt, TraceIO
VARIABLE l
Ok(ev) ==
  /\ IsBig(ev.x) /\ IsBig(ev.y) /\ IsBig(ev.r)
  /\ CASE ev.a = "add" -> Add(ev.x, ev.y) = ev.r
       [] ev.a = "sub" -> Sub(ev.x, ev.y) = ev.r
       [] ev.a = "mul" -> Mul(ev.x, ev.y) = ev.r
       [] ev.a = "cmp" -> FromInt(Cmp(ev.x, ev.y)) = ev.r
       [] ev.a = "neg" -> Neg(ev.x) = ev.r /\ Abs(ev.x) = ev.y
       [] ev.a = "pow" -> Pow(ev.x, ev.n) = ev.r
       [] ev.a = "pow10" -> Pow10(ev.n) = ev.r
       [] ev.a = "pow2" -> Pow2(ev.n) = ev.r
       [] ev.a = "divsmall" -> DivSmall(ev.x, ev.n) = ev.r /\ FromInt(ModSmall(ev.x, ev.n)) = ev.y
       [] ev.a = "low" -> LowDigits(ev.x, ev.n) = ev.r
       [] ev.a = "fromint" -> FromInt(ev.n) = ev.r
       [] ev.a = "toint" -> FitsInt(ev.x) /\ ToInt(ev.x) = ev.n
       [] OTHER -> FALSE
TInit == l = 1
TNext == l <= Len(Rec) /\ (IF Ok(Rec[l]) THEN TRUE ELSE PrintT(<<"BAD", l>>)) /\ l' = l + 1
TSpec == TInit /\ [][TNext]_l
Post == PrintT(<<"DONE", TLCGet("stats").diameter - 1>>)
=============================================================================

#!/usr/bin/env python3
"""Self-test of spec/common/BigInt.tla: ~2000 random cases (plus boundary cases) computed with
Python integers and re-evaluated by TLC (TestBigInt.tla).  Python arithmetic is used ONLY to test
the TLA+ library; it is never an oracle for the repository.  Also checks that a corrupted
expected value is rejected.

  python3 spec/common/bigint_selftest.py [seed] [n]     exit 0 = library agrees on all cases"""
import os, random, sys
sys.path.insert(0, os.path.join(os.path.dirname(os.path.abspath(__file__)), "..", "..", "lib"))
import core


def big(n):
    s = (n > 0) - (n < 0)
    n = abs(n)
    l = []
    while n:
        l.append(n % 10000)
        n //= 10000
    return {"s": s, "l": l}


def rnd(rng, maxbits=520):
    bits = rng.choice([0, 1, 2, 8, 13, 14, 27, 31, 64, 128, 191, 192, 255, 256, 384, 512, rng.randrange(maxbits)])
    v = rng.getrandbits(bits) if bits else 0
    k = rng.random()
    if k < 0.15:
        v = 10 ** rng.randrange(0, 150)
    elif k < 0.25:
        v = 10 ** rng.randrange(0, 150) - 1
    elif k < 0.32:
        v = 2 ** rng.randrange(0, 520) + rng.choice([-1, 0, 1])
    elif k < 0.40:
        v = v * 10 ** rng.randrange(0, 60)
    return v if rng.random() < 0.5 else -v


def cases(seed, n):
    rng = random.Random(seed)
    z = big(0)
    ev = []
    for _ in range(n):
        a, b = rnd(rng), rnd(rng)
        if rng.random() < 0.1:
            b = a + rng.choice([-1, 0, 1])
        if rng.random() < 0.05:
            b = -a + rng.choice([-1, 0, 1])
        op = rng.choice(["add", "sub", "mul", "cmp", "neg", "pow", "pow10", "pow2", "divsmall", "low", "fromint", "toint"])
        if op == "add":
            ev.append({"a": op, "x": big(a), "y": big(b), "r": big(a + b)})
        elif op == "sub":
            ev.append({"a": op, "x": big(a), "y": big(b), "r": big(a - b)})
        elif op == "mul":
            ev.append({"a": op, "x": big(a), "y": big(b), "r": big(a * b)})
        elif op == "cmp":
            ev.append({"a": op, "x": big(a), "y": big(b), "r": big((a > b) - (a < b))})
        elif op == "neg":
            ev.append({"a": op, "x": big(a), "y": big(abs(a)), "r": big(-a)})
        elif op == "pow":
            a = rnd(rng, 80)
            e = rng.randrange(0, 12)
            ev.append({"a": op, "x": big(a), "y": z, "n": e, "r": big(a ** e)})
        elif op == "pow10":
            e = rng.randrange(0, 200)
            ev.append({"a": op, "x": z, "y": z, "n": e, "r": big(10 ** e)})
        elif op == "pow2":
            e = rng.randrange(0, 520)
            ev.append({"a": op, "x": z, "y": z, "n": e, "r": big(2 ** e)})
        elif op == "divsmall":
            d = rng.choice([1, 2, 4, 5, 7, 10, 100, 400, 9999, 10000, rng.randrange(1, 10001)])
            a = abs(a)
            ev.append({"a": op, "x": big(a), "y": big(a % d), "n": d, "r": big(a // d)})
        elif op == "low":
            j = rng.randrange(0, 90)
            ev.append({"a": op, "x": big(a), "y": z, "n": j, "r": big(abs(a) % 10 ** j)})
        elif op == "fromint":
            v = rng.choice([0, 1, -1, 9999, 10000, -10000, 99999999, 100000000, 2 ** 31 - 1, -(2 ** 31) + 1,
                            rng.randrange(-2 ** 31 + 1, 2 ** 31)])
            ev.append({"a": op, "x": z, "y": z, "n": v, "r": big(v)})
        else:
            v = rng.randrange(-10 ** 8 + 1, 10 ** 8)
            ev.append({"a": op, "x": big(v), "y": z, "n": v, "r": z})
    return ev


def run(seed=1, n=2000, chunks=8):
    """Returns (number of cases, list of failing indices, corrupted-case-rejected)."""
    ev = cases(seed, n)
    bad = core.validate_calls("common", "TestBigInt", ev, "bigint-selftest", chunks=chunks)
    # binding of the self-test itself: a wrong expected value must be rejected
    cor = [dict(e) for e in ev[:60] if e["a"] in ("add", "sub", "mul")]
    for e in cor:
        r = e["r"]
        v = sum(d * 10000 ** i for i, d in enumerate(r["l"])) * r["s"] + 1
        e["r"] = big(v)
    badc = core.validate_calls("common", "TestBigInt", cor, "bigint-selftest-c", chunks=1)
    return len(ev), bad, len(badc) == len(cor)


if __name__ == "__main__":
    seed = int(sys.argv[1]) if len(sys.argv) > 1 else 1
    n = int(sys.argv[2]) if len(sys.argv) > 2 else 2000
    os.makedirs(core.WORK, exist_ok=True)
    total, bad, rejected = run(seed, n)
    print("BigInt self-test: %d cases, %d disagreements, corrupted cases rejected: %s" % (total, len(bad), rejected))
    for i in bad[:10]:
        print("  disagreement at case", i, cases(seed, n)[i])
    sys.exit(0 if not bad and rejected else 1)

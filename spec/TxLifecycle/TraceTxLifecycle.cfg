SPECIFICATION TSpec
INVARIANT AtMostOneOpen
POSTCONDITION TraceAccepted
CHECK_DEADLOCK FALSE

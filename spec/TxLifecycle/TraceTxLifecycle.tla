---------------------------- MODULE TraceTxLifecycle ----------------------------
(* T: the recorded Submit / Receipt / Panic stream of the harness.  Every event must be an action
   of TxLifecycle on the (unbounded) set of recorded transaction ids; the forbidden observations
   (Panic, receipt carrying a native trap, unknown receipt class) are reported as BAD events and
   consumed so that all of them are found; a structural break (receipt without submit, second
   receipt, unanswered submit at End) rejects the trace.                                     *)
EXTENDS Integers, FiniteSets, Sequences, TLC, TraceIO
Classes == {"CommitSuccess", "CommitFailure", "Reject", "Abort", "NotExecutable"}
\* the one native function that panics on purpose: TestUtils::panic(message) of the test-utils package
IntendedTrapExports == {"panic"}
AllowedReceipt(cls, trap, export) == cls \in Classes /\ (trap => export \in IntendedTrapExports)
VARIABLES l, open, last
tvars == <<l, open, last>>
Ev == Rec[l]
TInit == l = 1 /\ open = {} /\ last = -1
TSubmit == /\ Ev.a = "Submit" /\ Ev.id > last /\ Ev.id \notin open
           /\ open' = open \cup {Ev.id} /\ last' = Ev.id
TReceipt == /\ Ev.a = "Receipt" /\ Ev.id \in open
            /\ (IF AllowedReceipt(Ev.cls, Ev.trap, Ev.export) THEN TRUE ELSE PrintT(<<"BAD", l>>))
            /\ open' = open \ {Ev.id} /\ UNCHANGED last
TPanic == /\ Ev.a = "Panic" /\ Ev.id \in open
          /\ PrintT(<<"BAD", l>>)
          /\ open' = open \ {Ev.id} /\ UNCHANGED last
TEnd == Ev.a = "End" /\ open = {} /\ UNCHANGED <<open, last>>
TNext == l <= Len(Rec) /\ (TSubmit \/ TReceipt \/ TPanic \/ TEnd) /\ l' = l + 1
TSpec == TInit /\ [][TNext]_tvars
AtMostOneOpen == Cardinality(open) <= 1        \* the harness executes synchronously
=============================================================================

SPECIFICATION Spec
CONSTANTS
  Txs = {1, 2, 3}
INVARIANTS AtMostOneReceipt ReceiptIffDone NoReceiptBeforeSubmit EveryClassAllowed
PROPERTY Answered
CHECK_DEADLOCK FALSE

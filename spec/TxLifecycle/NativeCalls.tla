------------------------------ MODULE NativeCalls ------------------------------
(* C11, input space.  TEST PURPOSES over the catalog of functions and methods that the harness
   read from the package definitions in the database (IOEnv.CATALOG: for every function its
   package, blueprint, name, receiver kind, the state classes in which a receiver exists and
   the paths of its input type tree with the kind found there).

   purpose = (function) x (argument mutation operator at a path of the input, variant)
             x (ledger state class) x (authorisation class)
   Operators:
     nominal       well-typed nominal arguments
   The EDGE operators (boundary, arity, dangling, wrongres) are never subsampled: every path of the
   input type x every variant of the harness table; only the bulk operator (wrongkind) is capped.
     boundary      well-typed boundary value at the path (0/1/MAX/MIN integers, 0/1 atto/MAX/
                   negative/MIN amounts, empty / over-long strings and byte arrays, empty /
                   duplicated / large collections, every enum variant, nesting at the depth
                   limit for `Any`, empty bucket, foreign addresses)
     wrongkind     a value of another kind at the path (unit, string, u8, decimal, bad enum
                   discriminator, nested arrays, empty map)
     arity         a tuple / enum variant with a missing or an extra field
     dangling      dangling or consumed bucket / proof / reservation ids, non-existent, wrong-type,
                   foreign or internal addresses, never-allocated named addresses
     wrongres      bucket / proof of another resource kind (non-fungible, empty, other fungible)
     cross         boundary amount at a Decimal path x every variant of a mode-like enum of the same input
     twice         the call repeated in the same transaction (ids consumed by the first call)
     proofthenuse  a live proof of every bucket created before the buckets are passed
   The concrete values behind (operator, kind, variant) are a fixed table of the harness.   *)
EXTENDS Integers, Sequences, FiniteSets, TLC, Json, IOUtils
CONSTANTS States,        \* state classes used for the bulk part: subset of {"genesis", "rich"}
          Auths,         \* authorisation classes of the bulk part: subset of {"none", "owner", "system", "noauth"}
                         \* ("noauth" = auth module off: what any holder of the right badges can reach)
          EdgeStates,    \* state / authorisation classes in which the EDGE operators (boundary, arity,
          EdgeAuths,     \* dangling, wrongres) are applied - always at EVERY path with EVERY variant
          MaxPaths,      \* bulk operator (wrongkind): paths used per function    (0 = all)
          MaxVariants    \* bulk operator (wrongkind): variants used per path      (0 = all)
VARIABLE f

Cat == JsonDeserialize(IOEnv.CATALOG).fns
N == Len(Cat)

PathOps == {"boundary", "wrongkind", "arity", "dangling", "wrongres"}
CallOps == {"nominal", "twice", "proofthenuse"}
Applicable(op, kind) ==
  CASE op = "boundary" -> kind \in {"bool", "sint", "uint", "string", "bytes", "array", "map", "enum", "any",
                                    "decimal", "pdecimal", "nflid", "ref", "bucket"}
    [] op = "wrongkind" -> TRUE
    [] op = "arity" -> kind \in {"tuple", "enum"}
    [] op = "dangling" -> kind \in {"bucket", "proof", "reservation", "ref", "own"}
    [] op = "wrongres" -> kind \in {"bucket", "proof"}
\* number of variants of the harness table
NVariants(op, kind) ==
  CASE op = "wrongkind" -> 7
    [] op = "arity" -> 2
    [] op = "wrongres" -> IF kind = "bucket" THEN 4 ELSE 3
    [] op = "dangling" -> CASE kind = "ref" -> 5 [] kind = "reservation" -> 2 [] kind = "own" -> 1 [] OTHER -> 3
    [] op = "boundary" -> CASE kind \in {"sint", "uint", "bytes", "any", "pdecimal"} -> 4
                            [] kind = "decimal" -> 16 [] kind \in {"string", "nflid"} -> 5
                            [] kind \in {"array", "map"} -> 3 [] kind = "bool" -> 2
                            [] kind = "enum" -> 6 [] OTHER -> 1
Cap(n, m) == IF m = 0 \/ n <= m THEN n ELSE m

HasKind(e, kind) == \E i \in DOMAIN e.paths : e.paths[i].k = kind
Callable(e) == e.states # <<>>
StatesOf(e) == {e.states[i] : i \in DOMAIN e.states} \cap States

EdgeOps == {"boundary", "arity", "dangling", "wrongres"}      \* never subsampled
BulkOps == {"wrongkind"}
\* indices of the paths of e to which op applies (bulk operators: the first MaxPaths of them)
PathsFor(e, op) ==
  LET idx == {i \in DOMAIN e.paths : Applicable(op, e.paths[i].k)}
  IN IF MaxPaths = 0 \/ op \in EdgeOps THEN idx ELSE {i \in idx : Cardinality({j \in idx : j < i}) < MaxPaths}
VariantsFor(op, kind) == IF op \in EdgeOps THEN NVariants(op, kind) ELSE Cap(NVariants(op, kind), MaxVariants)

\* "noauth" switches the auth module off: what a holder of the right badges could reach.  Methods that
\* only the blueprint's own package / outer object may call (and root-only functions) have no such
\* holder - no transaction can be their caller - so they are not combined with "noauth".
AuthsFor(e, A) == LET B == IF e.access \in {"ownpkg", "outer", "root"} THEN A \ {"noauth"} ELSE A
                  IN IF B = {} THEN {"owner"} ELSE B
\* the edge operators use EdgeStates where the function has a receiver there, else wherever it has one
EdgeStatesOf(e) == LET S == {e.states[i] : i \in DOMAIN e.states} IN IF S \cap EdgeStates # {} THEN S \cap EdgeStates ELSE S
\* boundary of an enum = each of its variants in turn (the catalog gives the number of variants)
VariantsAt(e, op, i) == IF op = "boundary" /\ e.paths[i].k = "enum" THEN (IF e.paths[i].n > 0 THEN e.paths[i].n ELSE 1)
                        ELSE VariantsFor(op, e.paths[i].k)
ForOp(e, op, SS, AA) ==
  UNION {{[f |-> e.f, op |-> op, path |-> e.paths[i].p, kind |-> e.paths[i].k, k |-> k, state |-> s, auth |-> a] :
            k \in 0..(VariantsAt(e, op, i) - 1), s \in SS, a \in AA}
         : i \in PathsFor(e, op)}
\* "cross": every boundary amount at a Decimal path x EVERY variant of every mode-like enum (all variants
\* field-less: rounding modes, withdraw strategies' modes, ...) of the same input - never subsampled
Cross(e, SS, AA) ==
  UNION {UNION {{[f |-> e.f, op |-> "cross", path |-> e.paths[i].p, kind |-> "decimal", k |-> k,
                  path2 |-> e.paths[j].p, k2 |-> k2, state |-> s, auth |-> a] :
                   k \in 0..(NVariants("boundary", "decimal") - 1), k2 \in 0..(e.paths[j].n - 1), s \in SS, a \in AA}
                : j \in {j \in DOMAIN e.paths : e.paths[j].k = "enum" /\ e.paths[j].unit /\ e.paths[j].n > 1}}
         : i \in {i \in DOMAIN e.paths : e.paths[i].k = "decimal"}}
Purposes(e) ==
  UNION {ForOp(e, op, EdgeStatesOf(e), AuthsFor(e, EdgeAuths)) : op \in EdgeOps}
  \cup Cross(e, EdgeStatesOf(e), AuthsFor(e, EdgeAuths \cup {"owner"}))
  \cup UNION {ForOp(e, op, StatesOf(e), AuthsFor(e, Auths)) : op \in BulkOps}
  \cup {[f |-> e.f, op |-> op, path |-> <<>>, kind |-> "call", k |-> k, state |-> s, auth |-> a] :
          op \in {o \in CallOps : o # "proofthenuse" \/ HasKind(e, "bucket")}, k \in 0..1,
          s \in StatesOf(e) \cup EdgeStatesOf(e), a \in AuthsFor(e, Auths \cup EdgeAuths)}

Init == f \in 1..N
Next == FALSE /\ UNCHANGED f
Spec == Init /\ [][Next]_f

RECURSIVE SeqOfSet(_)
SeqOfSet(S) == IF S = {} THEN <<>> ELSE LET e == CHOOSE e \in S : TRUE IN <<e>> \o SeqOfSet(S \ {e})
Emit == LET e == Cat[f] IN
        IF Callable(e) THEN PrintT(<<"B", ToJson([f |-> e.f, bp |-> e.bp, ident |-> e.ident, purposes |-> SeqOfSet(Purposes(e))])>>)
        ELSE PrintT(<<"U", ToJson([f |-> e.f, bp |-> e.bp, ident |-> e.ident])>>)

\* non-vacuity of the generator: every callable function gets purposes, every operator is used
ASSUME N > 100
ASSUME \A op \in PathOps : \E i \in 1..N : Callable(Cat[i]) /\ \E j \in DOMAIN Cat[i].paths : Applicable(op, Cat[i].paths[j].k)
ASSUME \A i \in 1..N : Cat[i].f = i
=============================================================================

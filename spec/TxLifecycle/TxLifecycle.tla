------------------------------ MODULE TxLifecycle ------------------------------
(* C11.  The life cycle of a transaction handed to the engine
   (radix-engine/src/transaction/transaction_executor.rs execute_transaction,
    system_callback.rs create_receipt, vm/native_vm.rs).

   Every submitted transaction ends in exactly one receipt whose class is one of
       CommitSuccess | CommitFailure | Reject | Abort
   (NotExecutable: the transaction was refused before execution by preparation/validation -
   also an orderly answer).  Two observations are FORBIDDEN by the property and are therefore
   not actions of this specification:
     * Panic(i)            - the host process panicked while executing i (this includes the
                             engine's deliberate re-panic on SystemError::SystemPanic);
     * a receipt whose error is VmError::Native(NativeRuntimeError::Trap) - a native blueprint
       panicked and the native VM turned the panic into a trap ("native blueprints never trap").
   All other RuntimeError classes (ApplicationError incl. PanicMessage of Scrypto code,
   SystemError, SystemModuleError, KernelError, SystemUpstreamError, VmError::Wasm ...) are
   legitimate failures: the statement only excludes panics and native traps.               *)
EXTENDS Integers, FiniteSets, Sequences, TLC
CONSTANT Txs
VARIABLES status,      \* [Txs -> "new" | "submitted" | "done"]
          receipts     \* sequence of <<tx, class>> issued so far
vars == <<status, receipts>>

Classes == {"CommitSuccess", "CommitFailure", "Reject", "Abort", "NotExecutable"}
AllowedReceipt(cls, trap) == cls \in Classes /\ ~trap

Init == status = [t \in Txs |-> "new"] /\ receipts = <<>>
Submit(t) == /\ status[t] = "new"
             /\ status' = [status EXCEPT ![t] = "submitted"]
             /\ UNCHANGED receipts
Receipt(t, cls) == /\ status[t] = "submitted"
                   /\ AllowedReceipt(cls, FALSE)
                   /\ status' = [status EXCEPT ![t] = "done"]
                   /\ receipts' = Append(receipts, <<t, cls>>)
Next == \E t \in Txs : Submit(t) \/ \E cls \in Classes : Receipt(t, cls)
Spec == Init /\ [][Next]_vars /\ \A t \in Txs : WF_vars(\E cls \in Classes : Receipt(t, cls))

ReceiptsOf(t) == {i \in DOMAIN receipts : receipts[i][1] = t}
AtMostOneReceipt == \A t \in Txs : Cardinality(ReceiptsOf(t)) <= 1
ReceiptIffDone == \A t \in Txs : (status[t] = "done") <=> (Cardinality(ReceiptsOf(t)) = 1)
NoReceiptBeforeSubmit == \A t \in Txs : status[t] = "new" => ReceiptsOf(t) = {}
EveryClassAllowed == \A i \in DOMAIN receipts : receipts[i][2] \in Classes
\* every submitted transaction is eventually answered
Answered == \A t \in Txs : (status[t] = "submitted") ~> (status[t] = "done")
=============================================================================

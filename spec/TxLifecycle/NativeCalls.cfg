SPECIFICATION Spec
CONSTANTS
  States = {"genesis", "rich"}
  Auths = {"owner"}
  EdgeStates = {"rich"}
  EdgeAuths = {"noauth"}
  MaxPaths = 1
  MaxVariants = 2
INVARIANT Emit
CHECK_DEADLOCK FALSE

SPECIFICATION Spec
CONSTANTS
  States = {"genesis", "rich"}
  Auths = {"owner"}
  MaxPaths = 1
  MaxVariants = 2
INVARIANT Emit
CHECK_DEADLOCK FALSE

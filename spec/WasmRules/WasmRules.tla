------------------------------ MODULE WasmRules ------------------------------
(* C45.  Validation of package code (radix-engine/src/vm/wasm/prepare.rs,
   wasm_validator.rs: ScryptoV1WasmValidator::validate).

   Two descriptor levels:
     * the STRUCTURAL descriptor  s  — what any wasm binary looks like through a parser
       (imports with signatures, memories, tables, counts and maxima, exports ...).  The rules
       of the validator, the statement of the property (Sandbox) and the post-condition of the
       instrumentation (PostOK) are all written over  s.  The harness projects real binaries
       (rendered test modules, fuzzed inputs, repository blobs, instrumented outputs) to  s.
     * the GENERATIVE descriptor  d  — a small recipe TLC varies around the limits; the harness
       renders it to WAT.  Struct(d) is the structural descriptor the rendered module must
       have, Extra(d) the facts that are not structural (validity under the enabled WebAssembly
       feature set, export-name syntax, segment bounds), Instr(s) the structural descriptor
       of the instrumented output.

   Limits are read from radix-common/src/constants/wasm.rs and wasm_validator_config.rs.     *)
EXTENDS Integers, Sequences, FiniteSets, TLC

MaxMemPages  == 64        \* MAX_MEMORY_SIZE_IN_PAGES
MaxTableInit == 1024      \* MAX_INITIAL_TABLE_SIZE
MaxBrTable   == 256       \* MAX_NUMBER_OF_BR_TABLE_TARGETS (excluding the default)
MaxFunctions == 8192      \* MAX_NUMBER_OF_FUNCTIONS
MaxParams    == 32        \* MAX_NUMBER_OF_FUNCTION_PARAMS
MaxLocals    == 256       \* MAX_NUMBER_OF_FUNCTION_LOCALS
MaxGlobals   == 512       \* MAX_NUMBER_OF_GLOBALS
StackLimit   == 1024      \* WasmValidatorConfigV1::max_stack_size
PageSize     == 65536
Versions     == 0..2      \* ScryptoVmVersion V1_0, V1_1 (crypto utils v1), V1_2 (crypto utils v2)

Rep(x, k) == IF k = 0 THEN <<>> ELSE [i \in 1..k |-> x]
RECURSIVE SeqOfSet(_)
SeqOfSet(S) == IF S = {} THEN <<>>
               ELSE LET e == CHOOSE e \in S : TRUE IN <<e>> \o SeqOfSet(S \ {e})
Max2(a, b) == IF a >= b THEN a ELSE b
ToSetS(q) == {q[i] : i \in DOMAIN q}

-----------------------------------------------------------------------------
(* The permitted host imports: module "env", name, exact signature, first VM version.
   (enforce_import_constraints; the gas function "env"."gas" is NOT importable by packages.) *)
H(np, r, v) == [p |-> Rep("i32", np), r |-> r, v |-> v]
None == <<>>
I32 == <<"i32">>
I64 == <<"i64">>
Host == [
  buffer_consume |-> H(2, None, 0),
  object_call |-> H(6, I64, 0),
  object_call_module |-> H(7, I64, 0),
  object_call_direct |-> H(6, I64, 0),
  blueprint_call |-> H(8, I64, 0),
  kv_store_open_entry |-> H(5, I32, 0),
  kv_entry_read |-> H(1, I64, 0),
  kv_entry_write |-> H(3, None, 0),
  kv_entry_remove |-> H(1, I64, 0),
  kv_entry_close |-> H(1, None, 0),
  kv_store_remove_entry |-> H(4, I64, 0),
  actor_open_field |-> H(3, I32, 0),
  field_entry_read |-> H(1, I64, 0),
  field_entry_write |-> H(3, None, 0),
  field_entry_close |-> H(1, None, 0),
  actor_get_object_id |-> H(1, I64, 0),
  actor_get_package_address |-> H(0, I64, 0),
  actor_get_blueprint_name |-> H(0, I64, 0),
  object_new |-> H(4, I64, 0),
  costing_get_execution_cost_unit_limit |-> H(0, I32, 0),
  costing_get_execution_cost_unit_price |-> H(0, I64, 0),
  costing_get_finalization_cost_unit_limit |-> H(0, I32, 0),
  costing_get_finalization_cost_unit_price |-> H(0, I64, 0),
  costing_get_usd_price |-> H(0, I64, 0),
  costing_get_tip_percentage |-> H(0, I32, 0),
  costing_get_fee_balance |-> H(0, I64, 0),
  address_allocate |-> H(4, I64, 0),
  address_get_reservation_address |-> H(2, I64, 0),
  object_globalize |-> H(6, I64, 0),
  kv_store_new |-> H(2, I64, 0),
  object_instance_of |-> H(6, I32, 0),
  object_get_blueprint_id |-> H(2, I64, 0),
  object_get_outer_object |-> H(2, I64, 0),
  actor_emit_event |-> H(5, None, 0),
  sys_log |-> H(4, None, 0),
  sys_bech32_encode_address |-> H(2, I64, 0),
  sys_panic |-> H(2, None, 0),
  sys_get_transaction_hash |-> H(0, I64, 0),
  sys_generate_ruid |-> H(0, I64, 0),
  crypto_utils_bls12381_v1_verify |-> H(6, I32, 1),
  crypto_utils_bls12381_v1_aggregate_verify |-> H(4, I32, 1),
  crypto_utils_bls12381_v1_fast_aggregate_verify |-> H(6, I32, 1),
  crypto_utils_bls12381_g2_signature_aggregate |-> H(2, I64, 1),
  crypto_utils_keccak256_hash |-> H(2, I64, 1),
  crypto_utils_blake2b_256_hash |-> H(2, I64, 2),
  crypto_utils_ed25519_verify |-> H(6, I32, 2),
  crypto_utils_secp256k1_ecdsa_verify |-> H(6, I32, 2),
  crypto_utils_secp256k1_ecdsa_verify_and_key_recover |-> H(4, I64, 2),
  crypto_utils_secp256k1_ecdsa_verify_and_key_recover_uncompressed |-> H(4, I64, 2) ]
HostNames == DOMAIN Host

GasImport == [m |-> "env", n |-> "gas", kind |-> "func", p |-> I64, r |-> None]

\* one import entry, in the order the code decides it
ImportClass(im, v) ==
  IF im.m = "env" /\ im.n \in HostNames
  THEN IF v < Host[im.n].v THEN "ProtocolVersionMismatch"
       ELSE IF im.kind = "func"
            THEN (IF im.p = Host[im.n].p /\ im.r = Host[im.n].r THEN "ok" ELSE "InvalidFunctionType")
            ELSE "ImportNotAllowed"
  ELSE "ImportNotAllowed"

RECURSIVE FirstBadImportFrom(_, _, _)
FirstBadImportFrom(imps, v, i) ==
  IF i > Len(imps) THEN "ok"
  ELSE LET c == ImportClass(imps[i], v)
       IN IF c # "ok" THEN c ELSE FirstBadImportFrom(imps, v, i + 1)
FirstBadImport(s, v) == FirstBadImportFrom(s.imports, v, 1)

-----------------------------------------------------------------------------
(* The rules, over the structural descriptor.  *)
RNoStart(s)   == ~s.start
RImports(s, v) == \A i \in DOMAIN s.imports : ImportClass(s.imports[i], v) = "ok"
RMemCount(s)  == Len(s.mems) = 1
RMemSize(s)   == /\ s.mems[1][1] <= MaxMemPages
                 /\ (s.mems[1][2] = -1 \/ s.mems[1][2] <= MaxMemPages)
RMemExport(s) == s.memExp >= 1
RTable(s)     == Len(s.tabs) <= 1 /\ (Len(s.tabs) = 1 => s.tabs[1][1] <= MaxTableInit)
RBrTable(s)   == s.maxBrt <= MaxBrTable
RFuncCount(s) == s.nfuncs <= MaxFunctions
RParams(s)    == s.maxParams <= MaxParams
RLocals(s)    == s.maxLocals <= MaxLocals
RGlobals(s)   == s.nglobals <= MaxGlobals
\* every export required by the blueprint definitions is an exported function (i64) -> i64
RBlueprint(s, req) ==
  \A nm \in req : \E i \in DOMAIN s.expSigs :
      s.expSigs[i][1] = nm /\ s.expSigs[i][2] = I64 /\ s.expSigs[i][3] = I64

\* x = non-structural facts of a generated module: wasmValid, expNamesOK, segOK, req
Accept(s, x, v) ==
  /\ x.wasmValid = "ok"
  /\ RNoStart(s) /\ RImports(s, v) /\ x.expNamesOK
  /\ RMemCount(s) /\ RMemSize(s) /\ RMemExport(s)
  /\ RTable(s) /\ RBrTable(s)
  /\ RFuncCount(s) /\ RParams(s) /\ RLocals(s)
  /\ RGlobals(s)
  /\ RBlueprint(s, x.req)
  /\ x.segOK

\* the same conjunction in the order of the code's pipeline: the error class reported
Verdict(s, x, v) ==
  IF x.wasmValid # "ok" THEN x.wasmValid
  ELSE IF ~RNoStart(s) THEN "StartFunctionNotAllowed"
  ELSE IF FirstBadImport(s, v) # "ok" THEN FirstBadImport(s, v)
  ELSE IF ~x.expNamesOK THEN "InvalidExportName"
  ELSE IF Len(s.mems) = 0 THEN "MissingMemorySection"
  ELSE IF Len(s.mems) > 1 THEN "TooManyMemoryDefinition"
  ELSE IF ~RMemSize(s) THEN "MemorySizeLimitExceeded"
  ELSE IF ~RMemExport(s) THEN "MemoryNotExported"
  ELSE IF Len(s.tabs) > 1 THEN "MoreThanOneTable"
  ELSE IF ~RTable(s) THEN "InitialTableSizeLimitExceeded"
  ELSE IF ~RBrTable(s) THEN "TooManyTargetsInBrTable"
  ELSE IF ~RFuncCount(s) THEN "TooManyFunctions"
  ELSE IF ~RParams(s) THEN "TooManyFunctionParams"
  ELSE IF ~RLocals(s) THEN "TooManyFunctionLocals"
  ELSE IF ~RGlobals(s) THEN "TooManyGlobals"
  ELSE IF ~RBlueprint(s, x.req) THEN "MissingExport"
  ELSE IF ~x.segOK THEN "NotInstantiatable"
  ELSE "ok"

RejectClasses == {"DeserializationError", "ValidationError", "StartFunctionNotAllowed",
  "ImportNotAllowed", "ProtocolVersionMismatch", "InvalidFunctionType", "InvalidExportName",
  "MissingMemorySection", "MemorySizeLimitExceeded", "MemoryNotExported",
  "InitialTableSizeLimitExceeded", "TooManyTargetsInBrTable", "TooManyFunctions",
  "TooManyFunctionParams", "TooManyFunctionLocals", "TooManyGlobals", "MissingExport",
  "NotInstantiatable"}

-----------------------------------------------------------------------------
(* The statement of C45 for an accepted module: no floating point, no start function, a single
   exported memory bounded by the limit, bounded tables, functions, locals (parameters are
   locals) and globals, only the permitted host imports.                                    *)
Sandbox(s, v) ==
  /\ ~s.floats
  /\ ~s.start
  /\ Len(s.mems) = 1 /\ RMemSize(s) /\ s.memExp >= 1
  /\ \A i \in DOMAIN s.imports : s.imports[i].kind = "func"      \* hence no imported memory/table/global
  /\ RTable(s)
  /\ RFuncCount(s) /\ RParams(s) /\ RLocals(s) /\ RBrTable(s)
  /\ RGlobals(s)
  /\ RImports(s, v)

(* ... and metering and stack limiting injected: relation between the structural descriptor
   of the accepted input and of the instrumented output.                                     *)
ZeroCostOps == {"End", "Unreachable", "Return", "Else"}     \* instruction_cost = 0
PostOK(in, out) ==
  /\ out.imports = Append(in.imports, GasImport)              \* exactly the gas import is added
  /\ out.gasIdx = in.nimpFuncs /\ out.nimpFuncs = in.nimpFuncs + 1
  /\ Len(out.mems) = 1
  /\ out.mems[1][1] = in.mems[1][1]
  /\ out.mems[1][2] = (IF in.mems[1][2] = -1 THEN MaxMemPages ELSE in.mems[1][2])   \* max injected
  /\ out.memExp = in.memExp
  /\ out.tabs = in.tabs
  /\ ~out.floats /\ ~out.start
  \* metering: every original function starts with a charge unless it has nothing to charge for
  /\ out.metered <= in.nfuncs
  /\ (out.metered < in.nfuncs => ToSetS(out.unmeteredOps) \subseteq ZeroCostOps)
  /\ out.gasCalls >= out.metered
  \* stack limiting: one more global (mutable i32 = 0), one thunk per entry function, one
  \* height check in front of every call of a local function (incl. the thunks' calls)
  /\ out.nglobals = in.nglobals + 1 /\ out.lastGlobal = <<"i32", TRUE, 0>>
  /\ out.nfuncs = in.nfuncs + in.entryFuncs
  /\ out.localCalls = in.localCalls + in.entryFuncs
  /\ out.stackChecks = out.localCalls
  /\ (out.stackChecks > 0 => out.stackLimits = <<StackLimit>> /\ out.stackGlobals = <<in.nglobals>>)
  \* exported local functions are thunks (minExpFunc: least exported function index that is not an import)
  /\ (out.minExpFunc = -1 \/ out.minExpFunc >= out.nimpFuncs + in.nfuncs)
  \* nothing else changes
  /\ ToSetS(out.exports) = ToSetS(in.exports) /\ Len(out.exports) = Len(in.exports)
  /\ ToSetS(out.expSigs) = ToSetS(in.expSigs)
  /\ out.maxParams = in.maxParams /\ out.maxLocals = in.maxLocals /\ out.maxBrt = in.maxBrt
  /\ out.dataSegs = in.dataSegs

\* the limits, re-checked on the instrumented output itself (gas import and stack global aside)
OutLimits(out) ==
  /\ ~out.floats /\ ~out.start
  /\ Len(out.mems) = 1 /\ out.mems[1][1] <= MaxMemPages
  /\ out.mems[1][2] >= out.mems[1][1] /\ out.mems[1][2] <= MaxMemPages
  /\ RTable(out) /\ RBrTable(out) /\ RParams(out) /\ RLocals(out)
  /\ out.nglobals <= MaxGlobals + 1

-----------------------------------------------------------------------------
(* Generative descriptors.  *)
Imp(nm) == [m |-> "env", n |-> nm, kind |-> "func", p |-> Host[nm].p, r |-> Host[nm].r]

Nominal == [fl |-> "none", start |-> FALSE,
            memDefs |-> 1, memInit |-> 1, memMax |-> -1, memExp |-> "memory",
            tabDefs |-> 1, tabInit |-> 1,
            funcs |-> 2, at |-> 2, params |-> 1, params64 |-> 0, locals |-> 1, locals64 |-> 0, locals3 |-> 0,
            globals |-> 1, brt |-> 2, brt2 |-> -1,
            imps |-> <<Imp("sys_generate_ruid")>>,
            xname |-> [on |-> FALSE, s |-> "x"], dupExp |-> FALSE,
            bp |-> "ok", prop |-> "none",
            dataOff |-> -1, dataLen |-> 0, elemOff |-> -1]

\* syntactic classes of export names (syn::parse_str::<Ident>: a Rust identifier, no keyword, not "_")
NameSeq == << [s |-> "extra_fn", ok |-> TRUE], [s |-> "_x", ok |-> TRUE], [s |-> "__", ok |-> TRUE],
              [s |-> "X9", ok |-> TRUE], [s |-> "union", ok |-> TRUE],
              [s |-> "a-b", ok |-> FALSE], [s |-> "", ok |-> FALSE], [s |-> "1a", ok |-> FALSE],
              [s |-> "fn", ok |-> FALSE], [s |-> "Self", ok |-> FALSE], [s |-> "_", ok |-> FALSE],
              [s |-> "a b", ok |-> FALSE], [s |-> "a.b", ok |-> FALSE], [s |-> "a::b", ok |-> FALSE] >>
NameOK(str) == \E i \in DOMAIN NameSeq : NameSeq[i].s = str /\ NameSeq[i].ok

HasImpKind(d, k) == \E i \in DOMAIN d.imps : d.imps[i].kind = k
HasMem(d)  == d.memDefs > 0 \/ HasImpKind(d, "memory")
FltFn(d)   == d.fl \in {"param", "result", "local", "instr"}
PropFn(d)  == d.prop \in {"signext", "simd", "bulk", "reftypes", "multivalue", "satfloat",
                          "tailcall", "threads", "exceptions"}
TestExported(d) == d.bp \in {"ok", "norequire", "badsig"}
CarrierNames(d) == (IF d.memExp = "func" THEN {"memory"} ELSE {})
                   \cup (IF d.xname.on THEN {d.xname.s} ELSE {})
                   \cup (IF d.dupExp THEN {"Test_f"} ELSE {})
ElemOn(d) == d.elemOff >= 0 /\ d.tabDefs > 0
DataOn(d) == d.dataOff >= 0 /\ HasMem(d)
CountImp(d, k) == Cardinality({i \in DOMAIN d.imps : d.imps[i].kind = k})
B2N(b) == IF b THEN 1 ELSE 0

RECURSIVE Concat(_)
Concat(qq) == IF qq = <<>> THEN <<>> ELSE Head(qq) \o Concat(Tail(qq))

\* the module the renderer must produce
Struct(d) ==
  LET carrierNames == SeqOfSet(CarrierNames(d))
      testSig == IF d.bp = "badsig" THEN <<"Test_f", I32, I64>> ELSE <<"Test_f", I64, I64>>
  IN [ floats |-> (d.fl # "none" \/ d.prop = "satfloat"),
       start |-> d.start,
       mems |-> Rep(<<d.memInit, d.memMax>>, d.memDefs),
       tabs |-> Rep(<<d.tabInit, -1>>, d.tabDefs),
       imports |-> d.imps,
       nimpFuncs |-> CountImp(d, "func"),
       memExp |-> B2N(HasMem(d) /\ d.memExp = "memory"),
       nfuncs |-> d.funcs + B2N(FltFn(d)) + B2N(PropFn(d)) + B2N(d.start),
       maxParams |-> Max2(d.params + d.params64, 1),
       maxLocals |-> Max2(d.locals + d.locals64 + d.locals3, B2N(d.fl = "local")),
       nglobals |-> d.globals + B2N(d.fl = "global") + B2N(d.prop \in {"mutglobal", "extconst"}),
       maxBrt |-> Max2(d.brt, d.brt2),
       localCalls |-> 0,
       entryFuncs |-> B2N(TestExported(d)) + B2N(CarrierNames(d) # {} \/ ElemOn(d)),
       dataSegs |-> B2N(DataOn(d)),
       exports |-> Concat(<<
            IF HasMem(d) /\ d.memExp = "memory" THEN << <<"memory", "memory">> >>
            ELSE IF HasMem(d) /\ d.memExp = "other" THEN << <<"mem", "memory">> >> ELSE <<>>,
            IF TestExported(d) THEN << <<"Test_f", "func">> >>
            ELSE IF d.bp = "notfunc" /\ HasMem(d) THEN << <<"Test_f", "memory">> >> ELSE <<>>,
            IF d.prop = "mutglobal" THEN << <<"mg", "global">> >> ELSE <<>>,
            [i \in 1..Len(carrierNames) |-> <<carrierNames[i], "func">>] >>),
       expSigs |-> Concat(<<
            IF TestExported(d) THEN <<testSig>> ELSE <<>>,
            [i \in 1..Len(carrierNames) |-> <<carrierNames[i], Rep("i32", d.params) \o Rep("i64", d.params64), None>>] >>) ]

\* ModuleInfo::new fails (reported as DeserializationError) on duplicate export names and on
\* sections it does not know (the tag section of the exception-handling proposal)
DupExport(d) == d.dupExp /\ (TestExported(d) \/ (d.bp = "notfunc" /\ HasMem(d)))
Undeserializable(d) == DupExport(d) \/ d.prop = "exceptions"
\* rejected by wasmparser under the enabled feature set (MVP + mutable-global + sign-extension, no floats)
Invalid(d) ==
  \/ d.fl # "none"
  \/ d.prop \in {"simd", "bulk", "reftypes", "multivalue", "satfloat", "tailcall", "threads",
                 "exceptions", "extconst"}
  \/ (d.prop = "memory64" /\ d.memDefs > 0)
  \/ d.memDefs + CountImp(d, "memory") > 1
  \/ d.tabDefs + CountImp(d, "table") > 1
  \/ (d.memDefs > 0 /\ d.memMax >= 0 /\ d.memMax < d.memInit)
Extra(d) ==
  [ wasmValid |-> IF Undeserializable(d) THEN "DeserializationError"
                  ELSE IF Invalid(d) THEN "ValidationError" ELSE "ok",
    expNamesOK |-> (d.xname.on => NameOK(d.xname.s)),
    \* bytes <= pages * 65536, compared in pages (no 32-bit overflow for huge page counts)
    segOK |-> /\ (DataOn(d) => (d.dataOff + d.dataLen + PageSize - 1) \div PageSize <= d.memInit)
              /\ (ElemOn(d) => d.elemOff + 1 <= d.tabInit),
    req |-> IF d.bp = "norequire" THEN {} ELSE {"Test_f"} ]

\* structural descriptor of the instrumented output of an accepted module
Instr(s) ==
  LET checks == s.localCalls + s.entryFuncs
      fexp == {s.exports[i][1] : i \in {j \in DOMAIN s.exports : s.exports[j][2] = "func"}}
  IN [ floats |-> FALSE, start |-> FALSE,
       mems |-> << <<s.mems[1][1], IF s.mems[1][2] = -1 THEN MaxMemPages ELSE s.mems[1][2]>> >>,
       tabs |-> s.tabs,
       imports |-> Append(s.imports, GasImport),
       nimpFuncs |-> s.nimpFuncs + 1, gasIdx |-> s.nimpFuncs,
       memExp |-> s.memExp,
       nfuncs |-> s.nfuncs + s.entryFuncs,
       maxParams |-> s.maxParams, maxLocals |-> s.maxLocals, maxBrt |-> s.maxBrt,
       nglobals |-> s.nglobals + 1, lastGlobal |-> <<"i32", TRUE, 0>>,
       metered |-> s.nfuncs, unmeteredOps |-> <<>>,
       localCalls |-> checks, stackChecks |-> checks,
       stackLimits |-> IF checks > 0 THEN <<StackLimit>> ELSE <<>>,
       stackGlobals |-> IF checks > 0 THEN <<s.nglobals>> ELSE <<>>,
       entryFuncs |-> s.entryFuncs,
       exports |-> s.exports, expSigs |-> s.expSigs, dataSegs |-> s.dataSegs,
       funcExports |-> SeqOfSet(fexp) ]

-----------------------------------------------------------------------------
(* Variations of the nominal descriptor: boundary values per rule.  g = rule family (two
   variations of the same family are never paired), pw = used in pairwise combinations,
   hv = heavy (thousands of functions).                                                     *)
V(g, o) == [g |-> g, o |-> o, pw |-> TRUE, hv |-> FALSE]
W(g, o) == [g |-> g, o |-> o, pw |-> FALSE, hv |-> FALSE]     \* singles only
Hv(g, o) == [g |-> g, o |-> o, pw |-> TRUE, hv |-> TRUE]

HostSeq == SeqOfSet(HostNames)
BadSigs(nm) == << [Imp(nm) EXCEPT !.p = Append(@, "i32")],                     \* one more parameter
                  [Imp(nm) EXCEPT !.r = IF @ = I64 THEN I32 ELSE I64],         \* other result
                  [Imp(nm) EXCEPT !.p = IF @ = <<>> THEN <<"i64">> ELSE <<"i64">> \o Tail(@)] >>

VarSeq ==
  << V("float", [fl |-> "param"]), V("float", [fl |-> "result"]), V("float", [fl |-> "local"]),
     V("float", [fl |-> "instr"]), V("float", [fl |-> "global"]),
     V("start", [start |-> TRUE]),
     V("memdefs", [memDefs |-> 0]), V("memdefs", [memDefs |-> 2]),
     V("mem", [memInit |-> 0]), V("mem", [memInit |-> 63]), V("mem", [memInit |-> 64]), V("mem", [memInit |-> 65]),
     V("mem", [memMax |-> 0]), V("mem", [memMax |-> 1]), V("mem", [memMax |-> 63]),
     V("mem", [memMax |-> 64]), V("mem", [memMax |-> 65]),
     V("mem", [memInit |-> 64, memMax |-> 64]), V("mem", [memInit |-> 64, memMax |-> 65]),
     V("mem", [memInit |-> 65, memMax |-> 65]), W("mem", [memInit |-> 65536]), W("mem", [memMax |-> 65536]),
     V("memexp", [memExp |-> "other"]), V("memexp", [memExp |-> "none"]), V("memexp", [memExp |-> "func"]),
     V("tabdefs", [tabDefs |-> 0]), V("tabdefs", [tabDefs |-> 2]),
     V("tab", [tabInit |-> 0]), V("tab", [tabInit |-> 1023]), V("tab", [tabInit |-> 1024]), V("tab", [tabInit |-> 1025]),
     V("funcs", [funcs |-> 3]), V("funcs", [funcs |-> 3, at |-> 3]),
     Hv("funcs", [funcs |-> 8191]), Hv("funcs", [funcs |-> 8192]), Hv("funcs", [funcs |-> 8193]),
     Hv("funcs", [funcs |-> 8192, at |-> 8192]),
     V("at", [at |-> 1]),
     V("params", [params |-> 0]), V("params", [params |-> 31]), V("params", [params |-> 32]), V("params", [params |-> 33]),
     V("locals", [locals |-> 0]), V("locals", [locals |-> 255]), V("locals", [locals |-> 256]), V("locals", [locals |-> 257]),
     \* what the validator SUMS or takes the MAXIMUM of: several local groups / parameter types / br_tables, so that
     \* "sum" is distinguished from "last group", "first group", "largest group", "last instruction"
     V("locals", [locals |-> 255, locals64 |-> 1]), V("locals", [locals |-> 128, locals64 |-> 128]),
     V("locals", [locals |-> 128, locals64 |-> 129]), V("locals", [locals |-> 1, locals64 |-> 256]),
     V("locals", [locals |-> 256, locals64 |-> 1]), V("locals", [locals |-> 257, locals64 |-> 1]),
     V("locals", [locals |-> 200, locals64 |-> 200]), V("locals", [locals |-> 100, locals64 |-> 100, locals3 |-> 56]),
     V("locals", [locals |-> 100, locals64 |-> 100, locals3 |-> 57]), V("locals", [locals |-> 1, locals64 |-> 255, locals3 |-> 1]),
     V("locals", [locals |-> 0, locals64 |-> 257]), V("locals", [locals |-> 0, locals64 |-> 256]),
     V("params", [params |-> 16, params64 |-> 16]), V("params", [params |-> 16, params64 |-> 17]),
     V("params", [params |-> 1, params64 |-> 32]), V("params", [params |-> 32, params64 |-> 1]),
     V("params", [params |-> 0, params64 |-> 33]), V("params", [params |-> 0, params64 |-> 32]),
     V("brt", [brt |-> 257, brt2 |-> 0]), V("brt", [brt |-> 0, brt2 |-> 257]), V("brt", [brt |-> 256, brt2 |-> 256]),
     V("brt", [brt |-> -1, brt2 |-> 257]),
     V("globals", [globals |-> 0]), V("globals", [globals |-> 511]), V("globals", [globals |-> 512]), V("globals", [globals |-> 513]),
     V("brt", [brt |-> -1]), V("brt", [brt |-> 0]), V("brt", [brt |-> 255]), V("brt", [brt |-> 256]), V("brt", [brt |-> 257]),
     V("dup", [dupExp |-> TRUE]),
     V("bp", [bp |-> "norequire"]), V("bp", [bp |-> "missing"]), V("bp", [bp |-> "badsig"]), V("bp", [bp |-> "notfunc"]),
     V("prop", [prop |-> "signext"]), V("prop", [prop |-> "mutglobal"]),
     W("prop", [prop |-> "simd"]), V("prop", [prop |-> "bulk"]), W("prop", [prop |-> "reftypes"]),
     V("prop", [prop |-> "multivalue"]), W("prop", [prop |-> "satfloat"]), W("prop", [prop |-> "tailcall"]),
     W("prop", [prop |-> "threads"]), W("prop", [prop |-> "exceptions"]), V("prop", [prop |-> "memory64"]),
     W("prop", [prop |-> "extconst"]),
     V("data", [dataOff |-> 0, dataLen |-> 2]), V("data", [dataOff |-> 65534, dataLen |-> 2]),
     V("data", [dataOff |-> 65535, dataLen |-> 2]), V("data", [dataOff |-> 65536, dataLen |-> 0]),
     W("data", [dataOff |-> 65537, dataLen |-> 0]), W("data", [dataOff |-> 65536, dataLen |-> 1]),
     V("elem", [elemOff |-> 0]), V("elem", [elemOff |-> 1]), W("elem", [elemOff |-> 2]),
     \* imports
     V("imp", [imps |-> <<>>]),
     V("imp", [imps |-> <<Imp("sys_generate_ruid"), Imp("buffer_consume")>>]),
     V("imp", [imps |-> <<Imp("buffer_consume"), Imp("buffer_consume")>>]),
     V("imp", [imps |-> << [Imp("sys_log") EXCEPT !.m = "other"] >>]),
     V("imp", [imps |-> << [Imp("sys_log") EXCEPT !.n = "sys_unknown"] >>]),
     V("imp", [imps |-> << GasImport >>]),
     W("imp", [imps |-> << [GasImport EXCEPT !.p = <<"i32">>] >>]),
     V("imp", [imps |-> << [m |-> "env", n |-> "sys_log", kind |-> "global", p |-> None, r |-> None] >>]),
     V("imp", [imps |-> << [m |-> "env", n |-> "memory", kind |-> "memory", p |-> None, r |-> None] >>]),
     W("imp", [imps |-> << [m |-> "env", n |-> "buffer_consume", kind |-> "memory", p |-> None, r |-> None] >>]),
     V("imp", [imps |-> << [m |-> "env", n |-> "table", kind |-> "table", p |-> None, r |-> None] >>]),
     W("imp", [imps |-> << [m |-> "env", n |-> "glob", kind |-> "global", p |-> None, r |-> None] >>]),
     V("imp", [imps |-> << Imp("crypto_utils_keccak256_hash") >>]),
     V("imp", [imps |-> << Imp("crypto_utils_blake2b_256_hash") >>]),
     V("imp", [imps |-> << Imp("sys_log"), BadSigs("crypto_utils_blake2b_256_hash")[1] >>]),
     V("imp", [imps |-> << BadSigs("object_call")[1], [Imp("sys_log") EXCEPT !.m = "other"] >>]),
     W("imp", [imps |-> << Imp("sys_log"), Imp("object_call"), Imp("kv_entry_read"), Imp("actor_emit_event") >>]) >>
  \o [i \in 1..Len(NameSeq) |-> W("name", [xname |-> [on |-> TRUE, s |-> NameSeq[i].s]])]
  \o << V("name", [xname |-> [on |-> TRUE, s |-> "extra_fn"]]), V("name", [xname |-> [on |-> TRUE, s |-> "a-b"]]) >>
  \o [i \in 1..Len(HostSeq) |-> W("imp", [imps |-> <<Imp(HostSeq[i])>>])]
  \o Concat([i \in 1..Len(HostSeq) |-> [k \in 1..3 |-> W("imp", [imps |-> <<BadSigs(HostSeq[i])[k]>>])]])

NVar == Len(VarSeq)
Override(d, o) == [f \in DOMAIN d |-> IF f \in DOMAIN o THEN o[f] ELSE d[f]]
\* case id <<i, j, v>>: variation i (0 = none), variation j > i (0 = none), VM version v
DescOf(c) == LET d1 == IF c[1] = 0 THEN Nominal ELSE Override(Nominal, VarSeq[c[1]].o)
             IN IF c[2] = 0 THEN d1 ELSE Override(d1, VarSeq[c[2]].o)
VerdictOf(c) == Verdict(Struct(DescOf(c)), Extra(DescOf(c)), c[3])

\* laws checked on every case (S)
VerdictAt(d, v) == Verdict(Struct(d), Extra(d), v)
Laws(c) ==
  LET d == DescOf(c)
      s == Struct(d)
      x == Extra(d)
      v == c[3]
      vd == Verdict(s, x, v)
      \* fields of the output descriptor the prediction does not fix
      o == Instr(s) @@ [gasCalls |-> s.nfuncs, minExpFunc |-> -1]
  IN /\ Accept(s, x, v) <=> (vd = "ok")                    \* conjunction = pipeline
     /\ vd = "ok" => Sandbox(s, v)                         \* what is accepted satisfies the statement
     /\ vd = "ok" => PostOK(s, o) /\ OutLimits(o)          \* the predicted output satisfies the post-condition
     /\ (v < 2 /\ vd = "ok") => Verdict(s, x, v + 1) = "ok" \* later VM versions accept more

(* Known deviation of the code (reported, not specified away): enforce_function_limit checks
   the parameter count of function indices 0 .. num_local_functions-1 of the COMBINED index
   space, so with k imported functions the last k local functions are never checked.        *)
CarrierPos(d) == d.at
ParamsEscape(d) == d.params + d.params64 > MaxParams /\ CountImp(d, "func") + CarrierPos(d) > Struct(d).nfuncs
\* ... and the parameter rule is the only rule the module breaks at this version
OnlyParamsBroken(d, v) ==
  LET s == Struct(d)
      x == Extra(d)
  IN Verdict(s, x, v) = "TooManyFunctionParams" /\ Verdict([s EXCEPT !.maxParams = MaxParams], x, v) = "ok"
=============================================================================

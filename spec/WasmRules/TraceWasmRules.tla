---------------------------- MODULE TraceWasmRules ----------------------------
(* T: recorded validations of arbitrary inputs (random bytes, mutated modules, repository
   blobs).  Totality: the verdict is "ok" or "err", never "panic".  Every accepted input
   satisfies the statement (Sandbox) on its structural descriptor, and its instrumented output
   satisfies PostOK and the limits.                                                          *)
EXTENDS WasmRules, TraceIO
VARIABLE l
Has(ev, f) == f \in DOMAIN ev
Ok(ev) ==
  /\ ev.a = "validate"
  /\ ev.verdict \in {"ok", "err"}
  /\ ev.verdict = "ok" =>
       /\ Has(ev, "in") /\ Has(ev, "out")            \* both projections exist
       /\ Sandbox(ev.in, ev.v)
       /\ PostOK(ev.in, ev.out)
       /\ OutLimits(ev.out)
TInit == l = 1
TNext == l <= Len(Rec) /\ (IF Ok(Rec[l]) THEN TRUE ELSE PrintT(<<"BAD", l>>)) /\ l' = l + 1
TSpec == TInit /\ [][TNext]_l
Post == PrintT(<<"DONE", TLCGet("stats").diameter - 1>>)
=============================================================================

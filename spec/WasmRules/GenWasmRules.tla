---------------------------- MODULE GenWasmRules ----------------------------
(* G: every case of the universe as one JSON line: the generative descriptor (rendered to WAT
   by the harness), the VM version, the expected verdict / error class, the structural
   descriptor the rendered module must have and the one its instrumented output must have.  *)
EXTENDS MCWasmRules, Json
Case == LET d == DescOf(c)
            s == Struct(d)
            vd == VerdictOf(c)
        IN [id |-> c, d |-> d, v |-> c[3], exp |-> vd, s |-> s,
            dev |-> IF ParamsEscape(d) /\ OnlyParamsBroken(d, c[3]) THEN "enforce_function_limit:params-unchecked-behind-imports" ELSE "",
            out |-> IF vd = "ok" THEN Instr(s) ELSE [none |-> TRUE]]
Emit == PrintT(<<"B", ToJson(Case)>>)
=============================================================================

---------------------------- MODULE MCWasmRules ----------------------------
(* S: the laws of WasmRules on the bounded universe "nominal module, one variation, two
   variations of different rule families" x VM versions.  The state is the case id; level 1 of
   the graph are the single variations, level 2 the pairs and the other versions.            *)
EXTENDS WasmRules
CONSTANTS PairMode,        \* "none" | "pw" (pairwise-eligible, no heavy) | "pwh" (+heavy) | "allnh" (all, heavy only with pw) | "all"
          PairVersions     \* VM versions at which pairs are taken
VARIABLE c

PairOK(i, j) ==
  /\ i < j /\ VarSeq[i].g # VarSeq[j].g
  /\ \/ PairMode = "all"
     \/ PairMode = "pwh" /\ VarSeq[i].pw /\ VarSeq[j].pw
     \/ PairMode = "allnh" /\ ((~VarSeq[i].hv /\ ~VarSeq[j].hv) \/ (VarSeq[i].pw /\ VarSeq[j].pw))
     \/ PairMode = "pw" /\ VarSeq[i].pw /\ VarSeq[j].pw /\ ~VarSeq[i].hv /\ ~VarSeq[j].hv

Init == c = <<0, 0, 0>>
Single == c = <<0, 0, 0>> /\ \E i \in 1..NVar : c' = <<i, 0, 0>>
Version == c[2] = 0 /\ c[3] = 0 /\ \E v \in Versions \ {0} : c' = <<c[1], 0, v>>
Pair == /\ c[1] > 0 /\ c[2] = 0 /\ c[3] = 0 /\ PairMode # "none"
        /\ \E j \in 1..NVar, v \in PairVersions : PairOK(c[1], j) /\ c' = <<c[1], j, v>>
Next == Single \/ Version \/ Pair
Spec == Init /\ [][Next]_c

LawsHold == Laws(c)

\* non-vacuity: every reject class of the validator is reached by a single variation
ASSUME \A cl \in RejectClasses : \E i \in 1..NVar, v \in Versions : VerdictOf(<<i, 0, v>>) = cl
\* the nominal module is accepted by every version
ASSUME \A v \in Versions : VerdictOf(<<0, 0, v>>) = "ok"
=============================================================================

SPECIFICATION Spec
CONSTANTS
  PairMode = "pw"
  PairVersions = {2}
INVARIANT Emit
CHECK_DEADLOCK FALSE

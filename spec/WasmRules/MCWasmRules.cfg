SPECIFICATION Spec
CONSTANTS
  PairMode = "all"
  PairVersions = {0, 2}
INVARIANT LawsHold
CHECK_DEADLOCK FALSE

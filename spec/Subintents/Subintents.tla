----------------------------- MODULE Subintents -----------------------------
(* X01 (extension).  The V2 multi-intent transaction processor: a transaction intent (root) and
   a tree of subintents, each a straight-line program with its own worktop, buckets, auth zone
   (its signers) and program counter; exactly one intent runs at a time and control moves only
   by YIELD_TO_CHILD / YIELD_TO_PARENT
   (radix-engine/src/system/transaction/{multithread_intent_processor,intent_processor}.rs,
   static rules in radix-transactions/src/validation/transaction_structure_validator.rs and
   manifest/static_manifest_interpreter.rs).

   One coroutine per intent: pc[i], wt[i] (worktop), bk[i] (buckets); `cur` is the running
   intent and `stack` the processor's parent stack.  One action per instruction kind.

   PROGRAMS are part of the state.  Two drivers use the same instruction actions:
     * lazy (round 1): the program of the running intent is extended just in time (action
       Extend / CloseRoot) - this explores every program up to the choice of its never-executed
       suffix, which is then filled in canonically (Completed).  A choice that makes the
       transaction statically invalid (yield counts of an edge differ, subintent does not end
       with YIELD_TO_PARENT) retroactively REJECTS it: the validator runs before execution.
     * eager (round 2): the completed programs are validated declaratively (StaticValid) and
       executed again as a re-submission under a fresh root intent: after a committed SUCCESS
       the subintents are finalized and the re-submission is rejected; after a committed FAILURE
       nothing but fees was committed and the subintents run again (same failure).
   Round 3 (no execution): the identical notarized transaction again - always rejected
   (statically invalid, or its transaction intent was already committed).

   Intent i owns account i and key i.  sc.par[i] = parent of intent i (0 for the root, intent 1),
   sc.sig[i] = keys that signed intent i.                                                      *)
EXTENDS Integers, Sequences, FiniteSets, TLC

CONSTANTS Scenarios,     \* set of [par |-> <<0, ...>>, sig |-> <<{..}, ...>>]
          Res,           \* resources, e.g. {1, 2}
          Amts,          \* amounts used by WITHDRAW / TAKE / ASSERT
          InitBal,       \* initial balance of every account in every resource
          MaxLen,        \* instructions per intent
          MaxTotal,      \* executed instructions per transaction
          MaxYield,      \* YIELD_TO_CHILD per edge
          MaxLive,       \* simultaneously live buckets per intent
          Ops            \* instruction kinds offered by the lazy driver (subset of AllOps)

AllOps == {"W", "WP", "T", "TA", "R", "DB", "D", "AW", "YC", "YP", "VP"}

VARIABLES sc,            \* the scenario (fixed after Init)
          prog,          \* prog[i]: sequence of instructions of intent i
          fin,           \* fin[i]: the program of i is complete
          pc, wt, bk,    \* per intent: program counter, worktop [Res -> Nat], buckets <<[r, a, live]>>
          bal,           \* account balances as seen by the running transaction
          ledger,        \* committed account balances
          cur, stack,    \* running intent, parent stack
          status,        \* "run" | "success" | "failed" | "rejected"
          err,           \* error class of a failure / rejection
          ended,         \* ended[i]: how many times intent i ran to its end
          round,         \* 1 (lazy), 2 (re-submission of the subintents under a new root)
          results,       \* verdicts of the finished rounds
          finalized,     \* subintents committed by a successful transaction
          nexec          \* instructions executed in this round
vars == <<sc, prog, fin, pc, wt, bk, bal, ledger, cur, stack, status, err, ended, round, results, finalized, nexec>>

N == Len(sc.par)
Intents == 1..N
Par(i) == sc.par[i]
\* children of i in increasing order; YIELD_TO_CHILD(c) addresses the c-th
ChildSet(i) == {j \in Intents : Par(j) = i}
RECURSIVE SetToSeq(_)
SetToSeq(S) == IF S = {} THEN <<>> ELSE LET m == CHOOSE x \in S : \A y \in S : x <= y IN <<m>> \o SetToSeq(S \ {m})
Children(i) == SetToSeq(ChildSet(i))

\* ---- instructions (uniform records)
Ins(op, acc, r, a, b, c, bs, k, last) == [op |-> op, acc |-> acc, r |-> r, a |-> a, b |-> b, c |-> c, bs |-> bs, k |-> k, last |-> last]
Withdraw(acc, r, a) == Ins("W", acc, r, a, 0, 0, {}, 0, FALSE)       \* withdraw_from_account(account acc)
Take(r, a)          == Ins("T", 0, r, a, 0, 0, {}, 0, FALSE)         \* TAKE_FROM_WORKTOP -> next bucket
TakeAll(r)          == Ins("TA", 0, r, 0, 0, 0, {}, 0, FALSE)
Return(b)           == Ins("R", 0, 0, 0, b, 0, {}, 0, FALSE)         \* RETURN_TO_WORKTOP
DepositB(b)         == Ins("DB", 0, 0, 0, b, 0, {}, 0, FALSE)        \* deposit bucket into own account
DepositAll          == Ins("D", 0, 0, 0, 0, 0, {}, 0, FALSE)         \* deposit entire worktop into own account
AssertW(r, a)       == Ins("AW", 0, r, a, 0, 0, {}, 0, FALSE)        \* ASSERT_WORKTOP_CONTAINS
YieldC(c, bs)       == Ins("YC", 0, 0, 0, 0, c, bs, 0, FALSE)        \* YIELD_TO_CHILD c with buckets bs
YieldP(bs, last)    == Ins("YP", 0, 0, 0, 0, 0, bs, 0, last)         \* YIELD_TO_PARENT (last: final instruction)
VerifyP(k)          == Ins("VP", 0, 0, 0, 0, 0, {}, k, FALSE)        \* VERIFY_PARENT require(signature(key k))

\* ---- static view of a program: buckets are numbered in creation order
RECURSIVE Created(_, _)
Created(p, n) == IF n = 0 THEN 0 ELSE Created(p, n - 1) + (IF p[n].op \in {"T", "TA"} THEN 1 ELSE 0)
RECURSIVE Consumed(_, _)
Consumed(p, n) == IF n = 0 THEN {}
                  ELSE LET q == Consumed(p, n - 1)
                       IN IF p[n].op \in {"R", "DB"} THEN q \cup {p[n].b}
                          ELSE IF p[n].op \in {"YC", "YP"} THEN q \cup p[n].bs ELSE q
StaticLive(p) == (1..Created(p, Len(p))) \ Consumed(p, Len(p))
CountYC(p, c) == Cardinality({n \in 1..Len(p) : p[n].op = "YC" /\ p[n].c = c})
CountYP(p) == Cardinality({n \in 1..Len(p) : p[n].op = "YP"})
IndexOfChild(i, j) == CHOOSE c \in 1..Len(Children(i)) : Children(i)[c] = j

\* ---- the validator's rules, declaratively, on complete programs
EndsWithYP(p) == p # <<>> /\ p[Len(p)].op = "YP"
NoDangling(p) == StaticLive(p) = {}
YieldCountsMatch(pr) == \A j \in Intents : Par(j) # 0 => CountYP(pr[j]) = CountYC(pr[Par(j)], IndexOfChild(Par(j), j))
\* order of the code: manifests intent by intent, then the yield counts of every edge
StaticVerdict(pr) ==
  IF \E j \in Intents : Par(j) # 0 /\ ~EndsWithYP(pr[j]) THEN "SubintentDoesNotEndWithYieldToParent"
  ELSE IF ~YieldCountsMatch(pr) THEN "MismatchingYieldChildAndYieldParentCounts"
  ELSE "ok"

\* ---- canonical completion of the never-executed suffixes (statically valid whenever possible)
RECURSIVE Rep(_, _)
Rep(x, n) == IF n <= 0 THEN <<>> ELSE <<x>> \o Rep(x, n - 1)
RECURSIVE Concat(_)
Concat(ss) == IF ss = <<>> THEN <<>> ELSE Head(ss) \o Concat(Tail(ss))
YPTotal(pr, fn, j) == CountYP(pr[j]) + (IF fn[j] THEN 0 ELSE 1)
Suffix(pr, fn, i) ==
  IF fn[i] THEN <<>>
  ELSE Concat([n \in 1..Len(SetToSeq(StaticLive(pr[i]))) |-> <<Return(SetToSeq(StaticLive(pr[i]))[n])>>])
       \o Concat([c \in 1..Len(Children(i)) |-> Rep(YieldC(c, {}), YPTotal(pr, fn, Children(i)[c]) - CountYC(pr[i], c))])
       \o (IF Par(i) # 0 THEN <<YieldP({}, TRUE)>> ELSE <<>>)
Completed(pr, fn) == [i \in Intents |-> pr[i] \o Suffix(pr, fn, i)]

-----------------------------------------------------------------------------
EmptyW == [r \in Res |-> 0]
TotalExec == nexec

Init ==
  /\ sc \in Scenarios
  /\ prog = [i \in 1..Len(sc.par) |-> <<>>]
  /\ fin = [i \in 1..Len(sc.par) |-> FALSE]
  /\ pc = [i \in 1..Len(sc.par) |-> 1]
  /\ wt = [i \in 1..Len(sc.par) |-> EmptyW]
  /\ bk = [i \in 1..Len(sc.par) |-> <<>>]
  /\ bal = [i \in 1..Len(sc.par) |-> [r \in Res |-> InitBal]]
  /\ ledger = [i \in 1..Len(sc.par) |-> [r \in Res |-> InitBal]]
  /\ cur = 1 /\ stack = <<>>
  /\ status = "run" /\ err = ""
  /\ ended = [i \in 1..Len(sc.par) |-> 0]
  /\ round = 1 /\ results = <<>> /\ finalized = {} /\ nexec = 0

Running == status = "run"
AtEnd(i) == pc[i] = Len(prog[i]) + 1
Fetch(i) == prog[i][pc[i]]
HasIns(i) == pc[i] <= Len(prog[i])
Adv(i) == pc' = [pc EXCEPT ![i] = @ + 1]

Fail(e) == /\ status' = "failed" /\ err' = e
           /\ UNCHANGED <<sc, prog, fin, pc, wt, bk, bal, ledger, cur, stack, ended, round, results, finalized>>
           /\ nexec' = nexec + 1
Reject(e) == /\ status' = "rejected" /\ err' = e
Keep(vs) == UNCHANGED vs
Tick == nexec' = nexec + 1
FrameRest == UNCHANGED <<sc, prog, fin, ledger, status, err, round, results, finalized>>

\* amounts moved by a set of buckets of intent i, per resource
Moved(i, bs, r) == LET S == {b \in bs : bk[i][b].r = r}
                       RECURSIVE Sum(_)
                       Sum(T) == IF T = {} THEN 0 ELSE LET x == CHOOSE x \in T : TRUE IN bk[i][x].a + Sum(T \ {x})
                   IN Sum(S)
Kill(i, bs) == [b \in 1..Len(bk[i]) |-> IF b \in bs THEN [bk[i][b] EXCEPT !.live = FALSE, !.a = 0] ELSE bk[i][b]]

\* ---- instruction actions (i = the running intent)
DoWithdraw(i) ==
  /\ Running /\ cur = i /\ HasIns(i) /\ Fetch(i).op = "W"
  /\ LET x == Fetch(i) IN
     IF x.acc \notin sc.sig[i] THEN Fail("Unauthorized")                 \* key of account acc must have signed THIS intent
     ELSE IF bal[x.acc][x.r] < x.a THEN Fail("VaultInsufficientBalance")
     ELSE /\ bal' = [bal EXCEPT ![x.acc][x.r] = @ - x.a]
          /\ wt' = [wt EXCEPT ![i][x.r] = @ + x.a]
          /\ Adv(i) /\ Tick /\ FrameRest /\ Keep(<<bk, cur, stack, ended>>)
DoTake(i) ==
  /\ Running /\ cur = i /\ HasIns(i) /\ Fetch(i).op = "T"
  /\ LET x == Fetch(i) IN
     IF wt[i][x.r] < x.a THEN Fail("WorktopInsufficientBalance")
     ELSE /\ wt' = [wt EXCEPT ![i][x.r] = @ - x.a]
          /\ bk' = [bk EXCEPT ![i] = Append(@, [r |-> x.r, a |-> x.a, live |-> TRUE])]
          /\ Adv(i) /\ Tick /\ FrameRest /\ Keep(<<bal, cur, stack, ended>>)
DoTakeAll(i) ==
  /\ Running /\ cur = i /\ HasIns(i) /\ Fetch(i).op = "TA"
  /\ LET x == Fetch(i) IN
     /\ wt' = [wt EXCEPT ![i][x.r] = 0]
     /\ bk' = [bk EXCEPT ![i] = Append(@, [r |-> x.r, a |-> wt[i][x.r], live |-> TRUE])]
     /\ Adv(i) /\ Tick /\ FrameRest /\ Keep(<<bal, cur, stack, ended>>)
DoReturn(i) ==
  /\ Running /\ cur = i /\ HasIns(i) /\ Fetch(i).op = "R"
  /\ LET b == Fetch(i).b IN
     /\ wt' = [wt EXCEPT ![i][bk[i][b].r] = @ + bk[i][b].a]
     /\ bk' = [bk EXCEPT ![i] = Kill(i, {b})]
     /\ Adv(i) /\ Tick /\ FrameRest /\ Keep(<<bal, cur, stack, ended>>)
DoDepositBucket(i) ==
  /\ Running /\ cur = i /\ HasIns(i) /\ Fetch(i).op = "DB"
  /\ LET b == Fetch(i).b IN
     /\ bal' = [bal EXCEPT ![i][bk[i][b].r] = @ + bk[i][b].a]
     /\ bk' = [bk EXCEPT ![i] = Kill(i, {b})]
     /\ Adv(i) /\ Tick /\ FrameRest /\ Keep(<<wt, cur, stack, ended>>)
DoDepositAll(i) ==
  /\ Running /\ cur = i /\ HasIns(i) /\ Fetch(i).op = "D"
  /\ bal' = [bal EXCEPT ![i] = [r \in Res |-> bal[i][r] + wt[i][r]]]
  /\ wt' = [wt EXCEPT ![i] = EmptyW]
  /\ Adv(i) /\ Tick /\ FrameRest /\ Keep(<<bk, cur, stack, ended>>)
DoAssert(i) ==
  /\ Running /\ cur = i /\ HasIns(i) /\ Fetch(i).op = "AW"
  /\ LET x == Fetch(i) IN
     IF wt[i][x.r] < x.a THEN Fail("WorktopAssertionFailed")
     ELSE Adv(i) /\ Tick /\ FrameRest /\ Keep(<<wt, bk, bal, cur, stack, ended>>)
\* control moves to the child; the buckets arrive on the child's worktop
DoYieldToChild(i) ==
  /\ Running /\ cur = i /\ HasIns(i) /\ Fetch(i).op = "YC"
  /\ LET x == Fetch(i)
         ch == Children(i)[x.c]
     IN /\ wt' = [wt EXCEPT ![ch] = [r \in Res |-> wt[ch][r] + Moved(i, x.bs, r)]]
        /\ bk' = [bk EXCEPT ![i] = Kill(i, x.bs)]
        /\ stack' = Append(stack, i) /\ cur' = ch
        /\ Adv(i) /\ Tick /\ FrameRest /\ Keep(<<bal, ended>>)
\* control returns to the parent; a final YIELD_TO_PARENT ends the subintent (its worktop is dropped
\* and must be empty)
DoYieldToParent(i) ==
  /\ Running /\ cur = i /\ HasIns(i) /\ Fetch(i).op = "YP"
  /\ LET x == Fetch(i)
         p == stack[Len(stack)]
     IN IF x.last /\ wt[i] # EmptyW THEN Fail("DropNonEmptyWorktop")
        ELSE /\ wt' = [wt EXCEPT ![p] = [r \in Res |-> wt[p][r] + Moved(i, x.bs, r)]]
             /\ bk' = [bk EXCEPT ![i] = Kill(i, x.bs)]
             /\ stack' = SubSeq(stack, 1, Len(stack) - 1) /\ cur' = p
             /\ ended' = [ended EXCEPT ![i] = @ + (IF x.last THEN 1 ELSE 0)]
             /\ Adv(i) /\ Tick /\ FrameRest /\ Keep(<<bal>>)
\* the rule is checked against the auth zone of the DIRECT parent intent (its signers)
DoVerifyParent(i) ==
  /\ Running /\ cur = i /\ HasIns(i) /\ Fetch(i).op = "VP"
  /\ IF Fetch(i).k \in sc.sig[stack[Len(stack)]]
     THEN Adv(i) /\ Tick /\ FrameRest /\ Keep(<<wt, bk, bal, cur, stack, ended>>)
     ELSE Fail("VerifyParentFailed")
\* the root runs off its (complete) program: its worktop is dropped, everything is committed
DoEndRoot ==
  /\ Running /\ cur = 1 /\ fin[1] /\ AtEnd(1)
  /\ IF wt[1] # EmptyW THEN Fail("DropNonEmptyWorktop")
     ELSE /\ status' = "success" /\ err' = ""
          /\ ended' = [ended EXCEPT ![1] = @ + 1]
          /\ ledger' = bal
          /\ finalized' = finalized \cup (Intents \ {1})
          /\ Tick /\ UNCHANGED <<sc, prog, fin, pc, wt, bk, bal, cur, stack, round, results>>

Step == \E i \in Intents : \/ DoWithdraw(i) \/ DoTake(i) \/ DoTakeAll(i) \/ DoReturn(i) \/ DoDepositBucket(i)
                           \/ DoDepositAll(i) \/ DoAssert(i) \/ DoYieldToChild(i) \/ DoYieldToParent(i) \/ DoVerifyParent(i)

-----------------------------------------------------------------------------
\* ---- lazy driver (round 1): the running intent chooses its next instruction
LiveNow(i) == StaticLive(prog[i])
BucketSets(i) == {bs \in SUBSET LiveNow(i) : Cardinality(bs) <= 2}
WAccounts(i) == (IF "W" \in Ops THEN {i} ELSE {}) \cup (IF "WP" \in Ops /\ Par(i) # 0 THEN {Par(i)} ELSE {})
Candidates(i) ==
       {Withdraw(acc, r, a) : acc \in WAccounts(i), r \in Res, a \in Amts}
  \cup (IF "T" \in Ops /\ Cardinality(LiveNow(i)) < MaxLive THEN {Take(r, a) : r \in Res, a \in Amts} ELSE {})
  \cup (IF "TA" \in Ops /\ Cardinality(LiveNow(i)) < MaxLive THEN {TakeAll(r) : r \in Res} ELSE {})
  \cup (IF "R" \in Ops THEN {Return(b) : b \in LiveNow(i)} ELSE {})
  \cup (IF "DB" \in Ops THEN {DepositB(b) : b \in LiveNow(i)} ELSE {})
  \cup (IF "D" \in Ops THEN {DepositAll} ELSE {})
  \cup (IF "AW" \in Ops THEN {AssertW(r, a) : r \in Res, a \in Amts} ELSE {})
  \cup (IF "YC" \in Ops THEN {YieldC(c, bs) : c \in {c \in 1..Len(Children(i)) : CountYC(prog[i], c) < MaxYield}, bs \in BucketSets(i)} ELSE {})
  \cup (IF "YP" \in Ops /\ Par(i) # 0
        THEN {YieldP(bs, FALSE) : bs \in BucketSets(i)}
             \cup {YieldP(bs, TRUE) : bs \in {b2 \in BucketSets(i) : LiveNow(i) \ b2 = {}}}      \* no dangling bucket at the end
        ELSE {})
  \cup (IF "VP" \in Ops /\ Par(i) # 0 THEN {VerifyP(k) : k \in Intents} ELSE {})

Lazy == round = 1 /\ Running /\ AtEnd(cur) /\ ~fin[cur]
\* a choice that makes the transaction statically invalid: it is rejected before anything executes
\*  - YIELD_TO_CHILD to a child whose program is complete (more yields to it than it yields back)
\*  - an intent completes while one of its children is not complete (fewer yields to it than it yields back)
MakesInvalid(i, x) ==
  \/ x.op = "YC" /\ fin[Children(i)[x.c]]
  \/ x.op = "YP" /\ x.last /\ \E j \in ChildSet(i) : ~fin[j]
Extend ==
  /\ Lazy /\ Len(prog[cur]) < MaxLen /\ nexec < MaxTotal
  /\ \E x \in Candidates(cur) :
       /\ prog' = [prog EXCEPT ![cur] = Append(@, x)]
       /\ fin' = [fin EXCEPT ![cur] = (x.op = "YP" /\ x.last)]
       /\ IF MakesInvalid(cur, x)
          THEN Reject("MismatchingYieldChildAndYieldParentCounts")
          ELSE UNCHANGED <<status, err>>
       /\ UNCHANGED <<sc, pc, wt, bk, bal, ledger, cur, stack, ended, round, results, finalized, nexec>>
\* the root declares its program complete (needs no dangling bucket)
CloseRoot ==
  /\ Lazy /\ cur = 1 /\ LiveNow(1) = {}
  /\ fin' = [fin EXCEPT ![1] = TRUE]
  /\ IF \E j \in ChildSet(1) : ~fin[j] THEN Reject("MismatchingYieldChildAndYieldParentCounts") ELSE UNCHANGED <<status, err>>
  /\ UNCHANGED <<sc, prog, pc, wt, bk, bal, ledger, cur, stack, ended, round, results, finalized, nexec>>
\* a subintent declares its program complete although its last instruction is not YIELD_TO_PARENT
CloseWithoutYield ==
  /\ Lazy /\ cur # 1 /\ LiveNow(cur) = {} /\ "NOYP" \in Ops
  /\ ~EndsWithYP(prog[cur])        \* (a program that textually ends with a yield DOES end with YIELD_TO_PARENT)
  /\ fin' = [fin EXCEPT ![cur] = TRUE]
  /\ Reject("SubintentDoesNotEndWithYieldToParent")
  /\ UNCHANGED <<sc, prog, pc, wt, bk, bal, ledger, cur, stack, ended, round, results, finalized, nexec>>

\* ---- end of a round
Verdict == [st |-> status, err |-> err, bal |-> ledger]
\* a failure found at run time is only observable if the rest of the programs is statically valid:
\* "poison" completes the root with one more YIELD_TO_CHILD than its first child yields back
Finish1 ==
  /\ round = 1 /\ status \in {"success", "failed", "rejected"}
  /\ \E poison \in (IF status = "failed" /\ ChildSet(1) # {} /\ "POISON" \in Ops THEN BOOLEAN ELSE {FALSE}) :
       LET done == Completed(prog, fin)
           pr == IF poison THEN [done EXCEPT ![1] = Append(@, YieldC(1, {}))] ELSE done
           v == StaticVerdict(pr)
       IN /\ prog' = pr
          /\ fin' = [i \in Intents |-> TRUE]
          /\ results' = <<IF poison THEN [st |-> "rejected", err |-> "MismatchingYieldChildAndYieldParentCounts", bal |-> ledger] ELSE Verdict>>
          \* the re-submission: validated declaratively, then replay protection, then executed eagerly
          /\ IF v # "ok" THEN status' = "rejected" /\ err' = v
             ELSE IF finalized # {} THEN status' = "rejected" /\ err' = "IntentHashPreviouslyCommitted"
             ELSE status' = "run" /\ err' = ""
  /\ round' = 2
  /\ pc' = [i \in Intents |-> 1] /\ wt' = [i \in Intents |-> EmptyW] /\ bk' = [i \in Intents |-> <<>>]
  /\ bal' = ledger /\ cur' = 1 /\ stack' = <<>> /\ ended' = [i \in Intents |-> 0] /\ nexec' = 0
  /\ UNCHANGED <<sc, ledger, finalized>>
Finish2 ==
  /\ round = 2 /\ status \in {"success", "failed", "rejected"}
  /\ results' = Append(results, Verdict)
  /\ round' = 3
  /\ UNCHANGED <<sc, prog, fin, pc, wt, bk, bal, ledger, cur, stack, status, err, ended, finalized, nexec>>

Next == Step \/ DoEndRoot \/ Extend \/ CloseRoot \/ CloseWithoutYield \/ Finish1 \/ Finish2
Spec == Init /\ [][Next]_vars

-----------------------------------------------------------------------------
(* PROPERTIES *)
Sum2(f, S) == LET RECURSIVE Sm(_)
                  Sm(T) == IF T = {} THEN 0 ELSE LET x == CHOOSE x \in T : TRUE IN f[x] + Sm(T \ {x})
              IN Sm(S)
InBuckets(i, r) == LET RECURSIVE Sb(_)
                       Sb(n) == IF n = 0 THEN 0 ELSE Sb(n - 1) + (IF bk[i][n].live /\ bk[i][n].r = r THEN bk[i][n].a ELSE 0)
                   IN Sb(Len(bk[i]))
TotalOf(r) == Sum2([i \in Intents |-> bal[i][r] + wt[i][r] + InBuckets(i, r)], Intents)

\* (1) conservation across intents: whatever sequence of yields, nothing is duplicated or lost
Conservation == \A r \in Res : /\ TotalOf(r) = N * InitBal
                               /\ Sum2([i \in Intents |-> ledger[i][r]], Intents) = N * InitBal
\* (1) a yield moves exactly the named buckets to the other side's worktop and nothing else
YieldDelivers ==
  [][\A i \in Intents : (cur = i /\ cur' # i /\ status' = "run" /\ round' = round) =>
        LET x == prog[i][pc[i]]
        IN /\ x.op \in {"YC", "YP"}
           /\ \A r \in Res : wt'[cur'][r] = wt[cur'][r] + Moved(i, x.bs, r)
           /\ \A b \in x.bs : ~bk'[i][b].live
           /\ \A j \in Intents \ {cur'} : wt'[j] = wt[j]
           /\ bal' = bal]_vars
\* (3) control moves only parent -> child by YIELD_TO_CHILD and child -> its parent by YIELD_TO_PARENT,
\*     and the stack is the chain of ancestors of the running intent, each suspended at that yield
Alternation ==
  [][(cur' # cur /\ round' = round) =>
        LET x == prog[cur][pc[cur]]
        IN \/ x.op = "YC" /\ Par(cur') = cur /\ cur' = Children(cur)[x.c] /\ stack' = Append(stack, cur)
           \/ x.op = "YP" /\ cur' = Par(cur) /\ stack = Append(stack', cur')]_vars
StackIsAncestorChain ==
  status = "run" =>
    /\ (stack = <<>>) = (cur = 1)
    /\ stack # <<>> => stack[Len(stack)] = Par(cur) /\ stack[1] = 1
    /\ \A n \in 1..(Len(stack) - 1) : Par(stack[n + 1]) = stack[n]
    /\ \A n \in 1..Len(stack) : LET s == stack[n] nxt == IF n = Len(stack) THEN cur ELSE stack[n + 1]
                                 IN pc[s] > 1 /\ prog[s][pc[s] - 1].op = "YC" /\ Children(s)[prog[s][pc[s] - 1].c] = nxt
\* exactly one intent runs; every other intent is not started, ended, or suspended at its own yield
OthersSuspended ==
  status = "run" =>
    \A j \in Intents \ {cur} :
       \/ pc[j] = 1
       \/ prog[j][pc[j] - 1].op = "YC" /\ \E n \in 1..Len(stack) : stack[n] = j
       \/ prog[j][pc[j] - 1].op = "YP" /\ \A n \in 1..Len(stack) : stack[n] # j
\* (2) success <=> every intent ran to its end exactly once; a subintent ends with YIELD_TO_PARENT;
\*     nothing is left on any worktop or in any bucket
SuccessMeansAllEnded ==
  status = "success" =>
    /\ \A i \in Intents : ended[i] = 1 /\ fin[i] /\ AtEnd(i) /\ wt[i] = EmptyW /\ \A b \in 1..Len(bk[i]) : ~bk[i][b].live
    /\ \A i \in Intents \ {1} : EndsWithYP(prog[i]) /\ prog[i][Len(prog[i])].last
    /\ stack = <<>> /\ cur = 1
    /\ StaticVerdict(prog) = "ok"
NeverEndsTwice == \A i \in Intents : ended[i] <= 1
\* (2)/(3) a subintent that has ended is never resumed: only the root may run off the end of its program
\*     (a YIELD_TO_CHILD to an ended child exists only in statically rejected transactions)
EndedNeverResumed == status = "run" /\ cur # 1 => ~(fin[cur] /\ AtEnd(cur))
\* (2) a child that is never yielded to / left unfinished makes the transaction invalid (rejected): such
\*     programs never execute - whenever an intent completes, all its children are complete
ChildrenCompleteBeforeParent == status \in {"run", "success", "failed"} => \A i \in Intents : fin[i] => \A j \in ChildSet(i) : fin[j]
\* (4) VERIFY_PARENT passes iff the key signed the direct parent
VerifyParentRule ==
  [][\A i \in Intents : (status = "run" /\ cur = i /\ HasIns(i) /\ prog[i][pc[i]].op = "VP" /\ nexec' = nexec + 1) =>
        ((status' = "run") <=> (prog[i][pc[i]].k \in sc.sig[Par(i)]))
        /\ (status' = "failed" => err' = "VerifyParentFailed")]_vars
\* each intent's auth zone is its own: a withdrawal is authorised by the signers of THAT intent only
AuthIsPerIntent ==
  [][\A i \in Intents : (status = "run" /\ cur = i /\ HasIns(i) /\ prog[i][pc[i]].op = "W" /\ nexec' = nexec + 1) =>
        ((status' = "failed" /\ err' = "Unauthorized") <=> (prog[i][pc[i]].acc \notin sc.sig[i]))]_vars
\* (5) failure / rejection commits nothing (fees are paid by the faucet, outside the model) and does not
\*     finalize the subintents; success finalizes all of them
FailureRevertsInv ==
  (status \in {"failed", "rejected"} /\ round = 1) => (ledger = [i \in Intents |-> [r \in Res |-> InitBal]] /\ finalized = {})
FailureRevertsStep == [][status' \in {"failed", "rejected"} => ledger' = ledger /\ finalized' = finalized]_vars
\* (5) re-submission: after success the subintents cannot be replayed; after a failure they run again
\*     with the same result; the incremental (lazy) rejection agrees with the declarative validator
Resubmission ==
  round = 3 =>
    LET r1 == results[1] r2 == results[2] IN
    /\ r1.st = "success" /\ N > 1 => r2.st = "rejected" /\ r2.err = "IntentHashPreviouslyCommitted" /\ r2.bal = r1.bal
    /\ r1.st = "failed" => r2.st = "failed" /\ r2.err = r1.err /\ r2.bal = r1.bal
    /\ r1.st = "rejected" => r2 = r1
    /\ (r1.st = "rejected") = (StaticVerdict(prog) # "ok")
    /\ r1.st = "rejected" => r1.err = StaticVerdict(prog)
    /\ \A i \in Intents : NoDangling(prog[i])
TypeOK == /\ status \in {"run", "success", "failed", "rejected"} /\ cur \in Intents /\ round \in 1..3
          /\ \A i \in Intents : pc[i] \in 1..(Len(prog[i]) + 1) /\ \A r \in Res : wt[i][r] >= 0 /\ bal[i][r] >= 0
=============================================================================

SPECIFICATION Spec
CONSTANTS
  Scenarios <- ScenByName
  ScenName = "small"
  Res = {1}
  Amts = {1, 2}
  InitBal = 2
  MaxLen = 4
  MaxTotal = 6
  MaxYield = 2
  MaxLive = 1
  Ops <- OpsByName
  OpsName = "full"
INVARIANTS Emit TypeOK Conservation StackIsAncestorChain OthersSuspended SuccessMeansAllEnded NeverEndsTwice EndedNeverResumed ChildrenCompleteBeforeParent FailureRevertsInv Resubmission
PROPERTIES YieldDelivers Alternation VerifyParentRule AuthIsPerIntent FailureRevertsStep
CHECK_DEADLOCK FALSE

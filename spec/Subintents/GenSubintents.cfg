SPECIFICATION Spec
CONSTANTS
  Scenarios <- ScenByName
  ScenName = "mid"
  Res = {1, 2}
  Amts = {1, 2}
  InitBal = 2
  MaxLen = 4
  MaxTotal = 6
  MaxYield = 2
  MaxLive = 2
  Ops <- OpsByName
  OpsName = "full"
INVARIANT Emit
CHECK_DEADLOCK FALSE

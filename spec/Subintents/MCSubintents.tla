---------------------------- MODULE MCSubintents ----------------------------
(* Instances of Subintents.tla: scenario sets (tree shapes x signers), instruction alphabets, and the
   behaviour printer used for the binding (one JSON line per finished behaviour: scenario, the
   completed programs and the verdicts of the three rounds).                                   *)
EXTENDS Subintents, Json
CONSTANTS ScenName, OpsName      \* select a scenario set / alphabet by name (cfg: ScenName = "small")

\* intent i is always signed by its own key i; "+" marks extra signers
Flat1   == [par |-> <<0, 1>>,       sig |-> <<{1}, {2}>>]
Flat1x  == [par |-> <<0, 1>>,       sig |-> <<{1, 2}, {2}>>]          \* root also signed by the child's key
Flat1y  == [par |-> <<0, 1>>,       sig |-> <<{1}, {2, 1}>>]          \* child also signed by the root's key (may withdraw from the root's account)
Flat2   == [par |-> <<0, 1, 1>>,    sig |-> <<{1}, {2}, {3}>>]
Chain2  == [par |-> <<0, 1, 2>>,    sig |-> <<{1}, {2}, {3}>>]        \* root -> 2 -> 3
Chain2x == [par |-> <<0, 1, 2>>,    sig |-> <<{1, 3}, {2}, {3, 1}>>]  \* grandchild also signed by the root's key
Tree3   == [par |-> <<0, 1, 2, 1>>, sig |-> <<{1}, {2}, {3}, {4}>>]   \* root -> 2 -> 3, root -> 4
Solo    == [par |-> <<0>>,          sig |-> <<{1}>>]

ScenSmall == {Flat1, Flat1y}
ScenMid   == {Flat1, Flat1x, Flat1y, Flat2, Chain2, Chain2x, Solo}
ScenAll   == {Flat1, Flat1x, Flat1y, Flat2, Chain2, Chain2x, Tree3, Solo}

OpsCore == {"W", "T", "TA", "R", "D", "AW", "YC", "YP", "VP"}
OpsFull == AllOps \cup {"NOYP", "POISON"}
OpsMove == {"W", "TA", "D", "YC", "YP", "POISON"}

ScenByName == CASE ScenName = "small" -> ScenSmall [] ScenName = "mid" -> ScenMid [] ScenName = "all" -> ScenAll
                [] ScenName = "quick2" -> {Chain2, Flat2} [] ScenName = "flat1" -> {Flat1} [] ScenName = "chain" -> {Chain2, Chain2x} [] ScenName = "tree" -> {Tree3, Flat2}
OpsByName == CASE OpsName = "core" -> OpsCore [] OpsName = "full" -> OpsFull [] OpsName = "move" -> OpsMove

\* one line per finished behaviour (round 3 reached); round 3 itself (the identical transaction again)
\* is always rejected: statically invalid, or its transaction intent was committed in round 1
Emit == round = 3 => PrintT(<<"B", ToJson([par |-> sc.par, sig |-> sc.sig, prog |-> prog,
                                           r1 |-> results[1], r2 |-> results[2],
                                           r3 |-> [st |-> "rejected",
                                                   err |-> IF results[1].st = "rejected" THEN results[1].err ELSE "IntentHashPreviouslyCommitted"]])>>)
\* states after round 3 are terminal
Terminal == round = 3
=============================================================================

SPECIFICATION SimSpec
CONSTANTS
  TVals <- TSim
  Rounds = {0, 1, 2, 3, 4, 5, 6, 7, 8}
  MinRounds = 2
  MaxRounds = 4
  Target = 60000
  InitMs = 120000
  MaxEpoch = 1000
  BaseMin = 28000000
  K = 15
INVARIANTS BigAgrees EmitSim
CHECK_DEADLOCK FALSE

SPECIFICATION GSpec
CONSTANTS
  TVals <- TNeg
  Rounds = {0, 1, 2, 3, 4, 5}
  MinRounds = 2
  MaxRounds = 4
  Target = 60000
  InitMs <- InitNeg
  MaxEpoch = 2
  BaseMin = 0
  K = 0
CONSTRAINT Bound
VIEW View
INVARIANTS MinuteIsRoundedClock CompareAgreesWithClock BigAgrees Emit
PROPERTIES TimeNeverDecreases RoundsAdvanceWithinEpoch EpochStepsByOne RefusedChangesNothing
CHECK_DEADLOCK FALSE

--------------------------- MODULE MCGenConsensus ---------------------------
EXTENDS GenConsensus
\* (all positive-run times are >= 2 minutes so that every queried instant is positive as well: the harness
\* shifts this run by whole minutes, which must not change any sign)
TPos == {120000 + x : x \in {0, 500, 1000, 59500, 60000, 60500, 66000, 66500, 119500, 120000, 126500}}
TNeg == {-121000, -120000, -60500, -60000, -59500, -1000, -500, 0, 500, 1000, 59500, 60000, 61000}
\* Sim walks on: times up to 10 minutes in steps that hit and miss minute boundaries
TSim == {120000 + x : x \in {k * 20000 : k \in 0..30} \cup {59999, 60001, 119999, 120001, 180500}}
InitNeg == -121000
=============================================================================

----------------------------- MODULE MCConsensus -----------------------------
EXTENDS Consensus
\* around two minute boundaries, with sub-second and sub-minute offsets
\* (all positive-run times are >= 2 minutes so that every queried instant is positive as well: the harness
\* shifts this run by whole minutes, which must not change any sign)
TPos == {120000 + x : x \in {0, 500, 1000, 59500, 60000, 60500, 66000, 66500, 119500, 120000, 126500}}
\* across zero: the minute and second clocks truncate toward zero
TNeg == {-121000, -120000, -60500, -60000, -59500, -1000, -500, 0, 500, 1000, 59500, 60000, 61000}
InitNeg == -121000
=============================================================================

------------------------------ MODULE Consensus ------------------------------
(* C44.  The clock and round / epoch counters of the consensus manager
   (radix-engine/src/blueprints/consensus_manager/consensus_manager.rs: next_round,
   check_non_decreasing_and_update_timestamps, get_current_time, compare_current_time;
   EpochChangeCondition::should_epoch_change in radix-engine-interface).

   Times are milliseconds.  (For the run far from 0 the harness adds a whole number of minutes to all
   times; everything below only depends on differences and on the sign, which that preserves.)
   One action: NextRound(r, t), total - it also gives the refusals.                              *)
EXTENDS Integers, FiniteSets, Sequences, TLC
CONSTANTS TVals,        \* proposer timestamps that may be offered (ms)
          Rounds,       \* round numbers that may be offered
          MinRounds, MaxRounds, Target,   \* the epoch change condition (target duration in ms)
          InitMs,       \* genesis time
          MaxEpoch      \* bound of the exploration
VARIABLES epoch, round, ms, minute, effStart, last
vars == <<epoch, round, ms, minute, effStart, last>>
View == <<epoch, round, ms, minute, effStart>>

\* Rust integer division truncates toward zero
TruncDiv(a, b) == IF a >= 0 THEN a \div b ELSE -((-a) \div b)
MinuteOf(t) == TruncDiv(t, 60000)
SecondOf(t) == TruncDiv(t, 1000)
Max(a, b) == IF a >= b THEN a ELSE b

\* should_epoch_change
Duration(t, es) == IF t >= 0 /\ es >= 0 /\ t > es THEN t - es ELSE 0
ChangeMet(d, r) == IF r >= MaxRounds THEN TRUE ELSE IF r < MinRounds THEN FALSE ELSE d >= Target
\* "actual duration close to target": (d - Target) / Target <= 0.1, only for d, Target >= 1 s
Close(d) == d >= 1000 /\ Target >= 1000 /\ (d - Target) * 10 <= Target

S == [epoch |-> epoch, round |-> round, ms |-> ms, minute |-> minute, effStart |-> effStart]
\* result and next state of next_round(r, t) in state s
Step(s, r, t) ==
  IF t < s.ms THEN [res |-> "InvalidProposerTimestampUpdate", st |-> s, change |-> FALSE]
  ELSE IF r <= s.round THEN [res |-> "InvalidRoundUpdate", st |-> s, change |-> FALSE]
  ELSE LET d == Duration(t, s.effStart)
           timed == [s EXCEPT !.ms = t, !.minute = Max(s.minute, MinuteOf(t))]
       IN IF ChangeMet(d, r)
          THEN [res |-> "ok", change |-> TRUE,
                st |-> [timed EXCEPT !.epoch = s.epoch + 1, !.round = 0,
                                     !.effStart = IF Close(d) THEN s.effStart + Target ELSE t]]
          ELSE [res |-> "ok", change |-> FALSE, st |-> [timed EXCEPT !.round = r]]

Init == /\ epoch = 0 /\ round = 0 /\ ms = InitMs /\ minute = MinuteOf(InitMs) /\ effStart = InitMs
        /\ last = [r |-> 0, t |-> InitMs, res |-> "init", change |-> FALSE]
NextRound(r, t) ==
  LET o == Step(S, r, t) IN
  /\ epoch' = o.st.epoch /\ round' = o.st.round /\ ms' = o.st.ms /\ minute' = o.st.minute /\ effStart' = o.st.effStart
  /\ last' = [r |-> r, t |-> t, res |-> o.res, change |-> o.change]
Next == \E r \in Rounds, t \in TVals : NextRound(r, t)
Spec == Init /\ [][Next]_vars
Bound == epoch <= MaxEpoch

---------------------------------------------------------------------------
\* what components see
GetTime(s, prec) == IF prec = "Minute" THEN s.minute * 60 ELSE SecondOf(s.ms)
Cmp(a, op, b) == CASE op = "Eq" -> a = b [] op = "Lt" -> a < b [] op = "Lte" -> a <= b
                   [] op = "Gt" -> a > b [] OTHER -> a >= b
\* compare_current_time(instant i in seconds, precision, operator): current `op` instant, the instant
\* rounded to the precision first
Compare(s, i, prec, op) ==
  IF prec = "Minute" THEN Cmp(s.minute * 60, op, MinuteOf(i * 1000) * 60)
  ELSE Cmp(SecondOf(s.ms), op, i)
Ops == {"Eq", "Lt", "Lte", "Gt", "Gte"}
Precisions == {"Minute", "Second"}

\* The same comparison on the MATHEMATICAL values (unbounded integers, spec/common/BigInt), for any instant of the i64
\* range: clock = the absolute clock value in seconds the component can read at that precision, i = the instant in
\* seconds.  There is no saturation in it: an instant beyond every representable clock simply is later (earlier) than
\* the clock, whatever the code converts it to on the way.
B == INSTANCE BigInt
BTrunc60(i) == B!Mul(B!Mk(i.s, B!DivSmall(i, 60).l), B!FromInt(60))     \* toward zero, as MinuteOf(i * 1000) * 60
BOp(c, op) == CASE op = "Eq" -> c = 0 [] op = "Lt" -> c < 0 [] op = "Lte" -> c <= 0 [] op = "Gt" -> c > 0 [] OTHER -> c >= 0
CompareBig(clock, i, prec, op) == BOp(B!Cmp(clock, IF prec = "Minute" THEN BTrunc60(i) ELSE i), op)

---------------------------------------------------------------------------
\* Properties (C44)
TimeNeverDecreases == [][ms' >= ms /\ minute' >= minute]_vars
MinuteIsRoundedClock == minute = MinuteOf(ms)
RoundsAdvanceWithinEpoch == [][(epoch' = epoch /\ last'.res = "ok") => round' > round]_vars
EpochStepsByOne == [][epoch' \in {epoch, epoch + 1} /\ (epoch' # epoch => round' = 0)]_vars
RefusedChangesNothing == [][last'.res # "ok" => UNCHANGED <<epoch, round, ms, minute, effStart>>]_vars
\* comparisons agree with the recorded clock: comparing with an instant is comparing the clock value the
\* component can read with that instant rounded down (toward zero) to the precision
CompareAgreesWithClock ==
  \A i \in {-121, -120, -61, -60, -59, -1, 0, 1, 59, 60, 61, 119, 120, 121, 180} : \A op \in Ops :
     /\ Compare(S, i, "Second", op) = Cmp(GetTime(S, "Second"), op, i)
     /\ Compare(S, i, "Minute", op) = Cmp(GetTime(S, "Minute"), op, TruncDiv(i, 60) * 60)
=============================================================================

SPECIFICATION Spec
CONSTANTS
  TVals <- TPos
  Rounds = {0, 1, 2, 3, 4, 5}
  MinRounds = 2
  MaxRounds = 4
  Target = 60000
  InitMs = 120000
  MaxEpoch = 2
CONSTRAINT Bound
VIEW View
INVARIANTS MinuteIsRoundedClock CompareAgreesWithClock
PROPERTIES TimeNeverDecreases RoundsAdvanceWithinEpoch EpochStepsByOne RefusedChangesNothing
CHECK_DEADLOCK FALSE

----------------------------- MODULE GenConsensus -----------------------------
(* C44, spec -> implementation: every reachable state of the bounded model is reached once by a
   shortest sequence of next-round calls (`path`, history hidden from the state identity); from it
   a `fan` of all single calls (every offered round x every offered timestamp, valid or not) with the
   result and next state the model demands; and the `queries`: what get_current_time and
   compare_current_time must answer in that state for instants around the clock's minute and second
   (minute +- {0, 1 s, 59 s, 60 s}, second +- 1) for all five operators and both precisions, and `farq`: the same for
   the instants at the edges of the i64 range and of the code's conversions (FarInstants), decided on unbounded integers.
   Sim: seeded random sequences of K calls.                                                    *)
EXTENDS Consensus, Json
CONSTANTS K,
          BaseMin    \* whole minutes the harness adds to every time of this run (the model's times are relative to it)
VARIABLE hist

Rec(r, t, o) == [r |-> r, t |-> t, res |-> o.res, change |-> o.change, st |-> o.st]
GInit == Init /\ hist = <<>>
GNext == \E r \in Rounds, t \in TVals :
            /\ NextRound(r, t)
            /\ hist' = Append(hist, Rec(r, t, Step(S, r, t)))
GSpec == GInit /\ [][GNext]_<<vars, hist>>

SetToSeqAsc(T) == LET RECURSIVE Asc(_)
                      Asc(U) == IF U = {} THEN <<>>
                                ELSE LET m == CHOOSE x \in U : \A y \in U : x <= y IN <<m>> \o Asc(U \ {m})
                  IN Asc(T)
Instants(s) == {s.minute * 60 + d : d \in {-60, -59, -1, 0, 1, 59, 60}} \cup {SecondOf(s.ms) + d : d \in {-1, 0, 1}}
Queries(s) == {[i |-> i, prec |-> p, op |-> op, exp |-> Compare(s, i, p, op)] : i \in Instants(s), p \in Precisions, op \in Ops}
\* Instants at the edges of the i64 range and of the conversions compare_current_time performs (seconds * 1000 must
\* fit i64: |i| <= 9223372036854775; the minute must fit i32: -2^31 * 60 - 59 <= i <= 2^31 * 60 - 1), ABSOLUTE values;
\* always asked, in every state, x five operators x both precisions; expected answer = CompareBig on the
\* mathematical values with the absolute clock
I64Max == B!Sub(B!Pow2(63), B!One)
I64Min == B!Neg(B!Pow2(63))
M31    == B!Mul(B!Pow2(31), B!FromInt(60))
MulMax == B!DivSmall(I64Max, 1000)
Off(x, d) == B!Add(x, B!FromInt(d))
FarInstants ==
  {I64Min, Off(I64Min, 1), Off(B!Neg(MulMax), -1), B!Neg(MulMax), Off(B!Neg(M31), -61), Off(B!Neg(M31), -60), Off(B!Neg(M31), -59),
   Off(B!Neg(M31), -1), B!Neg(M31), B!Zero, Off(M31, -1), M31, Off(M31, 1), Off(M31, 60), MulMax, Off(MulMax, 1), Off(I64Max, -1), I64Max}
AbsClock(s, prec) == B!Add(B!Mul(B!FromInt(BaseMin), B!FromInt(60)), B!FromInt(GetTime(s, prec)))
FarQueries(s) == {[big |-> i, prec |-> p, op |-> op, exp |-> CompareBig(AbsClock(s, p), i, p, op)] : i \in FarInstants, p \in Precisions, op \in Ops}
\* S: on the instants near the clock the two formulations of the comparison coincide, and every far instant other than 0
\* compares like +- infinity (the clock of the bounded model is far inside the range)
BigAgrees ==
  /\ \A i \in Instants(S), p \in Precisions, op \in Ops :
        CompareBig(AbsClock(S, p), B!Add(B!Mul(B!FromInt(BaseMin), B!FromInt(60)), B!FromInt(i)), p, op) = Compare(S, i, p, op)
  /\ \A q \in FarQueries(S) : q.big # B!Zero => q.exp = Cmp(0, q.op, q.big.s)
InitRec == [epoch |-> 0, round |-> 0, ms |-> InitMs, minute |-> MinuteOf(InitMs), effStart |-> InitMs]
Emit == Bound => PrintT(<<"B", ToJson(
  [init |-> InitRec, path |-> hist,
   fan |-> {Rec(r, t, Step(S, r, t)) : r \in Rounds, t \in TVals},
   gets |-> [Minute |-> GetTime(S, "Minute"), Second |-> GetTime(S, "Second")],
   queries |-> Queries(S), farq |-> FarQueries(S)])>>)

\* Sim
SimNext == /\ Len(hist) < K
           /\ \E r \in {RandomElement(Rounds)}, t \in {RandomElement(TVals)}, up \in {RandomElement(1..3)} :
                \* two of three steps offer a round above the current one and a time not before the clock
                \E rr \in {IF up > 1 THEN round + RandomElement(1..2) ELSE r} :
                \E tt \in {IF up > 1 /\ {x \in TVals : x >= ms} # {} THEN RandomElement({x \in TVals : x >= ms}) ELSE t} :
                   /\ NextRound(rr, tt)
                   /\ hist' = Append(hist, Rec(rr, tt, Step(S, rr, tt)))
SimSpec == GInit /\ [][SimNext]_<<vars, hist>>
EmitSim == Len(hist) = K => PrintT(<<"B", ToJson(
  [init |-> InitRec, path |-> hist, fan |-> {},
   gets |-> [Minute |-> GetTime(S, "Minute"), Second |-> GetTime(S, "Second")], queries |-> Queries(S), farq |-> FarQueries(S)])>>)
=============================================================================

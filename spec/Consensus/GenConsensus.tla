----------------------------- MODULE GenConsensus -----------------------------
(* C44, spec -> implementation: every reachable state of the bounded model is reached once by a
   shortest sequence of next-round calls (`path`, history hidden from the state identity); from it
   a `fan` of all single calls (every offered round x every offered timestamp, valid or not) with the
   result and next state the model demands; and the `queries`: what get_current_time and
   compare_current_time must answer in that state for instants around the clock's minute and second
   (minute +- {0, 1 s, 59 s, 60 s}, second +- 1) for all five operators and both precisions.
   Sim: seeded random sequences of K calls.                                                    *)
EXTENDS Consensus, Json
CONSTANTS K
VARIABLE hist

Rec(r, t, o) == [r |-> r, t |-> t, res |-> o.res, change |-> o.change, st |-> o.st]
GInit == Init /\ hist = <<>>
GNext == \E r \in Rounds, t \in TVals :
            /\ NextRound(r, t)
            /\ hist' = Append(hist, Rec(r, t, Step(S, r, t)))
GSpec == GInit /\ [][GNext]_<<vars, hist>>

SetToSeqAsc(T) == LET RECURSIVE Asc(_)
                      Asc(U) == IF U = {} THEN <<>>
                                ELSE LET m == CHOOSE x \in U : \A y \in U : x <= y IN <<m>> \o Asc(U \ {m})
                  IN Asc(T)
Instants(s) == {s.minute * 60 + d : d \in {-60, -59, -1, 0, 1, 59, 60}} \cup {SecondOf(s.ms) + d : d \in {-1, 0, 1}}
Queries(s) == {[i |-> i, prec |-> p, op |-> op, exp |-> Compare(s, i, p, op)] : i \in Instants(s), p \in Precisions, op \in Ops}
InitRec == [epoch |-> 0, round |-> 0, ms |-> InitMs, minute |-> MinuteOf(InitMs), effStart |-> InitMs]
Emit == Bound => PrintT(<<"B", ToJson(
  [init |-> InitRec, path |-> hist,
   fan |-> {Rec(r, t, Step(S, r, t)) : r \in Rounds, t \in TVals},
   gets |-> [Minute |-> GetTime(S, "Minute"), Second |-> GetTime(S, "Second")],
   queries |-> Queries(S)])>>)

\* Sim
SimNext == /\ Len(hist) < K
           /\ \E r \in {RandomElement(Rounds)}, t \in {RandomElement(TVals)}, up \in {RandomElement(1..3)} :
                \* two of three steps offer a round above the current one and a time not before the clock
                \E rr \in {IF up > 1 THEN round + RandomElement(1..2) ELSE r} :
                \E tt \in {IF up > 1 /\ {x \in TVals : x >= ms} # {} THEN RandomElement({x \in TVals : x >= ms}) ELSE t} :
                   /\ NextRound(rr, tt)
                   /\ hist' = Append(hist, Rec(rr, tt, Step(S, rr, tt)))
SimSpec == GInit /\ [][SimNext]_<<vars, hist>>
EmitSim == Len(hist) = K => PrintT(<<"B", ToJson(
  [init |-> InitRec, path |-> hist, fan |-> {},
   gets |-> [Minute |-> GetTime(S, "Minute"), Second |-> GetTime(S, "Second")], queries |-> Queries(S)])>>)
=============================================================================

SPECIFICATION GSpec
CONSTANTS
  TVals <- TPos
  Rounds = {0, 1, 2, 3, 4, 5}
  MinRounds = 2
  MaxRounds = 4
  Target = 60000
  InitMs = 120000
  MaxEpoch = 2
  BaseMin = 28000000
  K = 0
CONSTRAINT Bound
VIEW View
INVARIANTS MinuteIsRoundedClock CompareAgreesWithClock BigAgrees Emit
PROPERTIES TimeNeverDecreases RoundsAdvanceWithinEpoch EpochStepsByOne RefusedChangesNothing
CHECK_DEADLOCK FALSE

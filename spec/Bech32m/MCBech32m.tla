----------------------------- MODULE MCBech32m -----------------------------
(* S for C28 (addresses): every data part of up to MaxTail bytes after an entity byte, on every
   pair of networks, for entity types of several HRP classes; one mutation per behaviour
   (single-character substitution anywhere, upper-casing, mixed case, HRP of another entity class
   with a recomputed checksum, another network).  The laws are invariants.                  *)
EXTENDS Bech32m, TLC
CONSTANTS MaxTail
VARIABLES net, data, text, mut
vars == <<net, data, text, mut>>

Sim  == <<115, 105, 109>>          \* "sim"
Rdx  == <<114, 100, 120>>          \* "rdx"
T21  == <<116, 100, 120, 95, 50, 49, 95>>   \* "tdx_21_" (contains the separator character)
Nets == {Sim, Rdx, T21}
Entities == {13, 93, 193, 209, 88}                   \* package, resource, account, account (preallocated), internal vault
TailBytes == {0, 90, 255}
Tails == UNION {[1..n -> TailBytes] : n \in 0..MaxTail}
SubstChars == {48, 49, 50, 95, 97, 108, 113, 65, 81, 33, 126, 128}     \* 0 1 2 _ a l q A Q ! ~ and a non-ASCII code

Init == /\ net \in Nets /\ \E e \in Entities, t \in Tails : data = <<e>> \o t
        /\ text = EncodeAddr(net, data) /\ mut = "none"
Substitute == mut = "none" /\ \E i \in 1..Len(text), c \in SubstChars :
                 c # text[i] /\ text' = [text EXCEPT ![i] = c] /\ mut' = "subst" /\ UNCHANGED <<net, data>>
UpperCase  == mut = "none" /\ text' = UpperS(text) /\ mut' = "upper" /\ UNCHANGED <<net, data>>
MixedCase  == mut = "none" /\ \E i \in 1..Len(text) : IsLowerC(text[i]) /\ text' = [text EXCEPT ![i] = UpperC(text[i])]
                 /\ mut' = "mixed" /\ UNCHANGED <<net, data>>
\* what an attacker can do: present the data under the HRP of another entity class, with a correct checksum
HrpSwap    == mut = "none" /\ \E e \in EntityBytes : EntityHrp(e) # EntityHrp(data[1])
                 /\ text' = EncodeWithHrp(HrpFor(e, net), data) /\ mut' = "hrpswap" /\ UNCHANGED <<net, data>>
OtherNet   == mut = "none" /\ \E n \in Nets \ {net} : text' = EncodeAddr(n, data) /\ mut' = "othernet" /\ UNCHANGED <<net, data>>
DropChar   == mut = "none" /\ \E i \in 1..Len(text) : text' = SubSeq(text, 1, i - 1) \o SubSeq(text, i + 1, Len(text))
                 /\ mut' = "drop" /\ UNCHANGED <<net, data>>
Next == Substitute \/ UpperCase \/ MixedCase \/ HrpSwap \/ OtherNet \/ DropChar
Spec == Init /\ [][Next]_vars

R == DecodeAddr(net, text)
RoundTrip      == mut = "none"  => (R.ok /\ R.bytes = data)
NetworkBound   == mut \in {"none", "upper"} => \A n \in Nets \ {net} : ~DecodeAddr(n, text).ok
UpperAccepted  == mut = "upper" => (R.ok /\ R.bytes = data)
SubstRejected  == mut \in {"subst", "mixed"} => ~R.ok
EntityBound    == mut = "hrpswap" => ~R.ok
OtherNetRejected == mut = "othernet" => ~R.ok
\* dropping one character never yields another accepted address of the same data length class silently equal to data
DropNotSame    == mut = "drop" => (R.ok => R.bytes # data)
\* the encoder's text is lower case, uses only the charset after the separator and has the specified length
Shape == mut = "none" => /\ Len(text) = Len(HrpFor(data[1], net)) + 1 + ((8 * Len(data) + 4) \div 5) + 6
                         /\ \A i \in 1..Len(text) : ~IsUpperC(text[i])

XrdBytes == <<93, 166, 99, 24, 198, 49, 140, 97, 245, 166, 27, 76, 99, 24, 198, 49, 140, 247, 148, 170, 141, 41, 95, 20, 230, 49, 140, 99, 24, 198>>
ASSUME EncodeAddr(Rdx, XrdBytes) = <<114, 101, 115, 111, 117, 114, 99, 101, 95, 114, 100, 120, 49, 116, 107, 110, 120, 120, 120, 120, 120, 120, 120, 120, 120, 114, 97, 100, 120, 114, 100, 120, 120, 120, 120, 120, 120, 120, 120, 120, 48, 48, 57, 57, 50, 51, 53, 53, 52, 55, 57, 56, 120, 120, 120, 120, 120, 120, 120, 120, 120, 114, 97, 100, 120, 114, 100>>
ASSUME DecodeTyped("resource", Rdx, EncodeAddr(Rdx, XrdBytes)).bytes = XrdBytes /\ ~DecodeTyped("package", Rdx, EncodeAddr(Rdx, XrdBytes)).ok
ASSUME ~DecodeAny(<<97, 49, 50, 117, 101, 108, 53, 108>>).ok                 \* valid Bech32 (not m) test vector "a12uel5l"
ASSUME DecodeAny(<<97, 49, 108, 113, 102, 110, 51, 97>>).ok                  \* valid Bech32m test vector "a1lqfn3a"
ASSUME DecodeAny(<<65, 49, 76, 81, 70, 78, 51, 65>>).ok                  \* upper case form
ASSUME ~DecodeAny(<<65, 49, 108, 113, 102, 110, 51, 97>>).ok                 \* mixed case
ASSUME DecodeAny(<<97, 98, 99, 100, 101, 102, 49, 108, 55, 97, 117, 109, 54, 101, 99, 104, 107, 52, 53, 110, 106, 51, 115, 48, 119, 100, 118, 116, 50, 102, 103, 56, 120, 57, 121, 114, 122, 112, 113, 122, 100, 51, 114, 121, 120>>).bytes = <<255, 187, 205, 235, 56, 189, 171, 73, 202, 48, 123, 154, 197, 169, 40, 57, 138, 65, 136, 32>>
=============================================================================

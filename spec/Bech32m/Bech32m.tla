------------------------------ MODULE Bech32m ------------------------------
(* C28.  Bech32m text form of entity addresses (radix-common/src/address/{encoder,decoder,hrpset}.rs
   on top of the bech32 crate 0.9.1).  Text and HRPs are sequences of character codes.

   EncodeAddr(suffix, data)  = hrp(entity type of data[1]) \o suffix \o "1" \o base32(data) \o checksum
   DecodeAddr(suffix, text)  = the inverse with every check of the code: last '1' separates, HRP
     1..83 characters in 33..126, no mixed case over the whole text (all-upper-case text is accepted
     and folded to lower case), data characters from the charset, at least 6 of them, BCH checksum
     with the Bech32m constant 0x2bc830a3 (the Bech32 constant 1 is refused), 5->8 bit regrouping
     with at most 4 zero padding bits, a first data byte that is an entity type, and an HRP equal
     to the HRP of that entity type on the decoder's network.                               *)
EXTENDS Integers, Sequences, FiniteSets, Bitwise

EntityBytes == {13, 134, 131, 130, 192, 193, 194, 195, 196, 197, 198, 104, 209, 210, 81, 82, 93, 88, 154, 152, 248, 176}
\* hrpset.rs: HRP prefix per entity type (the network's hrp_suffix is appended)
EntityHrp(e) ==
  CASE e \in {13} -> <<112, 97, 99, 107, 97, 103, 101, 95>>   \* "package_"
    [] e \in {93, 154} -> <<114, 101, 115, 111, 117, 114, 99, 101, 95>>   \* "resource_"
    [] e \in {192} -> <<99, 111, 109, 112, 111, 110, 101, 110, 116, 95>>   \* "component_"
    [] e \in {193, 209, 81} -> <<97, 99, 99, 111, 117, 110, 116, 95>>   \* "account_"
    [] e \in {194, 210, 82} -> <<105, 100, 101, 110, 116, 105, 116, 121, 95>>   \* "identity_"
    [] e \in {134} -> <<99, 111, 110, 115, 101, 110, 115, 117, 115, 109, 97, 110, 97, 103, 101, 114, 95>>   \* "consensusmanager_"
    [] e \in {131} -> <<118, 97, 108, 105, 100, 97, 116, 111, 114, 95>>   \* "validator_"
    [] e \in {195} -> <<97, 99, 99, 101, 115, 115, 99, 111, 110, 116, 114, 111, 108, 108, 101, 114, 95>>   \* "accesscontroller_"
    [] e \in {196, 197, 198} -> <<112, 111, 111, 108, 95>>   \* "pool_"
    [] e \in {104} -> <<108, 111, 99, 107, 101, 114, 95>>   \* "locker_"
    [] e \in {130} -> <<116, 114, 97, 110, 115, 97, 99, 116, 105, 111, 110, 116, 114, 97, 99, 107, 101, 114, 95>>   \* "transactiontracker_"
    [] e \in {88, 152} -> <<105, 110, 116, 101, 114, 110, 97, 108, 95, 118, 97, 117, 108, 116, 95>>   \* "internal_vault_"
    [] e \in {248} -> <<105, 110, 116, 101, 114, 110, 97, 108, 95, 99, 111, 109, 112, 111, 110, 101, 110, 116, 95>>   \* "internal_component_"
    [] e \in {176} -> <<105, 110, 116, 101, 114, 110, 97, 108, 95, 107, 101, 121, 118, 97, 108, 117, 101, 115, 116, 111, 114, 101, 95>>   \* "internal_keyvaluestore_"
HrpFor(e, suffix) == EntityHrp(e) \o suffix

Charset == <<113, 112, 122, 114, 121, 57, 120, 56, 103, 102, 50, 116, 118, 100, 119, 48, 115, 51, 106, 110, 53, 52, 107, 104, 99, 101, 54, 109, 117, 97, 55, 108>>   \* "qpzry9x8gf2tvdw0s3jn54khce6mua7l"
IsLowerC(c) == c \in 97..122
IsUpperC(c) == c \in 65..90
LowerC(c) == IF IsUpperC(c) THEN c + 32 ELSE c
UpperC(c) == IF IsLowerC(c) THEN c - 32 ELSE c
LowerS(s) == [i \in 1..Len(s) |-> LowerC(s[i])]
UpperS(s) == [i \in 1..Len(s) |-> UpperC(s[i])]
\* value 0..31 of a data character, -1 if it is not in the charset (either case)
CharValTable == [c \in 0..127 |-> LET l == LowerC(c) IN
                   IF \E i \in 1..32 : Charset[i] = l THEN (CHOOSE i \in 1..32 : Charset[i] = l) - 1 ELSE -1]
CharVal(c) == IF c \in 0..127 THEN CharValTable[c] ELSE -1

\* BCH checksum over GF(32)
Gen == <<996825010, 642813549, 513874426, 1027748829, 705979059>>       \* 0x3b6a57b2 0x26508e6d 0x1ea119fa 0x3d4233dd 0x2a1462b3
Bech32mConst == 734539939                                          \* 0x2bc830a3
PolyStep(chk, v) ==
  LET top == shiftR(chk, 25)
      c0  == ((chk & 33554431) * 32) ^^ v
      X(c, i) == IF (shiftR(top, i) & 1) = 1 THEN c ^^ Gen[i + 1] ELSE c
  IN X(X(X(X(X(c0, 0), 1), 2), 3), 4)
RECURSIVE PolyFrom(_, _, _)
PolyFrom(vals, i, chk) == IF i > Len(vals) THEN chk ELSE PolyFrom(vals, i + 1, PolyStep(chk, vals[i]))
Polymod(vals) == PolyFrom(vals, 1, 1)
HrpExpand(h) == [i \in 1..Len(h) |-> h[i] \div 32] \o <<0>> \o [i \in 1..Len(h) |-> h[i] % 32]
Checksum(h, data5) ==
  LET pm == Polymod(HrpExpand(h) \o data5 \o <<0, 0, 0, 0, 0, 0>>) ^^ Bech32mConst
  IN [i \in 1..6 |-> shiftR(pm, 5 * (6 - i)) & 31]

\* bit regrouping
Pow2(n) == CASE n = 0 -> 1 [] n = 1 -> 2 [] n = 2 -> 4 [] n = 3 -> 8 [] n = 4 -> 16 [] n = 5 -> 32 [] n = 6 -> 64 [] n = 7 -> 128
BitsOf(vals, w) == [i \in 1..(w * Len(vals)) |-> (vals[((i - 1) \div w) + 1] \div Pow2(w - 1 - ((i - 1) % w))) % 2]
Group(bits, w, n) == [g \in 1..n |-> LET B(j) == IF (g - 1) * w + j <= Len(bits) THEN bits[(g - 1) * w + j] ELSE 0
                                     IN CASE w = 5 -> 16 * B(1) + 8 * B(2) + 4 * B(3) + 2 * B(4) + B(5)
                                          [] w = 8 -> 128 * B(1) + 64 * B(2) + 32 * B(3) + 16 * B(4) + 8 * B(5) + 4 * B(6) + 2 * B(7) + B(8)]
\* 8 -> 5 bits with zero padding (ToBase32)
ToBase32(bytes) == LET bits == BitsOf(bytes, 8) IN Group(bits, 5, (Len(bits) + 4) \div 5)
\* 5 -> 8 bits without padding (Vec<u8>::from_base32): fewer than 5 left-over bits, all zero
FromBase32(d5) ==
  LET bits == BitsOf(d5, 5)
      left == Len(bits) % 8
  IN IF left >= 5 \/ \E i \in (Len(bits) - left + 1)..Len(bits) : bits[i] = 1 THEN [ok |-> FALSE, bytes |-> <<>>]
     ELSE [ok |-> TRUE, bytes |-> Group(bits, 8, Len(bits) \div 8)]

\* generic Bech32m text for an HRP (lower case) and data bytes
EncodeWithHrp(h, bytes) ==
  LET d5 == ToBase32(bytes)
      all == d5 \o Checksum(h, d5)
  IN h \o <<49>> \o [i \in 1..Len(all) |-> Charset[all[i] + 1]]
\* AddressBech32Encoder::encode (any data length; the first byte must be an entity type)
EncodeOk(bytes) == Len(bytes) >= 1 /\ bytes[1] \in EntityBytes
EncodeAddr(suffix, bytes) == EncodeWithHrp(HrpFor(bytes[1], suffix), bytes)

RECURSIVE LastFrom(_, _, _)
LastFrom(s, c, i) == IF i = 0 THEN 0 ELSE IF s[i] = c THEN i ELSE LastFrom(s, c, i - 1)
LastIndexOf(s, c) == LastFrom(s, c, Len(s))          \* 0 if c does not occur
Fail == [ok |-> FALSE, bytes |-> <<>>]
\* bech32::decode + Bech32m variant + from_base32, HRP not yet compared: [ok, hrp (lower case), bytes]
DecodeAny(text) ==
  LET sep == LastIndexOf(text, 49) IN
  IF sep = 0 THEN [ok |-> FALSE] ELSE
  LET hrp == SubSeq(text, 1, sep - 1)
      dat == SubSeq(text, sep + 1, Len(text))
      hasL == \E i \in 1..Len(text) : IsLowerC(text[i])
      hasU == \E i \in 1..Len(text) : IsUpperC(text[i])
  IN IF Len(hrp) = 0 \/ Len(hrp) > 83 THEN [ok |-> FALSE]
     ELSE IF \E i \in 1..Len(hrp) : hrp[i] \notin 33..126 THEN [ok |-> FALSE]
     ELSE IF hasL /\ hasU THEN [ok |-> FALSE]                                   \* mixed case
     ELSE IF \E i \in 1..Len(dat) : dat[i] >= 128 \/ CharVal(dat[i]) = -1 THEN [ok |-> FALSE]
     ELSE IF Len(dat) < 6 THEN [ok |-> FALSE]
     ELSE LET hl == LowerS(hrp)
              d5 == [i \in 1..Len(dat) |-> CharVal(dat[i])]
          IN IF Polymod(HrpExpand(hl) \o d5) # Bech32mConst THEN [ok |-> FALSE]
             ELSE LET r == FromBase32(SubSeq(d5, 1, Len(d5) - 6)) IN
                  IF ~r.ok THEN [ok |-> FALSE] ELSE [ok |-> TRUE, hrp |-> hl, bytes |-> r.bytes]
\* AddressBech32Decoder::validate_and_decode on the network with this suffix
AddrOf(suffix, r) ==                 \* r = DecodeAny(text)
  IF ~r.ok THEN Fail
  ELSE IF Len(r.bytes) = 0 \/ r.bytes[1] \notin EntityBytes THEN Fail
  ELSE IF r.hrp # HrpFor(r.bytes[1], suffix) THEN Fail
  ELSE [ok |-> TRUE, bytes |-> r.bytes]
DecodeAddr(suffix, text) == AddrOf(suffix, DecodeAny(text))

\* typed addresses: 30 bytes and an entity type of the family
GlobalEntities   == {13, 134, 131, 130, 192, 193, 194, 195, 196, 197, 198, 104, 209, 210, 81, 82, 93, 154}
Family(ty) == CASE ty = "global" -> GlobalEntities [] ty = "internal" -> EntityBytes \ GlobalEntities
                [] ty = "package" -> {13} [] ty = "resource" -> {93, 154}
                [] ty = "component" -> GlobalEntities \ {13, 93, 154}
TypedOf(ty, r) == IF r.ok /\ Len(r.bytes) = 30 /\ r.bytes[1] \in Family(ty) THEN r ELSE Fail     \* r = DecodeAddr(..)
DecodeTyped(ty, suffix, text) == TypedOf(ty, DecodeAddr(suffix, text))

\* transaction hashes (radix-transactions/src/model/hash): a fixed HRP per hash type, 32 bytes of data
TxHrp(kind) == CASE kind = "txid" -> <<116, 120, 105, 100, 95>> [] kind = "signedintent" -> <<115, 105, 103, 110, 101, 100, 105, 110, 116, 101, 110, 116, 95>>
                 [] kind = "subtxid" -> <<115, 117, 98, 116, 120, 105, 100, 95>> [] kind = "notarizedtransaction" -> <<110, 111, 116, 97, 114, 105, 122, 101, 100, 116, 114, 97, 110, 115, 97, 99, 116, 105, 111, 110, 95>>
EncodeTx(kind, suffix, hash) == EncodeWithHrp(TxHrp(kind) \o suffix, hash)
DecodeTx(kind, suffix, text) ==
  LET r == DecodeAny(text) IN
  IF r.ok /\ Len(r.bytes) = 32 /\ r.hrp = TxHrp(kind) \o suffix THEN [ok |-> TRUE, bytes |-> r.bytes] ELSE Fail
=============================================================================

SPECIFICATION Spec
CONSTANTS
  MaxTail = 1
INVARIANTS RoundTrip NetworkBound UpperAccepted SubstRejected EntityBound OtherNetRejected DropNotSame Shape Emit
CHECK_DEADLOCK FALSE

----------------------------- MODULE GenBech32m -----------------------------
(* G for C28 (addresses): every state of MCBech32m (network, data, possibly mutated text) with the
   specification's verdict; the harness runs the real AddressBech32Encoder (unmutated states) and
   AddressBech32Decoder on the same network.  The MCBech32m invariants are checked in the same run. *)
EXTENDS MCBech32m, Json
Emit == LET r == DecodeAddr(net, text) IN
        PrintT(<<"B", ToJson([net |-> net, data |-> data, text |-> text, mut |-> mut, ok |-> r.ok, bytes |-> r.bytes])>>)
=============================================================================

SPECIFICATION MSpec
CONSTANTS
  Parts = {1, 2}
  Keys = {2, 4}
  Vals = {1}
  Variant = "direct"
  MaxCommits = 2
INVARIANTS Consistent PreOrPost
CHECK_DEADLOCK FALSE

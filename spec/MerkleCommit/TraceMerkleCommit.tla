-------------------------- MODULE TraceMerkleCommit --------------------------
(* C19, impl -> spec.  The harness stops RocksDBWithMerkleTreeSubstateStore::commit right before
   each of its write operations (hook H1), reopens the store and records what it holds: version,
   which of the two admissible roots (evaluated from the StateTree terms) the stored root equals,
   and the full substate listing.  Accepted iff the reopened store is in the pre-commit or the
   post-commit state: substates, version and root all of the SAME state, and the Merkle tree
   stored for the recorded version is complete (every node reachable from its root is present
   and its leaves are the hashes of the substates held).                                       *)
EXTENDS StateTree, TraceIO
VARIABLES l, ver
PD == (1 :> <<65, 0>>) @@ (2 :> <<65, 1>>) @@ (3 :> <<193, 0>>) @@ (4 :> <<67, 255>>)
SeqToSet(s) == {s[i] : i \in DOMAIN s}
UpdOf(u) ==
  [p \in Parts |->
     IF \E i \in DOMAIN u : u[i][1] = p
     THEN LET e == u[CHOOSE i \in DOMAIN u : u[i][1] = p]
              ents == SeqToSet(e[3])
              has(k) == \E x \in ents : x[1] = k
              vof(k) == (CHOOSE x \in ents : x[1] = k)[2]
          IN IF e[2] = "d" THEN <<"d", [k \in Keys |-> IF has(k) THEN vof(k) ELSE Untouched]>>
                           ELSE <<"r", [k \in Keys |-> IF has(k) THEN vof(k) ELSE None]>>
     ELSE NoUpd]
ObsLeaves(ev) == {<<x[1], x[2], x[3], x[4]>> : x \in SeqToSet(ev.leaves)}
IsState(ev, d, v, which) ==
  /\ ObsLeaves(ev) = Leaves(d) /\ Len(ev.leaves) = Cardinality(Leaves(d))
  /\ ev.version = v
  /\ ev.rootIs \in {which, "both"}
  \* the stored tree of the recorded version, walked from its root by the code's own reader
  \* (list_substate_hashes_at_version), yields exactly the hashes of the substates held (TreeIntact)
  /\ ev.treeOk = TRUE
TInit == db = EmptyDb /\ ver = 0 /\ l = 1
TReset == /\ l <= Len(Rec) /\ Rec[l].a = "reset" /\ db' = EmptyDb /\ ver' = 0 /\ l' = l + 1
TCrash == /\ l <= Len(Rec) /\ Rec[l].a = "crash"
          /\ LET ev == Rec[l]
                 post == Apply(db, UpdOf(ev.upd))
             IN \/ IsState(ev, db, ver, "pre")
                \/ IsState(ev, post, ver + 1, "post")
          \* a run that was not stopped must end in the post state
          /\ (~Rec[l].crashed => IsState(Rec[l], Apply(db, UpdOf(Rec[l].upd)), ver + 1, "post"))
          /\ UNCHANGED <<db, ver>> /\ l' = l + 1
TCommit == /\ l <= Len(Rec) /\ Rec[l].a = "commit"
           /\ db' = Apply(db, UpdOf(Rec[l].upd)) /\ ver' = ver + 1 /\ l' = l + 1
TNext == TReset \/ TCrash \/ TCommit
TSpec == TInit /\ [][TNext]_<<db, ver, l>>
=============================================================================

SPECIFICATION TSpec
CONSTANTS
  Parts = {1, 2, 3, 4}
  Keys = {18, 19, 27, 128}
  Vals = {1, 2}
  PartDef <- PD
POSTCONDITION TraceAccepted
CHECK_DEADLOCK FALSE

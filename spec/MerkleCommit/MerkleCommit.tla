----------------------------- MODULE MerkleCommit -----------------------------
(* C19.  RocksDBWithMerkleTreeSubstateStore::commit as a program of durable write steps.
   Durable state: `sub` (the substates column family) and `meta` = <<version, committed>> where
   `committed` is the database the stored root hash commits to (Root is binding, see StateTree:
   Binding, so "root = Root(d)" is represented by d itself).  A WriteBatch is one atomic step.
   A process stop (Crash) is possible between any two steps; it only loses the volatile program.
   Variant "batch"  = the code as it is (after the fix): all substate writes, tree nodes and the
                      metadata in one atomic batch, then individual pruning deletes.
   Variant "direct" = the code before the fix: every substate put/delete/delete_range is its
                      own write, then one batch with tree nodes + metadata.  TLC shows that this
                      variant violates Consistent (kept as a negative control).
   Variant "prunefirst" = the pruning deletes issued BEFORE the atomic batch: TLC shows that this
                      violates TreeIntact (second negative control).
   `trees` = the versions whose Merkle tree nodes are all present in the node column family.
   The batch adds the complete tree of the new version; pruning deletes the stale parts of the
   parent version (after which the parent version's tree can no longer be walked).             *)
EXTENDS SubstateStore
CONSTANT Variant, MaxCommits
VARIABLES sub, meta, prog, pending, commits, trees
mvars == <<sub, meta, prog, pending, commits, trees, db>>

\* individual substate writes of an update, in the order the code issues them
RECURSIVE PartSteps(_, _, _)
PartSteps(p, u, ks) ==            \* ks: sequence of keys still to visit
  IF ks = <<>> THEN <<>>
  ELSE LET k == Head(ks)
           rest == PartSteps(p, u, Tail(ks))
       IN IF u[1] = "d" /\ u[2][k] # Untouched THEN <<<<"put", p, k, u[2][k]>>>> \o rest
          ELSE IF u[1] = "r" /\ u[2][k] > 0 THEN <<<<"put", p, k, u[2][k]>>>> \o rest
          ELSE rest
KeySeq == SortedSeq(Keys)
RECURSIVE DirectSteps(_, _)
DirectSteps(upd, ps) ==
  IF ps = <<>> THEN <<>>
  ELSE LET p == Head(ps)
           rest == DirectSteps(upd, Tail(ps))
           mine == (IF upd[p][1] = "r" THEN <<<<"delrange", p, 0, 0>>>> ELSE <<>>) \o PartSteps(p, upd[p], KeySeq)
       IN mine \o rest
\* pv = the parent version (the version recorded when the commit starts): what pruning removes
Program(upd, pv) ==
  IF Variant = "batch" THEN <<<<"batch-all", 0, 0, 0>>, <<"prune", pv, 0, 0>>>>
  ELSE IF Variant = "prunefirst" THEN <<<<"prune", pv, 0, 0>>, <<"batch-all", 0, 0, 0>>>>
  ELSE DirectSteps(upd, SortedSeq(Parts)) \o <<<<"batch-meta", 0, 0, 0>>, <<"prune", pv, 0, 0>>>>

MInit == /\ db = EmptyDb /\ sub = EmptyDb /\ meta = <<0, EmptyDb>> /\ prog = <<>>
         /\ commits = 0 /\ pending = [p \in Parts |-> NoUpd] /\ trees = {}
Begin(upd) == /\ prog = <<>> /\ commits < MaxCommits
              /\ prog' = Program(upd, meta[1]) /\ pending' = upd /\ commits' = commits + 1
              /\ UNCHANGED <<sub, meta, db, trees>>
Step == /\ prog # <<>>
        /\ LET s == Head(prog) IN
             /\ sub' = CASE s[1] = "put" -> [sub EXCEPT ![s[2]][s[3]] = s[4]]
                         [] s[1] = "delrange" -> [sub EXCEPT ![s[2]] = [k \in Keys |-> None]]
                         [] s[1] = "batch-all" -> Apply(sub, pending)
                         [] OTHER -> sub
             /\ meta' = IF s[1] \in {"batch-all", "batch-meta"} THEN <<meta[1] + 1, Apply(meta[2], pending)>> ELSE meta
             /\ db' = IF s[1] \in {"batch-all", "batch-meta"} THEN Apply(db, pending) ELSE db
             /\ trees' = CASE s[1] \in {"batch-all", "batch-meta"} -> trees \cup {meta[1] + 1}
                           [] s[1] = "prune" -> trees \ {s[2]}
                           [] OTHER -> trees
        /\ prog' = Tail(prog)
        /\ UNCHANGED <<pending, commits>>
\* the process stops; on reopen only the durable state is left
Crash == /\ prog # <<>> /\ prog' = <<>> /\ UNCHANGED <<sub, meta, pending, commits, db, trees>>
MNext == (\E upd \in Updates : Begin(upd)) \/ Step \/ Crash
MSpec == MInit /\ [][MNext]_mvars

\* whenever no commit is in flight (in particular after a crash + reopen):
\* the recorded root describes exactly the substates held, and the version counts the commits applied
Consistent == prog = <<>> => (meta[2] = sub)
PreOrPost == prog = <<>> => (sub = db /\ meta[2] = db)
\* ... and the tree of the recorded version can be walked from its root (proofs, the next commit)
TreeIntact == prog = <<>> => (meta[1] = 0 \/ meta[1] \in trees)
=============================================================================

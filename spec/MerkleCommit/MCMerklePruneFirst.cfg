SPECIFICATION MSpec
CONSTANTS
  Parts = {1, 2}
  Keys = {2, 4}
  Vals = {1}
  Variant = "prunefirst"
  MaxCommits = 2
INVARIANTS Consistent PreOrPost TreeIntact
CHECK_DEADLOCK FALSE

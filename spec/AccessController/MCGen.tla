------------------------------- MODULE MCGen -------------------------------
EXTENDS GenAccessController
MCBadges == {1, 2, 3, 4}
MCInitRules == <<1, 2, 3>>
MCProposals == {[rules |-> <<4, 2, 3>>, delay |-> -1], [rules |-> <<2, 1, 3>>, delay |-> 1]}
MCDelays == {-1, 1}
=============================================================================

SPECIFICATION Spec
CONSTANTS
  Badges <- MCBadges
  InitRules <- MCInitRules
  Proposals <- MCProposals
  Delays <- MCDelays
  Callers <- MCCallers1
  MaxTime = 5
PROPERTIES TimedByRecoveryRole
VIEW View
CHECK_DEADLOCK FALSE

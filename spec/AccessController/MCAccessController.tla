------------------------ MODULE MCAccessController ------------------------
(* Exhaustive instance: 4 badges, callers = all 16 badge sets, two proposals (one replaces the
   primary badge by a badge nobody used so far, one swaps the primary and recovery badges), the
   controller created without / with a 2 minute timed-recovery delay, clock 0..4 minutes in half
   minute ticks.                                                                            *)
EXTENDS AccessController
MCBadges == {1, 2, 3, 4}
MCInitRules == <<1, 2, 3>>
MCProposals == {[rules |-> <<4, 2, 3>>, delay |-> -1], [rules |-> <<2, 1, 3>>, delay |-> 1]}
MCDelays == {-1, 2}
\* quick tier: nobody, every single badge, the primary + recovery badges, everybody
MCCallers2 == {{}, {1}, {2}, {3}, {4}, {1, 2}, {1, 2, 3, 4}}
\* narrow-reading counterexample search: single badges
MCCallers1 == {{}, {1}, {2}, {3}, {4}}
=============================================================================

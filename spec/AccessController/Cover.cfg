SPECIFICATION CoverSpec
CONSTANTS
  Badges <- MCBadges
  InitRules <- MCInitRules
  Proposals <- MCProposals
  Delays <- MCDelays
  MaxTime = 4
  K = 0
VIEW CoverView
INVARIANT EmitCover
CHECK_DEADLOCK FALSE

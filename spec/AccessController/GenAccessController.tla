------------------------ MODULE GenAccessController ------------------------
(* C40, spec -> implementation.
   Cover:  breadth-first over the model with the history hidden from the state identity: every
           reachable abstract state is reached once, by a shortest call sequence (`path`).  For each
           such state the generator also lists a FAN of single calls from it - every method and
           proposal argument, called by nobody, by each single role's badge, by all badges that do
           not help, and by everybody - each with the result and next state the model demands.
   Sim:    seeded random call sequences of length K (RandomElement picks ONE call per step; half of
           the steps are drawn from the calls that succeed so that the walk makes progress).
   The harness replays path and fan on a real ledger and compares, after every call, the result
   class, the decoded controller state, the three role rules and the vault balance.              *)
EXTENDS AccessController, Json
CONSTANTS K             \* Sim: length of a behaviour
VARIABLE hist

SetToSeqAsc(S) == LET RECURSIVE Asc(_)
                      Asc(T) == IF T = {} THEN <<>>
                                ELSE LET m == CHOOSE x \in T : \A y \in T : x <= y IN <<m>> \o Asc(T \ {m})
                  IN Asc(S)
\* `narrow`: this step completes a timed recovery although the caller does not hold the recovery role -
\* allowed by the code (the method is public, lead L2), excluded by the narrow reading of the statement
Rec(m, c, prop, res, s, t, before) ==
  [m |-> m, c |-> SetToSeqAsc(c), prop |-> prop, res |-> res, st |-> s, now |-> t,
   narrow |-> (m = "timedConfirm" /\ res = "ok" /\ R \notin RolesOf(before.rules, c))]

GInit == Init /\ hist = <<>>
GCall(m, c, prop) == Call(m, c, prop) /\ hist' = Append(hist, Rec(m, c, prop, last'.res, st', now', st))
GTick == Tick /\ hist' = Append(hist, Rec("tick", {}, NoProp, "ok", st', now', st))

\* ---- Cover -------------------------------------------------------------------------------
\* paths are built from calls by the minimal authorized callers only (a refused call never changes the
\* state, so it cannot lead to a new one; refusals are exercised by the fans)
PathCallers(m) == IF Public(m) THEN {{}} ELSE {{b} : b \in {x \in Badges : \E ro \in Allowed(m) : st.rules[ro] = x}}
CoverNext == \/ GTick
             \/ \E m \in MethodsPlain : \E c \in PathCallers(m) : GCall(m, c, NoProp)
             \/ \E m \in MethodsWithProposal : \E c \in PathCallers(m), prop \in Proposals : GCall(m, c, prop)
CoverSpec == GInit /\ [][CoverNext]_<<vars, hist>>
\* time matters only relative to a pending timed recovery, and by its half-minute phase
CoverView == <<[st EXCEPT !.rRec.after = 0],
               IF st.rRec.kind = "timed" THEN (IF st.rRec.after - Minute(now) > 0 THEN st.rRec.after - Minute(now) ELSE 0) ELSE -1,
               now % 2>>
\* callers of the fan, relative to the current rules: for every role that may call the method the
\* caller that has exactly that role's badge, and the caller with all badges that do NOT help
FanCallers(s, m) ==
  LET helpful == {s.rules[ro] : ro \in Allowed(m)} \ {0} IN
  {Badges \ helpful} \cup {{b} : b \in helpful} \cup (IF Public(m) THEN {{}} ELSE {})
\* Proposals that differ from a pending one in EXACTLY ONE component (primary / recovery / confirmation rule: another
\* badge and DenyAll; the delay: one more and none / zero): every method that confirms or stops a pending proposal is
\* called with each of them by each caller that is authorized - ExactProposal demands a refusal (RecoveryProposalMismatch).
\* (Part of every fan, never sampled.)
OneOff(p) ==
  IF p = NoProp THEN {}
  ELSE UNION {{[p EXCEPT !.rules[ro] = b] : b \in {(p.rules[ro] % Cardinality(Badges)) + 1, 0} \ {p.rules[ro]}} : ro \in {P, R, C}}
       \cup {[p EXCEPT !.delay = d] : d \in {p.delay + 1, IF p.delay = -1 THEN 0 ELSE -1}}
PendingFor(s, m) == CASE m = "qcPRec" -> s.pRec
                      [] m = "qcRRec" -> s.rRec.prop
                      [] m \in {"timedConfirm", "stopTimed"} /\ s.rRec.kind = "timed" -> s.rRec.prop
                      [] OTHER -> NoProp
AuthorizedFanCallers(s, m) == {c \in FanCallers(s, m) : Authorized(s, m, c)}
FanOf(s, t) ==
  LET calls == UNION {{<<m, c, NoProp>> : c \in FanCallers(s, m)} : m \in MethodsPlain}
               \cup UNION {{<<m, c, p>> : c \in FanCallers(s, m), p \in Proposals} : m \in MethodsWithProposal}
               \cup UNION {{<<m, c, p>> : c \in AuthorizedFanCallers(s, m), p \in OneOff(PendingFor(s, m))} :
                             m \in {"qcPRec", "qcRRec", "timedConfirm", "stopTimed"}}
  IN {LET o == Step(s, t, x[1], x[2], x[3]) IN Rec(x[1], x[2], x[3], o.res, o.st, t, s) : x \in calls}
EmitCover == PrintT(<<"B", ToJson([init |-> [st |-> InitState(st.delay), now |-> 0], path |-> hist, fan |-> FanOf(st, now)])>>)

\* ---- Sim ---------------------------------------------------------------------------------
\* one call per step: a method, then (3 times out of 4) a caller holding exactly the badge of one of the
\* roles that may call it, else any of 12 callers; the proposal argument is (3 of 4) a pending one
SimCallers == {{}, Badges} \cup {{b} : b \in Badges} \cup {{a, b} : a, b \in Badges}
Pending(s) == {p \in Proposals : p = s.pRec \/ p = s.rRec.prop}
\* (every random draw is bound by \E over a singleton set: a LET definition would be re-evaluated, and
\* re-drawn, at each use)
Helpful(m) == {b \in Badges : \E ro \in Allowed(m) : st.rules[ro] = b}
SimNext ==
  /\ Len(hist) < K
  /\ \E coin \in {RandomElement(1..8)}, m \in {RandomElement(Methods)}, cc \in {RandomElement(1..4)}, pc \in {RandomElement(1..4)} :
       \E c \in {IF cc > 1 /\ Helpful(m) # {} THEN {RandomElement(Helpful(m))} ELSE RandomElement(SimCallers)} :
       \E p \in {IF m \in MethodsPlain THEN NoProp
                  ELSE IF pc > 1 /\ Pending(st) # {} THEN RandomElement(Pending(st)) ELSE RandomElement(Proposals)} :
          IF coin = 1 /\ now < MaxTime THEN GTick ELSE GCall(m, c, p)
SimSpec == GInit /\ [][SimNext]_<<vars, hist>>
EmitSim == Len(hist) = K => PrintT(<<"B", ToJson([init |-> [st |-> InitState(st.delay), now |-> 0], path |-> hist, fan |-> {}])>>)
=============================================================================

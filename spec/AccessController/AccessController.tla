------------------------- MODULE AccessController -------------------------
(* C40.  The access controller blueprint (radix-engine/src/blueprints/access_controller/v2:
   state_machine.rs = the transitions, package.rs = the method -> role table, blueprint.rs = what a
   confirmation applies), with the badge layer: a rule is a badge id (`require(badge)`) or 0
   (DenyAll), a caller is the set of badges it shows proofs of, and it has the roles whose CURRENT
   rule it satisfies - so replacing the rules changes who may do what.

   Every call is modelled, also the refused ones: Step gives the result class and the next state of
   any (method, caller, proposal argument), exactly as the ledger answers it.

   state   locked, pRec (pending primary recovery proposal or NoProp), pWd (primary badge withdraw
           attempt), rRec = [kind |-> "none" | "untimed" | "timed", prop, after], rWd, rules =
           <<primary, recovery, confirmation>>, asset, delay (minutes, -1 = no timed recovery)
   time    `now` in HALF minutes; the controller reads the minute clock = now \div 2
   A proposal is [rules, delay].  What the code does with the proposal's delay: it is compared when
   a proposal is confirmed / stopped, but it is never applied - `delay` of the controller stays what
   it was at creation.                                                                         *)
EXTENDS Integers, FiniteSets, Sequences, TLC
CONSTANTS Badges,        \* set of badge ids (positive integers)
          InitRules,     \* <<primary, recovery, confirmation>>
          Proposals,     \* set of [rules |-> <<p, r, c>>, delay |-> minutes or -1]
          Delays,        \* possible creation-time delays (minutes, -1 = none)
          MaxTime        \* half minutes
VARIABLES st, now, last
vars == <<st, now, last>>
\* `last` only records the call of the step for the action properties; it is not part of the state identity
View == <<st, now>>

P == 1  R == 2  C == 3
NoProp == [rules |-> <<0, 0, 0>>, delay |-> -2]
NoRec == [kind |-> "none", prop |-> NoProp, after |-> 0]
Callers == SUBSET Badges
Minute(t) == t \div 2

\* the roles a caller has under the given rules
RolesOf(rules, c) == {ro \in {P, R, C} : rules[ro] \in c}

\* method -> roles that may call it ({} with Public = TRUE: anybody)   [package.rs roles_template]
MethodsWithProposal == {"initRecP", "initRecR", "qcPRec", "qcRRec", "timedConfirm", "stopTimed"}
MethodsPlain == {"createProof", "initWdP", "initWdR", "qcPWd", "qcRWd", "cancelPRec", "cancelRRec",
                 "cancelPWd", "cancelRWd", "lock", "unlock", "mintRecoveryBadges"}
Methods == MethodsWithProposal \cup MethodsPlain
Public(m) == m = "timedConfirm"
Allowed(m) ==
  CASE m \in {"createProof", "initRecP", "cancelPRec", "initWdP", "cancelPWd"} -> {P}
    [] m \in {"initRecR", "cancelRRec", "initWdR", "cancelRWd", "lock", "unlock"} -> {R}
    [] m \in {"qcPRec", "qcPWd"} -> {R, C}
    [] m \in {"qcRRec", "qcRWd"} -> {P, C}
    [] m = "mintRecoveryBadges" -> {P, R}
    [] m = "stopTimed" -> {P, R, C}
    [] OTHER -> {}
Authorized(s, m, c) == Public(m) \/ RolesOf(s.rules, c) \cap Allowed(m) # {}

Reset(s) == [s EXCEPT !.locked = FALSE, !.pRec = NoProp, !.pWd = FALSE, !.rRec = NoRec, !.rWd = FALSE]
Denied == <<0, 0, 0>>
Ok(s) == [res |-> "ok", st |-> s]
Err(e, s) == [res |-> e, st |-> s]

\* the answer of the ledger to method m called by caller c with proposal argument prop at time t
Step(s, t, m, c, prop) ==
  IF ~Authorized(s, m, c) THEN Err("Unauthorized", s)
  ELSE CASE m = "createProof" ->
              IF s.locked THEN Err("OperationRequiresUnlockedPrimaryRole", s) ELSE Ok(s)
         [] m = "initRecP" ->
              IF s.pRec # NoProp THEN Err("RecoveryAlreadyExistsForProposer", s) ELSE Ok([s EXCEPT !.pRec = prop])
         [] m = "initRecR" ->
              IF s.rRec.kind # "none" THEN Err("RecoveryAlreadyExistsForProposer", s)
              ELSE IF s.delay >= 0
                   THEN Ok([s EXCEPT !.rRec = [kind |-> "timed", prop |-> prop, after |-> Minute(t) + s.delay]])
                   ELSE Ok([s EXCEPT !.rRec = [kind |-> "untimed", prop |-> prop, after |-> 0]])
         [] m = "initWdP" ->
              IF s.pWd THEN Err("BadgeWithdrawAttemptAlreadyExistsForProposer", s) ELSE Ok([s EXCEPT !.pWd = TRUE])
         [] m = "initWdR" ->   \* (the code reports this one with the recovery error variant)
              IF s.rWd THEN Err("RecoveryAlreadyExistsForProposer", s) ELSE Ok([s EXCEPT !.rWd = TRUE])
         [] m = "qcPRec" ->
              IF s.pRec = NoProp THEN Err("NoRecoveryExistsForProposer", s)
              ELSE IF s.pRec # prop THEN Err("RecoveryProposalMismatch", s)
              ELSE Ok([Reset(s) EXCEPT !.rules = s.pRec.rules])
         [] m = "qcRRec" ->
              IF s.rRec.kind = "none" THEN Err("NoRecoveryExistsForProposer", s)
              ELSE IF s.rRec.prop # prop THEN Err("RecoveryProposalMismatch", s)
              ELSE Ok([Reset(s) EXCEPT !.rules = s.rRec.prop.rules])
         [] m = "qcPWd" ->
              IF ~s.pWd THEN Err("NoBadgeWithdrawAttemptExistsForProposer", s)
              ELSE Ok([Reset(s) EXCEPT !.rules = Denied, !.asset = "withdrawn"])
         [] m = "qcRWd" ->
              IF ~s.rWd THEN Err("NoBadgeWithdrawAttemptExistsForProposer", s)
              ELSE Ok([Reset(s) EXCEPT !.rules = Denied, !.asset = "withdrawn"])
         [] m = "timedConfirm" ->
              IF s.rRec.kind # "timed" THEN Err("NoTimedRecoveriesFound", s)
              ELSE IF s.rRec.prop # prop THEN Err("RecoveryProposalMismatch", s)
              ELSE IF ~(Minute(t) >= s.rRec.after) THEN Err("TimedRecoveryDelayHasNotElapsed", s)
              ELSE Ok([Reset(s) EXCEPT !.rules = s.rRec.prop.rules])
         [] m = "cancelPRec" ->
              IF s.pRec = NoProp THEN Err("NoRecoveryExistsForProposer", s) ELSE Ok([s EXCEPT !.pRec = NoProp])
         [] m = "cancelRRec" ->
              IF s.rRec.kind = "none" THEN Err("NoRecoveryExistsForProposer", s) ELSE Ok([s EXCEPT !.rRec = NoRec])
         [] m = "cancelPWd" ->
              IF ~s.pWd THEN Err("NoBadgeWithdrawAttemptExistsForProposer", s) ELSE Ok([s EXCEPT !.pWd = FALSE])
         [] m = "cancelRWd" ->
              IF ~s.rWd THEN Err("NoBadgeWithdrawAttemptExistsForProposer", s) ELSE Ok([s EXCEPT !.rWd = FALSE])
         [] m = "lock"   -> Ok([s EXCEPT !.locked = TRUE])
         [] m = "unlock" -> Ok([s EXCEPT !.locked = FALSE])
         [] m = "stopTimed" ->
              IF s.rRec.kind # "timed" THEN Err("NoTimedRecoveriesFound", s)
              ELSE IF s.rRec.prop # prop THEN Err("RecoveryProposalMismatch", s)
              ELSE Ok([s EXCEPT !.rRec = [kind |-> "untimed", prop |-> s.rRec.prop, after |-> 0]])
         [] OTHER -> Ok(s)     \* mintRecoveryBadges: no effect on the state machine

InitState(d) == [locked |-> FALSE, pRec |-> NoProp, pWd |-> FALSE, rRec |-> NoRec, rWd |-> FALSE,
                 rules |-> InitRules, asset |-> "held", delay |-> d]
NoCall == [m |-> "init", c |-> {}, prop |-> NoProp, res |-> "ok"]
Init == \E d \in Delays : st = InitState(d) /\ now = 0 /\ last = NoCall

Call(m, c, prop) ==
  LET o == Step(st, now, m, c, prop) IN
  /\ st' = o.st /\ now' = now
  /\ last' = [m |-> m, c |-> c, prop |-> prop, res |-> o.res]
Tick == now < MaxTime /\ now' = now + 1 /\ st' = st /\ last' = [m |-> "tick", c |-> {}, prop |-> NoProp, res |-> "ok"]
Next == \/ Tick
        \/ \E m \in MethodsPlain, c \in Callers : Call(m, c, NoProp)
        \/ \E m \in MethodsWithProposal, c \in Callers, prop \in Proposals : Call(m, c, prop)
Spec == Init /\ [][Next]_vars

---------------------------------------------------------------------------
\* Properties (C40)
Changed == st'.rules # st.rules \/ (st'.asset = "withdrawn" /\ st.asset = "held")
CallerRoles == RolesOf(st.rules, last'.c)      \* roles of the caller of the step, under the rules BEFORE it
\* rules are replaced / the asset leaves only by: a pending proposal of one role confirmed by ANOTHER
\* role that is allowed to confirm it, or the elapsed timer of a timed recovery-role proposal
TwoRolesOrTimer ==
  [][Changed =>
       \/ (last'.m = "qcPRec" /\ st.pRec # NoProp /\ st'.rules = st.pRec.rules /\ CallerRoles \cap {R, C} # {})
       \/ (last'.m = "qcRRec" /\ st.rRec.kind # "none" /\ st'.rules = st.rRec.prop.rules /\ CallerRoles \cap {P, C} # {})
       \/ (last'.m = "qcPWd" /\ st.pWd /\ st'.rules = Denied /\ CallerRoles \cap {R, C} # {})
       \/ (last'.m = "qcRWd" /\ st.rWd /\ st'.rules = Denied /\ CallerRoles \cap {P, C} # {})
       \/ (last'.m = "timedConfirm" /\ st.rRec.kind = "timed" /\ st'.rules = st.rRec.prop.rules
             /\ Minute(now) >= st.rRec.after)
  ]_vars
\* a pending proposal / attempt is only ever created by its own role
ProposedByOwnRole ==
  [][/\ (st'.pRec # st.pRec /\ st'.pRec # NoProp) => (last'.m = "initRecP" /\ P \in CallerRoles /\ st'.pRec = last'.prop)
     /\ (st'.rRec.prop # st.rRec.prop /\ st'.rRec.kind # "none") => (last'.m = "initRecR" /\ R \in CallerRoles /\ st'.rRec.prop = last'.prop)
     /\ (st'.pWd /\ ~st.pWd) => (last'.m = "initWdP" /\ P \in CallerRoles)
     /\ (st'.rWd /\ ~st.rWd) => (last'.m = "initWdR" /\ R \in CallerRoles)
  ]_vars
\* what is applied is the pending proposal, and the confirmer named exactly that proposal
ExactProposal ==
  [][(st'.rules # st.rules /\ st'.rules # Denied) =>
        \/ (last'.m = "qcPRec" /\ last'.prop = st.pRec /\ st'.rules = st.pRec.rules)
        \/ (last'.m \in {"qcRRec", "timedConfirm"} /\ last'.prop = st.rRec.prop /\ st'.rules = st.rRec.prop.rules)
  ]_vars
\* a timed recovery never completes before its time: the timer is what was set at initiation
TimerRespected ==
  [][(last'.m = "timedConfirm" /\ last'.res = "ok") => Minute(now) >= st.rRec.after]_vars
TimerSetFromDelay ==
  [][(last'.m = "initRecR" /\ last'.res = "ok" /\ st.delay >= 0) => st'.rRec.after = Minute(now) + st.delay]_vars
LockedNoProof == [][(last'.m = "createProof" /\ last'.res = "ok") => ~st.locked]_vars
ResetAfterConfirm ==
  [][Changed => (~st'.locked /\ st'.pRec = NoProp /\ ~st'.pWd /\ st'.rRec = NoRec /\ ~st'.rWd)]_vars
\* refused calls change nothing; the delay of the controller never changes
RefusedChangesNothing == [][last'.res \notin {"ok"} => st' = st]_vars
DelayConstant == [][st'.delay = st.delay]_vars
\* once the asset is withdrawn every role is denied
WithdrawnIsFinal == st.asset = "withdrawn" => st.rules = Denied

\* the narrower reading of the statement (lead L2): "the RECOVERY ROLE confirms its own timed recovery".
\* The code makes timed_confirm_recovery public; this property is expected to be VIOLATED by the model.
TimedByRecoveryRole == [][(last'.m = "timedConfirm" /\ last'.res = "ok") => R \in CallerRoles]_vars
=============================================================================

SPECIFICATION Spec
CONSTANTS
  Badges <- MCBadges
  InitRules <- MCInitRules
  Proposals <- MCProposals
  Delays <- MCDelays
  MaxTime = 8
INVARIANTS WithdrawnIsFinal
PROPERTIES TwoRolesOrTimer ProposedByOwnRole ExactProposal TimerRespected TimerSetFromDelay LockedNoProof ResetAfterConfirm RefusedChangesNothing DelayConstant
VIEW View
CHECK_DEADLOCK FALSE

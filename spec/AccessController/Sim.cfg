SPECIFICATION SimSpec
CONSTANTS
  Badges <- MCBadges
  InitRules <- MCInitRules
  Proposals <- MCProposals
  Delays <- MCDelays
  MaxTime = 12
  K = 20
INVARIANT EmitSim
CHECK_DEADLOCK FALSE

SPECIFICATION Spec
CONSTANTS
  Badges <- MCBadges
  InitRules <- MCInitRules
  Proposals <- MCProposals
  Delays <- MCDelays
  Callers <- MCCallers2
  MaxTime = 5
INVARIANTS WithdrawnIsFinal
PROPERTIES TwoRolesOrTimer ProposedByOwnRole ExactProposal TimerRespected TimerSetFromDelay LockedNoProof ResetAfterConfirm RefusedChangesNothing DelayConstant
VIEW View
CHECK_DEADLOCK FALSE

------------------------------ MODULE MCPools ------------------------------
(* S for C41: Pools.tla over plain TLC integers, small amounts, EVERY admissible rounding choice.
   Contribute picks any accepted amounts and any mint inside the bounds, Redeem any payout inside
   the bounds; TLC explores all operation sequences up to K operations of two users and checks
   that the bounds alone imply: reserves and holdings never negative (solvency: no sequence of
   redemptions can overdraw a vault), units = sum of holdings, no-gain round trips.
   StrictMint = TRUE : mint <= pro-rata of the ACCEPTED amounts  -> RoundTrip1 and RoundTripK hold.
   StrictMint = FALSE: mint <  pro-rata of the amount before cutting to the divisibility (what the
                       v1_1 two-/multi-resource pools guarantee) -> RoundTrip1 still holds,
                       RoundTripK does not (negative control, cfg MCPoolsWeakK).              *)
EXTENDS Integers, Sequences, FiniteSets, TLC
CONSTANTS A,            \* largest amount offered / deposited in one operation
          M,            \* largest mint
          RCap, UCap,   \* state constraint: reserves / units explored up to these
          K,            \* operations per history
          CfgSel,       \* which pool configurations are explored
          StrictMint
VARIABLES cfg, reserve, units, held, streak, nops
vars == <<cfg, reserve, units, held, streak, nops>>

IntPlus(a, b) == a + b
IntMinus(a, b) == a - b
IntTimes(a, b) == a * b
IntLE(a, b) == a <= b
IntMultOf(x, info) == x % info.ulp = 0
IntScale(x) == x * 1000          \* P = 1000 > RCap^2: the precision slack never decides in the small model
INSTANCE Pools WITH Z <- 0, Plus <- IntPlus, Minus <- IntMinus, Times <- IntTimes, LE <- IntLE, MultOf <- IntMultOf,
                    Scale <- IntScale

Cfg1  == [n |-> 1, nu |-> 2, info |-> <<[ulp |-> 1]>>]
Cfg1b == [n |-> 1, nu |-> 2, info |-> <<[ulp |-> 2]>>]
Cfg2  == [n |-> 2, nu |-> 2, info |-> <<[ulp |-> 1], [ulp |-> 2]>>]
Cfg2b == [n |-> 2, nu |-> 2, info |-> <<[ulp |-> 1], [ulp |-> 1]>>]
Cfg3  == [n |-> 3, nu |-> 2, info |-> <<[ulp |-> 1], [ulp |-> 2], [ulp |-> 1]>>]

Cfgs == CASE CfgSel = "one" -> {Cfg1, Cfg1b}
          [] CfgSel = "two" -> {Cfg2}
          [] CfgSel = "twoeq" -> {Cfg2b}
          [] CfgSel = "multi" -> {Cfg3}
Init == /\ cfg \in Cfgs
        /\ reserve = [r \in 1..cfg.n |-> 0]
        /\ units = 0
        /\ held = [u \in 1..cfg.nu |-> 0]
        /\ streak = [u |-> 0, k |-> 0, m |-> 0, acc |-> [r \in 1..cfg.n |-> 0], orph |-> [r \in 1..cfg.n |-> 0]]
        /\ nops = 0

\* candidate sets are built from the state so that TLC does not enumerate hopeless candidates
RECURSIVE Prod(_, _)
Prod(S, i) == IF i = 0 THEN {<<>>} ELSE LET rest == Prod(S, i - 1) IN {Append(t, q) : t \in rest, q \in S[i]}
Mults(r, hi) == {q \in 0..hi : q % Ulp(r) = 0}
Offer == [r \in Res |-> A]                       \* what is offered; only what is accepted reaches the state
Tick == nops < K /\ nops' = nops + 1
DoContribute == Tick /\ (\E u \in Usr : \E acc \in Prod([r \in Res |-> Mults(r, A)], cfg.n) : \E m \in 1..M :
                        Contribute(u, Offer, acc, m, StrictMint))
DoRedeem == Tick /\ (\E u \in Usr : \E x \in 1..held[u] :
                    \E p \in Prod([r \in Res |-> {q \in Mults(r, reserve[r]) : q * units <= x * reserve[r]}], cfg.n) :
                        Redeem(u, x, p))
DoPDeposit == Tick /\ (\E r \in Res : \E x \in Mults(r, A) \ {0} : PDeposit(r, x))
DoPWithdraw == Tick /\ (\E r \in Res : \E w \in Mults(r, reserve[r]) \ {0} : PWithdraw(r, w, w))
Next == DoContribute \/ DoRedeem \/ DoPDeposit \/ DoPWithdraw
Spec == Init /\ [][Next]_vars

Bound == units <= UCap /\ \A r \in Res : reserve[r] <= RCap

-----------------------------------------------------------------------------
(* The closed forms used on real traces mean what they should: quantified over every payout. *)
Payable(x, r) == {q \in 0..(RCap + A) : q % Ulp(r) = 0 /\ q * units <= x * reserve[r]}
RoundTrip1Meaning == streak.k = 1 => \A r \in Res : \A q \in Payable(streak.m, r) : q <= streak.acc[r] + streak.orph[r]
RoundTripKMeaning == streak.k >= 1 => \A r \in Res : \A q \in Payable(streak.m, r) : q <= streak.acc[r] + streak.orph[r]
ClosedFormsAgree == /\ RoundTrip1 <=> RoundTrip1Meaning
                    /\ RoundTripK <=> RoundTripKMeaning
\* solvency, said directly: whatever any holder may be paid for all his units is in the vault
Solvent == \A u \in Usr : \A r \in Res : \A q \in Payable(held[u], r) : held[u] > 0 => q <= reserve[r]
\* redemption never pays more than the pro-rata share rounded down to the divisibility (action property)
RedeemProRata == [][\A r \in Res : reserve'[r] < reserve[r] /\ units' < units =>
                      (reserve[r] - reserve'[r]) * units <= (units - units') * reserve[r]]_vars
=============================================================================

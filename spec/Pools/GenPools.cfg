SPECIFICATION GSpec
CONSTANTS
  K = 12
  Mode = "sim"
INVARIANT Emit
CHECK_DEADLOCK FALSE

------------------------------- MODULE Pools -------------------------------
(* C41.  Liquidity pools of the pool package (radix-engine/src/blueprints/pool/v1: one-, two- and
   multi-resource pool; one specification, n = 1, 2, 3.. resources).

   The actions are NONDETERMINISTIC within the bounds the property states: they say which
   outcomes (accepted amounts, minted pool units, paid-out amounts) are admissible, never which
   one the code picks.  All inequalities are cross-multiplied - nothing is divided.  Amounts are
   values of an abstract number system (Z, Plus, Minus, Times, LE): MCPools instantiates it with
   TLC integers (exhaustive, every rounding choice), TracePools with BigInt (the real pools at
   full scale).  All amounts are counted in the smallest unit (10^-18); a resource of
   divisibility d only moves in multiples of its ulp 10^(18-d)  (MultOf).

   State: reserve[r] (the pool's vaults), units (pool-unit total supply), held[u] (pool units of
   each user), streak (the contributions made by one user since the last other operation -
   what "contributing and immediately redeeming" is measured against).                       *)
EXTENDS Integers, Sequences, FiniteSets
CONSTANTS Z, Plus(_, _), Minus(_, _), Times(_, _), LE(_, _),
          MultOf(_, _),     \* MultOf(x, info): x is a whole number of ulps of the resource described by info
          Scale(_)          \* x * P, P = the scale of the pool's intermediate precision (10^36 for the real pools)
VARIABLES cfg,              \* [n, nu, info: <<[ulp, ..] per resource>>]
          reserve, units, held, streak
pvars == <<cfg, reserve, units, held, streak>>

Res == 1..cfg.n
Usr == 1..cfg.nu
Ulp(r) == cfg.info[r].ulp
LT(a, b) == LE(a, b) /\ a # b
Amt(x, r) == LE(Z, x) /\ MultOf(x, cfg.info[r])
Zeros == [r \in Res |-> Z]
NoStreak == [u |-> 0, k |-> 0, m |-> Z, acc |-> Zeros, orph |-> Zeros]

RECURSIVE SumTo(_, _)
SumTo(f, i) == IF i = 0 THEN Z ELSE LET rest == SumTo(f, i - 1) IN Plus(rest, f[i])

-----------------------------------------------------------------------------
(* Contribution.  amounts[r] is offered, acc[r] <= amounts[r] is accepted into the reserves, the
   rest is change; m pool units are minted.
   - no pool units in circulation: the pool is new (whatever sits in the vaults belongs to nobody),
     everything is accepted, any positive number of units may be minted (as coded: geometric mean,
     or amount + dust for the one-resource pool);
   - otherwise resources with an empty reserve are not accepted at all, the others are accepted
     IN THE POOL'S CURRENT RATIO: there is one factor k with  acc[r] <= k*reserve[r] < acc[r]+ulp[r]
     up to the pool's intermediate precision 1/P (k is computed with 36 decimals, P = 10^36):
     pairwise, cross-multiplied:  acc[s]*res[r]*P < (acc[r]+ulp[r])*res[s]*P + res[r]*res[s];
   - minted units are not more than pro-rata.  Two readings:
       MintProRata  m*reserve[r] <= acc[r]*units          (pro-rata of what was ACCEPTED)
       MintBound    m*reserve[r] <  (acc[r]+ulp[r])*units  (pro-rata of the amount before it was
                                                           cut to the divisibility)
     MintProRata implies MintBound.  MCPools shows what each buys: MintBound is exactly enough for
     a single contribute-then-redeem never to gain (RoundTrip1); only MintProRata makes that true
     for several contributions followed by one redemption (RoundTripK).                      *)
RatioOK(acc) ==
  \A r \in Res : \A s \in Res \ {r} :
     (reserve[r] # Z /\ reserve[s] # Z) =>
        LT(Scale(Times(acc[s], reserve[r])),
           Plus(Scale(Times(Plus(acc[r], Ulp(r)), reserve[s])), Times(reserve[r], reserve[s])))
MintProRata(acc, m) == \A r \in Res : reserve[r] # Z => LE(Times(m, reserve[r]), Times(acc[r], units))
MintBound(acc, m)   == \A r \in Res : reserve[r] # Z => LT(Times(m, reserve[r]), Times(Plus(acc[r], Ulp(r)), units))

ContributeOK(amounts, acc, m, strict) ==
  /\ \A r \in Res : Amt(amounts[r], r) /\ Amt(acc[r], r) /\ LE(acc[r], amounts[r])
  /\ LT(Z, m)
  /\ IF units = Z THEN \A r \in Res : acc[r] = amounts[r]
     ELSE /\ ~(\A r \in Res : reserve[r] = Z)       \* units without any reserve: contributions must fail
                                                  \* (not \E: TLC would fork the action once per witness)
          /\ \A r \in Res : reserve[r] = Z => acc[r] = Z
          /\ RatioOK(acc)
          /\ IF strict THEN MintProRata(acc, m) ELSE MintBound(acc, m)
Change(amounts, acc) == [r \in Res |-> Minus(amounts[r], acc[r])]      \* returned to the contributor, exactly

Contribute(u, amounts, acc, m, strict) ==
  /\ ContributeOK(amounts, acc, m, strict)
  /\ reserve' = [r \in Res |-> Plus(reserve[r], acc[r])]
  /\ units' = Plus(units, m)
  /\ held' = [held EXCEPT ![u] = Plus(@, m)]
  /\ streak' = IF streak.u = u
               THEN [streak EXCEPT !.k = @ + 1, !.m = Plus(@, m), !.acc = [r \in Res |-> Plus(streak.acc[r], acc[r])]]
               ELSE [u |-> u, k |-> 1, m |-> m, acc |-> acc, orph |-> IF units = Z THEN reserve ELSE Zeros]
  /\ UNCHANGED cfg

(* Redemption of x pool units: every resource pays p[r], a whole number of ulps, with
   p[r]*units <= x*reserve[r]  - never more than the pro-rata share rounded down.            *)
RedeemOK(u, x, p) ==
  /\ LE(Z, x) /\ LE(x, held[u])          \* redeeming nothing pays nothing
  /\ \A r \in Res : /\ Amt(p[r], r)
                     /\ IF x = Z THEN p[r] = Z          \* (also keeps 0 * anything <= 0 from admitting a payout)
                        ELSE LE(Times(p[r], units), Times(x, reserve[r]))
Redeem(u, x, p) ==
  /\ RedeemOK(u, x, p)
  /\ reserve' = [r \in Res |-> Minus(reserve[r], p[r])]
  /\ units' = Minus(units, x)
  /\ held' = [held EXCEPT ![u] = Minus(@, x)]
  /\ streak' = NoStreak
  /\ UNCHANGED cfg

(* Pool manager: protected deposit / withdrawal move reserves without touching pool units. *)
PDeposit(r, x) ==
  /\ Amt(x, r)
  /\ reserve' = [reserve EXCEPT ![r] = Plus(@, x)]
  /\ streak' = NoStreak
  /\ UNCHANGED <<cfg, units, held>>
PWithdraw(r, x, w) ==
  /\ Amt(w, r) /\ LE(w, x) /\ LE(w, reserve[r])
  /\ reserve' = [reserve EXCEPT ![r] = Minus(@, w)]
  /\ streak' = NoStreak
  /\ UNCHANGED <<cfg, units, held>>

-----------------------------------------------------------------------------
(* Properties *)
NonNeg == /\ \A r \in Res : LE(Z, reserve[r])
          /\ LE(Z, units)
          /\ \A u \in Usr : LE(Z, held[u])
UnitsAreHeld == units = SumTo(held, cfg.nu)

(* What a redemption of x units may pay at most, said without division: a whole number of ulps
   q is NOT payable iff q*units > x*reserve[r].  The payable amounts are downward closed, so
   "every payable amount is <= bound" is  "bound + ulp is not payable"  (bound a whole number
   of ulps).  MCPools checks this closed form against the quantified meaning.                *)
NotPayable(x, r, q) == LT(Times(x, reserve[r]), Times(q, units))
NoGain(r) == NotPayable(streak.m, r, Plus(Plus(streak.acc[r], streak.orph[r]), Ulp(r)))
\* one contribution, immediately redeemed, never returns more than was accepted (+ ownerless dust of a new pool)
RoundTrip1 == streak.k = 1 => \A r \in Res : NoGain(r)
\* the same for several consecutive contributions of one user redeemed together
RoundTripK == streak.k >= 1 => \A r \in Res : NoGain(r)
=============================================================================

------------------------------ MODULE GenPools ------------------------------
(* G' for C41 (DESIGN 1: model-chosen inputs, trace-validated outputs).  The pool actions are
   nondeterministic, so a behaviour of Pools.tla cannot be replayed step by step; TLC generates
   only the INPUTS: a pool configuration (kind, divisibilities) and a sequence of K operations
   whose amounts are classes resolved by the harness against the real state at that moment
     resources:  sub (1 ulp) | tiny (3 ulps) | mid | eq (= current reserve) | third (reserve/3) |
                 part (reserve * j/8, same j for all resources: in ratio) | x1e6 (10^6 x reserve) |
                 max (2^152 sub-units, the mint limit) | bal (the user's whole balance, taken from
                 the account instead of minted)
     pool units: sub (1 atto) | tiny | half | third | all | over (holding + 1 atto) |
                 last (exactly what the user's last contribution minted - the round trip)
   What the real pool did is recorded and decided by TracePools.tla.
   Mode "edge": the FULL product (pool configuration) x (pool state: normal with two holders | fresh | fully
   redeemed | ownerless reserves | one reserve emptied) x (every operation with every amount class) - exhaustive,
   used by the quick tier too: nothing at a boundary is left to the random draw.
   Mode "sim": run with -simulate (seeded); an operation is chosen in two steps (kind, then
   arguments) so that the simulator's uniform choice among successors does not drown redemptions
   in the much larger set of contributions.  Mode "pairs": exhaustive, reduced alphabet.      *)
EXTENDS Integers, Sequences, FiniteSets, TLC, Json
CONSTANTS K, Mode
VARIABLES pool, hist, pending, gave, done
gvars == <<pool, hist, pending, gave, done>>
Sim == Mode # "pairs"          \* "sim" and "edge" use the full class alphabet
ResClasses == IF Sim THEN {"sub", "tiny", "mid", "eq", "third", "part", "x1e6", "max", "bal"}
              ELSE {"sub", "mid", "eq", "part", "x1e6", "max"}
UnitClasses == IF Sim THEN {"sub", "tiny", "half", "third", "all", "over", "last"}
               ELSE {"sub", "half", "all", "last"}
WdClasses == IF Sim THEN {"sub", "third", "half", "all", "over"} ELSE {"half", "all"}
Pools == {[kind |-> "one", divs |-> <<18>>], [kind |-> "one", divs |-> <<2>>], [kind |-> "one", divs |-> <<0>>],
          [kind |-> "two", divs |-> <<18, 18>>], [kind |-> "two", divs |-> <<0, 18>>], [kind |-> "two", divs |-> <<2, 0>>],
          [kind |-> "two", divs |-> <<18, 2>>],
          [kind |-> "multi", divs |-> <<18, 2, 0>>], [kind |-> "multi", divs |-> <<0, 18>>], [kind |-> "multi", divs |-> <<18, 18, 18>>]}
Users == {1, 2}
N == Len(pool.divs)
Uniform == {[r \in 1..N |-> c] : c \in ResClasses}
\* mixed: one class for the first resource, another for the rest (81 combinations)
Mixed == IF Sim THEN {[r \in 1..N |-> IF r = 1 THEN c1 ELSE c2] : c1 \in ResClasses, c2 \in ResClasses}
         ELSE Uniform \cup {[r \in 1..N |-> IF r = 1 THEN "mid" ELSE c] : c \in {"sub", "x1e6"}}
OpsOf(kind) ==
  CASE kind \in {"cu", "cu2"} -> {[op |-> "contribute", u |-> u, amt |-> a] : u \in Users, a \in Uniform}
    [] kind = "cm" -> {[op |-> "contribute", u |-> u, amt |-> a] : u \in Users, a \in Mixed}
    [] kind \in {"r", "r2"} -> {[op |-> "redeem", u |-> u, amt |-> c] : u \in gave, c \in UnitClasses}
    [] kind = "d" -> {[op |-> "pdeposit", r |-> r, amt |-> c] : r \in 1..N, c \in ResClasses \ {"bal"}}
    [] kind = "w" -> {[op |-> "pwithdraw", u |-> u, r |-> r, amt |-> c, exact |-> e] : u \in {1}, r \in 1..N, c \in WdClasses, e \in {FALSE}}
                       \cup {[op |-> "pwithdraw", u |-> 2, r |-> 1, amt |-> "third", exact |-> TRUE]}
Kinds == {"cu", "cu2", "cm", "r", "r2", "d", "w"}
GInit == pool \in Pools /\ hist = <<>> /\ pending = "" /\ gave = {} /\ done = FALSE
\* (in simulation mode TLC evaluates invariants on EVERY successor it generates, so the finished
\*  sequence is printed from a state that has exactly one predecessor step: done)
Pick == /\ ~done /\ Len(hist) < K /\ pending = ""
        /\ pending' \in {k \in Kinds : k \in {"r", "r2"} => gave # {}}
        /\ UNCHANGED <<pool, hist, gave, done>>
Fill == /\ ~done /\ pending # ""
        /\ \E o \in OpsOf(pending) :
              /\ hist' = Append(hist, o)
              /\ gave' = IF o.op = "contribute" THEN gave \cup {o.u} ELSE gave
        /\ pending' = "" /\ UNCHANGED <<pool, done>>
Finish == /\ ~done /\ Len(hist) = K /\ done' = TRUE /\ UNCHANGED <<pool, hist, pending, gave>>
\* exhaustive mode: one step per operation
Direct == /\ ~done /\ Len(hist) < K
          /\ \E k \in {"cm", "r", "d", "w"} : \E o \in OpsOf(k) :
                /\ hist' = Append(hist, o)
                /\ gave' = IF o.op = "contribute" THEN gave \cup {o.u} ELSE gave
          /\ UNCHANGED <<pool, pending, done>>
\* ---- Mode "edge"
C(u, c) == [op |-> "contribute", u |-> u, amt |-> [r \in 1..N |-> c]]
PrefixOps(pf) == CASE pf = "normal" -> <<C(1, "mid"), C(2, "part")>>
                   [] pf = "fresh" -> <<>>
                   [] pf = "drained" -> <<C(1, "mid"), [op |-> "redeem", u |-> 1, amt |-> "all"]>>
                   [] pf = "orphan" -> <<[op |-> "pdeposit", r |-> 1, amt |-> "mid"]>>
                   [] pf = "onesided" -> <<C(1, "mid"), [op |-> "pwithdraw", u |-> 1, r |-> 1, amt |-> "all", exact |-> FALSE]>>
MixedEdge == {[r \in 1..N |-> IF r = 1 THEN p[1] ELSE p[2]] : p \in {<<"mid", "sub">>, <<"sub", "x1e6">>, <<"max", "sub">>, <<"eq", "third">>, <<"mid", "zero">>, <<"zero", "mid">>}}
RedeemOps(us, cs) == {[op |-> "redeem", u |-> u, amt |-> c] : u \in us, c \in cs}
EdgeOps(pf) ==
  IF pf = "normal"
  THEN {[op |-> "contribute", u |-> u, amt |-> a] : u \in Users, a \in Uniform}
       \cup {[op |-> "contribute", u |-> 2, amt |-> a] : a \in MixedEdge}
       \cup {C(2, "zero"), [op |-> "pdeposit", r |-> 1, amt |-> "zero"]}
       \cup RedeemOps(Users, UnitClasses \cup {"=0"}) \cup OpsOf("d") \cup OpsOf("w")
  ELSE {C(2, c) : c \in {"sub", "mid", "max", "zero"}} \cup {[op |-> "contribute", u |-> 2, amt |-> [r \in 1..N |-> IF r = 1 THEN "mid" ELSE "sub"]]}
       \cup RedeemOps({1}, {"sub", "all", "over"})
       \cup {[op |-> "pwithdraw", u |-> 1, r |-> 1, amt |-> "all", exact |-> FALSE], [op |-> "pdeposit", r |-> N, amt |-> "sub"]}
Edge == /\ ~done /\ hist = <<>>
        /\ \E pf \in {"normal", "fresh", "drained", "orphan", "onesided"} : \E o \in EdgeOps(pf) : hist' = PrefixOps(pf) \o <<o>>
        /\ UNCHANGED <<pool, pending, gave, done>>
FinishEdge == /\ ~done /\ hist # <<>> /\ done' = TRUE /\ UNCHANGED <<pool, hist, pending, gave>>
GNext == IF Mode = "sim" THEN Pick \/ Fill \/ Finish
         ELSE IF Mode = "edge" THEN Edge \/ FinishEdge
         ELSE Direct \/ Finish
GSpec == GInit /\ [][GNext]_gvars
Emit == done => PrintT(<<"B", ToJson([kind |-> pool.kind, divs |-> pool.divs, ops |-> hist])>>)
=============================================================================

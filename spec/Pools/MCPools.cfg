SPECIFICATION Spec
CONSTANTS
  A = 4
  M = 4
  RCap = 8
  UCap = 8
  K = 5
  CfgSel = "two"
  StrictMint = TRUE
CONSTRAINT Bound
INVARIANTS NonNeg UnitsAreHeld RoundTrip1 RoundTripK ClosedFormsAgree Solvent
PROPERTIES RedeemProRata
CHECK_DEADLOCK FALSE

SPECIFICATION Spec
CONSTANTS
  A = 4
  M = 4
  RCap = 8
  UCap = 8
  K = 4
  CfgSel = "two"
  StrictMint = FALSE
CONSTRAINT Bound
INVARIANTS NonNeg UnitsAreHeld RoundTrip1 ClosedFormsAgree Solvent
PROPERTIES RedeemProRata
CHECK_DEADLOCK FALSE

----------------------------- MODULE TracePools -----------------------------
(* C41, impl -> spec.  Recorded histories of the REAL one-, two- and multi-resource pools
   (harness vh_pools pools run | record: every operation is one transaction on a LedgerSimulator;
   after it the harness reads every reserve vault, the pool-unit total supply and every user's
   balances from the database) are accepted iff every step is an instance of the nondeterministic
   action of Pools.tla, instantiated with big integers, and the invariants hold in every state.

   What is computed from the recording:  accepted = reserve after - reserve before,  minted =
   supply after - supply before, paid = reserve before - reserve after; the returned buckets are
   measured through the user's account balances (bal): change must come back exactly.

   Blocking (a step that does not satisfy it rejects the trace): everything Pools.tla demands with
   the mint bound the code guarantees (MintBound), user balances, failed transactions change nothing,
   no panic / native trap.
   Reported without blocking: <<"GAIN", l, k>> - user redeems (at most) the units minted by his k
   immediately preceding contributions and receives more of some resource than those contributions
   put in;  <<"INFO-MINT", l>> - a contribution minted more than pro-rata of the ACCEPTED amounts
   (DESIGN's stricter bound; information only).                                              *)
EXTENDS BigInt, TraceIO
VARIABLES cfg, reserve, units, held, streak, bal, l
BigMultOf(x, info) == LowDigits(x, info.dz) = Zero
\* x * 10^36 = x * BASE^9: nine zero limbs below (PreciseDecimal keeps 36 decimals)
BigScale(x) == IF x.s = 0 THEN x ELSE [s |-> x.s, l |-> <<0, 0, 0, 0, 0, 0, 0, 0, 0>> \o x.l]
INSTANCE Pools WITH Z <- Zero, Plus <- Add, Minus <- Sub, Times <- Mul, LE <- Leq, MultOf <- BigMultOf, Scale <- BigScale
tvars == <<cfg, reserve, units, held, streak, bal, l>>

Ev == Rec[l]
WfSeq(s) == \A i \in 1..Len(s) : IsBig(s[i])
Observed(ev) == /\ WfSeq(ev.res) /\ IsBig(ev.units) /\ WfSeq(ev.held)
                /\ \A u \in 1..Len(ev.bal) : WfSeq(ev.bal[u])
\* the recorded post-state equals the successor state (tuples from JSON = functions over 1..n)
Matches(ev) == /\ reserve' = ev.res /\ units' = ev.units /\ held' = ev.held /\ bal' = ev.bal
Same(ev) == /\ reserve = ev.res /\ units = ev.units /\ held = ev.held /\ bal = ev.bal

TInit == /\ l = 1
         /\ cfg = [n |-> 1, nu |-> 1, info |-> <<[ulp |-> One, dz |-> 0]>>]
         /\ reserve = <<Zero>> /\ units = Zero /\ held = <<Zero>> /\ bal = <<<<Zero>>>>
         /\ streak = [u |-> 0, k |-> 0, m |-> Zero, acc |-> <<Zero>>, orph |-> <<Zero>>]

TReset ==
  /\ l <= Len(Rec) /\ Ev.a = "reset"
  /\ LET ev == Ev IN
     /\ Observed(ev)
     /\ Len(ev.res) = ev.n /\ Len(ev.held) = ev.nu /\ Len(ev.bal) = ev.nu
     /\ \A r \in 1..ev.n : ev.ulp[r] = Pow10(ev.dz[r]) /\ ev.dz[r] \in 0..18
     /\ cfg' = [n |-> ev.n, nu |-> ev.nu,
                info |-> [r \in 1..ev.n |-> [ulp |-> ev.ulp[r], dz |-> ev.dz[r]]]]
     /\ ev.prec = 36
     /\ streak' = [u |-> 0, k |-> 0, m |-> Zero, acc |-> [r \in 1..ev.n |-> Zero], orph |-> [r \in 1..ev.n |-> Zero]]
     /\ Matches(ev)
  /\ l' = l + 1

TContribute ==
  /\ l <= Len(Rec) /\ Ev.a = "contribute" /\ Ev.out = "commit"
  /\ LET ev == Ev
         u == ev.u
         acc == [r \in Res |-> Sub(ev.res[r], reserve[r])]
         m == Sub(ev.units, units)
     IN /\ Observed(ev) /\ WfSeq(ev.in)
        /\ Contribute(u, ev.in, acc, m, FALSE)
        \* what was taken from the account must have been there; everything not accepted comes back
        /\ \A r \in Res : ev.acct[r] => Leq(ev.in[r], bal[u][r])
        /\ bal' = [bal EXCEPT ![u] = [r \in Res |-> IF ev.acct[r] THEN Sub(bal[u][r], acc[r])
                                                     ELSE Add(bal[u][r], Change(ev.in, acc)[r])]]
        /\ Matches(ev)
        /\ IF units = Zero \/ MintProRata(acc, m) THEN TRUE ELSE PrintT(<<"INFO-MINT", l>>)
  /\ l' = l + 1

TRedeem ==
  /\ l <= Len(Rec) /\ Ev.a = "redeem" /\ Ev.out = "commit"
  /\ LET ev == Ev
         u == ev.u
         p == [r \in Res |-> Sub(reserve[r], ev.res[r])]
     IN /\ Observed(ev) /\ IsBig(ev.x)
        /\ Redeem(u, ev.x, p)
        /\ bal' = [bal EXCEPT ![u] = [r \in Res |-> Add(bal[u][r], p[r])]]
        /\ Matches(ev)
        /\ IF streak.u = u /\ Leq(ev.x, streak.m)
              /\ \E r \in Res : ~Leq(p[r], Add(streak.acc[r], streak.orph[r]))
           THEN PrintT(<<"GAIN", l, streak.k>>) ELSE TRUE
  /\ l' = l + 1

TPDeposit ==
  /\ l <= Len(Rec) /\ Ev.a = "pdeposit" /\ Ev.out = "commit"
  /\ LET ev == Ev IN
        /\ Observed(ev) /\ IsBig(ev.x)
        /\ PDeposit(ev.r, ev.x)
        /\ UNCHANGED bal
        /\ Matches(ev)
  /\ l' = l + 1

TPWithdraw ==
  /\ l <= Len(Rec) /\ Ev.a = "pwithdraw" /\ Ev.out = "commit"
  /\ LET ev == Ev
         w == Sub(reserve[ev.r], ev.res[ev.r])
     IN /\ Observed(ev) /\ IsBig(ev.x)
        /\ PWithdraw(ev.r, ev.x, w)
        /\ bal' = [bal EXCEPT ![ev.u][ev.r] = Add(@, w)]
        /\ Matches(ev)
  /\ l' = l + 1

\* a failed or rejected transaction changes nothing; a panic or a trap of the native blueprint matches no action
TFail ==
  /\ l <= Len(Rec) /\ Ev.a \in {"contribute", "redeem", "pdeposit", "pwithdraw"}
  /\ Ev.out \in {"err", "reject"} /\ ~Ev.trap
  /\ Observed(Ev) /\ Same(Ev)
  /\ UNCHANGED <<cfg, reserve, units, held, streak, bal>>
  /\ l' = l + 1

TEnd == /\ l <= Len(Rec) /\ Ev.a = "end"
        /\ UNCHANGED <<cfg, reserve, units, held, streak, bal>> /\ l' = l + 1

TNext == TReset \/ TContribute \/ TRedeem \/ TPDeposit \/ TPWithdraw \/ TFail \/ TEnd
TSpec == TInit /\ [][TNext]_tvars
BalNonNeg == \A u \in Usr : \A r \in Res : Leq(Zero, bal[u][r])
=============================================================================

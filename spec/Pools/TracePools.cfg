SPECIFICATION TSpec
INVARIANTS NonNeg UnitsAreHeld RoundTrip1 BalNonNeg
POSTCONDITION TraceAccepted
CHECK_DEADLOCK FALSE

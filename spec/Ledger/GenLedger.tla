------------------------------ MODULE GenLedger ------------------------------
(* Behaviour generator for Ledger.tla: histories of transactions (manifests as instruction
   sequences with symbolic arguments) with the model's prediction for each: success / index of
   the failing instruction / error class, and the ledger after the transaction (every account
   balance and id set, supplies, non-fungible data).  Exhaustive (GSpec, all paths) on tiny
   constants; seeded simulation (SSpec: every choice is drawn with RandomElement, so a step
   has one successor) for deeper ones.                                                        *)
EXTENDS MCLedger, Json
CONSTANTS FailOdds,    \* simulation: 1 in FailOdds instructions is drawn from all candidates, the others from the succeeding ones
          EndOdds,     \* simulation: a transaction that could end successfully ends with probability 1/EndOdds
          Weights,     \* simulation: sequence of instruction kinds drawn more often (on top of one entry per enabled kind)
          Scripts      \* boundary generator: set of [name, items, ops, res, acc]
VARIABLES hist,        \* finished transactions
          cur,         \* instructions of the running transaction
          ini,         \* projection of the initial ledger
          sc, pos, phase   \* boundary generator: the script, the position in it, script / probe / close / done

Proj(L) == [bal |-> [a \in Accts |-> [r \in Res |-> [amt |-> Total(r, L.vault[a][r]), ids |-> AllIds(L.vault[a][r])]]],
            sup |-> L.supply,
            data |-> [r \in NRes |-> {<<x, L.data[r][x].a, L.data[r][x].b, L.data[r][x].c, L.data[r][x].d>> : x \in DOMAIN L.data[r]}],
            ever |-> L.ever, ctr |-> L.ctr]

Record ==   \* bookkeeping of the step just taken (reads the primed variables of Ledger)
  IF status' \in {"ok", "fail"}
  THEN /\ hist' = Append(hist, [ins |-> IF last'.ins.op = "EndTx" THEN cur ELSE Append(cur, last'.ins),
                                ok |-> status' = "ok",
                                fail |-> IF status' = "ok" THEN -1 ELSE Len(cur),     \* 0-based; Len(ins) = at the end of the manifest
                                err |-> last'.err,
                                post |-> Proj(pre')])
       /\ cur' = <<>>
  ELSE /\ cur' = Append(cur, last'.ins) /\ hist' = hist
gvars == <<vars, hist, cur, ini>>
GInit == Init /\ hist = <<>> /\ cur = <<>> /\ ini = Proj(pre)
NoSc == [name |-> "", items |-> <<>>, ops |-> {}, res |-> {}, acc |-> {}]
Idle == sc = NoSc /\ pos = 0 /\ phase = "none"
GNext == Next /\ Record /\ UNCHANGED <<ini, sc, pos, phase>>
GSpec == GInit /\ Idle /\ [][GNext]_<<gvars, sc, pos, phase>>

\* ---- seeded simulation.  NOTE: TLC re-evaluates a LET definition at every use, so every random draw is
\* bound exactly once with  \E x \in {RandomElement(..)}.
AllOpsSeq == <<"Withdraw", "WithdrawNF", "TakeFromWorktop", "TakeNF", "TakeAll", "ReturnToWorktop", "Deposit", "DepositBatch",
               "Mint", "MintNF", "MintNFWrongType", "MintRuid", "MintSingleRuid", "WithdrawNFAmount", "BurnNFAmountInAccount", "RecallNFAmount", "Burn", "BurnInAccount", "BurnNFInAccount", "Recall", "RecallNF",
               "ProofOfAmount", "ProofOfNF", "BucketProofOfAmount", "BucketProofOfNF", "BucketProofOfAll", "PopFromAuthZone",
               "PushToAuthZone", "CloneProof", "DropProof", "DropAllProofs", "DropNamedProofs", "DropAuthZoneProofs",
               "DropAuthZoneRegularProofs", "DropAuthZoneSignatureProofs", "AzProofOfAmount", "AzProofOfNF", "AzProofOfAll",
               "AssertContains", "AssertAny", "AssertNF", "UpdateNFData",
               "AssertResOnly", "AssertResInclude", "AssertNextCallOnly", "AssertNextCallInclude", "AssertBucket">>
OpTable == SelectSeq(Weights \o AllOpsSeq, LAMBDA o : o \in Ops)
SStep == \E j \in {RandomElement(1..Len(OpTable))}, f \in {RandomElement(1..FailOdds)} :
           LET op == OpTable[j]
               c == CandOf(Cur, op)
               c2 == IF c = {} THEN Cand(Cur) ELSE c
               good == {i \in c2 : Exec(Cur, i).ok}
           IN \E ins \in {IF good # {} /\ f # 1 THEN RandomElement(good) ELSE RandomElement(c2)} : Step(ins)
SNext == /\ \E e1 \in {RandomElement(1..EndOdds)}, e2 \in {RandomElement(1..16)} :
              IF status = "run" /\ (nins >= MaxInstr \/ (End(Cur).ok /\ e1 = 1) \/ e2 = 1)
              THEN EndTx
              ELSE SStep
         /\ Record /\ UNCHANGED <<ini, sc, pos, phase>>
SSpec == GInit /\ Idle /\ [][SNext]_<<gvars, sc, pos, phase>>

\* ---- boundary generator (BSpec): a scripted prefix (instructions and transaction ends) that brings the ledger into a
\* state at a limit (worktop = balance, vault partly locked, overlapping proofs, locked bucket on the worktop, burnt id,
\* failed mint ...), then EVERY candidate instruction of the script's kinds with EVERY argument (amounts 0 .. balance + 1
\* granule in half-granule steps, all id sets), then a fixed closing sequence that lets a well-formed transaction end.
\* The full product (limit state) x (instruction kind) x (argument) is enumerated; nothing is sampled.
bvars == <<gvars, sc, pos, phase>>
Probes == {i \in UNION {CandOf(Cur, op) : op \in sc.ops} : (i.r = "" \/ i.r \in sc.res) /\ (i.a = "" \/ i.a \in sc.acc)}
CloseIns(S) ==
  IF \E k \in DOMAIN S.np : S.np[k].live THEN I("DropNamedProofs", "", "", 0, {}, 0, "", 0)
  ELSE IF S.az # <<>> THEN I("DropAuthZoneRegularProofs", "", "", 0, {}, 0, "", 0)
  ELSE IF \E k \in DOMAIN S.nb : S.nb[k].live
       THEN I("ReturnToWorktop", "", "", 0, {}, CHOOSE k \in DOMAIN S.nb : S.nb[k].live /\ \A j \in DOMAIN S.nb : S.nb[j].live => k <= j, "", 0)
  ELSE IF \E r \in Res : S.wt[r].on THEN I("DepositBatch", "a1", "", 0, {}, 0, "", 0)
  ELSE EndIns
Do(ins) == IF ins.op = "EndTx" THEN EndTx ELSE Step(ins)
After == IF status' = "run" THEN "close" ELSE "done"
BInit == /\ GInit /\ sc \in Scripts /\ pos = 1 /\ phase = IF sc.items = <<>> THEN "probe" ELSE "script"
BNext == /\ \/ /\ phase = "script" /\ Do(sc.items[pos]) /\ pos' = pos + 1
               /\ phase' = IF pos = Len(sc.items) THEN "probe" ELSE "script"
            \/ /\ phase = "probe" /\ (\E ins \in Probes : Step(ins)) /\ phase' = After /\ pos' = pos
            \/ /\ phase = "close" /\ Do(CloseIns(Cur)) /\ phase' = After /\ pos' = pos
         /\ Record /\ UNCHANGED <<ini, sc>>
BSpec == BInit /\ [][BNext]_bvars
BEmit == phase = "done" => PrintT(<<"B", ToJson([name |-> sc.name, res |-> ResDef, unit |-> Unit, init |-> ini, txs |-> hist])>>)

Done == status \in {"ok", "fail"} /\ ntx = MaxTx
Emit == Done => PrintT(<<"B", ToJson([res |-> ResDef, unit |-> Unit, init |-> ini, txs |-> hist])>>)
=============================================================================

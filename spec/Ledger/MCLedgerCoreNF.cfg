SPECIFICATION Spec
CONSTANTS
  Accts <- A2
  ResDef <- ResFN
  Unit = 2
  AmtArgs = {0, 2, 3}
  IdArgs <- Ids2
  Ops <- OpsCoreNF
  MaxBuckets = 2
  MaxProofs = 0
  MaxAz = 0
  MaxInstr = 4
  MaxTx = 1
  SupplyCap = 8
  DataVals = {7}
  ConsArgs <- ConsSmallFN
  ConArgs <- ConSmallFN
  InitLedgers <- InitFN
VIEW View
INVARIANTS TypeOK SupplyMatches InTxSupply NonNegative CommittedIsPre InTxConservation NoEmptyWorktopBucket
  LocksMatchProofs ProofBacked UnlockedIsLiquid NoLocksOutsideTx DivisibilityState LiveSubsetEver HeldIdsAreLive MintedOnce
PROPERTIES Conservation SupplyDelta RevertExact SuccessClean TakeExact TakeShortFails TakeEnoughSucceeds AssertExact ResAssertExact
  UseAfterConsume TotalUnchangedByLocks OnlyLiquidLeaves DivisibilityArgs EverMonotone MintFresh DataChangeRestricted UpdateOnlyLive
CHECK_DEADLOCK FALSE

SPECIFICATION Spec
CONSTANTS
  Accts <- A2
  ResDef <- ResNU
  Unit = 2
  AmtArgs = {0}
  IdArgs <- Ids2
  Ops <- OpsNF
  MaxBuckets = 1
  MaxProofs = 0
  MaxAz = 0
  MaxInstr = 3
  MaxTx = 3
  SupplyCap = 8
  DataVals = {7}
  ConsArgs <- ConsNone
  ConArgs <- ConsNone
  InitLedgers <- InitNU
VIEW View
INVARIANTS TypeOK SupplyMatches InTxSupply NonNegative CommittedIsPre InTxConservation NoEmptyWorktopBucket
  LocksMatchProofs ProofBacked UnlockedIsLiquid NoLocksOutsideTx DivisibilityState LiveSubsetEver HeldIdsAreLive MintedOnce
PROPERTIES Conservation SupplyDelta RevertExact SuccessClean TakeExact TakeShortFails TakeEnoughSucceeds AssertExact
  UseAfterConsume TotalUnchangedByLocks OnlyLiquidLeaves DivisibilityArgs EverMonotone MintFresh DataChangeRestricted UpdateOnlyLive
CHECK_DEADLOCK FALSE

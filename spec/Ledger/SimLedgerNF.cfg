SPECIFICATION SSpec
CONSTANTS
  Accts <- A2
  ResDef <- ResNU
  Unit = 2
  AmtArgs = {0}
  IdArgs <- Ids1
  Ops <- OpsNF
  MaxBuckets = 2
  MaxProofs = 0
  MaxAz = 0
  MaxInstr = 3
  MaxTx = 4
  SupplyCap = 8
  DataVals = {7, 8}
  ConsArgs <- ConsNone
  ConArgs <- ConsNone
  InitLedgers <- InitNU
  FailOdds = 5
  EndOdds = 2
  Weights <- WNF
  Scripts <- NoScripts
INVARIANT Emit
CHECK_DEADLOCK FALSE

SPECIFICATION BSpec
CONSTANTS
  Accts <- A2
  ResDef <- ResFN
  Unit = 2
  AmtArgs = {0, 2, 3, 4, 6, 8, 10}
  IdArgs <- IdsAll
  Ops <- OpsAll
  MaxBuckets = 3
  MaxProofs = 6
  MaxAz = 3
  MaxInstr = 30
  MaxTx = 8
  SupplyCap = 14
  DataVals = {7, 8}
  ConsArgs <- ConsNone
  ConArgs <- ConsNone
  InitLedgers <- InitZ
  FailOdds = 4
  EndOdds = 3
  Weights <- WAll
  Scripts <- ScZ
INVARIANT BEmit
CHECK_DEADLOCK FALSE

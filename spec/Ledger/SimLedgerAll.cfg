SPECIFICATION SSpec
CONSTANTS
  Accts <- A2
  ResDef <- ResFN
  Unit = 2
  AmtArgs = {0, 2, 3, 4, 6}
  IdArgs <- Ids1
  Ops <- OpsAll
  MaxBuckets = 3
  MaxProofs = 3
  MaxAz = 2
  MaxInstr = 8
  MaxTx = 1
  SupplyCap = 10
  DataVals = {7, 8}
  ConsArgs <- ConsNone
  ConArgs <- ConsNone
  InitLedgers <- InitFN
  FailOdds = 4
  EndOdds = 3
  Weights <- WAll
  Scripts <- NoScripts
INVARIANT Emit
CHECK_DEADLOCK FALSE

SPECIFICATION GSpec
CONSTANTS
  Accts <- A1
  ResDef <- ResN
  Unit = 2
  AmtArgs = {0}
  IdArgs <- IdsOne
  Ops <- OpsNFTiny
  MaxBuckets = 1
  MaxProofs = 0
  MaxAz = 0
  MaxInstr = 2
  MaxTx = 3
  SupplyCap = 8
  DataVals = {7}
  ConsArgs <- ConsNone
  ConArgs <- ConsNone
  InitLedgers <- InitN0a
  FailOdds = 4
  EndOdds = 3
  Weights <- WNF
  Scripts <- NoScripts
INVARIANT Emit
CHECK_DEADLOCK FALSE

SPECIFICATION SSpec
CONSTANTS
  Accts <- A2
  ResDef <- ResFG
  Unit = 2
  AmtArgs = {0, 2, 3, 4, 6}
  IdArgs <- IdsNone
  Ops <- OpsAll
  MaxBuckets = 3
  MaxProofs = 2
  MaxAz = 2
  MaxInstr = 8
  MaxTx = 1
  SupplyCap = 10
  DataVals = {7, 8}
  ConsArgs <- ConsNone
  ConArgs <- ConsNone
  InitLedgers <- InitFG
  FailOdds = 4
  EndOdds = 3
  Weights <- WAll
  Scripts <- NoScripts
INVARIANT Emit
CHECK_DEADLOCK FALSE

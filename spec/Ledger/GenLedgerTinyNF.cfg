SPECIFICATION GSpec
CONSTANTS
  Accts <- A2
  ResDef <- ResN
  Unit = 2
  AmtArgs = {0, 2}
  IdArgs <- Ids2
  Ops <- OpsCoreNF
  MaxBuckets = 1
  MaxProofs = 0
  MaxAz = 0
  MaxInstr = 2
  MaxTx = 1
  SupplyCap = 8
  DataVals = {7}
  ConsArgs <- ConsNone
  ConArgs <- ConsNone
  InitLedgers <- InitN
  FailOdds = 4
  EndOdds = 3
  Weights <- WCore
  Scripts <- NoScripts
INVARIANT Emit
CHECK_DEADLOCK FALSE

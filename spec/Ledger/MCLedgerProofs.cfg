SPECIFICATION Spec
CONSTANTS
  Accts <- A2
  ResDef <- ResF
  Unit = 2
  AmtArgs = {0, 2, 3, 4}
  IdArgs <- IdsNone
  Ops <- OpsProofs
  MaxBuckets = 2
  MaxProofs = 2
  MaxAz = 2
  MaxInstr = 5
  MaxTx = 1
  SupplyCap = 8
  DataVals = {7}
  ConsArgs <- ConsNone
  ConArgs <- ConsNone
  InitLedgers <- InitCore
VIEW View
INVARIANTS TypeOK SupplyMatches InTxSupply NonNegative CommittedIsPre InTxConservation NoEmptyWorktopBucket
  LocksMatchProofs ProofBacked UnlockedIsLiquid NoLocksOutsideTx DivisibilityState LiveSubsetEver HeldIdsAreLive MintedOnce
PROPERTIES Conservation SupplyDelta RevertExact SuccessClean TakeExact TakeShortFails TakeEnoughSucceeds AssertExact
  UseAfterConsume TotalUnchangedByLocks OnlyLiquidLeaves DivisibilityArgs EverMonotone MintFresh DataChangeRestricted UpdateOnlyLive
CHECK_DEADLOCK FALSE

SPECIFICATION Spec
CONSTANTS
  Accts <- A2
  ResDef <- ResN
  Unit = 2
  AmtArgs = {0}
  IdArgs <- Ids2
  Ops <- OpsProofsNF
  MaxBuckets = 2
  MaxProofs = 2
  MaxAz = 2
  MaxInstr = 4
  MaxTx = 1
  SupplyCap = 8
  DataVals = {7}
  ConsArgs <- ConsNone
  ConArgs <- ConsNone
  InitLedgers <- InitN
VIEW View
INVARIANTS TypeOK SupplyMatches InTxSupply NonNegative CommittedIsPre InTxConservation NoEmptyWorktopBucket
  LocksMatchProofs ProofBacked UnlockedIsLiquid NoLocksOutsideTx DivisibilityState LiveSubsetEver HeldIdsAreLive MintedOnce
PROPERTIES Conservation SupplyDelta RevertExact SuccessClean TakeExact TakeShortFails TakeEnoughSucceeds AssertExact
  UseAfterConsume TotalUnchangedByLocks OnlyLiquidLeaves DivisibilityArgs EverMonotone MintFresh DataChangeRestricted UpdateOnlyLive
CHECK_DEADLOCK FALSE

SPECIFICATION GSpec
CONSTANTS
  Accts <- A2
  ResDef <- ResF
  Unit = 2
  AmtArgs = {0, 2, 3, 6}
  IdArgs <- IdsNone
  Ops <- OpsCore
  MaxBuckets = 2
  MaxProofs = 0
  MaxAz = 0
  MaxInstr = 2
  MaxTx = 1
  SupplyCap = 8
  DataVals = {7}
  ConsArgs <- ConsNone
  ConArgs <- ConsNone
  InitLedgers <- InitCore
  FailOdds = 4
  EndOdds = 3
  Weights <- WCore
  Scripts <- NoScripts
INVARIANT Emit
CHECK_DEADLOCK FALSE

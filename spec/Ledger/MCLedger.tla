------------------------------ MODULE MCLedger ------------------------------
(* Exhaustive instances of Ledger.tla.  The cfg files select resources, instruction kinds and bounds. *)
EXTENDS Ledger

A2 == {"a1", "a2"}
A1 == {"a1"}
DefF == [kind |-> "F", div |-> 2, track |-> TRUE, ruid |-> FALSE, uni |-> {}]
DefG == [kind |-> "F", div |-> 0, track |-> FALSE, ruid |-> FALSE, uni |-> {}]        \* supply not tracked
DefN == [kind |-> "NF", div |-> 0, track |-> TRUE, ruid |-> FALSE, uni |-> {1, 2, 3}]
DefU == [kind |-> "NF", div |-> 0, track |-> TRUE, ruid |-> TRUE, uni |-> {1, 2, 3}]   \* RUID ids, by ordinal of generation
DefH == [kind |-> "F", div |-> 18, track |-> TRUE, ruid |-> FALSE, uni |-> {}]   \* finest divisibility: no amount with a digit too many exists
ResF   == [F |-> DefF]
ResH   == [H |-> DefH]
ResFN  == [F |-> DefF, N |-> DefN]
ResN   == [N |-> DefN]
ResNU  == [N |-> DefN, U |-> DefU]
ResFG  == [F |-> DefF, G |-> DefG]

Dt(S) == [x \in S |-> Data0]
\* a1 holds 2 granules, a2 holds 1
LedF == [vault |-> [a1 |-> [F |-> FC(4)], a2 |-> [F |-> FC(2)]],
         supply |-> [F |-> 6], data |-> <<>>, ever |-> <<>>, ctr |-> <<>>]
LedFN == [vault |-> [a1 |-> [F |-> FC(4), N |-> NC({1, 2})], a2 |-> [F |-> FC(2), N |-> C0]],
          supply |-> [F |-> 6, N |-> 4], data |-> [N |-> Dt({1, 2})], ever |-> [N |-> {1, 2}], ctr |-> [N |-> 0]]
LedN == [vault |-> [a1 |-> [N |-> NC({1, 2})], a2 |-> [N |-> C0]],
         supply |-> [N |-> 4], data |-> [N |-> Dt({1, 2})], ever |-> [N |-> {1, 2}], ctr |-> [N |-> 0]]
LedN0 == [vault |-> [a1 |-> [N |-> C0], a2 |-> [N |-> C0]],
          supply |-> [N |-> 0], data |-> [N |-> Dt({})], ever |-> [N |-> {}], ctr |-> [N |-> 0]]
LedNU == [vault |-> [a1 |-> [N |-> NC({1}), U |-> NC({1})], a2 |-> [N |-> C0, U |-> C0]],
          supply |-> [N |-> 2, U |-> 2], data |-> [N |-> Dt({1}), U |-> Dt({1})],
          ever |-> [N |-> {1}, U |-> {1}], ctr |-> [N |-> 0, U |-> 1]]
LedFG == [vault |-> [a1 |-> [F |-> FC(4), G |-> FC(2)], a2 |-> [F |-> FC(2), G |-> C0]],
          supply |-> [F |-> 6, G |-> 0], data |-> <<>>, ever |-> <<>>, ctr |-> <<>>]

OpsCore == {"Withdraw", "TakeFromWorktop", "TakeAll", "ReturnToWorktop", "Deposit", "DepositBatch",
            "Mint", "Burn", "AssertContains", "AssertAny"}
OpsCoreNF == OpsCore \cup {"WithdrawNF", "TakeNF", "MintNF", "AssertNF"}
OpsProofs == {"Withdraw", "TakeFromWorktop", "TakeAll", "ReturnToWorktop", "Deposit", "Burn", "BurnInAccount", "Recall",
              "ProofOfAmount", "BucketProofOfAmount", "BucketProofOfAll", "PopFromAuthZone", "PushToAuthZone",
              "CloneProof", "DropProof", "DropAllProofs", "DropAuthZoneRegularProofs"}
OpsProofsNF == {"WithdrawNF", "TakeNF", "TakeAll", "ReturnToWorktop", "Deposit", "Burn", "BurnNFInAccount", "RecallNF",
                "ProofOfNF", "BucketProofOfNF", "BucketProofOfAll", "PopFromAuthZone", "CloneProof", "DropProof",
                "DropAllProofs", "DropAuthZoneRegularProofs"}
OpsNF == {"WithdrawNF", "TakeAll", "Deposit", "DepositBatch", "MintNF", "MintNFWrongType", "MintRuid", "Burn",
          "BurnNFInAccount", "UpdateNFData"}
OpsHist == {"Withdraw", "WithdrawNF", "TakeAll", "Deposit", "DepositBatch", "Mint", "MintNF", "Burn", "BurnInAccount",
            "BurnNFInAccount", "Recall", "ProofOfAmount", "UpdateNFData"}
OpsAll == {"Withdraw", "WithdrawNF", "TakeFromWorktop", "TakeNF", "TakeAll", "ReturnToWorktop", "Deposit", "DepositBatch",
           "Mint", "MintNF", "MintNFWrongType", "MintRuid", "Burn", "BurnInAccount", "BurnNFInAccount", "Recall", "RecallNF",
           "ProofOfAmount", "ProofOfNF", "BucketProofOfAmount", "BucketProofOfNF", "BucketProofOfAll", "PopFromAuthZone",
           "PushToAuthZone", "CloneProof", "DropProof", "DropAllProofs", "DropNamedProofs", "DropAuthZoneProofs",
           "DropAuthZoneRegularProofs", "AssertContains", "AssertAny", "AssertNF", "UpdateNFData"}

\* simulation weights (GenLedger)
WCore == <<"Withdraw", "Withdraw", "TakeFromWorktop", "TakeFromWorktop", "TakeAll", "TakeAll", "Mint", "WithdrawNF", "WithdrawNF", "TakeNF", "MintNF",
           "ReturnToWorktop", "Deposit", "Deposit", "DepositBatch", "DepositBatch", "Burn">>
WAll == WCore \o <<"ProofOfAmount", "ProofOfNF", "BucketProofOfAmount", "BucketProofOfAll", "BucketProofOfNF", "PopFromAuthZone", "CloneProof", "DropProof",
                   "Recall", "BurnInAccount", "MintRuid", "UpdateNFData">>
WProofs == <<"Withdraw", "Withdraw", "WithdrawNF", "WithdrawNF", "TakeFromWorktop", "TakeAll", "TakeAll", "TakeNF", "ReturnToWorktop", "Deposit", "DepositBatch",
             "ProofOfAmount", "ProofOfAmount", "ProofOfNF", "ProofOfNF", "BucketProofOfAmount", "BucketProofOfAmount", "BucketProofOfAll", "BucketProofOfNF", "BucketProofOfNF",
             "PopFromAuthZone", "PopFromAuthZone", "PushToAuthZone", "CloneProof", "CloneProof", "CloneProof", "DropProof", "DropProof", "DropProof",
             "DropNamedProofs", "DropAuthZoneRegularProofs", "Recall", "RecallNF", "BurnInAccount", "BurnNFInAccount", "Burn">>
WNF == <<"MintNF", "MintNF", "MintNF", "MintRuid", "MintRuid", "TakeAll", "TakeAll", "Burn", "Burn", "BurnNFInAccount", "BurnNFInAccount", "DepositBatch", "DepositBatch",
         "DepositBatch", "UpdateNFData", "UpdateNFData", "WithdrawNF", "Deposit">>
IdsNone == {}
Ids1 == {{}, {1}, {2}, {3}, {1, 2}}
Ids2 == {{1}, {3}, {1, 2}, {2, 3}}
IdsAll == SUBSET {1, 2, 3}

LedN0a == [vault |-> [a1 |-> [N |-> C0]], supply |-> [N |-> 0], data |-> [N |-> Dt({})], ever |-> [N |-> {}], ctr |-> [N |-> 0]]
InitN0a == {LedN0a}
LedFa == [vault |-> [a1 |-> [F |-> FC(4)]], supply |-> [F |-> 4], data |-> <<>>, ever |-> <<>>, ctr |-> <<>>]
InitFa == {LedFa}
OpsBucketProofs == {"Withdraw", "TakeAll", "TakeFromWorktop", "BucketProofOfAll", "BucketProofOfAmount", "Deposit", "Burn", "ReturnToWorktop", "DropProof", "CloneProof"}
OpsNFTiny == {"MintNF", "DepositBatch", "BurnNFInAccount", "UpdateNFData"}
IdsOne == {{1}}
LedH == [vault |-> [a1 |-> [H |-> FC(4)], a2 |-> [H |-> FC(2)]], supply |-> [H |-> 6], data |-> <<>>, ever |-> <<>>, ctr |-> <<>>]
InitH == {LedH}
InitCore == {LedF}
InitFN == {LedFN}
InitN == {LedN}
InitN0 == {LedN0}
InitNU == {LedNU}
InitFG == {LedFG}

\* everything but the observation of the last instruction (read by action properties only)
View == <<vault, supply, data, ever, ctr, wt, nb, np, az, sigs, minted, burned, pre, status, nins, ntx, mintCount>>
=============================================================================

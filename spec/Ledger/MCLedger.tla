------------------------------ MODULE MCLedger ------------------------------
(* Exhaustive instances of Ledger.tla.  The cfg files select resources, instruction kinds and bounds. *)
EXTENDS Ledger

A2 == {"a1", "a2"}
A1 == {"a1"}
DefF == [kind |-> "F", div |-> 2, track |-> TRUE, ruid |-> FALSE, uni |-> {}]
DefG == [kind |-> "F", div |-> 0, track |-> FALSE, ruid |-> FALSE, uni |-> {}]        \* supply not tracked
DefN == [kind |-> "NF", div |-> 0, track |-> TRUE, ruid |-> FALSE, uni |-> {1, 2, 3}]
DefU == [kind |-> "NF", div |-> 0, track |-> TRUE, ruid |-> TRUE, uni |-> {1, 2, 3}]   \* RUID ids, by ordinal of generation
DefH == [kind |-> "F", div |-> 18, track |-> TRUE, ruid |-> FALSE, uni |-> {}]   \* finest divisibility: no amount with a digit too many exists
ResF   == [F |-> DefF]
ResH   == [H |-> DefH]
ResFN  == [F |-> DefF, N |-> DefN]
ResN   == [N |-> DefN]
ResNU  == [N |-> DefN, U |-> DefU]
ResFG  == [F |-> DefF, G |-> DefG]

Dt(S) == [x \in S |-> Data0]
\* resource constraints (V2 assertions)
ConsNone == {}
Cf(r, c) == (r :> c)
ConF == {Kc("nz", 0, {}), Kc("ex", 0, {}), Kc("ex", 2, {}), Kc("ex", 4, {}), Kc("ex", 6, {}), Kc("al", 0, {}), Kc("al", 2, {}),
         Kc("al", 4, {}), Kc("al", 5, {}), Kc("al", 6, {}), Kc("exnf", 0, {1})}
ConN == {Kc("nz", 0, {}), Kc("ex", 2, {}), Kc("ex", 4, {}), Kc("ex", 3, {}), Kc("al", 4, {}), Kc("al", 6, {}), Kc("exnf", 0, {1, 2}),
         Kc("exnf", 0, {1}), Kc("exnf", 0, {}), Kc("alnf", 0, {1}), Kc("alnf", 0, {1, 3}), Kc("alnf", 0, {})}
ConBoth == ConF \cup ConN
\* every single-resource constraint, the empty constraints (ASSERT_WORKTOP_IS_EMPTY / returns nothing), and pairs
ConsFN == {NoCons} \cup {Cf("F", c) : c \in ConF} \cup {Cf("N", c) : c \in ConN}
          \cup {[F |-> x[1], N |-> x[2]] : x \in {Kc("al", 2, {}), Kc("ex", 4, {})} \X {Kc("nz", 0, {}), Kc("exnf", 0, {1, 2})}}
ConsSmallF == {NoCons, Cf("F", Kc("nz", 0, {})), Cf("F", Kc("ex", 2, {})), Cf("F", Kc("al", 4, {}))}
ConSmallF == {Kc("nz", 0, {}), Kc("ex", 2, {}), Kc("al", 4, {})}
ConsSmallFN == ConsSmallF \cup {Cf("N", Kc("exnf", 0, {1})), Cf("N", Kc("alnf", 0, {1}))}
ConSmallFN == ConSmallF \cup {Kc("exnf", 0, {1})}
\* a1 holds 2 granules, a2 holds 1
LedF == [vault |-> [a1 |-> [F |-> FC(4)], a2 |-> [F |-> FC(2)]],
         supply |-> [F |-> 6], data |-> <<>>, ever |-> <<>>, ctr |-> <<>>]
LedFN == [vault |-> [a1 |-> [F |-> FC(4), N |-> NC({1, 2})], a2 |-> [F |-> FC(2), N |-> C0]],
          supply |-> [F |-> 6, N |-> 4], data |-> [N |-> Dt({1, 2})], ever |-> [N |-> {1, 2}], ctr |-> [N |-> 0]]
LedN == [vault |-> [a1 |-> [N |-> NC({1, 2})], a2 |-> [N |-> C0]],
         supply |-> [N |-> 4], data |-> [N |-> Dt({1, 2})], ever |-> [N |-> {1, 2}], ctr |-> [N |-> 0]]
LedN0 == [vault |-> [a1 |-> [N |-> C0], a2 |-> [N |-> C0]],
          supply |-> [N |-> 0], data |-> [N |-> Dt({})], ever |-> [N |-> {}], ctr |-> [N |-> 0]]
LedNU == [vault |-> [a1 |-> [N |-> NC({1}), U |-> NC({1})], a2 |-> [N |-> C0, U |-> C0]],
          supply |-> [N |-> 2, U |-> 2], data |-> [N |-> Dt({1}), U |-> Dt({1})],
          ever |-> [N |-> {1}, U |-> {1}], ctr |-> [N |-> 0, U |-> 1]]
LedFG == [vault |-> [a1 |-> [F |-> FC(4), G |-> FC(2)], a2 |-> [F |-> FC(2), G |-> C0]],
          supply |-> [F |-> 6, G |-> 0], data |-> <<>>, ever |-> <<>>, ctr |-> <<>>]

OpsV2 == {"AssertResOnly", "AssertResInclude", "AssertNextCallOnly", "AssertNextCallInclude", "AssertBucket"}
OpsCore == {"Withdraw", "TakeFromWorktop", "TakeAll", "ReturnToWorktop", "Deposit", "DepositBatch",
            "Mint", "Burn", "AssertContains", "AssertAny"} \cup OpsV2
OpsCoreNF == OpsCore \cup {"WithdrawNF", "TakeNF", "MintNF", "AssertNF"}
OpsProofs == {"Withdraw", "TakeFromWorktop", "TakeAll", "ReturnToWorktop", "Deposit", "Burn", "BurnInAccount", "Recall",
              "ProofOfAmount", "BucketProofOfAmount", "BucketProofOfAll", "PopFromAuthZone", "PushToAuthZone",
              "CloneProof", "DropProof", "DropAllProofs", "DropAuthZoneRegularProofs", "AzProofOfAmount", "AzProofOfAll"}
OpsProofsNF == {"WithdrawNF", "TakeNF", "TakeAll", "ReturnToWorktop", "Deposit", "Burn", "BurnNFInAccount", "RecallNF",
                "ProofOfNF", "BucketProofOfNF", "BucketProofOfAll", "PopFromAuthZone", "CloneProof", "DropProof",
                "DropAllProofs", "DropAuthZoneRegularProofs", "AzProofOfNF", "AzProofOfAll", "WithdrawNFAmount", "RecallNFAmount"}
OpsNF == {"WithdrawNF", "TakeAll", "Deposit", "DepositBatch", "MintNF", "MintNFWrongType", "MintRuid", "MintSingleRuid", "BurnNFAmountInAccount", "Burn",
          "BurnNFInAccount", "UpdateNFData"}
OpsHist == {"Withdraw", "WithdrawNF", "TakeAll", "Deposit", "DepositBatch", "Mint", "MintNF", "Burn", "BurnInAccount",
            "BurnNFInAccount", "Recall", "ProofOfAmount", "UpdateNFData"}
OpsAll == {"Withdraw", "WithdrawNF", "TakeFromWorktop", "TakeNF", "TakeAll", "ReturnToWorktop", "Deposit", "DepositBatch",
           "Mint", "MintNF", "MintNFWrongType", "MintRuid", "MintSingleRuid", "WithdrawNFAmount", "BurnNFAmountInAccount", "RecallNFAmount",
           "Burn", "BurnInAccount", "BurnNFInAccount", "Recall", "RecallNF",
           "ProofOfAmount", "ProofOfNF", "BucketProofOfAmount", "BucketProofOfNF", "BucketProofOfAll", "PopFromAuthZone",
           "PushToAuthZone", "CloneProof", "DropProof", "DropAllProofs", "DropNamedProofs", "DropAuthZoneProofs",
           "DropAuthZoneRegularProofs", "DropAuthZoneSignatureProofs", "AzProofOfAmount", "AzProofOfNF", "AzProofOfAll",
           "AssertContains", "AssertAny", "AssertNF", "UpdateNFData"}

\* simulation weights (GenLedger)
WCore == <<"Withdraw", "Withdraw", "TakeFromWorktop", "TakeFromWorktop", "TakeAll", "TakeAll", "Mint", "WithdrawNF", "WithdrawNF", "TakeNF", "MintNF",
           "ReturnToWorktop", "Deposit", "Deposit", "DepositBatch", "DepositBatch", "Burn">>
WAll == WCore \o <<"ProofOfAmount", "ProofOfNF", "BucketProofOfAmount", "BucketProofOfAll", "BucketProofOfNF", "PopFromAuthZone", "CloneProof", "DropProof",
                   "Recall", "BurnInAccount", "MintRuid", "UpdateNFData">>
WProofs == <<"Withdraw", "Withdraw", "WithdrawNF", "WithdrawNF", "TakeFromWorktop", "TakeAll", "TakeAll", "TakeNF", "ReturnToWorktop", "Deposit", "DepositBatch",
             "ProofOfAmount", "ProofOfAmount", "ProofOfNF", "ProofOfNF", "BucketProofOfAmount", "BucketProofOfAmount", "BucketProofOfAll", "BucketProofOfNF", "BucketProofOfNF",
             "PopFromAuthZone", "PopFromAuthZone", "PushToAuthZone", "CloneProof", "CloneProof", "CloneProof", "DropProof", "DropProof", "DropProof",
             "DropNamedProofs", "DropAuthZoneRegularProofs", "Recall", "RecallNF", "BurnInAccount", "BurnNFInAccount", "Burn",
             "AzProofOfAmount", "AzProofOfAmount", "AzProofOfAmount", "AzProofOfAll", "AzProofOfNF", "AzProofOfNF">>
WNF == <<"MintNF", "MintNF", "MintNF", "MintRuid", "MintRuid", "MintSingleRuid", "MintSingleRuid", "BurnNFAmountInAccount", "TakeAll", "TakeAll", "Burn", "Burn", "BurnNFInAccount", "BurnNFInAccount", "DepositBatch", "DepositBatch",
         "DepositBatch", "UpdateNFData", "UpdateNFData", "WithdrawNF", "Deposit">>
\* ---- boundary scripts (GenLedger BSpec)
ResFNU == [F |-> DefF, N |-> DefN, U |-> DefU]
LedFNU == [vault |-> [a1 |-> [F |-> FC(4), N |-> NC({1, 2}), U |-> NC({1})], a2 |-> [F |-> FC(2), N |-> C0, U |-> C0]],
           supply |-> [F |-> 6, N |-> 4, U |-> 2], data |-> [N |-> Dt({1, 2}), U |-> Dt({1})],
           ever |-> [N |-> {1, 2}, U |-> {1}], ctr |-> [N |-> 0, U |-> 1]]
InitFNU == {LedFNU}
E_ == EndIns
W_(a, n) == I("Withdraw", a, "F", n, {}, 0, "", 0)
WN_(a, r, s) == I("WithdrawNF", a, r, 0, s, 0, "", 0)
T_(n) == I("TakeFromWorktop", "", "F", n, {}, 0, "", 0)
TN_(s) == I("TakeNF", "", "N", 0, s, 0, "", 0)
TA_(r) == I("TakeAll", "", r, 0, {}, 0, "", 0)
Rt_(k) == I("ReturnToWorktop", "", "", 0, {}, k, "", 0)
DB_(a) == I("DepositBatch", a, "", 0, {}, 0, "", 0)
Mi_(n) == I("Mint", "", "F", n, {}, 0, "", 0)
MN_(s) == I("MintNF", "", "N", 0, s, 0, "", 0)
MR_(n) == I("MintRuid", "", "U", n, {}, 0, "", 0)
Bu_(k) == I("Burn", "", "", 0, {}, k, "", 0)
BA_(a, n) == I("BurnInAccount", a, "F", n, {}, 0, "", 0)
BN_(a, s) == I("BurnNFInAccount", a, "N", 0, s, 0, "", 0)
Rc_(a, n) == I("Recall", a, "F", n, {}, 0, "", 0)
PA_(a, n) == I("ProofOfAmount", a, "F", n, {}, 0, "", 0)
PN_(a, s) == I("ProofOfNF", a, "N", 0, s, 0, "", 0)
BP_(k, n) == I("BucketProofOfAmount", "", "", n, {}, k, "", 0)
BPN_(k, s) == I("BucketProofOfNF", "", "", 0, s, k, "", 0)
Pop_ == I("PopFromAuthZone", "", "", 0, {}, 0, "", 0)
Cl_(k) == I("CloneProof", "", "", 0, {}, k, "", 0)
Dr_(k) == I("DropProof", "", "", 0, {}, k, "", 0)
Up_(x) == I("UpdateNFData", "", "N", 0, {}, x, "b", 7)
UpF_(r, x, f, v) == I("UpdateNFData", "", r, 0, {}, x, f, v)
ScA(n, items, ops, res, acc) == [name |-> n, items |-> items, ops |-> ops, res |-> res, acc |-> acc]
Sc(n, items, ops, res) == ScA(n, items, ops, res, {"a1", "a2"})
LeaveF == {"Withdraw", "Recall", "BurnInAccount", "ProofOfAmount"}
BucketUse == {"Deposit", "Burn", "ReturnToWorktop"}
NFHist == {"MintNF", "MintNFWrongType", "MintRuid", "MintSingleRuid", "UpdateNFData", "WithdrawNF", "BurnNFInAccount", "RecallNF", "ProofOfNF",
           "WithdrawNFAmount", "BurnNFAmountInAccount", "RecallNFAmount"}
MSR_ == I("MintSingleRuid", "", "U", 0, {}, 0, "", 0)
\* worktop / buckets (C09)
ScW == {Sc("w0", <<>>, {"Withdraw", "WithdrawNF", "TakeFromWorktop", "TakeNF", "TakeAll", "DepositBatch", "Mint", "MintNF", "AssertContains", "AssertAny", "AssertNF", "PopFromAuthZone"}, {"F", "N"}),
        Sc("w1", <<W_("a1", 4)>>, {"TakeFromWorktop", "TakeAll", "AssertContains", "AssertAny", "DepositBatch", "Withdraw", "Mint"}, {"F"}),
        Sc("w2", <<W_("a1", 4), T_(2)>>, BucketUse \cup {"TakeFromWorktop", "TakeAll", "AssertContains", "BucketProofOfAmount", "BucketProofOfAll"}, {"F"}),
        Sc("w3", <<W_("a1", 4), T_(2), Rt_(1)>>, BucketUse \cup {"TakeFromWorktop", "BucketProofOfAmount", "BucketProofOfAll"}, {"F"}),
        Sc("w4", <<WN_("a1", "N", {1, 2})>>, {"TakeNF", "TakeAll", "AssertNF", "AssertContains", "AssertAny", "DepositBatch", "MintNF"}, {"N"}),
        Sc("w5", <<WN_("a1", "N", {1, 2}), TN_({1})>>, BucketUse \cup {"TakeNF", "AssertNF", "BucketProofOfNF", "BucketProofOfAll"}, {"N"}),
        Sc("w6", <<W_("a1", 4), T_(0)>>, BucketUse \cup {"BucketProofOfAll", "BucketProofOfAmount"}, {"F"})}
\* proofs and locks (C10)
ScL == {Sc("l0", <<>>, LeaveF \cup {"ProofOfNF", "WithdrawNF", "RecallNF", "BurnNFInAccount"}, {"F", "N"}),
        Sc("l1", <<PA_("a1", 2)>>, LeaveF \cup {"PopFromAuthZone", "DropAllProofs", "DropAuthZoneRegularProofs", "DropAuthZoneProofs", "DropNamedProofs"}, {"F"}),
        Sc("l2", <<PA_("a1", 2), PA_("a1", 4)>>, LeaveF \cup {"PopFromAuthZone", "DropAuthZoneRegularProofs"}, {"F"}),
        Sc("l3", <<PA_("a1", 4), Pop_>>, LeaveF \cup {"CloneProof", "DropProof", "PushToAuthZone", "DropNamedProofs", "DropAllProofs"}, {"F"}),
        Sc("l4", <<PA_("a1", 4), Pop_, Cl_(1), Dr_(1)>>, LeaveF \cup {"DropProof", "CloneProof", "PushToAuthZone"}, {"F"}),
        Sc("l5", <<PA_("a1", 4), Pop_, Dr_(1)>>, LeaveF \cup {"DropProof", "CloneProof", "PushToAuthZone"}, {"F"}),
        Sc("l6", <<PA_("a1", 2), PA_("a1", 4), Pop_, Dr_(1)>>, LeaveF, {"F"}),
        Sc("l7", <<W_("a1", 4), TA_("F"), BP_(1, 2)>>, BucketUse \cup {"BucketProofOfAmount", "BucketProofOfAll", "CloneProof", "DropProof"}, {"F"}),
        Sc("l8", <<W_("a1", 4), TA_("F"), BP_(1, 2), Rt_(1)>>, {"TakeFromWorktop", "TakeAll", "DepositBatch", "AssertContains", "Withdraw", "DropProof"}, {"F"}),
        Sc("l9", <<PN_("a1", {1})>>, {"WithdrawNF", "RecallNF", "BurnNFInAccount", "ProofOfNF", "PopFromAuthZone", "WithdrawNFAmount", "RecallNFAmount", "BurnNFAmountInAccount"}, {"N"}),
        Sc("l10", <<WN_("a1", "N", {1, 2}), TA_("N"), BPN_(1, {1})>>, BucketUse \cup {"BucketProofOfNF", "BucketProofOfAll", "DropProof", "CloneProof"}, {"N"}),
        Sc("l11", <<WN_("a1", "N", {1, 2}), TA_("N"), BPN_(1, {1}), Rt_(1)>>, {"TakeNF", "TakeAll", "DepositBatch", "AssertNF", "DropProof"}, {"N"})}
\* histories: burnt ids, failed mints, failed transactions in between (C43, C04, C03)
ScH == {Sc("h1", <<MN_({3}), DB_("a1"), E_, BN_("a1", {3}), E_>>, NFHist, {"N"}),
        Sc("h2", <<MN_({3}), E_>>, NFHist, {"N"}),
        Sc("h3", <<BN_("a1", {1}), MN_({1})>>, NFHist, {"N"}),
        Sc("h4", <<BN_("a1", {1}), E_, MN_({3}), W_("a1", 6)>>, NFHist, {"N"}),
        Sc("h5", <<Up_(1), E_>>, {"UpdateNFData", "BurnNFInAccount", "MintNF"}, {"N"}),
        Sc("h6", <<MN_({3}), TA_("N"), Bu_(1), E_>>, NFHist, {"N"}),
        Sc("h7", <<UpF_("N", 1, "b", 7), UpF_("N", 1, "d", 8)>>, {"UpdateNFData", "BurnNFInAccount"}, {"N"}),
        Sc("h8", <<UpF_("N", 1, "d", 8), E_, UpF_("N", 2, "b", 7), E_>>, {"UpdateNFData"}, {"N"}),
        Sc("h9", <<UpF_("N", 1, "b", 7), UpF_("N", 1, "a", 9)>>, {"UpdateNFData"}, {"N"}),
        Sc("u0", <<>>, {"UpdateNFData", "MintRuid", "BurnNFInAccount"}, {"U"}),
        Sc("u4", <<UpF_("U", 1, "d", 8), E_>>, {"UpdateNFData", "BurnNFInAccount"}, {"U"}),
        Sc("u1", <<MR_(1), DB_("a1"), E_>>, NFHist, {"U"}),
        Sc("u5", <<MSR_, DB_("a2"), E_>>, NFHist, {"U"}),
        Sc("u6", <<MSR_, E_>>, {"MintSingleRuid", "MintRuid", "WithdrawNF"}, {"U"}),
        Sc("u7", <<MSR_, TA_("U"), Bu_(1), E_, MSR_, DB_("a1"), E_>>, NFHist, {"U"}),
        Sc("u8", <<MSR_>>, {"TakeAll", "TakeNF", "DepositBatch", "AssertContains", "MintSingleRuid"}, {"U"}),
        Sc("u2", <<MR_(1), E_>>, {"MintRuid", "WithdrawNF", "MintNF"}, {"U"}),
        Sc("u3", <<MR_(2), DB_("a2"), E_, I("BurnNFInAccount", "a2", "U", 0, {2}, 0, "", 0), E_>>, NFHist, {"U"})}
ScF == {Sc("f1", <<Mi_(2), DB_("a2"), E_>>, LeaveF \cup {"Mint"}, {"F"}),
        Sc("f2", <<BA_("a1", 4), E_>>, LeaveF \cup {"Mint"}, {"F"}),
        Sc("f3", <<Rc_("a1", 4), DB_("a2"), E_, W_("a2", 6), T_(6), Bu_(1), E_>>, LeaveF \cup {"Mint"}, {"F"}),
        Sc("f4", <<Mi_(2), E_>>, LeaveF \cup {"Mint"}, {"F"}),
        Sc("f5", <<Mi_(4), TA_("F")>>, BucketUse \cup {"TakeFromWorktop"}, {"F"}),
        Sc("f6", <<Rc_("a1", 4)>>, {"TakeFromWorktop", "TakeAll", "DepositBatch", "Recall", "Withdraw"}, {"F"})}
DAP_ == I("DropAllProofs", "", "", 0, {}, 0, "", 0)
\* ends of transactions that must fail (bucket left in the name table / locked bucket left), lost signature proofs
ScX == {Sc("x1", <<DAP_>>, LeaveF \cup {"WithdrawNF", "ProofOfNF", "DepositBatch", "Mint", "BurnNFInAccount"}, {"F", "N"}),
        Sc("x2", <<W_("a1", 4), T_(2), DB_("a1"), E_>>, {"Withdraw"}, {"F"}),
        Sc("x3", <<W_("a1", 4), TA_("F"), BP_(1, 2), E_>>, {"Withdraw"}, {"F"}),
        Sc("x4", <<W_("a1", 4), TA_("F"), BP_(1, 2), Rt_(1), E_>>, {"Withdraw"}, {"F"}),
        Sc("x5", <<W_("a1", 4), T_(0), E_>>, {"Withdraw"}, {"F"}),
        Sc("x6", <<W_("a1", 4), TA_("F"), DAP_>>, {"Deposit", "DepositBatch", "ReturnToWorktop", "Burn"}, {"F"})}
\* ---- proofs composed by the auth zone from overlapping base proofs (universe Z: a1 holds 4 granules and ids 1,2,3)
LedZ == [vault |-> [a1 |-> [F |-> FC(8), N |-> NC({1, 2, 3})], a2 |-> [F |-> FC(2), N |-> C0]],
         supply |-> [F |-> 10, N |-> 6], data |-> [N |-> Dt({1, 2, 3})], ever |-> [N |-> {1, 2, 3}], ctr |-> [N |-> 0]]
InitZ == {LedZ}
AZ_(n) == I("AzProofOfAmount", "", "F", n, {}, 0, "", 0)
AZN_(s) == I("AzProofOfNF", "", "N", 0, s, 0, "", 0)
DZ_ == I("DropAuthZoneRegularProofs", "", "", 0, {}, 0, "", 0)
DSig_ == I("DropAuthZoneSignatureProofs", "", "", 0, {}, 0, "", 0)
Psh_(k) == I("PushToAuthZone", "", "", 0, {}, k, "", 0)
Bases == {<<2, 6>>, <<6, 2>>, <<4, 4>>, <<2, 4, 6>>, <<6, 4, 2>>}
BaseItems(b) == [k \in DOMAIN b |-> PA_("a1", b[k])]
\* after the composition (named proof 1): 0 nothing, 1 drop the last base proof, 2 drop the first one, 3 drop all base proofs,
\* 4 drop everything incl. the signature proofs, 5 drop all base proofs and the composed one
DropsZ(d) == CASE d = 0 -> <<>> [] d = 1 -> <<Pop_, Dr_(2)>> [] d = 2 -> <<Pop_, Pop_, Dr_(3)>> [] d = 3 -> <<DZ_>>
               [] d = 4 -> <<DAP_>> [] d = 5 -> <<DZ_, Dr_(1)>>
SeqName(b) == IF Len(b) = 2 THEN ToString(b[1]) \o ToString(b[2]) ELSE ToString(b[1]) \o ToString(b[2]) \o ToString(b[3])
LeaveZ == {"Withdraw", "Recall", "BurnInAccount"}
ComposeOps == {"AzProofOfAmount", "AzProofOfAll", "AzProofOfNF"}
ScZdrop == {ScA("zd-" \o SeqName(x[1]) \o "-n" \o ToString(x[2]) \o "-d" \o ToString(x[3]),
                BaseItems(x[1]) \o <<AZ_(x[2])>> \o DropsZ(x[3]), LeaveZ, {"F"}, {"a1"})
            : x \in {y \in Bases \X {2, 4, 6, 8} \X (0..5) : (y[2] > MaxSet({y[1][k] : k \in DOMAIN y[1]}) => y[3] = 0) /\ (Len(y[1]) = 3 => y[3] \in {0, 3})}}
NBases == {<<{1}, {1, 2}>>, <<{1, 2}, {1}>>}
ScZnf == {ScA("zn-" \o ToString(x[1][1]) \o ToString(x[1][2]) \o "-c" \o ToString(x[2]) \o "-d" \o ToString(x[3]),
              <<PN_("a1", x[1][1]), PN_("a1", x[1][2]), AZN_(x[2])>> \o DropsZ(x[3]),
              {"WithdrawNF", "RecallNF", "BurnNFInAccount"}, {"N"}, {"a1"})
          : x \in NBases \X {{1}, {2}, {1, 2}} \X {0, 1, 3}}
BucketZone == <<W_("a1", 8), TA_("F"), BP_(1, 2), BP_(1, 6), Psh_(1), Psh_(2)>>
ScZcompose ==
  {Sc("zc1", <<PA_("a1", 2), PA_("a1", 6)>>, ComposeOps \cup {"PopFromAuthZone", "CloneProof"}, {"F", "N"}),
   Sc("zc2", <<PA_("a1", 6), PA_("a1", 2)>>, ComposeOps, {"F", "N"}),
   Sc("zc3", <<>>, ComposeOps, {"F", "N"}),
   Sc("zc4", <<PA_("a1", 2), PA_("a2", 2)>>, ComposeOps, {"F"}),
   Sc("zc5", <<PN_("a1", {1}), PA_("a1", 2)>>, ComposeOps, {"F", "N"}),
   Sc("zc6", <<PA_("a1", 2), PN_("a1", {1})>>, ComposeOps, {"F", "N"}),
   Sc("zc7", BucketZone, ComposeOps, {"F"}),
   Sc("zc8", <<PN_("a1", {1}), PN_("a1", {1, 2})>>, ComposeOps, {"N"}),
   Sc("zc9", <<PN_("a1", {1, 2}), PN_("a1", {3})>>, ComposeOps, {"N"}),
   Sc("zc10", <<PA_("a1", 2), PA_("a1", 6), DSig_>>, ComposeOps \cup {"Withdraw", "PopFromAuthZone"}, {"F"}),
   Sc("zc11", <<PA_("a1", 2), PA_("a1", 6), AZ_(6), Pop_, Dr_(2)>>, ComposeOps \cup {"CloneProof", "DropProof", "PushToAuthZone"}, {"F"}),
   Sc("zc12", <<PA_("a1", 2), PA_("a2", 2), AZ_(4), DZ_>>, LeaveZ \cup {"CloneProof", "DropProof"}, {"F"}),
   Sc("zc13", <<PA_("a1", 2), PA_("a2", 2), AZ_(4), DZ_, Cl_(1), Dr_(1)>>, LeaveZ, {"F"})}
ScZbucket == {Sc("zb-n" \o ToString(x[1]) \o "-d" \o ToString(x[2]),
                 BucketZone \o <<AZ_(x[1])>> \o (CASE x[2] = 0 -> <<>> [] x[2] = 3 -> <<DZ_>> [] x[2] = 5 -> <<DZ_, Dr_(3)>>),
                 BucketUse \cup {"BucketProofOfAmount", "BucketProofOfAll"}, {"F"})
              : x \in {2, 6} \X {0, 3, 5}}
ScZ == ScZdrop \cup ScZnf \cup ScZcompose \cup ScZbucket
\* every mint / burn / recall entry point of the resource managers and vaults, each from a committed state and with the supply compared:
\* fungible mint, bucket burn, vault burn (Account::burn -> package_burn), recall; non-fungible mint, mint_ruid, mint_single_ruid,
\* bucket burn, vault burn by ids and by amount, recall by ids and by amount; empty-bucket drops (amount 0)
EntryOps == {"Mint", "BurnInAccount", "Recall", "Withdraw", "MintNF", "MintRuid", "MintSingleRuid", "BurnNFInAccount", "BurnNFAmountInAccount",
             "RecallNF", "RecallNFAmount", "WithdrawNFAmount", "WithdrawNF"}
ScE == {Sc("e0", <<>>, EntryOps, {"F", "N", "U"}),
        Sc("e1", <<Mi_(2), TA_("F")>>, BucketUse, {"F"}),
        Sc("e2", <<MN_({3}), TA_("N")>>, BucketUse, {"N"}),
        Sc("e3", <<MSR_, TA_("U")>>, BucketUse, {"U"}),
        Sc("e4", <<MR_(2), TA_("U")>>, BucketUse, {"U"}),
        Sc("e5", <<BA_("a1", 2), E_, BN_("a1", {1}), E_>>, EntryOps, {"F", "N", "U"})}
\* ---- V2 assertions: worktop states {empty, exactly the listed resources, listed + an unlisted one, below / at / above a bound,
\* zero-amount bucket returned}, bucket contents, next-call returns
ResAsserts == {"AssertResOnly", "AssertResInclude"}
ScVw == {Sc("v0", <<>>, ResAsserts, {}),
         Sc("v1", <<W_("a1", 4)>>, ResAsserts, {}),
         Sc("v2", <<WN_("a1", "N", {1, 2})>>, ResAsserts, {}),
         Sc("v3", <<W_("a1", 4), WN_("a1", "N", {1, 2})>>, ResAsserts, {}),
         Sc("v4", <<W_("a1", 4), WN_("a1", "N", {1, 2}), WN_("a1", "U", {1})>>, ResAsserts, {}),
         Sc("v5", <<W_("a1", 4), T_(2)>>, ResAsserts, {}),
         Sc("v6", <<W_("a1", 4), T_(0), Rt_(1)>>, ResAsserts, {}),
         Sc("v7", <<T_(0), Rt_(1)>>, ResAsserts, {}),
         Sc("v8", <<W_("a1", 0)>>, ResAsserts, {}),
         Sc("v9", <<W_("a1", 4), WN_("a1", "U", {1})>>, ResAsserts, {})}
ScVb == {Sc("vb1", <<W_("a1", 4), TA_("F")>>, {"AssertBucket"}, {}),
         Sc("vb2", <<WN_("a1", "N", {1, 2}), TA_("N")>>, {"AssertBucket"}, {}),
         Sc("vb3", <<T_(0)>>, {"AssertBucket"}, {}),
         Sc("vb4", <<W_("a1", 4), TA_("F"), Rt_(1)>>, {"AssertBucket"}, {}),
         Sc("vb5", <<W_("a1", 4), T_(2)>>, {"AssertBucket"}, {})}
ConsNext == {NoCons, Cf("F", Kc("nz", 0, {})), Cf("F", Kc("ex", 2, {})), Cf("F", Kc("ex", 4, {})), Cf("F", Kc("al", 4, {})),
             Cf("N", Kc("nz", 0, {})), Cf("N", Kc("exnf", 0, {1})), Cf("N", Kc("alnf", 0, {1})),
             [F |-> Kc("al", 2, {}), N |-> Kc("nz", 0, {})]}
CName(c) == IF c = NoCons THEN "none" ELSE IF DOMAIN c = {"F", "N"} THEN "FN" ELSE
            LET r == CHOOSE x \in DOMAIN c : TRUE IN r \o c[r].k \o ToString(c[r].n) \o ToString(Cardinality(c[r].ids))
NextProbes == {"Withdraw", "WithdrawNF", "Mint", "DepositBatch", "TakeAll"}
ScVn == {ScA("vn-" \o x[1] \o "-" \o CName(x[2]), <<IC(x[1], 0, x[2])>>, NextProbes, {"F", "N"}, {"a1"})
         : x \in {"AssertNextCallOnly", "AssertNextCallInclude"} \X ConsNext}
        \cup {ScA("vp-" \o x[1] \o "-" \o CName(x[2]), <<W_("a1", 2), IC(x[1], 0, x[2])>>, NextProbes \cup {"Burn"}, {"F", "N"}, {"a1"})
               : x \in {"AssertNextCallOnly", "AssertNextCallInclude"} \X {NoCons, Cf("F", Kc("ex", 2, {})), Cf("F", Kc("ex", 4, {})), Cf("N", Kc("nz", 0, {}))}}
\* ---- bucket-proof lifecycle (C09: creating and releasing proofs never changes what a bucket / the worktop holds):
\* a bucket of the whole balance, 2-3 proofs of different amounts in both creation orders, cloned proofs, every drop order,
\* the bucket kept under its name or returned to the worktop; then every use / take / assert with every amount
BktF == <<W_("a1", 4), TA_("F")>>
BktN == <<WN_("a1", "N", {1, 2}), TA_("N")>>
DropSeqs2 == {<<>>, <<Dr_(1)>>, <<Dr_(2)>>, <<Dr_(1), Dr_(2)>>, <<Dr_(2), Dr_(1)>>}
ProofCfgF == {<<"24", <<BP_(1, 2), BP_(1, 4)>>, d>> : d \in DropSeqs2} \cup {<<"42", <<BP_(1, 4), BP_(1, 2)>>, d>> : d \in DropSeqs2}
             \cup {<<"24c", <<BP_(1, 2), BP_(1, 4), Cl_(2)>>, d>> : d \in {<<Dr_(2)>>, <<Dr_(2), Dr_(3)>>, <<Dr_(3), Dr_(2), Dr_(1)>>, <<Dr_(1)>>}}
             \cup {<<"42c", <<BP_(1, 4), BP_(1, 2), Cl_(1)>>, d>> : d \in {<<Dr_(1)>>, <<Dr_(1), Dr_(3)>>, <<Dr_(3), Dr_(1), Dr_(2)>>, <<Dr_(2)>>}}
             \cup {<<"242", <<BP_(1, 2), BP_(1, 4), BP_(1, 2)>>, d>> : d \in {<<Dr_(2)>>, <<Dr_(2), Dr_(1)>>, <<Dr_(2), Dr_(1), Dr_(3)>>}}
ProofCfgN == {<<"n1-12", <<BPN_(1, {1}), BPN_(1, {1, 2})>>, d>> : d \in DropSeqs2}
             \cup {<<"n12-1", <<BPN_(1, {1, 2}), BPN_(1, {1})>>, d>> : d \in DropSeqs2}
DName(d) == IF d = <<>> THEN "0" ELSE IF Len(d) = 1 THEN ToString(d[1].k) ELSE IF Len(d) = 2 THEN ToString(d[1].k) \o ToString(d[2].k)
            ELSE ToString(d[1].k) \o ToString(d[2].k) \o ToString(d[3].k)
NamedProbes == BucketUse \cup {"BucketProofOfAmount", "BucketProofOfAll", "BucketProofOfNF"}
WorktopProbes == {"TakeFromWorktop", "TakeNF", "TakeAll", "AssertContains", "AssertNF", "DepositBatch"}
ScBP == {Sc("bp-" \o x[1] \o "-d" \o DName(x[3]) \o "-named", BktF \o x[2] \o x[3], NamedProbes, {"F"}) : x \in ProofCfgF}
        \cup {Sc("bp-" \o x[1] \o "-d" \o DName(x[3]) \o "-wt", BktF \o x[2] \o x[3] \o <<Rt_(1)>>, WorktopProbes, {"F"}) : x \in ProofCfgF}
        \cup {Sc("bp-" \o x[1] \o "-d" \o DName(x[3]) \o "-named", BktN \o x[2] \o x[3], NamedProbes, {"N"}) : x \in ProofCfgN}
        \cup {Sc("bp-" \o x[1] \o "-d" \o DName(x[3]) \o "-wt", BktN \o x[2] \o x[3] \o <<Rt_(1)>>, WorktopProbes, {"N"}) : x \in ProofCfgN}
ScV == ScVw \cup ScVb \cup ScVn \cup ScBP
ScWV == ScW \cup ScX \cup ScV
ScC03 == ScF \cup ScE \cup {x \in ScW : x.name \in {"w0", "w1"}} \cup {x \in ScH : x.name \in {"h1", "h6", "u5", "u7"}}
ScC04 == ScF \cup ScE \cup {x \in ScH : x.name \in {"h1", "h4", "u1", "u3", "u5", "u6", "u7"}}
ScWX == ScW \cup ScX
ScLX == ScL \cup ScX
ScAll == ScW \cup ScL \cup ScH \cup ScF \cup ScX \cup ScE \cup ScV
NoScripts == {}
IdsNone == {}
Ids1 == {{}, {1}, {2}, {3}, {1, 2}}
Ids2 == {{1}, {3}, {1, 2}, {2, 3}}
IdsAll == SUBSET {1, 2, 3}

LedN0a == [vault |-> [a1 |-> [N |-> C0]], supply |-> [N |-> 0], data |-> [N |-> Dt({})], ever |-> [N |-> {}], ctr |-> [N |-> 0]]
InitN0a == {LedN0a}
LedFa == [vault |-> [a1 |-> [F |-> FC(4)]], supply |-> [F |-> 4], data |-> <<>>, ever |-> <<>>, ctr |-> <<>>]
InitFa == {LedFa}
OpsBucketProofs == {"Withdraw", "TakeAll", "TakeFromWorktop", "BucketProofOfAll", "BucketProofOfAmount", "Deposit", "Burn", "ReturnToWorktop", "DropProof", "CloneProof"}
OpsNFTiny == {"MintNF", "DepositBatch", "BurnNFInAccount", "UpdateNFData"}
IdsOne == {{1}}
LedH == [vault |-> [a1 |-> [H |-> FC(4)], a2 |-> [H |-> FC(2)]], supply |-> [H |-> 6], data |-> <<>>, ever |-> <<>>, ctr |-> <<>>]
InitH == {LedH}
InitCore == {LedF}
InitFN == {LedFN}
InitN == {LedN}
InitN0 == {LedN0}
InitNU == {LedNU}
InitFG == {LedFG}

\* everything but the observation of the last instruction (read by action properties only)
View == <<vault, supply, data, ever, ctr, wt, nb, np, az, sigs, nextc, minted, burned, pre, status, nins, ntx, mintCount>>
=============================================================================

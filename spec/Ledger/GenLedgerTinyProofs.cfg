SPECIFICATION GSpec
CONSTANTS
  Accts <- A2
  ResDef <- ResF
  Unit = 2
  AmtArgs = {2, 4}
  IdArgs <- IdsNone
  Ops <- OpsProofs
  MaxBuckets = 1
  MaxProofs = 1
  MaxAz = 1
  MaxInstr = 3
  MaxTx = 1
  SupplyCap = 8
  DataVals = {7}
  ConsArgs <- ConsNone
  ConArgs <- ConsNone
  InitLedgers <- InitCore
  FailOdds = 4
  EndOdds = 3
  Weights <- WProofs
  Scripts <- NoScripts
INVARIANT Emit
CHECK_DEADLOCK FALSE

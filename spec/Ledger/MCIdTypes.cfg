SPECIFICATION Spec
INVARIANTS TypeSafe Emit
PROPERTIES Refused Accepted
CHECK_DEADLOCK FALSE

SPECIFICATION SSpec
CONSTANTS
  Accts <- A2
  ResDef <- ResFN
  Unit = 2
  AmtArgs = {0, 2, 3, 4, 6}
  IdArgs <- Ids1
  Ops <- OpsCoreNF
  MaxBuckets = 3
  MaxProofs = 0
  MaxAz = 0
  MaxInstr = 8
  MaxTx = 1
  SupplyCap = 10
  DataVals = {7, 8}
  ConsArgs <- ConsNone
  ConArgs <- ConsNone
  InitLedgers <- InitFN
  FailOdds = 4
  EndOdds = 3
  Weights <- WCore
  Scripts <- NoScripts
INVARIANT Emit
CHECK_DEADLOCK FALSE

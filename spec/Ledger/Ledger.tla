------------------------------- MODULE Ledger -------------------------------
(* The resource layer of the Radix Engine as one state machine: resources, vaults, accounts, and
   inside a transaction the worktop, named buckets, named proofs and the auth zone.  One action
   per manifest instruction (and the native calls it reaches), written after the code:

     radix-engine/src/blueprints/resource/worktop.rs                      put / take / take_all / assert / drain / drop
     radix-engine/src/blueprints/resource/fungible/fungible_{vault,bucket}.rs     take / put / lock_amount / unlock_amount / recall / burn
     radix-engine/src/blueprints/resource/non_fungible/non_fungible_{vault,bucket}.rs
     radix-engine/src/blueprints/resource/{fungible,non_fungible}/*_resource_manager.rs   mint / burn / update data
     radix-engine/src/blueprints/resource/auth_zone/blueprint.rs          push / pop / drop_proofs
     radix-engine/src/system/transaction/intent_processor.rs              bucket / proof name tables, end of transaction
     radix-engine/src/blueprints/account/blueprint.rs                     withdraw / deposit / create_proof / burn

   A failing instruction fails the whole transaction; the ledger is then the ledger before the
   transaction (`pre`).  The model predicts, for every manifest, success or failure, the index
   of the failing instruction, the error class, and the resulting balances, id sets, supplies
   and non-fungible data.

   Amounts are integers in model units; one granule (10^-divisibility of a token) is `Unit`
   model units, so an amount that is not a multiple of `Unit` has "one digit too many".
   The amount of a non-fungible container is Unit * number of ids.

   Containers (vault, worktop bucket, named bucket) have identity: a proof refers to the container
   it locked.  A bucket node that moves between a manifest name and the worktop keeps its locks;
   the model renames the references of the proofs on it (`Rename`).

   Properties: C03 (Conservation, SupplyDelta, RevertExact), C04 (SupplyMatches, NonNegative,
   InTxSupply), C09 (InTxConservation, NoEmptyWorktopBucket, SuccessClean, Take.., Assert..,
   UseAfterConsume), C10 (LocksMatchProofs, ProofBacked, TotalUnchangedByLocks,
   OnlyLiquidLeaves, UnlockedIsLiquid, Divisibility..), C43 (LiveSubsetEver, HeldIdsAreLive,
   EverMonotone, MintedOnce, DataChangeRestricted).                                          *)
EXTENDS Integers, FiniteSets, Sequences, TLC

CONSTANTS
  Accts,       \* set of account names (strings)
  ResDef,      \* record: resource name |-> [kind |-> "F" | "NF", track |-> BOOLEAN, ruid |-> BOOLEAN, uni |-> set of integer ids]
  Unit,        \* model units per granule
  AmtArgs,     \* amounts usable as instruction arguments
  IdArgs,      \* id sets usable as instruction arguments
  Ops,         \* enabled instruction kinds
  MaxBuckets, MaxProofs, MaxAz,     \* bounds on named buckets / named proofs / auth zone proofs per transaction
  MaxInstr, MaxTx,                  \* instructions per transaction (without the end), transactions per history
  SupplyCap,                        \* bound on the amount in circulation (model bound, not engine behaviour)
  DataVals,                         \* values written by UpdateNFData
  ConsArgs,                         \* resource constraints usable as arguments: set of functions [resources -> constraint]
  ConArgs,                          \* single constraints usable for ASSERT_BUCKET_CONTENTS
  InitLedgers                       \* set of initial ledgers [vault, supply, data, ever, ctr]

Res  == DOMAIN ResDef
FRes == {r \in Res : ResDef[r].kind = "F"}
NRes == {r \in Res : ResDef[r].kind = "NF"}
IsF(r) == ResDef[r].kind = "F"
\* non-fungible data: four fields in schema order a, b, c, d; b and d are mutable, a and c are not.  A freshly minted
\* non-fungible has a different value in every field, so writing the wrong field is visible.
Fields == {"a", "b", "c", "d"}
MutableFields == {"b", "d"}
FieldArgs == Fields \cup {"z"}      \* "z": a field name the schema does not have
Data0 == [a |-> 1, b |-> 2, c |-> 3, d |-> 4]

VARIABLES
  vault,      \* [account -> [resource -> container]]                 (working copy inside a transaction)
  supply,     \* [resource -> amount]   recorded total supply (0 and unused if not tracked)
  data,       \* [NF resource -> [live id -> [a, b, c, d]]]
  ever,       \* [NF resource -> set of ids ever minted]  (live ids and tombstones)
  ctr,        \* [NF resource -> number of RUID ids generated]
  wt,         \* worktop: [resource -> [on |-> BOOLEAN, c |-> container]]
  nb,         \* named buckets: sequence of [live, res, c]    (index = manifest bucket id + 1)
  np,         \* named proofs:  sequence of [live, p]         (index = manifest proof id + 1)
  az,         \* auth zone: sequence of proofs (a stack, top = last)
  sigs,       \* the signature (virtual) proofs of the transaction signers are still in the auth zone
  nextc,      \* pending ASSERT_NEXT_CALL_RETURNS_*: [on, only, c]
  minted, burned,  \* per transaction: [resource -> [amt, ids]]
  pre,        \* the ledger when the current transaction started = last committed ledger
  status,     \* "run" inside a transaction, "ok" / "fail" after one, "init" at genesis
  nins, ntx,  \* instructions executed in this transaction; transactions started
  mintCount,  \* history: [NF resource -> [id -> number of committed mints]]
  last        \* the last instruction and its outcome (observation, not part of the view)

ledgerVars == <<vault, supply, data, ever, ctr>>
txVars     == <<wt, nb, np, az, sigs, nextc, minted, burned>>
vars == <<vault, supply, data, ever, ctr, wt, nb, np, az, sigs, nextc, minted, burned, pre, status, nins, ntx, mintCount, last>>

-----------------------------------------------------------------------------
(* Containers *)
Max0(x) == IF x > 0 THEN x ELSE 0
MaxSet(S) == IF S = {} THEN 0 ELSE CHOOSE x \in S : \A y \in S : y <= x
EmptyBag == [x \in {} |-> 0]
C0 == [liq |-> 0, ids |-> {}, lka |-> EmptyBag, lki |-> EmptyBag]
FC(n) == [C0 EXCEPT !.liq = n]
NC(S) == [C0 EXCEPT !.ids = S]
LkMax(c) == MaxSet(DOMAIN c.lka)           \* LockedFungibleResource::amount = the largest locked amount
LkIds(c) == DOMAIN c.lki
AllIds(c) == c.ids \cup LkIds(c)
Total(r, c) == IF IsF(r) THEN c.liq + LkMax(c) ELSE Unit * Cardinality(AllIds(c))
IsLocked(c) == DOMAIN c.lka # {} \/ DOMAIN c.lki # {}

BagAdd(b, x) == [y \in DOMAIN b \cup {x} |-> (IF y \in DOMAIN b THEN b[y] ELSE 0) + (IF y = x THEN 1 ELSE 0)]
BagDel(b, x) == LET keep == {y \in DOMAIN b : y # x \/ b[y] > 1}
                IN [y \in keep |-> IF y = x THEN b[y] - 1 ELSE b[y]]
BagAddAll(b, S) == [y \in DOMAIN b \cup S |-> (IF y \in DOMAIN b THEN b[y] ELSE 0) + (IF y \in S THEN 1 ELSE 0)]
BagDelAll(b, S) == LET keep == {y \in DOMAIN b : y \notin S \/ b[y] > 1}
                   IN [y \in keep |-> IF y \in S THEN b[y] - 1 ELSE b[y]]

\* lock_amount / lock_non_fungibles, preceded by the checks of create_proof_of_*; [ok, err, c]
TryLock(r, c, n, ids) ==
  IF IsF(r)
  THEN IF n % Unit # 0 THEN [ok |-> FALSE, err |-> "InvalidAmount", c |-> c]
       ELSE IF n > c.liq + LkMax(c) THEN [ok |-> FALSE, err |-> "InsufficientBalance", c |-> c]
       ELSE IF n = 0 THEN [ok |-> FALSE, err |-> "EmptyProofNotAllowed", c |-> c]
       ELSE [ok |-> TRUE, err |-> "",
             c |-> [c EXCEPT !.liq = @ - Max0(n - LkMax(c)), !.lka = BagAdd(@, n)]]
  ELSE IF ~((ids \ LkIds(c)) \subseteq c.ids) THEN [ok |-> FALSE, err |-> "MissingId", c |-> c]
       ELSE IF ids = {} THEN [ok |-> FALSE, err |-> "EmptyProofNotAllowed", c |-> c]
       ELSE [ok |-> TRUE, err |-> "",
             c |-> [c EXCEPT !.ids = @ \ ids, !.lki = BagAddAll(@, ids)]]
\* unlock_amount returns oldMax - newMax to liquid; unlock_non_fungibles returns ids whose count drops to 0
UnlockC(r, c, n, ids) ==
  IF IsF(r)
  THEN LET b2 == BagDel(c.lka, n)
       IN [c EXCEPT !.liq = @ + (LkMax(c) - MaxSet(DOMAIN b2)), !.lka = b2]
  ELSE LET b2 == BagDelAll(c.lki, ids)
       IN [c EXCEPT !.ids = @ \cup (ids \ DOMAIN b2), !.lki = b2]

-----------------------------------------------------------------------------
(* Records of the transaction state *)
NoRef == [t |-> "", a |-> "", r |-> "", k |-> 0]
VRef(a, r) == [t |-> "v", a |-> a, r |-> r, k |-> 0]
WRef(r)    == [t |-> "w", a |-> "", r |-> r, k |-> 0]
NRef(k)    == [t |-> "n", a |-> "", r |-> "", k |-> k]
\* a proof: resource, evidenced amount / ids, and its evidence: the containers it locked, in order, each with the part locked there
\* (one entry for a proof made from a vault or bucket; one entry per container for a proof composed by the auth zone)
P0 == [res |-> "", amt |-> 0, ids |-> {}, ev |-> <<>>]
EvE(ref, n, ids) == [ref |-> ref, amt |-> n, ids |-> ids]
Plain(r, n, ids, ref) == [res |-> r, amt |-> n, ids |-> ids, ev |-> <<EvE(ref, n, ids)>>]
GoneB == [live |-> FALSE, res |-> "", c |-> C0]
GoneP == [live |-> FALSE, p |-> P0]
W0 == [on |-> FALSE, c |-> C0]
Acc0 == [r \in Res |-> [amt |-> 0, ids |-> {}]]
Wt0 == [r \in Res |-> W0]

NoCons == [x \in {} |-> 0]
I(op, a, r, n, ids, k, f, v) == [op |-> op, a |-> a, r |-> r, n |-> n, ids |-> ids, k |-> k, f |-> f, v |-> v, c |-> NoCons]
IC(op, k, c) == [I(op, "", "", 0, {}, k, "", 0) EXCEPT !.c = c]        \* an assertion with resource constraints c
NextC0 == [on |-> FALSE, only |-> FALSE, c |-> NoCons]

Cur == [vault |-> vault, supply |-> supply, data |-> data, ever |-> ever, ctr |-> ctr,
        wt |-> wt, nb |-> nb, np |-> np, az |-> az, sigs |-> sigs, nextc |-> nextc, minted |-> minted, burned |-> burned,
        ok |-> TRUE, err |-> ""]
Fl(S, e) == [S EXCEPT !.ok = FALSE, !.err = e]

GetC(S, ref) == CASE ref.t = "v" -> S.vault[ref.a][ref.r]
                  [] ref.t = "w" -> S.wt[ref.r].c
                  [] ref.t = "n" -> S.nb[ref.k].c
SetC(S, ref, c) == CASE ref.t = "v" -> [S EXCEPT !.vault[ref.a][ref.r] = c]
                     [] ref.t = "w" -> [S EXCEPT !.wt[ref.r].c = c]
                     [] ref.t = "n" -> [S EXCEPT !.nb[ref.k].c = c]
\* the bucket node moves (name table <-> worktop): the proofs on it follow
RenP(p, from, to) == [p EXCEPT !.ev = [j \in DOMAIN p.ev |-> IF p.ev[j].ref = from THEN [p.ev[j] EXCEPT !.ref = to] ELSE p.ev[j]]]
Rename(S, from, to) ==
  [S EXCEPT !.np = [i \in DOMAIN S.np |-> [S.np[i] EXCEPT !.p = RenP(@, from, to)]],
            !.az = [i \in DOMAIN S.az |-> RenP(S.az[i], from, to)]]

WtTotal(S, r) == IF S.wt[r].on THEN Total(r, S.wt[r].c) ELSE 0

\* Worktop::put of a bucket with content c; k = its index in the name table, 0 for a bucket returned by a call
PutW(S, r, c, k) ==
  IF Total(r, c) = 0 THEN S                                  \* drop_empty (an empty bucket carries no lock)
  ELSE IF ~S.wt[r].on
       THEN Rename([S EXCEPT !.wt[r] = [on |-> TRUE, c |-> c]], NRef(k), WRef(r))   \* the bucket itself becomes the worktop bucket
       ELSE IF IsLocked(c) THEN Fl(S, "BucketLocked")         \* Bucket::put drops the other bucket
       ELSE [S EXCEPT !.wt[r].c = [@ EXCEPT !.liq = @ + c.liq, !.ids = @ \cup c.ids]]

NewBucket(S, r, c) == [S EXCEPT !.nb = Append(@, [live |-> TRUE, res |-> r, c |-> c])]
\* the worktop bucket of r moves out under a new manifest name
MoveOut(S, r) ==
  LET k == Len(S.nb) + 1
  IN Rename([NewBucket(S, r, S.wt[r].c) EXCEPT !.wt[r] = W0], WRef(r), NRef(k))

\* lock_amount / lock_non_fungibles without the checks of create_proof (the caller knows the lock is possible)
LockRaw(r, c, n, ids) ==
  IF IsF(r) THEN [c EXCEPT !.liq = @ - Max0(n - LkMax(c)), !.lka = BagAdd(@, n)]
  ELSE [c EXCEPT !.ids = @ \ ids, !.lki = BagAddAll(@, ids)]
\* dropping a proof unlocks every entry of its evidence; cloning locks every entry again
\* (unrolled: a proof has at most MaxEv evidence entries; nested recursive operators make TLC's coverage explode)
MaxEv == 6
DropE(S, p, j) == IF j > Len(p.ev) THEN S ELSE SetC(S, p.ev[j].ref, UnlockC(p.res, GetC(S, p.ev[j].ref), p.ev[j].amt, p.ev[j].ids))
DropP(S, p) == DropE(DropE(DropE(DropE(DropE(DropE(S, p, 1), p, 2), p, 3), p, 4), p, 5), p, 6)
LockE(S, p, j) == IF j > Len(p.ev) THEN S ELSE SetC(S, p.ev[j].ref, LockRaw(p.res, GetC(S, p.ev[j].ref), p.ev[j].amt, p.ev[j].ids))
LockEv(S, p, j) == LockE(LockE(LockE(LockE(LockE(LockE(S, p, 1), p, 2), p, 3), p, 4), p, 5), p, 6)
RECURSIVE DropNamed(_, _)
DropNamed(S, i) == IF i > Len(S.np) THEN S
                   ELSE LET S1 == IF S.np[i].live THEN [DropP(S, S.np[i].p) EXCEPT !.np[i] = GoneP] ELSE S
                        IN DropNamed(S1, i + 1)
RECURSIVE DropAz(_)
DropAz(S) == IF S.az = <<>> THEN S
             ELSE LET S1 == [DropP(S, S.az[Len(S.az)]) EXCEPT !.az = SubSeq(@, 1, Len(@) - 1)]
                  IN DropAz(S1)

RECURSIVE SetSum(_, _)
SetSum(f, S) == IF S = {} THEN 0 ELSE LET x == CHOOSE y \in S : TRUE IN LET rest == SetSum(f, S \ {x}) IN f[x] + rest
VaultSum(v, r) == SetSum([a \in Accts |-> Total(r, v[a][r])], Accts)
VaultIds(v, r) == UNION {AllIds(v[a][r]) : a \in Accts}
BucketSum(S, r) == SetSum([k \in DOMAIN S.nb |-> IF S.nb[k].live /\ S.nb[k].res = r THEN Total(r, S.nb[k].c) ELSE 0], DOMAIN S.nb)
Circ(S, r) == VaultSum(S.vault, r) + WtTotal(S, r) + BucketSum(S, r)
MinId(S) == CHOOSE x \in S : \A y \in S : x <= y

AccAdd(acc, r, n, ids) == [acc EXCEPT ![r] = [amt |-> @.amt + n, ids |-> @.ids \cup ids]]

-----------------------------------------------------------------------------
(* The instructions.  Exec(S, ins) = S after the instruction, or S with ok = FALSE and the error class. *)

Withdraw(S, a, r, n) ==
  IF ~S.sigs THEN Fl(S, "Unauthorized")
  ELSE IF n % Unit # 0 THEN Fl(S, "InvalidAmount")
  ELSE IF n > S.vault[a][r].liq THEN Fl(S, "InsufficientBalance")     \* only the liquid part can leave
  ELSE PutW([S EXCEPT !.vault[a][r].liq = @ - n], r, FC(n), 0)
WithdrawNF(S, a, r, ids) ==
  IF ~S.sigs THEN Fl(S, "Unauthorized")
  ELSE IF ~(ids \subseteq S.vault[a][r].ids) THEN Fl(S, "MissingId")
  ELSE PutW([S EXCEPT !.vault[a][r].ids = @ \ ids], r, NC(ids), 0)

TakeFromWorktop(S, r, n) ==
  IF n = 0 THEN NewBucket(S, r, C0)
  ELSE IF WtTotal(S, r) < n THEN Fl(S, "WorktopInsufficient")
  ELSE IF WtTotal(S, r) = n THEN MoveOut(S, r)                        \* exact amount: the bucket itself moves
  ELSE IF n % Unit # 0 THEN Fl(S, "InvalidAmount")
  ELSE IF n > S.wt[r].c.liq THEN Fl(S, "InsufficientBalance")         \* the rest is locked by proofs
  ELSE NewBucket([S EXCEPT !.wt[r].c.liq = @ - n], r, FC(n))
TakeNF(S, r, ids) ==
  IF ids = {} THEN NewBucket(S, r, C0)
  ELSE IF ~S.wt[r].on \/ ~(ids \subseteq AllIds(S.wt[r].c)) THEN Fl(S, "WorktopInsufficient")
  ELSE IF Cardinality(AllIds(S.wt[r].c)) = Cardinality(ids) THEN MoveOut(S, r)
  ELSE IF ~(ids \subseteq S.wt[r].c.ids) THEN Fl(S, "MissingId")
  ELSE NewBucket([S EXCEPT !.wt[r].c.ids = @ \ ids], r, NC(ids))
TakeAll(S, r) == IF S.wt[r].on THEN MoveOut(S, r) ELSE NewBucket(S, r, C0)

ReturnToWorktop(S, k) ==
  IF ~S.nb[k].live THEN Fl(S, "BucketNotFound")
  ELSE PutW([S EXCEPT !.nb[k] = GoneB], S.nb[k].res, S.nb[k].c, k)

\* Vault::put drops the bucket: a bucket with a live proof cannot be dropped
VaultPut(S, a, r, c) ==
  IF IsLocked(c) THEN Fl(S, "BucketLocked")
  ELSE [S EXCEPT !.vault[a][r] = [@ EXCEPT !.liq = @ + c.liq, !.ids = @ \cup c.ids]]
Deposit(S, a, k) ==
  IF ~S.nb[k].live THEN Fl(S, "BucketNotFound")                       \* resolved before the call is made
  ELSE IF ~S.sigs THEN Fl(S, "Unauthorized")
  ELSE VaultPut([S EXCEPT !.nb[k] = GoneB], a, S.nb[k].res, S.nb[k].c)
RECURSIVE DepositAll(_, _, _)
DepositAll(S, a, rs) ==
  IF rs = {} \/ ~S.ok THEN S
  ELSE LET r == CHOOSE x \in rs : TRUE
           S1 == VaultPut([S EXCEPT !.wt[r] = W0], a, r, S.wt[r].c)
       IN DepositAll(S1, a, rs \ {r})
DepositBatch(S, a) ==                                                 \* deposit_batch(ENTIRE_WORKTOP)
  IF ~S.sigs THEN Fl(S, "Unauthorized")
  ELSE DepositAll(S, a, {r \in Res : S.wt[r].on})

Mint(S, r, n) ==
  IF n % Unit # 0 THEN Fl(S, "InvalidAmount")
  ELSE PutW([S EXCEPT !.supply[r] = IF ResDef[r].track THEN @ + n ELSE @,
                      !.minted = AccAdd(@, r, n, {})], r, FC(n), 0)
RECURSIVE MintErr(_, _, _)      \* create_non_fungibles checks the ids one by one, in the order given (ascending)
MintErr(S, r, ids) ==
  IF ids = {} THEN ""
  ELSE LET x == MinId(ids)
       IN IF x \in DOMAIN S.data[r] THEN "NonFungibleAlreadyExists"
          ELSE IF x \in S.ever[r] THEN "KeyValueEntryLocked"           \* burnt: the entry is a locked tombstone
          ELSE MintErr(S, r, ids \ {x})
DoMintIds(S, r, ids) ==
  PutW([S EXCEPT !.data[r] = [x \in DOMAIN @ \cup ids |-> IF x \in ids THEN Data0 ELSE @[x]],
                 !.ever[r] = @ \cup ids,
                 !.supply[r] = IF ResDef[r].track THEN @ + Unit * Cardinality(ids) ELSE @,
                 !.minted = AccAdd(@, r, Unit * Cardinality(ids), ids)], r, NC(ids), 0)
MintNF(S, r, ids) ==
  IF ResDef[r].ruid THEN Fl(S, "InvalidNonFungibleIdType")
  ELSE LET e == MintErr(S, r, ids) IN IF e # "" THEN Fl(S, e) ELSE DoMintIds(S, r, ids)
MintNFWrongType(S, r) ==                                              \* a string id for a resource of integer ids
  IF ResDef[r].ruid THEN Fl(S, "InvalidNonFungibleIdType") ELSE Fl(S, "NonFungibleIdTypeDoesNotMatch")
MintRuid(S, r, cnt) ==
  IF ~ResDef[r].ruid THEN Fl(S, "InvalidNonFungibleIdType")
  ELSE DoMintIds([S EXCEPT !.ctr[r] = @ + cnt], r, (S.ctr[r] + 1)..(S.ctr[r] + cnt))

MintSingleRuid(S, r) == MintRuid(S, r, 1)      \* mint_single_ruid: its own entry point (own supply update), returns (bucket, id)

\* burn of a bucket's content (the bucket node is dropped: not possible under a live proof)
BurnC(S, r, c) ==
  IF IsLocked(c) THEN Fl(S, "BucketLocked")
  ELSE [S EXCEPT !.supply[r] = IF ResDef[r].track THEN @ - Total(r, c) ELSE @,
                 !.burned = AccAdd(@, r, Total(r, c), c.ids),
                 !.data = IF IsF(r) THEN @ ELSE [@ EXCEPT ![r] = [x \in DOMAIN @ \ c.ids |-> @[x]]]]
Burn(S, k) ==
  IF ~S.nb[k].live THEN Fl(S, "BucketNotFound")
  ELSE BurnC([S EXCEPT !.nb[k] = GoneB], S.nb[k].res, S.nb[k].c)
BurnInAccount(S, a, r, n) ==
  IF ~S.sigs THEN Fl(S, "Unauthorized")
  ELSE IF n % Unit # 0 THEN Fl(S, "InvalidAmount")
  ELSE IF n > S.vault[a][r].liq THEN Fl(S, "InsufficientBalance")
  ELSE BurnC([S EXCEPT !.vault[a][r].liq = @ - n], r, FC(n))
BurnNFInAccount(S, a, r, ids) ==
  IF ~S.sigs THEN Fl(S, "Unauthorized")
  ELSE IF ~(ids \subseteq S.vault[a][r].ids) THEN Fl(S, "MissingId")
  ELSE BurnC([S EXCEPT !.vault[a][r].ids = @ \ ids], r, NC(ids))

\* non-fungible vault take / burn / recall BY AMOUNT: which ids leave depends on the storage order, so the model only
\* offers amounts whose outcome is determined: 0, one digit too many, all liquid ids, one more than that
NFByAmount(S, a, r, n, auth) ==
  IF auth /\ ~S.sigs THEN Fl(S, "Unauthorized")
  ELSE IF n % Unit # 0 THEN Fl(S, "InvalidAmount")
  ELSE IF n > Unit * Cardinality(S.vault[a][r].ids) THEN Fl(S, "NotEnoughAmount")
  ELSE S
IdsByAmount(S, a, r, n) == IF n = 0 THEN {} ELSE S.vault[a][r].ids
WithdrawNFAmount(S, a, r, n) ==
  LET c == NFByAmount(S, a, r, n, TRUE) IN IF ~c.ok THEN c
  ELSE PutW([S EXCEPT !.vault[a][r].ids = @ \ IdsByAmount(S, a, r, n)], r, NC(IdsByAmount(S, a, r, n)), 0)
BurnNFAmountInAccount(S, a, r, n) ==
  LET c == NFByAmount(S, a, r, n, TRUE) IN IF ~c.ok THEN c
  ELSE BurnC([S EXCEPT !.vault[a][r].ids = @ \ IdsByAmount(S, a, r, n)], r, NC(IdsByAmount(S, a, r, n)))
RecallNFAmount(S, a, r, n) ==
  LET c == NFByAmount(S, a, r, n, FALSE) IN IF ~c.ok THEN c
  ELSE PutW([S EXCEPT !.vault[a][r].ids = @ \ IdsByAmount(S, a, r, n)], r, NC(IdsByAmount(S, a, r, n)), 0)

Recall(S, a, r, n) ==                                                 \* direct vault access; the recaller role is allow-all
  IF n % Unit # 0 THEN Fl(S, "InvalidAmount")
  ELSE IF n > S.vault[a][r].liq THEN Fl(S, "InsufficientBalance")
  ELSE PutW([S EXCEPT !.vault[a][r].liq = @ - n], r, FC(n), 0)
RecallNF(S, a, r, ids) ==
  IF ~(ids \subseteq S.vault[a][r].ids) THEN Fl(S, "MissingId")
  ELSE PutW([S EXCEPT !.vault[a][r].ids = @ \ ids], r, NC(ids), 0)

\* a proof returned by a call goes to the auth zone
ProofFromAccount(S, a, r, n, ids) ==
  IF ~S.sigs THEN Fl(S, "Unauthorized")
  ELSE LET l == TryLock(r, S.vault[a][r], n, ids)
       IN IF ~l.ok THEN Fl(S, l.err)
          ELSE [S EXCEPT !.vault[a][r] = l.c,
                         !.az = Append(@, Plain(r, n, ids, VRef(a, r)))]
ProofFromBucket(S, k, n, ids) ==
  IF ~S.nb[k].live THEN Fl(S, "BucketNotFound")
  ELSE LET r == S.nb[k].res
           l == TryLock(r, S.nb[k].c, n, ids)
       IN IF ~l.ok THEN Fl(S, l.err)
          ELSE [S EXCEPT !.nb[k].c = l.c,
                         !.np = Append(@, [live |-> TRUE, p |-> Plain(r, n, ids, NRef(k))])]
ProofFromBucketAll(S, k) ==
  IF ~S.nb[k].live THEN Fl(S, "BucketNotFound")
  ELSE ProofFromBucket(S, k, IF IsF(S.nb[k].res) THEN Total(S.nb[k].res, S.nb[k].c) ELSE 0,
                             IF IsF(S.nb[k].res) THEN {} ELSE AllIds(S.nb[k].c))

PopFromAuthZone(S) ==
  IF S.az = <<>> THEN Fl(S, "AuthZoneIsEmpty")
  ELSE [S EXCEPT !.np = Append(@, [live |-> TRUE, p |-> S.az[Len(S.az)]]), !.az = SubSeq(@, 1, Len(@) - 1)]
PushToAuthZone(S, k) ==
  IF ~S.np[k].live THEN Fl(S, "ProofNotFound")
  ELSE [S EXCEPT !.az = Append(@, S.np[k].p), !.np[k] = GoneP]
CloneProof(S, k) ==
  IF ~S.np[k].live THEN Fl(S, "ProofNotFound")
  ELSE LET p == S.np[k].p                                               \* the same amounts again: never takes from liquid
       IN [LockEv(S, p, 1) EXCEPT !.np = Append(@, [live |-> TRUE, p |-> p])]
DropProof(S, k) ==
  IF ~S.np[k].live THEN Fl(S, "ProofNotFound")
  ELSE [DropP(S, S.np[k].p) EXCEPT !.np[k] = GoneP]

\* ---- proofs composed by the auth zone (auth_zone_composition.rs).  Base proofs = the proofs in the zone of that resource.
\* Available = per container the MAX amount (union of ids) any base proof locked there, summed over the containers.
\* The walk visits the zone's proofs in order; it reads EVERY visited proof as a proof of the requested kind (a proof of
\* the other kind makes the native code trap); each container is locked once, up to its quota, until nothing remains.
RECURSIVE ZFl(_, _)    \* the zone flattened: per proof an "open" marker followed by its evidence entries
ZFl(S, i) == IF i > Len(S.az) THEN <<>>
             ELSE LET rest == ZFl(S, i + 1)
                  IN <<[t |-> "o", res |-> S.az[i].res, e |-> EvE(NoRef, 0, {})]>>
                     \o [j \in DOMAIN S.az[i].ev |-> [t |-> "e", res |-> S.az[i].res, e |-> S.az[i].ev[j]]] \o rest
ZoneEntries(S) == ZFl(S, 1)
BaseEntries(S, r) == UNION {{S.az[i].ev[j] : j \in DOMAIN S.az[i].ev} : i \in {k \in DOMAIN S.az : S.az[k].res = r}}
QuotaRefs(S, r) == {e.ref : e \in BaseEntries(S, r)}
QuotaAmt(S, r, ref) == MaxSet({e.amt : e \in {x \in BaseEntries(S, r) : x.ref = ref}})
QuotaIds(S, r, ref) == UNION {e.ids : e \in {x \in BaseEntries(S, r) : x.ref = ref}}
\* W = [S, rem (amount), remi (ids), vis (containers done), ev, trap, stop]
WalkStep(W, r, x) ==
  IF x.t = "o"
  THEN IF IsF(x.res) # IsF(r) THEN [W EXCEPT !.trap = TRUE, !.stop = TRUE] ELSE W   \* decoded as the wrong kind of proof
  ELSE IF (IsF(r) /\ W.rem = 0) \/ (~IsF(r) /\ W.remi = {}) THEN [W EXCEPT !.stop = TRUE]     \* break 'outer
  ELSE IF x.res # r \/ x.e.ref \in W.vis THEN W
  ELSE LET ref == x.e.ref
           q == QuotaAmt(W.S, r, ref)
           n == IF IsF(r) THEN (IF W.rem < q THEN W.rem ELSE q) ELSE 0
           ids == IF IsF(r) THEN {} ELSE W.remi \cap QuotaIds(W.S, r, ref)
       IN [W EXCEPT !.S = SetC(W.S, ref, LockRaw(r, GetC(W.S, ref), n, ids)),
                    !.rem = @ - n, !.remi = @ \ ids, !.vis = @ \cup {ref},
                    !.ev = IF IsF(r) \/ ids # {} THEN Append(@, EvE(ref, n, ids)) ELSE @]
RECURSIVE ComposeWalk(_, _, _, _)
ComposeWalk(W, r, z, i) == IF i > Len(z) \/ W.stop THEN W ELSE ComposeWalk(WalkStep(W, r, z[i]), r, z, i + 1)
Compose(S, r, n, ids) ==
  LET z == ZoneEntries(S)
      W == ComposeWalk([S |-> S, rem |-> n, remi |-> ids, vis |-> {}, ev |-> <<>>, trap |-> FALSE, stop |-> FALSE], r, z, 1)
  IN IF W.trap THEN Fl(S, "Trap")
     ELSE IF (IsF(r) /\ n = 0) \/ (~IsF(r) /\ ids = {}) THEN Fl(S, "EmptyProofNotAllowed")
     ELSE [W.S EXCEPT !.np = Append(@, [live |-> TRUE, p |-> [res |-> r, amt |-> n, ids |-> ids, ev |-> W.ev]])]
SumQ(S, r, refs) == SetSum([x \in refs |-> QuotaAmt(S, r, x)], refs)
AzProofOfAmount(S, r, n) ==
  IF n % Unit # 0 THEN Fl(S, "InvalidAmount")
  ELSE IF n > SumQ(S, r, QuotaRefs(S, r)) THEN Fl(S, "InsufficientBaseProofs")
  ELSE Compose(S, r, n, {})
AzProofOfNF(S, r, ids) ==
  IF ~(ids \subseteq UNION {QuotaIds(S, r, ref) : ref \in QuotaRefs(S, r)}) THEN Fl(S, "InsufficientBaseProofs")
  ELSE Compose(S, r, 0, ids)
AzProofOfAll(S, r) ==
  IF IsF(r) THEN Compose(S, r, SumQ(S, r, QuotaRefs(S, r)), {})
  ELSE Compose(S, r, 0, UNION {QuotaIds(S, r, ref) : ref \in QuotaRefs(S, r)})

\* ---- resource constraints (ManifestResourceConstraints): a constraint is [k, n, ids] with k = "nz" (non-zero amount),
\* "ex" / "al" (exact / at least amount n), "exnf" / "alnf" (exactly / at least the ids); a non-fungible constraint on a
\* fungible resource never holds.  `only`: resources that are not listed must have a zero balance.
Kc(k, n, ids) == [k |-> k, n |-> n, ids |-> ids]
COk(r, c, amt, ids) ==
  CASE c.k = "nz" -> amt > 0
    [] c.k = "ex" -> amt = c.n
    [] c.k = "al" -> amt >= c.n
    [] c.k = "exnf" -> ~IsF(r) /\ ids = c.ids
    [] c.k = "alnf" -> ~IsF(r) /\ c.ids \subseteq ids
ConsOk(cons, bal, only) ==      \* bal: [resource -> [amt, ids]]
  /\ only => \A r \in Res \ DOMAIN cons : bal[r].amt = 0
  /\ \A r \in DOMAIN cons : COk(r, cons[r], bal[r].amt, bal[r].ids)
WtBal(S) == [r \in Res |-> [amt |-> WtTotal(S, r), ids |-> IF S.wt[r].on THEN AllIds(S.wt[r].c) ELSE {}]]
AssertResources(S, only, cons) == IF ConsOk(cons, WtBal(S), only) THEN S ELSE Fl(S, "AssertionFailed")
AssertNextCall(S, only, cons) == [S EXCEPT !.nextc = [on |-> TRUE, only |-> only, c |-> cons]]
AssertBucket(S, k, con) ==
  IF ~S.nb[k].live THEN Fl(S, "BucketNotFound")
  ELSE IF COk(S.nb[k].res, con, Total(S.nb[k].res, S.nb[k].c), AllIds(S.nb[k].c)) THEN S ELSE Fl(S, "AssertBucketContentsFailed")
\* Every invocation (method call, direct vault call, BURN_RESOURCE) consumes a pending ASSERT_NEXT_CALL_RETURNS_*: the buckets the
\* call returned (= what it added to the worktop; empty buckets do not count) must satisfy it.  R = the state after the call.
Returned(S, R) == [r \in Res |-> [amt |-> Max0(WtTotal(R, r) - WtTotal(S, r)),
                                   ids |-> (IF R.wt[r].on THEN AllIds(R.wt[r].c) ELSE {}) \ (IF S.wt[r].on THEN AllIds(S.wt[r].c) ELSE {})]]
Call(S, R) ==
  IF ~R.ok \/ ~S.nextc.on THEN R
  ELSE IF ConsOk(S.nextc.c, Returned(S, R), S.nextc.only) THEN [R EXCEPT !.nextc = NextC0]
  ELSE Fl(S, "AssertNextCallReturnsFailed")

AssertContains(S, r, n) == IF WtTotal(S, r) < n THEN Fl(S, "AssertionFailed") ELSE S
AssertAny(S, r) == IF WtTotal(S, r) = 0 THEN Fl(S, "AssertionFailed") ELSE S
AssertNF(S, r, ids) == IF (S.wt[r].on /\ ids \subseteq AllIds(S.wt[r].c)) \/ ids = {} THEN S ELSE Fl(S, "AssertionFailed")

\* the field is looked up by NAME among the mutable fields (an immutable or unknown name fails), then exactly that field of the
\* entry is replaced
UpdateNFData(S, r, id, f, v) ==
  IF f \notin MutableFields THEN Fl(S, "UnknownMutableFieldName")
  ELSE IF id \in DOMAIN S.data[r] THEN [S EXCEPT !.data[r][id][f] = v]
  ELSE IF id \in S.ever[r] THEN Fl(S, "KeyValueEntryLocked")
  ELSE Fl(S, "NonFungibleNotFound")

Exec(S, i) ==
  CASE i.op = "Withdraw"         -> Call(S, Withdraw(S, i.a, i.r, i.n))
    [] i.op = "WithdrawNF"       -> Call(S, WithdrawNF(S, i.a, i.r, i.ids))
    [] i.op = "TakeFromWorktop"  -> TakeFromWorktop(S, i.r, i.n)
    [] i.op = "TakeNF"           -> TakeNF(S, i.r, i.ids)
    [] i.op = "TakeAll"          -> TakeAll(S, i.r)
    [] i.op = "ReturnToWorktop"  -> ReturnToWorktop(S, i.k)
    [] i.op = "Deposit"          -> Call(S, Deposit(S, i.a, i.k))
    [] i.op = "DepositBatch"     -> Call(S, DepositBatch(S, i.a))
    [] i.op = "Mint"             -> Call(S, Mint(S, i.r, i.n))
    [] i.op = "MintNF"           -> Call(S, MintNF(S, i.r, i.ids))
    [] i.op = "MintNFWrongType"  -> Call(S, MintNFWrongType(S, i.r))
    [] i.op = "MintRuid"         -> Call(S, MintRuid(S, i.r, i.n))
    [] i.op = "MintSingleRuid"   -> Call(S, MintSingleRuid(S, i.r))
    [] i.op = "WithdrawNFAmount" -> Call(S, WithdrawNFAmount(S, i.a, i.r, i.n))
    [] i.op = "BurnNFAmountInAccount" -> Call(S, BurnNFAmountInAccount(S, i.a, i.r, i.n))
    [] i.op = "RecallNFAmount"   -> Call(S, RecallNFAmount(S, i.a, i.r, i.n))
    [] i.op = "Burn"             -> Call(S, Burn(S, i.k))
    [] i.op = "BurnInAccount"    -> Call(S, BurnInAccount(S, i.a, i.r, i.n))
    [] i.op = "BurnNFInAccount"  -> Call(S, BurnNFInAccount(S, i.a, i.r, i.ids))
    [] i.op = "Recall"           -> Call(S, Recall(S, i.a, i.r, i.n))
    [] i.op = "RecallNF"         -> Call(S, RecallNF(S, i.a, i.r, i.ids))
    [] i.op = "ProofOfAmount"    -> Call(S, ProofFromAccount(S, i.a, i.r, i.n, {}))
    [] i.op = "ProofOfNF"        -> Call(S, ProofFromAccount(S, i.a, i.r, 0, i.ids))
    [] i.op = "BucketProofOfAmount" -> ProofFromBucket(S, i.k, i.n, {})
    [] i.op = "BucketProofOfNF"  -> ProofFromBucket(S, i.k, 0, i.ids)
    [] i.op = "BucketProofOfAll" -> ProofFromBucketAll(S, i.k)
    [] i.op = "PopFromAuthZone"  -> PopFromAuthZone(S)
    [] i.op = "PushToAuthZone"   -> PushToAuthZone(S, i.k)
    [] i.op = "CloneProof"       -> CloneProof(S, i.k)
    [] i.op = "DropProof"        -> DropProof(S, i.k)
    [] i.op = "DropAllProofs"    -> [DropAz(DropNamed(S, 1)) EXCEPT !.sigs = FALSE]   \* drop_proofs also removes the signature proofs
    [] i.op = "DropNamedProofs"  -> DropNamed(S, 1)
    [] i.op = "DropAuthZoneProofs" -> [DropAz(S) EXCEPT !.sigs = FALSE]
    [] i.op = "DropAuthZoneRegularProofs" -> DropAz(S)
    [] i.op = "DropAuthZoneSignatureProofs" -> [S EXCEPT !.sigs = FALSE]
    [] i.op = "AzProofOfAmount"  -> AzProofOfAmount(S, i.r, i.n)
    [] i.op = "AzProofOfNF"      -> AzProofOfNF(S, i.r, i.ids)
    [] i.op = "AzProofOfAll"     -> AzProofOfAll(S, i.r)
    [] i.op = "AssertResOnly"    -> AssertResources(S, TRUE, i.c)
    [] i.op = "AssertResInclude" -> AssertResources(S, FALSE, i.c)
    [] i.op = "AssertNextCallOnly" -> AssertNextCall(S, TRUE, i.c)
    [] i.op = "AssertNextCallInclude" -> AssertNextCall(S, FALSE, i.c)
    [] i.op = "AssertBucket"     -> AssertBucket(S, i.k, i.c.b)
    [] i.op = "AssertContains"   -> AssertContains(S, i.r, i.n)
    [] i.op = "AssertAny"        -> AssertAny(S, i.r)
    [] i.op = "AssertNF"         -> AssertNF(S, i.r, i.ids)
    [] i.op = "UpdateNFData"     -> Call(S, UpdateNFData(S, i.r, i.k, i.f, i.v))

\* End of the manifest: Worktop::drop (every bucket must be empty), no bucket may stay in the name table
\* (orphaned node), the remaining proofs are dropped automatically.
End(S) ==
  LET busy == {r \in Res : S.wt[r].on}
  IN IF busy # {}
     THEN Fl(S, IF \E r \in busy : IsLocked(S.wt[r].c) THEN "*" ELSE "DropNonEmptyBucket")
     ELSE IF \E k \in DOMAIN S.nb : S.nb[k].live
          THEN Fl(S, IF \E k \in DOMAIN S.nb : S.nb[k].live /\ IsLocked(S.nb[k].c) THEN "*" ELSE "OrphanedNodes")
          ELSE DropAz(DropNamed(S, 1))

-----------------------------------------------------------------------------
(* Candidate instructions of one kind in a state (the bounds are bounds of the model, not of the engine) *)
CandOf(S, op) ==
  LET bks == DOMAIN S.nb
      pfs == DOMAIN S.np
      canB == Len(S.nb) < MaxBuckets
      canP == Len(S.np) < MaxProofs
      canZ == Len(S.az) < MaxAz
      fb == {k \in bks : ~S.nb[k].live \/ IsF(S.nb[k].res)}       \* fungible (or consumed) buckets
      nfb == {k \in bks : ~S.nb[k].live \/ ~IsF(S.nb[k].res)}
      known(r) == IF ResDef[r].ruid THEN 1..pre.ctr[r] ELSE ResDef[r].uni    \* RUID ids generated in this transaction cannot be named in it
      idsOf(r) == {s \in IdArgs : s \subseteq known(r)}
      AccResAmt == {I(op, a, r, n, {}, 0, "", 0) : a \in Accts, r \in FRes, n \in AmtArgs}
      AccResIds == UNION {{I(op, a, r, 0, s, 0, "", 0) : a \in Accts, s \in idsOf(r)} : r \in NRes}
      ResIds == UNION {{I(op, "", r, 0, s, 0, "", 0) : s \in idsOf(r)} : r \in NRes}
      NoArg == {I(op, "", "", 0, {}, 0, "", 0)}
  IN CASE op = "Withdraw" -> AccResAmt
       [] op = "WithdrawNF" -> AccResIds
       [] op = "TakeFromWorktop" -> IF canB THEN {I(op, "", r, n, {}, 0, "", 0) : r \in FRes, n \in AmtArgs} ELSE {}
       [] op = "TakeNF" -> IF canB THEN ResIds ELSE {}
       [] op = "TakeAll" -> IF canB THEN {I(op, "", r, 0, {}, 0, "", 0) : r \in Res} ELSE {}
       [] op = "ReturnToWorktop" -> {I(op, "", "", 0, {}, k, "", 0) : k \in bks}
       [] op = "Deposit" -> {I(op, a, "", 0, {}, k, "", 0) : a \in Accts, k \in bks}
       [] op = "DepositBatch" -> {I(op, a, "", 0, {}, 0, "", 0) : a \in Accts}
       [] op = "Mint" -> UNION {{I(op, "", r, n, {}, 0, "", 0) : n \in {m \in AmtArgs : Circ(S, r) + m <= SupplyCap}} : r \in FRes}
       [] op = "MintNF" -> ResIds
       [] op = "MintNFWrongType" -> {I(op, "", r, 0, {}, 0, "", 0) : r \in NRes}
       [] op = "MintRuid" -> UNION {{I(op, "", r, n, {}, 0, "", 0) : n \in {m \in 1..2 : IF ResDef[r].ruid THEN S.ctr[r] + m <= Cardinality(ResDef[r].uni) ELSE m = 1}} : r \in NRes}
       [] op = "MintSingleRuid" -> {I(op, "", r, 0, {}, 0, "", 0) : r \in {x \in NRes : ~ResDef[x].ruid \/ S.ctr[x] < Cardinality(ResDef[x].uni)}}
       [] op \in {"WithdrawNFAmount", "BurnNFAmountInAccount", "RecallNFAmount"} ->
            UNION {{I(op, a, r, n, {}, 0, "", 0) : n \in {0, 1, Unit * Cardinality(S.vault[a][r].ids), Unit * Cardinality(S.vault[a][r].ids) + Unit}}
                   : a \in Accts, r \in NRes}
       [] op = "Burn" -> {I(op, "", "", 0, {}, k, "", 0) : k \in bks}
       [] op = "BurnInAccount" -> AccResAmt
       [] op = "BurnNFInAccount" -> AccResIds
       [] op = "Recall" -> AccResAmt
       [] op = "RecallNF" -> AccResIds
       [] op = "ProofOfAmount" -> IF canZ THEN AccResAmt ELSE {}
       [] op = "ProofOfNF" -> IF canZ THEN AccResIds ELSE {}
       [] op = "BucketProofOfAmount" -> IF canP THEN {I(op, "", "", n, {}, k, "", 0) : k \in fb, n \in AmtArgs} ELSE {}
       [] op = "BucketProofOfNF" -> IF canP THEN UNION {{I(op, "", "", 0, s, k, "", 0) : s \in IF S.nb[k].live THEN idsOf(S.nb[k].res) ELSE {{}}} : k \in nfb} ELSE {}
       [] op = "BucketProofOfAll" -> IF canP THEN {I(op, "", "", 0, {}, k, "", 0) : k \in bks} ELSE {}
       [] op = "PopFromAuthZone" -> IF canP THEN NoArg ELSE {}
       [] op = "PushToAuthZone" -> IF canZ THEN {I(op, "", "", 0, {}, k, "", 0) : k \in pfs} ELSE {}
       [] op = "CloneProof" -> IF canP THEN {I(op, "", "", 0, {}, k, "", 0) : k \in pfs} ELSE {}
       [] op = "DropProof" -> {I(op, "", "", 0, {}, k, "", 0) : k \in pfs}
       [] op \in {"DropAllProofs", "DropNamedProofs", "DropAuthZoneProofs", "DropAuthZoneRegularProofs", "DropAuthZoneSignatureProofs"} -> NoArg
       [] op = "AzProofOfAmount" -> IF canP THEN {I(op, "", r, n, {}, 0, "", 0) : r \in FRes, n \in AmtArgs} ELSE {}
       [] op = "AzProofOfNF" -> IF canP THEN ResIds ELSE {}
       [] op = "AzProofOfAll" -> IF canP THEN {I(op, "", r, 0, {}, 0, "", 0) : r \in Res} ELSE {}
       [] op \in {"AssertResOnly", "AssertResInclude", "AssertNextCallOnly", "AssertNextCallInclude"} -> {IC(op, 0, c) : c \in ConsArgs}
       [] op = "AssertBucket" -> {IC(op, k, [b |-> c]) : k \in bks, c \in ConArgs}
       [] op = "AssertContains" -> {I(op, "", r, n, {}, 0, "", 0) : r \in Res, n \in AmtArgs}
       [] op = "AssertAny" -> {I(op, "", r, 0, {}, 0, "", 0) : r \in Res}
       [] op = "AssertNF" -> ResIds
       [] op = "UpdateNFData" -> UNION {{I(op, "", r, 0, {}, x, f, v) : x \in known(r), f \in FieldArgs, v \in DataVals} : r \in NRes}
Cand(S) == UNION {CandOf(S, op) : op \in Ops}

-----------------------------------------------------------------------------
(* The state machine *)
LedgerOf(S) == [vault |-> S.vault, supply |-> S.supply, data |-> S.data, ever |-> S.ever, ctr |-> S.ctr]
ThisLedger == [vault |-> vault, supply |-> supply, data |-> data, ever |-> ever, ctr |-> ctr]
SetLedger(L) == /\ vault' = L.vault /\ supply' = L.supply /\ data' = L.data /\ ever' = L.ever /\ ctr' = L.ctr
ClearTx == /\ wt' = Wt0 /\ nb' = <<>> /\ np' = <<>> /\ az' = <<>> /\ sigs' = TRUE /\ nextc' = NextC0
           /\ minted' = Acc0 /\ burned' = Acc0
SetTx(S) == /\ wt' = S.wt /\ nb' = S.nb /\ np' = S.np /\ az' = S.az /\ sigs' = S.sigs /\ nextc' = S.nextc
            /\ minted' = S.minted /\ burned' = S.burned
EndIns == I("EndTx", "", "", 0, {}, 0, "", 0)

Init ==
  /\ \E L \in InitLedgers : /\ vault = L.vault /\ supply = L.supply /\ data = L.data /\ ever = L.ever /\ ctr = L.ctr
                            /\ pre = L
                            /\ mintCount = [r \in NRes |-> [x \in ResDef[r].uni |-> IF x \in L.ever[r] THEN 1 ELSE 0]]
  /\ wt = Wt0 /\ nb = <<>> /\ np = <<>> /\ az = <<>> /\ sigs = TRUE /\ nextc = NextC0 /\ minted = Acc0 /\ burned = Acc0
  /\ status = "init" /\ nins = 0 /\ ntx = 0
  /\ last = [ins |-> EndIns, ok |-> TRUE, err |-> ""]

Failed(ins, e) ==     \* the transaction fails: everything is reverted
  /\ SetLedger(pre) /\ ClearTx /\ UNCHANGED <<pre, mintCount>>
  /\ status' = "fail" /\ nins' = 0
  /\ last' = [ins |-> ins, ok |-> FALSE, err |-> e]

\* R = the transaction state after the instruction (Exec(Cur, ins)); the per-kind actions below pass the result of
\* their own operator, so that every action carries only its own definition (TLC's coverage copies the tree per action)
StepR(ins, R) ==
  /\ IF status = "run" THEN nins < MaxInstr ELSE ntx < MaxTx
  /\    IF R.ok
        THEN /\ SetLedger(LedgerOf(R)) /\ SetTx(R) /\ UNCHANGED <<pre, mintCount>>
             /\ status' = "run" /\ nins' = nins + 1
             /\ last' = [ins |-> ins, ok |-> TRUE, err |-> ""]
        ELSE Failed(ins, R.err)
  /\ ntx' = IF status = "run" THEN ntx ELSE ntx + 1
Step(ins) == StepR(ins, Exec(Cur, ins))

EndTx ==
  /\ status = "run"
  /\ LET R == End(Cur)
     IN IF R.ok
        THEN /\ SetLedger(LedgerOf(R)) /\ ClearTx /\ pre' = LedgerOf(R)
             /\ mintCount' = [r \in NRes |-> [x \in ResDef[r].uni |-> mintCount[r][x] + IF x \in minted[r].ids THEN 1 ELSE 0]]
             /\ status' = "ok" /\ nins' = 0
             /\ last' = [ins |-> EndIns, ok |-> TRUE, err |-> ""]
        ELSE Failed(EndIns, R.err)
  /\ UNCHANGED ntx

IWithdraw == "Withdraw" \in Ops /\ \E ins \in CandOf(Cur, "Withdraw") : StepR(ins, Call(Cur, Withdraw(Cur, ins.a, ins.r, ins.n)))
IWithdrawNF == "WithdrawNF" \in Ops /\ \E ins \in CandOf(Cur, "WithdrawNF") : StepR(ins, Call(Cur, WithdrawNF(Cur, ins.a, ins.r, ins.ids)))
ITakeFromWorktop == "TakeFromWorktop" \in Ops /\ \E ins \in CandOf(Cur, "TakeFromWorktop") : StepR(ins, TakeFromWorktop(Cur, ins.r, ins.n))
ITakeNF == "TakeNF" \in Ops /\ \E ins \in CandOf(Cur, "TakeNF") : StepR(ins, TakeNF(Cur, ins.r, ins.ids))
ITakeAll == "TakeAll" \in Ops /\ \E ins \in CandOf(Cur, "TakeAll") : StepR(ins, TakeAll(Cur, ins.r))
IReturnToWorktop == "ReturnToWorktop" \in Ops /\ \E ins \in CandOf(Cur, "ReturnToWorktop") : StepR(ins, ReturnToWorktop(Cur, ins.k))
IDeposit == "Deposit" \in Ops /\ \E ins \in CandOf(Cur, "Deposit") : StepR(ins, Call(Cur, Deposit(Cur, ins.a, ins.k)))
IDepositBatch == "DepositBatch" \in Ops /\ \E ins \in CandOf(Cur, "DepositBatch") : StepR(ins, Call(Cur, DepositBatch(Cur, ins.a)))
IMint == "Mint" \in Ops /\ \E ins \in CandOf(Cur, "Mint") : StepR(ins, Call(Cur, Mint(Cur, ins.r, ins.n)))
IMintNF == "MintNF" \in Ops /\ \E ins \in CandOf(Cur, "MintNF") : StepR(ins, Call(Cur, MintNF(Cur, ins.r, ins.ids)))
IMintNFWrongType == "MintNFWrongType" \in Ops /\ \E ins \in CandOf(Cur, "MintNFWrongType") : StepR(ins, Call(Cur, MintNFWrongType(Cur, ins.r)))
IMintRuid == "MintRuid" \in Ops /\ \E ins \in CandOf(Cur, "MintRuid") : StepR(ins, Call(Cur, MintRuid(Cur, ins.r, ins.n)))
IBurn == "Burn" \in Ops /\ \E ins \in CandOf(Cur, "Burn") : StepR(ins, Call(Cur, Burn(Cur, ins.k)))
IBurnInAccount == "BurnInAccount" \in Ops /\ \E ins \in CandOf(Cur, "BurnInAccount") : StepR(ins, Call(Cur, BurnInAccount(Cur, ins.a, ins.r, ins.n)))
IBurnNFInAccount == "BurnNFInAccount" \in Ops /\ \E ins \in CandOf(Cur, "BurnNFInAccount") : StepR(ins, Call(Cur, BurnNFInAccount(Cur, ins.a, ins.r, ins.ids)))
IRecall == "Recall" \in Ops /\ \E ins \in CandOf(Cur, "Recall") : StepR(ins, Call(Cur, Recall(Cur, ins.a, ins.r, ins.n)))
IRecallNF == "RecallNF" \in Ops /\ \E ins \in CandOf(Cur, "RecallNF") : StepR(ins, Call(Cur, RecallNF(Cur, ins.a, ins.r, ins.ids)))
IProofOfAmount == "ProofOfAmount" \in Ops /\ \E ins \in CandOf(Cur, "ProofOfAmount") : StepR(ins, Call(Cur, ProofFromAccount(Cur, ins.a, ins.r, ins.n, {})))
IProofOfNF == "ProofOfNF" \in Ops /\ \E ins \in CandOf(Cur, "ProofOfNF") : StepR(ins, Call(Cur, ProofFromAccount(Cur, ins.a, ins.r, 0, ins.ids)))
IBucketProofOfAmount == "BucketProofOfAmount" \in Ops /\ \E ins \in CandOf(Cur, "BucketProofOfAmount") : StepR(ins, ProofFromBucket(Cur, ins.k, ins.n, {}))
IBucketProofOfNF == "BucketProofOfNF" \in Ops /\ \E ins \in CandOf(Cur, "BucketProofOfNF") : StepR(ins, ProofFromBucket(Cur, ins.k, 0, ins.ids))
IBucketProofOfAll == "BucketProofOfAll" \in Ops /\ \E ins \in CandOf(Cur, "BucketProofOfAll") : StepR(ins, ProofFromBucketAll(Cur, ins.k))
IPopFromAuthZone == "PopFromAuthZone" \in Ops /\ \E ins \in CandOf(Cur, "PopFromAuthZone") : StepR(ins, PopFromAuthZone(Cur))
IPushToAuthZone == "PushToAuthZone" \in Ops /\ \E ins \in CandOf(Cur, "PushToAuthZone") : StepR(ins, PushToAuthZone(Cur, ins.k))
ICloneProof == "CloneProof" \in Ops /\ \E ins \in CandOf(Cur, "CloneProof") : StepR(ins, CloneProof(Cur, ins.k))
IDropProof == "DropProof" \in Ops /\ \E ins \in CandOf(Cur, "DropProof") : StepR(ins, DropProof(Cur, ins.k))
IDropAllProofs == "DropAllProofs" \in Ops /\ \E ins \in CandOf(Cur, "DropAllProofs") : StepR(ins, [DropAz(DropNamed(Cur, 1)) EXCEPT !.sigs = FALSE])
IDropNamedProofs == "DropNamedProofs" \in Ops /\ \E ins \in CandOf(Cur, "DropNamedProofs") : StepR(ins, DropNamed(Cur, 1))
IDropAuthZoneProofs == "DropAuthZoneProofs" \in Ops /\ \E ins \in CandOf(Cur, "DropAuthZoneProofs") : StepR(ins, [DropAz(Cur) EXCEPT !.sigs = FALSE])
IDropAuthZoneRegularProofs == "DropAuthZoneRegularProofs" \in Ops /\ \E ins \in CandOf(Cur, "DropAuthZoneRegularProofs") : StepR(ins, DropAz(Cur))
IDropAuthZoneSignatureProofs == "DropAuthZoneSignatureProofs" \in Ops /\ \E ins \in CandOf(Cur, "DropAuthZoneSignatureProofs") : StepR(ins, [Cur EXCEPT !.sigs = FALSE])
IAzProofOfAmount == "AzProofOfAmount" \in Ops /\ \E ins \in CandOf(Cur, "AzProofOfAmount") : StepR(ins, AzProofOfAmount(Cur, ins.r, ins.n))
IAzProofOfNF == "AzProofOfNF" \in Ops /\ \E ins \in CandOf(Cur, "AzProofOfNF") : StepR(ins, AzProofOfNF(Cur, ins.r, ins.ids))
IAzProofOfAll == "AzProofOfAll" \in Ops /\ \E ins \in CandOf(Cur, "AzProofOfAll") : StepR(ins, AzProofOfAll(Cur, ins.r))
IMintSingleRuid == "MintSingleRuid" \in Ops /\ \E ins \in CandOf(Cur, "MintSingleRuid") : StepR(ins, Call(Cur, MintSingleRuid(Cur, ins.r)))
IWithdrawNFAmount == "WithdrawNFAmount" \in Ops /\ \E ins \in CandOf(Cur, "WithdrawNFAmount") : StepR(ins, Call(Cur, WithdrawNFAmount(Cur, ins.a, ins.r, ins.n)))
IBurnNFAmountInAccount == "BurnNFAmountInAccount" \in Ops /\ \E ins \in CandOf(Cur, "BurnNFAmountInAccount") : StepR(ins, Call(Cur, BurnNFAmountInAccount(Cur, ins.a, ins.r, ins.n)))
IRecallNFAmount == "RecallNFAmount" \in Ops /\ \E ins \in CandOf(Cur, "RecallNFAmount") : StepR(ins, Call(Cur, RecallNFAmount(Cur, ins.a, ins.r, ins.n)))
IAssertResOnly == "AssertResOnly" \in Ops /\ \E ins \in CandOf(Cur, "AssertResOnly") : StepR(ins, AssertResources(Cur, TRUE, ins.c))
IAssertResInclude == "AssertResInclude" \in Ops /\ \E ins \in CandOf(Cur, "AssertResInclude") : StepR(ins, AssertResources(Cur, FALSE, ins.c))
IAssertNextCallOnly == "AssertNextCallOnly" \in Ops /\ \E ins \in CandOf(Cur, "AssertNextCallOnly") : StepR(ins, AssertNextCall(Cur, TRUE, ins.c))
IAssertNextCallInclude == "AssertNextCallInclude" \in Ops /\ \E ins \in CandOf(Cur, "AssertNextCallInclude") : StepR(ins, AssertNextCall(Cur, FALSE, ins.c))
IAssertBucket == "AssertBucket" \in Ops /\ \E ins \in CandOf(Cur, "AssertBucket") : StepR(ins, AssertBucket(Cur, ins.k, ins.c.b))
IAssertContains == "AssertContains" \in Ops /\ \E ins \in CandOf(Cur, "AssertContains") : StepR(ins, AssertContains(Cur, ins.r, ins.n))
IAssertAny == "AssertAny" \in Ops /\ \E ins \in CandOf(Cur, "AssertAny") : StepR(ins, AssertAny(Cur, ins.r))
IAssertNF == "AssertNF" \in Ops /\ \E ins \in CandOf(Cur, "AssertNF") : StepR(ins, AssertNF(Cur, ins.r, ins.ids))
IUpdateNFData == "UpdateNFData" \in Ops /\ \E ins \in CandOf(Cur, "UpdateNFData") : StepR(ins, Call(Cur, UpdateNFData(Cur, ins.r, ins.k, ins.f, ins.v)))
Next == \/ EndTx
        \/ IWithdraw
        \/ IWithdrawNF
        \/ ITakeFromWorktop
        \/ ITakeNF
        \/ ITakeAll
        \/ IReturnToWorktop
        \/ IDeposit
        \/ IDepositBatch
        \/ IMint
        \/ IMintNF
        \/ IMintNFWrongType
        \/ IMintRuid
        \/ IBurn
        \/ IBurnInAccount
        \/ IBurnNFInAccount
        \/ IRecall
        \/ IRecallNF
        \/ IProofOfAmount
        \/ IProofOfNF
        \/ IBucketProofOfAmount
        \/ IBucketProofOfNF
        \/ IBucketProofOfAll
        \/ IPopFromAuthZone
        \/ IPushToAuthZone
        \/ ICloneProof
        \/ IDropProof
        \/ IDropAllProofs
        \/ IDropNamedProofs
        \/ IDropAuthZoneProofs
        \/ IDropAuthZoneRegularProofs
        \/ IAssertContains
        \/ IAssertResOnly \/ IAssertResInclude \/ IAssertNextCallOnly \/ IAssertNextCallInclude \/ IAssertBucket
        \/ IMintSingleRuid \/ IWithdrawNFAmount \/ IBurnNFAmountInAccount \/ IRecallNFAmount
        \/ IDropAuthZoneSignatureProofs \/ IAzProofOfAmount \/ IAzProofOfNF \/ IAzProofOfAll
        \/ IAssertAny
        \/ IAssertNF
        \/ IUpdateNFData
Spec == Init /\ [][Next]_vars

-----------------------------------------------------------------------------
(* Properties *)
Running == status = "run"
Commit == status = "run" /\ status' = "ok"
Fails  == status' = "fail" /\ (status = "run" \/ ntx' = ntx + 1)
AllProofs == {np[i].p : i \in {j \in DOMAIN np : np[j].live}} \cup {az[i] : i \in DOMAIN az}
Refs == {VRef(a, r) : a \in Accts, r \in Res} \cup {WRef(r) : r \in {x \in Res : wt[x].on}}
        \cup {NRef(k) : k \in {j \in DOMAIN nb : nb[j].live}}
ResOfRef(ref) == IF ref.t = "n" THEN nb[ref.k].res ELSE ref.r
Containers == {<<ResOfRef(ref), GetC(Cur, ref)>> : ref \in Refs}

\* ---- C03: every committed transaction conserves resources
Conservation ==
  [][Commit => \A r \in Res :
       /\ VaultSum(vault', r) - VaultSum(pre.vault, r) = minted[r].amt - burned[r].amt
       /\ ~IsF(r) => /\ VaultIds(vault', r) = (VaultIds(pre.vault, r) \cup minted[r].ids) \ burned[r].ids
                     /\ \A a, b \in Accts : a # b => AllIds(vault'[a][r]) \cap AllIds(vault'[b][r]) = {}]_vars
SupplyDelta ==
  [][Commit => \A r \in Res : ResDef[r].track => supply'[r] - pre.supply[r] = minted[r].amt - burned[r].amt]_vars
RevertExact ==      \* a failed transaction changes nothing (a failed mint does not consume the id)
  [][Fails => /\ vault' = pre.vault /\ supply' = pre.supply /\ data' = pre.data /\ ever' = pre.ever /\ ctr' = pre.ctr
              /\ pre' = pre]_vars

\* ---- C04: total supply = sum of all vaults, after every history
SupplyMatches == ~Running => \A r \in Res : ResDef[r].track => supply[r] = VaultSum(vault, r)
InTxSupply == \A r \in Res : ResDef[r].track => supply[r] = Circ(Cur, r)
NonNegative == \A x \in Containers : x[2].liq >= 0 /\ \A n \in DOMAIN x[2].lka : n > 0 /\ x[2].lka[n] > 0
CommittedIsPre == ~Running => pre = ThisLedger

\* ---- C09: nothing vanishes or is duplicated inside a transaction
HeldIds(r) == VaultIds(vault, r) \cup (IF wt[r].on THEN AllIds(wt[r].c) ELSE {})
              \cup UNION {AllIds(nb[k].c) : k \in {j \in DOMAIN nb : nb[j].live /\ nb[j].res = r}}
HeldCount(r) == SetSum([a \in Accts |-> Cardinality(AllIds(vault[a][r]))], Accts)
                + (IF wt[r].on THEN Cardinality(AllIds(wt[r].c)) ELSE 0)
                + SetSum([k \in DOMAIN nb |-> IF nb[k].live /\ nb[k].res = r THEN Cardinality(AllIds(nb[k].c)) ELSE 0], DOMAIN nb)
InTxConservation ==
  \A r \in Res :
    /\ Circ(Cur, r) = VaultSum(pre.vault, r) + minted[r].amt - burned[r].amt
    /\ ~IsF(r) => /\ HeldIds(r) = (VaultIds(pre.vault, r) \cup minted[r].ids) \ burned[r].ids
                  /\ HeldCount(r) = Cardinality(HeldIds(r))                     \* no id in two containers
NoEmptyWorktopBucket == \A r \in Res : IF wt[r].on THEN Total(r, wt[r].c) > 0 ELSE wt[r] = W0
SuccessClean == [][Commit => (\A r \in Res : ~wt[r].on) /\ (\A k \in DOMAIN nb : ~nb[k].live)]_vars
LOp == last'.ins.op
LIn == last'.ins
TakeOps == {"TakeFromWorktop", "TakeNF", "TakeAll"}
TakeExact ==        \* a successful take yields exactly what was asked for, and the worktop loses exactly that
  [][(LOp \in TakeOps /\ last'.ok) =>
       LET r == LIn.r
           got == Total(r, nb'[Len(nb')].c)
       IN /\ Len(nb') = Len(nb) + 1 /\ nb'[Len(nb')].live /\ nb'[Len(nb')].res = r
          /\ WtTotal(Cur, r) - got = (IF wt'[r].on THEN Total(r, wt'[r].c) ELSE 0)
          /\ got <= WtTotal(Cur, r)
          /\ (LOp = "TakeFromWorktop" => got = LIn.n)
          /\ (LOp = "TakeNF" => AllIds(nb'[Len(nb')].c) = LIn.ids)
          /\ (LOp = "TakeAll" => got = WtTotal(Cur, r) /\ ~wt'[r].on)]_vars
TakeShortFails ==   \* asking for more than the worktop holds fails
  [][/\ (LOp = "TakeFromWorktop" /\ LIn.n > WtTotal(Cur, LIn.r) => ~last'.ok)
     /\ (LOp = "TakeNF" /\ ~(LIn.ids \subseteq (IF wt[LIn.r].on THEN AllIds(wt[LIn.r].c) ELSE {})) => ~last'.ok)]_vars
TakeEnoughSucceeds ==   \* without proofs on the worktop bucket, a well-formed take of an available amount succeeds
  [][(LOp = "TakeFromWorktop" /\ LIn.n <= WtTotal(Cur, LIn.r) /\ LIn.n % Unit = 0 /\ ~IsLocked(wt[LIn.r].c)) => last'.ok]_vars
AssertExact ==
  [][/\ (LOp = "AssertContains" => (last'.ok <=> WtTotal(Cur, LIn.r) >= LIn.n))
     /\ (LOp = "AssertAny" => (last'.ok <=> WtTotal(Cur, LIn.r) > 0))
     /\ (LOp = "AssertNF" => (last'.ok <=> LIn.ids \subseteq (IF wt[LIn.r].on THEN AllIds(wt[LIn.r].c) ELSE {})))
     /\ (LOp \in {"AssertContains", "AssertAny", "AssertNF"} /\ last'.ok => UNCHANGED <<vault, wt, nb, np, az>>)]_vars
CallOps == {"Withdraw", "WithdrawNF", "WithdrawNFAmount", "Deposit", "DepositBatch", "Mint", "MintNF", "MintNFWrongType", "MintRuid", "MintSingleRuid", "Burn", "BurnInAccount", "BurnNFInAccount", "BurnNFAmountInAccount", "Recall", "RecallNF", "RecallNFAmount", "ProofOfAmount", "ProofOfNF", "UpdateNFData"}
ResAssertExact ==    \* the V2 assertions pass exactly when the worktop / the bucket / the returned buckets satisfy them, and change nothing
  [][/\ (LOp \in {"AssertResOnly", "AssertResInclude"} =>
           (last'.ok <=> /\ \A r \in DOMAIN LIn.c : COk(r, LIn.c[r], WtTotal(Cur, r), IF wt[r].on THEN AllIds(wt[r].c) ELSE {})
                         /\ (LOp = "AssertResOnly" => {r \in Res : wt[r].on} \subseteq DOMAIN LIn.c)))
     /\ (LOp = "AssertBucket" /\ LIn.k \in DOMAIN nb /\ nb[LIn.k].live =>
           (last'.ok <=> COk(nb[LIn.k].res, LIn.c.b, Total(nb[LIn.k].res, nb[LIn.k].c), AllIds(nb[LIn.k].c))))
     /\ (LOp \in {"AssertResOnly", "AssertResInclude", "AssertBucket"} /\ last'.ok => UNCHANGED <<vault, wt, nb, np, az, nextc>>)
     /\ (LOp \in {"AssertNextCallOnly", "AssertNextCallInclude"} => last'.ok /\ nextc'.on /\ nextc'.c = LIn.c /\ UNCHANGED <<vault, wt, nb, np, az>>)
     /\ (nextc.on /\ status = "run" /\ status' = "run" /\ LOp \in CallOps =>       \* a call that went through satisfied the pending assertion
           /\ ~nextc'.on
           /\ \A r \in DOMAIN nextc.c : COk(r, nextc.c[r], Max0(WtTotal([wt |-> wt'], r) - WtTotal(Cur, r)),
                                               (IF wt'[r].on THEN AllIds(wt'[r].c) ELSE {}) \ (IF wt[r].on THEN AllIds(wt[r].c) ELSE {}))
           /\ (nextc.only => \A r \in Res \ DOMAIN nextc.c : WtTotal([wt |-> wt'], r) <= WtTotal(Cur, r)))]_vars
BucketOps == {"ReturnToWorktop", "Deposit", "Burn", "BucketProofOfAmount", "BucketProofOfNF", "BucketProofOfAll"}
ProofOps  == {"PushToAuthZone", "CloneProof", "DropProof"}
UseAfterConsume ==
  [][/\ (LOp \in BucketOps /\ LIn.k \in DOMAIN nb /\ ~nb[LIn.k].live => ~last'.ok /\ last'.err = "BucketNotFound")
     /\ (LOp \in ProofOps /\ LIn.k \in DOMAIN np /\ ~np[LIn.k].live => ~last'.ok /\ last'.err = "ProofNotFound")
     /\ (LOp \in {"ReturnToWorktop", "Deposit", "Burn"} /\ last'.ok => ~nb'[LIn.k].live)]_vars

\* ---- C10: funds behind a live proof stay where they are
\* number of evidence entries of live proofs (named or in the zone; plain, cloned or composed) on a container
EntriesOf(p) == {<<j, p.ev[j]>> : j \in DOMAIN p.ev}
LiveP == [i \in {j \in DOMAIN np : np[j].live} |-> np[i].p]
CntE(p, ref, n, x) ==   \* entries of proof p on container ref with fungible amount n (n > 0) or containing id x (n = 0)
  Cardinality({e \in EntriesOf(p) : e[2].ref = ref /\ (IF n > 0 THEN IsF(p.res) /\ e[2].amt = n ELSE x \in e[2].ids)})
NEntries(ref, n, x) == SetSum([i \in DOMAIN LiveP |-> CntE(LiveP[i], ref, n, x)], DOMAIN LiveP)
                       + SetSum([i \in DOMAIN az |-> CntE(az[i], ref, n, x)], DOMAIN az)
LocksMatchProofs ==     \* the locks of a container are exactly the evidence entries of the live proofs on it
  \A ref \in Refs :
    LET c == GetC(Cur, ref)
        es == {x[2] : x \in UNION {EntriesOf(p) : p \in AllProofs}}
        fam == {e.amt : e \in {x \in es : x.ref = ref /\ x.ids = {} /\ x.amt > 0}}
    IN /\ DOMAIN c.lka = fam
       /\ \A n \in DOMAIN c.lka : c.lka[n] = NEntries(ref, n, 0)
       /\ DOMAIN c.lki = UNION {e.ids : e \in {x \in es : x.ref = ref}}
       /\ \A x \in DOMAIN c.lki : c.lki[x] = NEntries(ref, 0, x)
RECURSIVE EvSum(_, _)
EvSum(ev, j) == IF j > Len(ev) THEN 0 ELSE LET rest == EvSum(ev, j + 1) IN ev[j].amt + rest
ProofBacked ==          \* what a live proof evidences is locked for it in the containers it names: it cannot leave them
  \A p \in AllProofs :
    /\ \A j \in DOMAIN p.ev : p.ev[j].ref \in Refs /\ ResOfRef(p.ev[j].ref) = p.res
    /\ IF IsF(p.res)
       THEN /\ p.amt > 0 /\ EvSum(p.ev, 1) = p.amt                                  \* the evidence covers the whole claimed amount
            /\ \A j \in DOMAIN p.ev : p.ev[j].amt > 0 /\ p.ev[j].amt <= LkMax(GetC(Cur, p.ev[j].ref))   \* and is inside the locked part
            /\ \A j, k \in DOMAIN p.ev : j # k => p.ev[j].ref # p.ev[k].ref
            /\ Len(p.ev) <= MaxEv
       ELSE /\ p.ids # {} /\ UNION {p.ev[j].ids : j \in DOMAIN p.ev} = p.ids
            /\ \A j \in DOMAIN p.ev : p.ev[j].ids \subseteq LkIds(GetC(Cur, p.ev[j].ref))
UnlockedIsLiquid == \A x \in Containers : ~IsLocked(x[2]) => Total(x[1], x[2]) = (IF IsF(x[1]) THEN x[2].liq ELSE Unit * Cardinality(x[2].ids))
NoLocksOutsideTx == ~Running => \A a \in Accts, r \in Res : ~IsLocked(vault[a][r])
LockOps == {"AzProofOfAmount", "AzProofOfNF", "AzProofOfAll", "DropAuthZoneSignatureProofs", "ProofOfAmount", "ProofOfNF", "BucketProofOfAmount", "BucketProofOfNF", "BucketProofOfAll", "PopFromAuthZone",
            "PushToAuthZone", "CloneProof", "DropProof", "DropAllProofs", "DropNamedProofs", "DropAuthZoneProofs", "DropAuthZoneRegularProofs"}
TotalUnchangedByLocks ==    \* creating, cloning and dropping proofs moves funds between liquid and locked only
  [][(LOp \in LockOps /\ last'.ok) =>
       /\ \A a \in Accts, r \in Res : Total(r, vault'[a][r]) = Total(r, vault[a][r]) /\ AllIds(vault'[a][r]) = AllIds(vault[a][r])
       /\ \A r \in Res : wt'[r].on = wt[r].on /\ Total(r, wt'[r].c) = Total(r, wt[r].c)
       /\ \A k \in DOMAIN nb : nb'[k].live = nb[k].live /\ (nb[k].live => Total(nb[k].res, nb'[k].c) = Total(nb[k].res, nb[k].c))]_vars
LeaveOps == {"Withdraw", "BurnInAccount", "Recall"}
LeaveNFOps == {"WithdrawNF", "BurnNFInAccount", "RecallNF"}
LeaveNFAmtOps == {"WithdrawNFAmount", "BurnNFAmountInAccount", "RecallNFAmount"}
OnlyLiquidLeaves ==     \* what leaves a vault comes out of its liquid part; the locks stay
  [][/\ (LOp \in LeaveOps /\ last'.ok) =>
          /\ LIn.n <= vault[LIn.a][LIn.r].liq
          /\ vault'[LIn.a][LIn.r] = [vault[LIn.a][LIn.r] EXCEPT !.liq = @ - LIn.n]
     /\ (LOp \in LeaveNFOps /\ last'.ok) =>
          /\ LIn.ids \subseteq vault[LIn.a][LIn.r].ids
          /\ vault'[LIn.a][LIn.r] = [vault[LIn.a][LIn.r] EXCEPT !.ids = @ \ LIn.ids]
     /\ (LOp \in LeaveNFAmtOps /\ last'.ok) =>          \* by amount: only liquid ids leave, the locked ones stay
          /\ LIn.n <= Unit * Cardinality(vault[LIn.a][LIn.r].ids)
          /\ vault'[LIn.a][LIn.r].lki = vault[LIn.a][LIn.r].lki /\ vault'[LIn.a][LIn.r].ids \subseteq vault[LIn.a][LIn.r].ids
          /\ Unit * Cardinality(vault[LIn.a][LIn.r].ids \ vault'[LIn.a][LIn.r].ids) = LIn.n
     /\ (LOp \in LeaveOps /\ LIn.n > vault[LIn.a][LIn.r].liq) => ~last'.ok
     /\ (LOp \in LeaveNFOps /\ ~(LIn.ids \subseteq vault[LIn.a][LIn.r].ids)) => ~last'.ok]_vars
DivisibilityState == \A x \in Containers : IsF(x[1]) => x[2].liq % Unit = 0 /\ \A n \in DOMAIN x[2].lka : n % Unit = 0
AmountOps == {"Withdraw", "Mint", "BurnInAccount", "Recall", "ProofOfAmount", "BucketProofOfAmount", "TakeFromWorktop", "AzProofOfAmount"}
DivisibilityArgs == [][(LOp \in AmountOps /\ last'.ok) => LIn.n % Unit = 0]_vars

\* ---- C43: non-fungible ids are never reused; data changes are restricted
Live(r) == DOMAIN data[r]
LiveSubsetEver == \A r \in NRes : Live(r) \subseteq ever[r] /\ ever[r] \subseteq ResDef[r].uni
HeldIdsAreLive == \A r \in NRes : HeldIds(r) = Live(r)
EverMonotone == [][\A r \in NRes : pre.ever[r] \subseteq pre'.ever[r] /\ pre.ctr[r] <= pre'.ctr[r]]_vars
MintedOnce == \A r \in NRes : \A x \in ResDef[r].uni : mintCount[r][x] <= 1 /\ (mintCount[r][x] = 1 <=> x \in pre.ever[r])
MintFresh == [][(LOp \in {"MintNF", "MintRuid", "MintSingleRuid"} /\ last'.ok) =>
                  /\ minted'[LIn.r].ids \ minted[LIn.r].ids = ever'[LIn.r] \ ever[LIn.r]
                  /\ (LOp = "MintNF" => LIn.ids \cap ever[LIn.r] = {} /\ ever'[LIn.r] = ever[LIn.r] \cup LIn.ids)]_vars
DataChangeRestricted ==
  [][status' # "fail" =>
       \A r \in NRes : \A x \in Live(r) \cap DOMAIN data'[r] :
          data'[r][x] # data[r][x] =>
             /\ LOp = "UpdateNFData" /\ LIn.r = r /\ LIn.k = x /\ LIn.f \in MutableFields
             /\ \A f \in Fields \ {LIn.f} : data'[r][x][f] = data[r][x][f]]_vars
UpdateOnlyLive == [][(LOp = "UpdateNFData" /\ last'.ok) => LIn.k \in Live(LIn.r) /\ LIn.f \in MutableFields]_vars

TypeOK ==
  /\ status \in {"init", "run", "ok", "fail"}
  /\ Len(nb) <= MaxBuckets /\ Len(np) <= MaxProofs /\ Len(az) <= MaxAz
  /\ nins <= MaxInstr /\ ntx <= MaxTx
=============================================================================

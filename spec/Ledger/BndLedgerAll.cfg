SPECIFICATION BSpec
CONSTANTS
  Accts <- A2
  ResDef <- ResFNU
  Unit = 2
  AmtArgs = {0, 1, 2, 3, 4, 5, 6}
  IdArgs <- IdsAll
  Ops <- OpsAll
  MaxBuckets = 3
  MaxProofs = 5
  MaxAz = 3
  MaxInstr = 30
  MaxTx = 8
  SupplyCap = 12
  DataVals = {7, 8}
  ConsArgs <- ConsFN
  ConArgs <- ConBoth
  InitLedgers <- InitFNU
  FailOdds = 4
  EndOdds = 3
  Weights <- WAll
  Scripts <- ScAll
INVARIANT BEmit
CHECK_DEADLOCK FALSE

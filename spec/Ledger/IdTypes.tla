------------------------------- MODULE IdTypes -------------------------------
(* C43, id types: "every minted id has the resource's id type" for EVERY way an id can enter a non-fungible resource:
   creation with initial supply (explicit ids), creation of a RUID resource with initial supply (generated ids),
   mint with explicit ids, mint of generated ids.  Written after non_fungible_resource_manager.rs:
     create_with_initial_supply: declared RUID -> NonFungibleLocalIdProvidedForRUIDType; otherwise every entry's id must have the
                                 declared type, the first other one -> NonFungibleIdTypeDoesNotMatch (nothing is created)
     create_ruid_with_initial_supply: ids are generated, always RUID
     mint: RUID resource -> InvalidNonFungibleIdType; the first id of another type -> NonFungibleIdTypeDoesNotMatch
     mint_ruid: non-RUID resource -> InvalidNonFungibleIdType
   The full product (declared type) x (kinds of the supplied ids, sequences of length 0..2 over all four kinds) is enumerated,
   for creation and for a mint after every successful creation.                                                          *)
EXTENDS Integers, Sequences, FiniteSets, TLC, Json
Kinds == {"Integer", "String", "Bytes", "RUID"}
Entries == {<<>>} \cup {<<a>> : a \in Kinds} \cup {<<a, b>> : a, b \in Kinds}
VARIABLES declared,   \* id type of the resource, "" before creation
          stored,     \* set of <<kind, index>> of the ids stored under the resource
          step,       \* 0 nothing yet, 1 created (or creation refused), 2 mint attempted
          hist
vars == <<declared, stored, step, hist>>

FirstBad(d, es) == LET bad == {i \in DOMAIN es : es[i] # d} IN IF bad = {} THEN 0 ELSE CHOOSE i \in bad : \A j \in bad : i <= j
Ids(es, base) == {<<es[i], base + i>> : i \in DOMAIN es}
Rec(op, d, es, n, ok, err) == [op |-> op, d |-> d, es |-> es, n |-> n, ok |-> ok, err |-> err, stored |-> stored']

Init == declared = "" /\ stored = {} /\ step = 0 /\ hist = <<>>
Create(d, es) ==
  /\ step = 0 /\ step' = 1
  /\ IF d = "RUID" THEN /\ UNCHANGED <<declared, stored>> /\ hist' = Append(hist, Rec("create", d, es, 0, FALSE, "NonFungibleLocalIdProvidedForRUIDType"))
     ELSE IF FirstBad(d, es) # 0 THEN /\ UNCHANGED <<declared, stored>> /\ hist' = Append(hist, Rec("create", d, es, 0, FALSE, "NonFungibleIdTypeDoesNotMatch"))
     ELSE /\ declared' = d /\ stored' = Ids(es, 0) /\ hist' = Append(hist, Rec("create", d, es, 0, TRUE, ""))
CreateRuid(n) ==
  /\ step = 0 /\ step' = 1 /\ declared' = "RUID" /\ stored' = {<<"RUID", i>> : i \in 1..n}
  /\ hist' = Append(hist, Rec("create_ruid", "RUID", <<>>, n, TRUE, ""))
Mint(es) ==
  /\ step = 1 /\ declared # "" /\ step' = 2 /\ UNCHANGED declared
  /\ IF declared = "RUID" THEN /\ UNCHANGED stored /\ hist' = Append(hist, Rec("mint", declared, es, 0, FALSE, "InvalidNonFungibleIdType"))
     ELSE IF FirstBad(declared, es) # 0 THEN /\ UNCHANGED stored /\ hist' = Append(hist, Rec("mint", declared, es, 0, FALSE, "NonFungibleIdTypeDoesNotMatch"))
     ELSE /\ stored' = stored \cup Ids(es, 10) /\ hist' = Append(hist, Rec("mint", declared, es, 0, TRUE, ""))
MintRuid(n) ==
  /\ step = 1 /\ declared # "" /\ step' = 2 /\ UNCHANGED declared
  /\ IF declared # "RUID" THEN /\ UNCHANGED stored /\ hist' = Append(hist, Rec("mint_ruid", declared, <<>>, n, FALSE, "InvalidNonFungibleIdType"))
     ELSE /\ stored' = stored \cup {<<"RUID", 10 + i>> : i \in 1..n} /\ hist' = Append(hist, Rec("mint_ruid", declared, <<>>, n, TRUE, ""))
Next == \/ \E d \in Kinds, es \in Entries : Create(d, es)
        \/ \E n \in 0..2 : CreateRuid(n)
        \/ \E es \in Entries \ {<<>>} : Mint(es)
        \/ \E n \in 1..2 : MintRuid(n)
Spec == Init /\ [][Next]_vars

\* every id stored under a resource has the resource's id type
TypeSafe == \A x \in stored : x[1] = declared
\* a supplied id of another type is always refused and nothing changes
Refused == [][\A i \in DOMAIN hist' \ DOMAIN hist :
                LET h == hist'[i] IN (h.op \in {"create", "mint"} /\ \E j \in DOMAIN h.es : h.es[j] # h.d) => ~h.ok /\ stored' = stored]_vars
\* ids of the right type are accepted by a resource with explicit ids
Accepted == [][\A i \in DOMAIN hist' \ DOMAIN hist :
                 LET h == hist'[i] IN (h.op \in {"create", "mint"} /\ h.d # "RUID" /\ \A j \in DOMAIN h.es : h.es[j] = h.d) => h.ok]_vars
Terminal == step = 2 \/ (step = 1 /\ declared = "")
Emit == Terminal => PrintT(<<"B", ToJson(hist)>>)
=============================================================================

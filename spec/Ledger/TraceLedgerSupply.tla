--------------------------- MODULE TraceLedgerSupply ---------------------------
(* C03 / C04, implementation -> specification, on histories the model did not choose.

   The harness (vh_ledger snap ...) scans the WHOLE database after every committed transaction and
   logs, per transaction, the resource events of the receipt (vault deposit / withdraw / recall /
   pay-fee, resource mint / burn) and every vault / total supply that differs from the previous
   scan; periodically the whole scan.  All amounts are attos as big integers (BigInt.tla).

   Checked after EVERY transaction:
     C04  every tracked total supply = sum of the balances of all vaults of the resource;
          no balance is negative; a non-fungible vault's amount = number of ids it holds;
          replaying the events reproduces exactly the stored balances, id sets and supplies
          (balance' = balance + deposits - withdrawals - recalls - fees paid; supply' = supply + minted - burned).
     C03  (no free credit) for every resource: change of the sum of all vault balances = minted - burned,
          XRD included: its burn events contain the burnt share of the fees, its mint events the emissions.
   At every full scan additionally: the vault set, every balance and id set are the tracked ones,
   the sums are recomputed from scratch, and no id is held by two vaults.                          *)
EXTENDS BigInt, TraceIO

VARIABLES l,
          bal,     \* [vault -> BigInt]  amount field of every vault
          vids,    \* [vault -> set of ids]
          vres,    \* [vault -> resource]
          vkind,   \* [vault -> 0 fungible | 1 non-fungible]
          sup,     \* [tracked resource -> BigInt]
          rsum     \* [resource -> BigInt] sum of the vault amounts
tvars == <<l, bal, vids, vres, vkind, sup, rsum>>

E18 == Pow10(18)
Count(n) == Mul(FromInt(n), E18)
SeqSet(s) == {s[i] : i \in DOMAIN s}
Get(f, k) == IF k \in DOMAIN f THEN f[k] ELSE Zero
GetSet(f, k) == IF k \in DOMAIN f THEN f[k] ELSE {}

RECURSIVE SumAmt(_, _, _, _)      \* sum of sign * rows[i][amtPos] over rows i >= from with rows[i][1] = key; sign at signPos (0: +1)
SumAmt(rows, key, pos, i) ==
  IF i > Len(rows) THEN Zero
  ELSE LET rest == SumAmt(rows, key, pos, i + 1)
       IN IF rows[i][1] # key THEN rest
          ELSE IF pos.s = 0 THEN Add(rest, rows[i][pos.a])
          ELSE IF rows[i][pos.s] > 0 THEN Add(rest, rows[i][pos.a]) ELSE Sub(rest, rows[i][pos.a])
RECURSIVE SumLen(_, _, _)         \* sum of Len(rows[i][2]) over rows with rows[i][1] = key
SumLen(rows, key, i) == IF i > Len(rows) THEN 0
                        ELSE LET rest == SumLen(rows, key, i + 1) IN IF rows[i][1] = key THEN rest + Len(rows[i][2]) ELSE rest
IdsOf(rows, v, sign) == UNION {SeqSet(rows[i][3]) : i \in {j \in DOMAIN rows : rows[j][1] = v /\ rows[j][2] = sign}}
RowOf(rows, v) == rows[CHOOSE i \in DOMAIN rows : rows[i][1] = v]
Keys(rows) == {rows[i][1] : i \in DOMAIN rows}

RECURSIVE SumRes(_, _, _)         \* sum of the amounts of the vault rows of resource r
SumRes(rows, r, i) == IF i > Len(rows) THEN Zero
                      ELSE LET rest == SumRes(rows, r, i + 1) IN IF rows[i][2] = r THEN Add(rest, rows[i][4]) ELSE rest
RECURSIVE CountRes(_, _, _)
CountRes(rows, r, i) == IF i > Len(rows) THEN 0
                        ELSE LET rest == CountRes(rows, r, i + 1) IN IF rows[i][2] = r THEN rest + Len(rows[i][5]) ELSE rest

\* a vault row [v, r, kind, amt, ids] is well-formed
RowOk(row) == /\ IsBig(row[4]) /\ row[4].s >= 0
              /\ (row[3] = 1 => row[4] = Count(Len(row[5])) /\ Cardinality(SeqSet(row[5])) = Len(row[5]))
              /\ (row[3] = 0 => row[5] = <<>>)

\* the whole scan agrees with the tracked state, and the invariants hold when recomputed from scratch
FullOk(f, b, vi, vr, s, rs) ==
  LET rows == f.vaults
      res == {rows[i][2] : i \in DOMAIN rows}
  IN /\ Keys(rows) = DOMAIN b /\ Cardinality(Keys(rows)) = Len(rows)
     /\ \A i \in DOMAIN rows : /\ RowOk(rows[i]) /\ b[rows[i][1]] = rows[i][4] /\ vi[rows[i][1]] = SeqSet(rows[i][5])
                               /\ vr[rows[i][1]] = rows[i][2]
     /\ \A r \in res : Get(rs, r) = SumRes(rows, r, 1)
     /\ \A r \in DOMAIN rs \ res : rs[r] = Zero
     /\ Keys(f.sup) = DOMAIN s
     /\ \A i \in DOMAIN f.sup : s[f.sup[i][1]] = f.sup[i][2] /\ f.sup[i][2] = Get(rs, f.sup[i][1])      \* C04
     /\ \A r \in res : CountRes(rows, r, 1) = Cardinality(UNION {SeqSet(rows[i][5]) : i \in {j \in DOMAIN rows : rows[j][2] = r}})

TInit == l = 1 /\ bal = <<>> /\ vids = <<>> /\ vres = <<>> /\ vkind = <<>> /\ sup = <<>> /\ rsum = <<>>

TReset ==
  /\ l <= Len(Rec) /\ Rec[l].a = "reset"
  /\ LET rows == Rec[l].vaults
         res == {rows[i][2] : i \in DOMAIN rows}
     IN /\ bal' = [v \in Keys(rows) |-> RowOf(rows, v)[4]]
        /\ vids' = [v \in Keys(rows) |-> SeqSet(RowOf(rows, v)[5])]
        /\ vres' = [v \in Keys(rows) |-> RowOf(rows, v)[2]]
        /\ vkind' = [v \in Keys(rows) |-> RowOf(rows, v)[3]]
        /\ sup' = [r \in Keys(Rec[l].sup) |-> RowOf(Rec[l].sup, r)[2]]
        /\ rsum' = [r \in res |-> SumRes(rows, r, 1)]
  /\ FullOk([vaults |-> Rec[l].vaults, sup |-> Rec[l].sup], bal', vids', vres', sup', rsum')
  /\ l' = l + 1

\* other events of the recording (checker verdict, end marker) carry no state
TSkip == /\ l <= Len(Rec) /\ Rec[l].a \in {"checker", "end"}
         /\ (Rec[l].a = "checker" => Rec[l].ok)
         /\ l' = l + 1 /\ UNCHANGED <<bal, vids, vres, vkind, sup, rsum>>

AmtPos == [s |-> 2, a |-> 3]     \* vault event rows [v, sign, amt]
ResPos == [s |-> 0, a |-> 2]     \* mint / burn rows [r, amt]
Minted(ev, r) == Add(SumAmt(ev.mint, r, ResPos, 1), Count(SumLen(ev.minti, r, 1)))
Burned(ev, r) == Add(SumAmt(ev.burn, r, ResPos, 1), Count(SumLen(ev.burni, r, 1)))

TTx ==
  /\ l <= Len(Rec) /\ Rec[l].a = "tx"
  /\ LET ev == Rec[l]
         chg == ev.chg
         cv == Keys(chg)
         touched == {chg[i][2] : i \in DOMAIN chg} \cup Keys(ev.mint) \cup Keys(ev.burn) \cup Keys(ev.minti) \cup Keys(ev.burni)
                    \cup Keys(ev.sup)
         delta(r) == LET rows == SelectSeq(chg, LAMBDA row : row[2] = r)
                         news == SumRes(rows, r, 1)
                         olds == SumAmt([i \in DOMAIN rows |-> <<0, Get(bal, rows[i][1])>>], 0, ResPos, 1)
                     IN Sub(news, olds)
     IN /\ Cardinality(cv) = Len(chg) /\ ev.gone = <<>>
        /\ Keys(ev.fv) \cup Keys(ev.nv) \subseteq cv                                 \* every vault with an event is listed
        /\ bal' = [v \in DOMAIN bal \cup cv |-> IF v \in cv THEN RowOf(chg, v)[4] ELSE bal[v]]
        /\ vids' = [v \in DOMAIN bal \cup cv |-> IF v \in cv THEN SeqSet(RowOf(chg, v)[5]) ELSE vids[v]]
        /\ vres' = [v \in DOMAIN bal \cup cv |-> IF v \in cv THEN RowOf(chg, v)[2] ELSE vres[v]]
        /\ vkind' = [v \in DOMAIN bal \cup cv |-> IF v \in cv THEN RowOf(chg, v)[3] ELSE vkind[v]]
        /\ rsum' = [r \in DOMAIN rsum \cup touched |-> IF r \in touched THEN Add(Get(rsum, r), delta(r)) ELSE rsum[r]]
        /\ sup' = [r \in DOMAIN sup \cup Keys(ev.sup) |-> IF r \in Keys(ev.sup) THEN RowOf(ev.sup, r)[2] ELSE sup[r]]
        \* ---- C04: shape, and replay of the vault events
        /\ \A i \in DOMAIN chg :
             LET row == chg[i]
                 v == row[1]
             IN /\ RowOk(row)
                /\ (v \in DOMAIN bal => vres[v] = row[2] /\ vkind[v] = row[3])
                /\ IF row[3] = 0
                   THEN row[4] = Add(Get(bal, v), SumAmt(ev.fv, v, AmtPos, 1))
                   ELSE LET dep == IdsOf(ev.nv, v, 1)
                            wd == IdsOf(ev.nv, v, -1)
                        IN /\ wd \subseteq GetSet(vids, v) \cup dep
                           /\ SeqSet(row[5]) = (GetSet(vids, v) \cup dep) \ (wd \ (dep \cap GetSet(vids, v)))
        \* ---- C04: replay of mint / burn events reproduces the supply; supply = sum of vaults
        /\ \A r \in Keys(ev.sup) : sup'[r] = Sub(Add(Get(sup, r), Minted(ev, r)), Burned(ev, r))
        /\ \A r \in touched \cap DOMAIN sup' : r \in Keys(ev.sup) /\ sup'[r] = rsum'[r]
        \* ---- C03: conservation per transaction and resource
        /\ ev.free \/ \A r \in touched : Sub(rsum'[r], Get(rsum, r)) = Sub(Minted(ev, r), Burned(ev, r))
        /\ ~ev.full.has \/ FullOk(ev.full, bal', vids', vres', sup', rsum')
  /\ l' = l + 1

TNext == TReset \/ TTx \/ TSkip
TSpec == TInit /\ [][TNext]_tvars
=============================================================================

SPECIFICATION GSpec
CONSTANTS
  Accts <- A1
  ResDef <- ResF
  Unit = 2
  AmtArgs = {2}
  IdArgs <- IdsNone
  Ops <- OpsBucketProofs
  MaxBuckets = 1
  MaxProofs = 2
  MaxAz = 1
  MaxInstr = 5
  MaxTx = 1
  SupplyCap = 8
  DataVals = {7}
  ConsArgs <- ConsNone
  ConArgs <- ConsNone
  InitLedgers <- InitFa
  FailOdds = 4
  EndOdds = 3
  Weights <- WProofs
  Scripts <- NoScripts
INVARIANT Emit
CHECK_DEADLOCK FALSE

SPECIFICATION SSpec
CONSTANTS
  Accts <- A2
  ResDef <- ResH
  Unit = 2
  AmtArgs = {0, 2, 4, 6}
  IdArgs <- IdsNone
  Ops <- OpsAll
  MaxBuckets = 3
  MaxProofs = 4
  MaxAz = 3
  MaxInstr = 10
  MaxTx = 1
  SupplyCap = 10
  DataVals = {7, 8}
  ConsArgs <- ConsNone
  ConArgs <- ConsNone
  InitLedgers <- InitH
  FailOdds = 6
  EndOdds = 5
  Weights <- WProofs
  Scripts <- NoScripts
INVARIANT Emit
CHECK_DEADLOCK FALSE

SPECIFICATION SSpec
CONSTANTS
  Accts <- A2
  ResDef <- ResFN
  Unit = 2
  AmtArgs = {0, 2, 3, 4}
  IdArgs <- Ids1
  Ops <- OpsAll
  MaxBuckets = 2
  MaxProofs = 2
  MaxAz = 2
  MaxInstr = 4
  MaxTx = 4
  SupplyCap = 10
  DataVals = {7, 8}
  ConsArgs <- ConsNone
  ConArgs <- ConsNone
  InitLedgers <- InitFN
  FailOdds = 6
  EndOdds = 2
  Weights <- WAll
  Scripts <- NoScripts
INVARIANT Emit
CHECK_DEADLOCK FALSE

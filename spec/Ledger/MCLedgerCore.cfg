SPECIFICATION Spec
CONSTANTS
  Accts <- A2
  ResDef <- ResF
  Unit = 2
  AmtArgs = {0, 2, 3, 4, 6}
  IdArgs <- IdsNone
  Ops <- OpsCore
  MaxBuckets = 2
  MaxProofs = 0
  MaxAz = 0
  MaxInstr = 5
  MaxTx = 1
  SupplyCap = 8
  DataVals = {7}
  ConsArgs <- ConsSmallF
  ConArgs <- ConSmallF
  InitLedgers <- InitCore
VIEW View
INVARIANTS TypeOK SupplyMatches InTxSupply NonNegative CommittedIsPre InTxConservation NoEmptyWorktopBucket
  LocksMatchProofs ProofBacked UnlockedIsLiquid NoLocksOutsideTx DivisibilityState LiveSubsetEver HeldIdsAreLive MintedOnce
PROPERTIES Conservation SupplyDelta RevertExact SuccessClean TakeExact TakeShortFails TakeEnoughSucceeds AssertExact ResAssertExact
  UseAfterConsume TotalUnchangedByLocks OnlyLiquidLeaves DivisibilityArgs EverMonotone MintFresh DataChangeRestricted UpdateOnlyLive
CHECK_DEADLOCK FALSE

SPECIFICATION Spec
CONSTANTS
  MaxYear = 2400
  TextEvery = 7
VIEW View
INVARIANTS IsValid InRange Anchors TextRoundTrip NewRejects
PROPERTIES StepAgrees Midnight OrderAgrees
POSTCONDITION Bijection
CHECK_DEADLOCK FALSE

------------------------------ MODULE Calendar ------------------------------
(* C29.  Reference definition of the proleptic Gregorian calendar <-> Unix timestamp
   conversion of radix-common/src/time/{utc_date_time,instant}.rs and the relational
   post-conditions of the public operations.

   NUMBER REPRESENTATION.  Years go up to u32::MAX and timestamps up to ~1.4*10^17, both
   beyond TLC's 32-bit integers (even the *day* number of year u32::MAX, ~1.6*10^12, is).
   Rather than splitting into days+seconds (which still does not fit) the module is written
   against an abstract number signature (I, Plus, Minus, Times, LE, DivS, ModS):
   MCCalendar instantiates it with TLC integers (years 1..2400, exhaustive, day level),
   TraceCalendar with BigInt (full scale).  One definition, two number systems.
   Month, day, hour, minute, second are always plain TLC integers.
   A date-time is a record [y |-> number, mo, d, h, mi, s |-> TLC integers].            *)
EXTENDS Integers, Sequences
CONSTANTS I(_),            \* embedding of a TLC integer
          Plus(_, _), Minus(_, _), Times(_, _),
          LE(_, _),        \* <=
          DivS(_, _),      \* floor(a / d) for a >= 0 and a small TLC integer d >= 1
          ModS(_, _),      \* a mod d as a TLC integer, same domain
          MaxYear          \* largest supported year (a number); u32::MAX in the code

LT(a, b) == LE(a, b) /\ a # b

Leap(y) == ModS(y, 4) = 0 /\ (ModS(y, 100) # 0 \/ ModS(y, 400) = 0)
DaysInMonth(y, mo) == IF mo \in {4, 6, 9, 11} THEN 30
                      ELSE IF mo = 2 THEN (IF Leap(y) THEN 29 ELSE 28)
                      ELSE 31

ValidFields(y, mo, d, h, mi, s) ==
  /\ LE(I(1), y) /\ LE(y, MaxYear)
  /\ mo \in 1..12
  /\ d >= 1 /\ d <= DaysInMonth(y, mo)
  /\ h \in 0..23 /\ mi \in 0..59 /\ s \in 0..59
ValidDateTime(dt) == ValidFields(dt.y, dt.mo, dt.d, dt.h, dt.mi, dt.s)

\* days before the first of month mo in year y (TLC integer)
RECURSIVE DaysBeforeMonth(_, _)
DaysBeforeMonth(y, mo) == IF mo = 1 THEN 0
                          ELSE LET p == DaysBeforeMonth(y, mo - 1) IN p + DaysInMonth(y, mo - 1)

\* days since 0001-01-01 (day 0): 365 per completed year plus one per completed leap year
DaysFromCivil(y, mo, d) ==
  LET y1 == Minus(y, I(1))
      leaps == Plus(Minus(DivS(y1, 4), DivS(y1, 100)), DivS(y1, 400))
  IN Plus(Plus(Times(I(365), y1), leaps), I(DaysBeforeMonth(y, mo) + d - 1))

EpochDay == I(719162)                       \* DaysFromCivil(1970, 1, 1); checked by MCCalendar
SecondOfDay(dt) == dt.h * 3600 + dt.mi * 60 + dt.s
ToInstant(dt) == Plus(Times(Minus(DaysFromCivil(dt.y, dt.mo, dt.d), EpochDay), I(86400)),
                      I(SecondOfDay(dt)))

MinTs == ToInstant([y |-> I(1), mo |-> 1, d |-> 1, h |-> 0, mi |-> 0, s |-> 0])
MaxTs == ToInstant([y |-> MaxYear, mo |-> 12, d |-> 31, h |-> 23, mi |-> 59, s |-> 59])
Supported(t) == LE(MinTs, t) /\ LE(t, MaxTs)

\* the type's order: lexicographic on (year, month, day, hour, minute, second)
RECURSIVE LexInts(_, _, _)
LexInts(a, b, i) == IF i > Len(a) THEN 0
                    ELSE IF a[i] < b[i] THEN -1
                    ELSE IF a[i] > b[i] THEN 1
                    ELSE LexInts(a, b, i + 1)
LexCmp(a, b) == IF a.y # b.y THEN (IF LE(a.y, b.y) THEN -1 ELSE 1)
                ELSE LexInts(<<a.mo, a.d, a.h, a.mi, a.s>>, <<b.mo, b.d, b.h, b.mi, b.s>>, 1)
NumCmp(a, b) == IF a = b THEN 0 ELSE IF LE(a, b) THEN -1 ELSE 1

-----------------------------------------------------------------------------
(* Post-conditions.  `out` is the observed outcome class; "panic" is never allowed.   *)

\* UtcDateTime::new
NewPost(y, mo, d, h, mi, s, out) ==
  /\ out \in {"ok", "err"}
  /\ (out = "ok") = ValidFields(y, mo, d, h, mi, s)

\* UtcDateTime::from_instant: Ok(dt) <=> MIN <= t <= MAX /\ ValidDateTime(dt) /\ ToInstant(dt) = t
FromInstantPost(t, out, dt) ==
  CASE out = "ok"  -> Supported(t) /\ ValidDateTime(dt) /\ ToInstant(dt) = t
    [] out = "err" -> ~Supported(t)
    [] OTHER -> FALSE

\* UtcDateTime::to_instant of a valid date-time (total, no failure)
ToInstantPost(dt, out, t) == out = "ok" /\ ValidDateTime(dt) /\ t = ToInstant(dt)

UnitSeconds(u) == CASE u = "days" -> 86400 [] u = "hours" -> 3600 [] u = "minutes" -> 60 [] u = "seconds" -> 1

\* UtcDateTime::add_{days,hours,minutes,seconds}(n): agrees with timestamp arithmetic, or None
\* exactly when the exact timestamp is not a supported one.
DtAddPost(dt, u, n, out, r) ==
  LET exact == Plus(ToInstant(dt), Times(n, I(UnitSeconds(u))))
  IN CASE out = "some" -> Supported(exact) /\ ValidDateTime(r) /\ ToInstant(r) = exact
       [] out = "none" -> ~Supported(exact)
       [] OTHER -> FALSE

\* Instant::add_*: checked i64 arithmetic (the product n*unit and the sum must both fit 64 bits)
I64Min == Minus(I(0), Times(Times(I(2097152), I(2097152)), I(2097152)))    \* -(2^21)^3
I64Max == Minus(Times(Times(I(2097152), I(2097152)), I(2097152)), I(1))
InI64(x) == LE(I64Min, x) /\ LE(x, I64Max)
InstantAddPost(t, u, n, out, r) ==
  LET prod == Times(n, I(UnitSeconds(u)))
      exact == Plus(t, prod)
  IN CASE out = "some" -> r = exact /\ InI64(prod)
       [] out = "none" -> ~(InI64(prod) /\ InI64(exact))
       [] OTHER -> FALSE

\* strictly increasing: the order of two converted date-times is the order of the timestamps
\* (ord = result of the real Ord::cmp on the two real values)
MonoPost(t1, t2, dt1, dt2, ord) == ord = NumCmp(t1, t2) /\ LexCmp(dt1, dt2) = ord

-----------------------------------------------------------------------------
(* Text form  YYYY-MM-DDThh:mm:ssZ  (code points).                                     *)
Dg(n) == 48 + n
IsDigit(c) == c >= 48 /\ c <= 57
TwoDigits(n) == <<Dg(n \div 10), Dg(n % 10)>>
YearDigits(y) ==       \* for 1 <= y <= 9999
  <<Dg(ModS(DivS(y, 1000), 10)), Dg(ModS(DivS(y, 100), 10)), Dg(ModS(DivS(y, 10), 10)), Dg(ModS(y, 10))>>
FourDigitYear(y) == LE(y, I(9999))
Canon(dt) == YearDigits(dt.y) \o <<45>> \o TwoDigits(dt.mo) \o <<45>> \o TwoDigits(dt.d) \o <<84>>
             \o TwoDigits(dt.h) \o <<58>> \o TwoDigits(dt.mi) \o <<58>> \o TwoDigits(dt.s) \o <<90>>

DigitPos == {1, 2, 3, 4, 6, 7, 9, 10, 12, 13, 15, 16, 18, 19}
CanonShape(cp) == /\ Len(cp) = 20
                  /\ cp[5] = 45 /\ cp[8] = 45 /\ cp[11] = 84 /\ cp[14] = 58 /\ cp[17] = 58 /\ cp[20] = 90
                  /\ \A i \in DigitPos : IsDigit(cp[i])
Num2(cp, i) == (cp[i] - 48) * 10 + (cp[i + 1] - 48)
FieldsOf(cp) == [y |-> I((cp[1] - 48) * 1000 + (cp[2] - 48) * 100 + (cp[3] - 48) * 10 + (cp[4] - 48)),
                 mo |-> Num2(cp, 6), d |-> Num2(cp, 9), h |-> Num2(cp, 12), mi |-> Num2(cp, 15), s |-> Num2(cp, 18)]

\* Display: the documented ISO-8601 form for four-digit years (nothing is required beyond 9999)
PrintPost(dt, out, cp) == out = "ok" /\ (FourDigitYear(dt.y) => cp = Canon(dt))

\* FromStr: never panics; a returned date-time is a valid one; a text in the documented
\* all-digit form denotes exactly its fields (so Parse(Print(dt)) = dt and a documented-form text
\* with impossible fields is an error).  Other texts: date-time or error, as the statement says.
ParsePost(cp, out, dt) ==
  CASE out = "ok"  -> ValidDateTime(dt) /\ (CanonShape(cp) => dt = FieldsOf(cp))
    [] out = "err" -> ~(CanonShape(cp) /\ ValidDateTime(FieldsOf(cp)))
    [] OTHER -> FALSE
=============================================================================

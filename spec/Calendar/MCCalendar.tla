----------------------------- MODULE MCCalendar -----------------------------
(* S for C29: the closed formula DaysFromCivil/ToInstant of Calendar.tla is checked against a
   day-by-day successor definition of the calendar (month lengths and the leap rule only) for
   every day of the years 1..MaxYear (TLC integers).

   Every valid date is a state; the initial states are the first days of all years so that TLC
   works in parallel (a single chain of 876 582 states one after the other is pathological for
   TLC's BFS - measured 120 s - and so is computing 876 582 initial states, which TLC does on
   one thread).  The only action is the calendar successor ("tomorrow").  Checked:
     * StepAgrees: DaysFromCivil(tomorrow) = DaysFromCivil(today) + 1 for every date;
     * Anchors: DaysFromCivil(0001-01-01) = 0, the epoch constant 719162 and known timestamps;
     * InRange + Bijection (VIEW = the ordinal, POSTCONDITION distinct states = number of valid
       dates counted from the month lengths): DaysFromCivil is injective on the valid dates and
       maps them onto 0..N-1.  With StepAgrees this makes the successor orbit of 0001-01-01 run through
       every valid date in increasing ordinal, i.e. the formula IS the day count of the
       successor calendar, ToInstant is strictly increasing in the type's (lexicographic)
       order and from_instant's post-condition determines a unique date;
     * the second-level carry across midnight, the text form and NewPost on the way.        *)
EXTENDS Integers, Sequences, FiniteSets, TLC
CONSTANTS MaxYear, TextEvery    \* the text-form invariant is evaluated on every TextEvery-th date
IntI(n) == n
IntPlus(a, b) == a + b
IntMinus(a, b) == a - b
IntTimes(a, b) == a * b
IntLE(a, b) == a <= b
IntDivS(a, d) == a \div d
IntModS(a, d) == a % d
INSTANCE Calendar WITH I <- IntI, Plus <- IntPlus, Minus <- IntMinus, Times <- IntTimes,
                       LE <- IntLE, DivS <- IntDivS, ModS <- IntModS, MaxYear <- MaxYear

VARIABLES y, mo, d
vars == <<y, mo, d>>

Init == y \in 1..MaxYear /\ mo = 1 /\ d = 1
NextDay   == d < DaysInMonth(y, mo) /\ d' = d + 1 /\ UNCHANGED <<y, mo>>
NextMonth == d = DaysInMonth(y, mo) /\ mo < 12 /\ mo' = mo + 1 /\ d' = 1 /\ UNCHANGED y
NextYear  == d = DaysInMonth(y, mo) /\ mo = 12 /\ y < MaxYear /\ y' = y + 1 /\ mo' = 1 /\ d' = 1
Next == NextDay \/ NextMonth \/ NextYear
Spec == Init /\ [][Next]_vars

N == DaysFromCivil(y, mo, d)
\* varying time of day so that all digits / carries occur
Dt == LET k == N IN [y |-> y, mo |-> mo, d |-> d, h |-> k % 24, mi |-> k % 60, s |-> (7 * k) % 60]
At(hh, mm, ss) == [y |-> y, mo |-> mo, d |-> d, h |-> hh, mi |-> mm, s |-> ss]
AtP(hh, mm, ss) == [y |-> y', mo |-> mo', d |-> d', h |-> hh, mi |-> mm, s |-> ss]

StepAgrees == [][DaysFromCivil(y', mo', d') = DaysFromCivil(y, mo, d) + 1]_vars
IsValid == ValidFields(y, mo, d, 23, 59, 59)
InWindow == y > 1904 /\ y < 2036      \* seconds since the epoch fit TLC integers there
Anchors == /\ (y = 1 /\ mo = 1 /\ d = 1) => N = 0
           /\ (y = 401 /\ mo = 1 /\ d = 1) => N = 146097          \* one 400-year period
           \* month lengths depend on y mod 400 only, so ordinal(y + 400k) = ordinal(y) + 146097k:
           \* the epoch constant is also checked four periods early (for runs with MaxYear < 1970)
           /\ (y = 370 /\ mo = 1 /\ d = 1) => N + 4 * 146097 = 719162
           /\ (y = 1970 /\ mo = 1 /\ d = 1) => (N = 719162 /\ ToInstant(At(0, 0, 0)) = 0)
           /\ (y = 2000 /\ mo = 3 /\ d = 1) => ToInstant(At(0, 0, 0)) = 951868800
           /\ (y = 1968 /\ mo = 2 /\ d = 29) => ToInstant(At(0, 0, 0)) = -58060800
           /\ (y = 2038 /\ mo = 1 /\ d = 19) => ToInstant(At(3, 14, 7)) = 2147483647
Midnight == [][InWindow => ToInstant(At(23, 59, 59)) + 1 = ToInstant(AtP(0, 0, 0))]_vars
OrderAgrees == [][LexCmp(At(23, 59, 59), AtP(0, 0, 0)) = -1 /\ LexCmp(AtP(0, 0, 0), At(0, 0, 0)) = 1]_vars
\* text form: the documented form denotes its own fields (years <= 9999) and is accepted by ParsePost
TextRoundTrip == (y <= 9999 /\ (y + 31 * mo + d) % TextEvery = 0) =>
   LET dt == Dt
       c == Canon(dt)
   IN /\ CanonShape(c) /\ FieldsOf(c) = dt
      /\ ParsePost(c, "ok", dt) /\ ~ParsePost(c, "err", dt)
      /\ PrintPost(dt, "ok", c)
      /\ ~ParsePost(c, "ok", [dt EXCEPT !.s = (dt.s + 1) % 60])
\* Bijection.  The number of valid dates, counted from the month lengths alone:
RECURSIVE DaysUpToYear(_)
DaysUpToYear(yy) == IF yy = 0 THEN 0
                    ELSE LET p == DaysUpToYear(yy - 1) IN p + DaysBeforeMonth(yy, 12) + DaysInMonth(yy, 12)
CountDates == DaysUpToYear(MaxYear)
\* every ordinal lies in 0..CountDates-1 ...
NLast == DaysFromCivil(MaxYear, 12, 31)
InRange == N >= 0 /\ N <= NLast         \* (CountDates is recursive and not cached by TLC: used once, below)
\* ... and the run uses VIEW N (two dates with the same ordinal would be ONE state for TLC), so
\* "number of distinct states = number of valid dates" says that DaysFromCivil is injective on
\* the valid dates, hence a bijection onto 0..CountDates-1.  (POSTCONDITION)
View == N
Bijection == LET c == CountDates
             IN IF TLCGet("stats").distinct = c /\ NLast + 1 = c THEN TRUE
                ELSE Print(<<"NOT-A-BIJECTION", TLCGet("stats").distinct, c, NLast>>, FALSE)
\* invalid field combinations are rejected by NewPost / accepted ones are exactly the valid ones
NewRejects == (d = 1 /\ mo = 1) =>
                \A m \in 0..13, dd \in {0, 1, 28, 29, 30, 31, 32} :
                   NewPost(y, m, dd, 0, 0, 0, "ok") = (m \in 1..12 /\ dd >= 1 /\ dd <= DaysInMonth(y, m))
=============================================================================

---------------------------- MODULE TraceCalendar ----------------------------
(* T for C29: recorded calls of the real UtcDateTime / Instant functions (harness vh_num time
   record) are accepted iff they satisfy the post-conditions of Calendar.tla, instantiated with
   BigInt at full scale (years up to u32::MAX, timestamps over the whole i64 range).          *)
EXTENDS BigInt, TraceIO
MaxYearBig == Sub(Mul(FromInt(65536), FromInt(65536)), One)      \* u32::MAX
INSTANCE Calendar WITH I <- FromInt, Plus <- Add, Minus <- Sub, Times <- Mul, LE <- Leq,
                       DivS <- DivSmall, ModS <- ModSmall, MaxYear <- MaxYearBig
VARIABLE l

SmallOk(dt) == /\ dt.mo \in 0..255 /\ dt.d \in 0..255 /\ dt.h \in 0..255 /\ dt.mi \in 0..255 /\ dt.s \in 0..255
WfDt(dt) == IsBig(dt.y) /\ SmallOk(dt)
WfCp(cp) == \A i \in 1..Len(cp) : cp[i] \in 0..1114111

Ok(ev) ==
  CASE ev.a = "new" -> IsBig(ev.y) /\ NewPost(ev.y, ev.mo, ev.d, ev.h, ev.mi, ev.s, ev.out)
    [] ev.a = "fields" -> WfDt(ev.dt) /\ ev.dt = [y |-> ev.y, mo |-> ev.mo, d |-> ev.d, h |-> ev.h, mi |-> ev.mi, s |-> ev.s]
    [] ev.a = "from_instant" -> IsBig(ev.t) /\ WfDt(ev.dt) /\ FromInstantPost(ev.t, ev.out, ev.dt)
    [] ev.a = "to_instant" -> IsBig(ev.t) /\ WfDt(ev.dt) /\ ToInstantPost(ev.dt, ev.out, ev.t)
    [] ev.a = "dt_add" -> IsBig(ev.n) /\ WfDt(ev.dt) /\ WfDt(ev.r) /\ DtAddPost(ev.dt, ev.u, ev.n, ev.out, ev.r)
    [] ev.a = "inst_add" -> IsBig(ev.n) /\ IsBig(ev.t) /\ IsBig(ev.r) /\ InstantAddPost(ev.t, ev.u, ev.n, ev.out, ev.r)
    [] ev.a = "mono" -> /\ IsBig(ev.t1) /\ IsBig(ev.t2) /\ WfDt(ev.dt1) /\ WfDt(ev.dt2)
                        /\ FromInstantPost(ev.t1, "ok", ev.dt1) /\ FromInstantPost(ev.t2, "ok", ev.dt2)
                        /\ MonoPost(ev.t1, ev.t2, ev.dt1, ev.dt2, ev.ord)
    [] ev.a = "print" -> WfDt(ev.dt) /\ WfCp(ev.cp) /\ PrintPost(ev.dt, ev.out, ev.cp)
    [] ev.a = "parse" -> WfDt(ev.dt) /\ WfCp(ev.cp) /\ ParsePost(ev.cp, ev.out, ev.dt)
    [] OTHER -> FALSE

\* input class of a rejected event (stable part of the violation key)
HasNonAscii(cp) == \E i \in 1..Len(cp) : cp[i] > 127
Class(ev) ==
  CASE ev.a = "parse" -> "UtcDateTime::from_str " \o (IF ev.out = "panic" THEN (IF HasNonAscii(ev.cp) THEN "non-ascii" ELSE "panic")
                                                       ELSE IF CanonShape(ev.cp) THEN "documented form " \o ev.out
                                                       ELSE "other text " \o ev.out)
    [] ev.a = "print" -> "UtcDateTime::to_string " \o ev.out
    [] ev.a = "new" -> "UtcDateTime::new " \o ev.out
    [] ev.a = "fields" -> "UtcDateTime getters"
    [] ev.a = "from_instant" -> "UtcDateTime::from_instant " \o ev.out
    [] ev.a = "to_instant" -> "UtcDateTime::to_instant " \o ev.out
    [] ev.a = "dt_add" -> "UtcDateTime::add_" \o ev.u \o " " \o ev.out
    [] ev.a = "inst_add" -> "Instant::add_" \o ev.u \o " " \o ev.out
    [] ev.a = "mono" -> "from_instant order"
    [] OTHER -> "unknown event"

TInit == l = 1
TNext == /\ l <= Len(Rec)
         /\ (IF Ok(Rec[l]) THEN TRUE ELSE PrintT(<<"BAD", l>>) /\ PrintT(<<"CLASS", l, Class(Rec[l])>>))
         /\ l' = l + 1
TSpec == TInit /\ [][TNext]_l
Post == PrintT(<<"DONE", TLCGet("stats").diameter - 1>>)
=============================================================================

SPECIFICATION TSpec
CONSTANTS
  HL = 20
POSTCONDITION TraceAccepted
CHECK_DEADLOCK FALSE

SPECIFICATION Spec
CONSTANTS
  HL = 2
  Byte = {0, 1}
  MaxLen = 2
  NodeLen = 2
INVARIANTS Laws CallInverts CallStruct
CHECK_DEADLOCK FALSE

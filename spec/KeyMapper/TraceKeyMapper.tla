---------------------------- MODULE TraceKeyMapper ----------------------------
(* impl -> spec for C16: a recording of real SpreadPrefixKeyMapper calls is accepted iff every
   call is an instance of the specification for ONE hash function (reconstructed in the history
   variable hashOf: the same body always gets the same HL hash bytes, and they are the bytes
   the harness computed with an independent blake2b-256), the reverse mapping returns the
   logical key, no two different logical keys of one kind share a database key (history variable
   seen), every pair of consecutive sorted keys obeys the order law, and the keys listed in
   database order (ord = TRUE) are strictly increasing with non-decreasing sort prefixes.   *)
EXTENDS KeyMapper, TraceIO
VARIABLES l, seen, hashOf, prevS
tvars == <<l, seen, hashOf, prevS>>

Learn(body, h) == IF body \in DOMAIN hashOf THEN hashOf ELSE hashOf @@ (body :> h)
Fresh(kind, db, key) == LET id == <<kind, db>> IN id \in DOMAIN seen => seen[id] = key
Remember(kind, db, key) == LET id == <<kind, db>> IN IF id \in DOMAIN seen THEN seen ELSE seen @@ (id :> key)

\* every public entry point for the same logical key (by value, by reference, the per-kind functions) gives the same
\* database key, and every inverse entry point gives back the same logical key
Agree(alts, x) == \A i \in 1..Len(alts) : alts[i] = x

TInit == l = 1 /\ seen = <<>> /\ hashOf = <<>> /\ prevS = <<>>

TNode == LET ev == Rec[l] IN
  /\ ev.k = "node"
  /\ Len(ev.body) = 30 /\ Len(ev.h) = HL
  /\ hashOf' = Learn(ev.body, ev.h)
  /\ ev.db = ToNode(hashOf', ev.body)
  /\ StructOk(<<>>, ev.h, ev.body, ev.db)
  /\ FromNode(ev.db) = ev.back /\ ev.back = ev.body
  /\ Agree(ev.alt, ev.db) /\ Agree(ev.altback, ev.body) /\ Agree(ev.altpn, ev.pn)
  /\ ev.dbpn = ToPartNum(ev.pn) /\ ev.backpn = FromPartNum(ev.dbpn) /\ ev.backpn = ev.pn
  /\ Fresh("node", ev.db, ev.body)
  /\ seen' = Remember("node", ev.db, ev.body)
  /\ UNCHANGED prevS
TField == LET ev == Rec[l] IN
  /\ ev.k = "field"
  /\ ev.db = ToField(ev.f)
  /\ FromField(ev.db) = ev.back /\ ev.back = ev.f
  /\ Agree(ev.alt, ev.db) /\ Agree(ev.altback, ev.f)
  /\ Fresh("field", ev.db, <<ev.f>>)
  /\ seen' = Remember("field", ev.db, <<ev.f>>)
  /\ UNCHANGED <<hashOf, prevS>>
TMap == LET ev == Rec[l] IN
  /\ ev.k = "map"
  /\ Len(ev.h) = HL
  /\ hashOf' = Learn(ev.body, ev.h)
  /\ ev.db = ToMap(hashOf', ev.body)
  /\ StructOk(<<>>, ev.h, ev.body, ev.db)
  /\ FromMap(ev.db) = ev.back /\ ev.back = ev.body
  /\ Agree(ev.alt, ev.db) /\ Agree(ev.altback, ev.body)
  /\ Fresh("map", ev.db, ev.body)
  /\ seen' = Remember("map", ev.db, ev.body)
  /\ UNCHANGED prevS
OrderOk(a, b) ==      \* the law on one pair of recorded sorted keys, both directions
  /\ LexLess(a.p, b.p) => LexLess(a.db, b.db)
  /\ LexLess(b.p, a.p) => LexLess(b.db, a.db)
TSorted == LET ev == Rec[l] IN
  /\ ev.k = "sorted"
  /\ Len(ev.p) = 2 /\ Len(ev.h) = HL
  /\ hashOf' = Learn(ev.body, ev.h)
  /\ ev.db = ToSorted(hashOf', ev.p, ev.body)
  /\ StructOk(ev.p, ev.h, ev.body, ev.db)
  /\ FromSortedP(ev.db) = ev.backp /\ FromSortedK(ev.db) = ev.back
  /\ ev.backp = ev.p /\ ev.back = ev.body
  /\ Agree(ev.alt, ev.db) /\ Agree(ev.altbackp, ev.p) /\ Agree(ev.altback, ev.body)
  /\ Fresh("sorted", ev.db, <<ev.p, ev.body>>)
  /\ seen' = Remember("sorted", ev.db, <<ev.p, ev.body>>)
  /\ prevS # <<>> => OrderOk(prevS[1], ev)
  /\ ev.ord => /\ prevS # <<>>
               /\ LexLess(prevS[1].db, ev.db)          \* database iteration order
               /\ ~LexLess(ev.p, prevS[1].p)            \* ... visits sort prefixes in order
  /\ prevS' = <<[p |-> ev.p, db |-> ev.db]>>
TNext == l <= Len(Rec) /\ l' = l + 1 /\ (TNode \/ TField \/ TMap \/ TSorted)
TSpec == TInit /\ [][TNext]_tvars
=============================================================================

------------------------------ MODULE KeyMapper ------------------------------
(* C16.  SpreadPrefixKeyMapper (radix-substate-store-interface/src/db_key_mapper.rs).

   The mapper turns logical keys into database keys:
     node id  n          ->  H(n) \o n                      (db node key)
     partition number    ->  itself
     field key f         ->  <<f>>                          (db sort key, 1 byte)
     map key k           ->  H(k) \o k
     sorted key (p, k)   ->  p \o H(k) \o k                 (|p| = 2)
   where H(x) = first HL bytes of hash(x) (HL = 20, blake2b-256 in the code).  Nothing below
   depends on WHICH function H is: the hash function is a parameter (a TLA+ function from byte
   sequences to byte sequences of length HL), MCKeyMapper lets TLC enumerate every such function
   over a tiny domain, TraceKeyMapper reconstructs the function from the recorded calls.

   The reverse mappings only strip fixed-length prefixes, as the code does.                *)
EXTENDS Integers, Sequences, FiniteSets
CONSTANT HL                       \* number of hash bytes put in front of a hashed key

Prefixed(H, b)   == H[b] \o b
Unprefixed(d)    == SubSeq(d, HL + 1, Len(d))

ToNode(H, n)      == Prefixed(H, n)
FromNode(d)       == Unprefixed(d)
ToPartNum(pn)     == pn
FromPartNum(d)    == d
ToField(f)        == <<f>>
FromField(d)      == d[1]
ToMap(H, k)       == Prefixed(H, k)
FromMap(d)        == Unprefixed(d)
ToSorted(H, p, k) == p \o Prefixed(H, k)
FromSortedP(d)    == SubSeq(d, 1, 2)
FromSortedK(d)    == Unprefixed(SubSeq(d, 3, Len(d)))

\* byte-wise lexicographic order of database keys (what RocksDB / BTreeMap<Vec<u8>> use)
RECURSIVE LexLessFrom(_, _, _)
LexLessFrom(a, b, i) ==
  IF i > Len(a) THEN i <= Len(b)
  ELSE IF i > Len(b) THEN FALSE
  ELSE IF a[i] < b[i] THEN TRUE
  ELSE IF a[i] > b[i] THEN FALSE
  ELSE LexLessFrom(a, b, i + 1)
LexLess(a, b) == LexLessFrom(a, b, 1)

-----------------------------------------------------------------------------
(* The laws of C16 over given finite sets of logical keys, for a given hash function H.
   Sorteds is a set of pairs <<p, k>>.                                                   *)
RoundTrip(H, Nodes, Fields, Maps, Sorteds) ==
  /\ \A n \in Nodes  : FromNode(ToNode(H, n)) = n
  /\ \A f \in Fields : FromField(ToField(f)) = f
  /\ \A k \in Maps   : FromMap(ToMap(H, k)) = k
  /\ \A s \in Sorteds : LET d == ToSorted(H, s[1], s[2])
                        IN FromSortedP(d) = s[1] /\ FromSortedK(d) = s[2]

Injective(H, Nodes, Fields, Maps, Sorteds) ==
  /\ \A a, b \in Nodes  : ToNode(H, a) = ToNode(H, b) => a = b
  /\ \A a, b \in Fields : ToField(a) = ToField(b) => a = b
  /\ \A a, b \in Maps   : ToMap(H, a) = ToMap(H, b) => a = b
  /\ \A a, b \in Sorteds : ToSorted(H, a[1], a[2]) = ToSorted(H, b[1], b[2]) => a = b

\* sorted substates are ordered in the database first by their 2-byte sort prefix
OrderLaw(H, Sorteds) ==
  \A a, b \in Sorteds :
     LexLess(a[1], b[1]) => LexLess(ToSorted(H, a[1], a[2]), ToSorted(H, b[1], b[2]))

\* structure of one recorded call (used by the trace validation): db key = [p \o] h \o body
StructOk(p, h, body, db) == Len(h) = HL /\ db = p \o h \o body
=============================================================================

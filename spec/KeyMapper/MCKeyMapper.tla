----------------------------- MODULE MCKeyMapper -----------------------------
(* S for C16: TLC enumerates EVERY hash function over a tiny domain (initial states) and every
   mapper call (actions); the laws are invariants.                                          *)
EXTENDS KeyMapper, TLC
CONSTANTS Byte, MaxLen, NodeLen
VARIABLES hsh, last
vars == <<hsh, last>>

Seqs(n)  == [1..n -> Byte]
Bodies   == UNION {Seqs(n) : n \in 0..MaxLen}
Hashes   == Seqs(HL)
Nodes    == Seqs(NodeLen)
Fields   == Byte
Maps     == Bodies
Prefixes == Seqs(2)
Sorteds  == Prefixes \X Bodies

None == [kind |-> "init", p |-> <<>>, k |-> <<>>, db |-> <<>>]
Init == hsh \in [Bodies -> Hashes] /\ last = None

MapNode(n)      == last = None /\ last' = [kind |-> "node",   p |-> <<>>, k |-> n,     db |-> ToNode(hsh, n)]      /\ UNCHANGED hsh
MapField(f)     == last = None /\ last' = [kind |-> "field",  p |-> <<>>, k |-> <<f>>, db |-> ToField(f)]          /\ UNCHANGED hsh
MapMap(k)       == last = None /\ last' = [kind |-> "map",    p |-> <<>>, k |-> k,     db |-> ToMap(hsh, k)]       /\ UNCHANGED hsh
MapSorted(p, k) == last = None /\ last' = [kind |-> "sorted", p |-> p,    k |-> k,     db |-> ToSorted(hsh, p, k)] /\ UNCHANGED hsh
\* one call per behaviour is enough: calls do not change the mapper (it is stateless)
Next == \/ \E n \in Nodes : MapNode(n)
        \/ \E f \in Fields : MapField(f)
        \/ \E k \in Maps : MapMap(k)
        \/ \E p \in Prefixes, k \in Bodies : MapSorted(p, k)
Spec == Init /\ [][Next]_vars

\* the three laws, for the hash function of this behaviour, over the whole key universe
Laws == last.kind = "init" =>
          /\ RoundTrip(hsh, Nodes, Fields, Maps, Sorteds)
          /\ Injective(hsh, Nodes, Fields, Maps, Sorteds)
          /\ OrderLaw(hsh, Sorteds)
\* every individual call inverts
CallInverts ==
  CASE last.kind = "node"   -> FromNode(last.db) = last.k
    [] last.kind = "field"  -> FromField(last.db) = last.k[1]
    [] last.kind = "map"    -> FromMap(last.db) = last.k
    [] last.kind = "sorted" -> FromSortedP(last.db) = last.p /\ FromSortedK(last.db) = last.k
    [] OTHER -> TRUE
\* the db key has the documented structure
CallStruct ==
  CASE last.kind \in {"node", "map"} -> StructOk(<<>>, hsh[last.k], last.k, last.db)
    [] last.kind = "sorted" -> StructOk(last.p, hsh[last.k], last.k, last.db)
    [] last.kind = "field"  -> Len(last.db) = 1
    [] OTHER -> TRUE

\* non-vacuity of the order law: a layout that puts the hash in front of the sort prefix breaks it
BadToSorted(H, p, k) == H[k] \o p \o k
ASSUME \E H \in [Bodies -> Hashes] : \E a, b \in Sorteds :
          LexLess(a[1], b[1]) /\ ~LexLess(BadToSorted(H, a[1], a[2]), BadToSorted(H, b[1], b[2]))
=============================================================================

----------------------------- MODULE GenKeyMapper -----------------------------
(* G' for C16: TLC enumerates the boundary CLASSES of mapper inputs; the harness fills each class
   with seeded random bytes, calls the real SpreadPrefixKeyMapper and records what it returned;
   TraceKeyMapper validates the recording.
     len  : body length class (map / sorted keys)
     rel  : relation to the previous body of the same kind
            fresh | same | prefix (proper prefix of previous) | extend (previous is a proper prefix)
            | hashlike (starts with the HL hash bytes of the previous body)
     fill : rand | zero | ones
     p    : 2-byte sort prefix class                                                         *)
EXTENDS Integers, Sequences, TLC, Json
VARIABLE x
Lens  == {0, 1, 2, 19, 20, 21, 22, 30, 32, 64, 255, 256, 1024}
Rels  == {"fresh", "same", "prefix", "extend", "hashlike"}
Fills == {"rand", "zero", "ones"}
Ps    == {<<0, 0>>, <<0, 1>>, <<0, 255>>, <<1, 0>>, <<1, 255>>, <<127, 255>>, <<128, 0>>, <<255, 0>>, <<255, 254>>, <<254, 255>>, <<2, 1>>, <<1, 2>>, <<255, 255>>}
\* all entity-type bytes of types/entity_type.rs plus bytes that are no entity type (the mapper does not care)
EntityBytes == {13, 134, 131, 130, 192, 193, 194, 195, 196, 197, 198, 104, 209, 210, 81, 82, 93, 88, 154, 152, 248, 176, 0, 255}
PartNums == {0, 1, 63, 64, 127, 128, 255}
Classes ==
       {[kind |-> "node", e |-> e, pn |-> pn, fill |-> f] : e \in EntityBytes, pn \in PartNums, f \in Fills}
  \cup {[kind |-> "field", f |-> f] : f \in 0..255}
  \cup {[kind |-> "map", len |-> n, rel |-> r, fill |-> f] : n \in Lens, r \in Rels, f \in Fills}
  \cup {[kind |-> "sorted", p |-> p, len |-> n, rel |-> r, fill |-> "rand"] : p \in Ps, n \in Lens, r \in Rels}
  \cup {[kind |-> "sorted", p |-> p, len |-> n, rel |-> "fresh", fill |-> f] : p \in Ps, n \in {0, 1, 20}, f \in {"zero", "ones"}}
Init == x = 0 /\ \A c \in Classes : PrintT(<<"B", ToJson(c)>>)
Next == UNCHANGED x
Spec == Init /\ [][Next]_x
=============================================================================

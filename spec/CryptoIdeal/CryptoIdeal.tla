---------------------------- MODULE CryptoIdeal ----------------------------
(* C48 (and the base of C33).  Ideal (Dolev-Yao) model of the signature primitives of
   radix-common/src/crypto/signature_validator.rs.

   Keys are names, messages are any values (C48: names 1..3 and 0 = "a message nobody signed", for
   instance a signed message with one byte changed; C33: hash terms).  Values are symbolic terms that remember
   their provenance:
     public key   [t |-> "pk", k]                honest PK(k)            | [t |-> "junk", ...]
     signature    [t |-> "sig", k, m]            honest Sign(k, m)       | [t |-> "junk", ...]
     aggregate    [t |-> "agg", c |-> <<[k, m], ...>>]   Agg of honest signatures (a bag)
   "junk" is anything obtained from an honest value by changing / dropping / zeroing / swapping
   bytes: in the ideal model it is NOT a signature (a public key) of anybody.
   Verification succeeds only on honest terms that fit together - this is the statement
   "a signature verifies against that message and key, recovery returns the signer, and any change
   to message, signature or key makes verification fail".                                       *)
EXTENDS Integers, Sequences, FiniteSets, TLC

PK(k)      == [t |-> "pk", k |-> k]
JunkPk     == [t |-> "junk", k |-> 0]
Sign(k, m) == [t |-> "sig", k |-> k, m |-> m]
JunkSig    == [t |-> "junk", k |-> 0, m |-> 0]

\* single signatures (secp256k1, Ed25519, BLS12-381 v1)
Verify(pk, m, sig) == pk.t = "pk" /\ sig.t = "sig" /\ sig.k = pk.k /\ sig.m = m
\* secp256k1 recovery: the signer, or 0 = "no key / a key that is nobody's"
Recover(m, sig) == IF sig.t = "sig" /\ sig.m = m THEN sig.k ELSE 0

---------------------------------------------------------------------------
\* BLS aggregates.  An aggregate is the bag of its components (aggregation is commutative).
Range(s) == {s[i] : i \in DOMAIN s}
Count(s, x) == Cardinality({i \in DOMAIN s : s[i] = x})
SameBag(s, u) == Len(s) = Len(u) /\ \A x \in Range(s) \cup Range(u) : Count(s, x) = Count(u, x)
Agg(comps) == [t |-> "agg", c |-> comps]
JunkAgg    == [t |-> "junk", c |-> <<>>]

\* aggregate_verify(<<(pk_i, m_i)>>, sig): every pair (honest key, message) is matched by exactly one
\* component signature of that key over that message, nothing is left over, the list is not empty
AggVerify(pairs, sig) ==
  /\ sig.t = "agg" /\ pairs # <<>>
  /\ \A i \in DOMAIN pairs : pairs[i].pk.t = "pk"
  /\ SameBag([i \in DOMAIN pairs |-> [k |-> pairs[i].pk.k, m |-> pairs[i].m]], sig.c)
\* fast_aggregate_verify(m, <<pk_i>>, sig): the same with one common message
FastAggVerify(m, pks, sig) ==
  AggVerify([i \in DOMAIN pks |-> [pk |-> pks[i], m |-> m]], sig)

\* The statement's wording: "succeeds exactly when every component signature is valid for its
\* message" - there is a one-to-one matching of pairs and components in which every component
\* verifies for its pair.
Perms(n) == {p \in [1..n -> 1..n] : \A i, j \in 1..n : i # j => p[i] # p[j]}
EveryComponentValid(pairs, sig) ==
  /\ sig.t = "agg" /\ pairs # <<>> /\ Len(pairs) = Len(sig.c)
  /\ \E p \in Perms(Len(pairs)) :
        \A i \in DOMAIN pairs : Verify(pairs[i].pk, pairs[i].m, Sign(sig.c[p[i]].k, sig.c[p[i]].m))
=============================================================================

SPECIFICATION Spec
CONSTANTS
  Tier = "quick"
INVARIANTS Laws Emit
CHECK_DEADLOCK FALSE

--------------------------- MODULE GenCryptoIdeal ---------------------------
(* C48: the scenarios.  Every scenario is a state; TLC derives the symbolic terms that the
   scenario hands to the primitive, evaluates the ideal model and prints the scenario with the set
   of allowed outcomes.  The harness instantiates keys 1..3 and messages 1..3 with real keys /
   32-byte messages (seeded), applies the described byte operations to the real encodings, calls
   the real primitive and reports an outcome that is not allowed.

   Single-signature scenario  [op, k, m, vk, vm, mut]
      op   "secp.verify" | "secp.recover" | "ed.verify" | "bls.verify"
      k, m  signer key and signed message;  vk, vm  key and message used for verification
      mut  [target |-> "none" | "msg" | "sig" | "pk", kind |-> "xor" | "trunc" | "extend" | "zero" | "swap",
            region, idx, mask]   (region = named byte range of the encoding, idx = byte inside it)
   Aggregate scenario  [op, pairs |-> <<[k, m]>>, comps |-> <<[k, m]>>, mut]
      op   "bls.agg" (aggregate_verify) | "bls.fast" | "bls.fast_anemone" (fast_aggregate_verify*; the
           common message is vm, the keys are the k of pairs)
      comps  the honest signatures that were aggregated into the signature                      *)
EXTENDS CryptoIdeal, Json
CONSTANT Tier
VARIABLE c

K == 1..3
M == 1..3
NoMut == [target |-> "none", kind |-> "none", region |-> "none", idx |-> 0, mask |-> 0]
Mut(t, kd, r, i, x) == [target |-> t, kind |-> kd, region |-> r, idx |-> i, mask |-> x]

\* byte regions of the real encodings: <<name, length>>
SigRegions(alg) == IF alg = "secp" THEN {<<"v", 1>>, <<"r", 32>>, <<"s", 32>>}
                   ELSE IF alg = "ed" THEN {<<"R", 32>>, <<"S", 32>>}
                   ELSE {<<"head", 1>>, <<"body", 95>>}
PkRegions(alg) == IF alg = "secp" THEN {<<"head", 1>>, <<"x", 32>>}
                  ELSE IF alg = "ed" THEN {<<"y", 31>>, <<"last", 1>>}
                  ELSE {<<"head", 1>>, <<"body", 47>>}
MsgRegions == {<<"m", 32>>}
\* quick: the first two, the middle and the last two bytes of every region (x every mask x every operation) - the bytes
\* in between are the sampled bulk
Positions(len) == IF Tier = "thorough" THEN 0..(len - 1) ELSE {0, 1, len \div 2, len - 2, len - 1} \cap 0..(len - 1)
Masks(len) == IF len = 1 THEN {1, 2, 3, 4, 27, 128, 255}
              ELSE IF Tier = "thorough" THEN {1, 16, 128, 255} ELSE {1, 128, 255}
XorMuts(target, regions) ==
  UNION {{Mut(target, "xor", rg[1], i, x) : i \in Positions(rg[2]), x \in Masks(rg[2])} : rg \in regions}
Muts(alg) ==
  XorMuts("sig", SigRegions(alg)) \cup XorMuts("pk", PkRegions(alg)) \cup XorMuts("msg", MsgRegions)
  \cup {Mut(t, kd, "all", 0, 0) : t \in {"sig", "pk"}, kd \in {"trunc", "extend", "zero"}}
  \cup {Mut("sig", "swap", "all", 0, 0)}

AlgOf(op) == IF op \in {"secp.verify", "secp.recover"} THEN "secp" ELSE IF op = "ed.verify" THEN "ed" ELSE "bls"
SingleOps == {"secp.verify", "secp.recover", "ed.verify", "bls.verify"}
Single(op, k, m, vk, vm, mut) == [op |-> op, k |-> k, m |-> m, vk |-> vk, vm |-> vm, mut |-> mut,
                                  pairs |-> <<>>, comps |-> <<>>]
SingleScenarios ==
  UNION {
     \* honest, wrong key, wrong message: all combinations of keys and messages
     {Single(op, k, m, vk, vm, NoMut) : k \in K, m \in M, vk \in K, vm \in M}
     \* byte-level changes of a matching triple: every key / message (quick: a diagonal)
     \cup {Single(op, km[1], km[2], km[1], km[2], mu) :
              km \in (IF Tier = "thorough" THEN K \X M ELSE {<<1, 1>>, <<2, 3>>, <<3, 2>>}), mu \in Muts(AlgOf(op))}
  : op \in SingleOps}

\* aggregates: every list of at most 2 pairs against every list of 1..2 components over 2 keys x 2
\* messages, and a family with 3 components (subset wrong, duplicates, permutations)
KM2 == {[k |-> k, m |-> m] : k \in 1..2, m \in 1..2}
Seqs(S, lo, hi) == UNION {[1..n -> S] : n \in lo..hi}
AggCase(op, pairs, comps, vm, mut) == [op |-> op, k |-> 0, m |-> 0, vk |-> 0, vm |-> vm, mut |-> mut,
                                       pairs |-> pairs, comps |-> comps]
Three == <<[k |-> 1, m |-> 1], [k |-> 2, m |-> 2], [k |-> 3, m |-> 3]>>
Replace(s, i, x) == [s EXCEPT ![i] = x]
SelectSeq2(s, i) == [q \in 1..(Len(s) - 1) |-> IF q < i THEN s[q] ELSE s[q + 1]]   \* s without its i-th element
ThreeVariants ==
  {Three, <<Three[2], Three[3], Three[1]>>, <<Three[3], Three[2], Three[1]>>}
  \cup {Replace(Three, i, [k |-> Three[i].k, m |-> (Three[i].m % 3) + 1]) : i \in 1..3}          \* one wrong message
  \cup {Replace(Three, i, [k |-> (Three[i].k % 3) + 1, m |-> Three[i].m]) : i \in 1..3}          \* one wrong key
  \cup {Replace(Replace(Three, 1, [k |-> 2, m |-> 1]), 2, [k |-> 1, m |-> 2])}                   \* two swapped messages
  \cup {<<Three[1], Three[1], Three[2]>>, <<Three[1], Three[2], Three[2]>>, <<Three[1], Three[1], Three[1]>>}
  \cup {<<Three[1], Three[2]>>, <<Three[1]>>}
AggMuts == XorMuts("sig", SigRegions("bls")) \cup {Mut("sig", kd, "all", 0, 0) : kd \in {"trunc", "zero"}}
             \cup {Mut("pk", "xor", "body", 5, 1), Mut("pk", "zero", "all", 0, 0), Mut("msg", "xor", "m", 0, 1)}
AggScenarios ==
  {AggCase("bls.agg", p, cs, 0, NoMut) : p \in Seqs(KM2, 0, 2), cs \in Seqs(KM2, 1, 2)}
  \cup {AggCase("bls.agg", p, cs, 0, NoMut) : p \in ThreeVariants, cs \in ThreeVariants}
  \cup {AggCase("bls.agg", Three, Three, 0, mu) : mu \in AggMuts}
  \* fast aggregate: keys of `pairs` verify message vm; components may sign other messages
  \cup UNION {
       {AggCase(op, p, cs, vm, NoMut) : p \in Seqs({[k |-> k, m |-> 0] : k \in 1..2}, 0, 2), cs \in Seqs(KM2, 1, 2), vm \in 1..2}
       \cup {AggCase(op, [i \in 1..3 |-> [k |-> i, m |-> 0]], cs, 1, NoMut) :
                cs \in {[i \in 1..3 |-> [k |-> i, m |-> 1]], [i \in 1..3 |-> [k |-> 4 - i, m |-> 1]],
                        [i \in 1..3 |-> [k |-> i, m |-> IF i = 2 THEN 2 ELSE 1]], [i \in 1..2 |-> [k |-> i, m |-> 1]],
                        [i \in 1..3 |-> [k |-> IF i = 3 THEN 1 ELSE i, m |-> 1]]}}
       \cup {AggCase(op, [i \in 1..3 |-> [k |-> i, m |-> 0]], [i \in 1..3 |-> [k |-> i, m |-> 1]], 1, mu) : mu \in AggMuts}
     : op \in {"bls.fast", "bls.fast_anemone"}}

\* ---------------------------------------------------------------------------
\* Algebraically degenerate values (both tiers, nothing sampled).  They are encodings that NO key holder can have
\* produced: a public key that is nobody's (a small-order point of edwards25519 - honest keys are multiples of 8 of the
\* base point and never have small order -, the point at infinity of BLS12-381) and signatures written down without a
\* secret key (small-order R with s = 0 / 1 / the group order L, r or s equal to 0 or to the group order n, the
\* point at infinity).  In the ideal model such a key is JunkPk and such a signature JunkSig: nothing verifies.
\*   mut = [target |-> "craft", kind, region, idx, mask]  (meaning of region / idx / mask per kind, see harness)
Craft(kd, r, i, x) == Mut("craft", kd, r, i, x)
CraftPk  == {"ed.torsion", "ed.torsionPk", "bls.infPk", "bls.infBoth", "bls.infPkAt", "bls.infAll"}     \* the key is nobody's
CraftSig == {"ed.torsion", "ed.torsionR", "ed.sPlusL", "secp.r0", "secp.s0", "secp.r0s0", "secp.rn", "secp.sn", "secp.twin",
             "bls.infSig", "bls.infBoth", "bls.infAll"}                                                  \* nobody signed
EdS == {"s0", "s1", "sL"}
EdCraft ==
  \* small-order public key idx x small-order R mask x s over 2 messages (k only names the unused honest signer)
  {Single("ed.verify", 1, vm, 1, vm, Craft("ed.torsion", sv, i, j)) : vm \in 1..2, i \in 0..7, j \in 0..7, sv \in EdS}
  \* honest public key, small-order R, s = 0 / 1 / L / the honest s
  \cup {Single("ed.verify", k, k, k, k, Craft("ed.torsionR", sv, i, 0)) : k \in 1..2, i \in 0..7, sv \in EdS \cup {"sHonest"}}
  \* small-order public key against an honest signature
  \cup {Single("ed.verify", k, k, k, k, Craft("ed.torsionPk", "honest", i, 0)) : k \in 1..2, i \in 0..7}
  \* the honest signature with s + L (the same scalar, non-canonical encoding)
  \cup {Single("ed.verify", k, m, k, m, Craft("ed.sPlusL", "honest", 0, 0)) : k \in K, m \in 1..2}
\* secp256k1: r / s zero or equal to the group order, and the high-s twin (r, n - s) of an honest signature, each with
\* every recovery id (idx; 4 = the honest id, 5 = the honest id with its parity bit flipped)
SecpCraft ==
  {Single(op, k, k, k, k, Craft(kd, "v", v, 0)) : op \in {"secp.verify", "secp.recover"}, k \in K,
      kd \in {"secp.r0", "secp.s0", "secp.r0s0", "secp.rn", "secp.sn", "secp.twin"}, v \in 0..5}
\* BLS12-381: the point at infinity as public key / as signature, alone and inside aggregates
BlsCraft ==
  {Single("bls.verify", k, k, k, k, Craft(kd, "inf", 0, 0)) : k \in K, kd \in {"bls.infPk", "bls.infSig", "bls.infBoth"}}
  \* aggregate_verify: pair idx carries the infinity key; the signature aggregates the OTHER pairs' honest signatures
  \* (region "rest": the case that balances algebraically) or all of them (region "all")
  \cup UNION {{AggCase("bls.agg", p, IF r = "rest" THEN SelectSeq2(p, i) ELSE p, 0, Craft("bls.infPkAt", r, i, 0)) :
                  i \in 1..Len(p), r \in {"rest", "all"}} : p \in {<<Three[1], Three[2]>>, Three, <<Three[1], Three[1]>>}}
  \cup {AggCase("bls.agg", p, p, 0, Craft(kd, "inf", 0, 0)) : p \in {<<Three[1]>>, Three}, kd \in {"bls.infSig", "bls.infAll"}}
  \* fast_aggregate_verify (v1 and anemone): key idx of the list is the infinity key; components = the other keys / all
  \cup UNION {UNION {{AggCase(op, p, [q \in DOMAIN (IF r = "rest" THEN SelectSeq2(p, i) ELSE p) |->
                                          [k |-> (IF r = "rest" THEN SelectSeq2(p, i) ELSE p)[q].k, m |-> 1]], 1, Craft("bls.infPkAt", r, i, 0)) :
                         i \in 1..Len(p), r \in {"rest", "all"}}
                      : p \in {[q \in 1..2 |-> [k |-> q, m |-> 0]], [q \in 1..3 |-> [k |-> q, m |-> 0]]}}
                \cup {AggCase(op, p, [q \in DOMAIN p |-> [k |-> p[q].k, m |-> 1]], 1, Craft(kd, "inf", 0, 0)) :
                         p \in {<<[k |-> 1, m |-> 0]>>, [q \in 1..3 |-> [k |-> q, m |-> 0]]}, kd \in {"bls.infSig", "bls.infAll"}}
              : op \in {"bls.fast", "bls.fast_anemone"}}
CraftScenarios == EdCraft \cup SecpCraft \cup BlsCraft

Scenarios == SingleScenarios \cup AggScenarios \cup CraftScenarios

---------------------------------------------------------------------------
\* the terms a scenario hands to the primitive
IsCraft(s, kinds) == s.mut.target = "craft" /\ s.mut.kind \in kinds
SigTerm(s) == IF s.mut.target = "sig" \/ IsCraft(s, CraftSig) THEN JunkSig ELSE Sign(s.k, s.m)
PkTerm(s)  == IF s.mut.target = "pk" \/ IsCraft(s, CraftPk) THEN JunkPk ELSE PK(s.vk)
MsgTerm(s) == IF s.mut.target = "msg" THEN 0 ELSE s.vm
KeyName(k) == IF k = 1 THEN "k1" ELSE IF k = 2 THEN "k2" ELSE "k3"
Bool(b) == IF b THEN "true" ELSE "false"

\* in aggregate scenarios a changed public key is the first one of the list, a changed message the
\* first one (bls.agg) / the common one (bls.fast*)
AggPairs(s) ==
  [i \in DOMAIN s.pairs |->
     [pk |-> IF (s.mut.target = "pk" /\ i = 1) \/ (IsCraft(s, {"bls.infPkAt"}) /\ i = s.mut.idx) \/ IsCraft(s, {"bls.infAll"})
             THEN JunkPk ELSE PK(s.pairs[i].k),
      m  |-> IF s.op = "bls.agg"
             THEN (IF s.mut.target = "msg" /\ i = 1 THEN 0 ELSE s.pairs[i].m)
             ELSE (IF s.mut.target = "msg" THEN 0 ELSE s.vm)]]
AggTerm(s) == IF s.mut.target = "sig" \/ IsCraft(s, CraftSig) THEN JunkAgg ELSE Agg(s.comps)

\* The high-s twin (r, n - s) of an honest ECDSA signature is the one crafted value that is algebraically THE SAME
\* signature of the same key over the same message (DESIGN: Verify <=> sigma \in Sigs(alg, sk, m), a set).  The strict
\* reading ("any change to the signature makes verification fail") is kept for verify_secp256k1; for recovery the twin
\* may also return the signer - nothing that the key holder did not sign is accepted (multi-byte change, outside the
\* single-byte quantifier of the statement).  What the code does is recorded in the evidence.
Allowed(s) ==
  IF s.op = "secp.recover" /\ IsCraft(s, {"secp.twin"}) THEN {KeyName(s.k), "none", "other"}
  ELSE IF s.op = "secp.recover"
  THEN LET r == Recover(MsgTerm(s), SigTerm(s)) IN IF r = 0 THEN {"none", "other"} ELSE {KeyName(r)}
  ELSE IF s.op \in SingleOps THEN {Bool(Verify(PkTerm(s), MsgTerm(s), SigTerm(s)))}
  ELSE {Bool(AggVerify(AggPairs(s), AggTerm(s)))}

Init == c \in Scenarios
Next == UNCHANGED c
Spec == Init /\ [][Next]_c

\* S: laws of the ideal model on the scenario universe
Laws ==
  /\ c.op \in SingleOps /\ c.mut.target = "none" =>
        (Verify(PkTerm(c), MsgTerm(c), SigTerm(c)) <=> (c.k = c.vk /\ c.m = c.vm))
  /\ c.op \in SingleOps /\ c.mut.target # "none" => ~Verify(PkTerm(c), MsgTerm(c), SigTerm(c))
  /\ c.op \in SingleOps => (Recover(MsgTerm(c), SigTerm(c)) = c.k <=> (c.mut.target \notin {"sig", "msg"} /\ ~IsCraft(c, CraftSig) /\ c.m = c.vm))
  /\ c.op \notin SingleOps =>
        (AggVerify(AggPairs(c), AggTerm(c)) <=> EveryComponentValid(AggPairs(c), AggTerm(c)))
  /\ c.op \notin SingleOps /\ c.mut.target # "none" => ~AggVerify(AggPairs(c), AggTerm(c))
  \* a crafted (key, signature) - something no key holder produced - verifies for nobody and recovers no owned key
  /\ c.mut.target = "craft" /\ c.op \in SingleOps =>
        \A k \in K, m \in M : ~Verify(PkTerm(c), m, SigTerm(c)) /\ (c.mut.kind \in CraftSig => Recover(m, SigTerm(c)) = 0)
Emit == PrintT(<<"B", ToJson([s |-> c, allowed |-> Allowed(c)])>>)
=============================================================================

--------------------------- MODULE TraceMovements ---------------------------
(* impl -> spec for C38: recorded (prediction of the static analyser, actual movements of one
   successful execution) pairs.  Accounts A, B, C; resources F (fungible), N (non-fungible), X (XRD);
   amounts scaled by 4.  For every account:
     - every resource the account received lies within the predicted deposit bounds (Sat of
       Constraint.tla); a resource the prediction does not mention may only be received when the
       prediction says "unspecified resources may be present";
     - what it gave is exactly the sum of the predicted withdrawals;
     - an account that received / gave something has a predicted deposit / withdrawal;
     - the measurement is consistent: vault balance after - before = received - given.
   By construction of the traffic every account has at most one deposit call per manifest, so the
   per-call prediction can be compared with the per-account actuals.                          *)
EXTENDS Constraint, TraceIO, Sequences
VARIABLE l
Accts == {"A", "B", "C"}
Ress  == {"F", "N", "X"}
IsZero(bal) == Amt(bal) = 0
RECURSIVE SumAmt(_, _, _)
SumAmt(calls, r, i) == IF i > Len(calls) THEN 0 ELSE (IF calls[i].res = r THEN calls[i].a ELSE 0) + SumAmt(calls, r, i + 1)
RECURSIVE UnionIds(_, _, _)
UnionIds(calls, r, i) == IF i > Len(calls) THEN {} ELSE (IF calls[i].res = r THEN ToSet(calls[i].ids) ELSE {}) \cup UnionIds(calls, r, i + 1)
\* JSON id arrays -> sets inside a constraint record
CFix(c) == [c EXCEPT !.req = ToSet(@), !.allow = IF @.k = "list" THEN [k |-> "list", ids |-> ToSet(@.ids)] ELSE @]
BFix(b) == IF b.kind = "nf" THEN [kind |-> "nf", ids |-> ToSet(b.ids)] ELSE b

DepositOK(calls, got) ==       \* got: resource -> balance actually received
  IF Len(calls) = 0 THEN \A r \in Ress : IsZero(BFix(got[r]))
  ELSE IF Len(calls) > 1 THEN TRUE                      \* not produced by the traffic generator
  ELSE LET d == calls[1] IN
       \A r \in Ress : IF r \in ToSet(d.specified) THEN Sat(CFix(d.spec[r]), BFix(got[r]))
                       ELSE d.unspec \/ IsZero(BFix(got[r]))
\* wda = amounts that left the account according to its vault balances (received - net change - burned in place),
\* wd.ids = the ids its WithdrawEvents name (lock_fee_and_withdraw* emit none: then only the count is compared)
WithdrawOK(calls, a, feePayer) ==
  \A r \in Ress :
     \/ (r = "X" /\ feePayer)                      \* the fee payer's XRD vault also pays the fee: not comparable
     \/ IF a.wd[r].kind = "f" THEN a.wda[r] = SumAmt(calls, r, 1)
        ELSE /\ a.wda[r] = Whole * Cardinality(UnionIds(calls, r, 1))
             /\ ToSet(a.wd[r].ids) \subseteq UnionIds(calls, r, 1)
\* events and vault balances tell the same story wherever both speak
Measured(a, feePayer) == \A r \in Ress : (r = "X" /\ feePayer) \/ Amt(BFix(a.wd[r])) <= a.wda[r]

Checks(ev) ==
  << <<"deposit-within-bounds:A", DepositOK(ev.pred.dep["A"], ev.act["A"].dep)>>,
     <<"deposit-within-bounds:B", DepositOK(ev.pred.dep["B"], ev.act["B"].dep)>>,
     <<"deposit-within-bounds:C", DepositOK(ev.pred.dep["C"], ev.act["C"].dep)>>,
     <<"withdraw-as-predicted", \A a \in Accts : WithdrawOK(ev.pred.wd[a], ev.act[a], a = "A" /\ ev.fee_from_account)>>,
     <<"measurement-consistent", \A a \in Accts : Measured(ev.act[a], a = "A" /\ ev.fee_from_account)>> >>
Failed(ev) == LET c == Checks(ev) IN [i \in {j \in 1..Len(c) : ~c[j][2]} |-> c[i][1]]
TInit == l = 1
TNext == /\ l <= Len(Rec)
         /\ LET bad == Failed(Rec[l]) IN
            IF DOMAIN bad = {} THEN TRUE ELSE PrintT(<<"BAD", l>>) /\ PrintT(<<"WHY", l, {bad[i] : i \in DOMAIN bad}>>)
         /\ l' = l + 1
TSpec == TInit /\ [][TNext]_l
Post == PrintT(<<"DONE", TLCGet("stats").diameter - 1>>)
=============================================================================

------------------------------ MODULE Movements ------------------------------
(* C38.  What "the static bounds are sound" means, on a small model of a manifest execution over
   one fungible resource: the CONCRETE execution (worktop amount, one bucket, what account B
   received, what account A gave) next to an ABSTRACT interval analysis of the same manifest
   (lower / upper bound for worktop, bucket and deposit; Inf = unbounded), of the kind the static
   resource-movement analyser computes.  Calls into unknown components return an amount the
   analysis cannot know; TRY_DEPOSIT_OR_REFUND may deposit or hand the bucket back depending on the
   ledger state.  Soundness: in every non-failed execution every concrete quantity lies within
   its abstract interval - in particular Deposited and Withdrawn (the history variables of the
   property).  TraceMovements checks the same containment for the real analyser, with Sat of
   Constraint.tla as the membership test.                                                     *)
EXTENDS Integers, Sequences
CONSTANTS MaxAmt,         \* amounts used by instructions: 0..MaxAmt
          MaxSteps
Inf == 1000
VARIABLES wt, bk, dep, wd, failed,        \* concrete: worktop, bucket (-1 = none), deposited to B, withdrawn from A
          aWt, aBk, aDep, aWd,            \* abstract intervals <<lo, hi>> (aBk = <<-1, -1>> when there is no bucket)
          steps
vars == <<wt, bk, dep, wd, failed, aWt, aBk, aDep, aWd, steps>>

Max(a, b) == IF a > b THEN a ELSE b
Min(a, b) == IF a < b THEN a ELSE b
AddHi(a, b) == IF a >= Inf \/ b >= Inf THEN Inf ELSE a + b
Plus(i, j) == <<i[1] + j[1], AddHi(i[2], j[2])>>
In(x, i) == i[1] <= x /\ (i[2] >= Inf \/ x <= i[2])

Init == /\ wt = 0 /\ bk = -1 /\ dep = 0 /\ wd = 0 /\ failed = FALSE
        /\ aWt = <<0, 0>> /\ aBk = <<-1, -1>> /\ aDep = <<0, 0>> /\ aWd = <<0, 0>> /\ steps = 0
Tick == steps < MaxSteps /\ ~failed /\ steps' = steps + 1
Fail == failed' = TRUE /\ UNCHANGED <<wt, bk, dep, wd, aWt, aBk, aDep, aWd>>

Withdraw(x) == Tick /\ wt' = wt + x /\ wd' = wd + x /\ aWt' = Plus(aWt, <<x, x>>) /\ aWd' = Plus(aWd, <<x, x>>)
               /\ UNCHANGED <<bk, dep, failed, aBk, aDep>>
UnknownCall(k) == Tick /\ wt' = wt + k /\ aWt' = <<aWt[1], Inf>>          \* returns k, the analysis only knows ">= what was there"
               /\ UNCHANGED <<bk, dep, wd, failed, aBk, aDep, aWd>>
Take(y) == Tick /\ bk = -1 /\
           IF wt >= y
           THEN /\ wt' = wt - y /\ bk' = y /\ aWt' = <<Max(0, aWt[1] - y), IF aWt[2] >= Inf THEN Inf ELSE aWt[2] - y>>
                /\ aBk' = <<y, y>> /\ UNCHANGED <<dep, wd, failed, aDep, aWd>>
           ELSE Fail
TakeAll == Tick /\ bk = -1 /\ bk' = wt /\ wt' = 0 /\ aBk' = aWt /\ aWt' = <<0, 0>>
           /\ UNCHANGED <<dep, wd, failed, aDep, aWd>>
Return == Tick /\ bk >= 0 /\ wt' = wt + bk /\ bk' = -1 /\ aWt' = Plus(aWt, aBk) /\ aBk' = <<-1, -1>>
          /\ UNCHANGED <<dep, wd, failed, aDep, aWd>>
AssertAtLeast(z) == Tick /\ IF wt >= z THEN /\ aWt' = <<Max(aWt[1], z), aWt[2]>>
                                            /\ UNCHANGED <<wt, bk, dep, wd, failed, aBk, aDep, aWd>>
                                 ELSE Fail
Deposit == Tick /\ bk >= 0 /\ dep' = dep + bk /\ bk' = -1 /\ aDep' = Plus(aDep, aBk) /\ aBk' = <<-1, -1>>
           /\ UNCHANGED <<wt, wd, failed, aWt, aWd>>
TryDepositOrRefund(accepted) ==
  Tick /\ bk >= 0 /\ bk' = -1 /\ aBk' = <<-1, -1>>
  /\ aDep' = Plus(aDep, <<0, aBk[2]>>) /\ aWt' = Plus(aWt, <<0, aBk[2]>>)
  /\ (IF accepted THEN dep' = dep + bk /\ wt' = wt ELSE dep' = dep /\ wt' = wt + bk)
  /\ UNCHANGED <<wd, failed, aWd>>
Next == \/ \E x \in 1..MaxAmt : Withdraw(x) \/ Take(x) \/ AssertAtLeast(x)
        \/ \E k \in 0..2 : UnknownCall(k)
        \/ TakeAll \/ Return \/ Deposit
        \/ \E a \in BOOLEAN : TryDepositOrRefund(a)
Spec == Init /\ [][Next]_vars

Sound == ~failed => /\ In(wt, aWt) /\ (bk >= 0 => In(bk, aBk)) /\ (bk = -1 <=> aBk = <<-1, -1>>)
                    /\ In(dep, aDep)         \* Deposited within the deposit bounds
                    /\ In(wd, aWd)           \* Withdrawn within the withdraw bounds
Conserved == ~failed => wd <= dep + wt + Max(bk, 0)        \* nothing the accounts gave vanishes (unknown calls only add)
=============================================================================

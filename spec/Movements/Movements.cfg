SPECIFICATION Spec
CONSTANTS
  MaxAmt = 2
  MaxSteps = 5
INVARIANTS Sound Conserved
CHECK_DEADLOCK FALSE

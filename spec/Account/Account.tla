------------------------------ MODULE Account ------------------------------
(* C39.  The deposit rules of the native Account blueprint (radix-engine/src/blueprints/account/blueprint.rs),
   one action per public operation, as coded for the current protocol version (Bottlenose and later):

     try_deposit_or_refund / try_deposit_batch_or_refund  -> AccountBlueprintBottlenoseExtension (a named badge
         that is not an authorized depositor is treated like no badge: everything is returned)
     try_deposit_or_abort / try_deposit_batch_or_abort     -> still call the ORIGINAL refund code, in which a named
         badge that is not an authorized depositor is an error of its own (the call fails either way)
     deposit / deposit_batch                               -> owner role, no rules
     set_default_deposit_rule, set / remove_resource_preference, add / remove_authorized_depositor -> owner role

   A transaction is modelled with its surroundings: the buckets come from a source account, whatever the call
   returns goes to a sink account, so that "returned untouched" and "nothing else changes" are observable as
   balances.  A failed call fails the transaction: nothing changes anywhere.

   Pinned by reading the code:
     * whether a resource is allowed is evaluated for ALL buckets before anything is deposited (two buckets of a
       not-yet-held resource under AllowExisting are both refused);
     * an allowed deposit creates the vault even for an empty bucket, and a vault never disappears: afterwards the
       resource counts as existing for AllowExisting although the balance is 0;
     * if every bucket is allowed the named badge is not looked at at all;
     * the authorized-depositor list is keyed by the exact badge value: listing a non-fungible id does not list its
       resource and vice versa (badges b2 / b4 below are proven by the same proof);
     * "proven" is assert_access_rule(require(badge)) in the account's frame: proofs in the caller's auth zone or
       signature badges of the transaction.                                                        *)
EXTENDS Integers, Sequences, FiniteSets, TLC
CONSTANTS Resources,      \* set of resource names; "X" is XRD
          Badges,         \* subset of DOMAIN BadgeProof
          Amounts,        \* bucket amounts (0 = empty bucket)
          MaxBatch
XRD == "X"
\* which proof token proves which badge:  b1 = resource badge (fungible), b2 = non-fungible id #1# of resource BN,
\* b3 = signature badge of a key, b4 = the resource BN itself
BadgeProof == [b1 |-> "pF", b2 |-> "pN1", b3 |-> "sig", b4 |-> "pN1"]
ProofTokens == {BadgeProof[b] : b \in Badges}
Proves(b, P) == BadgeProof[b] \in P

VARIABLES default,      \* "accept" | "reject" | "existing"
          pref,         \* [Resources -> "allowed" | "disallowed" | "unset"]
          depositors,   \* set of badges
          vault,        \* set of resources the account has a vault of
          bal,          \* [Resources -> Int]   balances of the account
          src, sink,    \* [Resources -> Int]   balance CHANGES of the source / sink accounts since the start
          last          \* the last operation with its outcome
cfgvars == <<default, pref, depositors>>
vars == <<default, pref, depositors, vault, bal, src, sink, last>>

Buckets == [r : Resources, a : Amounts]
BucketLists(n) == UNION {[1..k -> Buckets] : k \in 0..n}
Callers == [named : Badges \cup {"none"}, proofs : SUBSET ProofTokens, owner : BOOLEAN]
NoCaller == [named |-> "none", proofs |-> {}, owner |-> FALSE]

Allowed(r) == IF pref[r] # "unset" THEN pref[r] = "allowed"
              ELSE default = "accept" \/ (default = "existing" /\ (r = XRD \/ r \in vault))
RECURSIVE SumOf(_, _, _)
SumOf(bs, r, i) == IF i > Len(bs) THEN 0 ELSE (IF bs[i].r = r THEN bs[i].a ELSE 0) + SumOf(bs, r, i + 1)
Total(bs) == [r \in Resources |-> SumOf(bs, r, 1)]
ResOf(bs) == {bs[i].r : i \in DOMAIN bs}
Ev(kind, b) == [k |-> kind, r |-> b.r, a |-> b.a]
Offending(bs) == SelectSeq(bs, LAMBDA b : ~Allowed(b.r))

NoArg == <<"-", "-">>      \* the argument of a configuration operation is always a pair of strings
Record(op, arg, bs, c, class, returned, events) ==
  last' = [op |-> op, arg |-> arg, bs |-> bs, c |-> c, class |-> class, returned |-> returned, events |-> events]
\* the call went through and put every bucket into the account
DepositAll(op, bs, c) ==
  /\ bal' = [r \in Resources |-> bal[r] + Total(bs)[r]]
  /\ vault' = vault \cup ResOf(bs)
  /\ src' = [r \in Resources |-> src[r] - Total(bs)[r]]
  /\ UNCHANGED <<cfgvars, sink>>
  /\ Record(op, NoArg, bs, c, "ok", <<>>, [i \in DOMAIN bs |-> Ev("deposit", bs[i])])
\* the call went through and handed every bucket back (they end in the sink account)
ReturnAll(op, bs, c) ==
  /\ sink' = [r \in Resources |-> sink[r] + Total(bs)[r]]
  /\ src' = [r \in Resources |-> src[r] - Total(bs)[r]]
  /\ UNCHANGED <<cfgvars, vault, bal>>
  /\ Record(op, NoArg, bs, c, "ok", bs, [i \in DOMAIN Offending(bs) |-> Ev("rejected", Offending(bs)[i])])
Fail(op, arg, bs, c, class) ==
  /\ UNCHANGED <<cfgvars, vault, bal, src, sink>>
  /\ Record(op, arg, bs, c, class, <<>>, <<>>)

\* try_deposit_or_refund (one bucket) / try_deposit_batch_or_refund
TryRefund(op, bs, c) ==
  IF Offending(bs) = <<>> THEN DepositAll(op, bs, c)
  ELSE IF c.named # "none" /\ c.named \in depositors
       THEN (IF Proves(c.named, c.proofs) THEN DepositAll(op, bs, c) ELSE Fail(op, NoArg, bs, c, "AssertAccessRuleFailed"))
       ELSE ReturnAll(op, bs, c)
\* try_deposit_or_abort / try_deposit_batch_or_abort
TryAbort(op, bs, c) ==
  IF Offending(bs) = <<>> THEN DepositAll(op, bs, c)
  ELSE IF c.named # "none"
       THEN (IF c.named \notin depositors THEN Fail(op, NoArg, bs, c, "NotAnAuthorizedDepositor")
             ELSE IF Proves(c.named, c.proofs) THEN DepositAll(op, bs, c)
             ELSE Fail(op, NoArg, bs, c, "AssertAccessRuleFailed"))
       ELSE Fail(op, NoArg, bs, c, IF op = "try_deposit_or_abort" THEN "DepositIsDisallowed" ELSE "NotAllBucketsCouldBeDeposited")
\* deposit / deposit_batch: owner only, no rules
OwnerDeposit(op, bs, c) == IF c.owner THEN DepositAll(op, bs, c) ELSE Fail(op, NoArg, bs, c, "Unauthorized")

Single(bs) == Len(bs) = 1
Call(op, bs, c) ==
  CASE op = "try_deposit_or_refund" -> Single(bs) /\ TryRefund(op, bs, c)
    [] op = "try_deposit_batch_or_refund" -> TryRefund(op, bs, c)
    [] op = "try_deposit_or_abort" -> Single(bs) /\ TryAbort(op, bs, c)
    [] op = "try_deposit_batch_or_abort" -> TryAbort(op, bs, c)
    [] op = "deposit" -> Single(bs) /\ OwnerDeposit(op, bs, c)
    [] op = "deposit_batch" -> OwnerDeposit(op, bs, c)
TryOps == {"try_deposit_or_refund", "try_deposit_batch_or_refund", "try_deposit_or_abort", "try_deposit_batch_or_abort"}
OwnerOps == {"deposit", "deposit_batch"}

\* configuration (owner role)
Config(op, arg, c, d, p, ds) ==
  IF c.owner
  THEN /\ default' = d /\ pref' = p /\ depositors' = ds
       /\ UNCHANGED <<vault, bal, src, sink>>
       /\ Record(op, arg, <<>>, c, "ok", <<>>, <<>>)
  ELSE Fail(op, arg, <<>>, c, "Unauthorized")
SetDefault(d, c) == Config("set_default_deposit_rule", <<d, "-">>, c, d, pref, depositors)
SetPref(r, p, c) == Config("set_resource_preference", <<r, p>>, c, default, [pref EXCEPT ![r] = p], depositors)
RemovePref(r, c) == Config("remove_resource_preference", <<r, "-">>, c, default, [pref EXCEPT ![r] = "unset"], depositors)
AddDepositor(b, c) == Config("add_authorized_depositor", <<b, "-">>, c, default, pref, depositors \cup {b})
RemoveDepositor(b, c) == Config("remove_authorized_depositor", <<b, "-">>, c, default, pref, depositors \ {b})

Zero == [r \in Resources |-> 0]
Init == /\ default = "accept" /\ pref = [r \in Resources |-> "unset"] /\ depositors = {} /\ vault = {}
        /\ bal = Zero /\ src = Zero /\ sink = Zero
        /\ last = [op |-> "init", arg |-> NoArg, bs |-> <<>>, c |-> NoCaller, class |-> "ok", returned |-> <<>>, events |-> <<>>]
\* callers that matter for the operation: badges / proofs for the guarded deposits, the owner flag for the others
TryCallers == {c \in Callers : ~c.owner}
OwnerCallers == {c \in Callers : c.named = "none" /\ c.proofs = {}}
NextCall == \/ \E op \in TryOps, bs \in BucketLists(MaxBatch), c \in TryCallers : Call(op, bs, c)
            \/ \E op \in OwnerOps, bs \in BucketLists(MaxBatch), c \in OwnerCallers : Call(op, bs, c)
NextConfig == \E c \in OwnerCallers :
                \/ \E d \in {"accept", "reject", "existing"} : SetDefault(d, c)
                \/ \E r \in Resources : RemovePref(r, c) \/ \E p \in {"allowed", "disallowed"} : SetPref(r, p, c)
                \/ \E b \in Badges : AddDepositor(b, c) \/ RemoveDepositor(b, c)
Next == NextCall \/ NextConfig
Spec == Init /\ [][Next]_vars

---------------------------------------------------------------------------
(* C39, stated independently of the control flow above, over the pre-state of a guarded deposit           *)
IsTry == last'.op \in TryOps
IsAbort == last'.op \in {"try_deposit_or_abort", "try_deposit_batch_or_abort"}
LBs == last'.bs
LC == last'.c
AllAllowed == \A i \in DOMAIN LBs : Allowed(LBs[i].r)                       \* Allowed reads the unprimed state
Vouched == LC.named # "none" /\ LC.named \in depositors /\ Proves(LC.named, LC.proofs)
ListedUnproven == LC.named # "none" /\ LC.named \in depositors /\ ~Proves(LC.named, LC.proofs)
Failed == last'.class # "ok"
DepositedAll == ~Failed /\ last'.returned = <<>> /\ \A r \in Resources : bal'[r] = bal[r] + Total(LBs)[r]
ReturnedAll == ~Failed /\ last'.returned = LBs /\ bal' = bal /\ vault' = vault
\* everything is deposited exactly when every resource is allowed or a listed badge is named and proven
DepositsExactly == [][IsTry => (DepositedAll <=> (AllAllowed \/ Vouched))]_vars
\* a refused bucket with a listed but unproven badge fails the call; abort variants fail whenever not everything is deposited
FailsExactly == [][IsTry => (Failed <=> (~AllAllowed /\ (ListedUnproven \/ (IsAbort /\ ~Vouched))))]_vars
\* otherwise all buckets come back untouched and the account is unchanged
OtherwiseReturned == [][IsTry /\ ~DepositedAll /\ ~Failed => ReturnedAll]_vars
\* the owner's deposits ignore the rules
OwnerBypasses == [][last'.op \in OwnerOps => (IF LC.owner THEN DepositedAll ELSE Failed)]_vars
\* frame: a deposit never touches the configuration, balances change only for the deposited resources, vaults only
\* appear (for the deposited resources); a failed operation changes nothing at all
Frame == [][/\ (last'.op \in TryOps \cup OwnerOps => UNCHANGED cfgvars)
            /\ \A r \in Resources : bal'[r] # bal[r] => r \in ResOf(LBs) /\ DepositedAll
            /\ vault \subseteq vault' /\ (vault' \ vault) \subseteq (IF DepositedAll THEN ResOf(LBs) ELSE {})
            /\ (Failed => UNCHANGED <<cfgvars, vault, bal, src, sink>>)]_vars
\* nothing is created or lost: what left the source is in the account or in the sink
Conserved == \A r \in Resources : src[r] + bal[r] + sink[r] = 0
\* events: one Deposit per bucket when deposited, one RejectedDeposit per refused bucket when returned
EventsMatch == [][IsTry \/ last'.op \in OwnerOps =>
                    IF DepositedAll THEN Len(last'.events) = Len(LBs) /\ \A i \in DOMAIN LBs : last'.events[i] = Ev("deposit", LBs[i])
                    ELSE IF Failed THEN last'.events = <<>>
                    ELSE \A i \in DOMAIN last'.events : last'.events[i].k = "rejected" /\ ~Allowed(last'.events[i].r)]_vars
TypeOK == default \in {"accept", "reject", "existing"} /\ depositors \subseteq Badges /\ vault \subseteq Resources
=============================================================================
